/-
  Helper lemmas for C14, part 7: what no start can read does not matter. `scrub` removes journal
  records of a foreign run id or without an index member, and a snapshot of a foreign run id; a start
  reads the same from the scrubbed namespace, every request keeps two namespaces that agree after
  scrubbing in agreement, hence so does every step of the split-queue system. Core only.
-/
import GunYu.Model.FrontierRenumber
import GunYu.Proofs.FrontierTraffic

namespace GunYu.Frontier
open GunYu

set_option linter.unusedSimpArgs false
set_option linter.unusedVariables false

/-! ### lists -/

theorem find?_filter_some {α : Type} (P q : α → Bool) :
    ∀ (l : List α) (a : α), l.find? P = some a → q a = true → (l.filter q).find? P = some a := by
  intro l
  induction l with
  | nil => intro a h; simp at h
  | cons x l ih =>
    intro a h hq
    by_cases hx : P x = true
    · simp only [List.find?_cons, hx] at h
      simp only [Option.some.injEq] at h
      subst h
      simp only [List.filter_cons, hq, if_true, List.find?_cons, hx]
    · have hx' : P x = false := by simpa using hx
      simp only [List.find?_cons, hx'] at h
      by_cases hqx : q x = true
      · simp only [List.filter_cons, hqx, if_true, List.find?_cons, hx']
        exact ih a h hq
      · have hqx' : q x = false := by simpa using hqx
        simp only [List.filter_cons, hqx', Bool.false_eq_true, if_false]
        exact ih a h hq

theorem find?_filter_none {α : Type} (P q : α → Bool) (l : List α) (h : l.find? P = none) :
    (l.filter q).find? P = none := by
  rw [List.find?_eq_none] at h ⊢
  intro x hx
  exact h x (List.mem_filter.mp hx).1

theorem filterMap_congr' {α β : Type} (f g : α → Option β) :
    ∀ (l : List α), (∀ x ∈ l, f x = g x) → l.filterMap f = l.filterMap g := by
  intro l
  induction l with
  | nil => intro _; rfl
  | cons x l ih =>
    intro h
    simp only [List.filterMap_cons]
    rw [h x (List.mem_cons_self ..), ih (fun y hy => h y (List.mem_cons_of_mem _ hy))]

theorem filter_congr' {α : Type} (p q : α → Bool) :
    ∀ (l : List α), (∀ x ∈ l, p x = q x) → l.filter p = l.filter q := by
  intro l
  induction l with
  | nil => intro _; rfl
  | cons x l ih =>
    intro h
    simp only [List.filter_cons]
    rw [h x (List.mem_cons_self ..), ih (fun y hy => h y (List.mem_cons_of_mem _ hy))]

/-! ### every journal hash is THE hash with its key -/

def UniqueL (J : List JRec) : Prop := ∀ j ∈ J, J.find? (fun x => x.kseq = j.kseq) = some j

theorem uniqueL_filter {J : List JRec} (q : JRec → Bool) (h : UniqueL J) : UniqueL (J.filter q) := by
  intro j hj
  obtain ⟨hm, hq⟩ := List.mem_filter.mp hj
  exact find?_filter_some _ q J j (h j hm) hq

theorem uniqueL_commit {J : List JRec} (k : Int) (r : Rec) (h : UniqueL J) :
    UniqueL (J.filter (fun j => decide (j.kseq ≠ k)) ++ [⟨k, r⟩]) := by
  intro j hj
  rw [List.find?_append]
  rcases List.mem_append.mp hj with hj | hj
  · rw [uniqueL_filter _ h j hj]; rfl
  · have hjk : j = ⟨k, r⟩ := by simpa using hj
    subst hjk
    have : (J.filter (fun j => decide (j.kseq ≠ k))).find? (fun x => decide (x.kseq = k)) = none := by
      rw [List.find?_eq_none]
      intro x hx
      have := (List.mem_filter.mp hx).2
      simpa using this
    simp only
    rw [this]
    simp

/-- two records with the same key are the same record -/
theorem uniqueL_eq {J : List JRec} (h : UniqueL J) {a b : JRec} (ha : a ∈ J) (hb : b ∈ J)
    (hk : a.kseq = b.kseq) : a = b := by
  have h1 := h a ha
  have h2 := h b hb
  rw [hk] at h1
  rw [h1] at h2
  exact Option.some.inj h2

theorem uniqueKeys_applyReq {ns : NS} (h : UniqueKeys ns) (q : Req) : UniqueKeys (applyReq ns q) := by
  cases q with
  | saveFrontier f => exact h
  | delRec k => exact uniqueL_filter _ h
  | zrem ks => exact h
  | delFrontier => exact h
  | commit r => exact uniqueL_commit r.seq r h
  | commitLatest r => exact h

theorem uniqueKeys_scrub {ns : NS} (ids : List Bytes) (h : UniqueKeys ns) : UniqueKeys (scrub ids ns) :=
  uniqueL_filter _ h

/-! ### a start reads the same -/

theorem loadSnapshot_scrub (ids : List Bytes) (ns : NS) : loadSnapshot (scrub ids ns) ids = loadSnapshot ns ids := by
  unfold loadSnapshot scrub scrubF
  cases hf : ns.frontier with
  | none => rfl
  | some f =>
    simp only
    cases hm : matchRun f.runId ids with
    | true => simp [hm]
    | false => simp [hm]

theorem scrub_index (ids : List Bytes) (ns : NS) : (scrub ids ns).index = ns.index := rfl
theorem scrub_root (ids : List Bytes) (ns : NS) : (scrub ids ns).root = ns.root := rfl

theorem loadRecords_scrub (ids : List Bytes) {ns : NS} (hu : UniqueKeys ns) (m : Int) :
    loadRecords (scrub ids ns) ids m = loadRecords ns ids m := by
  unfold loadRecords
  rw [scrub_index]
  apply filterMap_congr'
  intro p hp
  have hpi : p ∈ ns.index := (List.mem_filter.mp ((mem_idxSort p _).mp hp)).1
  show (match (ns.journal.filter (readable ids ns.index)).find? (fun j => decide (j.kseq = p.2)) with
      | none => none
      | some j => if matchRun j.r.runId ids = true then some j else none) = _
  cases hf : ns.journal.find? (fun j => decide (j.kseq = p.2)) with
  | none => rw [find?_filter_none _ _ _ hf]
  | some j =>
    have hjk : j.kseq = p.2 := by simpa using List.find?_some hf
    have hjm : j ∈ ns.journal := List.mem_of_find?_eq_some hf
    cases hm : matchRun j.r.runId ids with
    | true =>
      have hr : readable ids ns.index j = true := by
        unfold readable
        rw [hm]
        simp only [Bool.true_and, List.any_eq_true]
        exact ⟨p, hpi, by simpa using hjk.symm⟩
      rw [find?_filter_some _ _ _ j hf hr]
    | false =>
      -- the only record with this key is not readable: the scrubbed journal has none
      have hnone : (ns.journal.filter (readable ids ns.index)).find? (fun j => decide (j.kseq = p.2)) = none := by
        rw [List.find?_eq_none]
        intro x hx
        obtain ⟨hxm, hxr⟩ := List.mem_filter.mp hx
        intro hxk
        have hxk' : x.kseq = p.2 := by simpa using hxk
        have : x = j := uniqueL_eq hu hxm hjm (by rw [hxk', hjk])
        subst this
        unfold readable at hxr
        rw [hm] at hxr
        simp at hxr
      rw [hnone]
      simp [hm]

theorem startRecords_scrub (ids : List Bytes) {ns : NS} (hu : UniqueKeys ns) :
    startRecords (scrub ids ns) ids = startRecords ns ids := by
  unfold startRecords
  rw [loadSnapshot_scrub, loadRecords_scrub ids hu]

theorem purgeReqs_scrub (ids : List Bytes) {ns : NS} (hu : UniqueKeys ns) :
    purgeReqs (scrub ids ns) ids = purgeReqs ns ids := by
  unfold purgeReqs
  rw [loadRecords_scrub ids hu]

theorem startFrontier_scrub (ver : Bytes) (ids : List Bytes) {ns : NS} (hu : UniqueKeys ns) :
    startFrontier ver (scrub ids ns) ids = startFrontier ver ns ids := by
  unfold startFrontier restartFromRoot
  rw [scrub_root, loadSnapshot_scrub, startRecords_scrub ids hu, purgeReqs_scrub ids hu]

/-! ### scrubbing commutes with every request, up to scrubbing -/

theorem scrubF_idem (ids : List Bytes) (o : Option Snap) : scrubF ids (scrubF ids o) = scrubF ids o := by
  cases o with
  | none => rfl
  | some f =>
    unfold scrubF
    cases hm : matchRun f.runId ids with
    | true => simp [hm]
    | false => simp [hm]

theorem scrub_eq (ids : List Bytes) (a b : NS) (hr : a.root = b.root)
    (hf : scrubF ids a.frontier = scrubF ids b.frontier)
    (hj : a.journal.filter (readable ids a.index) = b.journal.filter (readable ids b.index))
    (hi : a.index = b.index) (hl : a.latest = b.latest) : scrub ids a = scrub ids b := by
  unfold scrub
  rw [hr, hf, hj, hi, hl]

theorem scrub_idem (ids : List Bytes) (ns : NS) : scrub ids (scrub ids ns) = scrub ids ns := by
  apply scrub_eq
  · rfl
  · exact scrubF_idem ids ns.frontier
  · show (ns.journal.filter (readable ids ns.index)).filter (readable ids ns.index) = _
    rw [List.filter_filter]
    apply filter_congr'
    intro x _
    cases readable ids ns.index x <;> rfl
  · rfl
  · rfl

theorem readable_sub (ids : List Bytes) (ix ix' : List (Int × Int)) (j : JRec)
    (h : ∀ p ∈ ix', p ∈ ix) (hr : readable ids ix' j = true) : readable ids ix j = true := by
  unfold readable at hr ⊢
  simp only [Bool.and_eq_true, List.any_eq_true] at hr ⊢
  obtain ⟨a, p, hp, hk⟩ := hr
  exact ⟨a, p, h p hp, hk⟩

theorem scrub_applyReq (ids : List Bytes) (ns : NS) (q : Req) :
    scrub ids (applyReq ns q) = scrub ids (applyReq (scrub ids ns) q) := by
  have hjj : (ns.journal.filter (readable ids ns.index)).filter (readable ids ns.index) =
      ns.journal.filter (readable ids ns.index) := by
    rw [List.filter_filter]
    apply filter_congr'
    intro x _
    cases readable ids ns.index x <;> rfl
  cases q with
  | saveFrontier f =>
    apply scrub_eq
    · rfl
    · rfl
    · exact hjj.symm
    · rfl
    · rfl
  | delFrontier =>
    apply scrub_eq
    · rfl
    · rfl
    · exact hjj.symm
    · rfl
    · rfl
  | commitLatest r =>
    apply scrub_eq
    · rfl
    · exact (scrubF_idem ids ns.frontier).symm
    · exact hjj.symm
    · rfl
    · rfl
  | delRec k =>
    apply scrub_eq
    · rfl
    · exact (scrubF_idem ids ns.frontier).symm
    · show (ns.journal.filter (fun j => decide (j.kseq ≠ k))).filter (readable ids ns.index) =
        ((ns.journal.filter (readable ids ns.index)).filter (fun j => decide (j.kseq ≠ k))).filter (readable ids ns.index)
      rw [List.filter_filter, List.filter_filter, List.filter_filter]
      apply filter_congr'
      intro x _
      cases readable ids ns.index x <;> cases decide (x.kseq ≠ k) <;> rfl
    · rfl
    · rfl
  | zrem ks =>
    apply scrub_eq
    · rfl
    · exact (scrubF_idem ids ns.frontier).symm
    · have hix : (applyReq (scrub ids ns) (Req.zrem ks)).index = (applyReq ns (Req.zrem ks)).index := rfl
      have hjn : (applyReq ns (Req.zrem ks)).journal = ns.journal := rfl
      have hjs : (applyReq (scrub ids ns) (Req.zrem ks)).journal = ns.journal.filter (readable ids ns.index) := rfl
      have hsub : ∀ p ∈ (applyReq ns (Req.zrem ks)).index, p ∈ ns.index := by
        intro p hp
        simp only [applyReq] at hp
        exact (List.mem_filter.mp hp).1
      rw [hix, hjn, hjs, List.filter_filter]
      generalize (applyReq ns (Req.zrem ks)).index = ix' at hsub
      apply filter_congr'
      intro x _
      cases h1 : readable ids ix' x with
      | false => rfl
      | true =>
        rw [readable_sub ids ns.index ix' x hsub h1]
        rfl
    · rfl
    · rfl
  | commit r =>
    -- for a key other than the unit's, readable before and after is the same
    have hrd : ∀ x : JRec, x.kseq ≠ r.seq →
        readable ids (ns.index.filter (fun p => decide (p.2 ≠ r.seq)) ++ [(r.seq, r.seq)]) x = readable ids ns.index x := by
      intro x hne
      unfold readable
      congr 1
      rw [Bool.eq_iff_iff]
      simp only [List.any_eq_true, List.mem_append, List.mem_filter, List.mem_singleton]
      constructor
      · rintro ⟨p, (⟨hp, _⟩ | hp), hpk⟩
        · exact ⟨p, hp, hpk⟩
        · rw [hp] at hpk
          simp only [beq_iff_eq] at hpk
          exact absurd hpk.symm hne
      · rintro ⟨p, hp, hpk⟩
        refine ⟨p, Or.inl ⟨hp, ?_⟩, hpk⟩
        simp only [beq_iff_eq] at hpk
        simp only [decide_eq_true_eq]
        rw [hpk]; exact hne
    apply scrub_eq
    · rfl
    · exact (scrubF_idem ids ns.frontier).symm
    · show (ns.journal.filter (fun j => decide (j.kseq ≠ r.seq)) ++ [(⟨r.seq, r⟩ : JRec)]).filter
          (readable ids (ns.index.filter (fun p => decide (p.2 ≠ r.seq)) ++ [(r.seq, r.seq)])) =
        ((ns.journal.filter (readable ids ns.index)).filter (fun j => decide (j.kseq ≠ r.seq)) ++ [(⟨r.seq, r⟩ : JRec)]).filter
          (readable ids (ns.index.filter (fun p => decide (p.2 ≠ r.seq)) ++ [(r.seq, r.seq)]))
      rw [List.filter_append, List.filter_append]
      congr 1
      rw [List.filter_filter, List.filter_filter, List.filter_filter]
      apply filter_congr'
      intro x _
      cases hk : decide (x.kseq ≠ r.seq) with
      | false => simp
      | true =>
        have hne : x.kseq ≠ r.seq := by simpa using hk
        rw [hrd x hne]
        cases readable ids ns.index x <;> rfl
    · rfl
    · rfl

/-! ### the split-queue system -/

theorem scrubS_eq (ids : List Bytes) (a b : TSys) (hns : scrub ids a.ns = scrub ids b.ns)
    (hc : a.committed = b.committed) (hr : a.run = b.run) (hq : a.rq = b.rq) (hcq : a.cq = b.cq) :
    scrubS ids a = scrubS ids b := by
  unfold scrubS
  rw [hns, hc, hr, hq, hcq]

theorem scrubS_idem (ids : List Bytes) (s : TSys) : scrubS ids (scrubS ids s) = scrubS ids s :=
  scrubS_eq ids _ _ (scrub_idem ids s.ns) rfl rfl rfl rfl

/-- a step on a state and on its scrubbed version agree after scrubbing -/
theorem tstep_scrub (W : World) {s : TSys} (hu : UniqueKeys s.ns) (st : Step) :
    scrubS W.ids (tstep W s st) = scrubS W.ids (tstep W (scrubS W.ids s) st) := by
  have hsf := startFrontier_scrub W.ver W.ids hu
  have hidem := (scrubS_idem W.ids s).symm
  cases st with
  | start =>
    cases hr : s.run with
    | some r =>
      have e1 : tstep W s .start = s := by simp [tstep, hr]
      have e2 : tstep W (scrubS W.ids s) .start = scrubS W.ids s := by simp [tstep, scrubS, hr]
      rw [e1, e2]; exact hidem
    | none =>
      have e1 : tstep W s .start = tstartRun W s := by simp [tstep, hr]
      have e2 : tstep W (scrubS W.ids s) .start = tstartRun W (scrubS W.ids s) := by simp [tstep, scrubS, hr]
      rw [e1, e2]
      unfold tstartRun
      rw [show (scrubS W.ids s).ns = scrub W.ids s.ns from rfl, hsf]
      cases hst : startFrontier W.ver s.ns W.ids with
      | mk p reqs =>
        cases p with
        | empty => exact hidem
        | point db rid off seq =>
          exact scrubS_eq W.ids _ _ (scrub_idem W.ids s.ns).symm rfl rfl rfl rfl
  | commit i mt =>
    cases hr : s.run with
    | none =>
      have e1 : tstep W s (.commit i mt) = s := by simp [tstep, hr]
      have e2 : tstep W (scrubS W.ids s) (.commit i mt) = scrubS W.ids s := by simp [tstep, scrubS, hr]
      rw [e1, e2]; exact hidem
    | some r =>
      by_cases hc : s.rq = [] ∧ r.startSeq < i
      · have e1 : tstep W s (.commit i mt) =
            { s with ns := applyReq s.ns (Req.commit (unitRec W i mt)), committed := i :: s.committed } := by
          simp [tstep, hr, hc]
        have e2 : tstep W (scrubS W.ids s) (.commit i mt) =
            { scrubS W.ids s with ns := applyReq (scrub W.ids s.ns) (Req.commit (unitRec W i mt)), committed := i :: s.committed } := by
          simp [tstep, scrubS, hr, hc]
        rw [e1, e2]
        exact scrubS_eq W.ids _ _ (scrub_applyReq W.ids s.ns _) rfl rfl rfl rfl
      · have e1 : tstep W s (.commit i mt) = s := by simp [tstep, hr, hc]
        have e2 : tstep W (scrubS W.ids s) (.commit i mt) = scrubS W.ids s := by simp [tstep, scrubS, hr, hc]
        rw [e1, e2]; exact hidem
  | report i mt now =>
    cases hr : s.run with
    | none =>
      have e1 : tstep W s (.report i mt now) = s := by simp [tstep, hr]
      have e2 : tstep W (scrubS W.ids s) (.report i mt now) = scrubS W.ids s := by simp [tstep, scrubS, hr]
      rw [e1, e2]; exact hidem
    | some r =>
      by_cases hc : s.rq = [] ∧ i ∈ s.committed ∧ r.startSeq < i
      · have e1 : tstep W s (.report i mt now) = { s with
            run := some { r with coord := (coordOnCommitted r.coord (unitRec W i mt) now W.pol).1 },
            cq := s.cq ++ (coordOnCommitted r.coord (unitRec W i mt) now W.pol).2 } := by
          simp [tstep, hr, hc]
        have e2 : tstep W (scrubS W.ids s) (.report i mt now) = { scrubS W.ids s with
            run := some { r with coord := (coordOnCommitted r.coord (unitRec W i mt) now W.pol).1 },
            cq := s.cq ++ (coordOnCommitted r.coord (unitRec W i mt) now W.pol).2 } := by
          simp [tstep, scrubS, hr, hc]
        rw [e1, e2]
        exact scrubS_eq W.ids _ _ (scrub_idem W.ids s.ns).symm rfl rfl rfl rfl
      · have e1 : tstep W s (.report i mt now) = s := by simp [tstep, hr, hc]
        have e2 : tstep W (scrubS W.ids s) (.report i mt now) = scrubS W.ids s := by simp [tstep, scrubS, hr, hc]
        rw [e1, e2]; exact hidem
  | tick now =>
    cases hr : s.run with
    | none =>
      have e1 : tstep W s (.tick now) = s := by simp [tstep, hr]
      have e2 : tstep W (scrubS W.ids s) (.tick now) = scrubS W.ids s := by simp [tstep, scrubS, hr]
      rw [e1, e2]; exact hidem
    | some r =>
      by_cases hc : s.rq = []
      · have e1 : tstep W s (.tick now) = { s with
            run := some { r with coord := (coordFlush r.coord now).1 },
            cq := s.cq ++ (coordFlush r.coord now).2 } := by
          simp [tstep, hr, hc]
        have e2 : tstep W (scrubS W.ids s) (.tick now) = { scrubS W.ids s with
            run := some { r with coord := (coordFlush r.coord now).1 },
            cq := s.cq ++ (coordFlush r.coord now).2 } := by
          simp [tstep, scrubS, hr, hc]
        rw [e1, e2]
        exact scrubS_eq W.ids _ _ (scrub_idem W.ids s.ns).symm rfl rfl rfl rfl
      · have e1 : tstep W s (.tick now) = s := by simp [tstep, hr, hc]
        have e2 : tstep W (scrubS W.ids s) (.tick now) = scrubS W.ids s := by simp [tstep, scrubS, hr, hc]
        rw [e1, e2]; exact hidem
  | apply =>
    cases hq : s.rq with
    | cons q rest =>
      have e1 : tstep W s .apply = { s with ns := applyReq s.ns q, rq := rest } := by simp [tstep, hq]
      have e2 : tstep W (scrubS W.ids s) .apply = { scrubS W.ids s with ns := applyReq (scrub W.ids s.ns) q, rq := rest } := by
        simp [tstep, scrubS, hq]
      rw [e1, e2]
      exact scrubS_eq W.ids _ _ (scrub_applyReq W.ids s.ns _) rfl rfl rfl rfl
    | nil =>
      cases hc : s.cq with
      | nil =>
        have e1 : tstep W s .apply = s := by simp [tstep, hq, hc]
        have e2 : tstep W (scrubS W.ids s) .apply = scrubS W.ids s := by simp [tstep, scrubS, hq, hc]
        rw [e1, e2]; exact hidem
      | cons q rest =>
        have e1 : tstep W s .apply = { s with ns := applyReq s.ns q, cq := rest } := by simp [tstep, hq, hc]
        have e2 : tstep W (scrubS W.ids s) .apply = { scrubS W.ids s with ns := applyReq (scrub W.ids s.ns) q, cq := rest } := by
          simp [tstep, scrubS, hq, hc]
        rw [e1, e2]
        exact scrubS_eq W.ids _ _ (scrub_applyReq W.ids s.ns _) rfl rfl rfl rfl
  | crash =>
    exact scrubS_eq W.ids _ _ (scrub_idem W.ids s.ns).symm rfl rfl rfl rfl

theorem tstep_uniqueKeys (W : World) {s : TSys} (hu : UniqueKeys s.ns) (st : Step) :
    UniqueKeys (tstep W s st).ns := by
  cases st with
  | start =>
    simp only [tstep]
    cases hr : s.run with
    | some r => exact hu
    | none =>
      simp only [tstartRun]
      cases hst : startFrontier W.ver s.ns W.ids with
      | mk p reqs => cases p <;> exact hu
  | commit i mt =>
    simp only [tstep]
    cases hr : s.run with
    | none => exact hu
    | some r =>
      simp only
      split
      · exact uniqueKeys_applyReq hu _
      · exact hu
  | report i mt now =>
    simp only [tstep]
    cases hr : s.run with
    | none => exact hu
    | some r => simp only; split <;> exact hu
  | tick now =>
    simp only [tstep]
    cases hr : s.run with
    | none => exact hu
    | some r => simp only; split <;> exact hu
  | apply =>
    simp only [tstep]
    cases hq : s.rq with
    | cons q rest => exact uniqueKeys_applyReq hu _
    | nil =>
      cases hc : s.cq with
      | nil => exact hu
      | cons q rest => exact uniqueKeys_applyReq hu _
  | crash => exact hu

/-- two states that agree after scrubbing -/
def Sim (ids : List Bytes) (s t : TSys) : Prop := scrubS ids s = scrubS ids t

theorem tstep_sim2 (W : World) {s t : TSys} (hs : UniqueKeys s.ns) (ht : UniqueKeys t.ns)
    (h : Sim W.ids s t) (st : Step) : Sim W.ids (tstep W s st) (tstep W t st) := by
  unfold Sim at h ⊢
  rw [tstep_scrub W hs st, tstep_scrub W ht st, h]

theorem trunSteps_sim (W : World) (steps : List Step) :
    ∀ {s t : TSys}, UniqueKeys s.ns → UniqueKeys t.ns → Sim W.ids s t →
      Sim W.ids (trunSteps W s steps) (trunSteps W t steps) ∧ UniqueKeys (trunSteps W s steps).ns := by
  induction steps with
  | nil => intro s t hs _ h; exact ⟨h, hs⟩
  | cons st rest ih =>
    intro s t hs ht h
    exact ih (tstep_uniqueKeys W hs st) (tstep_uniqueKeys W ht st) (tstep_sim2 W hs ht h st)

/-- states that agree after scrubbing: the same start, the same ghost state -/
theorem sim_startSeqOf (W : World) {s t : TSys} (hs : UniqueKeys s.ns) (ht : UniqueKeys t.ns)
    (h : Sim W.ids s t) :
    startSeqOf W.ver s.ns W.ids = startSeqOf W.ver t.ns W.ids ∧
    startOffOf W.ver s.ns W.ids = startOffOf W.ver t.ns W.ids ∧ s.committed = t.committed := by
  have h' : scrubS W.ids s = scrubS W.ids t := h
  have hns : scrub W.ids s.ns = scrub W.ids t.ns := congrArg TSys.ns h'
  have hc' : (scrubS W.ids s).committed = (scrubS W.ids t).committed := congrArg TSys.committed h'
  have hc : s.committed = t.committed := hc'
  have e : startFrontier W.ver s.ns W.ids = startFrontier W.ver t.ns W.ids := by
    rw [← startFrontier_scrub W.ver W.ids hs, ← startFrontier_scrub W.ver W.ids ht, hns]
  exact ⟨by unfold startSeqOf; rw [e], by unfold startOffOf; rw [e], hc⟩

end GunYu.Frontier
