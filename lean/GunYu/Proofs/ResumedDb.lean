/-
  C02: which database the next start resumes in, on a target that ALREADY holds
  checkpoint records of earlier runs (Proofs/ResumeDb.lean covers the target
  without any). `UniqueMax cps d o`: database `d` holds offset `o` and every other
  database a strictly smaller one -- `GetCheckpoint`'s choice is then unique.
  `resumed_unique_max`: execute any prefix of the wire of a run that was resumed
  from `(d0, start)` -- first data command `select d0` carrying `start` (when
  `d0 > 0`; a new connection is in database 0), every other command above `start`,
  every stored position at or above `start`, keys ordered -- on a target where
  `(d0, start)` is the unique maximum: afterwards the maximum is unique again, and
  it sits in the database the connection was in at the last position write.
-/
import GunYu.Proofs.ResumeDb
import GunYu.Proofs.Parser
import GunYu.Proofs.SenderDataO

namespace GunYu.Target
open GunYu GunYu.Sender

/-- database `d` holds offset `o`, every other database a strictly smaller one -/
def UniqueMax (cps : List (Int × CpRec)) (d o : Int) : Prop :=
  (getCp cps d).offset = some o ∧
  ∀ d', d' ≠ d → ∀ o', (getCp cps d').offset = some o' → o' < o

theorem nodata_not_select {r : Req} (h : cmdOfReqO r = none) : ∀ a off, r ≠ .cmd bSelect a off := by
  intro a off he
  subst he
  have : bSelect ≠ bPing := by decide
  simp [cmdOfReqO, this] at h

theorem nodata_no_key_or_cp {r : Req} (h : cmdOfReqO r = none) :
    keyOfReq r = none ∨ ∃ o, r = .cpOffset o := by
  cases r with
  | cmd n a off =>
    left
    simp only [cmdOfReqO] at h
    simp only [keyOfReq]
    split at h
    · rename_i hp; simp [hp]
    · cases h
  | cpOffset o => exact Or.inr ⟨o, rfl⟩
  | multi => exact Or.inl rfl
  | exec => exact Or.inl rfl
  | cpMeta => exact Or.inl rfl

/-- requests that are no data command leave the connection's database alone -/
theorem fold_cur_of_nodata (P : List Req) (h : ∀ r ∈ P, cmdOfReqO r = none) (t : TState) :
    (P.foldl execReq t).cur = t.cur := by
  induction P generalizing t with
  | nil => rfl
  | cons r P ih =>
    rw [List.foldl_cons, ih (fun x hx => h x (List.mem_cons_of_mem _ hx))]
    exact execReq_cur_of_nonselect t r (nodata_not_select (h r (List.mem_cons_self ..)))

theorem split_last_cp (Q : List Req) (h : cpOffsetsB Q ≠ []) :
    ∃ E1 o E2, Q = E1 ++ Req.cpOffset o :: E2 ∧ cpOffsetsB E2 = [] := by
  induction Q with
  | nil => exact absurd rfl h
  | cons r Q ih =>
    by_cases hq : cpOffsetsB Q = []
    · cases r with
      | cpOffset o => exact ⟨[], o, Q, rfl, hq⟩
      | cmd n a off => exact absurd (by simpa [cpOffsetsB, cpOfReq] using hq) h
      | multi => exact absurd (by simpa [cpOffsetsB, cpOfReq] using hq) h
      | exec => exact absurd (by simpa [cpOffsetsB, cpOfReq] using hq) h
      | cpMeta => exact absurd (by simpa [cpOffsetsB, cpOfReq] using hq) h
    · obtain ⟨E1, o, E2, hQ, hE2⟩ := ih hq
      exact ⟨r :: E1, o, E2, by rw [hQ]; rfl, hE2⟩

/-- every key of a request list whose data commands end above `start` and whose
    position writes are at or above `start` is at least `2·start+1` -/
theorem key_lb (Q : List Req) (start : Int) (hd : ∀ x ∈ dataBO Q, start < x.2.2)
    (hc : ∀ o ∈ cpOffsetsB Q, start ≤ o) : ∀ k ∈ keysB Q, 2 * start + 1 ≤ k := by
  intro k hk
  unfold keysB at hk
  obtain ⟨r, hr, hkr⟩ := List.mem_filterMap.mp hk
  cases r with
  | cmd n a off =>
    simp only [keyOfReq] at hkr
    split at hkr
    · cases hkr
    · rename_i hp
      have : (n, a, off) ∈ dataBO Q :=
        List.mem_filterMap.mpr ⟨_, hr, by simp [cmdOfReqO, hp]⟩
      have := hd _ this
      injection hkr with hkr
      simp only at this
      omega
  | cpOffset o =>
    have : o ∈ cpOffsetsB Q := List.mem_filterMap.mpr ⟨_, hr, rfl⟩
    have := hc _ this
    simp only [keyOfReq] at hkr
    injection hkr with hkr
    omega
  | multi => simp [keyOfReq] at hkr
  | exec => simp [keyOfReq] at hkr
  | cpMeta => simp [keyOfReq] at hkr

theorem prefix_filterMap {α β} (f : α → Option β) {a b : List α} (h : a <+: b) :
    a.filterMap f <+: b.filterMap f := by
  obtain ⟨c, rfl⟩ := h
  rw [List.filterMap_append]
  exact List.prefix_append _ _

/-- once the connection is in the database of the unique maximum (`Inv`), any
    ordered request list above it keeps the maximum unique -/
theorem phase2 (Q : List Req) (t : TState) (start : Int) (hI : Inv t (2 * start + 1) (2 * start))
    (hs : (keysB Q).Pairwise (· ≤ ·)) (hlow : ∀ k ∈ keysB Q, 2 * start + 1 ≤ k) :
    (cpOffsetsB Q = [] ∧ ∀ d, (getCp (Q.foldl execReq t).cps d).offset = (getCp t.cps d).offset) ∨
    (∃ E1 o E2, Q = E1 ++ Req.cpOffset o :: E2 ∧ cpOffsetsB E2 = [] ∧
      UniqueMax (Q.foldl execReq t).cps (E1.foldl execReq t).cur o) := by
  by_cases hq : cpOffsetsB Q = []
  · exact Or.inl ⟨hq, fun d => fold_no_cp_offsets Q hq t d⟩
  · right
    obtain ⟨E1, o, E2, hQ, hE2⟩ := split_last_cp Q hq
    subst hQ
    exact ⟨E1, o, E2, rfl, hE2, resume_db_unique_from E1 E2 o t _ _ hI hs hlow hE2⟩

/-- a unique maximum in the connection's own database is `Inv` -/
theorem inv_of_uniqueMax (t : TState) (start : Int) (hu : UniqueMax t.cps t.cur start) :
    Inv t (2 * start + 1) (2 * start) := by
  refine ⟨?_, ?_, by omega, start, rfl⟩
  · intro d o h
    by_cases hd : d = t.cur
    · subst hd; rw [hu.1] at h; injection h with h; omega
    · have := hu.2 d hd o h; omega
  · intro d hd o h
    have := hu.2 d hd o h; omega

/-- **Resumed run, any crash point: the largest stored offset stays in exactly
    one database.** -/
theorem resumed_unique_max (B : List Req) (t : TState) (d0 start : Int)
    (hu : UniqueMax t.cps d0 start) (hcur : t.cur = 0) (hd0 : 0 ≤ d0)
    (hsorted : (keysB B).Pairwise (· ≤ ·))
    (hcp : ∀ o ∈ cpOffsetsB B, start ≤ o)
    (hdata : if 0 < d0 then
        (dataBO B = [] ∧ cpOffsetsB B = []) ∨
        (∃ rest, dataBO B = (bSelect, [intToDec d0], start) :: rest ∧ ∀ x ∈ rest, start < x.2.2)
      else ∀ x ∈ dataBO B, start < x.2.2)
    (E : List Req) (hE : E <+: B) :
    (cpOffsetsB E = [] ∧ ∀ d, (getCp (E.foldl execReq t).cps d).offset = (getCp t.cps d).offset) ∨
    (∃ E1 o E2, E = E1 ++ Req.cpOffset o :: E2 ∧ cpOffsetsB E2 = [] ∧ start ≤ o ∧
      UniqueMax (E.foldl execReq t).cps (E1.foldl execReq t).cur o) := by
  have hkE : keysB E <+: keysB B := prefix_filterMap _ hE
  have hcE : cpOffsetsB E <+: cpOffsetsB B := prefix_filterMap _ hE
  have hdE : dataBO E <+: dataBO B := prefix_filterMap _ hE
  split at hdata
  · rename_i hpos
    rcases hdata with ⟨_, hnocp⟩ | ⟨rest, hsel, hrest⟩
    · -- nothing but keep-alives went out
      have : cpOffsetsB E = [] := by
        rw [hnocp] at hcE; exact List.prefix_nil.mp hcE
      exact Or.inl ⟨this, fun d => fold_no_cp_offsets E this t d⟩
    · -- B = P ++ select d0 :: Q, nothing but keep-alives in P
      obtain ⟨P, r, Q, hB, hP, hr, hQ⟩ := List.filterMap_eq_cons_iff.mp hsel
      have hr' : r = .cmd bSelect [intToDec d0] start := by
        cases r with
        | cmd n a off =>
          simp only [cmdOfReqO] at hr
          split at hr
          · cases hr
          · injection hr with hr
            simp only [Prod.mk.injEq] at hr
            obtain ⟨rfl, rfl, rfl⟩ := hr; rfl
        | cpOffset o => cases hr
        | multi => cases hr
        | exec => cases hr
        | cpMeta => cases hr
      subst hr'
      have hsp : bSelect ≠ bPing := by decide
      -- no position write before the select: its key would be below the select's
      have hPcp : cpOffsetsB P = [] := by
        apply List.eq_nil_iff_forall_not_mem.mpr
        intro o ho
        obtain ⟨x, hx, hxo⟩ := List.mem_filterMap.mp ho
        have hx' : x = .cpOffset o := by
          cases x <;> simp_all [cpOfReq]
        subst hx'
        have h1 : 2 * o + 1 ∈ keysB P := List.mem_filterMap.mpr ⟨_, hx, rfl⟩
        have h2 : 2 * start ∈ keysB (Req.cmd bSelect [intToDec d0] start :: Q) := by
          rw [keysB_cons]; simp [keyOfReq, hsp]
        rw [hB, keysB_append] at hsorted
        have := (List.pairwise_append.mp hsorted).2.2 _ h1 _ h2
        have := hcp o (by rw [hB, cpOffsetsB_append]; exact List.mem_append_left _ ho)
        omega
      rcases List.prefix_or_prefix_of_prefix hE (hB ▸ List.prefix_append P _) with hEP | hPE
      · have : cpOffsetsB E = [] := by
          have := prefix_filterMap cpOfReq hEP
          unfold cpOffsetsB at hPcp ⊢
          rw [hPcp] at this; exact List.prefix_nil.mp this
        exact Or.inl ⟨this, fun d => fold_no_cp_offsets E this t d⟩
      · obtain ⟨E', rfl⟩ := hPE
        rw [hB] at hE
        have hE' : E' <+: Req.cmd bSelect [intToDec d0] start :: Q :=
          (List.prefix_append_right_inj P).mp hE
        cases E' with
        | nil =>
          have : cpOffsetsB (P ++ []) = [] := by simpa using hPcp
          exact Or.inl ⟨this, fun d => fold_no_cp_offsets _ this t d⟩
        | cons r' Q' =>
          obtain ⟨hr'eq, hQ'⟩ := List.cons_prefix_cons.mp hE'
          subst hr'eq
          -- the target after P and the select
          let t1 := execReq (P.foldl execReq t) (.cmd bSelect [intToDec d0] start)
          have ht1cur : t1.cur = d0 := by
            simp only [t1, execReq, ↓reduceIte, atoi?_intToDec]
          have ht1cps : t1.cps = (P.foldl execReq t).cps :=
            execReq_cps_of_noncp _ _ rfl (by intro h; cases h)
          have hoff1 : ∀ d, (getCp t1.cps d).offset = (getCp t.cps d).offset := by
            intro d; rw [ht1cps]; exact fold_no_cp_offsets P hPcp t d
          have hI1 : Inv t1 (2 * start + 1) (2 * start) := by
            apply inv_of_uniqueMax
            rw [ht1cur]
            exact ⟨by rw [hoff1]; exact hu.1, fun d' hd' o' h => hu.2 d' hd' o' (by rw [← hoff1]; exact h)⟩
          -- keys of Q': ordered, above the start
          have hQs : (keysB Q').Pairwise (· ≤ ·) := by
            rw [hB, keysB_append, keysB_cons] at hsorted
            have h1 := (List.pairwise_append.mp (List.pairwise_append.mp hsorted).2.1).2.1
            exact h1.sublist (prefix_filterMap keyOfReq hQ').sublist
          have hQlow : ∀ k ∈ keysB Q', 2 * start + 1 ≤ k := by
            apply key_lb
            · intro x hx
              have : x ∈ dataBO Q := (prefix_filterMap cmdOfReqO hQ').subset hx
              unfold dataBO at this; rw [hQ] at this
              exact hrest x this
            · intro o ho
              have h1 : o ∈ cpOffsetsB Q := (prefix_filterMap cpOfReq hQ').subset ho
              apply hcp
              rw [hB, cpOffsetsB_append]
              apply List.mem_append_right
              unfold cpOffsetsB
              rw [List.filterMap_cons]
              simp only [cpOfReq]
              exact h1
          have hfold : ∀ X : List Req, (P ++ Req.cmd bSelect [intToDec d0] start :: X).foldl execReq t
              = X.foldl execReq t1 := by
            intro X; rw [List.foldl_append, List.foldl_cons]
          rcases phase2 Q' t1 start hI1 hQs hQlow with ⟨hnc, hsame⟩ | ⟨E1, o, E2, hQ'eq, hE2, hum⟩
          · left
            refine ⟨?_, ?_⟩
            · rw [cpOffsetsB_append, hPcp]
              unfold cpOffsetsB at hnc ⊢
              rw [List.filterMap_cons]; simp only [cpOfReq]; simpa using hnc
            · intro d; rw [hfold, hsame, hoff1]
          · right
            subst hQ'eq
            refine ⟨P ++ Req.cmd bSelect [intToDec d0] start :: E1, o, E2, by simp, hE2, ?_, ?_⟩
            · apply hcp
              have : o ∈ cpOffsetsB (E1 ++ Req.cpOffset o :: E2) := by
                rw [cpOffsetsB_append]; apply List.mem_append_right
                simp [cpOffsetsB, cpOfReq]
              have h1 : o ∈ cpOffsetsB Q := (prefix_filterMap cpOfReq hQ').subset this
              rw [hB, cpOffsetsB_append]
              apply List.mem_append_right
              unfold cpOffsetsB
              rw [List.filterMap_cons]
              simp only [cpOfReq]
              exact h1
            · rw [hfold, hfold]; exact hum
  · -- d0 = 0: the new connection is already in the database of the maximum
    rename_i hpos
    have hd : d0 = 0 := by omega
    subst hd
    have hI : Inv t (2 * start + 1) (2 * start) := inv_of_uniqueMax t start (by rw [hcur]; exact hu)
    have hs : (keysB E).Pairwise (· ≤ ·) := hsorted.sublist hkE.sublist
    have hlow : ∀ k ∈ keysB E, 2 * start + 1 ≤ k :=
      key_lb E start (fun x hx => hdata x (hdE.subset hx)) (fun o ho => hcp o (hcE.subset ho))
    rcases phase2 E t start hI hs hlow with h | ⟨E1, o, E2, hEeq, hE2, hum⟩
    · exact Or.inl h
    · right
      refine ⟨E1, o, E2, hEeq, hE2, ?_, hum⟩
      apply hcp; apply hcE.subset
      rw [hEeq, cpOffsetsB_append]; apply List.mem_append_right
      simp [cpOffsetsB, cpOfReq]

end GunYu.Target
