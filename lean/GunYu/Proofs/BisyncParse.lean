/-
  Helper lemmas for C13: the parser (`step`, `parse`, `parseBlock`) on the
  block shapes that occur in a site's stream.
-/
import GunYu.Model.Bisync
import GunYu.Proofs.BisyncFilter

namespace GunYu.Bisync
open GunYu GunYu.BisyncUnit

/-- parser state at a block boundary (no open transaction, nothing bypassed) -/
def Idle (st : PState) : Prop := st.inTxn = false ∧ st.bypass = false

/-- a (lower-cased) command name with no role in the parser's framing and
    prologue: not MULTI / EXEC / PING / SELECT, not on the command blacklist -/
structure Ordinary (f : Filter.KeyFilter) (n : Bytes) : Prop where
  notMulti : n ≠ wMulti
  notExec : n ≠ wExec
  notPing : n ≠ wPing
  notSelect : Filter.eqFold n wSelect = false
  notPublish : Filter.eqFold n wPublish = false
  notBlack : f.filterCmd n = false

theorem bne_of_ne {a b : Bytes} (h : a ≠ b) : (a != b) = true := by simp [h]
theorem beq_of_ne {a b : Bytes} (h : a ≠ b) : (a == b) = false := by simp [h]

/-- an ordinary command goes straight to `stepData` -/
theorem step_ordinary (cfg : PCfg) (st : PState) (n : Bytes) (argv : List Bytes) (off : Nat)
    (ho : Ordinary cfg.filter n) (hb : st.bypass = false) :
    step cfg st n argv off = stepData cfg st n argv off := by
  unfold step
  rw [beq_of_ne ho.notMulti, beq_of_ne ho.notExec]
  simp only [Bool.false_eq_true, ↓reduceIte]
  unfold preFilter
  rw [bne_of_ne ho.notPing, ho.notSelect, ho.notBlack, ho.notPublish, hb]
  simp only [↓reduceIte, Bool.false_eq_true, Bool.false_and]
  rw [beq_of_ne ho.notPing]
  have : ¬ ((-1 : Int) ≥ 0) := by omega
  simp only [this, ↓reduceIte, Bool.false_eq_true]
  cases st
  simp only at hb
  subst hb
  rfl

theorem step_multi (cfg : PCfg) (st : PState) (argv : List Bytes) (off : Nat) (h : st.inTxn = false) :
    step cfg st wMulti argv off =
      ({ st with inTxn := true, txnStart := st.prevOff, txn := [], prevOff := off }, .none) := by
  unfold step
  simp [h]

theorem step_exec_mirrored (cfg : PCfg) (st : PState) (argv : List Bytes) (off : Nat) (h : st.inTxn = true)
    (hm : isMirroredTxn st.txn = true) :
    step cfg st wExec argv off = ({ st with inTxn := false, txn := [], prevOff := off }, .none) := by
  unfold step
  have : (wExec == wMulti) = false := by decide
  simp [this, h, hm]

theorem step_exec_empty (cfg : PCfg) (st : PState) (argv : List Bytes) (off : Nat) (h : st.inTxn = true)
    (he : st.txn = []) :
    step cfg st wExec argv off = ({ st with inTxn := false, prevOff := off }, .none) := by
  unfold step
  have : (wExec == wMulti) = false := by decide
  simp [this, h, he, isMirroredTxn]

theorem step_exec_build (cfg : PCfg) (st : PState) (argv : List Bytes) (off : Nat) (h : st.inTxn = true)
    (hm : isMirroredTxn st.txn = false) (hne : st.txn ≠ []) :
    step cfg st wExec argv off =
      match buildUnit cfg.mode cfg.resolver st.txn with
      | .error e => (st, .err (.build e))
      | .ok u =>
        ({ st with inTxn := false, txn := [], prevOff := off, seq := st.seq + 1 },
         .emit ⟨st.seq, st.txnStart, off, true, u⟩) := by
  unfold step
  have : (wExec == wMulti) = false := by decide
  have he : st.txn.isEmpty = false := by
    cases ht : st.txn with
    | nil => exact absurd ht hne
    | cons _ _ => rfl
  simp [this, h, hm, he]
  cases buildUnit cfg.mode cfg.resolver st.txn <;> rfl

/-! ### running the parser over a command list -/

/-- `parse` over the commands of a list, offsets continuing from the state -/
def parseCmds (cfg : PCfg) (st : PState) (cs : List Cmd) (acc : List Emit) : List Emit × PState × Option PErr :=
  parse cfg st (items st.prevOff cs) acc

theorem parseCmds_nil (cfg : PCfg) (st : PState) (acc : List Emit) :
    parseCmds cfg st [] acc = (acc.reverse, st, if st.inTxn then some .eofInTxn else none) := rfl

theorem parseCmds_cons (cfg : PCfg) (st : PState) (c : Cmd) (cs : List Cmd) (acc : List Emit) :
    parseCmds cfg st (c :: cs) acc =
      match step cfg st (lower c.name) c.args (st.prevOff + respLen c) with
      | (_, .err e) => (acc.reverse, st, some e)
      | (st', .none) => parse cfg st' (items (st.prevOff + respLen c) cs) acc
      | (st', .emit e) => parse cfg st' (items (st.prevOff + respLen c) cs) (e :: acc) := by
  unfold parseCmds
  rw [items, parse]
  rfl

/-- one step that returns `.none` and lands on offset `off` -/
theorem parseCmds_step_none (cfg : PCfg) (st st' : PState) (c : Cmd) (cs : List Cmd) (acc : List Emit)
    (h : step cfg st (lower c.name) c.args (st.prevOff + respLen c) = (st', .none))
    (ho : st'.prevOff = st.prevOff + respLen c) :
    parseCmds cfg st (c :: cs) acc = parseCmds cfg st' cs acc := by
  rw [parseCmds_cons, h]
  simp only
  unfold parseCmds
  rw [ho]

theorem parseBlock_single (cfg : PCfg) (st : PState) (c : Cmd) :
    parseBlock cfg st (.single c) = parseCmds cfg st [c] [] := rfl

theorem parseBlock_multi (cfg : PCfg) (st : PState) (cs : List Cmd) :
    parseBlock cfg st (.multi cs) = parseCmds cfg st (mMulti :: cs ++ [mExec]) [] := rfl

/-! ### inside a transaction -/

/-- a command the parser may meet between MULTI and EXEC without stopping:
    anything but MULTI/EXEC themselves and a SELECT it cannot parse -/
def TxnSafe (c : Cmd) : Prop :=
  lower c.name ≠ wMulti ∧ lower c.name ≠ wExec ∧ Filter.eqFold (lower c.name) wSelect = false

/-- what a safe command contributes to the parser's buffer: nothing when it is
    consumed (PING), on the command blacklist, a sentinel hello, or withheld by
    the key filter; otherwise itself with the (possibly projected) arguments -/
def extOf (cfg : PCfg) (c : Cmd) : List Cmd :=
  if lower c.name == wPing then []
  else if cfg.filter.filterCmd (lower c.name) then []
  else if Filter.eqFold (lower c.name) wPublish && !c.args.isEmpty &&
      Filter.eqFold (c.args.headD []) wSentinelHello then []
  else
    match cfg.filter.filterCmdKey (lower c.name) c.args with
    | none => []
    | some a' => [⟨lower c.name, a'⟩]

theorem extOf_cases (cfg : PCfg) (c : Cmd) :
    extOf cfg c = [] ∨ ∃ a', cfg.filter.filterCmdKey (lower c.name) c.args = some a' ∧
      extOf cfg c = [⟨lower c.name, a'⟩] := by
  unfold extOf
  split
  · left; rfl
  · split
    · left; rfl
    · split
      · left; rfl
      · cases h : cfg.filter.filterCmdKey (lower c.name) c.args with
        | none => left; rfl
        | some a' => right; exact ⟨a', rfl, rfl⟩

/-- with nothing bypassed, a safe command either is dropped or reaches
    `stepData` with its filtered arguments -/
theorem step_safe (cfg : PCfg) (st : PState) (c : Cmd) (off : Nat) (hb : st.bypass = false) (hs : TxnSafe c) :
    step cfg st (lower c.name) c.args off =
      match extOf cfg c with
      | [] => ({ st with prevOff := off }, .none)
      | c' :: _ =>
        if st.inTxn then ({ st with txn := st.txn ++ [c'], prevOff := off }, .none)
        else if touchesNamespace c' then ({ st with prevOff := off }, .none)
        else
          match buildUnit cfg.mode cfg.resolver [c'] with
          | .error e => (st, .err (.build e))
          | .ok u =>
            ({ st with prevOff := off, seq := st.seq + 1 }, .emit ⟨st.seq, st.prevOff, off, false, u⟩) := by
  obtain ⟨h1, h2, h3⟩ := hs
  obtain ⟨bypass, prevOff, seq, inTxn, txnStart, txn⟩ := st
  simp only at hb
  subst hb
  have hn : ¬ ((-1 : Int) ≥ 0) := by omega
  unfold step extOf
  rw [beq_of_ne h1, beq_of_ne h2]
  simp only [Bool.false_eq_true, ↓reduceIte]
  unfold preFilter
  by_cases hp : lower c.name = wPing
  · have e1 : (lower c.name != wPing) = false := by simp [hp]
    have e2 : (lower c.name == wPing) = true := by simp [hp]
    rw [e1, e2]
    simp only [Bool.false_eq_true, ↓reduceIte, hn]
  · rw [bne_of_ne hp, beq_of_ne hp, h3]
    simp only [↓reduceIte, Bool.false_eq_true]
    by_cases hbl : cfg.filter.filterCmd (lower c.name) = true
    · rw [hbl]
      simp only [↓reduceIte]
    · have hbl' : cfg.filter.filterCmd (lower c.name) = false := by
        cases hx : cfg.filter.filterCmd (lower c.name) with
        | true => exact absurd hx hbl
        | false => rfl
      rw [hbl']
      simp only [Bool.false_eq_true, ↓reduceIte]
      by_cases hpub : (Filter.eqFold (lower c.name) wPublish && !c.args.isEmpty &&
          Filter.eqFold (c.args.headD []) wSentinelHello) = true
      · rw [hpub]
        simp only [↓reduceIte]
      · have hpub' : (Filter.eqFold (lower c.name) wPublish && !c.args.isEmpty &&
            Filter.eqFold (c.args.headD []) wSentinelHello) = false := by
          cases hx : (Filter.eqFold (lower c.name) wPublish && !c.args.isEmpty &&
            Filter.eqFold (c.args.headD []) wSentinelHello) with
          | true => exact absurd hx hpub
          | false => rfl
        rw [hpub']
        simp only [Bool.false_eq_true, ↓reduceIte, hn]
        unfold stepData
        cases hk : cfg.filter.filterCmdKey (lower c.name) c.args with
        | none => rfl
        | some a' =>
          simp only [Bool.false_eq_true, ↓reduceIte]
          cases inTxn <;> rfl

/-- inside a transaction a safe command only extends the buffer -/
theorem step_inTxn_safe (cfg : PCfg) (st : PState) (c : Cmd) (off : Nat)
    (hin : st.inTxn = true) (hb : st.bypass = false) (hs : TxnSafe c) :
    step cfg st (lower c.name) c.args off = ({ st with txn := st.txn ++ extOf cfg c, prevOff := off }, .none) := by
  rw [step_safe cfg st c off hb hs]
  rcases extOf_cases cfg c with h | ⟨a', _, h⟩
  · rw [h]; simp
  · rw [h]; simp [hin]

/-- a run of safe commands inside a transaction -/
theorem parseCmds_inTxn_safe (cfg : PCfg) (cs rest : List Cmd) (st : PState)
    (acc : List Emit) (hin : st.inTxn = true) (hb : st.bypass = false) (hs : ∀ c ∈ cs, TxnSafe c) :
    ∃ off', parseCmds cfg st (cs ++ rest) acc =
      parseCmds cfg { st with txn := st.txn ++ cs.flatMap (extOf cfg), prevOff := off' } rest acc := by
  induction cs generalizing st with
  | nil =>
    refine ⟨st.prevOff, ?_⟩
    simp only [List.nil_append, List.flatMap_nil, List.append_nil]
  | cons c cs ih =>
    have hstep := step_inTxn_safe cfg st c (st.prevOff + respLen c) hin hb (hs c (by simp))
    rw [List.cons_append, parseCmds_step_none cfg st _ c (cs ++ rest) acc hstep rfl]
    obtain ⟨off2, h2⟩ := ih { st with txn := st.txn ++ extOf cfg c, prevOff := st.prevOff + respLen c } hin hb
      (fun c' hc' => hs c' (List.mem_cons_of_mem _ hc'))
    refine ⟨off2, ?_⟩
    rw [h2]
    simp only [List.flatMap_cons, List.append_assoc]

/-- what the parser does with a whole `MULTI … EXEC` block of safe commands,
    starting idle: the buffer it tests at EXEC is the filtered body -/
theorem parseBlock_multi_safe (cfg : PCfg) (cs : List Cmd) (st : PState) (hi : Idle st)
    (hs : ∀ c ∈ cs, TxnSafe c) :
    (isMirroredTxn (cs.flatMap (extOf cfg)) = true ∨ cs.flatMap (extOf cfg) = [] →
      ∃ st', parseBlock cfg st (.multi cs) = ([], st', none) ∧ Idle st' ∧ st'.seq = st.seq) ∧
    (isMirroredTxn (cs.flatMap (extOf cfg)) = false → cs.flatMap (extOf cfg) ≠ [] →
      (∀ u, buildUnit cfg.mode cfg.resolver (cs.flatMap (extOf cfg)) = .ok u →
        ∃ st' off, parseBlock cfg st (.multi cs) = ([⟨st.seq, st.prevOff, off, true, u⟩], st', none) ∧
          Idle st' ∧ st'.seq = st.seq + 1) ∧
      (∀ e, buildUnit cfg.mode cfg.resolver (cs.flatMap (extOf cfg)) = .error e →
        ∃ st', parseBlock cfg st (.multi cs) = ([], st', some (.build e)))) := by
  obtain ⟨hin, hb⟩ := hi
  obtain ⟨bypass, prevOff, seq, inTxn, txnStart, txn⟩ := st
  simp only at hin hb
  subst hin; subst hb
  rw [parseBlock_multi]
  have hm : step cfg ⟨false, prevOff, seq, false, txnStart, txn⟩ (lower mMulti.name) mMulti.args
      (prevOff + respLen mMulti) =
      (⟨false, prevOff + respLen mMulti, seq, true, prevOff, []⟩, .none) :=
    step_multi cfg _ _ _ rfl
  rw [List.cons_append, parseCmds_step_none cfg _ _ mMulti (cs ++ [mExec]) [] hm rfl]
  obtain ⟨off1, h1⟩ := parseCmds_inTxn_safe cfg cs [mExec]
    ⟨false, prevOff + respLen mMulti, seq, true, prevOff, []⟩ [] rfl rfl hs
  rw [h1]
  simp only [List.nil_append]
  rw [parseCmds_cons]
  have hexn : lower mExec.name = wExec := by decide
  rw [hexn]
  constructor
  · rintro (hmir | hemp)
    · rw [step_exec_mirrored cfg _ _ _ rfl hmir]
      exact ⟨_, rfl, ⟨rfl, rfl⟩, rfl⟩
    · by_cases hmir : isMirroredTxn (cs.flatMap (extOf cfg)) = true
      · rw [step_exec_mirrored cfg _ _ _ rfl hmir]
        exact ⟨_, rfl, ⟨rfl, rfl⟩, rfl⟩
      · rw [step_exec_empty cfg _ _ _ rfl hemp]
        exact ⟨_, rfl, ⟨rfl, rfl⟩, rfl⟩
  · intro hmir hne
    rw [step_exec_build cfg _ _ _ rfl hmir hne]
    constructor
    · intro u hu
      rw [hu]
      exact ⟨_, _, rfl, ⟨rfl, rfl⟩, rfl⟩
    · intro e he
      rw [he]
      exact ⟨_, rfl⟩

/-- … and with a stand-alone safe command -/
theorem parseBlock_single_safe (cfg : PCfg) (c : Cmd) (st : PState) (hi : Idle st) (hs : TxnSafe c) :
    (extOf cfg c = [] ∨ (∃ c' t, extOf cfg c = c' :: t ∧ touchesNamespace c' = true) →
      ∃ st', parseBlock cfg st (.single c) = ([], st', none) ∧ Idle st' ∧ st'.seq = st.seq) ∧
    (∀ c' t, extOf cfg c = c' :: t → touchesNamespace c' = false →
      (∀ u, buildUnit cfg.mode cfg.resolver [c'] = .ok u →
        ∃ st' off, parseBlock cfg st (.single c) = ([⟨st.seq, st.prevOff, off, false, u⟩], st', none) ∧
          Idle st' ∧ st'.seq = st.seq + 1) ∧
      (∀ e, buildUnit cfg.mode cfg.resolver [c'] = .error e →
        ∃ st', parseBlock cfg st (.single c) = ([], st', some (.build e)))) := by
  obtain ⟨hin, hb⟩ := hi
  obtain ⟨bypass, prevOff, seq, inTxn, txnStart, txn⟩ := st
  simp only at hin hb
  subst hin; subst hb
  rw [parseBlock_single, parseCmds_cons, step_safe cfg _ c _ rfl hs]
  constructor
  · rintro (h | ⟨c', t, h, ht⟩)
    · rw [h]
      exact ⟨_, rfl, ⟨rfl, rfl⟩, rfl⟩
    · rw [h]
      simp only [Bool.false_eq_true, ↓reduceIte, ht]
      exact ⟨_, rfl, ⟨rfl, rfl⟩, rfl⟩
  · intro c' t h ht
    rw [h]
    simp only [Bool.false_eq_true, ↓reduceIte, ht]
    constructor
    · intro u hu
      rw [hu]
      exact ⟨_, _, rfl, ⟨rfl, rfl⟩, rfl⟩
    · intro e he
      rw [he]
      exact ⟨_, rfl⟩

/-! ### mirrored transactions -/

theorem isMirroredTxn_append (pre : List Cmd) (m : Cmd) (rest : List Cmd)
    (hpre : ∀ c ∈ pre, isMarkerExpiry c = true) (hm : isMarkerCommand m = true)
    (hme : isMarkerExpiry m = false) :
    isMirroredTxn (pre ++ m :: rest) = true := by
  induction pre with
  | nil => simp [isMirroredTxn, hme, hm]
  | cons c cs ih =>
    simp only [List.cons_append, isMirroredTxn, hpre c (by simp), ↓reduceIte]
    exact ih (fun c' hc' => hpre c' (List.mem_cons_of_mem _ hc'))

theorem markerCommand_not_expiry (c : Cmd) (h : isMarkerCommand c = true) : isMarkerExpiry c = false := by
  unfold isMarkerCommand at h
  unfold isMarkerExpiry
  simp only [Bool.and_eq_true, beq_iff_eq] at h
  rw [h.1.1]
  have h1 : (wSet == wDel) = false := by decide
  have h2 : (wSet == wUnlink) = false := by decide
  simp [h1, h2]

end GunYu.Bisync
