/-
  C08, extended operation set: the steps WITH FAULTS (failing / torn header
  rewrite at close and at rotation, failing open at rotation, failing removals)
  keep the invariants; `xstep_ok` covers every step.
-/
import GunYu.Proofs.StoreFsXStep

namespace GunYu.StoreFsX
open GunYu GunYu.Store GunYu.StoreFs

theorem Pos.cons {P : FS → FsOp → Prop} {fs : FS} {o : FsOp} {rest : List FsOp} (h : P fs o)
    (hr : Pos P (fs.apply o) rest) : Pos P fs (o :: rest) := by
  have : Pos P fs ([o] ++ rest) := Pos.append (Pos.single h) hr
  simpa using this

/-- header rewrites (whole or cut short) on a file that has its header: each is
    truthful, and the file is again a 16-byte header followed by the same data -/
theorem hdrs_ok (src : Nat → UInt8) (n : FName) (dd : Bytes) (hs : List FsOp)
    (hall : ∀ o ∈ hs, ∃ h, o = FsOp.pwriteHdr n h ∧ h.length ≤ headerSize) :
    ∀ (fs : FS) (hdr0 : Bytes), hdr0.length = headerSize → fs.get n = some (hdr0 ++ dd) →
      Pos (OpTrueX src) fs hs ∧
      ∃ hdr', hdr'.length = headerSize ∧ (fs.applyAll hs).get n = some (hdr' ++ dd) := by
  induction hs with
  | nil => intro fs hdr0 hh hget; exact ⟨Pos.nil, hdr0, hh, hget⟩
  | cons o rest ih =>
    intro fs hdr0 hh hget
    obtain ⟨h, rfl, hl⟩ := hall o (by simp)
    have hget1 : (fs.apply (.pwriteHdr n h)).get n = some ((h ++ hdr0.drop h.length) ++ dd) := by
      rw [get_apply_pwrite_eq _ hget]
      congr 1
      rw [List.drop_append_of_le_length (by omega), List.append_assoc]
    have hlen1 : (h ++ hdr0.drop h.length).length = headerSize := by
      simp [List.length_drop]; omega
    obtain ⟨hp, hdr', hh', hget'⟩ := ih (fun o ho => hall o (by simp [ho])) _ _ hlen1 hget1
    refine ⟨Pos.cons ⟨hl, ?_⟩ hp, hdr', hh', hget'⟩
    intro c hc
    rw [hget] at hc; cases hc
    simp; omega

theorem hdrTornOps_all (n : FName) (data : Bytes) (k : Nat) :
    ∀ o ∈ hdrTornOps n (closedHeader data) k, ∃ h, o = FsOp.pwriteHdr n h ∧ h.length ≤ headerSize := by
  intro o ho
  refine ⟨_, hdrTornOps_mem ho, ?_⟩
  have := closedHeader_length data
  simp only [List.length_take]
  omega

theorem single_hdr_all (n : FName) (data : Bytes) :
    ∀ o ∈ [FsOp.pwriteHdr n (closedHeader data)], ∃ h, o = FsOp.pwriteHdr n h ∧ h.length ≤ headerSize := by
  intro o ho
  simp at ho; subst ho
  exact ⟨_, rfl, by rw [closedHeader_length]; exact Nat.le_refl _⟩

/-- every operation of the list works on the stream file `<l>.aof` -/
def OnAof (l : Nat) (ops : List FsOp) : Prop :=
  ∀ o ∈ ops, (∃ bs, o = .append (aofName l) bs) ∨ (∃ hd, o = .pwriteHdr (aofName l) hd) ∨ o = .create (aofName l) ∨
    o = .remove (aofName l)

theorem OnAof.names {l : Nat} {ops : List FsOp} (h : OnAof l ops) : ∀ o ∈ ops, o.names = [aofName l] := by
  intro o ho
  rcases h o ho with ⟨bs, rfl⟩ | ⟨hd, rfl⟩ | rfl | rfl <;> rfl

theorem OnAof.safe {P : Nat → Nat → Bytes → Prop} {l : Nat} {ops : List FsOp} (h : OnAof l ops) (fs : FS) :
    Pos (RdbSafeP P) fs ops :=
  Pos.ofAll (fun o ho fs' => (aof_op_safe l o (h o ho)).1 fs')

theorem OnAof.tmp {l : Nat} {ops : List FsOp} (h : OnAof l ops) : ∀ o ∈ ops, ∀ l' sz, rdbTmpName l' sz ∉ o.names :=
  fun o ho => (aof_op_safe (P := fun _ _ _ => True) l o (h o ho)).2

theorem OnAof.other {l : Nat} {ops : List FsOp} (h : OnAof l ops) (fs : FS) {m : Nat} (hm : m ≠ l) :
    (fs.applyAll ops).get (aofName m) = fs.get (aofName m) := by
  apply get_applyAll_other
  intro o ho
  rw [h.names o ho]
  simp only [List.mem_singleton]
  exact fun e => hm (aofName_inj e)

theorem onAof_hdrs {l : Nat} {hs : List FsOp}
    (hall : ∀ o ∈ hs, ∃ h, o = FsOp.pwriteHdr (aofName l) h ∧ h.length ≤ headerSize) : OnAof l hs := by
  intro o ho
  obtain ⟨h, rfl, _⟩ := hall o ho
  exact Or.inr (Or.inl ⟨h, rfl⟩)

/-! ### close with a failing header rewrite -/

theorem closeLive_rdb (s : Disk) : s.closeLive.rdb = s.rdb := (closeLive_hist s).2.2

theorem histTrue_closeLive {src : Nat → UInt8} {s : Disk} (h : HistTrue src s) : HistTrue src s.closeLive := by
  intro i b hb
  rw [(closeLive_hist s).2.1] at hb
  rw [(closeLive_hist s).1]
  exact h i b hb

/-- the state after the live segment's file got header rewrites `hs` and the live
    segment was closed in the index -/
theorem close_with_hdrs {src : Nat → UInt8} {P : Nat → Nat → Bytes → Prop} (s : XDisk) (hinv : XInv src s)
    (g : DSeg) (hl : s.d.live = some g) (hs : List FsOp)
    (hall : ∀ o ∈ hs, ∃ h, o = FsOp.pwriteHdr (aofName g.left) h ∧ h.length ≤ headerSize)
    (z' : List Nat) (fails : List Att) (hfails : okOps fails = []) :
    StepOk src P s (⟨s.d.closeLive, s.fs.applyAll hs, z'⟩, allOk hs ++ fails) := by
  have hgm : g ∈ s.d.all := by simp [Disk.all, hl]
  obtain ⟨hdr0, hh0, hget0⟩ := hinv.files g hgm
  obtain ⟨hpos, hdr', hh', hget'⟩ := hdrs_ok src (aofName g.left) g.data hs hall s.fs hdr0 hh0 hget0
  have hon := onAof_hdrs hall
  have hok : okOps (allOk hs ++ fails) = hs := by rw [okOps_append, okOps_allOk, hfails, List.append_nil]
  refine StepOk.mk' (by rw [hok]) (by rw [hok]; exact hpos) (by rw [hok]; exact hon.safe _) ?_
  refine ⟨hinv.dinv.closeLive, histTrue_closeLive hinv.hist, ?_, ?_⟩
  · intro x hx
    have hxa := closeLive_all_subset s.d x hx
    by_cases e : x.left = g.left
    · have := all_lefts_unique hinv.dinv hxa hgm e
      subst this
      exact ⟨hdr', hh', hget'⟩
    · obtain ⟨hdr, hh, hget⟩ := hinv.files x hxa
      exact ⟨hdr, hh, by show (s.fs.applyAll hs).get _ = _; rw [hon.other _ e]; exact hget⟩
  · exact tmpRel_frame hinv.tmp (fun r hr _ => by rw [closeLive_rdb] at hr; exact hr) hon.tmp

/-! ### rotation with a fault -/

/-- the index after an append that crossed the limit and whose rotation failed:
    the grown segment is closed, no new one exists -/
theorem rot_fail_all (s : Disk) (g : DSeg) (chunk : Bytes) (hl : s.live = some g)
    (hrot : 16 + (g.data ++ chunk).length > s.logSize) :
    (s.step (.aofAppend chunk)).1.closeLive.all = s.segs ++ [{ g with data := g.data ++ chunk }] ∧
    (s.step (.aofAppend chunk)).1.closeLive.rdb = s.rdb := by
  have e : (s.step (.aofAppend chunk)).1 =
      { s with segs := s.segs ++ [{ g with data := g.data ++ chunk }],
               live := some { left := ({ g with data := g.data ++ chunk } : DSeg).right, data := [] },
               hist := s.hist ++ chunk } := by
    simp only [Disk.step, Disk.appendLive, hl]
    rw [if_pos hrot]
    rfl
  rw [e]
  constructor
  · simp [Disk.closeLive, Disk.all]
  · rw [closeLive_rdb]

theorem rot_fail {src : Nat → UInt8} {P : Nat → Nat → Bytes → Prop} (s : XDisk) (hinv : XInv src s)
    (g : DSeg) (chunk : Bytes) (hl : s.d.live = some g) (hcne : chunk ≠ [])
    (hsrc : ChunkOk src s.d (.aofAppend chunk))
    (hrot : 16 + (g.data ++ chunk).length > s.d.logSize) (hs : List FsOp)
    (hall : ∀ o ∈ hs, ∃ h, o = FsOp.pwriteHdr (aofName g.left) h ∧ h.length ≤ headerSize)
    (z' : List Nat) (fails : List Att) (hfails : okOps fails = []) :
    StepOk src P s (⟨(s.d.step (.aofAppend chunk)).1.closeLive,
      s.fs.applyAll ([FsOp.append (aofName g.left) chunk] ++ hs), z'⟩,
      allOk ([FsOp.append (aofName g.left) chunk] ++ hs) ++ fails) := by
  have hok : s.d.okOp (.aofAppend chunk) := hcne
  have hall0 : s.d.all = s.d.segs ++ [g] := by simp [Disk.all, hl]
  have hgm : g ∈ s.d.all := by rw [hall0]; simp
  obtain ⟨hdr0, hh0, hget0⟩ := hinv.files g hgm
  -- the append itself: truthful (first operation of the fault-free step)
  obtain ⟨ht, _⟩ := fsOps_true_step (src := src) s.d s.fs (.aofAppend chunk) hinv.dinv hok hinv.hist hsrc hinv.files
  have e1 : fsOps s.d (.aofAppend chunk) = [FsOp.append (aofName g.left) chunk] ++
      [FsOp.pwriteHdr (aofName g.left) (closedHeader (g.data ++ chunk)),
       FsOp.create (aofName (g.left + (g.data ++ chunk).length)),
       FsOp.append (aofName (g.left + (g.data ++ chunk).length)) fixHeader] := by
    simp only [fsOps, hl]
    rw [if_pos hrot]
  have hop0 : OpTrueX src s.fs (.append (aofName g.left) chunk) :=
    OpTrueX_of_OpTrue _ _ (ht [] _ _ (by rw [e1]; rfl))
  have hget1 : (s.fs.apply (.append (aofName g.left) chunk)).get (aofName g.left) = some (hdr0 ++ (g.data ++ chunk)) := by
    rw [get_apply_append_eq _ hget0, List.append_assoc]
  obtain ⟨hpos, hdr', hh', hget'⟩ := hdrs_ok src (aofName g.left) (g.data ++ chunk) hs hall _ hdr0 hh0 hget1
  have hon : OnAof g.left ([FsOp.append (aofName g.left) chunk] ++ hs) := by
    intro o ho
    rcases List.mem_append.mp ho with h1 | h1
    · simp at h1; subst h1; exact Or.inl ⟨_, rfl⟩
    · exact onAof_hdrs hall o h1
  have hokops : okOps (allOk ([FsOp.append (aofName g.left) chunk] ++ hs) ++ fails) =
      [FsOp.append (aofName g.left) chunk] ++ hs := by
    rw [okOps_append, okOps_allOk, hfails, List.append_nil]
  obtain ⟨hall', hrdb'⟩ := rot_fail_all s.d g chunk hl hrot
  have hother : ∀ x ∈ s.d.segs, x.left ≠ g.left := by
    intro x hx
    have hlt := lefts_lt_of_split (pre := s.d.segs) (rest := [g]) (hall0 ▸ hinv.dinv.contig)
      (hall0 ▸ all_initNonempty hinv.dinv.nonempty) hx (List.mem_singleton.mpr rfl)
    omega
  refine StepOk.mk' (by rw [hokops]) (by rw [hokops]; exact Pos.append (Pos.single hop0) hpos)
    (by rw [hokops]; exact hon.safe _) ?_
  refine ⟨(hinv.dinv.step _ hok).closeLive, histTrue_closeLive (HistTrue_step hinv.hist _ hsrc), ?_, ?_⟩
  · intro x hx
    show FileOf (s.fs.applyAll ([FsOp.append (aofName g.left) chunk] ++ hs)) x
    rw [hall'] at hx
    rcases List.mem_append.mp hx with hm | hm
    · obtain ⟨hdr, hh, hget⟩ := hinv.files x (by rw [hall0]; simp [hm])
      exact ⟨hdr, hh, by rw [hon.other _ (hother x hm)]; exact hget⟩
    · simp at hm; subst hm
      refine ⟨hdr', hh', ?_⟩
      rw [applyAll_append]
      exact hget'
  · exact tmpRel_frame hinv.tmp (fun r hr _ => by rw [hrdb'] at hr; exact hr) hon.tmp

/-! ### short write -/

/-- the invariants do not mention the rotation limit -/
theorem XInv.setLog {src : Nat → UInt8} {d : Disk} {fs : FS} {z z' : List Nat} (L : Nat) (h : XInv src ⟨d, fs, z⟩) :
    XInv src ⟨{ d with logSize := L }, fs, z'⟩ :=
  ⟨⟨h.dinv.contig, h.dinv.nonempty, h.dinv.embed, h.dinv.lastEnd, h.dinv.rdbAlign, h.dinv.rdbShape, h.dinv.ids,
    h.dinv.readersOk⟩, h.hist, h.files, h.tmp⟩

theorem StepOk.seq {src : Nat → UInt8} {P : Nat → Nat → Bytes → Prop} {s s1 : XDisk} {r2 : XDisk × List Att}
    {ops1 : List FsOp} {fails : List Att} (hfs : s1.fs = s.fs.applyAll ops1) (ht1 : Pos (OpTrueX src) s.fs ops1)
    (hs1 : Pos (RdbSafeP P) s.fs ops1) (hfails : okOps fails = []) (h2 : StepOk src P s1 r2) :
    StepOk src P s (r2.1, allOk ops1 ++ fails ++ r2.2) := by
  have hok : okOps (allOk ops1 ++ fails ++ r2.2) = ops1 ++ okOps r2.2 := by
    rw [okOps_append, okOps_append, okOps_allOk, hfails, List.append_nil]
  refine ⟨?_, ?_, ?_, h2.inv⟩
  · show r2.1.fs = s.fs.applyAll (okOps (allOk ops1 ++ fails ++ r2.2))
    rw [hok, applyAll_append, ← hfs]; exact h2.fsEq
  · show Pos (OpTrueX src) s.fs (okOps (allOk ops1 ++ fails ++ r2.2))
    rw [hok]; exact Pos.append ht1 (by rw [← hfs]; exact h2.true)
  · show Pos (RdbSafeP P) s.fs (okOps (allOk ops1 ++ fails ++ r2.2))
    rw [hok]; exact Pos.append hs1 (by rw [← hfs]; exact h2.safe)

/-- the first `k` bytes of a chunk reach the live segment's file, without rotation -/
theorem short_step {src : Nat → UInt8} (s : XDisk) (hinv : XInv src s) (g : DSeg) (chunk : Bytes) (k : Nat)
    (hl : s.d.live = some g) (hk : 0 < k ∧ k < chunk.length) (hsrc : ChunkOk src s.d (.aofAppend chunk)) :
    XInv src ⟨{ s.d with live := some { g with data := g.data ++ chunk.take k }, hist := s.d.hist ++ chunk.take k },
      s.fs.applyAll [FsOp.append (aofName g.left) (chunk.take k)], s.zombies⟩ ∧
    Pos (OpTrueX src) s.fs [FsOp.append (aofName g.left) (chunk.take k)] := by
  obtain ⟨d, fs, z⟩ := s
  obtain ⟨logSize, maxSize, runId, rdb, segs, live, readers, hbase, hist⟩ := d
  simp only at hl
  subst hl
  have hpne : chunk.take k ≠ [] := by
    intro e
    have h1 : (chunk.take k).length = 0 := by rw [e]; rfl
    rw [List.length_take] at h1
    omega
  -- the same store with a rotation limit the append does not reach
  have hinvL := XInv.setLog (z' := z) (16 + (g.data ++ chunk.take k).length) hinv
  have hsrcL : ChunkOk src
      (⟨16 + (g.data ++ chunk.take k).length, maxSize, runId, rdb, segs, some g, readers, hbase, hist⟩ : Disk)
      (.aofAppend (chunk.take k)) := by
    intro i b hb
    apply hsrc i b
    have hi : i < (chunk.take k).length := (List.getElem?_eq_some_iff.mp hb).1
    rw [List.length_take] at hi
    rw [List.getElem?_take_of_lt (by omega)] at hb
    exact hb
  have hA := xbase_generic (src := src) (P := fun _ _ _ => True)
    ⟨⟨16 + (g.data ++ chunk.take k).length, maxSize, runId, rdb, segs, some g, readers, hbase, hist⟩, fs, z⟩
    (.aofAppend (chunk.take k)) (by intro _ _ e; cases e) (by intro e; cases e) hinvL hpne hsrcL (fun _ _ _ _ _ _ => trivial)
  unfold xbase at hA
  simp only [baseOps, baseDisk, fsOps, Disk.step, Disk.appendLive, Nat.lt_irrefl, gt_iff_lt, if_false, if_true,
    List.append_nil] at hA
  constructor
  · exact XInv.setLog (z' := z) logSize hA.inv
  · have := hA.true
    rw [okOps_allOk] at this
    exact this

/-! ### a snapshot commit that fails (session 5) -/

theorem commitFail_okOps_mem (r : DRdb) (chunk : Bytes) (ren rmOk : Bool) :
    ∀ o ∈ okOps (commitFailAtts r chunk ren rmOk),
      o = .append (rdbTmpName r.left r.size) chunk ∨ o = .remove (rdbTmpName r.left r.size) := by
  intro o ho
  cases ren <;> cases rmOk <;> simp [commitFailAtts, okOps] at ho <;> simp [ho]

theorem commitFail_okOps_names (r : DRdb) (chunk : Bytes) (ren rmOk : Bool) :
    ∀ o ∈ okOps (commitFailAtts r chunk ren rmOk), o.names = [rdbTmpName r.left r.size] := by
  intro o ho
  rcases commitFail_okOps_mem r chunk ren rmOk o ho with rfl | rfl <;> rfl

/-! ### every step -/

theorem xstep_ok {src : Nat → UInt8} {P : Nat → Nat → Bytes → Prop} (s : XDisk) (x : XOp)
    (hinv : XInv src s) (hok : okX s x) (hsrc : ChunkOkX src s x)
    (hP : ∀ r chunk, x = .op (.rdbAppend chunk) → s.d.rdb = some r → r.writing = true →
      r.data.length + chunk.length = r.size → P r.left r.size (r.data ++ chunk)) :
    StepOk src P s (xstep s x) := by
  have noP : ∀ o : DOp, (∀ c, o ≠ .rdbAppend c) → ∀ r chunk, o = .rdbAppend chunk → s.d.rdb = some r → r.writing = true →
      r.data.length + chunk.length = r.size → P r.left r.size (r.data ++ chunk) :=
    fun o hne r chunk e => absurd e (hne chunk)
  cases x with
  | op o =>
    exact xbase_ok s o hinv hok hsrc (fun r chunk e => hP r chunk (by rw [e]))
  | aofCloseHdrFail k =>
    simp only [xstep]
    cases hl : s.d.live with
    | none => exact xbase_ok s .aofClose hinv trivial trivial (noP _ (by intro c e; cases e))
    | some g =>
      simp only []
      split
      · exact xbase_ok s .aofClose hinv trivial trivial (noP _ (by intro c e; cases e))
      · exact close_with_hdrs s hinv g hl _ (hdrTornOps_all _ _ _) _ _ (okOps_fail1 _)
  | aofAppendHdrFail chunk k =>
    simp only [xstep]
    cases hl : s.d.live with
    | none => exact xbase_ok s (.aofAppend chunk) hinv hok.1 hsrc (noP _ (by intro c e; cases e))
    | some g =>
      simp only []
      split
      · rename_i hrot
        exact rot_fail s hinv g chunk hl hok.1 hsrc hrot _ (hdrTornOps_all _ _ _) _ _ (okOps_fail1 _)
      · exact xbase_ok s (.aofAppend chunk) hinv hok.1 hsrc (noP _ (by intro c e; cases e))
  | aofAppendOpenFail chunk =>
    simp only [xstep]
    cases hl : s.d.live with
    | none => exact xbase_ok s (.aofAppend chunk) hinv hok hsrc (noP _ (by intro c e; cases e))
    | some g =>
      simp only []
      split
      · rename_i hrot
        exact rot_fail s hinv g chunk hl hok hsrc hrot _ (single_hdr_all _ _) _ _ (okOps_fail1 _)
      · exact xbase_ok s (.aofAppend chunk) hinv hok hsrc (noP _ (by intro c e; cases e))
  | aofAppendShort chunk k =>
    have hcne : chunk ≠ [] := by
      intro e; rw [e] at hok; simp [okX] at hok
    simp only [xstep]
    cases hl : s.d.live with
    | none => exact xbase_ok s (.aofAppend chunk) hinv hcne hsrc (noP _ (by intro c e; cases e))
    | some g =>
      simp only []
      obtain ⟨hinv1, hpos1⟩ := short_step s hinv g chunk k hl hok hsrc
      have h2 := xbase_ok (P := P) _ .aofClose hinv1 trivial trivial (noP _ (by intro c e; cases e))
      have hon : OnAof g.left [FsOp.append (aofName g.left) (chunk.take k)] := by
        intro o ho; simp at ho; subst ho; exact Or.inl ⟨_, rfl⟩
      exact StepOk.seq (s := s) rfl hpos1 (hon.safe _) (okOps_fail1 _) h2
  | aofCloseRmFail =>
    simp only [xstep]
    cases hl : s.d.live with
    | none => exact xbase_ok s .aofClose hinv trivial trivial (noP _ (by intro c e; cases e))
    | some g =>
      simp only []
      split
      · have := close_with_hdrs (P := P) s hinv g hl [] (by intro o ho; cases ho) s.zombies
          [⟨.remove (aofName g.left), false⟩] (okOps_fail1 _)
        simpa [allOk, FS.applyAll] using this
      · exact xbase_ok s .aofClose hinv trivial trivial (noP _ (by intro c e; cases e))
  | rdbCloseRmFail =>
    simp only [xstep]
    cases hr : s.d.rdb with
    | none => exact xbase_ok s .rdbClose hinv trivial trivial (noP _ (by intro c e; cases e))
    | some r =>
      simp only []
      split
      · rename_i hw
        refine StepOk.mk' (by rw [okOps_fail1]; rfl) (by rw [okOps_fail1]; exact Pos.nil)
          (by rw [okOps_fail1]; exact Pos.nil) ?_
        have e : (s.d.step .rdbClose).1 = { s.d with rdb := none, readers := closeRdbReaders s.d.readers } := by
          simp only [Disk.step, hr, hw, if_true]
        refine ⟨hinv.dinv.step .rdbClose trivial, HistTrue_step hinv.hist .rdbClose trivial, ?_, ?_⟩
        · intro x hx
          rw [e] at hx
          exact hinv.files x (by simpa [Disk.all] using hx)
        · intro r' hr'
          rw [e] at hr'
          cases hr'
      · exact xbase_ok s .rdbClose hinv trivial trivial (noP _ (by intro c e; cases e))
  | rdbCommitFail chunk ren rmOk =>
    simp only [xstep]
    cases hr : s.d.rdb with
    | none =>
      exact xbase_ok s (.rdbAppend chunk) hinv hok trivial
        (fun r c _ hr' => by rw [hr] at hr'; cases hr')
    | some r =>
      simp only []
      split
      · rename_i hc
        simp only [Bool.and_eq_true, decide_eq_true_eq] at hc
        obtain ⟨hw, _⟩ := hc
        have hnames : ∀ o ∈ okOps (commitFailAtts r chunk ren rmOk), o.names = [rdbTmpName r.left r.size] :=
          commitFail_okOps_names r chunk ren rmOk
        have e : (s.d.step .rdbClose).1 = { s.d with rdb := none, readers := closeRdbReaders s.d.readers } := by
          simp only [Disk.step, hr, hw, if_true]
        refine StepOk.mk' rfl ?_ ?_ ⟨hinv.dinv.step .rdbClose trivial, HistTrue_step hinv.hist .rdbClose trivial, ?_, ?_⟩
        · exact Pos.ofAll (fun o ho fs' => by
            rcases commitFail_okOps_mem r chunk ren rmOk o ho with rfl | rfl
            · intro c _; exact contentTrue_not_aof _ rfl
            · trivial)
        · exact Pos.ofAll (fun o ho fs' => by
            rcases commitFail_okOps_mem r chunk ren rmOk o ho with rfl | rfl
            · rfl
            · trivial)
        · intro x hx
          rw [e] at hx
          obtain ⟨hdr, hh, hget⟩ := hinv.files x (by simpa [Disk.all] using hx)
          refine ⟨hdr, hh, ?_⟩
          rw [get_applyAll_other _ _ _ (fun o ho => by rw [hnames o ho]; simp [aofName, rdbTmpName])]
          exact hget
        · intro r' hr'
          rw [e] at hr'
          cases hr'
      · rename_i hc
        refine xbase_ok s (.rdbAppend chunk) hinv hok trivial (fun r' c e' hr' hw hlen => ?_)
        rw [hr] at hr'; cases hr'; cases e'
        exact absurd (by simp [hw, hlen]) hc
  | gcRmFail stuck all =>
    simp only [xstep]
    have hrm : ∀ o ∈ okOps ((gcOpsZ s.d s.zombies).map (fun o => (⟨o, !gcStuck stuck all o⟩ : Att))),
        o ∈ gcOpsZ s.d s.zombies := fun o ho => mem_okOps_map ho
    refine StepOk.mk' rfl ?_ ?_ ?_
    · exact Pos.ofAll (fun o ho fs' => by
        rcases gcOpsZ_mem (hrm o ho) with ⟨l, sz, rfl⟩ | ⟨g, _, rfl⟩ <;> trivial)
    · exact Pos.ofAll (fun o ho fs' => by
        rcases gcOpsZ_mem (hrm o ho) with ⟨l, sz, rfl⟩ | ⟨g, _, rfl⟩ <;> trivial)
    · apply gcZ_inv s hinv
      · intro g hg
        apply get_applyAll_other
        intro o ho
        rcases gcOpsZ_mem (hrm o ho) with ⟨l, sz, rfl⟩ | ⟨x, hx, rfl⟩
        · simp [FsOp.names, aofName, rdbName]
        · simp only [FsOp.names, List.mem_singleton]
          exact gc_removed_ne hinv.dinv _ hx hg
      · intro l sz
        apply get_applyAll_other
        intro o ho
        rcases gcOpsZ_mem (hrm o ho) with ⟨l', sz', rfl⟩ | ⟨x, _, rfl⟩
        · simp [FsOp.names, rdbTmpName, rdbName]
        · simp [FsOp.names, rdbTmpName, aofName]

end GunYu.StoreFsX
