/-
  Helper lemmas for C18: the regenerated slot-tag table hits its slots, and
  the hash tag of a key of the shape  pre ++ "{" ++ tag ++ "}" ++ post.
-/
import GunYu.Model.BisyncUnit
import GunYu.Props.C11

namespace GunYu.BisyncUnit
open GunYu GunYu.Slot

/-- every slot is in range -/
theorem hashSlotSpec_lt (k : Bytes) : hashSlotSpec k < 16384 := Nat.mod_lt _ (by decide)

/-! ### hash tag of a wrapped key -/

theorem splitFirst_append (c : UInt8) (pre rest : Bytes) (h : c ∉ pre) :
    splitFirst c (pre ++ c :: rest) = some (pre, rest) := by
  induction pre with
  | nil => simp [splitFirst]
  | cons b bs ih =>
    have hb : b ≠ c := fun e => h (by simp [e])
    have hbs : c ∉ bs := fun e => h (by simp [e])
    simp only [List.cons_append, splitFirst]
    have : (b == c) = false := by simpa using hb
    rw [this, ih hbs]
    simp

/-- `pre` without '{', `tag` non-empty without '}' ⇒ the hashed bytes of
    `pre{tag}post` are `tag` -/
theorem hashTagSpec_wrap (pre tag post : Bytes) (hpre : lbrace ∉ pre) (htag : rbrace ∉ tag)
    (hne : tag ≠ []) :
    hashTagSpec (pre ++ lbrace :: (tag ++ rbrace :: post)) = tag := by
  unfold hashTagSpec
  rw [splitFirst_append lbrace pre _ hpre]
  simp only
  rw [splitFirst_append rbrace tag post htag]
  cases tag with
  | nil => exact absurd rfl hne
  | cons a as => simp

theorem hashSlotSpec_wrap (pre tag post : Bytes) (hpre : lbrace ∉ pre) (htag : rbrace ∉ tag)
    (hne : tag ≠ []) :
    hashSlotSpec (pre ++ lbrace :: (tag ++ rbrace :: post)) = hashSlotSpec (braced tag) := by
  have h1 := hashTagSpec_wrap pre tag post hpre htag hne
  have h2 := hashTagSpec_wrap [] tag [] (by simp) htag hne
  unfold hashSlotSpec
  rw [h1]
  unfold braced
  simp only [List.nil_append] at h2
  rw [h2]

/-! ### the regenerated table

  The 16384 entries are checked by kernel evaluation. To keep that fast the
  check runs a Nat-only mirror of the bitwise CRC16 (`crcN`, written with the
  GMP-accelerated `Nat.*` primitives) on a Nat-only mirror of the tag bytes
  (`tagN`); both mirrors are proved equal to the model functions for all
  inputs below, so the table theorem is about `hashSlotSpec` itself. -/

def bitN (n : Nat) : Nat :=
  Nat.xor (Nat.mod (Nat.shiftLeft n 1) 65536) (Nat.mul (Nat.shiftRight n 15) 0x1021)

def byteN (c b : Nat) : Nat :=
  bitN (bitN (bitN (bitN (bitN (bitN (bitN (bitN (Nat.xor c (Nat.shiftLeft b 8)))))))))

def crcN (bs : List Nat) : Nat := bs.foldl byteN 0

theorem bitStep_toNat (c : BitVec 16) : (bitStep c).toNat = bitN c.toNat := by
  have hlt : c.toNat < 65536 := c.isLt
  unfold bitStep bitN
  rw [BitVec.msb_eq_decide]
  show (if decide (2 ^ (16 - 1) ≤ c.toNat) = true then _ else _ : BitVec 16).toNat = _
  by_cases h : 32768 ≤ c.toNat
  · have e : Nat.shiftRight c.toNat 15 = 1 := by
      show c.toNat >>> 15 = 1
      rw [Nat.shiftRight_eq_div_pow]; omega
    have hd : decide (2 ^ (16 - 1) ≤ c.toNat) = true := by simpa using h
    rw [if_pos hd, e, BitVec.toNat_xor, BitVec.toNat_shiftLeft]
    rfl
  · have e : Nat.shiftRight c.toNat 15 = 0 := by
      show c.toNat >>> 15 = 0
      rw [Nat.shiftRight_eq_div_pow]; omega
    have hd : ¬ decide (2 ^ (16 - 1) ≤ c.toNat) = true := by simpa using h
    rw [if_neg hd, e, BitVec.toNat_shiftLeft]
    show c.toNat <<< 1 % 2 ^ 16 = (c.toNat <<< 1 % 65536) ^^^ (0 * 4129)
    rw [Nat.zero_mul, Nat.xor_zero]

theorem specStep_toNat (crc : BitVec 16) (b : UInt8) :
    (specStep crc b).toNat = byteN crc.toNat b.toNat := by
  unfold specStep bitStep8 byteN
  simp only [bitStep_toNat]
  congr 8
  rw [BitVec.toNat_xor, BitVec.toNat_shiftLeft, BitVec.toNat_setWidth]
  have hb : b.toNat < 256 := b.toBitVec.isLt
  show Nat.xor crc.toNat ((b.toNat % 2 ^ 16) <<< 8 % 2 ^ 16) = Nat.xor crc.toNat (b.toNat <<< 8)
  have e1 : b.toNat % 2 ^ 16 = b.toNat := Nat.mod_eq_of_lt (by omega)
  rw [e1, Nat.shiftLeft_eq]
  have e2 : b.toNat * 2 ^ 8 % 2 ^ 16 = b.toNat * 2 ^ 8 := Nat.mod_eq_of_lt (by omega)
  rw [e2]

theorem crc16Spec_toNat_from (bs : Bytes) (c : BitVec 16) :
    (bs.foldl specStep c).toNat = (bs.map UInt8.toNat).foldl byteN c.toNat := by
  induction bs generalizing c with
  | nil => rfl
  | cons b rest ih =>
    simp only [List.foldl_cons, List.map_cons]
    rw [ih, specStep_toNat]

theorem crc16Spec_toNat (bs : Bytes) : (crc16Spec bs).toNat = crcN (bs.map UInt8.toNat) :=
  crc16Spec_toNat_from bs 0#16

/-- Nat mirror of `hexLower` (most significant digit first) -/
def hexN : Nat → Nat → List Nat → List Nat
  | 0, _, acc => acc
  | fuel+1, n, acc =>
    let acc' := (bif Nat.blt (Nat.mod n 16) 10 then Nat.add 48 (Nat.mod n 16) else Nat.add 87 (Nat.mod n 16)) :: acc
    bif Nat.beq (Nat.div n 16) 0 then acc' else hexN fuel (Nat.div n 16) acc'

def isHexByte (b : Nat) : Prop := (48 ≤ b ∧ b ≤ 57) ∨ (97 ≤ b ∧ b ≤ 102)

theorem hexDigit_toNat (d : Nat) (hd : d < 16) :
    (hexDigit d).toNat = (bif Nat.blt d 10 then Nat.add 48 d else Nat.add 87 d) ∧ isHexByte (hexDigit d).toNat := by
  unfold hexDigit isHexByte
  by_cases h : d < 10
  · have hb : Nat.blt d 10 = true := by
      unfold Nat.blt; exact Nat.ble_eq_true_of_le (by omega)
    rw [if_pos h, hb]
    have : (UInt8.ofNat (48 + d)).toNat = 48 + d := by
      rw [UInt8.toNat_ofNat']; omega
    rw [this]
    exact ⟨rfl, Or.inl ⟨by omega, by omega⟩⟩
  · have hb : Nat.blt d 10 = false := by
      unfold Nat.blt
      cases hx : Nat.ble (d + 1) 10 with
      | false => rfl
      | true => exact absurd (Nat.le_of_ble_eq_true hx) (by omega)
    rw [if_neg h, hb]
    have : (UInt8.ofNat (87 + d)).toNat = 87 + d := by
      rw [UInt8.toNat_ofNat']; omega
    rw [this]
    exact ⟨rfl, Or.inr ⟨by omega, by omega⟩⟩

theorem hexLowerAux_toNat (fuel n : Nat) (acc : Bytes) :
    (hexLowerAux fuel n acc).map UInt8.toNat = hexN fuel n (acc.map UInt8.toNat) ∧
    ((∀ b ∈ acc, isHexByte b.toNat) → ∀ b ∈ hexLowerAux fuel n acc, isHexByte b.toNat) := by
  induction fuel generalizing n acc with
  | zero => exact ⟨rfl, fun h => h⟩
  | succ f ih =>
    have hd := hexDigit_toNat (n % 16) (Nat.mod_lt _ (by decide))
    unfold hexLowerAux hexN
    simp only
    by_cases hz : n / 16 = 0
    · have hb : Nat.beq (Nat.div n 16) 0 = true := by
        show Nat.beq (n / 16) 0 = true
        rw [hz]; rfl
      rw [if_pos hz, hb]
      refine ⟨?_, ?_⟩
      · simp only [List.map_cons, cond_true]
        rw [hd.1]; rfl
      · intro h b hbm
        rcases List.mem_cons.mp hbm with e | e
        · rw [e]; exact hd.2
        · exact h b e
    · have hb : Nat.beq (Nat.div n 16) 0 = false := by
        show Nat.beq (n / 16) 0 = false
        cases hq : n / 16 with
        | zero => exact absurd hq hz
        | succ q => rfl
      rw [if_neg hz, hb]
      have := ih (n / 16) (hexDigit (n % 16) :: acc)
      refine ⟨?_, ?_⟩
      · rw [this.1]
        simp only [List.map_cons, cond_false]
        rw [hd.1]; rfl
      · intro h
        apply this.2
        intro b hbm
        rcases List.mem_cons.mp hbm with e | e
        · rw [e]; exact hd.2
        · exact h b e

/-- Nat mirror of `slotTagOfIdx` -/
def tagN (i : Nat) : List Nat := Gen.slotTagPrefix.map UInt8.toNat ++ hexN (Nat.succ i) i []

theorem slotTagOfIdx_toNat (i : Nat) : (slotTagOfIdx i).map UInt8.toNat = tagN i := by
  unfold slotTagOfIdx tagN hexLower
  rw [List.map_append, (hexLowerAux_toNat (i + 1) i []).1]
  rfl

theorem prefix_braceFree : ∀ b ∈ Gen.slotTagPrefix, b ≠ lbrace ∧ b ≠ rbrace := by decide

theorem slotTagOfIdx_braceFree (i : Nat) :
    lbrace ∉ slotTagOfIdx i ∧ rbrace ∉ slotTagOfIdx i ∧ slotTagOfIdx i ≠ [] := by
  have hh := (hexLowerAux_toNat (i + 1) i []).2 (by simp)
  have key : ∀ b ∈ slotTagOfIdx i, b ≠ lbrace ∧ b ≠ rbrace := by
    intro b hb
    unfold slotTagOfIdx at hb
    rcases List.mem_append.mp hb with h | h
    · exact prefix_braceFree b h
    · have := hh b h
      unfold isHexByte at this
      constructor
      · intro e; rw [e] at this; revert this; decide
      · intro e; rw [e] at this; revert this; decide
  refine ⟨fun h => (key _ h).1 rfl, fun h => (key _ h).2 rfl, ?_⟩
  unfold slotTagOfIdx
  have : Gen.slotTagPrefix ≠ [] := by decide
  intro e
  exact this (List.append_eq_nil_iff.mp e).1

/-- the CRC of the common prefix "slot-", evaluated once -/
def prefixCrc : Nat := 25532

theorem prefixCrc_eq : (Gen.slotTagPrefix.map UInt8.toNat).foldl byteN 0 = prefixCrc := by decide +kernel

/-- one chunk of the table: entry `j` of the chunk hashes to slot `s + j` -/
def checkChunk : Nat → List Nat → Bool
  | _, [] => true
  | s, i :: is =>
    Nat.beq (Nat.mod ((hexN (Nat.succ i) i []).foldl byteN prefixCrc) 16384) s && checkChunk (Nat.succ s) is

def checkChunks : Nat → List (List Nat) → Bool
  | _, [] => true
  | base, c :: cs => c.length == 1024 && checkChunk base c && checkChunks (base + 1024) cs

theorem chunk0_ok : checkChunk 0 Gen.slotTagChunk0 = true := by decide +kernel
theorem chunk1_ok : checkChunk 1024 Gen.slotTagChunk1 = true := by decide +kernel
theorem chunk2_ok : checkChunk 2048 Gen.slotTagChunk2 = true := by decide +kernel
theorem chunk3_ok : checkChunk 3072 Gen.slotTagChunk3 = true := by decide +kernel
theorem chunk4_ok : checkChunk 4096 Gen.slotTagChunk4 = true := by decide +kernel
theorem chunk5_ok : checkChunk 5120 Gen.slotTagChunk5 = true := by decide +kernel
theorem chunk6_ok : checkChunk 6144 Gen.slotTagChunk6 = true := by decide +kernel
theorem chunk7_ok : checkChunk 7168 Gen.slotTagChunk7 = true := by decide +kernel
theorem chunk8_ok : checkChunk 8192 Gen.slotTagChunk8 = true := by decide +kernel
theorem chunk9_ok : checkChunk 9216 Gen.slotTagChunk9 = true := by decide +kernel
theorem chunk10_ok : checkChunk 10240 Gen.slotTagChunk10 = true := by decide +kernel
theorem chunk11_ok : checkChunk 11264 Gen.slotTagChunk11 = true := by decide +kernel
theorem chunk12_ok : checkChunk 12288 Gen.slotTagChunk12 = true := by decide +kernel
theorem chunk13_ok : checkChunk 13312 Gen.slotTagChunk13 = true := by decide +kernel
theorem chunk14_ok : checkChunk 14336 Gen.slotTagChunk14 = true := by decide +kernel
theorem chunk15_ok : checkChunk 15360 Gen.slotTagChunk15 = true := by decide +kernel

theorem chunk_lengths : Gen.slotTagChunks.map List.length = List.replicate 16 1024 := by decide +kernel

/-- what one successful entry check says about the model -/
theorem entry_ok (s i : Nat)
    (h : Nat.beq (Nat.mod ((hexN (Nat.succ i) i []).foldl byteN prefixCrc) 16384) s = true) :
    hashSlotSpec (braced (slotTagOfIdx i)) = s := by
  have hbf := slotTagOfIdx_braceFree i
  have hw := hashSlotSpec_wrap [] (slotTagOfIdx i) [] (by simp) hbf.2.1 hbf.2.2
  have hw' : hashSlotSpec (braced (slotTagOfIdx i)) = (crc16Spec (slotTagOfIdx i)).toNat % 16384 := by
    have ht := hashTagSpec_wrap [] (slotTagOfIdx i) [] (by simp) hbf.2.1 hbf.2.2
    unfold hashSlotSpec braced
    simp only [List.nil_append] at ht
    rw [ht]
  rw [hw', crc16Spec_toNat, slotTagOfIdx_toNat]
  unfold tagN crcN
  rw [List.foldl_append, prefixCrc_eq]
  exact Nat.eq_of_beq_eq_true h

theorem checkChunk_get (base : Nat) (l : List Nat) (h : checkChunk base l = true) (j : Nat)
    (hj : j < l.length) : hashSlotSpec (braced (slotTagOfIdx (l.getD j 0))) = base + j := by
  induction l generalizing base j with
  | nil => simp at hj
  | cons i is ih =>
    simp only [checkChunk, Bool.and_eq_true] at h
    cases j with
    | zero => simpa using entry_ok base i h.1
    | succ j' =>
      have := ih (Nat.succ base) h.2 j' (by simpa using hj)
      simpa [Nat.add_assoc, Nat.add_comm 1 j', Nat.succ_eq_add_one] using this

theorem checkChunks_get (base : Nat) (cs : List (List Nat)) (h : checkChunks base cs = true)
    (c j : Nat) (hc : c < cs.length) (hj : j < 1024) :
    hashSlotSpec (braced (slotTagOfIdx ((cs.getD c []).getD j 0))) = base + 1024 * c + j := by
  induction cs generalizing base c with
  | nil => simp at hc
  | cons x xs ih =>
    simp only [checkChunks, Bool.and_eq_true, beq_iff_eq] at h
    cases c with
    | zero =>
      have := checkChunk_get base x h.1.2 j (by omega)
      simpa using this
    | succ c' =>
      have := ih (base + 1024) h.2 c' (by simpa using hc)
      have e : base + 1024 + 1024 * c' + j = base + 1024 * (c' + 1) + j := by omega
      rw [e] at this
      simpa using this

theorem all_chunks_ok : checkChunks 0 Gen.slotTagChunks = true := by
  have hl := chunk_lengths
  simp only [Gen.slotTagChunks, List.map_cons, List.map_nil, List.replicate, List.cons.injEq, and_true] at hl
  simp only [Gen.slotTagChunks, checkChunks, chunk0_ok, chunk1_ok, chunk2_ok, chunk3_ok, chunk4_ok,
    chunk5_ok, chunk6_ok, chunk7_ok, chunk8_ok, chunk9_ok, chunk10_ok, chunk11_ok, chunk12_ok,
    chunk13_ok, chunk14_ok, chunk15_ok, hl, beq_self_eq_true, Bool.and_self, Nat.zero_add, Nat.reduceAdd]

/-- every entry of the regenerated table: `{tag}` hashes to its slot under the
    HASH_SLOT specification; the tag is non-empty and brace-free -/
theorem slotTag_spec (s : Nat) (hs : s < 16384) :
    hashSlotSpec (braced (slotTag s)) = s ∧
    lbrace ∉ slotTag s ∧ rbrace ∉ slotTag s ∧ slotTag s ≠ [] := by
  have h := checkChunks_get 0 Gen.slotTagChunks all_chunks_ok (s / 1024) (s % 1024)
    (by have : Gen.slotTagChunks.length = 16 := by decide
        omega)
    (Nat.mod_lt _ (by decide))
  have e : 0 + 1024 * (s / 1024) + s % 1024 = s := by omega
  rw [e] at h
  exact ⟨h, slotTagOfIdx_braceFree _⟩

end GunYu.BisyncUnit
