/-
  Helper lemmas for C18: the regenerated slot-tag table hits its slots, and
  the hash tag of a key of the shape  pre ++ "{" ++ tag ++ "}" ++ post.
-/
import GunYu.Model.BisyncUnit
import GunYu.Props.C11

namespace GunYu.BisyncUnit
open GunYu GunYu.Slot

/-! ### hash tag of a wrapped key -/

theorem splitFirst_append (c : UInt8) (pre rest : Bytes) (h : c ∉ pre) :
    splitFirst c (pre ++ c :: rest) = some (pre, rest) := by
  induction pre with
  | nil => simp [splitFirst]
  | cons b bs ih =>
    have hb : b ≠ c := fun e => h (by simp [e])
    have hbs : c ∉ bs := fun e => h (by simp [e])
    simp only [List.cons_append, splitFirst]
    have : (b == c) = false := by simpa using hb
    rw [this, ih hbs]
    simp

/-- `pre` without '{', `tag` non-empty without '}' ⇒ the hashed bytes of
    `pre{tag}post` are `tag` -/
theorem hashTagSpec_wrap (pre tag post : Bytes) (hpre : lbrace ∉ pre) (htag : rbrace ∉ tag)
    (hne : tag ≠ []) :
    hashTagSpec (pre ++ lbrace :: (tag ++ rbrace :: post)) = tag := by
  unfold hashTagSpec
  rw [splitFirst_append lbrace pre _ hpre]
  simp only
  rw [splitFirst_append rbrace tag post htag]
  cases tag with
  | nil => exact absurd rfl hne
  | cons a as => simp

theorem hashSlotSpec_wrap (pre tag post : Bytes) (hpre : lbrace ∉ pre) (htag : rbrace ∉ tag)
    (hne : tag ≠ []) :
    hashSlotSpec (pre ++ lbrace :: (tag ++ rbrace :: post)) = hashSlotSpec (braced tag) := by
  have h1 := hashTagSpec_wrap pre tag post hpre htag hne
  have h2 := hashTagSpec_wrap [] tag [] (by simp) htag hne
  unfold hashSlotSpec
  rw [h1]
  unfold braced
  simp only [List.nil_append] at h2
  rw [h2]

/-! ### the regenerated table -/

/-- one table entry: the tag hashes to its slot (through the model of
    `redis.KeyToSlot`, what the init loop calls), is non-empty and brace-free -/
def checkTag (slot i : Nat) : Bool :=
  let t := slotTagOfIdx i
  keyToSlot (braced t) == slot && !t.isEmpty && !t.contains rbrace && !t.contains lbrace

def checkChunk : Nat → List Nat → Bool
  | _, [] => true
  | s, i :: is => checkTag s i && checkChunk (s + 1) is

def checkChunks : Nat → List (List Nat) → Bool
  | _, [] => true
  | base, c :: cs => c.length == 1024 && checkChunk base c && checkChunks (base + 1024) cs

theorem chunk0_ok : checkChunk 0 Gen.slotTagChunk0 = true := by decide +kernel
theorem chunk1_ok : checkChunk 1024 Gen.slotTagChunk1 = true := by decide +kernel
theorem chunk2_ok : checkChunk 2048 Gen.slotTagChunk2 = true := by decide +kernel
theorem chunk3_ok : checkChunk 3072 Gen.slotTagChunk3 = true := by decide +kernel
theorem chunk4_ok : checkChunk 4096 Gen.slotTagChunk4 = true := by decide +kernel
theorem chunk5_ok : checkChunk 5120 Gen.slotTagChunk5 = true := by decide +kernel
theorem chunk6_ok : checkChunk 6144 Gen.slotTagChunk6 = true := by decide +kernel
theorem chunk7_ok : checkChunk 7168 Gen.slotTagChunk7 = true := by decide +kernel
theorem chunk8_ok : checkChunk 8192 Gen.slotTagChunk8 = true := by decide +kernel
theorem chunk9_ok : checkChunk 9216 Gen.slotTagChunk9 = true := by decide +kernel
theorem chunk10_ok : checkChunk 10240 Gen.slotTagChunk10 = true := by decide +kernel
theorem chunk11_ok : checkChunk 11264 Gen.slotTagChunk11 = true := by decide +kernel
theorem chunk12_ok : checkChunk 12288 Gen.slotTagChunk12 = true := by decide +kernel
theorem chunk13_ok : checkChunk 13312 Gen.slotTagChunk13 = true := by decide +kernel
theorem chunk14_ok : checkChunk 14336 Gen.slotTagChunk14 = true := by decide +kernel
theorem chunk15_ok : checkChunk 15360 Gen.slotTagChunk15 = true := by decide +kernel

theorem chunk_lengths : Gen.slotTagChunks.map List.length = List.replicate 16 1024 := by decide +kernel

theorem checkChunk_get (base : Nat) (l : List Nat) (h : checkChunk base l = true) (j : Nat)
    (hj : j < l.length) : checkTag (base + j) (l.getD j 0) = true := by
  induction l generalizing base j with
  | nil => simp at hj
  | cons i is ih =>
    simp only [checkChunk, Bool.and_eq_true] at h
    cases j with
    | zero => simpa using h.1
    | succ j' =>
      have := ih (base + 1) h.2 j' (by simpa using hj)
      simpa [Nat.add_assoc, Nat.add_comm 1 j'] using this

theorem checkChunks_get (base : Nat) (cs : List (List Nat)) (h : checkChunks base cs = true)
    (c j : Nat) (hc : c < cs.length) (hj : j < 1024) :
    checkTag (base + 1024 * c + j) ((cs.getD c []).getD j 0) = true := by
  induction cs generalizing base c with
  | nil => simp at hc
  | cons x xs ih =>
    simp only [checkChunks, Bool.and_eq_true, beq_iff_eq] at h
    cases c with
    | zero =>
      have := checkChunk_get base x h.1.2 j (by omega)
      simpa using this
    | succ c' =>
      have := ih (base + 1024) h.2 c' (by simpa using hc)
      have e : base + 1024 + 1024 * c' + j = base + 1024 * (c' + 1) + j := by omega
      rw [e] at this
      simpa using this

theorem all_chunks_ok : checkChunks 0 Gen.slotTagChunks = true := by
  have hl := chunk_lengths
  simp only [Gen.slotTagChunks, List.map_cons, List.map_nil, List.replicate, List.cons.injEq, and_true] at hl
  simp only [Gen.slotTagChunks, checkChunks, chunk0_ok, chunk1_ok, chunk2_ok, chunk3_ok, chunk4_ok,
    chunk5_ok, chunk6_ok, chunk7_ok, chunk8_ok, chunk9_ok, chunk10_ok, chunk11_ok, chunk12_ok,
    chunk13_ok, chunk14_ok, chunk15_ok, hl, beq_self_eq_true, Bool.and_self, Nat.zero_add, Nat.reduceAdd]

theorem checkTag_slot (s : Nat) (hs : s < 16384) : checkTag s (slotTagIdx s) = true := by
  have h := checkChunks_get 0 Gen.slotTagChunks all_chunks_ok (s / 1024) (s % 1024)
    (by have : Gen.slotTagChunks.length = 16 := by decide
        omega)
    (Nat.mod_lt _ (by decide))
  have e : 0 + 1024 * (s / 1024) + s % 1024 = s := by omega
  rw [e] at h
  exact h

end GunYu.BisyncUnit
