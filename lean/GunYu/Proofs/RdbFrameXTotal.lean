/-
  C04 — the extended frame grammar decides every input ("outside the model" is
  never answered) as soon as the float predicate does: `itemS_total`.
-/
import GunYu.Proofs.RdbFrameX

namespace GunYu.RdbFrameX
open GunYu GunYu.RdbFrame

/-- a reader that never answers "outside the model" -/
def NoUnsup {α} (r : Rd α) : Prop := ∀ xs, r xs ≠ .unsup

theorem nu_ret {α} (a : α) : NoUnsup (ret a) := by intro xs; simp [ret]
theorem nu_fail {α} : NoUnsup (fail : Rd α) := by intro xs; simp [fail]
theorem nu_u8 : NoUnsup u8 := by intro xs; cases xs <;> simp [u8]
theorem nu_takeN (n : Nat) : NoUnsup (takeN n) := by intro xs; unfold takeN; split <;> simp

theorem nu_andThen {α β} {r : Rd α} {k : α → Rd β} (hr : NoUnsup r) (hk : ∀ a, NoUnsup (k a)) :
    NoUnsup (andThen r k) := by
  intro xs
  unfold andThen
  cases h : r xs with
  | ok a rest => exact hk a rest
  | err => simp
  | unsup => exact absurd h (hr xs)

theorem nu_ite {α} {c : Prop} [Decidable c] {a b : Rd α} (ha : NoUnsup a) (hb : NoUnsup b) :
    NoUnsup (if c then a else b) := by
  split <;> assumption

theorem nu_repeatN {r : Rd Unit} (hr : NoUnsup r) : ∀ n, NoUnsup (repeatN n r)
  | 0 => nu_ret ()
  | n+1 => nu_andThen hr (fun _ => nu_repeatN hr n)

theorem nu_measured {α} {r : Rd α} (hr : NoUnsup r) : NoUnsup (measured r) := by
  intro xs
  unfold measured
  cases h : r xs with
  | ok a rest => simp
  | err => simp
  | unsup => exact absurd h (hr xs)

theorem nu_iter {α} {stepR : Rd (Option α)} (hs : NoUnsup stepR) : ∀ f, NoUnsup (iter stepR f)
  | 0 => nu_fail
  | f+1 => by
    unfold iter
    refine nu_andThen hs (fun x => ?_)
    cases x with
    | some a => exact nu_ret a
    | none => exact nu_iter hs f

theorem nu_encLen : NoUnsup encLen := by
  unfold encLen
  refine nu_andThen nu_u8 (fun u => ?_)
  dsimp only
  repeat' split
  all_goals first
    | exact nu_ret _
    | exact nu_fail
    | exact nu_andThen nu_u8 (fun _ => nu_ret _)
    | exact nu_andThen (nu_takeN _) (fun _ => nu_ret _)

theorem nu_len : NoUnsup len := by
  unfold len
  exact nu_andThen nu_encLen (fun p => nu_ite nu_fail (nu_ret _))

theorem nu_len32 : NoUnsup len32 := nu_andThen nu_len (fun _ => nu_ret _)
theorem nu_skipBytes (n : Nat) : NoUnsup (skipBytes n) := nu_andThen (nu_takeN n) (fun _ => nu_ret _)
theorem nu_bytesN (n : Nat) : NoUnsup (bytesN n) := by unfold bytesN; exact nu_ite (nu_skipBytes n) nu_fail

theorem nu_strL : NoUnsup strL := by
  unfold strL
  refine nu_andThen nu_encLen (fun p => ?_)
  refine nu_ite (nu_andThen (nu_bytesN _) (fun _ => nu_ret _)) ?_
  refine nu_ite (nu_andThen (nu_skipBytes _) (fun _ => nu_ret _)) ?_
  refine nu_ite (nu_andThen (nu_skipBytes _) (fun _ => nu_ret _)) ?_
  refine nu_ite (nu_andThen (nu_skipBytes _) (fun _ => nu_ret _)) ?_
  refine nu_ite ?_ nu_fail
  exact nu_andThen nu_len32 (fun _ => nu_andThen nu_len32 (fun _ => nu_andThen (nu_takeN _) (fun _ =>
    nu_ite (nu_ret _) nu_fail)))

theorem nu_strX : NoUnsup strX := nu_andThen nu_strL (fun _ => nu_ret _)

theorem nu_floatX (cfg : Cfg) (h : ∀ bs, cfg.floatOk bs ≠ .dunno) : NoUnsup (floatX cfg) := by
  unfold floatX
  refine nu_andThen nu_u8 (fun u => nu_ite (nu_ret _) (nu_andThen (nu_takeN _) (fun bs => ?_)))
  cases hf : cfg.floatOk bs
  · exact nu_ret _
  · exact nu_fail
  · exact absurd hf (h bs)

theorem nu_modStep : NoUnsup modStep := by
  unfold modStep
  refine nu_andThen nu_len32 (fun op => ?_)
  refine nu_ite (nu_ret _) ?_
  refine nu_ite (nu_andThen nu_len32 (fun _ => nu_ret _)) ?_
  refine nu_ite (nu_andThen nu_strX (fun _ => nu_ret _)) ?_
  refine nu_ite (nu_andThen (nu_skipBytes _) (fun _ => nu_ret _)) ?_
  exact nu_ite (nu_andThen (nu_skipBytes _) (fun _ => nu_ret _)) (nu_ret _)

theorem nu_moduleVals : NoUnsup moduleVals := fun xs => nu_iter nu_modStep (xs.length + 1) xs

theorem nu_lens (k : Nat) : NoUnsup (lens k) := nu_repeatN (nu_andThen nu_len (fun _ => nu_ret _)) k

theorem nu_streamNode : NoUnsup streamNode := by
  unfold streamNode
  exact nu_andThen nu_strL (fun l => nu_ite nu_strX nu_fail)

theorem nu_streamConsumer (t : Nat) : NoUnsup (streamConsumer t) := by
  unfold streamConsumer
  exact nu_andThen nu_strX (fun _ => nu_andThen (nu_skipBytes _) (fun _ =>
    nu_andThen (nu_ite (nu_skipBytes _) (nu_ret _)) (fun _ =>
      nu_andThen nu_len (fun np => nu_repeatN (nu_skipBytes _) _))))

theorem nu_streamGroup (t : Nat) : NoUnsup (streamGroup t) := by
  unfold streamGroup
  exact nu_andThen nu_strX (fun _ => nu_andThen (nu_lens _) (fun _ =>
    nu_andThen (nu_ite (nu_lens _) (nu_ret _)) (fun _ =>
      nu_andThen nu_len (fun np =>
        nu_andThen (nu_repeatN (nu_andThen (nu_skipBytes _) (fun _ => nu_andThen (nu_skipBytes _) (fun _ => nu_lens _))) _) (fun _ =>
          nu_andThen nu_len32 (fun nc => nu_repeatN (nu_streamConsumer t) _))))))

theorem nu_streamIDMP : NoUnsup streamIDMP := by
  unfold streamIDMP
  exact nu_andThen (nu_lens _) (fun _ => nu_andThen nu_len (fun npr =>
    nu_andThen (nu_repeatN (nu_andThen nu_strX (fun _ => nu_andThen nu_len (fun ne =>
      nu_repeatN (nu_andThen nu_strX (fun _ => nu_lens _)) _))) _) (fun _ => nu_lens _)))

theorem nu_streamX (t : Nat) : NoUnsup (streamX t) := by
  unfold streamX
  exact nu_andThen nu_len (fun nlp => nu_andThen (nu_repeatN nu_streamNode _) (fun _ =>
    nu_andThen (nu_lens _) (fun _ => nu_andThen (nu_ite (nu_lens _) (nu_ret _)) (fun _ =>
      nu_andThen nu_len (fun ng => nu_andThen (nu_repeatN (nu_streamGroup t) _) (fun _ =>
        nu_ite nu_streamIDMP (nu_ret _)))))))

theorem nu_valueBodyX (cfg : Cfg) (h : ∀ bs, cfg.floatOk bs ≠ .dunno) (t : Nat) : NoUnsup (valueBodyX cfg t) := by
  unfold valueBodyX
  refine nu_ite nu_strX ?_
  refine nu_ite (nu_andThen nu_len32 (fun n => nu_repeatN nu_strX n)) ?_
  refine nu_ite (nu_andThen nu_len32 (fun n => nu_repeatN (nu_andThen nu_len (fun _ => nu_strX)) n)) ?_
  refine nu_ite (nu_andThen nu_len32 (fun n => nu_repeatN (nu_andThen nu_strX (fun _ => nu_floatX cfg h)) n)) ?_
  refine nu_ite (nu_andThen nu_len32 (fun n => nu_repeatN (nu_andThen nu_strX (fun _ => nu_skipBytes 8)) n)) ?_
  refine nu_ite nu_fail ?_
  refine nu_ite (nu_andThen nu_len (fun _ => nu_moduleVals)) ?_
  exact nu_ite (nu_streamX t) nu_fail

theorem nu_itemOfX (cfg : Cfg) (h : ∀ bs, cfg.floatOk bs ≠ .dunno) (t : Nat) : NoUnsup (itemOfX cfg t) := by
  unfold itemOfX
  refine nu_ite (nu_ret _) ?_
  refine nu_ite (nu_andThen nu_len (fun _ => nu_ret _)) ?_
  refine nu_ite (nu_andThen nu_len (fun _ => nu_andThen nu_len (fun _ => nu_ret _))) ?_
  refine nu_ite (nu_andThen (nu_takeN 8) (fun _ => nu_ret _)) ?_
  refine nu_ite (nu_andThen (nu_takeN 4) (fun _ => nu_ret _)) ?_
  refine nu_ite (nu_andThen (nu_takeN 1) (fun _ => nu_ret _)) ?_
  refine nu_ite (nu_andThen nu_len (fun _ => nu_andThen nu_len (fun _ => nu_andThen nu_len (fun _ => nu_ret _)))) ?_
  refine nu_ite (nu_andThen nu_strX (fun _ => nu_andThen nu_strX (fun _ => nu_ret _))) ?_
  refine nu_ite (nu_andThen nu_strX (fun _ => nu_ret _)) ?_
  refine nu_ite (nu_andThen nu_len (fun _ => nu_andThen nu_moduleVals (fun _ => nu_ite nu_fail (nu_ret _)))) ?_
  exact nu_ite (nu_andThen nu_strX (fun _ => nu_andThen (nu_valueBodyX cfg h t) (fun _ => nu_ret _))) nu_fail

theorem nu_hashChunk (cfg : Cfg) : ∀ (n used : Nat), NoUnsup (hashChunk cfg n used)
  | 0, _ => nu_ret _
  | n+1, used => by
    unfold hashChunk
    refine nu_andThen (nu_measured (nu_andThen nu_strX (fun _ => nu_strX))) (fun p => nu_ite ?_ (nu_hashChunk cfg n _))
    cases n with
    | zero => exact nu_ret _
    | succ m => exact nu_ret _

/-- with a float predicate that decides, the extended grammar decides every input -/
theorem itemS_total (cfg : Cfg) (h : ∀ bs, cfg.floatOk bs ≠ .dunno) : TotalS (itemS cfg) := by
  intro s
  cases s with
  | none =>
    unfold itemS
    exact nu_andThen nu_u8 (fun op => nu_ite
      (nu_andThen nu_strX (fun _ => nu_andThen (nu_measured nu_len32) (fun p => nu_hashChunk cfg _ _)))
      (nu_andThen (nu_itemOfX cfg h _) (fun _ => nu_ret _)))
  | some m => exact nu_hashChunk cfg (m + 1) 0

end GunYu.RdbFrameX
