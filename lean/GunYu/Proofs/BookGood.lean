/-
  C17 — the invariant `Good` of the bookkeeping writers (Model/BookSys.lean, Model/Checkpoint.lean)
  and what it implies: the preconditions of the C17 safety theorems (`UpdPre`, `GcPre`'s parts,
  `Solo`). Core only.

  Control state `Ctl` (ghost, except `lab` = `cfg.RunId` and `key` = the key the hash resolves):
    mas / sec   the two ids the source reports (master replication id, second id)
    lab         the id the position is labelled with (the one the checkpoint hash maps)
    key         the checkpoint key the hash maps `lab` to
    up          a process has completed its start (its configured key name is `key`)
    pend        key name a rename that was cut after its first request has written to
    names, ids  key names / ids used so far
-/
import GunYu.Proofs.BookStr

namespace GunYu.BookSys
open GunYu GunYu.Checkpoint

set_option linter.unusedSimpArgs false
set_option linter.unusedVariables false

structure Ctl where
  key   : Bytes
  lab   : Bytes
  mas   : Bytes
  sec   : Bytes
  up    : Bool := false
  pend  : Option Bytes := none
  names : List Bytes := []
  ids   : List Bytes := []

/-- the part that does not look at the target -/
structure CtlOK (c : Ctl) : Prop where
  hne : c.mas ≠ c.sec
  m0 : c.mas ≠ []
  mq : c.mas ≠ qmark
  sq : c.sec ≠ qmark
  lab : c.lab = c.mas ∨ c.lab = c.sec
  l0 : c.lab ≠ []
  key0 : c.key ≠ []
  keyIn : c.key ∈ c.names
  masIn : c.mas ∈ c.ids
  secIn : c.sec ∈ c.ids
  upk : c.up = true → c.pend = none
  s0 : c.sec ≠ []

/-- what a rename cut after its first request left under the new key -/
structure PendOK (t : Checkpoint.Target) (c : Ctl) (p : Bytes) (X : Int) (d : Nat) : Prop where
  ne : p ≠ c.key
  p0 : p ≠ []
  mem : p ∈ c.names
  ok : LocOk [c.mas, c.sec] t p d X
  rid : ∀ db, ∀ e ∈ t.cps db p, e.rid = c.lab
  unm : ∀ q ∈ t.hash, q.2 ≠ p
  hasrid : ∀ db, hasKey (c.mas, Kind.offset) (t.cps db p) → hasKey (c.mas, Kind.runid) (t.cps db p)

/-- the part every deletion keeps -/
structure Frame (t : Checkpoint.Target) (c : Ctl) (X : Int) (d : Nat) : Prop where
  hashL : hlookup t.hash c.lab = some c.key
  hashM : c.lab ≠ c.mas → Unmapped t.hash c.mas
  str : StrA t c.names c.ids
  ord : ∀ db, NoAfter c.mas c.sec (t.cps db c.key)
  sle : ∀ db, OffLe [c.sec] (t.cps db c.key) X
  hasrid : ∀ db, hasKey (c.mas, Kind.offset) (t.cps db c.key) → hasKey (c.mas, Kind.runid) (t.cps db c.key)
  pend : ∀ p, c.pend = some p → PendOK t c p X d

/-- `Frame` without the run-id clause (the sender's offset write keeps that clause only together with
    its own bookkeeping: Props.C07) -/
structure FrameNR (t : Checkpoint.Target) (c : Ctl) (X : Int) (d : Nat) : Prop where
  hashL : hlookup t.hash c.lab = some c.key
  hashM : c.lab ≠ c.mas → Unmapped t.hash c.mas
  str : StrA t c.names c.ids
  ord : ∀ db, NoAfter c.mas c.sec (t.cps db c.key)
  sle : ∀ db, OffLe [c.sec] (t.cps db c.key) X
  pend : ∀ p, c.pend = some p → PendOK t c p X d

theorem Frame.nr {t : Checkpoint.Target} {c : Ctl} {X : Int} {d : Nat} (F : Frame t c X d) :
    FrameNR t c X d := ⟨F.hashL, F.hashM, F.str, F.ord, F.sle, F.pend⟩

theorem FrameNR.withRid {t : Checkpoint.Target} {c : Ctl} {X : Int} {d : Nat} (F : FrameNR t c X d)
    (h : ∀ db, hasKey (c.mas, Kind.offset) (t.cps db c.key) → hasKey (c.mas, Kind.runid) (t.cps db c.key)) :
    Frame t c X d := ⟨F.hashL, F.hashM, F.str, F.ord, F.sle, h, F.pend⟩

structure Good (t : Checkpoint.Target) (c : Ctl) (X : Int) (d : Nat) : Prop where
  ctl : CtlOK c
  fr : Frame t c X d
  holds : Holds [c.mas, c.sec] t c.key d X
  carr : Carrier c.lab t c.key d X

/-! ### consequences -/

theorem Good.hashEq {t : Checkpoint.Target} {c : Ctl} {X : Int} {d : Nat} (G : Good t c X d) :
    getHash t.hash [c.mas, c.sec] = some (c.key, c.lab) := by
  rcases G.ctl.lab with h | h
  · rw [h]; exact getHash_of_first (h ▸ G.fr.hashL) G.ctl.key0
  · by_cases hm : c.lab = c.mas
    · rw [hm]; exact getHash_of_first (hm ▸ G.fr.hashL) G.ctl.key0
    · rw [h]; exact getHash_of_second (G.fr.hashM hm) (h ▸ G.fr.hashL)

theorem Good.hashEq_swapped {t : Checkpoint.Target} {c : Ctl} {X : Int} {d : Nat} (G : Good t c X d)
    (h : c.lab = c.sec) : getHash t.hash [c.sec, c.mas] = some (c.key, c.lab) := by
  rw [h]; exact getHash_of_first (h ▸ G.fr.hashL) G.ctl.key0

theorem Good.ownAll {t : Checkpoint.Target} {c : Ctl} {X : Int} {d : Nat} (G : Good t c X d) (n : Bytes) :
    RunidOwn t n := fun db e he hk => (G.fr.str.ok db n e he).2 hk

theorem parses_of_ok {t : Checkpoint.Target} {names ids : List Bytes} (h : StrA t names ids)
    (sel : List Bytes) (db : Nat) (n : Bytes) : Parses sel (t.cps db n) :=
  fun e he _ hk => (h.ok db n e he).1 hk

/-- the ids the start passes to `UpdateCheckpoint` -/
theorem Good.startIdsEq {t : Checkpoint.Target} {c : Ctl} {X : Int} {d : Nat} (G : Good t c X d) :
    startIds t.hash [c.mas, c.sec] = if c.lab = c.sec then [c.sec, c.mas] else [c.mas, c.sec] := by
  rw [startIds_eq G.hashEq]
  by_cases h : c.lab = c.sec
  · rw [if_pos ⟨h, fun h' => G.ctl.hne h'.symm⟩, if_pos h]
  · rw [if_neg (fun h' => h h'.1), if_neg h]

/-- `LocOk` for a key name that holds nothing -/
theorem locOk_of_empty {ids : List Bytes} {t : Checkpoint.Target} {loc : Bytes} {d : Nat} {X : Int}
    (h : ∀ db, t.cps db loc = []) : LocOk ids t loc d X :=
  LocOk.of_fresh (fun db e he => by rw [h db] at he; cases he)

/-- the preconditions of `update_prefix_safe` & co. for what the START runs
    (`UpdateCheckpoint(loc, startIds …)`) with a key name that is the current one, the one a cut
    rename wrote to, or a new one -/
theorem Good.updPre_start {t : Checkpoint.Target} {c : Ctl} {X : Int} {d : Nat} (G : Good t c X d)
    (loc : Bytes) (hloc0 : loc ≠ [])
    (hloc : loc = c.key ∨ c.pend = some loc ∨ loc ∉ c.names) (now : Int)
    (hnow : -(2^63 : Int) ≤ now ∧ now < 2^63) :
    (c.lab ≠ c.sec → UpdPre c.mas c.sec loc t c.key c.lab d X now) ∧
    (c.lab = c.sec → UpdPre c.sec c.mas loc t c.key c.lab d X now) := by
  have hfresh : c.key ≠ loc → LocOk [c.mas, c.sec] t loc d X := by
    intro hk
    rcases hloc with h | h | h
    · exact absurd h.symm hk
    · exact (G.fr.pend loc h).ok
    · exact locOk_of_empty (G.fr.str.names loc h).1
  constructor
  · intro _
    exact ⟨G.ctl.hne, G.ctl.m0, G.ctl.mq, G.ctl.sq, hloc0, G.hashEq, G.ctl.key0, G.holds, G.ownAll _,
      hfresh, hnow⟩
  · intro hl
    exact ⟨fun h => G.ctl.hne h.symm, hl ▸ G.ctl.l0, G.ctl.sq, G.ctl.mq, hloc0, G.hashEq_swapped hl,
      G.ctl.key0, G.holds.swap, G.ownAll _, fun hk => (hfresh hk).swap, hnow⟩

/-- … and for `SetRunId(new id)`: `UpdateCheckpoint(key, [mas, lab])` while the position is still
    labelled with the second id -/
theorem Good.updPre_relabel {t : Checkpoint.Target} {c : Ctl} {X : Int} {d : Nat} (G : Good t c X d)
    (now : Int) (hnow : -(2^63 : Int) ≤ now ∧ now < 2^63) :
    UpdPre c.mas c.sec c.key t c.key c.lab d X now :=
  ⟨G.ctl.hne, G.ctl.m0, G.ctl.mq, G.ctl.sq, G.ctl.key0, G.hashEq, G.ctl.key0, G.holds, G.ownAll _,
    fun h => absurd rfl h, hnow⟩

/-- `Inv` of the maintenance proofs, carried by the label -/
theorem Good.toInv {t : Checkpoint.Target} {c : Ctl} {X : Int} {d : Nat} (G : Good t c X d) :
    Inv c.mas c.sec c.lab t c.key c.lab d X := by
  refine ⟨G.hashEq, G.holds, G.carr, ?_⟩
  intro db e he hs
  rw [ridSel_iff] at hs
  rw [G.ownAll _ db e he hs.2]
  rcases (matchId_pair _ _ _).mp hs.1 with h | h <;> rw [h]
  · exact G.ctl.mq
  · exact G.ctl.sq

theorem Good.labq {t : Checkpoint.Target} {c : Ctl} {X : Int} {d : Nat} (G : Good t c X d) :
    c.lab ≠ qmark := by
  rcases G.ctl.lab with h | h <;> rw [h]
  · exact G.ctl.mq
  · exact G.ctl.sq

/-- the label alone: largest offset in `d`, smaller elsewhere (`Solo`, hypothesis of `gc_spares_live_id`) -/
theorem Good.soloLab {t : Checkpoint.Target} {c : Ctl} {X : Int} {d : Nat} (G : Good t c X d) :
    Solo c.lab t c.key d X := by
  have hsub : ∀ x, matchId [c.lab] x = true → matchId [c.mas, c.sec] x = true := by
    intro x hx
    rw [matchId_one] at hx; rw [matchId_pair, hx]
    rcases G.ctl.lab with h | h
    · exact Or.inl h
    · exact Or.inr h
  exact ⟨G.holds.nonneg, fun db => parses_of_ok G.fr.str _ db _, G.carr.1,
    fun db hdb => (G.holds.dom db hdb).sub hsub⟩

/-- the database of the position holds something -/
theorem Good.nonempty {t : Checkpoint.Target} {c : Ctl} {X : Int} {d : Nat} (G : Good t c X d) :
    t.cps d c.key ≠ [] := by
  intro h
  have := G.carr.1
  rw [h] at this
  have h0 : offOf [c.lab] [] = -1 := rfl
  have := G.holds.nonneg
  omega

end GunYu.BookSys
