import GunYu.Proofs.GenS5Listpack

namespace GunYu.Proofs.GenS5
open GunYu GunYu.Gen GunYu.Rdb

/-- what the model returns, read off the Go result: the element and `data[p':]` -/
def lpProj (r : Fn.Listpack × List UInt8) : Bytes × Bytes := (r.2, r.1.data.drop r.1.p.toNat)

/-- the same with the fields `Next` must leave alone -/
def lpProjF (r : Fn.Listpack × List UInt8) : Bytes × Bytes × Bytes × BitVec 32 × Int :=
  (r.2, r.1.data.drop r.1.p.toNat, r.1.data, r.1.numBytes, r.1.numElements)

theorem slice_off (data : Bytes) (p : BitVec 32) (a : Nat) (L : BitVec 32) (hlen : data.length < 2147483648)
    (hp : p.toNat ≤ data.length) (ha : a < 16) :
    GoSem.slice data (GoSem.bvToI (p + BitVec.ofNat 32 a)) (GoSem.bvToI ((p + BitVec.ofNat 32 a) + L)) =
      if a + L.toNat ≤ (data.drop p.toNat).length then some (((data.drop p.toNat).drop a).take L.toNat) else none := by
  unfold GoSem.slice GoSem.bvToI GoSem.len
  have hL := L.isLt
  have e1 : (p + BitVec.ofNat 32 a).toNat = p.toNat + a := by
    rw [BitVec.toNat_add, BitVec.toNat_ofNat]; omega
  have e2 : ((p + BitVec.ofNat 32 a) + L).toNat = (p.toNat + a + L.toNat) % 4294967296 := by
    rw [BitVec.toNat_add, e1]
  rw [e1, e2, List.length_drop]
  by_cases h : a + L.toNat ≤ data.length - p.toNat
  · have hm : (p.toNat + a + L.toNat) % 4294967296 = p.toNat + a + L.toNat := by omega
    rw [hm, if_pos h, if_pos (by omega)]
    rw [List.drop_drop]
    have e3 : (((p.toNat + a + L.toNat : Nat) : Int) - ((p.toNat + a : Nat) : Int)).toNat = L.toNat := by omega
    have e4 : ((p.toNat + a : Nat) : Int).toNat = p.toNat + a := by omega
    rw [e3, e4]
  · rw [if_neg h]
    have : ¬ ((0 : Int) ≤ ((p.toNat + a : Nat) : Int) ∧ ((p.toNat + a : Nat) : Int) ≤ (((p.toNat + a + L.toNat) % 4294967296 : Nat) : Int) ∧
        (((p.toNat + a + L.toNat) % 4294967296 : Nat) : Int) ≤ (data.length : Int)) := by omega
    rw [if_neg this]

theorem sign_conv (ns nm : Nat) (hrel : nm + 1 = 2 * ns) (hnm : nm < 18446744073709551616)
    (uval negstart negmax : BitVec 64) (hns : negstart.toNat = ns) (hnmx : negmax.toNat = nm) (hu : uval.toNat ≤ nm) :
    (if uval ≥ negstart then GoSem.subI (GoSem.negI (GoSem.bv64ToI (negmax - uval))) 1 else GoSem.bv64ToI uval) =
      if uval.toNat < ns then (uval.toNat : Int) else (uval.toNat : Int) - ((nm + 1 : Nat) : Int) := by
  by_cases h : uval ≥ negstart
  · have h' : ns ≤ uval.toNat := by rw [← hns]; exact BitVec.le_def.mp h
    have e : (negmax - uval).toNat = nm - uval.toNat := by
      rw [BitVec.toNat_sub, hnmx]; omega
    rw [if_pos h, if_neg (by omega), GoSem.bv64ToI_of_lt _ (by rw [e]; omega), e]
    unfold GoSem.subI GoSem.negI
    have e3 : GoSem.wrap64 (-((nm - uval.toNat : Nat) : Int)) = -((nm - uval.toNat : Nat) : Int) :=
      GoSem.wrap64_eq (by omega) (by omega)
    rw [e3, GoSem.wrap64_eq (by omega) (by omega)]
    omega
  · have h' : uval.toNat < ns := by
      rw [← hns]; exact Nat.lt_of_not_le (fun hh => h (BitVec.le_def.mpr hh))
    rw [if_neg h, if_pos h', GoSem.bv64ToI_of_lt _ (by omega)]


theorem bv64_add_toNat (x y : BitVec 64) (n m : Nat) (hx : x.toNat = n) (hy : y.toNat = m)
    (h : n + m < 18446744073709551616) : (x + y).toNat = n + m := by
  rw [BitVec.toNat_add, hx, hy]; omega

theorem bv64_byte_shl (b : UInt8) (k : Nat) (hk : k ≤ 56) :
    (BitVec.setWidth 64 b.toBitVec <<< k).toNat = b.toNat * 2 ^ k := by
  have hb := b.toNat_lt
  rw [BitVec.toNat_shiftLeft, BitVec.toNat_setWidth, UInt8.toNat_toBitVec, Nat.shiftLeft_eq]
  have h1 : b.toNat % 2 ^ 64 = b.toNat := Nat.mod_eq_of_lt (by omega)
  rw [h1]
  apply Nat.mod_eq_of_lt
  calc b.toNat * 2 ^ k < 2 ^ 8 * 2 ^ k := Nat.mul_lt_mul_of_pos_right hb (Nat.two_pow_pos k)
    _ = 2 ^ (8 + k) := by rw [Nat.pow_add]
    _ ≤ 2 ^ 64 := Nat.pow_le_pow_right (by decide) (by omega)

theorem drop_cursor (data : Bytes) (p : BitVec 32) (s : Nat) (hlen : data.length < 2147483648)
    (hp : p.toNat ≤ data.length) (hs : p.toNat + s < 4294967296) (rem : Bytes) (hrem : data.drop p.toNat = rem) :
    data.drop (p + BitVec.ofNat 32 s).toNat = rem.drop s := by
  have : (p + BitVec.ofNat 32 s).toNat = p.toNat + s := by
    rw [BitVec.toNat_add, BitVec.toNat_ofNat]; omega
  rw [this, ← hrem, List.drop_drop]

theorem formatInt_nat (n : Nat) : GoSem.formatInt (n : Int) = natToDec n := by
  unfold GoSem.formatInt intToDec
  have : ¬ ((n : Int) < 0) := by omega
  simp [this]

/-- the common tail of the integer encodings: two's complement by hand, then FormatInt -/
theorem int_tail (lp' : Fn.Listpack) (ns nm : Nat) (hrel : nm + 1 = 2 * ns) (hnm : nm < 18446744073709551616)
    (uval negstart negmax : BitVec 64) (hns : negstart.toNat = ns) (hnmx : negmax.toNat = nm) (hu : uval.toNat ≤ nm) :
    (if uval ≥ negstart then
        (pure (GoSem.subI (GoSem.negI (GoSem.bv64ToI (negmax - uval))) 1, negmax - uval) : Option (Int × BitVec 64)).bind
          fun x => pure (lp', GoSem.formatInt x.fst)
      else
        (pure (GoSem.bv64ToI uval, uval) : Option (Int × BitVec 64)).bind fun x => pure (lp', GoSem.formatInt x.fst)) =
      some (lp', intToDec (if uval.toNat < ns then (uval.toNat : Int) else (uval.toNat : Int) - ((nm + 1 : Nat) : Int))) := by
  have h := sign_conv ns nm hrel hnm uval negstart negmax hns hnmx hu
  by_cases hc : uval ≥ negstart
  · rw [if_pos hc] at h
    rw [if_pos hc]
    simp only [pure, Option.bind_some, h, GoSem.formatInt]
  · rw [if_neg hc] at h
    rw [if_neg hc]
    simp only [pure, Option.bind_some, h, GoSem.formatInt]

set_option maxHeartbeats 400000 in
theorem gen_lpNext_eq_model_frame (lp : Fn.Listpack) (hlen : lp.data.length < 2147483648) (hp : lp.p.toNat ≤ lp.data.length) :
    (Fn.lpNext lp).map lpProjF =
      (Rdb.lpNext (lp.data.drop lp.p.toNat)).map (fun er => (er.1, er.2, lp.data, lp.numBytes, lp.numElements)) := by
  obtain ⟨data, p, nb, ne⟩ := lp
  simp only at hlen hp ⊢
  have i1 := idx_off data p 1 hlen hp (by decide)
  have i2 := idx_off data p 2 hlen hp (by decide)
  have i3 := idx_off data p 3 hlen hp (by decide)
  have i4 := idx_off data p 4 hlen hp (by decide)
  have i5 := idx_off data p 5 hlen hp (by decide)
  have i6 := idx_off data p 6 hlen hp (by decide)
  have i7 := idx_off data p 7 hlen hp (by decide)
  have i8 := idx_off data p 8 hlen hp (by decide)
  have s1 := fun L => slice_off data p 1 L hlen hp (by decide)
  have s2 := fun L => slice_off data p 2 L hlen hp (by decide)
  have s5 := fun L => slice_off data p 5 L hlen hp (by decide)
  have e5 : (p + 1#32) + 4#32 = p + 5#32 := by bv_omega
  unfold Fn.lpNext
  simp only [idx_0, i1, i2, i3, i4, i5, i6, i7, i8, e5, s1, s2, s5, gen_lpEncodeBacklen_eq]
  generalize hrem : data.drop p.toNat = rem
  cases rem with
  | nil => simp [Rdb.lpNext]
  | cons b r =>
    obtain ⟨m1, m2, m3, m4, m5, m6, m7, m8, m9, v127, v63, v31, v15⟩ := lp_masks b
    simp only [List.getElem?_cons_zero, Option.bind_some, bind, m1, m2, m3, m4, m5, m6, m7, m8, m9]
    unfold Rdb.lpNext
    simp only []
    clear i1 i2 i3 i4 i5 i6 i7 i8 s1 s2 s5 e5 m1 m2 m3 m4 m5 m6 m7 m8 m9
    have hc := b.toNat_lt
    by_cases c1 : b.toNat / 128 = 0
    · -- 7 bit unsigned
      simp only [c1, ↓reduceIte]
      have hu : (BitVec.setWidth 64 (b &&& 127).toBitVec).toNat = b.toNat % 128 := by
        rw [BitVec.toNat_setWidth, UInt8.toNat_toBitVec, v127]; omega
      have hge : ¬ (BitVec.setWidth 64 (b &&& 127).toBitVec ≥ 18446744073709551615#64) := by
        intro h; have := BitVec.le_def.mp h; rw [hu] at this; simp at this; omega
      rw [if_neg hge]
      simp only [pure, Option.bind_some, Option.map_some, lpProjF]
      rw [GoSem.bv64ToI_of_lt _ (by rw [hu]; omega), hu, formatInt_nat]
      rw [drop_cursor data p _ hlen hp (by simp [lpSkip]; omega) _ hrem]
      rfl
    · simp only [c1, ↓reduceIte]
      by_cases c2 : b.toNat / 64 = 2
      · -- 6 bit string
        simp only [c2, ↓reduceIte]
        have hl : (BitVec.setWidth 32 (b &&& 63).toBitVec).toNat = b.toNat % 64 := by
          rw [BitVec.toNat_setWidth, UInt8.toNat_toBitVec, v63]; omega
        have hl1 : (BitVec.setWidth 32 (b &&& 63).toBitVec + 1#32).toNat = 1 + b.toNat % 64 := by
          rw [BitVec.toNat_add, hl]; simp; omega
        rw [hl, hl1]
        simp only [List.drop_succ_cons, List.drop_zero, List.length_cons, readN]
        by_cases hr : b.toNat % 64 ≤ r.length
        · have h1 : 1 + b.toNat % 64 ≤ r.length + 1 := by omega
          have h2 : (List.take (b.toNat % 64) r).length = b.toNat % 64 := by rw [List.length_take]; omega
          simp only [h1, h2, ↓reduceIte, pure, Option.bind_some, Option.map_some, lpProjF]
          rw [drop_cursor data p _ hlen hp (by have := lpSkip_le (1 + b.toNat % 64); omega) _ hrem]
        · have h1 : ¬ (1 + b.toNat % 64 ≤ r.length + 1) := by omega
          have h2 : ¬ ((List.take (b.toNat % 64) r).length = b.toNat % 64) := by rw [List.length_take]; omega
          simp only [h1, h2, ↓reduceIte, Option.bind_none, Option.map_none]
      · simp only [c2, ↓reduceIte]
        by_cases c3 : b.toNat / 32 = 6
        · -- 13 bit signed
          simp only [c3, ↓reduceIte]
          cases r with
          | nil => simp
          | cons b1 r1 =>
            have hb1 := b1.toNat_lt
            simp only [List.getElem?_cons_succ, List.getElem?_cons_zero, Option.bind_some]
            have hu : (BitVec.setWidth 64 (b &&& 31).toBitVec <<< 8 + BitVec.setWidth 64 b1.toBitVec).toNat =
                (b.toNat % 32) * 256 + b1.toNat := by
              simp only [BitVec.toNat_add, BitVec.toNat_shiftLeft, BitVec.toNat_setWidth, UInt8.toNat_toBitVec, v31,
                Nat.shiftLeft_eq]
              omega
            rw [int_tail _ 4096 8191 (by decide) (by decide) _ _ _ rfl rfl (by rw [hu]; omega)]
            simp only [Option.map_some, lpProjF, hu]
            rw [drop_cursor data p _ hlen hp (by simp [lpSkip]; omega) _ hrem]
            simp [lpInt, toSigned]
        · simp only [c3, ↓reduceIte]
          by_cases c4 : b.toNat / 16 = 14
          · -- 12 bit string
            simp only [c4, ↓reduceIte]
            cases r with
            | nil => simp
            | cons b1 r1 =>
              have hb1 := b1.toNat_lt
              simp only [List.getElem?_cons_succ, List.getElem?_cons_zero, Option.bind_some]
              have hl : (BitVec.setWidth 32 (b &&& 15).toBitVec <<< 8 + BitVec.setWidth 32 b1.toBitVec).toNat =
                  (b.toNat % 16) * 256 + b1.toNat := by
                simp only [BitVec.toNat_add, BitVec.toNat_shiftLeft, BitVec.toNat_setWidth, UInt8.toNat_toBitVec, v15,
                  Nat.shiftLeft_eq]
                omega
              have hl2 : (BitVec.setWidth 32 (b &&& 15).toBitVec <<< 8 + BitVec.setWidth 32 b1.toBitVec + 2#32).toNat =
                  2 + ((b.toNat % 16) * 256 + b1.toNat) := by
                rw [BitVec.toNat_add, hl]; simp; omega
              rw [hl, hl2]
              simp only [List.drop_succ_cons, List.drop_zero, List.length_cons, readN]
              have hrl : r1.length + 2 + p.toNat = data.length := by
                have := congrArg List.length hrem
                simp only [List.length_drop, List.length_cons] at this
                omega
              generalize b.toNat % 16 * 256 + b1.toNat = len
              by_cases hr : len ≤ r1.length
              · have h1 : 2 + len ≤ r1.length + 1 + 1 := by omega
                have h2 : (List.take len r1).length = len := by rw [List.length_take]; omega
                simp only [h1, h2, ↓reduceIte, pure, Option.bind_some, Option.map_some, lpProjF]
                rw [drop_cursor data p _ hlen hp (by have := lpSkip_le (2 + len); omega) _ hrem]
              · have h1 : ¬ (2 + len ≤ r1.length + 1 + 1) := by omega
                have h2 : ¬ ((List.take len r1).length = len) := by rw [List.length_take]; omega
                simp only [h1, h2, ↓reduceIte, Option.bind_none, Option.map_none]
          · simp only [c4, ↓reduceIte]
            by_cases c5 : b.toNat = 240
            · -- 32 bit string
              simp only [c5, ↓reduceIte]
              rcases r with _ | ⟨b1, _ | ⟨b2, _ | ⟨b3, _ | ⟨b4, r4⟩⟩⟩⟩
              all_goals try (simp [readN]; done)
              have hb1 := b1.toNat_lt; have hb2 := b2.toNat_lt; have hb3 := b3.toNat_lt; have hb4 := b4.toNat_lt
              simp only [List.getElem?_cons_succ, List.getElem?_cons_zero, Option.bind_some]
              have hl : (BitVec.setWidth 32 b1.toBitVec <<< 0 + BitVec.setWidth 32 b2.toBitVec <<< 8 +
                  BitVec.setWidth 32 b3.toBitVec <<< 16 + BitVec.setWidth 32 b4.toBitVec <<< 24).toNat =
                  ofLE [b1, b2, b3, b4] := by
                simp only [BitVec.toNat_add, BitVec.toNat_shiftLeft, BitVec.toNat_setWidth, UInt8.toNat_toBitVec,
                  Nat.shiftLeft_eq, ofLE]
                omega
              have hrl : r4.length + 5 + p.toNat = data.length := by
                have := congrArg List.length hrem
                simp only [List.length_drop, List.length_cons] at this
                omega
              rw [hl]
              simp only [List.drop_succ_cons, List.drop_zero, List.length_cons, readN, List.take_succ_cons, List.take_zero,
                List.length_nil, Nat.zero_add, ↓reduceIte]
              generalize hlen' : ofLE [b1, b2, b3, b4] = len at hl ⊢
              by_cases hr : len ≤ r4.length
              · have h1 : 5 + len ≤ r4.length + 1 + 1 + 1 + 1 + 1 := by omega
                have h2 : (List.take len r4).length = len := by rw [List.length_take]; omega
                have hl5 : (BitVec.setWidth 32 b1.toBitVec <<< 0 + BitVec.setWidth 32 b2.toBitVec <<< 8 +
                    BitVec.setWidth 32 b3.toBitVec <<< 16 + BitVec.setWidth 32 b4.toBitVec <<< 24 + 5#32).toNat = 5 + len := by
                  rw [BitVec.toNat_add, hl]; simp; omega
                simp only [h1, h2, hl5, ↓reduceIte, pure, Option.bind_some, Option.map_some, lpProjF]
                rw [drop_cursor data p _ hlen hp (by have := lpSkip_le (5 + len); omega) _ hrem]
              · have h1 : ¬ (5 + len ≤ r4.length + 1 + 1 + 1 + 1 + 1) := by omega
                have h2 : ¬ ((List.take len r4).length = len) := by rw [List.length_take]; omega
                simp only [h1, h2, ↓reduceIte, Option.bind_none, Option.map_none]
            · simp only [c5, ↓reduceIte]
              by_cases c6 : b.toNat = 241
              · -- 16 bit signed
                simp only [c6, ↓reduceIte]
                rcases r with _ | ⟨b1, _ | ⟨b2, r2⟩⟩
                all_goals try (simp [readN]; done)
                simp only [List.getElem?_cons_succ, List.getElem?_cons_zero, Option.bind_some]
                clear c1 c2 c3 c4 v127 v63 v31 v15 hc
                have hb1 := b1.toNat_lt
                have t1 : (BitVec.setWidth 64 b1.toBitVec <<< 0).toNat = b1.toNat * 1 := by rw [bv64_byte_shl _ _ (by decide)]
                have hb2 := b2.toNat_lt
                have t2 : (BitVec.setWidth 64 b2.toBitVec <<< 8).toNat = b2.toNat * 256 := by rw [bv64_byte_shl _ _ (by decide)]
                have a2 : (BitVec.setWidth 64 b1.toBitVec <<< 0 + BitVec.setWidth 64 b2.toBitVec <<< 8).toNat = b1.toNat * 1 + b2.toNat * 256 :=
                  bv64_add_toNat _ _ _ _ t1 t2 (by omega)
                have hu : (BitVec.setWidth 64 b1.toBitVec <<< 0 + BitVec.setWidth 64 b2.toBitVec <<< 8).toNat = ofLE [b1, b2] := by
                  rw [a2]; simp only [ofLE]; omega
                rw [int_tail _ 32768 65535 (by decide) (by decide) _ _ _ rfl rfl (by rw [a2]; omega)]
                simp only [Option.map_some, lpProjF, hu]
                have hk : lpSkip (3#32).toNat = 4 := by decide
                rw [hk, drop_cursor data p _ hlen hp (by omega) _ hrem]
                simp [lpInt, toSigned, readN, lpSkip]
              · simp only [c6, ↓reduceIte]
                by_cases c7 : b.toNat = 242
                · -- 24 bit signed
                  simp only [c7, ↓reduceIte]
                  rcases r with _ | ⟨b1, _ | ⟨b2, _ | ⟨b3, r3⟩⟩⟩
                  all_goals try (simp [readN]; done)
                  simp only [List.getElem?_cons_succ, List.getElem?_cons_zero, Option.bind_some]
                  clear c1 c2 c3 c4 v127 v63 v31 v15 hc
                  have hb1 := b1.toNat_lt
                  have t1 : (BitVec.setWidth 64 b1.toBitVec <<< 0).toNat = b1.toNat * 1 := by rw [bv64_byte_shl _ _ (by decide)]
                  have hb2 := b2.toNat_lt
                  have t2 : (BitVec.setWidth 64 b2.toBitVec <<< 8).toNat = b2.toNat * 256 := by rw [bv64_byte_shl _ _ (by decide)]
                  have hb3 := b3.toNat_lt
                  have t3 : (BitVec.setWidth 64 b3.toBitVec <<< 16).toNat = b3.toNat * 65536 := by rw [bv64_byte_shl _ _ (by decide)]
                  have a2 : (BitVec.setWidth 64 b1.toBitVec <<< 0 + BitVec.setWidth 64 b2.toBitVec <<< 8).toNat = b1.toNat * 1 + b2.toNat * 256 :=
                    bv64_add_toNat _ _ _ _ t1 t2 (by omega)
                  have a3 : (BitVec.setWidth 64 b1.toBitVec <<< 0 + BitVec.setWidth 64 b2.toBitVec <<< 8 + BitVec.setWidth 64 b3.toBitVec <<< 16).toNat = b1.toNat * 1 + b2.toNat * 256 + b3.toNat * 65536 :=
                    bv64_add_toNat _ _ _ _ a2 t3 (by omega)
                  have hu : (BitVec.setWidth 64 b1.toBitVec <<< 0 + BitVec.setWidth 64 b2.toBitVec <<< 8 + BitVec.setWidth 64 b3.toBitVec <<< 16).toNat = ofLE [b1, b2, b3] := by
                    rw [a3]; simp only [ofLE]; omega
                  rw [int_tail _ 8388608 16777215 (by decide) (by decide) _ _ _ rfl rfl (by rw [a3]; omega)]
                  simp only [Option.map_some, lpProjF, hu]
                  have hk : lpSkip (4#32).toNat = 5 := by decide
                  rw [hk, drop_cursor data p _ hlen hp (by omega) _ hrem]
                  simp [lpInt, toSigned, readN, lpSkip]
                · simp only [c7, ↓reduceIte]
                  by_cases c8 : b.toNat = 243
                  · -- 32 bit signed
                    simp only [c8, ↓reduceIte]
                    rcases r with _ | ⟨b1, _ | ⟨b2, _ | ⟨b3, _ | ⟨b4, r4⟩⟩⟩⟩
                    all_goals try (simp [readN]; done)
                    simp only [List.getElem?_cons_succ, List.getElem?_cons_zero, Option.bind_some]
                    clear c1 c2 c3 c4 v127 v63 v31 v15 hc
                    have hb1 := b1.toNat_lt
                    have t1 : (BitVec.setWidth 64 b1.toBitVec <<< 0).toNat = b1.toNat * 1 := by rw [bv64_byte_shl _ _ (by decide)]
                    have hb2 := b2.toNat_lt
                    have t2 : (BitVec.setWidth 64 b2.toBitVec <<< 8).toNat = b2.toNat * 256 := by rw [bv64_byte_shl _ _ (by decide)]
                    have hb3 := b3.toNat_lt
                    have t3 : (BitVec.setWidth 64 b3.toBitVec <<< 16).toNat = b3.toNat * 65536 := by rw [bv64_byte_shl _ _ (by decide)]
                    have hb4 := b4.toNat_lt
                    have t4 : (BitVec.setWidth 64 b4.toBitVec <<< 24).toNat = b4.toNat * 16777216 := by rw [bv64_byte_shl _ _ (by decide)]
                    have a2 : (BitVec.setWidth 64 b1.toBitVec <<< 0 + BitVec.setWidth 64 b2.toBitVec <<< 8).toNat = b1.toNat * 1 + b2.toNat * 256 :=
                      bv64_add_toNat _ _ _ _ t1 t2 (by omega)
                    have a3 : (BitVec.setWidth 64 b1.toBitVec <<< 0 + BitVec.setWidth 64 b2.toBitVec <<< 8 + BitVec.setWidth 64 b3.toBitVec <<< 16).toNat = b1.toNat * 1 + b2.toNat * 256 + b3.toNat * 65536 :=
                      bv64_add_toNat _ _ _ _ a2 t3 (by omega)
                    have a4 : (BitVec.setWidth 64 b1.toBitVec <<< 0 + BitVec.setWidth 64 b2.toBitVec <<< 8 + BitVec.setWidth 64 b3.toBitVec <<< 16 + BitVec.setWidth 64 b4.toBitVec <<< 24).toNat = b1.toNat * 1 + b2.toNat * 256 + b3.toNat * 65536 + b4.toNat * 16777216 :=
                      bv64_add_toNat _ _ _ _ a3 t4 (by omega)
                    have hu : (BitVec.setWidth 64 b1.toBitVec <<< 0 + BitVec.setWidth 64 b2.toBitVec <<< 8 + BitVec.setWidth 64 b3.toBitVec <<< 16 + BitVec.setWidth 64 b4.toBitVec <<< 24).toNat = ofLE [b1, b2, b3, b4] := by
                      rw [a4]; simp only [ofLE]; omega
                    rw [int_tail _ 2147483648 4294967295 (by decide) (by decide) _ _ _ rfl rfl (by rw [a4]; omega)]
                    simp only [Option.map_some, lpProjF, hu]
                    have hk : lpSkip (5#32).toNat = 6 := by decide
                    rw [hk, drop_cursor data p _ hlen hp (by omega) _ hrem]
                    simp [lpInt, toSigned, readN, lpSkip]
                  · simp only [c8, ↓reduceIte]
                    by_cases c9 : b.toNat = 244
                    · -- 64 bit signed
                      simp only [c9, ↓reduceIte]
                      rcases r with _ | ⟨b1, _ | ⟨b2, _ | ⟨b3, _ | ⟨b4, _ | ⟨b5, _ | ⟨b6, _ | ⟨b7, _ | ⟨b8, r8⟩⟩⟩⟩⟩⟩⟩⟩
                      all_goals try (simp [readN]; done)
                      simp only [List.getElem?_cons_succ, List.getElem?_cons_zero, Option.bind_some]
                      clear c1 c2 c3 c4 v127 v63 v31 v15 hc
                      have hb1 := b1.toNat_lt
                      have t1 : (BitVec.setWidth 64 b1.toBitVec <<< 0).toNat = b1.toNat * 1 := by rw [bv64_byte_shl _ _ (by decide)]
                      have hb2 := b2.toNat_lt
                      have t2 : (BitVec.setWidth 64 b2.toBitVec <<< 8).toNat = b2.toNat * 256 := by rw [bv64_byte_shl _ _ (by decide)]
                      have hb3 := b3.toNat_lt
                      have t3 : (BitVec.setWidth 64 b3.toBitVec <<< 16).toNat = b3.toNat * 65536 := by rw [bv64_byte_shl _ _ (by decide)]
                      have hb4 := b4.toNat_lt
                      have t4 : (BitVec.setWidth 64 b4.toBitVec <<< 24).toNat = b4.toNat * 16777216 := by rw [bv64_byte_shl _ _ (by decide)]
                      have hb5 := b5.toNat_lt
                      have t5 : (BitVec.setWidth 64 b5.toBitVec <<< 32).toNat = b5.toNat * 4294967296 := by rw [bv64_byte_shl _ _ (by decide)]
                      have hb6 := b6.toNat_lt
                      have t6 : (BitVec.setWidth 64 b6.toBitVec <<< 40).toNat = b6.toNat * 1099511627776 := by rw [bv64_byte_shl _ _ (by decide)]
                      have hb7 := b7.toNat_lt
                      have t7 : (BitVec.setWidth 64 b7.toBitVec <<< 48).toNat = b7.toNat * 281474976710656 := by rw [bv64_byte_shl _ _ (by decide)]
                      have hb8 := b8.toNat_lt
                      have t8 : (BitVec.setWidth 64 b8.toBitVec <<< 56).toNat = b8.toNat * 72057594037927936 := by rw [bv64_byte_shl _ _ (by decide)]
                      have a2 : (BitVec.setWidth 64 b1.toBitVec <<< 0 + BitVec.setWidth 64 b2.toBitVec <<< 8).toNat = b1.toNat * 1 + b2.toNat * 256 :=
                        bv64_add_toNat _ _ _ _ t1 t2 (by omega)
                      have a3 : (BitVec.setWidth 64 b1.toBitVec <<< 0 + BitVec.setWidth 64 b2.toBitVec <<< 8 + BitVec.setWidth 64 b3.toBitVec <<< 16).toNat = b1.toNat * 1 + b2.toNat * 256 + b3.toNat * 65536 :=
                        bv64_add_toNat _ _ _ _ a2 t3 (by omega)
                      have a4 : (BitVec.setWidth 64 b1.toBitVec <<< 0 + BitVec.setWidth 64 b2.toBitVec <<< 8 + BitVec.setWidth 64 b3.toBitVec <<< 16 + BitVec.setWidth 64 b4.toBitVec <<< 24).toNat = b1.toNat * 1 + b2.toNat * 256 + b3.toNat * 65536 + b4.toNat * 16777216 :=
                        bv64_add_toNat _ _ _ _ a3 t4 (by omega)
                      have a5 : (BitVec.setWidth 64 b1.toBitVec <<< 0 + BitVec.setWidth 64 b2.toBitVec <<< 8 + BitVec.setWidth 64 b3.toBitVec <<< 16 + BitVec.setWidth 64 b4.toBitVec <<< 24 + BitVec.setWidth 64 b5.toBitVec <<< 32).toNat = b1.toNat * 1 + b2.toNat * 256 + b3.toNat * 65536 + b4.toNat * 16777216 + b5.toNat * 4294967296 :=
                        bv64_add_toNat _ _ _ _ a4 t5 (by omega)
                      have a6 : (BitVec.setWidth 64 b1.toBitVec <<< 0 + BitVec.setWidth 64 b2.toBitVec <<< 8 + BitVec.setWidth 64 b3.toBitVec <<< 16 + BitVec.setWidth 64 b4.toBitVec <<< 24 + BitVec.setWidth 64 b5.toBitVec <<< 32 + BitVec.setWidth 64 b6.toBitVec <<< 40).toNat = b1.toNat * 1 + b2.toNat * 256 + b3.toNat * 65536 + b4.toNat * 16777216 + b5.toNat * 4294967296 + b6.toNat * 1099511627776 :=
                        bv64_add_toNat _ _ _ _ a5 t6 (by omega)
                      have a7 : (BitVec.setWidth 64 b1.toBitVec <<< 0 + BitVec.setWidth 64 b2.toBitVec <<< 8 + BitVec.setWidth 64 b3.toBitVec <<< 16 + BitVec.setWidth 64 b4.toBitVec <<< 24 + BitVec.setWidth 64 b5.toBitVec <<< 32 + BitVec.setWidth 64 b6.toBitVec <<< 40 + BitVec.setWidth 64 b7.toBitVec <<< 48).toNat = b1.toNat * 1 + b2.toNat * 256 + b3.toNat * 65536 + b4.toNat * 16777216 + b5.toNat * 4294967296 + b6.toNat * 1099511627776 + b7.toNat * 281474976710656 :=
                        bv64_add_toNat _ _ _ _ a6 t7 (by omega)
                      have a8 : (BitVec.setWidth 64 b1.toBitVec <<< 0 + BitVec.setWidth 64 b2.toBitVec <<< 8 + BitVec.setWidth 64 b3.toBitVec <<< 16 + BitVec.setWidth 64 b4.toBitVec <<< 24 + BitVec.setWidth 64 b5.toBitVec <<< 32 + BitVec.setWidth 64 b6.toBitVec <<< 40 + BitVec.setWidth 64 b7.toBitVec <<< 48 + BitVec.setWidth 64 b8.toBitVec <<< 56).toNat = b1.toNat * 1 + b2.toNat * 256 + b3.toNat * 65536 + b4.toNat * 16777216 + b5.toNat * 4294967296 + b6.toNat * 1099511627776 + b7.toNat * 281474976710656 + b8.toNat * 72057594037927936 :=
                        bv64_add_toNat _ _ _ _ a7 t8 (by omega)
                      have hu : (BitVec.setWidth 64 b1.toBitVec <<< 0 + BitVec.setWidth 64 b2.toBitVec <<< 8 + BitVec.setWidth 64 b3.toBitVec <<< 16 + BitVec.setWidth 64 b4.toBitVec <<< 24 + BitVec.setWidth 64 b5.toBitVec <<< 32 + BitVec.setWidth 64 b6.toBitVec <<< 40 + BitVec.setWidth 64 b7.toBitVec <<< 48 + BitVec.setWidth 64 b8.toBitVec <<< 56).toNat = ofLE [b1, b2, b3, b4, b5, b6, b7, b8] := by
                        rw [a8]; simp only [ofLE]; omega
                      rw [int_tail _ 9223372036854775808 18446744073709551615 (by decide) (by decide) _ _ _ rfl rfl (by rw [a8]; omega)]
                      simp only [Option.map_some, lpProjF, hu]
                      have hk : lpSkip (9#32).toNat = 10 := by decide
                      rw [hk, drop_cursor data p _ hlen hp (by omega) _ hrem]
                      simp [lpInt, toSigned, readN, lpSkip]
                    · -- 0xF5..0xFF: panic in Go, none in the model
                      simp only [c9, ↓reduceIte, Option.map_none]

theorem gen_lpNext_eq_model (lp : Fn.Listpack) (hlen : lp.data.length < 2147483648) (hp : lp.p.toNat ≤ lp.data.length) :
    (Fn.lpNext lp).map lpProj = Rdb.lpNext (lp.data.drop lp.p.toNat) := by
  have h := gen_lpNext_eq_model_frame lp hlen hp
  cases hr : Fn.lpNext lp with
  | none =>
    rw [hr] at h
    cases hm : Rdb.lpNext (lp.data.drop lp.p.toNat) with
    | none => rfl
    | some x => rw [hm] at h; simp at h
  | some r =>
    rw [hr] at h
    cases hm : Rdb.lpNext (lp.data.drop lp.p.toNat) with
    | none => rw [hm] at h; simp at h
    | some x =>
      rw [hm] at h
      simp only [Option.map_some, Option.some.injEq, lpProjF, Prod.mk.injEq] at h
      obtain ⟨h1, h2, _⟩ := h
      simp only [Option.map_some, lpProj, h1, h2]

/-- `Listpack.Next` changes nothing of the listpack but the cursor -/
theorem gen_lpNext_frame (lp lp' : Fn.Listpack) (e : Bytes) (hlen : lp.data.length < 2147483648)
    (hp : lp.p.toNat ≤ lp.data.length) (h : Fn.lpNext lp = some (lp', e)) :
    lp'.data = lp.data ∧ lp'.numBytes = lp.numBytes ∧ lp'.numElements = lp.numElements := by
  have hm := gen_lpNext_eq_model_frame lp hlen hp
  rw [h] at hm
  cases hx : Rdb.lpNext (lp.data.drop lp.p.toNat) with
  | none => rw [hx] at hm; simp at hm
  | some x =>
    rw [hx] at hm
    simp only [Option.map_some, Option.some.injEq, lpProjF, Prod.mk.injEq] at hm
    exact ⟨hm.2.2.1, hm.2.2.2.1, hm.2.2.2.2⟩

/-- the model's `Next` always consumes at least one byte -/
theorem model_lpNext_shorter (rem e rem' : Bytes) (h : Rdb.lpNext rem = some (e, rem')) : rem'.length < rem.length := by
  unfold Rdb.lpNext at h
  cases rem with
  | nil => simp at h
  | cons b r =>
    have key : ∀ n, ((b :: r).drop (lpSkip n)).length < (b :: r).length := by
      intro n
      have := lpSkip_pos n
      simp only [List.length_drop, List.length_cons]
      omega
    simp only [] at h
    repeat' split at h
    all_goals first
      | (simp only [Option.some.injEq, Prod.mk.injEq] at h; rw [← h.2]; exact key _)
      | (exact absurd h (by simp))

/-- D23's property on the REGENERATED code: a call of `Listpack.Next` that returns leaves strictly
    fewer bytes behind the cursor - a caller iterating until the end marker terminates -/
theorem gen_lpNext_progress (lp lp' : Fn.Listpack) (e : Bytes) (hlen : lp.data.length < 2147483648)
    (hp : lp.p.toNat ≤ lp.data.length) (h : Fn.lpNext lp = some (lp', e)) :
    (lp'.data.drop lp'.p.toNat).length < (lp.data.drop lp.p.toNat).length := by
  have hm := gen_lpNext_eq_model lp hlen hp
  rw [h] at hm
  simp only [Option.map_some, lpProj] at hm
  exact model_lpNext_shorter _ _ _ hm.symm

end GunYu.Proofs.GenS5
