/-
  C08: the writers' own scripts keep the directory truthful (discharges the
  hypothesis of `crash_images_truthful` for `scriptOps`).
-/
import GunYu.Proofs.StoreFs

namespace GunYu.StoreFs
open GunYu GunYu.Store

/-- the source's bytes, as far as the history records them -/
def HistTrue (src : Nat → UInt8) (s : Disk) : Prop :=
  ∀ i b, s.hist[i]? = some b → b = src (s.hbase + i)

/-- the bytes one call appends are the source's bytes at the offsets they are appended at -/
def ChunkOk (src : Nat → UInt8) (s : Disk) : DOp → Prop
  | .aofAppend chunk => ∀ i b, chunk[i]? = some b → b = src (s.hbase + s.hist.length + i)
  | _ => True

/-- … for every call of a script -/
def SrcOk (src : Nat → UInt8) (s : Disk) : List DOp → Prop
  | [] => True
  | op :: rest => ChunkOk src s op ∧ SrcOk src (s.step op).1 rest

/-- the file of an indexed segment: a 16-byte header, then exactly the segment's data -/
def FileOf (fs : FS) (g : DSeg) : Prop :=
  ∃ hdr : Bytes, hdr.length = headerSize ∧ fs.get (aofName g.left) = some (hdr ++ g.data)

def FilesOk (s : Disk) (fs : FS) : Prop := ∀ g ∈ s.all, FileOf fs g

theorem seg_true {src : Nat → UInt8} {s : Disk} (h : DInv s) (ht : HistTrue src s) {g : DSeg} (hg : g ∈ s.all) :
    ∀ i b, g.data[i]? = some b → b = src (g.left + i) := by
  intro i b hb
  obtain ⟨e1, e2, e3⟩ := h.embed g hg
  rw [e3] at hb
  have hi : i < g.data.length := by
    have := (List.getElem?_eq_some_iff.mp hb).1
    simp at this; omega
  rw [List.getElem?_take_of_lt hi, List.getElem?_drop] at hb
  have := ht _ b hb
  rw [this]; congr 1; omega

theorem contentTrue_file {src : Nat → UInt8} {l : Nat} {hdr d : Bytes} (hh : hdr.length = headerSize)
    (hd : ∀ i b, d[i]? = some b → b = src (l + i)) : ContentTrue src (aofName l) (hdr ++ d) := by
  intro l' hp i b hb
  simp [parseAofName, aofName] at hp; subst hp
  rw [List.drop_append_of_le_length (by omega), List.drop_of_length_le (by omega)] at hb
  exact hd i b (by simpa using hb)

theorem contentTrue_not_aof {src : Nat → UInt8} {n : FName} (c : Bytes) (h : parseAofName n = none) :
    ContentTrue src n c := by
  intro l hp; rw [h] at hp; cases hp

theorem aofName_inj {a b : Nat} (h : aofName a = aofName b) : a = b := by
  simp [aofName] at h; exact h

theorem HistTrue_step {src : Nat → UInt8} {s : Disk} (ht : HistTrue src s) (op : DOp)
    (hsrc : ChunkOk src s op) : HistTrue src (s.step op).1 := by
  rcases hist_step s op with ⟨h1, h2⟩ | ⟨chunk, rfl, _, h1, h2⟩ | h3
  · intro i b hb; rw [h2] at hb; rw [h1]; exact ht i b hb
  · intro i b hb
    rw [h2] at hb; rw [h1]
    by_cases hi : i < s.hist.length
    · rw [List.getElem?_append_left hi] at hb; exact ht i b hb
    · rw [List.getElem?_append_right (by omega)] at hb
      have := hsrc _ b hb
      rw [this]; congr 1; omega
  · intro i b hb; rw [h3] at hb; simp at hb

theorem all_lefts_unique {s : Disk} (h : DInv s) {a b : DSeg} (ha : a ∈ s.all) (hb : b ∈ s.all)
    (e : a.left = b.left) : a = b :=
  lefts_unique h.contig (all_initNonempty h.nonempty) ha hb e

theorem single_op_positions {P : FS → FsOp → Prop} {fs : FS} {o : FsOp} (h : P fs o) :
    ∀ p1 x p2, [o] = p1 ++ x :: p2 → P (fs.applyAll p1) x := by
  intro p1 x p2 he
  cases p1 with
  | nil => simp at he; rw [← he.1]; exact h
  | cons a t => simp at he

/-- closing the live segment: header rewrite (or removal of the empty file) -/
theorem closeLive_files {src : Nat → UInt8} {s : Disk} {fs : FS} (h : DInv s) (hf : FilesOk s fs) :
    (∀ p1 o p2, closeLiveOps s = p1 ++ o :: p2 → OpTrue src (fs.applyAll p1) o) ∧
    FilesOk s.closeLive (fs.applyAll (closeLiveOps s)) := by
  unfold closeLiveOps Disk.closeLive
  cases hl : s.live with
  | none =>
    simp only []
    refine ⟨fun p1 o p2 he => by simp at he, ?_⟩
    intro g hg
    exact hf g (by simpa [Disk.all, hl] using hg)
  | some g =>
    simp only []
    have hall : s.all = s.segs ++ [g] := by simp [Disk.all, hl]
    have hgm : g ∈ s.all := by rw [hall]; simp
    obtain ⟨hdr0, hh0, hget0⟩ := hf g hgm
    cases he : g.data.isEmpty with
    | true =>
      simp only [if_true]
      refine ⟨single_op_positions (P := OpTrue src) trivial, ?_⟩
      intro g' hg'
      have hg's : g' ∈ s.segs := by simpa [Disk.all] using hg'
      have hg'a : g' ∈ s.all := by rw [hall]; simp [hg's]
      obtain ⟨hdr, hh, hget⟩ := hf g' hg'a
      refine ⟨hdr, hh, ?_⟩
      show (fs.apply (.remove (aofName g.left))).get (aofName g'.left) = _
      have hne : aofName g'.left ≠ aofName g.left := by
        intro e
        have := all_lefts_unique h hg'a hgm (aofName_inj e)
        subst this
        -- g ∈ segs is non-empty, but g is empty
        have := h.nonempty g' hg's
        exact this (List.isEmpty_iff.mp he)
      simp only [FS.apply]
      rw [get_del_ne _ hne]; exact hget
    | false =>
      simp only [Bool.false_eq_true, if_false]
      constructor
      · apply single_op_positions (P := OpTrue src)
        refine ⟨closedHeader_length _, ?_⟩
        intro c hc
        rw [hget0] at hc; cases hc
        simp; omega
      · intro g' hg'
        have hg'a : g' ∈ s.all := by
          have : g' ∈ s.segs ++ [g] := by simpa [Disk.all] using hg'
          rw [hall]; exact this
        show FileOf ((fs.apply (.pwriteHdr (aofName g.left) (closedHeader g.data)))) g'
        simp only [FS.apply, hget0]
        by_cases e : g'.left = g.left
        · have := all_lefts_unique h hg'a hgm e
          subst this
          refine ⟨closedHeader g'.data, closedHeader_length _, ?_⟩
          rw [get_set_eq]
          congr 2
          rw [closedHeader_length, List.drop_append_of_le_length (by omega), List.drop_of_length_le (by omega)]
          rfl
        · obtain ⟨hdr, hh, hget⟩ := hf g' hg'a
          refine ⟨hdr, hh, ?_⟩
          rw [get_set_ne _ _ (fun e' => e (aofName_inj e'))]
          exact hget

theorem get_apply_append_eq {fs : FS} {n : FName} {c : Bytes} (bs : Bytes) (h : fs.get n = some c) :
    (fs.apply (.append n bs)).get n = some (c ++ bs) := by
  simp only [FS.apply, h]; exact get_set_eq _ _ _

theorem get_apply_create_eq (fs : FS) (n : FName) : (fs.apply (.create n)).get n = some [] := get_set_eq _ _ _

theorem get_apply_pwrite_eq {fs : FS} {n : FName} {c : Bytes} (hdr : Bytes) (h : fs.get n = some c) :
    (fs.apply (.pwriteHdr n hdr)).get n = some (hdr ++ c.drop hdr.length) := by
  simp only [FS.apply, h]; exact get_set_eq _ _ _

theorem positions_append {P : FS → FsOp → Prop} {fs : FS} {A B : List FsOp}
    (hA : ∀ p1 o p2, A = p1 ++ o :: p2 → P (fs.applyAll p1) o)
    (hB : ∀ p1 o p2, B = p1 ++ o :: p2 → P ((fs.applyAll A).applyAll p1) o) :
    ∀ p1 o p2, A ++ B = p1 ++ o :: p2 → P (fs.applyAll p1) o := by
  intro p1 o p2 he
  rcases append_eq_split _ _ _ _ _ he with ⟨q, h1, _⟩ | ⟨q, h1, h2⟩
  · exact hA p1 o q h1
  · rw [h1, applyAll_append]; exact hB q o p2 h2

theorem positions_all_true {src : Nat → UInt8} {fs : FS} {A : List FsOp} (h : ∀ o ∈ A, ∀ fs', OpTrue src fs' o) :
    ∀ p1 o p2, A = p1 ++ o :: p2 → OpTrue src (fs.applyAll p1) o := by
  intro p1 o p2 he
  exact h o (by rw [he]; simp) _

theorem opTrue_remove (src : Nat → UInt8) (fs : FS) (n : FName) : OpTrue src fs (.remove n) := trivial
theorem opTrue_create (src : Nat → UInt8) (fs : FS) (n : FName) : OpTrue src fs (.create n) := trivial

theorem filesOk_of_untouched {s s' : Disk} {fs : FS} {ops : List FsOp} (hf : FilesOk s fs)
    (hall : ∀ g ∈ s'.all, g ∈ s.all) (hno : ∀ o ∈ ops, ∀ g ∈ s'.all, aofName g.left ∉ o.names) :
    FilesOk s' (fs.applyAll ops) := by
  intro g hg
  obtain ⟨hdr, hh, hget⟩ := hf g (hall g hg)
  exact ⟨hdr, hh, by rw [get_applyAll_other ops fs _ (fun o ho => hno o ho g hg)]; exact hget⟩

theorem lefts_lt_of_split {pre rest : List DSeg} (hc : Contig (pre ++ rest)) (hn : InitNonempty (pre ++ rest))
    {a b : DSeg} (ha : a ∈ pre) (hb : b ∈ rest) : a.left < b.left := by
  induction pre with
  | nil => cases ha
  | cons x t ih =>
    rcases List.mem_cons.mp ha with h | h
    · subst h
      exact contig_head_lt hc hn (by simp [hb])
    · exact ih hc.tail hn.tail h

/-- one writer step keeps every file operation truthful where it is applied, and the
    files of the new index are again header + data -/
theorem fsOps_true_step {src : Nat → UInt8} (s : Disk) (fs : FS) (op : DOp) (h : DInv s) (hok : s.okOp op)
    (ht : HistTrue src s)
    (hsrc : ChunkOk src s op)
    (hf : FilesOk s fs) :
    (∀ p1 o p2, fsOps s op = p1 ++ o :: p2 → OpTrue src (fs.applyAll p1) o) ∧
    FilesOk (s.step op).1 (fs.applyAll (fsOps s op)) := by
  have nil_case : ∀ (s' : Disk), (∀ g ∈ s'.all, g ∈ s.all) →
      (∀ p1 o p2, ([] : List FsOp) = p1 ++ o :: p2 → OpTrue src (fs.applyAll p1) o) ∧ FilesOk s' (fs.applyAll []) :=
    fun s' hall => ⟨fun p1 o p2 he => by simp at he, fun g hg => hf g (hall g hg)⟩
  cases op with
  | newRdbWriter off size =>
    simp only [fsOps]
    constructor
    · apply positions_append
      · -- resetOps: (remove tmp)? ++ closeLiveOps ++ removes
        unfold resetOps
        simp only [List.append_assoc]
        apply positions_append
        · apply positions_all_true
          intro o ho fs'
          split at ho
          · split at ho <;> simp at ho
            subst ho; trivial
          · simp at ho
        · apply positions_append
          · refine (closeLive_files (src := src) h ?_).1
            -- removing the temporary file does not touch stream files
            refine filesOk_of_untouched hf (fun g hg => hg) ?_
            intro o ho g _
            split at ho
            · split at ho <;> simp at ho
              subst ho; simp [FsOp.names, aofName, rdbTmpName]
            · simp at ho
          · apply positions_all_true
            intro o ho fs'
            obtain ⟨n, _, rfl⟩ := List.mem_map.mp ho
            trivial
      · exact single_op_positions (P := OpTrue src) trivial
    · intro g hg
      simp [Disk.step, Disk.reset, Disk.all] at hg
  | rdbAppend chunk =>
    simp only [fsOps, Disk.step]
    cases hrdb : s.rdb with
    | none => simp only []; exact nil_case s (fun g hg => hg)
    | some r =>
      simp only []
      by_cases hw : r.writing = true
      · simp only [hw, if_true]
        have hops : ∀ o ∈ ([FsOp.append (rdbTmpName r.left r.size) chunk] ++
            (if r.data.length + chunk.length = r.size then [FsOp.rename (rdbTmpName r.left r.size) (rdbName r.left r.size)] else [])),
            (∀ fs', OpTrue src fs' o) ∧ (∀ l, aofName l ∉ o.names) := by
          intro o ho
          rcases List.mem_append.mp ho with h1 | h1
          · simp at h1; subst h1
            exact ⟨fun fs' c _ => contentTrue_not_aof _ rfl, by intro l; simp [FsOp.names, aofName, rdbTmpName]⟩
          · split at h1
            · simp at h1; subst h1
              exact ⟨fun fs' c _ => contentTrue_not_aof _ rfl, by intro l; simp [FsOp.names, aofName, rdbTmpName, rdbName]⟩
            · simp at h1
        refine ⟨positions_all_true (fun o ho => (hops o ho).1), ?_⟩
        apply filesOk_of_untouched hf
        · intro g hg
          split at hg <;> simpa [Disk.all] using hg
        · intro o ho g _
          exact (hops o ho).2 _
      · simp only [hw]
        exact nil_case s (fun g hg => hg)
  | rdbClose =>
    simp only [fsOps, Disk.step]
    cases hrdb : s.rdb with
    | none => simp only []; exact nil_case s (fun g hg => hg)
    | some r =>
      simp only []
      by_cases hw : r.writing = true
      · simp only [hw, if_true]
        refine ⟨single_op_positions (P := OpTrue src) trivial, ?_⟩
        apply filesOk_of_untouched hf
        · intro g hg; simpa [Disk.all] using hg
        · intro o ho g _
          simp at ho; subst ho; simp [FsOp.names, aofName, rdbTmpName]
      · simp only [hw]
        exact nil_case s (fun g hg => hg)
  | newAofWriter off =>
    simp only [fsOps]
    obtain ⟨hcl1, hcl2⟩ := closeLive_files (src := src) h hf
    have h1 := h.closeLive
    have hlive1 := closeLive_live s
    have hall1 : s.closeLive.all = s.closeLive.segs := by simp [Disk.all, hlive1]
    generalize hfs1 : fs.applyAll (closeLiveOps s) = fs1 at hcl2
    -- the new file's name is no indexed segment's name
    have hfresh : ∀ g ∈ s.closeLive.segs, g.left ≠ off := by
      intro g hg e
      simp only [Disk.okOp] at hok
      cases hlr : lastRight s.closeLive.segs with
      | none => rw [lastRight_eq_none.mp hlr] at hg; cases hg
      | some r =>
        rw [hlr] at hok
        have hle := contig_right_le_last (hall1 ▸ h1.contig) hg hlr
        have hne := h1.nonempty g hg
        have : 0 < g.data.length := List.length_pos_iff.mpr hne
        simp only [DSeg.right] at hle
        simp at hok
        omega
    constructor
    · apply positions_append hcl1
      rw [hfs1]
      intro p1 o p2 he
      cases p1 with
      | nil => simp at he; rw [← he.1]; trivial
      | cons a t =>
        cases t with
        | nil =>
          simp at he
          obtain ⟨ha, ho, _⟩ := he
          subst ha; subst ho
          intro c hc
          have : (FS.applyAll fs1 [FsOp.create (aofName off)]).get (aofName off) = some [] := by
            show (fs1.apply (.create (aofName off))).get (aofName off) = some []
            exact get_set_eq _ _ _
          rw [this] at hc; cases hc
          intro l _ i b hb
          simp [fixHeader, headerSize] at hb
        | cons b u => simp at he
    · rw [applyAll_append, hfs1]
      intro g hg
      have hg' : g ∈ s.closeLive.segs ++ [({ left := off, data := [] } : DSeg)] := by
        simpa [Disk.step, Disk.all] using hg
      show FileOf ((fs1.apply (.create (aofName off))).apply (.append (aofName off) fixHeader)) g
      have hc : (fs1.apply (.create (aofName off))).get (aofName off) = some [] := get_apply_create_eq _ _
      rcases List.mem_append.mp hg' with hm | hm
      · obtain ⟨hdr, hh, hget⟩ := hcl2 g (by rw [hall1]; exact hm)
        refine ⟨hdr, hh, ?_⟩
        have hne : aofName g.left ≠ aofName off := fun e => hfresh g hm (aofName_inj e)
        rw [get_apply_other _ _ _ (by simp [FsOp.names]; exact hne),
            get_apply_other _ _ _ (by simp [FsOp.names]; exact hne)]
        exact hget
      · simp at hm; subst hm
        refine ⟨fixHeader, by simp [fixHeader, headerSize], ?_⟩
        rw [get_apply_append_eq _ hc]; simp
  | aofClose =>
    simp only [fsOps]
    exact closeLive_files (src := src) h hf
  | aofAppend chunk =>
    have hcne : chunk ≠ [] := hok
    cases hl : s.live with
    | none =>
      have e1 : fsOps s (.aofAppend chunk) = [] := by simp only [fsOps, hl]
      have e2 : (s.step (.aofAppend chunk)).1 = s := by simp [Disk.step, Disk.appendLive, hl]
      rw [e1, e2]; exact nil_case s (fun g hg => hg)
    | some g =>
      have e1 : fsOps s (.aofAppend chunk) = [FsOp.append (aofName g.left) chunk] ++
          (if 16 + (g.data ++ chunk).length > s.logSize then
            [FsOp.pwriteHdr (aofName g.left) (closedHeader (g.data ++ chunk)),
             FsOp.create (aofName (g.left + (g.data ++ chunk).length)),
             FsOp.append (aofName (g.left + (g.data ++ chunk).length)) fixHeader]
           else []) := by simp only [fsOps, hl]
      have e2 : (s.step (.aofAppend chunk)).1 =
          (if 16 + (g.data ++ chunk).length > s.logSize then
            { s with segs := s.segs ++ [{ g with data := g.data ++ chunk }],
                     live := some { left := ({ g with data := g.data ++ chunk } : DSeg).right, data := [] },
                     hist := s.hist ++ chunk }
           else { s with live := some { g with data := g.data ++ chunk }, hist := s.hist ++ chunk }) := by
        simp only [Disk.step, Disk.appendLive, hl]
        split <;> rfl
      rw [e1, e2]
      have hall : s.all = s.segs ++ [g] := by simp [Disk.all, hl]
      have hgm : g ∈ s.all := by rw [hall]; simp
      obtain ⟨hdr0, hh0, hget0⟩ := hf g hgm
      have hgend : g.right = s.hbase + s.hist.length := by
        apply h.lastEnd; rw [hall, lastRight_append_single]
      -- the grown data is truthful
      have hgrow : ∀ i b, (g.data ++ chunk)[i]? = some b → b = src (g.left + i) := by
        intro i b hb
        by_cases hi : i < g.data.length
        · rw [List.getElem?_append_left hi] at hb; exact seg_true h ht hgm i b hb
        · rw [List.getElem?_append_right (by omega)] at hb
          have := hsrc _ b hb
          rw [this]; congr 1
          simp only [DSeg.right] at hgend; omega
      have hop0 : OpTrue src fs (.append (aofName g.left) chunk) := by
        intro c hc
        rw [hget0] at hc; cases hc
        rw [List.append_assoc]
        exact contentTrue_file hh0 hgrow
      have hget1 : (fs.apply (.append (aofName g.left) chunk)).get (aofName g.left) = some (hdr0 ++ (g.data ++ chunk)) := by
        rw [get_apply_append_eq _ hget0, List.append_assoc]
      -- other indexed segments: different names, smaller offsets
      have hother : ∀ g' ∈ s.segs, g'.left ≠ g.left ∧ g'.left < g.left := by
        intro g' hg'
        have hlt := lefts_lt_of_split (pre := s.segs) (rest := [g]) (hall ▸ h.contig)
          (hall ▸ all_initNonempty h.nonempty) hg' (List.mem_singleton.mpr rfl)
        exact ⟨by omega, hlt⟩
      have hclen : 0 < chunk.length := List.length_pos_iff.mpr hcne
      by_cases hrot : 16 + (g.data ++ chunk).length > s.logSize
      · simp only [hrot, if_true]
        have hget2 : ((fs.apply (.append (aofName g.left) chunk)).apply
            (.pwriteHdr (aofName g.left) (closedHeader (g.data ++ chunk)))).get (aofName g.left) =
            some (closedHeader (g.data ++ chunk) ++ (g.data ++ chunk)) := by
          rw [get_apply_pwrite_eq _ hget1, closedHeader_length]
          congr 2
          rw [List.drop_append_of_le_length (by omega), List.drop_of_length_le (by omega)]; rfl
        have hnewne : aofName (g.left + (g.data ++ chunk).length) ≠ aofName g.left := by
          intro e
          have h1 := aofName_inj e
          have h2 : (g.data ++ chunk).length = g.data.length + chunk.length := List.length_append
          omega
        constructor
        · intro p1 o p2 he
          -- four operations
          match p1, he with
          | [], he => cases he; exact hop0
          | [a], he =>
            cases he
            refine ⟨closedHeader_length _, ?_⟩
            intro c hc
            have : (fs.apply (.append (aofName g.left) chunk)).get (aofName g.left) = some c := hc
            rw [hget1] at this
            cases this; simp; omega
          | [a, b], he => cases he; trivial
          | [a, b, c'], he =>
            cases he
            intro c hc
            have : (((fs.apply (.append (aofName g.left) chunk)).apply
                (.pwriteHdr (aofName g.left) (closedHeader (g.data ++ chunk)))).apply
                (.create (aofName (g.left + (g.data ++ chunk).length)))).get (aofName (g.left + (g.data ++ chunk).length)) = some c := hc
            rw [get_apply_create_eq] at this; cases this
            intro l _ i b hb
            simp [fixHeader, headerSize] at hb
          | a :: b :: c' :: d :: t, he =>
            exact absurd (congrArg List.length he) (by simp)
        · intro g' hg'
          have hg'' : g' ∈ (s.segs ++ [{ g with data := g.data ++ chunk }]) ++
              [({ left := ({ g with data := g.data ++ chunk } : DSeg).right, data := [] } : DSeg)] := by
            simpa [Disk.all] using hg'
          show FileOf ((((fs.apply (.append (aofName g.left) chunk)).apply
              (.pwriteHdr (aofName g.left) (closedHeader (g.data ++ chunk)))).apply
              (.create (aofName (g.left + (g.data ++ chunk).length)))).apply
              (.append (aofName (g.left + (g.data ++ chunk).length)) fixHeader)) g'
          rcases List.mem_append.mp hg'' with hm | hm
          · rcases List.mem_append.mp hm with hm | hm
            · -- an older segment: untouched by all four operations
              obtain ⟨hne, hlt⟩ := hother g' hm
              obtain ⟨hdr, hh, hget⟩ := hf g' (by rw [hall]; simp [hm])
              refine ⟨hdr, hh, ?_⟩
              have n1 : aofName g'.left ≠ aofName g.left := fun e => hne (aofName_inj e)
              have n2 : aofName g'.left ≠ aofName (g.left + (g.data ++ chunk).length) := by
                intro e; have := aofName_inj e; omega
              rw [get_apply_other _ _ _ (by simp only [FsOp.names, List.mem_singleton]; exact n2),
                  get_apply_other _ _ _ (by simp only [FsOp.names, List.mem_singleton]; exact n2),
                  get_apply_other _ _ _ (by simp only [FsOp.names, List.mem_singleton]; exact n1),
                  get_apply_other _ _ _ (by simp only [FsOp.names, List.mem_singleton]; exact n1)]
              exact hget
            · simp at hm; subst hm
              refine ⟨closedHeader (g.data ++ chunk), closedHeader_length _, ?_⟩
              rw [get_apply_other _ _ _ (by simp only [FsOp.names, List.mem_singleton]; exact hnewne.symm),
                  get_apply_other _ _ _ (by simp only [FsOp.names, List.mem_singleton]; exact hnewne.symm)]
              exact hget2
          · simp at hm; subst hm
            refine ⟨fixHeader, by simp [fixHeader, headerSize], ?_⟩
            show (_ : FS).get (aofName (g.left + (g.data ++ chunk).length)) = _
            rw [get_apply_append_eq _ (get_apply_create_eq _ _)]; simp
      · simp only [hrot, if_false, List.append_nil]
        refine ⟨single_op_positions (P := OpTrue src) hop0, ?_⟩
        intro g' hg'
        have hg'' : g' ∈ s.segs ++ [{ g with data := g.data ++ chunk }] := by simpa [Disk.all] using hg'
        show FileOf (fs.apply (.append (aofName g.left) chunk)) g'
        rcases List.mem_append.mp hg'' with hm | hm
        · obtain ⟨hne, _⟩ := hother g' hm
          obtain ⟨hdr, hh, hget⟩ := hf g' (by rw [hall]; simp [hm])
          refine ⟨hdr, hh, ?_⟩
          rw [get_apply_other _ _ _ (by simp [FsOp.names]; exact fun e => hne (aofName_inj e))]
          exact hget
        · simp at hm; subst hm
          exact ⟨hdr0, hh0, hget1⟩
  | gc =>
    simp only [fsOps]
    obtain ⟨pre, hp, hz, hlive⟩ := (show ∃ pre, s.segs = pre ++ s.gc.segs ∧ (∀ g ∈ pre, readerRefs s.readers g.left = 0) ∧
        s.gc.live = s.live from by
      unfold Disk.gc
      split
      · exact ⟨[], by simp, by simp, rfl⟩
      · generalize gcScanRev s.maxSize s.all.reverse 0 = ks
        obtain ⟨k, size⟩ := ks
        obtain ⟨pre, hp, hz⟩ := dropUnref_suffix s.readers k s.segs
        simp only []
        split
        · exact ⟨pre, hp, hz, rfl⟩
        · split
          · split
            · exact ⟨pre, hp, hz, rfl⟩
            · exact ⟨[], by simp, by simp, rfl⟩
          · exact ⟨pre, hp, hz, rfl⟩)
    have hrem : gcRemoved s = pre := by
      unfold gcRemoved
      have : s.segs.length - s.gc.segs.length = pre.length := by
        have := congrArg List.length hp; simp at this; omega
      rw [this]
      conv => lhs; rw [hp]
      simp
    constructor
    · apply positions_all_true
      intro o ho fs'
      simp only [List.mem_append] at ho
      rcases ho with h1 | h1
      · split at h1
        · simp at h1; subst h1; trivial
        · simp at h1
      · obtain ⟨g, _, rfl⟩ := List.mem_map.mp h1; trivial
    · apply filesOk_of_untouched hf
      · intro g hg
        simp only [Disk.step, Disk.all, hlive] at hg ⊢
        rcases List.mem_append.mp hg with hm | hm
        · rw [hp]; simp [hm]
        · simp [hm]
      · intro o ho g hg
        simp only [Disk.step, Disk.all, hlive] at hg
        simp only [List.mem_append] at ho
        rcases ho with h1 | h1
        · split at h1
          · simp at h1; subst h1; simp [FsOp.names, aofName, rdbName]
          · simp at h1
        · obtain ⟨x, hx, rfl⟩ := List.mem_map.mp h1
          rw [hrem] at hx
          simp only [FsOp.names, List.mem_singleton]
          intro e
          have hxl := aofName_inj e
          -- x is in the removed prefix, g in what remains: their left ends differ
          have hall : s.all = pre ++ (s.gc.segs ++ s.live.toList) := by simp [Disk.all, hp]
          have := lefts_lt_of_split (hall ▸ h.contig) (hall ▸ all_initNonempty h.nonempty) hx hg
          omega
  | setRunId id =>
    simp only [fsOps]
    apply nil_case
    intro g hg
    simp only [Disk.step] at hg
    split at hg
    · simp [Disk.reset, Disk.all] at hg
    · split at hg
      · exact hg
      · rename_i hne hid
        obtain ⟨hl, hrw⟩ := hok hne hid
        obtain ⟨hd, hl', hr', _, _, _⟩ := closeAllForSwitch_spec h
        rw [rescan_eq_self hd hl' hr'] at hg
        -- with no live segment, closing for the switch leaves the segments as they are
        have hsegs : s.closeAllForSwitch.segs = s.segs ∧ s.closeAllForSwitch.live = none := by
          unfold Disk.closeAllForSwitch
          have hf := dropWritingRdb_fields ({ s with readers := closeAllReaders s.readers } : Disk)
          have hlive0 : ({ s with readers := closeAllReaders s.readers } : Disk).dropWritingRdb.live = none := by
            rw [hf.2.2.2.2.1]; exact hl
          unfold Disk.closeLive
          rw [hlive0]
          exact ⟨hf.2.2.2.1, hlive0⟩
        have : g ∈ s.closeAllForSwitch.all := hg
        simp only [Disk.all, hsegs.1, hsegs.2] at this
        simp only [Disk.all, hl]
        exact this
  | delRunId =>
    simp only [fsOps]
    apply nil_case
    intro g hg
    simp only [Disk.step] at hg
    split at hg
    · exact hg
    · simp [Disk.reset, Disk.all] at hg
  | openReader rid off crcOk =>
    simp only [fsOps]
    apply nil_case
    intro g hg
    have : (s.step (.openReader rid off crcOk)).1.all = s.all := by
      simp only [Disk.step, Disk.open, Disk.all]; repeat' split
      all_goals rfl
    rw [this] at hg; exact hg
  | read rid n =>
    simp only [fsOps]
    apply nil_case
    intro g hg
    have : (s.step (.read rid n)).1.all = s.all := by
      simp only [Disk.step, Disk.read, Disk.all]; repeat' split
      all_goals rfl
    rw [this] at hg; exact hg
  | advAcquire rid =>
    simp only [fsOps]
    apply nil_case
    intro g hg
    have : (s.step (.advAcquire rid)).1.all = s.all := by
      simp only [Disk.step, Disk.advAcquire, Disk.all]; repeat' split
      all_goals rfl
    rw [this] at hg; exact hg
  | advRelease rid =>
    simp only [fsOps]
    apply nil_case
    intro g hg
    have : (s.step (.advRelease rid)).1.all = s.all := by
      simp only [Disk.step, Disk.advRelease, Disk.all]; repeat' split
      all_goals rfl
    rw [this] at hg; exact hg
  | closeReader rid =>
    simp only [fsOps]
    apply nil_case
    intro g hg
    have : (s.step (.closeReader rid)).1.all = s.all := by
      simp only [Disk.step, Disk.closeReader, Disk.all]; repeat' split
      all_goals rfl
    rw [this] at hg; exact hg

/-- every file operation of a whole script is truthful at the state it is applied to -/
theorem scriptOps_true {src : Nat → UInt8} (ops : List DOp) :
    ∀ (s : Disk) (fs : FS), DInv s → s.wf ops → HistTrue src s → SrcOk src s ops → FilesOk s fs →
      ∀ pre op post, scriptOps s ops = pre ++ op :: post → OpTrue src (fs.applyAll pre) op := by
  induction ops with
  | nil => intro s fs _ _ _ _ _ pre op post he; simp [scriptOps] at he
  | cons o rest ih =>
    intro s fs h hwf ht hsrc hf pre op post he
    have hs : ChunkOk src s o := hsrc.1
    obtain ⟨htrue, hfiles⟩ := fsOps_true_step (src := src) s fs o h hwf.1 ht hs hf
    simp only [scriptOps] at he
    rcases append_eq_split _ _ _ _ _ he with ⟨p2, h1, _⟩ | ⟨p1, h1, h2⟩
    · exact htrue pre op p2 h1
    · rw [h1, applyAll_append]
      exact ih _ _ (h.step o hwf.1) hwf.2 (HistTrue_step ht o hs) hsrc.2 hfiles p1 op post h2

theorem histTrue_init (src : Nat → UInt8) (l m : Nat) : HistTrue src (Disk.init l m) := by
  intro i b hb; simp [Disk.init] at hb

theorem filesOk_init (l m : Nat) (fs : FS) : FilesOk (Disk.init l m) fs := by
  intro g hg; simp [Disk.init, Disk.all] at hg

theorem fsTrue_nil (src : Nat → UInt8) : FsTrue src [] := by
  rw [FsTrue_iff]; intro e he; cases he

/-- at every crash instant of every script of the writers (from an empty directory),
    every byte in every segment file is the source's byte at that offset -/
theorem crashImage_true (src : Nat → UInt8) (l m : Nat) (ops : List DOp) (hwf : (Disk.init l m).wf ops)
    (hsrc : SrcOk src (Disk.init l m) ops) (n k : Nat) :
    FsTrue src (crashImage [] (scriptOps (Disk.init l m) ops) n k) := by
  unfold crashImage
  apply FsTrue_tornLast (fsTrue_nil src)
  exact opsTrue_take (scriptOps_true ops _ _ (DInv.init l m) hwf (histTrue_init src l m) hsrc
    (filesOk_init l m [])) n

end GunYu.StoreFs
