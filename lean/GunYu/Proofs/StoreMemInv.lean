/-
  C05, memory backend: the GLOBAL invariant of `GunYu.Store.Mem` over arbitrary
  operation lists (the analogue of `DInv` for the disk index), its preservation
  by every operation, and the refinement facts that follow from it.
-/
import GunYu.Model.Store
import GunYu.Proofs.StoreMem

namespace GunYu.Store
open GunYu

/-! ### contiguity of the indexed stream segments -/

def MContig : List MSeg → Prop
  | [] => True
  | [_] => True
  | g :: h :: rest => g.right = h.left ∧ MContig (h :: rest)

theorem MContig.tail {g : MSeg} {l : List MSeg} (h : MContig (g :: l)) : MContig l := by
  cases l with
  | nil => trivial
  | cons a t => exact h.2

theorem mcontig_append_single (l : List MSeg) (n : MSeg) :
    MContig (l ++ [n]) ↔ MContig l ∧ ∀ g, l.getLast? = some g → g.right = n.left := by
  induction l with
  | nil => simp [MContig]
  | cons a t ih =>
    cases t with
    | nil => simp [MContig]
    | cons b t' =>
      simp only [List.cons_append, MContig]
      have := ih
      simp only [List.cons_append] at this
      rw [this]
      simp [List.getLast?_cons_cons, and_assoc]

theorem mcontig_suffix (pre : List MSeg) (l : List MSeg) (h : MContig (pre ++ l)) : MContig l := by
  induction pre with
  | nil => exact h
  | cons a t ih => exact ih h.tail

/-- a map that keeps `left` and the data length keeps contiguity -/
theorem mcontig_map (f : MSeg → MSeg) (hl : ∀ g, (f g).left = g.left) (hr : ∀ g, (f g).right = g.right)
    (l : List MSeg) (h : MContig l) : MContig (l.map f) := by
  induction l with
  | nil => trivial
  | cons a t ih =>
    cases t with
    | nil => trivial
    | cons b t' =>
      simp only [List.map_cons, MContig]
      exact ⟨by rw [hr, hl]; exact h.1, ih h.2⟩

/-- the newest contiguous run of a contiguous list is the whole list -/
theorem mContigRun_of_contig (l : List MSeg) (h : MContig l) : mContigRun l = l := by
  induction l with
  | nil => rfl
  | cons a t ih =>
    cases t with
    | nil => rfl
    | cons b t' =>
      simp only [mContigRun]
      rw [ih h.2]
      simp [h.1]

/-- removing empty segments keeps contiguity, the first `left` and the last `right` -/
theorem mcontig_filter_empty (p : MSeg → Bool) (l : List MSeg) (h : MContig l)
    (he : ∀ g ∈ l, p g = false → g.data = []) :
    MContig (l.filter p) ∧
    (∀ a x, l.head? = some a → (l.filter p).head? = some x → x.left = a.left) ∧
    (∀ b y, l.getLast? = some b → (l.filter p).getLast? = some y → y.right = b.right) := by
  induction l with
  | nil => simp [MContig]
  | cons a t ih =>
    have iht := ih h.tail (fun g hg => he g (List.mem_cons_of_mem _ hg))
    obtain ⟨c1, c2, c3⟩ := iht
    have hstep : ∀ x, (t.filter p).head? = some x → x.left = a.right := by
      intro x hx
      cases t with
      | nil => simp at hx
      | cons b t' => rw [c2 b x rfl hx]; exact h.1.symm
    cases hp : p a with
    | true =>
      simp only [List.filter_cons, hp, if_true]
      refine ⟨?_, ?_, ?_⟩
      · cases hf : t.filter p with
        | nil => trivial
        | cons x xs =>
          refine ⟨(hstep x (by rw [hf]; rfl)).symm, ?_⟩
          rw [← hf]; exact c1
      · intro a' x ha hx; simp at ha hx; subst ha; subst hx; rfl
      · intro b y hb hy
        cases hf : t.filter p with
        | nil =>
          rw [hf] at hy; simp at hy; subst hy
          cases t with
          | nil => simp at hb; subst hb; rfl
          | cons b' t' =>
            -- everything after a was removed: all empty, so the last right equals a.right
            have hb' : (b' :: t').getLast? = some b := by simpa [List.getLast?_cons_cons] using hb
            -- by induction hypothesis shape we need a separate argument: use contiguity chain
            have key : ∀ (l : List MSeg) (s : MSeg), MContig (s :: l) → (∀ g ∈ l, g.data = []) →
                ∀ z, (s :: l).getLast? = some z → z.right = s.right := by
              intro l
              induction l with
              | nil => intro s _ _ z hz; simp at hz; subst hz; rfl
              | cons u us ihu =>
                intro s hc hall z hz
                have hz' : (u :: us).getLast? = some z := by simpa [List.getLast?_cons_cons] using hz
                have := ihu u hc.2 (fun g hg => hall g (List.mem_cons_of_mem _ hg)) z hz'
                rw [this]
                have hu : u.data = [] := hall u (List.mem_cons_self ..)
                have : u.right = u.left := by simp [MSeg.right, hu]
                rw [this]; exact hc.1.symm
            have hall : ∀ g ∈ b' :: t', g.data = [] := by
              intro g hg
              have hpg : p g = false := by
                have : g ∉ (b' :: t').filter p := by rw [hf]; simp
                simp only [List.mem_filter, not_and] at this
                cases hq : p g with
                | false => rfl
                | true => exact absurd hq (this hg)
              exact he g (List.mem_cons_of_mem _ hg) hpg
            exact (key (b' :: t') a h hall b hb).symm
        | cons x xs =>
          rw [hf] at hy
          have hy' : (t.filter p).getLast? = some y := by
            rw [hf]; simpa [List.getLast?_cons_cons] using hy
          cases t with
          | nil => simp at hf
          | cons b' t' =>
            have hb' : (b' :: t').getLast? = some b := by simpa [List.getLast?_cons_cons] using hb
            exact c3 b y hb' hy'
    | false =>
      simp only [List.filter_cons, hp]
      have ha : a.data = [] := he a (List.mem_cons_self ..) hp
      have har : a.right = a.left := by simp [MSeg.right, ha]
      refine ⟨c1, ?_, ?_⟩
      · intro a' x ha' hx; simp at ha'; subst ha'
        rw [hstep x hx, har]
      · intro b y hb hy
        cases t with
        | nil => simp at hy
        | cons b' t' =>
          have hb' : (b' :: t').getLast? = some b := by simpa [List.getLast?_cons_cons] using hb
          exact c3 b y hb' hy

theorem getLast?_append_cons' {α} (l : List α) (a : α) (t : List α) :
    (l ++ a :: t).getLast? = (a :: t).getLast? := by
  induction l with
  | nil => rfl
  | cons x xs ih =>
    cases xs with
    | nil => simp [List.getLast?_cons_cons]
    | cons y ys =>
      rw [List.cons_append, List.cons_append, List.getLast?_cons_cons]
      exact ih

/-! ### byte-slice algebra -/

theorem mslice_append_left {α} (l p : List α) (a b : Nat) (h : a + b ≤ l.length) :
    ((l ++ p).drop a).take b = (l.drop a).take b := by
  rw [List.drop_append_of_le_length (by omega), List.take_append_of_le_length (by simp; omega)]

theorem slice_glue {α} (l : List α) (a b c : Nat) :
    (l.drop a).take b ++ (l.drop (a + b)).take c = (l.drop a).take (b + c) := by
  rw [← List.drop_drop]
  rw [List.take_add]

/-! ### segment lookups -/

theorem mFind_some {l : List MSeg} {sid : Nat} {g : MSeg} (h : mFind l sid = some g) : g ∈ l ∧ g.sid = sid := by
  unfold mFind at h
  exact ⟨List.mem_of_find?_eq_some h, by simpa using List.find?_some h⟩

theorem sid_unique {l : List MSeg} (hn : (l.map (·.sid)).Nodup) {a b : MSeg} (ha : a ∈ l) (hb : b ∈ l)
    (e : a.sid = b.sid) : a = b := by
  induction l with
  | nil => cases ha
  | cons x t ih =>
    simp only [List.map_cons, List.nodup_cons, List.mem_map, not_exists, not_and] at hn
    rcases List.mem_cons.mp ha with h1 | h1 <;> rcases List.mem_cons.mp hb with h2 | h2
    · rw [h1, h2]
    · subst h1; exact absurd e.symm (hn.1 b h2)
    · subst h2; exact absurd e (hn.1 a h1)
    · exact ih hn.2 h1 h2

theorem mFind_of_mem {l : List MSeg} (hn : (l.map (·.sid)).Nodup) {g : MSeg} (hg : g ∈ l) :
    mFind l g.sid = some g := by
  unfold mFind
  cases h : l.find? (·.sid == g.sid) with
  | none =>
    have := List.find?_eq_none.mp h g hg
    simp at this
  | some x =>
    have hx := List.mem_of_find?_eq_some h
    have hs : x.sid = g.sid := by simpa using List.find?_some h
    rw [sid_unique hn hx hg hs]

theorem mem_mUpdate {l : List MSeg} {sid : Nat} {f : MSeg → MSeg} {x : MSeg} :
    x ∈ mUpdate l sid f ↔ ∃ g ∈ l, x = if g.sid == sid then f g else g := by
  unfold mUpdate
  simp only [List.mem_map]
  constructor
  · rintro ⟨g, hg, rfl⟩; exact ⟨g, hg, rfl⟩
  · rintro ⟨g, hg, rfl⟩; exact ⟨g, hg, rfl⟩

theorem mUpdate_sids {l : List MSeg} {sid : Nat} {f : MSeg → MSeg} (hf : ∀ g, (f g).sid = g.sid) :
    (mUpdate l sid f).map (·.sid) = l.map (·.sid) := by
  unfold mUpdate
  rw [List.map_map]
  apply List.map_congr_left
  intro g _
  simp only [Function.comp]
  split <;> simp [hf]

theorem mUpdate_getLast? {l : List MSeg} {sid : Nat} {f : MSeg → MSeg} :
    (mUpdate l sid f).getLast? = l.getLast?.map (fun g => if g.sid == sid then f g else g) := by
  unfold mUpdate
  rw [List.getLast?_map]

/-! ### the stream part of the invariant -/

/-- an indexed segment holds the bytes of the written history at its offsets -/
structure SegOk (hbase : Nat) (hist : Bytes) (g : MSeg) : Prop where
  lo : hbase ≤ g.left
  hi : g.right ≤ hbase + hist.length
  data : g.data = (hist.drop (g.left - hbase)).take g.data.length

/-- a copy loop that holds the indexed segment `g`: it is inside `g`, and it has
    written to its pipe exactly the history's bytes `[start, pos)` -/
structure MAofOk (hbase : Nat) (hist : Bytes) (r : MReader) (g : MSeg) : Prop where
  inl : g.left ≤ r.pos
  inr : r.pos ≤ g.right
  base : hbase ≤ r.start
  ord : r.start ≤ r.pos
  out : r.out = (hist.drop (r.start - hbase)).take (r.pos - r.start)

structure StreamOk (k : Bool) (segs : List MSeg) (aofW : Option Nat) (readers : List MReader) (nextSid hbase : Nat)
    (hist : Bytes) : Prop where
  contig : MContig segs
  segOk : ∀ g ∈ segs, SegOk hbase hist g
  lastEnd : ∀ g, segs.getLast? = some g → g.right = hbase + hist.length
  nodup : (segs.map (·.sid)).Nodup
  bound : ∀ g ∈ segs, g.sid < nextSid
  writer : ∀ cur, aofW = some cur → ∃ g, segs.getLast? = some g ∧ g.sid = cur
  readers : ∀ r ∈ readers, r.isAof = k →
    r.seg < nextSid ∧ (r.released = false → ∀ g ∈ segs, g.sid = r.seg → MAofOk hbase hist r g)

def StreamInv (s : Mem) : Prop := StreamOk true s.segs s.aofW s.readers s.nextSid s.hbase s.hist

theorem StreamOk.empty {k : Bool} (rs : List MReader) (n hb : Nat) (hi : Bytes) (hr : ∀ r ∈ rs, r.isAof = k → r.seg < n) :
    StreamOk k [] none rs n hb hi where
  contig := trivial
  segOk := by intro g hg; cases hg
  lastEnd := by intro g hg; simp at hg
  nodup := by simp
  bound := by intro g hg; cases hg
  writer := by intro c hc; cases hc
  readers := by intro r hr' ha; exact ⟨hr r hr' ha, by intro _ g hg; cases hg⟩

/-- the collector: a prefix of segments none of which is the writer's goes -/
theorem StreamOk.dropPrefix {k : Bool} {pre l : List MSeg} {w : Option Nat} {rs : List MReader} {n hb : Nat} {hi : Bytes}
    (h : StreamOk k (pre ++ l) w rs n hb hi) (hw : ∀ g ∈ pre, w ≠ some g.sid) : StreamOk k l w rs n hb hi where
  contig := mcontig_suffix pre l h.contig
  segOk := fun g hg => h.segOk g (List.mem_append_right _ hg)
  lastEnd := by
    intro g hg
    apply h.lastEnd
    cases l with
    | nil => simp at hg
    | cons a t => rw [getLast?_append_cons']; exact hg
  nodup := by
    have := h.nodup
    rw [List.map_append] at this
    exact (List.nodup_append.mp this).2.1
  bound := fun g hg => h.bound g (List.mem_append_right _ hg)
  writer := by
    intro cur hc
    obtain ⟨g, hg, hs⟩ := h.writer cur hc
    cases l with
    | nil =>
      simp at hg
      have := List.mem_of_getLast? hg
      exact absurd (by rw [hc, hs]) (hw g this)
    | cons a t =>
      rw [getLast?_append_cons'] at hg
      exact ⟨g, hg, hs⟩
  readers := by
    intro r hr ha
    obtain ⟨h1, h2⟩ := h.readers r hr ha
    exact ⟨h1, fun hrel g hg hs => h2 hrel g (List.mem_append_right _ hg) hs⟩

theorem StreamOk.seg_bound {k : Bool} {l : List MSeg} {w : Option Nat} {rs : List MReader} {n hb : Nat} {hi : Bytes}
    (h : StreamOk k l w rs n hb hi) : ∀ r ∈ rs, r.isAof = k → r.seg < n :=
  fun r hr ha => (h.readers r hr ha).1

theorem SegOk.congr {hb : Nat} {hi : Bytes} {g g' : MSeg} (h : SegOk hb hi g) (hl : g'.left = g.left)
    (hd : g'.data = g.data) : SegOk hb hi g' :=
  ⟨by rw [hl]; exact h.lo, by unfold MSeg.right at *; rw [hl, hd]; exact h.hi, by rw [hl, hd]; exact h.data⟩

theorem MAofOk.congr {hb : Nat} {hi : Bytes} {r : MReader} {g g' : MSeg} (h : MAofOk hb hi r g) (hl : g'.left = g.left)
    (hd : g'.data = g.data) : MAofOk hb hi r g' :=
  ⟨by rw [hl]; exact h.inl, by unfold MSeg.right at *; rw [hl, hd]; exact h.inr, h.base, h.ord, h.out⟩

/-- closing segments (any map that keeps identity, offset and bytes) -/
theorem StreamOk.mapSegs {k : Bool} {l : List MSeg} {w : Option Nat} {rs : List MReader} {n hb : Nat} {hi : Bytes}
    (h : StreamOk k l w rs n hb hi) (f : MSeg → MSeg) (hs : ∀ g, (f g).sid = g.sid) (hl : ∀ g, (f g).left = g.left)
    (hd : ∀ g, (f g).data = g.data) : StreamOk k (l.map f) w rs n hb hi where
  contig := mcontig_map f hl (fun g => by unfold MSeg.right; rw [hl, hd]) l h.contig
  segOk := by
    intro g hg
    obtain ⟨g0, hg0, rfl⟩ := List.mem_map.mp hg
    exact (h.segOk g0 hg0).congr (hl g0) (hd g0)
  lastEnd := by
    intro g hg
    rw [List.getLast?_map] at hg
    cases hlast : l.getLast? with
    | none => rw [hlast] at hg; simp at hg
    | some g0 =>
      rw [hlast] at hg; simp at hg; subst hg
      have := h.lastEnd g0 hlast
      unfold MSeg.right at *; rw [hl, hd]; exact this
  nodup := by
    have : (l.map f).map (·.sid) = l.map (·.sid) := by
      rw [List.map_map]; apply List.map_congr_left; intro g _; exact hs g
    rw [this]; exact h.nodup
  bound := by
    intro g hg
    obtain ⟨g0, hg0, rfl⟩ := List.mem_map.mp hg
    rw [hs]; exact h.bound g0 hg0
  writer := by
    intro cur hc
    obtain ⟨g, hg, hsid⟩ := h.writer cur hc
    exact ⟨f g, by rw [List.getLast?_map, hg]; rfl, by rw [hs]; exact hsid⟩
  readers := by
    intro r hr ha
    obtain ⟨h1, h2⟩ := h.readers r hr ha
    refine ⟨h1, fun hrel g hg hsid => ?_⟩
    obtain ⟨g0, hg0, rfl⟩ := List.mem_map.mp hg
    exact (h2 hrel g0 hg0 (by rw [← hs]; exact hsid)).congr (hl g0) (hd g0)

theorem mUpdate_eq_map (l : List MSeg) (sid : Nat) (f : MSeg → MSeg) :
    mUpdate l sid f = l.map (fun g => if g.sid == sid then f g else g) := rfl

theorem StreamOk.closeSeg {k : Bool} {l : List MSeg} {w : Option Nat} {rs : List MReader} {n hb : Nat} {hi : Bytes}
    (h : StreamOk k l w rs n hb hi) (cur : Nat) :
    StreamOk k (mUpdate l cur (fun g => { g with closed := true })) w rs n hb hi := by
  rw [mUpdate_eq_map]
  apply h.mapSegs <;> intro g <;> split <;> rfl

/-- on a list with distinct identities, updating the last segment's identity touches only it -/
theorem mUpdate_last {init : List MSeg} {last : MSeg} (hn : ((init ++ [last]).map (·.sid)).Nodup)
    (f : MSeg → MSeg) : mUpdate (init ++ [last]) last.sid f = init ++ [f last] := by
  unfold mUpdate
  rw [List.map_append]
  congr 1
  · have : ∀ g ∈ init, g.sid ≠ last.sid := by
      intro g hg e
      have := sid_unique hn (List.mem_append_left _ hg) (List.mem_append_right _ (List.mem_singleton.mpr rfl)) e
      subst this
      rw [List.map_append, List.nodup_append] at hn
      exact hn.2.2 g.sid (List.mem_map.mpr ⟨g, hg, rfl⟩) g.sid (by simp) rfl
    conv => rhs; rw [← List.map_id init]
    apply List.map_congr_left
    intro g hg
    simp [this g hg]
  · simp

/-- the writer appends a piece to its (last) segment; the history records it -/
theorem StreamOk.appendPiece {k : Bool} {l : List MSeg} {cur : Nat} {rs : List MReader} {n hb : Nat} {hi : Bytes}
    (h : StreamOk k l (some cur) rs n hb hi) (piece : Bytes) :
    StreamOk k (mUpdate l cur (fun g => { g with data := g.data ++ piece })) (some cur) rs n hb (hi ++ piece) := by
  obtain ⟨last, hlast, hsid⟩ := h.writer cur rfl
  obtain ⟨init, rfl⟩ := List.getLast?_eq_some_iff.mp hlast
  subst hsid
  rw [mUpdate_last h.nodup]
  have hL := h.segOk last (by simp)
  have hLE := h.lastEnd last hlast
  have hinit : ∀ g ∈ init, SegOk hb (hi ++ piece) g := by
    intro g hg
    have hg' := h.segOk g (List.mem_append_left _ hg)
    refine ⟨hg'.lo, by have := hg'.hi; simp; omega, ?_⟩
    rw [mslice_append_left _ _ _ _ (by have := hg'.hi; have := hg'.lo; unfold MSeg.right at *; omega)]
    exact hg'.data
  have hrd : ∀ r g, MAofOk hb hi r g → g.right ≤ hb + hi.length →
      r.out = ((hi ++ piece).drop (r.start - hb)).take (r.pos - r.start) := by
    intro r g hr hg
    rw [mslice_append_left _ _ _ _ (by have := hr.inr; have := hr.base; have := hr.ord; omega)]
    exact hr.out
  constructor
  · rw [mcontig_append_single]
    have := (mcontig_append_single init last).mp h.contig
    exact ⟨this.1, this.2⟩
  · intro g hg
    rcases List.mem_append.mp hg with hg | hg
    · exact hinit g hg
    · rw [List.mem_singleton] at hg; subst hg
      refine ⟨hL.lo, by unfold MSeg.right at *; simp; omega, ?_⟩
      show last.data ++ piece = _
      have hfull : hi.drop (last.left - hb) = last.data := by
        have hd := hL.data
        have hlen : (hi.drop (last.left - hb)).length = last.data.length := by
          have := hL.lo; unfold MSeg.right at hLE; simp; omega
        rw [hd]; exact (List.take_of_length_le (by omega)).symm
      rw [List.drop_append_of_le_length (by have := hL.lo; unfold MSeg.right at hLE; dsimp only; omega), hfull]
      exact (List.take_of_length_le (by simp)).symm
  · intro g hg
    rw [getLast?_append_cons'] at hg
    simp at hg; subst hg
    unfold MSeg.right at *; simp; omega
  · have : (init ++ [({ last with data := last.data ++ piece } : MSeg)]).map (·.sid) = (init ++ [last]).map (·.sid) := by simp
    rw [this]; exact h.nodup
  · intro g hg
    rcases List.mem_append.mp hg with hg | hg
    · exact h.bound g (List.mem_append_left _ hg)
    · rw [List.mem_singleton] at hg; subst hg
      exact h.bound last (by simp)
  · intro c hc
    cases hc
    exact ⟨({ last with data := last.data ++ piece } : MSeg), by rw [getLast?_append_cons']; rfl, rfl⟩
  · intro r hr ha
    obtain ⟨h1, h2⟩ := h.readers r hr ha
    refine ⟨h1, fun hrel g hg hs => ?_⟩
    rcases List.mem_append.mp hg with hg | hg
    · have hok := h2 hrel g (List.mem_append_left _ hg) hs
      exact ⟨hok.inl, hok.inr, hok.base, hok.ord, hrd r g hok (h.segOk g (List.mem_append_left _ hg)).hi⟩
    · rw [List.mem_singleton] at hg; subst hg
      have hok := h2 hrel last (by simp) hs
      exact ⟨hok.inl, by have := hok.inr; unfold MSeg.right at *; simp; omega, hok.base, hok.ord, hrd r last hok hL.hi⟩

/-- a new, empty segment at the end of the history (rotation, new writer) -/
theorem StreamOk.pushSeg {k : Bool} {l : List MSeg} {w : Option Nat} {rs : List MReader} {n hb : Nat} {hi : Bytes}
    (h : StreamOk k l w rs n hb hi) (x : MSeg) (hs : x.sid = n) (hd : x.data = []) (hl : x.left = hb + hi.length) :
    StreamOk k (l ++ [x]) (some n) rs (n + 1) hb hi where
  contig := by
    rw [mcontig_append_single]
    exact ⟨h.contig, fun g hg => by rw [h.lastEnd g hg, hl]⟩
  segOk := by
    intro g hg
    rcases List.mem_append.mp hg with hg | hg
    · exact h.segOk g hg
    · rw [List.mem_singleton] at hg; subst hg
      exact ⟨by omega, by unfold MSeg.right; rw [hd]; simp; omega, by rw [hd]; simp⟩
  lastEnd := by
    intro g hg
    rw [getLast?_append_cons'] at hg; simp at hg; subst hg
    unfold MSeg.right; rw [hd]; simp; exact hl
  nodup := by
    rw [List.map_append, List.nodup_append]
    refine ⟨h.nodup, by simp, ?_⟩
    intro a ha b hb' e
    simp at hb'; subst hb'
    obtain ⟨g, hg, rfl⟩ := List.mem_map.mp ha
    have := h.bound g hg
    omega
  bound := by
    intro g hg
    rcases List.mem_append.mp hg with hg | hg
    · have := h.bound g hg; omega
    · rw [List.mem_singleton] at hg; subst hg; omega
  writer := by
    intro c hc; cases hc
    exact ⟨x, by rw [getLast?_append_cons']; rfl, hs⟩
  readers := by
    intro r hr ha
    obtain ⟨h1, h2⟩ := h.readers r hr ha
    refine ⟨by omega, fun hrel g hg hsid => ?_⟩
    rcases List.mem_append.mp hg with hg | hg
    · exact h2 hrel g hg hsid
    · rw [List.mem_singleton] at hg; subst hg; omega

/-- an empty segment that is not the writer's leaves the index -/
theorem StreamOk.filterEmpty {k : Bool} {l : List MSeg} {w : Option Nat} {rs : List MReader} {n hb : Nat} {hi : Bytes}
    (h : StreamOk k l w rs n hb hi) (cur : Nat) (he : ∀ g ∈ l, g.sid = cur → g.data = []) (hw : w ≠ some cur) :
    StreamOk k (l.filter (fun x => x.sid != cur)) w rs n hb hi := by
  obtain ⟨c1, _, c3⟩ := mcontig_filter_empty (fun x => x.sid != cur) l h.contig
    (fun g hg hp => he g hg (by simpa using hp))
  constructor
  · exact c1
  · intro g hg; exact h.segOk g (List.mem_filter.mp hg).1
  · intro y hy
    cases hl : l.getLast? with
    | none =>
      have : l = [] := by cases l with
        | nil => rfl
        | cons a t => simp [List.getLast?_eq_none_iff] at hl
      subst this; simp at hy
    | some b => rw [c3 b y hl hy]; exact h.lastEnd b hl
  · exact List.Nodup.sublist (List.Sublist.map _ List.filter_sublist) h.nodup
  · intro g hg; exact h.bound g (List.mem_filter.mp hg).1
  · intro c hc
    obtain ⟨g, hg, hs⟩ := h.writer c hc
    obtain ⟨init, rfl⟩ := List.getLast?_eq_some_iff.mp hg
    refine ⟨g, ?_, hs⟩
    rw [List.filter_append]
    have : [g].filter (fun x => x.sid != cur) = [g] := by
      have : g.sid ≠ cur := by intro e; apply hw; rw [hc, hs.symm, e]
      simp [this]
    rw [this, getLast?_append_cons']; rfl
  · intro r hr ha
    obtain ⟨h1, h2⟩ := h.readers r hr ha
    exact ⟨h1, fun hrel g hg hs => h2 hrel g (List.mem_filter.mp hg).1 hs⟩

/-- the writer goes (`mc.aofWriter = nil`) -/
theorem StreamOk.noWriter {k : Bool} {l : List MSeg} {w : Option Nat} {rs : List MReader} {n hb : Nat} {hi : Bytes}
    (h : StreamOk k l w rs n hb hi) : StreamOk k l none rs n hb hi :=
  ⟨h.contig, h.segOk, h.lastEnd, h.nodup, h.bound, (by intro c hc; cases hc), h.readers⟩

/-! ### reader updates -/

theorem mem_mSetReader {rs : List MReader} {r x : MReader} (hx : x ∈ mSetReader rs r) : x ∈ rs ∨ x = r := by
  unfold mSetReader at hx
  obtain ⟨y, hy, rfl⟩ := List.mem_map.mp hx
  split
  · right; rfl
  · left; exact hy

theorem StreamOk.setReader {k : Bool} {l : List MSeg} {w : Option Nat} {rs : List MReader} {n hb : Nat} {hi : Bytes}
    (h : StreamOk k l w rs n hb hi) (r' : MReader)
    (hr' : r'.isAof = k → r'.seg < n ∧ (r'.released = false → ∀ g ∈ l, g.sid = r'.seg → MAofOk hb hi r' g)) :
    StreamOk k l w (mSetReader rs r') n hb hi :=
  ⟨h.contig, h.segOk, h.lastEnd, h.nodup, h.bound, h.writer, by
      intro r hr ha
      rcases mem_mSetReader hr with hr | rfl
      · exact h.readers r hr ha
      · exact hr' ha⟩

theorem StreamOk.addReader {k : Bool} {l : List MSeg} {w : Option Nat} {rs : List MReader} {n hb : Nat} {hi : Bytes}
    (h : StreamOk k l w rs n hb hi) (r' : MReader)
    (hr' : r'.isAof = k → r'.seg < n ∧ (r'.released = false → ∀ g ∈ l, g.sid = r'.seg → MAofOk hb hi r' g)) :
    StreamOk k l w (rs ++ [r']) n hb hi :=
  ⟨h.contig, h.segOk, h.lastEnd, h.nodup, h.bound, h.writer, by
      intro r hr ha
      rcases List.mem_append.mp hr with hr | hr
      · exact h.readers r hr ha
      · rw [List.mem_singleton] at hr; subst hr; exact hr' ha⟩

/-! ### the snapshot part of the invariant -/

structure MRdbOk (ro : Option MRdb) (n : Nat) : Prop where
  nonempty : ∀ r, ro = some r → r.segs ≠ []
  live : ∀ r, ro = some r → r.writing = true ∨ r.size ≤ r.written
  whole : ∀ r, ro = some r → r.replayable = true → mBuffered r.segs = r.written
  nodup : ∀ r, ro = some r → (r.segs.map (·.sid)).Nodup
  bound : ∀ r, ro = some r → ∀ g ∈ r.segs, g.sid < n
  cur : ∀ r, ro = some r → r.writing = true → ∃ g, r.segs.getLast? = some g ∧ g.sid = r.cur ∧ g.closed = false

theorem MRdbOk.none (n : Nat) : MRdbOk none n :=
  ⟨(by intro r h; cases h), (by intro r h; cases h), (by intro r h; cases h), (by intro r h; cases h),
   (by intro r h; cases h), (by intro r h; cases h)⟩

theorem MRdbOk.mono {ro : Option MRdb} {n m : Nat} (h : MRdbOk ro n) (hnm : n ≤ m) : MRdbOk ro m :=
  ⟨h.nonempty, h.live, h.whole, h.nodup, fun r hr g hg => Nat.lt_of_lt_of_le (h.bound r hr g hg) hnm, h.cur⟩

/-- the global invariant of the memory backend -/
structure MemInv (s : Mem) : Prop where
  stream : StreamInv s
  rdb : MRdbOk s.rdb s.nextSid

/-- how the collector may change the snapshot -/
def RdbStep (a b : Option MRdb) : Prop :=
  b = a ∨ b = none ∨ ∃ r r', a = some r ∧ b = some r' ∧ r'.replayable = false ∧ r'.cur = r.cur ∧
    r'.writing = r.writing ∧ r'.size = r.size ∧ r'.written = r.written ∧ r'.left = r.left

theorem RdbStep.refl (a : Option MRdb) : RdbStep a a := Or.inl rfl

theorem RdbStep.trans {a b c : Option MRdb} (h1 : RdbStep a b) (h2 : RdbStep b c) : RdbStep a c := by
  rcases h2 with rfl | rfl | ⟨r, r', hb, hc, p1, p2, p3, p4, p5, p6⟩
  · exact h1
  · exact Or.inr (Or.inl rfl)
  · rcases h1 with rfl | rfl | ⟨q, q', ha, hb', q1, q2, q3, q4, q5, q6⟩
    · exact Or.inr (Or.inr ⟨r, r', hb, hc, p1, p2, p3, p4, p5, p6⟩)
    · cases hb
    · rw [hb'] at hb; cases hb
      exact Or.inr (Or.inr ⟨q, r', ha, hc, p1, by rw [p2, q2], by rw [p3, q3], by rw [p4, q4], by rw [p5, q5], by rw [p6, q6]⟩)

/-- what the collector leaves alone -/
structure GcFrame (s s' : Mem) : Prop where
  aofW : s'.aofW = s.aofW
  readers : s'.readers = s.readers
  nextSid : s'.nextSid = s.nextSid
  hbase : s'.hbase = s.hbase
  hist : s'.hist = s.hist
  logSize : s'.logSize = s.logSize
  maxSize : s'.maxSize = s.maxSize
  runId : s'.runId = s.runId
  pendA : s'.pendA = s.pendA
  pendR : s'.pendR = s.pendR
  rdb : RdbStep s.rdb s'.rdb
  segs : ∃ pre, s.segs = pre ++ s'.segs

theorem GcFrame.refl (s : Mem) : GcFrame s s :=
  ⟨rfl, rfl, rfl, rfl, rfl, rfl, rfl, rfl, rfl, rfl, RdbStep.refl _, ⟨[], rfl⟩⟩

theorem GcFrame.trans {a b c : Mem} (h1 : GcFrame a b) (h2 : GcFrame b c) : GcFrame a c :=
  ⟨h2.aofW.trans h1.aofW, h2.readers.trans h1.readers, h2.nextSid.trans h1.nextSid, h2.hbase.trans h1.hbase,
   h2.hist.trans h1.hist, h2.logSize.trans h1.logSize, h2.maxSize.trans h1.maxSize, h2.runId.trans h1.runId,
   h2.pendA.trans h1.pendA, h2.pendR.trans h1.pendR, h1.rdb.trans h2.rdb,
   by obtain ⟨p1, e1⟩ := h1.segs; obtain ⟨p2, e2⟩ := h2.segs; exact ⟨p1 ++ p2, by rw [e1, e2, List.append_assoc]⟩⟩

theorem gcAof_inv {s s' : Mem} (h : s.gcAof = some s') (hi : MemInv s) : MemInv s' ∧ GcFrame s s' := by
  unfold Mem.gcAof at h
  split at h
  · rename_i first rest hs
    split at h
    · rename_i hc
      simp only [Bool.and_eq_true, beq_iff_eq, bne_iff_ne, ne_eq] at hc
      simp at h; subst h
      refine ⟨⟨?_, hi.rdb⟩, ⟨rfl, rfl, rfl, rfl, rfl, rfl, rfl, rfl, rfl, rfl, RdbStep.refl _, ⟨[first], by simp [hs]⟩⟩⟩
      have hst := hi.stream
      unfold StreamInv at hst ⊢
      rw [hs] at hst
      exact StreamOk.dropPrefix (pre := [first]) hst (by intro g hg; rw [List.mem_singleton] at hg; subst hg; exact hc.2)
    · simp at h
  · simp at h

theorem gcRdb_inv {s s' : Mem} (h : s.gcRdb = some s') (hi : MemInv s) : MemInv s' ∧ GcFrame s s' := by
  unfold Mem.gcRdb at h
  split at h
  · rename_i r hr
    split at h
    · rename_i first rest hrs
      split at h
      · rename_i hc
        simp only [Bool.and_eq_true, beq_iff_eq] at hc
        simp at h; subst h
        have hR := hi.rdb
        refine ⟨⟨hi.stream, ?_⟩, ⟨rfl, rfl, rfl, rfl, rfl, rfl, rfl, rfl, rfl, rfl, ?_, ⟨[], rfl⟩⟩⟩
        · dsimp only
          cases rest with
          | nil => rw [if_pos rfl]; exact MRdbOk.none _
          | cons x xs =>
            rw [if_neg (by simp)]
            have hnd := hR.nodup r hr
            rw [hrs] at hnd
            refine ⟨?_, ?_, ?_, ?_, ?_, ?_⟩
            · intro r' h'; cases h'; simp
            · intro r' h'; cases h'; exact hR.live r hr
            · intro r' h' hrep; cases h'; cases hrep
            · intro r' h'; cases h'
              simp only [List.map_cons, List.nodup_cons] at hnd ⊢
              exact hnd.2
            · intro r' h' g hg; cases h'
              exact hR.bound r hr g (by rw [hrs]; exact List.mem_cons_of_mem _ hg)
            · intro r' h' hw; cases h'
              obtain ⟨g, hg, hs1, hs2⟩ := hR.cur r hr hw
              rw [hrs, List.getLast?_cons_cons] at hg
              exact ⟨g, hg, hs1, hs2⟩
        · dsimp only
          cases rest with
          | nil => rw [if_pos rfl]; exact Or.inr (Or.inl rfl)
          | cons x xs =>
            rw [if_neg (by simp)]
            exact Or.inr (Or.inr ⟨r, _, hr, rfl, rfl, rfl, rfl, rfl, rfl, rfl⟩)
      · simp at h
    · simp at h
  · simp at h

theorem gcOnce_inv {s s' : Mem} (h : s.gcOnce = some s') (hi : MemInv s) : MemInv s' ∧ GcFrame s s' := by
  unfold Mem.gcOnce at h
  split at h
  · rename_i s1 h1
    simp at h; subst h
    exact gcAof_inv h1 hi
  · exact gcRdb_inv h hi

theorem gcLoop_inv (need fuel : Nat) (s : Mem) (hi : MemInv s) :
    MemInv (Mem.gcLoop need fuel s) ∧ GcFrame s (Mem.gcLoop need fuel s) := by
  induction fuel generalizing s with
  | zero => exact ⟨hi, GcFrame.refl s⟩
  | succ fuel ih =>
    simp only [Mem.gcLoop]
    split
    · cases hg : s.gcOnce with
      | none => exact ⟨hi, GcFrame.refl s⟩
      | some s' =>
        simp only []
        obtain ⟨h1, f1⟩ := gcOnce_inv hg hi
        obtain ⟨h2, f2⟩ := ih s' h1
        exact ⟨h2, f1.trans f2⟩
    · exact ⟨hi, GcFrame.refl s⟩

theorem gc_inv (s : Mem) (need : Nat) (hi : MemInv s) : MemInv (s.gc need) ∧ GcFrame s (s.gc need) := by
  unfold Mem.gc
  split
  · exact ⟨hi, GcFrame.refl s⟩
  · exact gcLoop_inv need _ s hi

theorem ensure_inv (s : Mem) (need : Nat) (hi : MemInv s) :
    MemInv (s.ensure need).1 ∧ GcFrame s (s.ensure need).1 := by
  unfold Mem.ensure
  split
  · exact ⟨hi, GcFrame.refl s⟩
  · exact gc_inv s need hi

/-! ### the stream writer -/

/-- the rotation inside `appendAof` -/
def aofRotate (s : Mem) (cur : Nat) (seg : MSeg) (rotate : Bool) : Mem × Nat :=
  if rotate then
    ({ s with segs := (mUpdate s.segs cur (fun g => { g with closed := true })) ++
                [{ sid := s.nextSid, left := seg.right, data := [], closed := false, next := none }],
              aofW := some s.nextSid, nextSid := s.nextSid + 1 }, s.nextSid)
  else (s, cur)

/-- one piece appended to the writer's segment -/
def aofPut (s2 : Mem) (cur1 : Nat) (piece : Bytes) : Mem :=
  { s2 with segs := mUpdate s2.segs cur1 (fun g => { g with data := g.data ++ piece }),
            total := s2.total + piece.length, hist := s2.hist ++ piece }

theorem appendAofLoop_succ (fuel : Nat) (s : Mem) (buf : Bytes) (done : Nat) :
    Mem.appendAofLoop (fuel + 1) s buf done =
      if buf.isEmpty then (s, done, false) else
      match s.aofW with
      | none => (s, done, false)
      | some cur =>
        match mFind s.segs cur with
        | none => (s, done, false)
        | some seg =>
          let ps := pieceSpace s.logSize seg.data.length buf.length
          let s1 := aofRotate s cur seg ps.2
          let e := s1.1.ensure ps.1
          if !e.2 then (e.1, done, true) else
          Mem.appendAofLoop fuel (aofPut e.1 s1.2 (buf.take ps.1)) (buf.drop ps.1) (done + (buf.take ps.1).length) := by
  rw [Mem.appendAofLoop]
  by_cases hb : buf.isEmpty = true
  · simp only [hb, if_true]
  · simp only [hb, if_false, Bool.false_eq_true]
    cases s.aofW with
    | none => rfl
    | some cur =>
      dsimp only
      cases mFind s.segs cur with
      | none => rfl
      | some seg =>
        generalize pieceSpace s.logSize seg.data.length buf.length = ps
        obtain ⟨space, rotate⟩ := ps
        dsimp only [aofRotate, aofPut]
        cases rotate <;> rfl

theorem aofRotate_inv (s : Mem) (cur : Nat) (seg : MSeg) (rotate : Bool) (hi : MemInv s) (hw : s.aofW = some cur)
    (hf : mFind s.segs cur = some seg) :
    MemInv (aofRotate s cur seg rotate).1 ∧ (aofRotate s cur seg rotate).1.aofW = some (aofRotate s cur seg rotate).2 := by
  unfold aofRotate
  cases rotate with
  | false => exact ⟨hi, hw⟩
  | true =>
    simp only [if_true]
    refine ⟨⟨?_, hi.rdb.mono (Nat.le_succ _)⟩, trivial⟩
    have hst := hi.stream
    unfold StreamInv at hst ⊢
    dsimp only
    obtain ⟨hm, hs⟩ := mFind_some hf
    obtain ⟨last, hlast, hls⟩ := hst.writer cur hw
    have : seg = last := sid_unique hst.nodup hm (List.mem_of_getLast? hlast) (by rw [hs, hls])
    subst this
    exact (hst.closeSeg cur).pushSeg _ rfl rfl (hst.lastEnd seg hlast)

theorem aofPut_inv (s2 : Mem) (cur1 : Nat) (piece : Bytes) (hi : MemInv s2) (hw : s2.aofW = some cur1) :
    MemInv (aofPut s2 cur1 piece) := by
  refine ⟨?_, hi.rdb⟩
  have hst := hi.stream
  unfold StreamInv at hst ⊢
  unfold aofPut
  dsimp only
  rw [hw] at hst ⊢
  exact hst.appendPiece piece

theorem appendAofLoop_inv (fuel : Nat) : ∀ (s : Mem) (buf : Bytes) (done : Nat), MemInv s →
    MemInv (Mem.appendAofLoop fuel s buf done).1 := by
  induction fuel with
  | zero => intro s buf done hi; exact hi
  | succ fuel ih =>
    intro s buf done hi
    rw [appendAofLoop_succ]
    split
    · exact hi
    · cases haw : s.aofW with
      | none => exact hi
      | some cur =>
        dsimp only
        cases hf : mFind s.segs cur with
        | none => exact hi
        | some seg =>
          dsimp only
          obtain ⟨h1, w1⟩ := aofRotate_inv s cur seg (pieceSpace s.logSize seg.data.length buf.length).2 hi haw hf
          obtain ⟨h2, f2⟩ := ensure_inv _ (pieceSpace s.logSize seg.data.length buf.length).1 h1
          split
          · exact h2
          · apply ih
            exact aofPut_inv _ _ _ h2 (by rw [f2.aofW, w1])

/-- what a step leaves of the ghost history / identities (used to chain steps) -/
structure Keeps (s s' : Mem) : Prop where
  nextSid : s.nextSid ≤ s'.nextSid
  hbase : s'.hbase = s.hbase
  hist : s'.hist = s.hist
  readers : s'.readers = s.readers

theorem GcFrame.keeps {s s' : Mem} (h : GcFrame s s') : Keeps s s' := ⟨Nat.le_of_eq h.nextSid.symm, h.hbase, h.hist, h.readers⟩

theorem Keeps.refl (s : Mem) : Keeps s s := ⟨Nat.le_refl _, rfl, rfl, rfl⟩

theorem Keeps.trans {a b c : Mem} (h1 : Keeps a b) (h2 : Keeps b c) : Keeps a c :=
  ⟨Nat.le_trans h1.nextSid h2.nextSid, h2.hbase.trans h1.hbase, h2.hist.trans h1.hist, h2.readers.trans h1.readers⟩

theorem gc_finish (X s : Mem) (n : Nat) (hX : MemInv X) (k : Keeps s X) (w : Option Nat) (hw : X.aofW = w) :
    MemInv (X.gc n) ∧ Keeps s (X.gc n) ∧ (X.gc n).aofW = w ∧ (X.gc n).pendA = X.pendA := by
  obtain ⟨h2, f2⟩ := gc_inv X n hX
  exact ⟨h2, k.trans f2.keeps, f2.aofW.trans hw, f2.pendA⟩

theorem finishAof_inv (s : Mem) (cur : Nat) (isCurrent : Bool) (hi : MemInv s)
    (hw : isCurrent = false → s.aofW ≠ some cur) :
    MemInv (s.finishAof cur isCurrent) ∧ Keeps s (s.finishAof cur isCurrent) ∧
      (s.finishAof cur isCurrent).aofW = (if isCurrent then none else s.aofW) ∧
      (s.finishAof cur isCurrent).pendA = none := by
  unfold Mem.finishAof
  have hst := hi.stream
  unfold StreamInv at hst
  have h1 : StreamOk true (mUpdate s.segs cur (fun g => { g with closed := true })) (if isCurrent then none else s.aofW)
      s.readers s.nextSid s.hbase s.hist := by
    cases isCurrent with
    | true => exact (hst.closeSeg cur).noWriter
    | false => exact hst.closeSeg cur
  have hwne : (if isCurrent then none else s.aofW) ≠ some cur := by
    cases isCurrent with
    | true => simp
    | false => simpa using hw rfl
  dsimp only
  cases hf : mFind (mUpdate s.segs cur (fun g => { g with closed := true })) cur with
  | none =>
    dsimp only
    refine gc_finish _ s 0 ?_ ?_ _ ?_ <;> first | exact ⟨h1, hi.rdb⟩ | exact Keeps.refl _ | exact ⟨Nat.le_refl _, rfl, rfl, rfl⟩ | rfl
  | some g =>
    dsimp only
    cases he : g.data.isEmpty with
    | false =>
      simp only [Bool.false_eq_true, if_false]
      refine gc_finish _ s 0 ?_ ?_ _ ?_ <;> first | exact ⟨h1, hi.rdb⟩ | exact Keeps.refl _ | exact ⟨Nat.le_refl _, rfl, rfl, rfl⟩ | rfl
    | true =>
      simp only [if_true]
      have hempty : ∀ x ∈ mUpdate s.segs cur (fun g => { g with closed := true }), x.sid = cur → x.data = [] := by
        intro x hx hs
        obtain ⟨hgm, hgs⟩ := mFind_some hf
        have : x = g := sid_unique h1.nodup hx hgm (by rw [hs, hgs])
        subst this
        exact List.isEmpty_iff.mp he
      refine gc_finish _ s 0 ?_ ?_ _ ?_ <;> first | exact ⟨h1.filterEmpty cur hempty hwne, hi.rdb⟩ | exact Keeps.refl _ | exact ⟨Nat.le_refl _, rfl, rfl, rfl⟩ | rfl

theorem StreamOk.monoSid {k : Bool} {l : List MSeg} {w : Option Nat} {rs : List MReader} {n m hb : Nat} {hi : Bytes}
    (h : StreamOk k l w rs n hb hi) (hnm : n ≤ m) : StreamOk k l w rs m hb hi :=
  ⟨h.contig, h.segOk, h.lastEnd, h.nodup, fun g hg => Nat.lt_of_lt_of_le (h.bound g hg) hnm, h.writer,
   fun r hr ha => ⟨Nat.lt_of_lt_of_le (h.readers r hr ha).1 hnm, (h.readers r hr ha).2⟩⟩

/-! ### reset -/

theorem reset_inv (s : Mem) (hi : MemInv s) : MemInv s.reset ∧ s.reset.nextSid = s.nextSid ∧ s.reset.readers = s.readers := by
  refine ⟨⟨?_, MRdbOk.none _⟩, rfl, rfl⟩
  unfold StreamInv Mem.reset
  dsimp only
  exact StreamOk.empty _ _ _ _ hi.stream.seg_bound

/-! ### the snapshot writer -/

theorem mBuffered_append (a b : List MSeg) : mBuffered (a ++ b) = mBuffered a + mBuffered b := by
  unfold mBuffered; simp

theorem mBuffered_map_data (l : List MSeg) (f : MSeg → MSeg) (hd : ∀ g, (f g).data = g.data) :
    mBuffered (l.map f) = mBuffered l := by
  unfold mBuffered
  rw [List.map_map]
  congr 1
  apply List.map_congr_left
  intro g _; simp [Function.comp, hd]

theorem mUpdate_close_buffered (l : List MSeg) (sid : Nat) (f : MSeg → MSeg) (hd : ∀ g, (f g).data = g.data) :
    mBuffered (mUpdate l sid f) = mBuffered l := by
  rw [mUpdate_eq_map]
  apply mBuffered_map_data
  intro g; split
  · exact hd g
  · rfl

theorem finishRdb_inv (s : Mem) (failed : Bool) (hi : MemInv s) :
    MemInv (s.finishRdb failed) ∧ Keeps s (s.finishRdb failed) ∧ (s.finishRdb failed).aofW = s.aofW ∧
      (s.finishRdb failed).segs = s.segs := by
  unfold Mem.finishRdb
  cases hr : s.rdb with
  | none => exact ⟨hi, Keeps.refl _, rfl, rfl⟩
  | some r =>
    dsimp only
    cases hw : r.writing with
    | false =>
      simp only [Bool.not_false, if_true]
      refine ⟨hi, ⟨?_, ?_, ?_, ?_⟩, ?_, ?_⟩ <;> first | rfl | trivial | exact Nat.le_refl _
    | true =>
      simp only [Bool.not_true, Bool.false_eq_true, if_false]
      split
      · refine ⟨⟨hi.stream, MRdbOk.none _⟩, ⟨?_, ?_, ?_, ?_⟩, ?_, ?_⟩ <;> first | rfl | trivial | exact Nat.le_refl _
      · rename_i hc
        simp only [Bool.or_eq_true, decide_eq_true_eq, not_or, Nat.not_lt] at hc
        refine ⟨⟨hi.stream, ?_⟩, ⟨Nat.le_refl _, rfl, rfl, rfl⟩, rfl, rfl⟩
        have hR := hi.rdb
        rw [hr] at hR
        dsimp only
        refine ⟨?_, ?_, ?_, ?_, ?_, ?_⟩
        · intro r' h'; cases h'
          have := hR.nonempty r rfl
          unfold mUpdate; simpa using this
        · intro r' h'; cases h'; exact Or.inr hc.2
        · intro r' h' hrep; cases h'
          dsimp only
          have := mUpdate_close_buffered r.segs r.cur (fun g => ({ g with closed := true } : MSeg)) (fun g => rfl)
          rw [this]
          exact hR.whole r rfl hrep
        · intro r' h'; cases h'
          dsimp only
          have := mUpdate_sids (l := r.segs) (sid := r.cur) (f := fun g => ({ g with closed := true } : MSeg)) (fun g => rfl)
          rw [this]
          exact hR.nodup r rfl
        · intro r' h' g hg; cases h'
          obtain ⟨g0, hg0, rfl⟩ := mem_mUpdate.mp hg
          have := hR.bound r rfl g0 hg0
          split <;> exact this
        · intro r' h' hw'; cases h'; cases hw'

/-- the snapshot after the rotation inside `appendRdb` -/
def rdbRotated (r : MRdb) (seg : MSeg) (n : Nat) : MRdb :=
  { r with segs := (mUpdate r.segs r.cur (fun g => { g with closed := true, next := some n })) ++
                     [{ sid := n, left := seg.right, data := [], closed := false, next := none }],
           cur := n }

def rdbRotate (s : Mem) (r : MRdb) (seg : MSeg) (rotate : Bool) : Mem × MRdb :=
  if rotate then
    ({ s with rdb := some (rdbRotated r seg s.nextSid), nextSid := s.nextSid + 1 }, rdbRotated r seg s.nextSid)
  else (s, r)

def rdbPut (s2 : Mem) (r2 : MRdb) (cur1 : Nat) (piece : Bytes) : Mem :=
  { s2 with rdb := some { r2 with segs := mUpdate r2.segs cur1 (fun g => { g with data := g.data ++ piece }),
                                  written := r2.written + piece.length },
            total := s2.total + piece.length }

theorem appendRdbLoop_succ (fuel : Nat) (s : Mem) (buf : Bytes) (done : Nat) :
    Mem.appendRdbLoop (fuel + 1) s buf done =
      if buf.isEmpty then (s, done, false) else
      match s.rdb with
      | none => (s, done, false)
      | some r =>
        if !r.writing then (s, done, false) else
        match mFind r.segs r.cur with
        | none => (s, done, false)
        | some seg =>
          let ps := pieceSpace s.logSize seg.data.length buf.length
          let s1 := rdbRotate s r seg ps.2
          let e := s1.1.ensure ps.1
          if !e.2 then (e.1, done, true) else
          match e.1.rdb with
          | none => (e.1, done, true)
          | some r2 =>
            Mem.appendRdbLoop fuel (rdbPut e.1 r2 s1.2.cur (buf.take ps.1)) (buf.drop ps.1)
              (done + (buf.take ps.1).length) := by
  rw [Mem.appendRdbLoop]
  dsimp only [rdbRotate, rdbPut, rdbRotated]
  by_cases hb : buf.isEmpty = true
  · simp only [hb, if_true]
  · simp only [hb, if_false, Bool.false_eq_true]
    cases s.rdb with
    | none => rfl
    | some r =>
      dsimp only
      cases r.writing with
      | false => rfl
      | true =>
        simp only [Bool.not_true, Bool.false_eq_true, if_false]
        cases mFind r.segs r.cur with
        | none => rfl
        | some seg =>
          cases (pieceSpace s.logSize seg.data.length buf.length).2 <;> rfl

theorem rdbRotate_inv (s : Mem) (r : MRdb) (seg : MSeg) (rotate : Bool) (hi : MemInv s) (hr : s.rdb = some r)
    (hw : r.writing = true) :
    MemInv (rdbRotate s r seg rotate).1 ∧ (rdbRotate s r seg rotate).1.rdb = some (rdbRotate s r seg rotate).2 ∧
      (rdbRotate s r seg rotate).2.writing = true ∧ Keeps s (rdbRotate s r seg rotate).1 ∧
      (rdbRotate s r seg rotate).1.aofW = s.aofW ∧ (rdbRotate s r seg rotate).1.segs = s.segs := by
  unfold rdbRotate
  cases rotate with
  | false => exact ⟨hi, hr, hw, Keeps.refl _, rfl, rfl⟩
  | true =>
    simp only [if_true]
    refine ⟨⟨?strm, ?rdbk⟩, ?_, hw, ⟨Nat.le_succ _, ?_, ?_, ?_⟩, ?_, ?_⟩
    case strm => exact StreamOk.monoSid hi.stream (Nat.le_succ _)
    case rdbk =>
      have hR := hi.rdb
      rw [hr] at hR
      dsimp only
      obtain ⟨last, hlast, hls, hlc⟩ := hR.cur r rfl hw
      have hsids : (mUpdate r.segs r.cur (fun g => ({ g with closed := true, next := some s.nextSid } : MSeg))).map (·.sid)
          = r.segs.map (·.sid) := mUpdate_sids (fun g => rfl)
      refine ⟨?_, ?_, ?_, ?_, ?_, ?_⟩
      · intro r' h'; cases h'; simp [rdbRotated]
      · intro r' h'; cases h'; exact Or.inl hw
      · intro r' h' hrep; cases h'
        simp only [rdbRotated, mBuffered_append]
        have := mUpdate_close_buffered r.segs r.cur (fun g => ({ g with closed := true, next := some s.nextSid } : MSeg)) (fun g => rfl)
        rw [this]
        have := hR.whole r rfl hrep
        simp [mBuffered] at this ⊢
        exact this
      · intro r' h'; cases h'
        simp only [rdbRotated, List.map_append, hsids]
        rw [List.nodup_append]
        refine ⟨hR.nodup r rfl, by simp, ?_⟩
        intro a ha b hb e
        simp at hb; subst hb
        obtain ⟨g, hg, rfl⟩ := List.mem_map.mp ha
        have := hR.bound r rfl g hg
        omega
      · intro r' h' g hg; cases h'
        simp only [rdbRotated] at hg
        rcases List.mem_append.mp hg with hg | hg
        · obtain ⟨g0, hg0, rfl⟩ := mem_mUpdate.mp hg
          have := hR.bound r rfl g0 hg0
          split
          · show g0.sid < s.nextSid + 1; omega
          · show g0.sid < s.nextSid + 1; omega
        · rw [List.mem_singleton] at hg; subst hg
          show s.nextSid < s.nextSid + 1; omega
      · intro r' h' _; cases h'
        exact ⟨_, by simp only [rdbRotated]; rw [getLast?_append_cons']; rfl, rfl, rfl⟩
    all_goals first | rfl | trivial

theorem rdbPut_inv (s2 : Mem) (r2 : MRdb) (piece : Bytes) (hi : MemInv s2) (hr : s2.rdb = some r2)
    (hw : r2.writing = true) : MemInv (rdbPut s2 r2 r2.cur piece) ∧ Keeps s2 (rdbPut s2 r2 r2.cur piece) := by
  refine ⟨⟨hi.stream, ?_⟩, ⟨Nat.le_refl _, rfl, rfl, rfl⟩⟩
  have hR := hi.rdb
  rw [hr] at hR
  unfold rdbPut
  dsimp only
  obtain ⟨last, hlast, hls, hlc⟩ := hR.cur r2 rfl hw
  obtain ⟨init, hinit⟩ := List.getLast?_eq_some_iff.mp hlast
  have hnd := hR.nodup r2 rfl
  have hupd : mUpdate r2.segs r2.cur (fun g => ({ g with data := g.data ++ piece } : MSeg)) =
      init ++ [({ last with data := last.data ++ piece } : MSeg)] := by
    rw [hinit, ← hls]
    rw [hinit] at hnd
    exact mUpdate_last hnd _
  refine ⟨?_, ?_, ?_, ?_, ?_, ?_⟩
  · intro r' h'; cases h'; dsimp only; rw [hupd]; simp
  · intro r' h'; cases h'; exact Or.inl hw
  · intro r' h' hrep; cases h'
    dsimp only
    have := hR.whole r2 rfl hrep
    rw [hupd, mBuffered_append]
    rw [hinit, mBuffered_append] at this
    simp [mBuffered] at this ⊢
    omega
  · intro r' h'; cases h'
    dsimp only
    rw [hupd]
    rw [hinit] at hnd
    simpa using hnd
  · intro r' h' g hg; cases h'
    dsimp only at hg
    rw [hupd] at hg
    rcases List.mem_append.mp hg with hg | hg
    · exact hR.bound r2 rfl g (by rw [hinit]; exact List.mem_append_left _ hg)
    · rw [List.mem_singleton] at hg; subst hg
      exact hR.bound r2 rfl last (by rw [hinit]; simp)
  · intro r' h' _; cases h'
    dsimp only
    rw [hupd]
    exact ⟨({ last with data := last.data ++ piece } : MSeg), by rw [getLast?_append_cons']; rfl, hls, hlc⟩

theorem appendRdbLoop_inv (fuel : Nat) : ∀ (s : Mem) (buf : Bytes) (done : Nat), MemInv s →
    MemInv (Mem.appendRdbLoop fuel s buf done).1 ∧ Keeps s (Mem.appendRdbLoop fuel s buf done).1 := by
  induction fuel with
  | zero => intro s buf done hi; exact ⟨hi, Keeps.refl _⟩
  | succ fuel ih =>
    intro s buf done hi
    rw [appendRdbLoop_succ]
    split
    · exact ⟨hi, Keeps.refl _⟩
    · cases hr : s.rdb with
      | none => exact ⟨hi, Keeps.refl _⟩
      | some r =>
        dsimp only
        cases hw : r.writing with
        | false => exact ⟨hi, Keeps.refl _⟩
        | true =>
          simp only [Bool.not_true, Bool.false_eq_true, if_false]
          cases hf : mFind r.segs r.cur with
          | none => exact ⟨hi, Keeps.refl _⟩
          | some seg =>
            dsimp only
            obtain ⟨h1, e1, w1, k1, _, _⟩ :=
              rdbRotate_inv s r seg (pieceSpace s.logSize seg.data.length buf.length).2 hi hr hw
            obtain ⟨h2, f2⟩ := ensure_inv _ (pieceSpace s.logSize seg.data.length buf.length).1 h1
            split
            · exact ⟨h2, k1.trans f2.keeps⟩
            · cases hr2 : ((rdbRotate s r seg (pieceSpace s.logSize seg.data.length buf.length).2).1.ensure
                  (pieceSpace s.logSize seg.data.length buf.length).1).1.rdb with
              | none => exact ⟨h2, k1.trans f2.keeps⟩
              | some r2 =>
                dsimp only
                -- the collector keeps the writer's current segment and the writing flag
                have hcw : r2.cur = (rdbRotate s r seg (pieceSpace s.logSize seg.data.length buf.length).2).2.cur ∧
                    r2.writing = true := by
                  rcases f2.rdb with h | h | ⟨q, q', hq, hq', _, hc, hwq, _⟩
                  · rw [hr2, e1] at h; cases h; exact ⟨rfl, w1⟩
                  · rw [hr2] at h; cases h
                  · rw [e1] at hq; cases hq
                    rw [hr2] at hq'; cases hq'
                    exact ⟨hc, by rw [hwq]; exact w1⟩
                rw [← hcw.1]
                obtain ⟨h3, k3⟩ := rdbPut_inv _ r2 (buf.take (pieceSpace s.logSize seg.data.length buf.length).1) h2 hr2 hcw.2
                obtain ⟨h4, k4⟩ := ih _ (buf.drop (pieceSpace s.logSize seg.data.length buf.length).1)
                  (done + (buf.take (pieceSpace s.logSize seg.data.length buf.length).1).length) h3
                exact ⟨h4, ((k1.trans f2.keeps).trans k3).trans k4⟩

/-! ### readers -/

theorem mFindReader_mem {rs : List MReader} {rid : Nat} {r : MReader} (h : mFindReader rs rid = some r) : r ∈ rs :=
  List.mem_of_find?_eq_some h

theorem mem_indexAof_some {s : Mem} (hc : MContig s.segs) {off : Nat} {g : MSeg} (h : s.indexAof off = some g) :
    g ∈ s.segs ∧ g.left ≤ off ∧ off ≤ g.right := by
  unfold Mem.indexAof Mem.runRev at h
  have hm := List.mem_of_find?_eq_some h
  have hp := List.find?_some h
  rw [mContigRun_of_contig _ hc, List.mem_reverse] at hm
  simp only [Bool.and_eq_true, decide_eq_true_eq] at hp
  exact ⟨hm, hp.1, hp.2⟩

theorem lookup_sid {s : Mem} {sid : Nat} {g : MSeg} (h : s.lookup sid = some g) : g.sid = sid := by
  unfold Mem.lookup at h
  split at h
  · rename_i g' hg'; cases h; exact (mFind_some hg').2
  · split at h
    · rename_i g' hg'
      cases h
      split at hg'
      · exact (mFind_some hg').2
      · cases hg'
    · exact (mFind_some h).2

theorem lookup_of_indexed {s : Mem} (hn : (s.segs.map (·.sid)).Nodup) {g : MSeg} (hg : g ∈ s.segs) :
    s.lookup g.sid = some g := by
  unfold Mem.lookup
  rw [mFind_of_mem hn hg]

theorem mNextOf_some {l : List MSeg} {sid : Nat} {nx : MSeg} (h : mNextOf l sid = some nx) :
    ∃ pre g0 post, l = pre ++ g0 :: nx :: post ∧ g0.sid = sid := by
  induction l with
  | nil => simp [mNextOf] at h
  | cons a t ih =>
    cases t with
    | nil => simp [mNextOf] at h
    | cons b t' =>
      simp only [mNextOf] at h
      split at h
      · rename_i hs
        cases h
        exact ⟨[], a, t', rfl, by simpa using hs⟩
      · obtain ⟨pre, g0, post, e, hs⟩ := ih h
        exact ⟨a :: pre, g0, post, by rw [e]; rfl, hs⟩

theorem mcontig_adjacent {pre post : List MSeg} {g0 nx : MSeg} (h : MContig (pre ++ g0 :: nx :: post)) :
    g0.right = nx.left := (mcontig_suffix pre _ h).1

theorem MAofOk.congrReader {hb : Nat} {hi : Bytes} {r r' : MReader} {g : MSeg} (h : MAofOk hb hi r g)
    (hp : r'.pos = r.pos) (hs : r'.start = r.start) (ho : r'.out = r.out) : MAofOk hb hi r' g :=
  ⟨by rw [hp]; exact h.inl, by rw [hp]; exact h.inr, by rw [hs]; exact h.base, by rw [hs, hp]; exact h.ord,
   by rw [ho, hs, hp]; exact h.out⟩

/-- a reader whose copy-loop position is untouched keeps its clause -/
theorem StreamOk.touchReader {k : Bool} {l : List MSeg} {w : Option Nat} {rs : List MReader} {n hb : Nat} {hi : Bytes}
    (h : StreamOk k l w rs n hb hi) {r : MReader} (hr : r ∈ rs) (r' : MReader) (ha : r'.isAof = r.isAof)
    (hseg : r'.seg = r.seg) (hp : r'.pos = r.pos) (hs : r'.start = r.start) (ho : r'.out = r.out)
    (hrel : r'.released = false → r.released = false) : StreamOk k l w (mSetReader rs r') n hb hi := by
  apply h.setReader
  intro ha'
  obtain ⟨h1, h2⟩ := h.readers r hr (by rw [← ha]; exact ha')
  refine ⟨by rw [hseg]; exact h1, fun hr' g hg hsid => ?_⟩
  exact (h2 (hrel hr') g hg (by rw [← hseg]; exact hsid)).congrReader hp hs ho

theorem open_inv (s : Mem) (rid off : Nat) (hi : MemInv s) : MemInv (s.open rid off).1 := by
  unfold Mem.open
  split
  · exact hi
  · split
    · exact hi
    · cases hidx : s.indexAof off with
      | some g =>
        dsimp only
        refine ⟨?_, hi.rdb⟩
        have hst := hi.stream
        unfold StreamInv at hst ⊢
        dsimp only
        obtain ⟨hg, hl, hr⟩ := mem_indexAof_some hst.contig hidx
        apply hst.addReader
        intro _
        refine ⟨hst.bound g hg, fun _ g' hg' hs => ?_⟩
        have : g' = g := sid_unique hst.nodup hg' hg hs
        subst this
        exact ⟨hl, hr, Nat.le_trans (hst.segOk g' hg).lo hl, Nat.le_refl _, by simp⟩
      | none =>
        dsimp only
        cases hro : s.rdbOffered with
        | none => exact hi
        | some rd =>
          dsimp only
          split
          · cases hsg : rd.segs with
            | nil => exact hi
            | cons first rest =>
              dsimp only
              refine ⟨?_, hi.rdb⟩
              have hst := hi.stream
              unfold StreamInv at hst ⊢
              dsimp only
              apply hst.addReader
              intro h; cases h
          · exact hi

/-- the copy loop returns (or fails): the reader is released -/
theorem StreamOk.finishReader {k : Bool} {l : List MSeg} {w : Option Nat} {rs : List MReader} {n hb : Nat} {hi : Bytes}
    (h : StreamOk k l w rs n hb hi) {r : MReader} (hr : r ∈ rs) (st : RSt) :
    StreamOk k l w (mSetReader rs { r with st := st, released := true }) n hb hi := by
  apply h.setReader
  intro ha
  exact ⟨(h.readers r hr ha).1, fun hrel => by cases hrel⟩

theorem copyStep_inv (s : Mem) (rid : Nat) (hi : MemInv s) : MemInv (s.copyStep rid).1 := by
  have hst := hi.stream
  unfold StreamInv at hst
  unfold Mem.copyStep
  cases hfr : mFindReader s.readers rid with
  | none => exact hi
  | some r =>
    have hrm := mFindReader_mem hfr
    have fin : ∀ st, MemInv { s with readers := mSetReader s.readers { r with st := st, released := true } } :=
      fun st => ⟨hst.finishReader hrm st, hi.rdb⟩
    dsimp only
    split
    · exact hi
    · rename_i hrs
      simp only [Bool.or_eq_true, Bool.not_eq_true', not_or, Bool.not_eq_true, Bool.not_eq_false] at hrs
      split
      · exact fin _
      · cases hlk : s.lookup r.seg with
        | none => exact fin _
        | some g =>
          dsimp only
          split
          case isFalse hraf =>
            -- a snapshot reader: nothing is claimed of it here
            have hra : r.isAof = false := by simpa using hraf
            have snap : ∀ r' : MReader, r'.isAof = false → MemInv { s with readers := mSetReader s.readers r' } :=
              fun r' h' => ⟨hst.setReader r' (by intro h''; rw [h'] at h''; cases h''), hi.rdb⟩
            split
            · exact fin _
            · split
              · exact fin _
              · split
                · exact snap _ hra
                · split
                  · split
                    · exact fin _
                    · exact snap _ hra
                  · exact hi
          case isTrue hra =>
            split
            · exact fin _
            · rename_i hpl
              split
              · -- bytes of the held segment go to the pipe
                rename_i hbs
                refine ⟨?_, hi.rdb⟩
                show StreamOk true s.segs s.aofW (mSetReader s.readers _) s.nextSid s.hbase s.hist
                apply hst.setReader
                intro _
                obtain ⟨h1, h2⟩ := hst.readers r hrm hra
                refine ⟨h1, fun _ g' hg' hs => ?_⟩
                have hok := h2 hrs.1 g' hg' hs
                have : g = g' := by
                  have := lookup_of_indexed hst.nodup hg'
                  rw [hs, hlk] at this; cases this; rfl
                subst this
                have hseg := hst.segOk g hg'
                have hlen : (g.data.drop (r.pos - g.left)).length = g.right - r.pos := by
                  have := hok.inl; have := hok.inr; unfold MSeg.right at *; simp; omega
                refine ⟨by dsimp only; have := hok.inl; omega, by dsimp only; rw [hlen]; have := hok.inr; omega,
                  hok.base, by dsimp only; have := hok.ord; omega, ?_⟩
                dsimp only
                rw [hok.out, hlen]
                have hbs' : g.data.drop (r.pos - g.left) = (s.hist.drop (r.pos - s.hbase)).take (g.right - r.pos) := by
                  rw [hseg.data, List.drop_take, List.drop_drop]
                  have := hok.inl; have := hseg.lo; have := hok.inr
                  congr 1
                  · unfold MSeg.right; omega
                  · congr 1; omega
                rw [hbs']
                have e1 : r.pos - s.hbase = (r.start - s.hbase) + (r.pos - r.start) := by
                  have := hok.base; have := hok.ord; omega
                have e2 : r.pos + (g.right - r.pos) - r.start = (r.pos - r.start) + (g.right - r.pos) := by
                  have := hok.ord; have := hok.inr; omega
                rw [e1, e2]
                exact slice_glue _ _ _ _
              · rename_i hbs
                split
                · -- the segment is closed and drained: on to the next one
                  cases hnx : mNextOf s.segs g.sid with
                  | none => exact fin _
                  | some nx =>
                    dsimp only
                    refine ⟨?_, hi.rdb⟩
                    show StreamOk true s.segs s.aofW (mSetReader s.readers _) s.nextSid s.hbase s.hist
                    obtain ⟨pre, g0, post, hl, hs0⟩ := mNextOf_some hnx
                    have hg0 : g0 ∈ s.segs := by rw [hl]; simp
                    have hnxm : nx ∈ s.segs := by rw [hl]; simp
                    have hgs : g.sid = r.seg := lookup_sid hlk
                    have : g = g0 := by
                      have := lookup_of_indexed hst.nodup hg0
                      rw [hs0, hgs, hlk] at this; cases this; rfl
                    subst this
                    have hadj : g.right = nx.left := mcontig_adjacent (hl ▸ hst.contig)
                    obtain ⟨h1, h2⟩ := hst.readers r hrm hra
                    have hok := h2 hrs.1 g hg0 hgs
                    have hdr : g.data.length ≤ r.pos - g.left := by
                      have : g.data.drop (r.pos - g.left) = [] := by
                        simpa using hbs
                      exact List.drop_eq_nil_iff.mp this
                    have hpos : r.pos = g.right := by
                      have := hok.inl; have := hok.inr; unfold MSeg.right at *; omega
                    apply hst.setReader
                    intro _
                    refine ⟨hst.bound nx hnxm, fun _ g' hg' hs => ?_⟩
                    have : g' = nx := sid_unique hst.nodup hg' hnxm hs
                    subst this
                    exact ⟨by dsimp only; omega, by dsimp only; unfold MSeg.right at *; omega, hok.base, hok.ord, hok.out⟩
                · exact hi

theorem touch_inv (s : Mem) (hi : MemInv s) {r : MReader} (hr : r ∈ s.readers) (r' : MReader) (ha : r'.isAof = r.isAof)
    (hseg : r'.seg = r.seg) (hp : r'.pos = r.pos) (hs : r'.start = r.start) (ho : r'.out = r.out)
    (hrel : r'.released = false → r.released = false) :
    MemInv { s with readers := mSetReader s.readers r' } :=
  ⟨hi.stream.touchReader hr r' ha hseg hp hs ho hrel, hi.rdb⟩

theorem consume_inv (s : Mem) (rid n : Nat) (hi : MemInv s) : MemInv (s.consume rid n).1 := by
  unfold Mem.consume
  cases hfr : mFindReader s.readers rid with
  | none => exact hi
  | some r =>
    have hrm := mFindReader_mem hfr
    dsimp only
    split
    · exact touch_inv s hi hrm _ rfl rfl rfl rfl rfl (fun h => h)
    · split
      · exact touch_inv s hi hrm _ rfl rfl rfl rfl rfl (fun h => h)
      · split
        · split <;> exact hi
        · exact hi

theorem closeReader_inv (s : Mem) (rid : Nat) (hi : MemInv s) : MemInv (s.closeReader rid).1 := by
  unfold Mem.closeReader
  cases hfr : mFindReader s.readers rid with
  | none => exact hi
  | some r =>
    have hrm := mFindReader_mem hfr
    dsimp only
    split
    · exact touch_inv s hi hrm _ rfl rfl rfl rfl rfl (fun h => h)
    · exact touch_inv s hi hrm _ rfl rfl rfl rfl rfl (fun h => by cases h)

/-! ### a blocked writer tries again -/

theorem setPend_inv (s : Mem) (hi : MemInv s) (a r : Option Bytes) : MemInv { s with pendA := a, pendR := r } :=
  ⟨hi.stream, hi.rdb⟩

theorem retry_inv (s : Mem) (hi : MemInv s) : MemInv s.retry.1 := by
  unfold Mem.retry
  cases hpa : s.pendA with
  | some buf =>
    dsimp only
    cases haw : s.aofW with
    | none =>
      dsimp only
      have hs := hi.stream
      unfold StreamInv at hs; rw [haw] at hs
      exact ⟨hs, hi.rdb⟩
    | some cur =>
      dsimp only
      have h1 := appendAofLoop_inv (buf.length + 1) s buf 0 hi
      split <;> exact ⟨h1.stream, h1.rdb⟩
  | none =>
    dsimp only
    cases hpr : s.pendR with
    | none => exact hi
    | some buf =>
      dsimp only
      cases hr : s.rdb with
      | none =>
        dsimp only
        exact ⟨hi.stream, MRdbOk.none _⟩
      | some r =>
        dsimp only
        have hrk := hi.rdb
        rw [hr] at hrk
        split
        · exact ⟨hi.stream, hrk⟩
        · have h1 := (appendRdbLoop_inv (buf.length + 1) s buf 0 hi).1
          split
          · exact ⟨h1.stream, h1.rdb⟩
          · have h2 : MemInv { (Mem.appendRdbLoop (buf.length + 1) s buf 0).1 with pendR := none } := ⟨h1.stream, h1.rdb⟩
            split
            · split
              · exact (finishRdb_inv _ false h2).1
              · exact h2
            · exact h2

/-! ### every operation preserves the invariant -/

theorem mLastRight_eq (l : List MSeg) : mLastRight l = l.getLast?.map (·.right) := by
  induction l with
  | nil => rfl
  | cons a t ih =>
    cases t with
    | nil => rfl
    | cons b t' =>
      simp only [mLastRight, List.getLast?_cons_cons]
      exact ih

theorem MemInv.init (l m : Nat) : MemInv (Mem.init l m) :=
  ⟨StreamOk.empty _ _ _ _ (by intro r hr; cases hr), MRdbOk.none _⟩

theorem newAofWriter_tail (s s1 : Mem) (h1 : MemInv s1) (hs : StreamInv s) (hw : s1.aofW = some s.nextSid) :
    MemInv (match s.aofW with
      | some old => s1.finishAof old false
      | none => s1) := by
  cases haw : s.aofW with
  | none => exact h1
  | some old =>
    dsimp only
    refine (finishAof_inv s1 old false h1 ?_).1
    intro _ e
    rw [hw] at e; cases e
    obtain ⟨g, hg, hsid⟩ := hs.writer s.nextSid haw
    have := hs.bound g (List.mem_of_getLast? hg)
    omega

theorem step_inv (s : Mem) (op : MOp) (hi : MemInv s) : MemInv (s.step op).1 := by
  have hst := hi.stream
  unfold StreamInv at hst
  cases op with
  | setRunId id => exact ⟨hi.stream, hi.rdb⟩
  | delRunId id =>
    simp only [Mem.step]
    split
    · exact hi
    · have := (reset_inv s hi).1
      exact ⟨this.stream, this.rdb⟩
  | newRdbWriter off size =>
    simp only [Mem.step]
    obtain ⟨h1, hn, _⟩ := reset_inv s hi
    refine ⟨StreamOk.monoSid h1.stream (Nat.le_succ _), ?_⟩
    dsimp only
    refine ⟨?_, ?_, ?_, ?_, ?_, ?_⟩
    · intro r h; cases h; simp
    · intro r h; cases h; exact Or.inl rfl
    · intro r h _; cases h; simp [mBuffered]
    · intro r h; cases h; simp
    · intro r h g hg; cases h
      simp only [List.mem_singleton] at hg; subst hg
      show s.reset.nextSid < s.reset.nextSid + 1; omega
    · intro r h _; cases h
      exact ⟨_, rfl, rfl, rfl⟩
  | rdbAppend chunk =>
    simp only [Mem.step]
    have h1 := (appendRdbLoop_inv (chunk.length + 1) s chunk 0 hi).1
    split
    · exact hi
    · split
      · exact ⟨h1.stream, h1.rdb⟩
      · split
        · split
          · exact (finishRdb_inv _ false h1).1
          · exact h1
        · exact h1
  | rdbClose => exact (finishRdb_inv s false hi).1
  | rdbFail => exact (finishRdb_inv s true hi).1
  | newAofWriter off =>
    simp only [Mem.step]
    cases hlr : mLastRight s.segs with
    | some r =>
      dsimp only
      split
      · exact hi
      · rename_i hne
        have hro : r = off := by simpa using hne
        subst hro
        rw [mLastRight_eq] at hlr
        cases hl : s.segs.getLast? with
        | none => rw [hl] at hlr; cases hlr
        | some last =>
          rw [hl] at hlr
          simp at hlr
          have hend := hst.lastEnd last hl
          apply newAofWriter_tail s _ _ hi.stream rfl
          refine ⟨?_, hi.rdb.mono (Nat.le_succ _)⟩
          exact hst.pushSeg _ rfl rfl (by show r = _; rw [← hlr]; exact hend)
    | none =>
      dsimp only
      rw [mLastRight_eq] at hlr
      have hnil : s.segs = [] := by
        cases hs : s.segs with
        | nil => rfl
        | cons a t =>
          rw [hs] at hlr
          cases hg : (a :: t).getLast? with
          | none => simp at hg
          | some x => rw [hg] at hlr; simp at hlr
      apply newAofWriter_tail s _ _ hi.stream rfl
      refine ⟨?_, hi.rdb.mono (Nat.le_succ _)⟩
      have := (StreamOk.empty s.readers s.nextSid off [] hst.seg_bound).pushSeg
        { sid := s.nextSid, left := off, data := [], closed := false, next := none } rfl rfl (by simp)
      exact this
  | aofAppend chunk =>
    simp only [Mem.step]
    cases haw : s.aofW with
    | none => exact hi
    | some cur =>
      dsimp only
      have h1 := appendAofLoop_inv (chunk.length + 1) s chunk 0 hi
      split
      · exact hi
      · split
        · exact ⟨h1.stream, h1.rdb⟩
        · exact h1
  | aofClose =>
    simp only [Mem.step]
    cases haw : s.aofW with
    | none => exact hi
    | some cur => exact (finishAof_inv s cur true hi (by intro h; cases h)).1
  | openReader rid off => exact open_inv s rid off hi
  | startReader rid =>
    simp only [Mem.step]
    cases hfr : mFindReader s.readers rid with
    | none => exact hi
    | some r =>
      dsimp only
      split
      · exact hi
      · exact touch_inv s hi (mFindReader_mem hfr) _ rfl rfl rfl rfl rfl (fun h => h)
  | copyStep rid => exact copyStep_inv s rid hi
  | consume rid n => exact consume_inv s rid n hi
  | closeReader rid => exact closeReader_inv s rid hi
  | retryAppend => exact retry_inv s hi

theorem run_inv (s : Mem) (ops : List MOp) (hi : MemInv s) : MemInv (s.run ops) := by
  induction ops generalizing s with
  | nil => exact hi
  | cons op rest ih => exact ih _ (step_inv s op hi)

/-! ### the driver's settling (copy loops run until blocked, blocked writers retry) -/

theorem settleReader_inv (fuel : Nat) : ∀ (s : Mem) (rid : Nat), MemInv s → MemInv (Mem.settleReader fuel s rid) := by
  induction fuel with
  | zero => intro s rid hi; exact hi
  | succ fuel ih =>
    intro s rid hi
    simp only [Mem.settleReader]
    have h1 := copyStep_inv s rid hi
    split
    · exact ih _ rid h1
    · exact h1

theorem foldl_inv {α} (f : Mem → α → Mem) (hf : ∀ s a, MemInv s → MemInv (f s a)) (l : List α) :
    ∀ s, MemInv s → MemInv (l.foldl f s) := by
  induction l with
  | nil => intro s hi; exact hi
  | cons a t ih => intro s hi; exact ih _ (hf s a hi)

theorem settleReaders_inv (s : Mem) (hi : MemInv s) : MemInv s.settleReaders := by
  unfold Mem.settleReaders
  exact foldl_inv _ (fun acc r h => settleReader_inv _ acc r.id h) _ s hi

theorem settleLoop_inv (fuel : Nat) : ∀ (s : Mem), MemInv s → MemInv (Mem.settleLoop fuel s) := by
  induction fuel with
  | zero => intro s hi; exact hi
  | succ fuel ih =>
    intro s hi
    simp only [Mem.settleLoop]
    have h1 := retry_inv _ (settleReaders_inv s hi)
    split
    · exact ih _ h1
    · exact h1

theorem settle_inv (s : Mem) (hi : MemInv s) : MemInv s.settle := settleLoop_inv _ s hi

/-! ### what the invariant gives -/

theorem contig_head_le_last : ∀ (l : List MSeg) (x : MSeg), MContig (x :: l) → ∀ z, (x :: l).getLast? = some z →
    x.left ≤ z.right := by
  intro l
  induction l with
  | nil => intro x _ z hz; simp at hz; subst hz; unfold MSeg.right; omega
  | cons u us ihu =>
    intro x hcx z hz
    have hz' : (u :: us).getLast? = some z := by simpa [List.getLast?_cons_cons] using hz
    have := ihu u hcx.2 z hz'
    have := hcx.1
    unfold MSeg.right at *; omega

/-- the indexed segments, concatenated, are the written history from the first segment's offset -/
theorem flat_eq_slice {hb : Nat} {hi : Bytes} : ∀ (t : List MSeg) (a : MSeg),
    MContig (a :: t) → (∀ g ∈ a :: t, SegOk hb hi g) →
    ∀ last, (a :: t).getLast? = some last →
      (a :: t).flatMap (·.data) = (hi.drop (a.left - hb)).take (last.right - a.left) := by
  intro t
  induction t with
  | nil =>
    intro a hc hs last hl
    simp at hl; subst hl
    simp only [List.flatMap_cons, List.flatMap_nil, List.append_nil]
    have := (hs a (by simp)).data
    unfold MSeg.right
    rw [Nat.add_sub_cancel_left]
    exact this
  | cons b t' ih =>
    intro a hc hs last hl
    have hl' : (b :: t').getLast? = some last := by simpa [List.getLast?_cons_cons] using hl
    have ihb := ih b hc.2 (fun g hg => hs g (List.mem_cons_of_mem _ hg)) last hl'
    rw [List.flatMap_cons, ihb]
    have hf := hs a (by simp)
    have hadj : a.right = b.left := hc.1
    have hge : b.left ≤ last.right := contig_head_le_last t' b hc.2 last hl'
    rw [hf.data]
    have e1 : b.left - hb = (a.left - hb) + a.data.length := by
      have := hf.lo; unfold MSeg.right at hadj; omega
    have e2 : last.right - a.left = a.data.length + (last.right - b.left) := by
      unfold MSeg.right at hadj; omega
    rw [e1, e2]
    exact slice_glue _ _ _ _

theorem StreamOk.flat {k : Bool} {l : List MSeg} {w : Option Nat} {rs : List MReader} {n hb : Nat} {hi : Bytes}
    (h : StreamOk k l w rs n hb hi) (first : MSeg) (rest : List MSeg) (hl : l = first :: rest) :
    hb ≤ first.left ∧ l.flatMap (·.data) = hi.drop (first.left - hb) ∧
      first.left + (l.flatMap (·.data)).length = hb + hi.length := by
  have hne : l ≠ [] := by rw [hl]; simp
  obtain ⟨last, hlast⟩ : ∃ last, l.getLast? = some last := by
    cases hg : l.getLast? with
    | none => exact absurd (List.getLast?_eq_none_iff.mp hg) hne
    | some x => exact ⟨x, rfl⟩
  subst hl
  have hflat := flat_eq_slice rest first h.contig h.segOk last hlast
  have hend := h.lastEnd last hlast
  have hlo := (h.segOk first (by simp)).lo
  have hfl : first.left ≤ last.right := by
    have := (h.segOk first (by simp)).hi
    rw [hend]; unfold MSeg.right at this; omega
  have hfull : (hi.drop (first.left - hb)).take (last.right - first.left) = hi.drop (first.left - hb) := by
    apply List.take_of_length_le
    simp; omega
  refine ⟨hlo, by rw [hflat, hfull], ?_⟩
  rw [hflat, hfull]
  simp; omega

theorem runRev_eq (s : Mem) (hi : MemInv s) : s.runRev = s.segs.reverse := by
  unfold Mem.runRev
  rw [mContigRun_of_contig _ hi.stream.contig]

/-- what the cache holds is the suffix of the written history from its base -/
theorem mem_abs_bytes_eq (s : Mem) (hi : MemInv s) (hne : s.segs ≠ []) :
    s.hbase ≤ s.abs.base ∧ s.abs.bytes = s.hist.drop (s.abs.base - s.hbase) ∧
      s.abs.base + s.abs.bytes.length = s.hbase + s.hist.length := by
  cases hs : s.segs with
  | nil => exact absurd hs hne
  | cons first rest =>
    have hst := hi.stream
    unfold StreamInv at hst
    have hf := hst.flat first rest hs
    have hb : s.abs.base = first.left := by
      unfold Mem.abs
      dsimp only
      rw [runRev_eq s hi, hs]
      simp
    have hby : s.abs.bytes = s.segs.flatMap (·.data) := by
      unfold Mem.abs
      dsimp only
      rw [runRev_eq s hi, List.reverse_reverse]
    rw [hb, hby]
    exact hf

/-- an offset is reported valid exactly if a reader can be opened there -/
theorem mem_inRange_iff_open (s : Mem) (hi : MemInv s) (rid off : Nat) (hfresh : mFindReader s.readers rid = none) :
    s.inRange (off : Int) = true ↔ (s.open rid off).2 ≠ Out.notExist := by
  unfold Mem.open
  rw [hfresh]
  simp only [Option.isSome_none, Bool.false_eq_true, if_false]
  cases hin : s.inRange (off : Int) with
  | false => simp
  | true =>
    simp only [Bool.not_true, Bool.false_eq_true, if_false, true_iff]
    cases hidx : s.indexAof off with
    | some g => simp
    | none =>
      dsimp only
      unfold Mem.inRange at hin
      have hnn : ¬ ((off : Int) < 0) := by omega
      simp only [hnn, if_false, Int.toNat_natCast, hidx, Option.isSome_none, Bool.false_or] at hin
      cases hro : s.rdbOffered with
      | none => rw [hro] at hin; simp at hin
      | some rd =>
        rw [hro] at hin
        dsimp only at hin ⊢
        simp only [Bool.and_eq_true, decide_eq_true_eq] at hin
        have hle : off ≤ rd.left := by omega
        simp only [hle, if_true]
        have hrdb : s.rdb = some rd := by
          unfold Mem.rdbOffered at hro
          split at hro
          · rename_i r hr
            split at hro
            · cases hro; exact hr
            · cases hro
          · cases hro
        have := hi.rdb.nonempty rd hrdb
        cases hsg : rd.segs with
        | nil => exact absurd hsg this
        | cons first rest => simp

/-- the snapshot's own offset is valid only while the log starts there (or nothing is held) — a3509d3 -/
theorem snapshot_offset_valid (s : Mem) (rd : MRdb) (hro : s.rdbOffered = some rd)
    (hv : s.inRange (rd.left : Int) = true) : (s.indexAof rd.left).isSome = true ∨ s.segs = [] := by
  unfold Mem.inRange at hv
  have hnn : ¬ ((rd.left : Int) < 0) := by omega
  simp only [hnn, if_false, Int.toNat_natCast, hro, Bool.or_eq_true, Bool.and_eq_true, decide_eq_true_eq] at hv
  rcases hv with h | ⟨_, h⟩
  · exact Or.inl h
  · rcases h with h | h
    · omega
    · exact Or.inr (List.isEmpty_iff.mp h)

/-- an offered snapshot is being received or completely received, and every byte received is held -/
theorem offered_complete_or_live (s : Mem) (hi : MemInv s) (rd : MRdb) (hro : s.rdbOffered = some rd) :
    (rd.writing = true ∨ rd.size ≤ rd.written) ∧ mBuffered rd.segs = rd.written ∧ rd.segs ≠ [] := by
  have hrdb : s.rdb = some rd ∧ rd.replayable = true := by
    unfold Mem.rdbOffered at hro
    split at hro
    · rename_i r hr
      split at hro
      · rename_i hrep; cases hro; exact ⟨hr, hrep⟩
      · cases hro
    · cases hro
  exact ⟨hi.rdb.live rd hrdb.1, hi.rdb.whole rd hrdb.1 hrdb.2, hi.rdb.nonempty rd hrdb.1⟩

/-! ### the ghost history is tied to the appends -/

theorem aofRotate_hist (s : Mem) (cur : Nat) (seg : MSeg) (rotate : Bool) :
    (aofRotate s cur seg rotate).1.hbase = s.hbase ∧ (aofRotate s cur seg rotate).1.hist = s.hist := by
  unfold aofRotate; cases rotate <;> exact ⟨rfl, rfl⟩

theorem appendAofLoop_hist (fuel : Nat) : ∀ (s : Mem) (buf : Bytes) (done : Nat), MemInv s →
    (Mem.appendAofLoop fuel s buf done).1.hbase = s.hbase ∧ done ≤ (Mem.appendAofLoop fuel s buf done).2.1 ∧
    (Mem.appendAofLoop fuel s buf done).1.hist = s.hist ++ buf.take ((Mem.appendAofLoop fuel s buf done).2.1 - done) := by
  induction fuel with
  | zero => intro s buf done _; simp [Mem.appendAofLoop]
  | succ fuel ih =>
    intro s buf done hi
    rw [appendAofLoop_succ]
    split
    · simp
    · cases haw : s.aofW with
      | none => simp
      | some cur =>
        dsimp only
        cases hf : mFind s.segs cur with
        | none => simp
        | some seg =>
          dsimp only
          obtain ⟨h1, w1⟩ := aofRotate_inv s cur seg (pieceSpace s.logSize seg.data.length buf.length).2 hi haw hf
          obtain ⟨r1, r2⟩ := aofRotate_hist s cur seg (pieceSpace s.logSize seg.data.length buf.length).2
          obtain ⟨h2, f2⟩ := ensure_inv _ (pieceSpace s.logSize seg.data.length buf.length).1 h1
          split
          · refine ⟨by rw [f2.hbase, r1], Nat.le_refl _, ?_⟩
            dsimp only
            rw [f2.hist, r2]; simp
          · have h3 := aofPut_inv _ _ (buf.take (pieceSpace s.logSize seg.data.length buf.length).1) h2 (by rw [f2.aofW, w1])
            obtain ⟨i1, i2, i3⟩ := ih _ (buf.drop (pieceSpace s.logSize seg.data.length buf.length).1)
              (done + (buf.take (pieceSpace s.logSize seg.data.length buf.length).1).length) h3
            refine ⟨?_, by omega, ?_⟩
            · rw [i1]; show ((aofRotate s cur seg _).1.ensure _).1.hbase = _; rw [f2.hbase, r1]
            · rw [i3]
              show ((aofRotate s cur seg _).1.ensure _).1.hist ++ _ ++ _ = _
              rw [f2.hist, r2, List.append_assoc]
              congr 1
              -- take k buf ++ take (n - (done + |take k buf|)) (drop k buf) = take (n - done) buf
              generalize (pieceSpace s.logSize seg.data.length buf.length).1 = k at *
              generalize (Mem.appendAofLoop fuel _ (buf.drop k) (done + (buf.take k).length)).2.1 = n at *
              have hlen : (buf.take k).length = min k buf.length := by simp
              by_cases hk : k ≤ buf.length
              · have : n - done = k + (n - (done + (buf.take k).length)) := by
                  rw [hlen, Nat.min_eq_left hk] at i2 ⊢; omega
                rw [this, List.take_add]
              · have hk' : buf.length ≤ k := by omega
                rw [List.take_of_length_le hk', List.drop_of_length_le hk']
                simp
                exact (List.take_of_length_le (by rw [List.take_of_length_le hk'] at i2; omega)).symm

/-- how one operation may change the ghost history -/
inductive HistStep (s s' : Mem) : Prop where
  | same (hb : s'.hbase = s.hbase) (hh : s'.hist = s.hist)
  | appended (bytes : Bytes) (hb : s'.hbase = s.hbase) (hh : s'.hist = s.hist ++ bytes)
  | fresh (hh : s'.hist = [])

theorem Keeps.histStep {s s' : Mem} (k : Keeps s s') : HistStep s s' := .same k.hbase k.hist

theorem open_hist (s : Mem) (rid off : Nat) : (s.open rid off).1.hbase = s.hbase ∧ (s.open rid off).1.hist = s.hist := by
  unfold Mem.open
  repeat' split
  all_goals exact ⟨rfl, rfl⟩

theorem copyStep_hist (s : Mem) (rid : Nat) : (s.copyStep rid).1.hbase = s.hbase ∧ (s.copyStep rid).1.hist = s.hist := by
  simp only [Mem.copyStep]
  repeat' split
  all_goals exact ⟨rfl, rfl⟩

theorem consume_hist (s : Mem) (rid n : Nat) : (s.consume rid n).1.hbase = s.hbase ∧ (s.consume rid n).1.hist = s.hist := by
  unfold Mem.consume
  repeat' split
  all_goals exact ⟨rfl, rfl⟩

theorem closeReader_hist (s : Mem) (rid : Nat) : (s.closeReader rid).1.hbase = s.hbase ∧ (s.closeReader rid).1.hist = s.hist := by
  unfold Mem.closeReader
  repeat' split
  all_goals exact ⟨rfl, rfl⟩

theorem retry_histStep (s : Mem) (hi : MemInv s) :
    HistStep s s.retry.1 ∧ (∀ b, s.retry.1.hist = s.hist ++ b → b ≠ [] → ∃ buf k, s.pendA = some buf ∧ b = buf.take k) := by
  unfold Mem.retry
  cases hpa : s.pendA with
  | some buf =>
    dsimp only
    cases haw : s.aofW with
    | none =>
      dsimp only
      exact ⟨.same rfl rfl, fun b hb hne => by simp at hb; exact absurd hb hne⟩
    | some cur =>
      dsimp only
      obtain ⟨i1, i2, i3⟩ := appendAofLoop_hist (buf.length + 1) s buf 0 hi
      have key : ∀ b, (Mem.appendAofLoop (buf.length + 1) s buf 0).1.hist = s.hist ++ b → b ≠ [] →
          ∃ buf' k, some buf = some buf' ∧ b = buf'.take k := by
        intro b hb _
        rw [i3] at hb
        exact ⟨buf, _, rfl, (List.append_cancel_left hb).symm⟩
      split
      · exact ⟨.appended _ i1 i3, key⟩
      · exact ⟨.appended _ i1 i3, key⟩
  | none =>
    dsimp only
    have nob : ∀ (s' : Mem), s'.hist = s.hist → ∀ b, s'.hist = s.hist ++ b → b ≠ [] →
        ∃ buf k, (none : Option Bytes) = some buf ∧ b = buf.take k := by
      intro s' he b hb hne
      rw [he] at hb
      have : b = [] := by simpa using hb
      exact absurd this hne
    cases hpr : s.pendR with
    | none => exact ⟨.same rfl rfl, nob s rfl⟩
    | some buf =>
      dsimp only
      cases hr : s.rdb with
      | none => dsimp only; exact ⟨.same rfl rfl, nob _ rfl⟩
      | some r =>
        dsimp only
        split
        · exact ⟨.same rfl rfl, nob _ rfl⟩
        · obtain ⟨h1, k1⟩ := appendRdbLoop_inv (buf.length + 1) s buf 0 hi
          split
          · exact ⟨.same k1.hbase k1.hist, nob _ k1.hist⟩
          · have h2 : MemInv { (Mem.appendRdbLoop (buf.length + 1) s buf 0).1 with pendR := none } := ⟨h1.stream, h1.rdb⟩
            split
            · split
              · obtain ⟨_, k2, _⟩ := finishRdb_inv _ false h2
                exact ⟨.same (k2.hbase.trans k1.hbase) (k2.hist.trans k1.hist), nob _ (k2.hist.trans k1.hist)⟩
              · exact ⟨.same k1.hbase k1.hist, nob _ k1.hist⟩
            · exact ⟨.same k1.hbase k1.hist, nob _ k1.hist⟩

theorem pieceSpace_pos (logSize segLen bufLen : Nat) (hb : 0 < bufLen) : 0 < (pieceSpace logSize segLen bufLen).1 := by
  unfold pieceSpace
  split
  · exact hb
  · rename_i hl
    split
    · show 0 < min bufLen logSize; omega
    · rename_i hc
      show 0 < min bufLen (logSize - segLen); omega

theorem retry_same_of_no_pendA (s : Mem) (hi : MemInv s) (hpa : s.pendA = none) :
    s.retry.1.hbase = s.hbase ∧ s.retry.1.hist = s.hist := by
  unfold Mem.retry
  rw [hpa]
  dsimp only
  cases hpr : s.pendR with
  | none => exact ⟨rfl, rfl⟩
  | some buf =>
    dsimp only
    cases hr : s.rdb with
    | none => dsimp only; exact ⟨rfl, rfl⟩
    | some r =>
      dsimp only
      split
      · exact ⟨rfl, rfl⟩
      · obtain ⟨h1, k1⟩ := appendRdbLoop_inv (buf.length + 1) s buf 0 hi
        split
        · exact ⟨k1.hbase, k1.hist⟩
        · have h2 : MemInv { (Mem.appendRdbLoop (buf.length + 1) s buf 0).1 with pendR := none } := ⟨h1.stream, h1.rdb⟩
          split
          · split
            · obtain ⟨_, k2, _⟩ := finishRdb_inv _ false h2
              exact ⟨k2.hbase.trans k1.hbase, k2.hist.trans k1.hist⟩
            · exact ⟨k1.hbase, k1.hist⟩
          · exact ⟨k1.hbase, k1.hist⟩

/-- an append that is not blocked appends the whole chunk (the writer is attached, fuel suffices) -/
theorem appendAofLoop_complete (fuel : Nat) : ∀ (s : Mem) (buf : Bytes) (done : Nat), MemInv s → s.aofW.isSome = true →
    buf.length < fuel → (Mem.appendAofLoop fuel s buf done).2.2 = false →
    (Mem.appendAofLoop fuel s buf done).2.1 = done + buf.length := by
  induction fuel with
  | zero => intro s buf done _ _ hf; omega
  | succ fuel ih =>
    intro s buf done hi haw hf hnb
    rw [appendAofLoop_succ] at hnb ⊢
    by_cases hb : buf.isEmpty = true
    · simp only [hb, if_true]
      have : buf = [] := List.isEmpty_iff.mp hb
      simp [this]
    · simp only [hb, if_false, Bool.false_eq_true] at hnb ⊢
      cases hw : s.aofW with
      | none => rw [hw] at haw; cases haw
      | some cur =>
        rw [hw] at hnb
        dsimp only at hnb ⊢
        have hst := hi.stream
        obtain ⟨last, hlast, hsid⟩ := hst.writer cur hw
        have hfind : mFind s.segs cur = some last := by
          rw [← hsid]; exact mFind_of_mem hst.nodup (List.mem_of_getLast? hlast)
        rw [hfind] at hnb ⊢
        dsimp only at hnb ⊢
        obtain ⟨h1, w1⟩ := aofRotate_inv s cur last (pieceSpace s.logSize last.data.length buf.length).2 hi hw hfind
        obtain ⟨h2, f2⟩ := ensure_inv _ (pieceSpace s.logSize last.data.length buf.length).1 h1
        have hne : 0 < buf.length := by
          cases buf with
          | nil => simp at hb
          | cons x t => simp
        have hsp := pieceSpace_pos s.logSize last.data.length buf.length hne
        split at hnb
        · simp at hnb
        · rename_i hfit
          rw [if_neg hfit]
          have h3 := aofPut_inv _ _ (buf.take (pieceSpace s.logSize last.data.length buf.length).1) h2 (by rw [f2.aofW, w1])
          have hw3 : (aofPut ((aofRotate s cur last (pieceSpace s.logSize last.data.length buf.length).2).1.ensure
              (pieceSpace s.logSize last.data.length buf.length).1).1
              (aofRotate s cur last (pieceSpace s.logSize last.data.length buf.length).2).2
              (buf.take (pieceSpace s.logSize last.data.length buf.length).1)).aofW.isSome = true := by
            show (((aofRotate s cur last _).1.ensure _).1).aofW.isSome = true
            rw [f2.aofW, w1]; rfl
          have := ih _ (buf.drop (pieceSpace s.logSize last.data.length buf.length).1)
            (done + (buf.take (pieceSpace s.logSize last.data.length buf.length).1).length) h3 hw3
            (by simp; omega) hnb
          rw [this]
          simp
          omega

def MOp.resetsHistory : MOp → Bool
  | .newRdbWriter _ _ => true
  | .delRunId _ => true
  | .newAofWriter _ => true      -- the first writer of a history (nothing held)
  | _ => false

/-- **the ghost is tied.** One operation leaves the written history alone; or it is an
    `aofAppend chunk` that reports `.ok` and recorded the WHOLE chunk, or reports
    `.blocked n` and recorded exactly the first `n` bytes, the rest waiting in `pendA`;
    or it is the retry of such a blocked append and records a prefix of what was
    waiting (all of it, or the rest keeps waiting); or it is one of the three
    operations that start a new, empty history. -/
theorem step_hist (s : Mem) (op : MOp) (hi : MemInv s) :
    ((s.step op).1.hbase = s.hbase ∧ (s.step op).1.hist = s.hist) ∨
    (∃ chunk, op = .aofAppend chunk ∧ (s.step op).1.hbase = s.hbase ∧
        (((s.step op).2 = .ok ∧ (s.step op).1.hist = s.hist ++ chunk) ∨
         (∃ n, (s.step op).2 = .blocked n ∧ (s.step op).1.hist = s.hist ++ chunk.take n ∧
            (s.step op).1.pendA = some (chunk.drop n)))) ∨
    (∃ buf k, op = .retryAppend ∧ s.pendA = some buf ∧ (s.step op).1.hbase = s.hbase ∧
        (s.step op).1.hist = s.hist ++ buf.take k ∧
        ((s.step op).1.pendA = some (buf.drop k) ∨ (s.step op).1.pendA = none)) ∨
    ((s.step op).1.hist = [] ∧ op.resetsHistory = true) := by
  cases op with
  | setRunId id => exact Or.inl ⟨rfl, rfl⟩
  | delRunId id =>
    simp only [Mem.step]
    split
    · exact Or.inl ⟨rfl, rfl⟩
    · exact Or.inr (Or.inr (Or.inr ⟨rfl, rfl⟩))
  | newRdbWriter off size => exact Or.inr (Or.inr (Or.inr ⟨rfl, rfl⟩))
  | rdbAppend chunk =>
    simp only [Mem.step]
    obtain ⟨h1, k1⟩ := appendRdbLoop_inv (chunk.length + 1) s chunk 0 hi
    split
    · exact Or.inl ⟨rfl, rfl⟩
    · split
      · exact Or.inl ⟨k1.hbase, k1.hist⟩
      · split
        · split
          · obtain ⟨_, k2, _⟩ := finishRdb_inv _ false h1
            exact Or.inl ⟨k2.hbase.trans k1.hbase, k2.hist.trans k1.hist⟩
          · exact Or.inl ⟨k1.hbase, k1.hist⟩
        · exact Or.inl ⟨k1.hbase, k1.hist⟩
  | rdbClose =>
    obtain ⟨_, k2, _⟩ := finishRdb_inv s false hi
    exact Or.inl ⟨k2.hbase, k2.hist⟩
  | rdbFail =>
    obtain ⟨_, k2, _⟩ := finishRdb_inv s true hi
    exact Or.inl ⟨k2.hbase, k2.hist⟩
  | newAofWriter off =>
    simp only [Mem.step]
    have hst := hi.stream
    unfold StreamInv at hst
    have tail : ∀ (s1 : Mem), MemInv s1 → s1.aofW = some s.nextSid →
        (match s.aofW with
          | some old => s1.finishAof old false
          | none => s1).hbase = s1.hbase ∧
        (match s.aofW with
          | some old => s1.finishAof old false
          | none => s1).hist = s1.hist := by
      intro s1 h1 hw
      cases haw : s.aofW with
      | none => exact ⟨rfl, rfl⟩
      | some old =>
        dsimp only
        have := (finishAof_inv s1 old false h1 (by
          intro _ e
          rw [hw] at e; cases e
          obtain ⟨g, hg, hsid⟩ := hst.writer s.nextSid haw
          have := hst.bound g (List.mem_of_getLast? hg)
          omega)).2.1
        exact ⟨this.hbase, this.hist⟩
    cases hlr : mLastRight s.segs with
    | some r =>
      dsimp only
      split
      · exact Or.inl ⟨rfl, rfl⟩
      · rename_i hne
        have hro : r = off := by simpa using hne
        subst hro
        rw [mLastRight_eq] at hlr
        cases hl : s.segs.getLast? with
        | none => rw [hl] at hlr; cases hlr
        | some last =>
          rw [hl] at hlr; simp at hlr
          have hend := hst.lastEnd last hl
          have hs1 : MemInv { s with segs := s.segs ++ [{ sid := s.nextSid, left := r, data := [], closed := false, next := none }],
                                     aofW := some s.nextSid, nextSid := s.nextSid + 1 } :=
            ⟨hst.pushSeg _ rfl rfl (by show r = _; rw [← hlr]; exact hend), hi.rdb.mono (Nat.le_succ _)⟩
          have := tail _ hs1 rfl
          exact Or.inl ⟨this.1, this.2⟩
    | none =>
      dsimp only
      have hs1 : MemInv { s with segs := [{ sid := s.nextSid, left := off, data := [], closed := false, next := none }],
                                 aofW := some s.nextSid, nextSid := s.nextSid + 1, hbase := off, hist := [] } :=
        ⟨(StreamOk.empty s.readers s.nextSid off [] hst.seg_bound).pushSeg
            { sid := s.nextSid, left := off, data := [], closed := false, next := none } rfl rfl (by simp),
         hi.rdb.mono (Nat.le_succ _)⟩
      have := tail _ hs1 rfl
      exact Or.inr (Or.inr (Or.inr ⟨this.2, rfl⟩))
  | aofAppend chunk =>
    simp only [Mem.step]
    cases haw : s.aofW with
    | none => exact Or.inl ⟨rfl, rfl⟩
    | some cur =>
      dsimp only
      obtain ⟨i1, _, i3⟩ := appendAofLoop_hist (chunk.length + 1) s chunk 0 hi
      split
      · exact Or.inl ⟨rfl, rfl⟩
      · split
        · exact Or.inr (Or.inl ⟨chunk, rfl, i1, Or.inr ⟨_, rfl, by simpa using i3, rfl⟩⟩)
        · rename_i hnb
          have hc := appendAofLoop_complete (chunk.length + 1) s chunk 0 hi (by rw [haw]; rfl) (by omega)
            (by simpa using hnb)
          refine Or.inr (Or.inl ⟨chunk, rfl, i1, Or.inl ⟨rfl, ?_⟩⟩)
          rw [i3, hc]; simp
  | aofClose =>
    simp only [Mem.step]
    cases haw : s.aofW with
    | none => exact Or.inl ⟨rfl, rfl⟩
    | some cur =>
      have := (finishAof_inv s cur true hi (by intro h; cases h)).2.1
      exact Or.inl ⟨this.hbase, this.hist⟩
  | openReader rid off => exact Or.inl (open_hist s rid off)
  | startReader rid =>
    simp only [Mem.step]
    repeat' split
    all_goals exact Or.inl ⟨rfl, rfl⟩
  | copyStep rid => exact Or.inl (copyStep_hist s rid)
  | consume rid n => exact Or.inl (consume_hist s rid n)
  | closeReader rid => exact Or.inl (closeReader_hist s rid)
  | retryAppend =>
    simp only [Mem.step]
    cases hpa : s.pendA with
    | none => exact Or.inl (retry_same_of_no_pendA s hi hpa)
    | some buf =>
      unfold Mem.retry
      rw [hpa]
      dsimp only
      cases haw : s.aofW with
      | none => dsimp only; exact Or.inl ⟨rfl, rfl⟩
      | some cur =>
        dsimp only
        obtain ⟨i1, _, i3⟩ := appendAofLoop_hist (buf.length + 1) s buf 0 hi
        split
        · refine Or.inr (Or.inr (Or.inl ⟨buf, _, ?_, ?_, i1, by simpa using i3, Or.inl ?_⟩)) <;> first | rfl | trivial | simp
        · refine Or.inr (Or.inr (Or.inl ⟨buf, _, ?_, ?_, i1, by simpa using i3, Or.inr ?_⟩)) <;> first | rfl | trivial | simp

end GunYu.Store
