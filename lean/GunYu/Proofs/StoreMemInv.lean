/-
  C05, memory backend: the GLOBAL invariant of `GunYu.Store.Mem` over arbitrary
  operation lists (the analogue of `DInv` for the disk index), its preservation
  by every operation, and the refinement facts that follow from it.
-/
import GunYu.Model.Store
import GunYu.Proofs.StoreMem

namespace GunYu.Store
open GunYu

/-! ### contiguity of the indexed stream segments -/

def MContig : List MSeg → Prop
  | [] => True
  | [_] => True
  | g :: h :: rest => g.right = h.left ∧ MContig (h :: rest)

theorem MContig.tail {g : MSeg} {l : List MSeg} (h : MContig (g :: l)) : MContig l := by
  cases l with
  | nil => trivial
  | cons a t => exact h.2

theorem mcontig_append_single (l : List MSeg) (n : MSeg) :
    MContig (l ++ [n]) ↔ MContig l ∧ ∀ g, l.getLast? = some g → g.right = n.left := by
  induction l with
  | nil => simp [MContig]
  | cons a t ih =>
    cases t with
    | nil => simp [MContig]
    | cons b t' =>
      simp only [List.cons_append, MContig]
      have := ih
      simp only [List.cons_append] at this
      rw [this]
      simp [List.getLast?_cons_cons, and_assoc]

theorem mcontig_suffix (pre : List MSeg) (l : List MSeg) (h : MContig (pre ++ l)) : MContig l := by
  induction pre with
  | nil => exact h
  | cons a t ih => exact ih h.tail

/-- a map that keeps `left` and the data length keeps contiguity -/
theorem mcontig_map (f : MSeg → MSeg) (hl : ∀ g, (f g).left = g.left) (hr : ∀ g, (f g).right = g.right)
    (l : List MSeg) (h : MContig l) : MContig (l.map f) := by
  induction l with
  | nil => trivial
  | cons a t ih =>
    cases t with
    | nil => trivial
    | cons b t' =>
      simp only [List.map_cons, MContig]
      exact ⟨by rw [hr, hl]; exact h.1, ih h.2⟩

/-- the newest contiguous run of a contiguous list is the whole list -/
theorem mContigRun_of_contig (l : List MSeg) (h : MContig l) : mContigRun l = l := by
  induction l with
  | nil => rfl
  | cons a t ih =>
    cases t with
    | nil => rfl
    | cons b t' =>
      simp only [mContigRun]
      rw [ih h.2]
      simp [h.1]

/-- removing empty segments keeps contiguity, the first `left` and the last `right` -/
theorem mcontig_filter_empty (p : MSeg → Bool) (l : List MSeg) (h : MContig l)
    (he : ∀ g ∈ l, p g = false → g.data = []) :
    MContig (l.filter p) ∧
    (∀ a x, l.head? = some a → (l.filter p).head? = some x → x.left = a.left) ∧
    (∀ b y, l.getLast? = some b → (l.filter p).getLast? = some y → y.right = b.right) := by
  induction l with
  | nil => simp [MContig]
  | cons a t ih =>
    have iht := ih h.tail (fun g hg => he g (List.mem_cons_of_mem _ hg))
    obtain ⟨c1, c2, c3⟩ := iht
    have hstep : ∀ x, (t.filter p).head? = some x → x.left = a.right := by
      intro x hx
      cases t with
      | nil => simp at hx
      | cons b t' => rw [c2 b x rfl hx]; exact h.1.symm
    cases hp : p a with
    | true =>
      simp only [List.filter_cons, hp, if_true]
      refine ⟨?_, ?_, ?_⟩
      · cases hf : t.filter p with
        | nil => trivial
        | cons x xs =>
          refine ⟨(hstep x (by rw [hf]; rfl)).symm, ?_⟩
          rw [← hf]; exact c1
      · intro a' x ha hx; simp at ha hx; subst ha; subst hx; rfl
      · intro b y hb hy
        cases hf : t.filter p with
        | nil =>
          rw [hf] at hy; simp at hy; subst hy
          cases t with
          | nil => simp at hb; subst hb; rfl
          | cons b' t' =>
            -- everything after a was removed: all empty, so the last right equals a.right
            have hb' : (b' :: t').getLast? = some b := by simpa [List.getLast?_cons_cons] using hb
            -- by induction hypothesis shape we need a separate argument: use contiguity chain
            have key : ∀ (l : List MSeg) (s : MSeg), MContig (s :: l) → (∀ g ∈ l, g.data = []) →
                ∀ z, (s :: l).getLast? = some z → z.right = s.right := by
              intro l
              induction l with
              | nil => intro s _ _ z hz; simp at hz; subst hz; rfl
              | cons u us ihu =>
                intro s hc hall z hz
                have hz' : (u :: us).getLast? = some z := by simpa [List.getLast?_cons_cons] using hz
                have := ihu u hc.2 (fun g hg => hall g (List.mem_cons_of_mem _ hg)) z hz'
                rw [this]
                have hu : u.data = [] := hall u (List.mem_cons_self ..)
                have : u.right = u.left := by simp [MSeg.right, hu]
                rw [this]; exact hc.1.symm
            have hall : ∀ g ∈ b' :: t', g.data = [] := by
              intro g hg
              have hpg : p g = false := by
                have : g ∉ (b' :: t').filter p := by rw [hf]; simp
                simp only [List.mem_filter, not_and] at this
                cases hq : p g with
                | false => rfl
                | true => exact absurd hq (this hg)
              exact he g (List.mem_cons_of_mem _ hg) hpg
            exact (key (b' :: t') a h hall b hb).symm
        | cons x xs =>
          rw [hf] at hy
          have hy' : (t.filter p).getLast? = some y := by
            rw [hf]; simpa [List.getLast?_cons_cons] using hy
          cases t with
          | nil => simp at hf
          | cons b' t' =>
            have hb' : (b' :: t').getLast? = some b := by simpa [List.getLast?_cons_cons] using hb
            exact c3 b y hb' hy'
    | false =>
      simp only [List.filter_cons, hp]
      have ha : a.data = [] := he a (List.mem_cons_self ..) hp
      have har : a.right = a.left := by simp [MSeg.right, ha]
      refine ⟨c1, ?_, ?_⟩
      · intro a' x ha' hx; simp at ha'; subst ha'
        rw [hstep x hx, har]
      · intro b y hb hy
        cases t with
        | nil => simp at hy
        | cons b' t' =>
          have hb' : (b' :: t').getLast? = some b := by simpa [List.getLast?_cons_cons] using hb
          exact c3 b y hb' hy

theorem getLast?_append_cons' {α} (l : List α) (a : α) (t : List α) :
    (l ++ a :: t).getLast? = (a :: t).getLast? := by
  induction l with
  | nil => rfl
  | cons x xs ih =>
    cases xs with
    | nil => simp [List.getLast?_cons_cons]
    | cons y ys =>
      rw [List.cons_append, List.cons_append, List.getLast?_cons_cons]
      exact ih

/-! ### byte-slice algebra -/

theorem slice_append_left {α} (l p : List α) (a b : Nat) (h : a + b ≤ l.length) :
    ((l ++ p).drop a).take b = (l.drop a).take b := by
  rw [List.drop_append_of_le_length (by omega), List.take_append_of_le_length (by simp; omega)]

theorem slice_glue {α} (l : List α) (a b c : Nat) :
    (l.drop a).take b ++ (l.drop (a + b)).take c = (l.drop a).take (b + c) := by
  rw [← List.drop_drop]
  rw [List.take_add]

/-! ### segment lookups -/

theorem mFind_some {l : List MSeg} {sid : Nat} {g : MSeg} (h : mFind l sid = some g) : g ∈ l ∧ g.sid = sid := by
  unfold mFind at h
  exact ⟨List.mem_of_find?_eq_some h, by simpa using List.find?_some h⟩

theorem sid_unique {l : List MSeg} (hn : (l.map (·.sid)).Nodup) {a b : MSeg} (ha : a ∈ l) (hb : b ∈ l)
    (e : a.sid = b.sid) : a = b := by
  induction l with
  | nil => cases ha
  | cons x t ih =>
    simp only [List.map_cons, List.nodup_cons, List.mem_map, not_exists, not_and] at hn
    rcases List.mem_cons.mp ha with h1 | h1 <;> rcases List.mem_cons.mp hb with h2 | h2
    · rw [h1, h2]
    · subst h1; exact absurd e.symm (hn.1 b h2)
    · subst h2; exact absurd e (hn.1 a h1)
    · exact ih hn.2 h1 h2

theorem mFind_of_mem {l : List MSeg} (hn : (l.map (·.sid)).Nodup) {g : MSeg} (hg : g ∈ l) :
    mFind l g.sid = some g := by
  unfold mFind
  cases h : l.find? (·.sid == g.sid) with
  | none =>
    have := List.find?_eq_none.mp h g hg
    simp at this
  | some x =>
    have hx := List.mem_of_find?_eq_some h
    have hs : x.sid = g.sid := by simpa using List.find?_some h
    rw [sid_unique hn hx hg hs]

theorem mem_mUpdate {l : List MSeg} {sid : Nat} {f : MSeg → MSeg} {x : MSeg} :
    x ∈ mUpdate l sid f ↔ ∃ g ∈ l, x = if g.sid == sid then f g else g := by
  unfold mUpdate
  simp only [List.mem_map]
  constructor
  · rintro ⟨g, hg, rfl⟩; exact ⟨g, hg, rfl⟩
  · rintro ⟨g, hg, rfl⟩; exact ⟨g, hg, rfl⟩

theorem mUpdate_sids {l : List MSeg} {sid : Nat} {f : MSeg → MSeg} (hf : ∀ g, (f g).sid = g.sid) :
    (mUpdate l sid f).map (·.sid) = l.map (·.sid) := by
  unfold mUpdate
  rw [List.map_map]
  apply List.map_congr_left
  intro g _
  simp only [Function.comp]
  split <;> simp [hf]

theorem mUpdate_getLast? {l : List MSeg} {sid : Nat} {f : MSeg → MSeg} :
    (mUpdate l sid f).getLast? = l.getLast?.map (fun g => if g.sid == sid then f g else g) := by
  unfold mUpdate
  rw [List.getLast?_map]

/-! ### the stream part of the invariant -/

/-- an indexed segment holds the bytes of the written history at its offsets -/
structure SegOk (hbase : Nat) (hist : Bytes) (g : MSeg) : Prop where
  lo : hbase ≤ g.left
  hi : g.right ≤ hbase + hist.length
  data : g.data = (hist.drop (g.left - hbase)).take g.data.length

/-- a copy loop that holds the indexed segment `g`: it is inside `g`, and it has
    written to its pipe exactly the history's bytes `[start, pos)` -/
structure AofOk (hbase : Nat) (hist : Bytes) (r : MReader) (g : MSeg) : Prop where
  inl : g.left ≤ r.pos
  inr : r.pos ≤ g.right
  base : hbase ≤ r.start
  ord : r.start ≤ r.pos
  out : r.out = (hist.drop (r.start - hbase)).take (r.pos - r.start)

structure StreamOk (segs : List MSeg) (aofW : Option Nat) (readers : List MReader) (nextSid hbase : Nat)
    (hist : Bytes) : Prop where
  contig : MContig segs
  segOk : ∀ g ∈ segs, SegOk hbase hist g
  lastEnd : ∀ g, segs.getLast? = some g → g.right = hbase + hist.length
  nodup : (segs.map (·.sid)).Nodup
  bound : ∀ g ∈ segs, g.sid < nextSid
  writer : ∀ cur, aofW = some cur → ∃ g, segs.getLast? = some g ∧ g.sid = cur
  readers : ∀ r ∈ readers, r.isAof = true →
    r.seg < nextSid ∧ (r.released = false → ∀ g ∈ segs, g.sid = r.seg → AofOk hbase hist r g)

def StreamInv (s : Mem) : Prop := StreamOk s.segs s.aofW s.readers s.nextSid s.hbase s.hist

theorem StreamOk.empty (rs : List MReader) (n hb : Nat) (hi : Bytes) (hr : ∀ r ∈ rs, r.isAof = true → r.seg < n) :
    StreamOk [] none rs n hb hi where
  contig := trivial
  segOk := by intro g hg; cases hg
  lastEnd := by intro g hg; simp at hg
  nodup := by simp
  bound := by intro g hg; cases hg
  writer := by intro c hc; cases hc
  readers := by intro r hr' ha; exact ⟨hr r hr' ha, by intro _ g hg; cases hg⟩

/-- the collector: a prefix of segments none of which is the writer's goes -/
theorem StreamOk.dropPrefix {pre l : List MSeg} {w : Option Nat} {rs : List MReader} {n hb : Nat} {hi : Bytes}
    (h : StreamOk (pre ++ l) w rs n hb hi) (hw : ∀ g ∈ pre, w ≠ some g.sid) : StreamOk l w rs n hb hi where
  contig := mcontig_suffix pre l h.contig
  segOk := fun g hg => h.segOk g (List.mem_append_right _ hg)
  lastEnd := by
    intro g hg
    apply h.lastEnd
    cases l with
    | nil => simp at hg
    | cons a t => rw [getLast?_append_cons']; exact hg
  nodup := by
    have := h.nodup
    rw [List.map_append] at this
    exact (List.nodup_append.mp this).2.1
  bound := fun g hg => h.bound g (List.mem_append_right _ hg)
  writer := by
    intro cur hc
    obtain ⟨g, hg, hs⟩ := h.writer cur hc
    cases l with
    | nil =>
      simp at hg
      have := List.mem_of_getLast? hg
      exact absurd (by rw [hc, hs]) (hw g this)
    | cons a t =>
      rw [getLast?_append_cons'] at hg
      exact ⟨g, hg, hs⟩
  readers := by
    intro r hr ha
    obtain ⟨h1, h2⟩ := h.readers r hr ha
    exact ⟨h1, fun hrel g hg hs => h2 hrel g (List.mem_append_right _ hg) hs⟩

theorem StreamOk.seg_bound {l : List MSeg} {w : Option Nat} {rs : List MReader} {n hb : Nat} {hi : Bytes}
    (h : StreamOk l w rs n hb hi) : ∀ r ∈ rs, r.isAof = true → r.seg < n :=
  fun r hr ha => (h.readers r hr ha).1

theorem SegOk.congr {hb : Nat} {hi : Bytes} {g g' : MSeg} (h : SegOk hb hi g) (hl : g'.left = g.left)
    (hd : g'.data = g.data) : SegOk hb hi g' :=
  ⟨by rw [hl]; exact h.lo, by unfold MSeg.right at *; rw [hl, hd]; exact h.hi, by rw [hl, hd]; exact h.data⟩

theorem AofOk.congr {hb : Nat} {hi : Bytes} {r : MReader} {g g' : MSeg} (h : AofOk hb hi r g) (hl : g'.left = g.left)
    (hd : g'.data = g.data) : AofOk hb hi r g' :=
  ⟨by rw [hl]; exact h.inl, by unfold MSeg.right at *; rw [hl, hd]; exact h.inr, h.base, h.ord, h.out⟩

/-- closing segments (any map that keeps identity, offset and bytes) -/
theorem StreamOk.mapSegs {l : List MSeg} {w : Option Nat} {rs : List MReader} {n hb : Nat} {hi : Bytes}
    (h : StreamOk l w rs n hb hi) (f : MSeg → MSeg) (hs : ∀ g, (f g).sid = g.sid) (hl : ∀ g, (f g).left = g.left)
    (hd : ∀ g, (f g).data = g.data) : StreamOk (l.map f) w rs n hb hi where
  contig := mcontig_map f hl (fun g => by unfold MSeg.right; rw [hl, hd]) l h.contig
  segOk := by
    intro g hg
    obtain ⟨g0, hg0, rfl⟩ := List.mem_map.mp hg
    exact (h.segOk g0 hg0).congr (hl g0) (hd g0)
  lastEnd := by
    intro g hg
    rw [List.getLast?_map] at hg
    cases hlast : l.getLast? with
    | none => rw [hlast] at hg; simp at hg
    | some g0 =>
      rw [hlast] at hg; simp at hg; subst hg
      have := h.lastEnd g0 hlast
      unfold MSeg.right at *; rw [hl, hd]; exact this
  nodup := by
    have : (l.map f).map (·.sid) = l.map (·.sid) := by
      rw [List.map_map]; apply List.map_congr_left; intro g _; exact hs g
    rw [this]; exact h.nodup
  bound := by
    intro g hg
    obtain ⟨g0, hg0, rfl⟩ := List.mem_map.mp hg
    rw [hs]; exact h.bound g0 hg0
  writer := by
    intro cur hc
    obtain ⟨g, hg, hsid⟩ := h.writer cur hc
    exact ⟨f g, by rw [List.getLast?_map, hg]; rfl, by rw [hs]; exact hsid⟩
  readers := by
    intro r hr ha
    obtain ⟨h1, h2⟩ := h.readers r hr ha
    refine ⟨h1, fun hrel g hg hsid => ?_⟩
    obtain ⟨g0, hg0, rfl⟩ := List.mem_map.mp hg
    exact (h2 hrel g0 hg0 (by rw [← hs]; exact hsid)).congr (hl g0) (hd g0)

theorem mUpdate_eq_map (l : List MSeg) (sid : Nat) (f : MSeg → MSeg) :
    mUpdate l sid f = l.map (fun g => if g.sid == sid then f g else g) := rfl

theorem StreamOk.closeSeg {l : List MSeg} {w : Option Nat} {rs : List MReader} {n hb : Nat} {hi : Bytes}
    (h : StreamOk l w rs n hb hi) (cur : Nat) :
    StreamOk (mUpdate l cur (fun g => { g with closed := true })) w rs n hb hi := by
  rw [mUpdate_eq_map]
  apply h.mapSegs <;> intro g <;> split <;> rfl

/-- on a list with distinct identities, updating the last segment's identity touches only it -/
theorem mUpdate_last {init : List MSeg} {last : MSeg} (hn : ((init ++ [last]).map (·.sid)).Nodup)
    (f : MSeg → MSeg) : mUpdate (init ++ [last]) last.sid f = init ++ [f last] := by
  unfold mUpdate
  rw [List.map_append]
  congr 1
  · have : ∀ g ∈ init, g.sid ≠ last.sid := by
      intro g hg e
      have := sid_unique hn (List.mem_append_left _ hg) (List.mem_append_right _ (List.mem_singleton.mpr rfl)) e
      subst this
      rw [List.map_append, List.nodup_append] at hn
      exact hn.2.2 g.sid (List.mem_map.mpr ⟨g, hg, rfl⟩) g.sid (by simp) rfl
    conv => rhs; rw [← List.map_id init]
    apply List.map_congr_left
    intro g hg
    simp [this g hg]
  · simp

/-- the writer appends a piece to its (last) segment; the history records it -/
theorem StreamOk.appendPiece {l : List MSeg} {cur : Nat} {rs : List MReader} {n hb : Nat} {hi : Bytes}
    (h : StreamOk l (some cur) rs n hb hi) (piece : Bytes) :
    StreamOk (mUpdate l cur (fun g => { g with data := g.data ++ piece })) (some cur) rs n hb (hi ++ piece) := by
  obtain ⟨last, hlast, hsid⟩ := h.writer cur rfl
  obtain ⟨init, rfl⟩ := List.getLast?_eq_some_iff.mp hlast
  subst hsid
  rw [mUpdate_last h.nodup]
  have hL := h.segOk last (by simp)
  have hLE := h.lastEnd last hlast
  have hinit : ∀ g ∈ init, SegOk hb (hi ++ piece) g := by
    intro g hg
    have hg' := h.segOk g (List.mem_append_left _ hg)
    refine ⟨hg'.lo, by have := hg'.hi; simp; omega, ?_⟩
    rw [slice_append_left _ _ _ _ (by have := hg'.hi; have := hg'.lo; unfold MSeg.right at *; omega)]
    exact hg'.data
  have hrd : ∀ r g, AofOk hb hi r g → g.right ≤ hb + hi.length →
      r.out = ((hi ++ piece).drop (r.start - hb)).take (r.pos - r.start) := by
    intro r g hr hg
    rw [slice_append_left _ _ _ _ (by have := hr.inr; have := hr.base; have := hr.ord; omega)]
    exact hr.out
  constructor
  · rw [mcontig_append_single]
    have := (mcontig_append_single init last).mp h.contig
    exact ⟨this.1, this.2⟩
  · intro g hg
    rcases List.mem_append.mp hg with hg | hg
    · exact hinit g hg
    · rw [List.mem_singleton] at hg; subst hg
      refine ⟨hL.lo, by unfold MSeg.right at *; simp; omega, ?_⟩
      show last.data ++ piece = _
      have hfull : hi.drop (last.left - hb) = last.data := by
        have hd := hL.data
        have hlen : (hi.drop (last.left - hb)).length = last.data.length := by
          have := hL.lo; unfold MSeg.right at hLE; simp; omega
        rw [hd]; exact (List.take_of_length_le (by omega)).symm
      rw [List.drop_append_of_le_length (by have := hL.lo; unfold MSeg.right at hLE; dsimp only; omega), hfull]
      exact (List.take_of_length_le (by simp)).symm
  · intro g hg
    rw [getLast?_append_cons'] at hg
    simp at hg; subst hg
    unfold MSeg.right at *; simp; omega
  · have : (init ++ [({ last with data := last.data ++ piece } : MSeg)]).map (·.sid) = (init ++ [last]).map (·.sid) := by simp
    rw [this]; exact h.nodup
  · intro g hg
    rcases List.mem_append.mp hg with hg | hg
    · exact h.bound g (List.mem_append_left _ hg)
    · rw [List.mem_singleton] at hg; subst hg
      exact h.bound last (by simp)
  · intro c hc
    cases hc
    exact ⟨({ last with data := last.data ++ piece } : MSeg), by rw [getLast?_append_cons']; rfl, rfl⟩
  · intro r hr ha
    obtain ⟨h1, h2⟩ := h.readers r hr ha
    refine ⟨h1, fun hrel g hg hs => ?_⟩
    rcases List.mem_append.mp hg with hg | hg
    · have hok := h2 hrel g (List.mem_append_left _ hg) hs
      exact ⟨hok.inl, hok.inr, hok.base, hok.ord, hrd r g hok (h.segOk g (List.mem_append_left _ hg)).hi⟩
    · rw [List.mem_singleton] at hg; subst hg
      have hok := h2 hrel last (by simp) hs
      exact ⟨hok.inl, by have := hok.inr; unfold MSeg.right at *; simp; omega, hok.base, hok.ord, hrd r last hok hL.hi⟩

/-- a new, empty segment at the end of the history (rotation, new writer) -/
theorem StreamOk.pushSeg {l : List MSeg} {w : Option Nat} {rs : List MReader} {n hb : Nat} {hi : Bytes}
    (h : StreamOk l w rs n hb hi) (x : MSeg) (hs : x.sid = n) (hd : x.data = []) (hl : x.left = hb + hi.length) :
    StreamOk (l ++ [x]) (some n) rs (n + 1) hb hi where
  contig := by
    rw [mcontig_append_single]
    exact ⟨h.contig, fun g hg => by rw [h.lastEnd g hg, hl]⟩
  segOk := by
    intro g hg
    rcases List.mem_append.mp hg with hg | hg
    · exact h.segOk g hg
    · rw [List.mem_singleton] at hg; subst hg
      exact ⟨by omega, by unfold MSeg.right; rw [hd]; simp; omega, by rw [hd]; simp⟩
  lastEnd := by
    intro g hg
    rw [getLast?_append_cons'] at hg; simp at hg; subst hg
    unfold MSeg.right; rw [hd]; simp; exact hl
  nodup := by
    rw [List.map_append, List.nodup_append]
    refine ⟨h.nodup, by simp, ?_⟩
    intro a ha b hb' e
    simp at hb'; subst hb'
    obtain ⟨g, hg, rfl⟩ := List.mem_map.mp ha
    have := h.bound g hg
    omega
  bound := by
    intro g hg
    rcases List.mem_append.mp hg with hg | hg
    · have := h.bound g hg; omega
    · rw [List.mem_singleton] at hg; subst hg; omega
  writer := by
    intro c hc; cases hc
    exact ⟨x, by rw [getLast?_append_cons']; rfl, hs⟩
  readers := by
    intro r hr ha
    obtain ⟨h1, h2⟩ := h.readers r hr ha
    refine ⟨by omega, fun hrel g hg hsid => ?_⟩
    rcases List.mem_append.mp hg with hg | hg
    · exact h2 hrel g hg hsid
    · rw [List.mem_singleton] at hg; subst hg; omega

/-- an empty segment that is not the writer's leaves the index -/
theorem StreamOk.filterEmpty {l : List MSeg} {w : Option Nat} {rs : List MReader} {n hb : Nat} {hi : Bytes}
    (h : StreamOk l w rs n hb hi) (cur : Nat) (he : ∀ g ∈ l, g.sid = cur → g.data = []) (hw : w ≠ some cur) :
    StreamOk (l.filter (fun x => x.sid != cur)) w rs n hb hi := by
  obtain ⟨c1, _, c3⟩ := mcontig_filter_empty (fun x => x.sid != cur) l h.contig
    (fun g hg hp => he g hg (by simpa using hp))
  constructor
  · exact c1
  · intro g hg; exact h.segOk g (List.mem_filter.mp hg).1
  · intro y hy
    cases hl : l.getLast? with
    | none =>
      have : l = [] := by cases l with
        | nil => rfl
        | cons a t => simp [List.getLast?_eq_none_iff] at hl
      subst this; simp at hy
    | some b => rw [c3 b y hl hy]; exact h.lastEnd b hl
  · exact List.Nodup.sublist (List.Sublist.map _ List.filter_sublist) h.nodup
  · intro g hg; exact h.bound g (List.mem_filter.mp hg).1
  · intro c hc
    obtain ⟨g, hg, hs⟩ := h.writer c hc
    obtain ⟨init, rfl⟩ := List.getLast?_eq_some_iff.mp hg
    refine ⟨g, ?_, hs⟩
    rw [List.filter_append]
    have : [g].filter (fun x => x.sid != cur) = [g] := by
      have : g.sid ≠ cur := by intro e; apply hw; rw [hc, hs.symm, e]
      simp [this]
    rw [this, getLast?_append_cons']; rfl
  · intro r hr ha
    obtain ⟨h1, h2⟩ := h.readers r hr ha
    exact ⟨h1, fun hrel g hg hs => h2 hrel g (List.mem_filter.mp hg).1 hs⟩

/-- the writer goes (`mc.aofWriter = nil`) -/
theorem StreamOk.noWriter {l : List MSeg} {w : Option Nat} {rs : List MReader} {n hb : Nat} {hi : Bytes}
    (h : StreamOk l w rs n hb hi) : StreamOk l none rs n hb hi :=
  ⟨h.contig, h.segOk, h.lastEnd, h.nodup, h.bound, (by intro c hc; cases hc), h.readers⟩

/-! ### reader updates -/

theorem mem_mSetReader {rs : List MReader} {r x : MReader} (hx : x ∈ mSetReader rs r) : x ∈ rs ∨ x = r := by
  unfold mSetReader at hx
  obtain ⟨y, hy, rfl⟩ := List.mem_map.mp hx
  split
  · right; rfl
  · left; exact hy

theorem StreamOk.setReader {l : List MSeg} {w : Option Nat} {rs : List MReader} {n hb : Nat} {hi : Bytes}
    (h : StreamOk l w rs n hb hi) (r' : MReader)
    (hr' : r'.isAof = true → r'.seg < n ∧ (r'.released = false → ∀ g ∈ l, g.sid = r'.seg → AofOk hb hi r' g)) :
    StreamOk l w (mSetReader rs r') n hb hi :=
  ⟨h.contig, h.segOk, h.lastEnd, h.nodup, h.bound, h.writer, by
      intro r hr ha
      rcases mem_mSetReader hr with hr | rfl
      · exact h.readers r hr ha
      · exact hr' ha⟩

theorem StreamOk.addReader {l : List MSeg} {w : Option Nat} {rs : List MReader} {n hb : Nat} {hi : Bytes}
    (h : StreamOk l w rs n hb hi) (r' : MReader)
    (hr' : r'.isAof = true → r'.seg < n ∧ (r'.released = false → ∀ g ∈ l, g.sid = r'.seg → AofOk hb hi r' g)) :
    StreamOk l w (rs ++ [r']) n hb hi :=
  ⟨h.contig, h.segOk, h.lastEnd, h.nodup, h.bound, h.writer, by
      intro r hr ha
      rcases List.mem_append.mp hr with hr | hr
      · exact h.readers r hr ha
      · rw [List.mem_singleton] at hr; subst hr; exact hr' ha⟩

/-! ### the snapshot part of the invariant -/

structure RdbOk (ro : Option MRdb) (n : Nat) : Prop where
  nonempty : ∀ r, ro = some r → r.segs ≠ []
  live : ∀ r, ro = some r → r.writing = true ∨ r.size ≤ r.written
  whole : ∀ r, ro = some r → r.replayable = true → mBuffered r.segs = r.written
  nodup : ∀ r, ro = some r → (r.segs.map (·.sid)).Nodup
  bound : ∀ r, ro = some r → ∀ g ∈ r.segs, g.sid < n
  cur : ∀ r, ro = some r → r.writing = true → ∃ g, r.segs.getLast? = some g ∧ g.sid = r.cur ∧ g.closed = false

theorem RdbOk.none (n : Nat) : RdbOk none n :=
  ⟨(by intro r h; cases h), (by intro r h; cases h), (by intro r h; cases h), (by intro r h; cases h),
   (by intro r h; cases h), (by intro r h; cases h)⟩

theorem RdbOk.mono {ro : Option MRdb} {n m : Nat} (h : RdbOk ro n) (hnm : n ≤ m) : RdbOk ro m :=
  ⟨h.nonempty, h.live, h.whole, h.nodup, fun r hr g hg => Nat.lt_of_lt_of_le (h.bound r hr g hg) hnm, h.cur⟩

/-- the global invariant of the memory backend -/
structure MemInv (s : Mem) : Prop where
  stream : StreamInv s
  rdb : RdbOk s.rdb s.nextSid

/-- how the collector may change the snapshot -/
def RdbStep (a b : Option MRdb) : Prop :=
  b = a ∨ b = none ∨ ∃ r r', a = some r ∧ b = some r' ∧ r'.replayable = false ∧ r'.cur = r.cur ∧
    r'.writing = r.writing ∧ r'.size = r.size ∧ r'.written = r.written ∧ r'.left = r.left

theorem RdbStep.refl (a : Option MRdb) : RdbStep a a := Or.inl rfl

theorem RdbStep.trans {a b c : Option MRdb} (h1 : RdbStep a b) (h2 : RdbStep b c) : RdbStep a c := by
  rcases h2 with rfl | rfl | ⟨r, r', hb, hc, p1, p2, p3, p4, p5, p6⟩
  · exact h1
  · exact Or.inr (Or.inl rfl)
  · rcases h1 with rfl | rfl | ⟨q, q', ha, hb', q1, q2, q3, q4, q5, q6⟩
    · exact Or.inr (Or.inr ⟨r, r', hb, hc, p1, p2, p3, p4, p5, p6⟩)
    · cases hb
    · rw [hb'] at hb; cases hb
      exact Or.inr (Or.inr ⟨q, r', ha, hc, p1, by rw [p2, q2], by rw [p3, q3], by rw [p4, q4], by rw [p5, q5], by rw [p6, q6]⟩)

/-- what the collector leaves alone -/
structure GcFrame (s s' : Mem) : Prop where
  aofW : s'.aofW = s.aofW
  readers : s'.readers = s.readers
  nextSid : s'.nextSid = s.nextSid
  hbase : s'.hbase = s.hbase
  hist : s'.hist = s.hist
  logSize : s'.logSize = s.logSize
  maxSize : s'.maxSize = s.maxSize
  runId : s'.runId = s.runId
  pendA : s'.pendA = s.pendA
  pendR : s'.pendR = s.pendR
  rdb : RdbStep s.rdb s'.rdb
  segs : ∃ pre, s.segs = pre ++ s'.segs

theorem GcFrame.refl (s : Mem) : GcFrame s s :=
  ⟨rfl, rfl, rfl, rfl, rfl, rfl, rfl, rfl, rfl, rfl, RdbStep.refl _, ⟨[], rfl⟩⟩

theorem GcFrame.trans {a b c : Mem} (h1 : GcFrame a b) (h2 : GcFrame b c) : GcFrame a c :=
  ⟨h2.aofW.trans h1.aofW, h2.readers.trans h1.readers, h2.nextSid.trans h1.nextSid, h2.hbase.trans h1.hbase,
   h2.hist.trans h1.hist, h2.logSize.trans h1.logSize, h2.maxSize.trans h1.maxSize, h2.runId.trans h1.runId,
   h2.pendA.trans h1.pendA, h2.pendR.trans h1.pendR, h1.rdb.trans h2.rdb,
   by obtain ⟨p1, e1⟩ := h1.segs; obtain ⟨p2, e2⟩ := h2.segs; exact ⟨p1 ++ p2, by rw [e1, e2, List.append_assoc]⟩⟩

theorem gcAof_inv {s s' : Mem} (h : s.gcAof = some s') (hi : MemInv s) : MemInv s' ∧ GcFrame s s' := by
  unfold Mem.gcAof at h
  split at h
  · rename_i first rest hs
    split at h
    · rename_i hc
      simp only [Bool.and_eq_true, beq_iff_eq, bne_iff_ne, ne_eq] at hc
      simp at h; subst h
      refine ⟨⟨?_, hi.rdb⟩, ⟨rfl, rfl, rfl, rfl, rfl, rfl, rfl, rfl, rfl, rfl, RdbStep.refl _, ⟨[first], by simp [hs]⟩⟩⟩
      have hst := hi.stream
      unfold StreamInv at hst ⊢
      rw [hs] at hst
      exact StreamOk.dropPrefix (pre := [first]) hst (by intro g hg; rw [List.mem_singleton] at hg; subst hg; exact hc.2)
    · simp at h
  · simp at h

theorem gcRdb_inv {s s' : Mem} (h : s.gcRdb = some s') (hi : MemInv s) : MemInv s' ∧ GcFrame s s' := by
  unfold Mem.gcRdb at h
  split at h
  · rename_i r hr
    split at h
    · rename_i first rest hrs
      split at h
      · rename_i hc
        simp only [Bool.and_eq_true, beq_iff_eq] at hc
        simp at h; subst h
        have hR := hi.rdb
        refine ⟨⟨hi.stream, ?_⟩, ⟨rfl, rfl, rfl, rfl, rfl, rfl, rfl, rfl, rfl, rfl, ?_, ⟨[], rfl⟩⟩⟩
        · dsimp only
          cases rest with
          | nil => rw [if_pos rfl]; exact RdbOk.none _
          | cons x xs =>
            rw [if_neg (by simp)]
            have hnd := hR.nodup r hr
            rw [hrs] at hnd
            refine ⟨?_, ?_, ?_, ?_, ?_, ?_⟩
            · intro r' h'; cases h'; simp
            · intro r' h'; cases h'; exact hR.live r hr
            · intro r' h' hrep; cases h'; cases hrep
            · intro r' h'; cases h'
              simp only [List.map_cons, List.nodup_cons] at hnd ⊢
              exact hnd.2
            · intro r' h' g hg; cases h'
              exact hR.bound r hr g (by rw [hrs]; exact List.mem_cons_of_mem _ hg)
            · intro r' h' hw; cases h'
              obtain ⟨g, hg, hs1, hs2⟩ := hR.cur r hr hw
              rw [hrs, List.getLast?_cons_cons] at hg
              exact ⟨g, hg, hs1, hs2⟩
        · dsimp only
          cases rest with
          | nil => rw [if_pos rfl]; exact Or.inr (Or.inl rfl)
          | cons x xs =>
            rw [if_neg (by simp)]
            exact Or.inr (Or.inr ⟨r, _, hr, rfl, rfl, rfl, rfl, rfl, rfl, rfl⟩)
      · simp at h
    · simp at h
  · simp at h

theorem gcOnce_inv {s s' : Mem} (h : s.gcOnce = some s') (hi : MemInv s) : MemInv s' ∧ GcFrame s s' := by
  unfold Mem.gcOnce at h
  split at h
  · rename_i s1 h1
    simp at h; subst h
    exact gcAof_inv h1 hi
  · exact gcRdb_inv h hi

theorem gcLoop_inv (need fuel : Nat) (s : Mem) (hi : MemInv s) :
    MemInv (Mem.gcLoop need fuel s) ∧ GcFrame s (Mem.gcLoop need fuel s) := by
  induction fuel generalizing s with
  | zero => exact ⟨hi, GcFrame.refl s⟩
  | succ fuel ih =>
    simp only [Mem.gcLoop]
    split
    · cases hg : s.gcOnce with
      | none => exact ⟨hi, GcFrame.refl s⟩
      | some s' =>
        simp only []
        obtain ⟨h1, f1⟩ := gcOnce_inv hg hi
        obtain ⟨h2, f2⟩ := ih s' h1
        exact ⟨h2, f1.trans f2⟩
    · exact ⟨hi, GcFrame.refl s⟩

theorem gc_inv (s : Mem) (need : Nat) (hi : MemInv s) : MemInv (s.gc need) ∧ GcFrame s (s.gc need) := by
  unfold Mem.gc
  split
  · exact ⟨hi, GcFrame.refl s⟩
  · exact gcLoop_inv need _ s hi

theorem ensure_inv (s : Mem) (need : Nat) (hi : MemInv s) :
    MemInv (s.ensure need).1 ∧ GcFrame s (s.ensure need).1 := by
  unfold Mem.ensure
  split
  · exact ⟨hi, GcFrame.refl s⟩
  · exact gc_inv s need hi

/-! ### the stream writer -/

/-- the rotation inside `appendAof` -/
def aofRotate (s : Mem) (cur : Nat) (seg : MSeg) (rotate : Bool) : Mem × Nat :=
  if rotate then
    ({ s with segs := (mUpdate s.segs cur (fun g => { g with closed := true })) ++
                [{ sid := s.nextSid, left := seg.right, data := [], closed := false, next := none }],
              aofW := some s.nextSid, nextSid := s.nextSid + 1 }, s.nextSid)
  else (s, cur)

/-- one piece appended to the writer's segment -/
def aofPut (s2 : Mem) (cur1 : Nat) (piece : Bytes) : Mem :=
  { s2 with segs := mUpdate s2.segs cur1 (fun g => { g with data := g.data ++ piece }),
            total := s2.total + piece.length, hist := s2.hist ++ piece }

theorem appendAofLoop_succ (fuel : Nat) (s : Mem) (buf : Bytes) (done : Nat) :
    Mem.appendAofLoop (fuel + 1) s buf done =
      if buf.isEmpty then (s, done, false) else
      match s.aofW with
      | none => (s, done, false)
      | some cur =>
        match mFind s.segs cur with
        | none => (s, done, false)
        | some seg =>
          let ps := pieceSpace s.logSize seg.data.length buf.length
          let s1 := aofRotate s cur seg ps.2
          let e := s1.1.ensure ps.1
          if !e.2 then (e.1, done, true) else
          Mem.appendAofLoop fuel (aofPut e.1 s1.2 (buf.take ps.1)) (buf.drop ps.1) (done + (buf.take ps.1).length) := by
  rw [Mem.appendAofLoop]
  by_cases hb : buf.isEmpty = true
  · simp only [hb, if_true]
  · simp only [hb, if_false, Bool.false_eq_true]
    cases s.aofW with
    | none => rfl
    | some cur =>
      dsimp only
      cases mFind s.segs cur with
      | none => rfl
      | some seg =>
        generalize pieceSpace s.logSize seg.data.length buf.length = ps
        obtain ⟨space, rotate⟩ := ps
        dsimp only [aofRotate, aofPut]
        cases rotate <;> rfl

theorem aofRotate_inv (s : Mem) (cur : Nat) (seg : MSeg) (rotate : Bool) (hi : MemInv s) (hw : s.aofW = some cur)
    (hf : mFind s.segs cur = some seg) :
    MemInv (aofRotate s cur seg rotate).1 ∧ (aofRotate s cur seg rotate).1.aofW = some (aofRotate s cur seg rotate).2 := by
  unfold aofRotate
  cases rotate with
  | false => exact ⟨hi, hw⟩
  | true =>
    simp only [if_true]
    refine ⟨⟨?_, hi.rdb.mono (Nat.le_succ _)⟩, trivial⟩
    have hst := hi.stream
    unfold StreamInv at hst ⊢
    dsimp only
    obtain ⟨hm, hs⟩ := mFind_some hf
    obtain ⟨last, hlast, hls⟩ := hst.writer cur hw
    have : seg = last := sid_unique hst.nodup hm (List.mem_of_getLast? hlast) (by rw [hs, hls])
    subst this
    exact (hst.closeSeg cur).pushSeg _ rfl rfl (hst.lastEnd seg hlast)

theorem aofPut_inv (s2 : Mem) (cur1 : Nat) (piece : Bytes) (hi : MemInv s2) (hw : s2.aofW = some cur1) :
    MemInv (aofPut s2 cur1 piece) := by
  refine ⟨?_, hi.rdb⟩
  have hst := hi.stream
  unfold StreamInv at hst ⊢
  unfold aofPut
  dsimp only
  rw [hw] at hst ⊢
  exact hst.appendPiece piece

theorem appendAofLoop_inv (fuel : Nat) : ∀ (s : Mem) (buf : Bytes) (done : Nat), MemInv s →
    MemInv (Mem.appendAofLoop fuel s buf done).1 := by
  induction fuel with
  | zero => intro s buf done hi; exact hi
  | succ fuel ih =>
    intro s buf done hi
    rw [appendAofLoop_succ]
    split
    · exact hi
    · cases haw : s.aofW with
      | none => exact hi
      | some cur =>
        dsimp only
        cases hf : mFind s.segs cur with
        | none => exact hi
        | some seg =>
          dsimp only
          obtain ⟨h1, w1⟩ := aofRotate_inv s cur seg (pieceSpace s.logSize seg.data.length buf.length).2 hi haw hf
          obtain ⟨h2, f2⟩ := ensure_inv _ (pieceSpace s.logSize seg.data.length buf.length).1 h1
          split
          · exact h2
          · apply ih
            exact aofPut_inv _ _ _ h2 (by rw [f2.aofW, w1])

/-- what a step leaves of the ghost history / identities (used to chain steps) -/
structure Keeps (s s' : Mem) : Prop where
  nextSid : s.nextSid ≤ s'.nextSid
  hbase : s'.hbase = s.hbase
  hist : s'.hist = s.hist
  readers : s'.readers = s.readers

theorem GcFrame.keeps {s s' : Mem} (h : GcFrame s s') : Keeps s s' := ⟨Nat.le_of_eq h.nextSid.symm, h.hbase, h.hist, h.readers⟩

theorem Keeps.refl (s : Mem) : Keeps s s := ⟨Nat.le_refl _, rfl, rfl, rfl⟩

theorem Keeps.trans {a b c : Mem} (h1 : Keeps a b) (h2 : Keeps b c) : Keeps a c :=
  ⟨Nat.le_trans h1.nextSid h2.nextSid, h2.hbase.trans h1.hbase, h2.hist.trans h1.hist, h2.readers.trans h1.readers⟩

theorem gc_finish (X s : Mem) (n : Nat) (hX : MemInv X) (k : Keeps s X) (w : Option Nat) (hw : X.aofW = w) :
    MemInv (X.gc n) ∧ Keeps s (X.gc n) ∧ (X.gc n).aofW = w := by
  obtain ⟨h2, f2⟩ := gc_inv X n hX
  exact ⟨h2, k.trans f2.keeps, f2.aofW.trans hw⟩

theorem finishAof_inv (s : Mem) (cur : Nat) (isCurrent : Bool) (hi : MemInv s)
    (hw : isCurrent = false → s.aofW ≠ some cur) :
    MemInv (s.finishAof cur isCurrent) ∧ Keeps s (s.finishAof cur isCurrent) ∧
      (s.finishAof cur isCurrent).aofW = (if isCurrent then none else s.aofW) := by
  unfold Mem.finishAof
  have hst := hi.stream
  unfold StreamInv at hst
  have h1 : StreamOk (mUpdate s.segs cur (fun g => { g with closed := true })) (if isCurrent then none else s.aofW)
      s.readers s.nextSid s.hbase s.hist := by
    cases isCurrent with
    | true => exact (hst.closeSeg cur).noWriter
    | false => exact hst.closeSeg cur
  have hwne : (if isCurrent then none else s.aofW) ≠ some cur := by
    cases isCurrent with
    | true => simp
    | false => simpa using hw rfl
  dsimp only
  cases hf : mFind (mUpdate s.segs cur (fun g => { g with closed := true })) cur with
  | none =>
    dsimp only
    refine gc_finish _ s 0 ?_ ?_ _ ?_ <;> first | exact ⟨h1, hi.rdb⟩ | exact Keeps.refl _ | exact ⟨Nat.le_refl _, rfl, rfl, rfl⟩ | rfl
  | some g =>
    dsimp only
    cases he : g.data.isEmpty with
    | false =>
      simp only [Bool.false_eq_true, if_false]
      refine gc_finish _ s 0 ?_ ?_ _ ?_ <;> first | exact ⟨h1, hi.rdb⟩ | exact Keeps.refl _ | exact ⟨Nat.le_refl _, rfl, rfl, rfl⟩ | rfl
    | true =>
      simp only [if_true]
      have hempty : ∀ x ∈ mUpdate s.segs cur (fun g => { g with closed := true }), x.sid = cur → x.data = [] := by
        intro x hx hs
        obtain ⟨hgm, hgs⟩ := mFind_some hf
        have : x = g := sid_unique h1.nodup hx hgm (by rw [hs, hgs])
        subst this
        exact List.isEmpty_iff.mp he
      refine gc_finish _ s 0 ?_ ?_ _ ?_ <;> first | exact ⟨h1.filterEmpty cur hempty hwne, hi.rdb⟩ | exact Keeps.refl _ | exact ⟨Nat.le_refl _, rfl, rfl, rfl⟩ | rfl

theorem StreamOk.monoSid {l : List MSeg} {w : Option Nat} {rs : List MReader} {n m hb : Nat} {hi : Bytes}
    (h : StreamOk l w rs n hb hi) (hnm : n ≤ m) : StreamOk l w rs m hb hi :=
  ⟨h.contig, h.segOk, h.lastEnd, h.nodup, fun g hg => Nat.lt_of_lt_of_le (h.bound g hg) hnm, h.writer,
   fun r hr ha => ⟨Nat.lt_of_lt_of_le (h.readers r hr ha).1 hnm, (h.readers r hr ha).2⟩⟩

/-! ### reset -/

theorem reset_inv (s : Mem) (hi : MemInv s) : MemInv s.reset ∧ s.reset.nextSid = s.nextSid ∧ s.reset.readers = s.readers := by
  refine ⟨⟨?_, RdbOk.none _⟩, rfl, rfl⟩
  unfold StreamInv Mem.reset
  dsimp only
  exact StreamOk.empty _ _ _ _ hi.stream.seg_bound

/-! ### the snapshot writer -/

theorem mBuffered_append (a b : List MSeg) : mBuffered (a ++ b) = mBuffered a + mBuffered b := by
  unfold mBuffered; simp

theorem mBuffered_map_data (l : List MSeg) (f : MSeg → MSeg) (hd : ∀ g, (f g).data = g.data) :
    mBuffered (l.map f) = mBuffered l := by
  unfold mBuffered
  rw [List.map_map]
  congr 1
  apply List.map_congr_left
  intro g _; simp [Function.comp, hd]

theorem mUpdate_close_buffered (l : List MSeg) (sid : Nat) (f : MSeg → MSeg) (hd : ∀ g, (f g).data = g.data) :
    mBuffered (mUpdate l sid f) = mBuffered l := by
  rw [mUpdate_eq_map]
  apply mBuffered_map_data
  intro g; split
  · exact hd g
  · rfl

theorem finishRdb_inv (s : Mem) (failed : Bool) (hi : MemInv s) :
    MemInv (s.finishRdb failed) ∧ Keeps s (s.finishRdb failed) ∧ (s.finishRdb failed).aofW = s.aofW ∧
      (s.finishRdb failed).segs = s.segs := by
  unfold Mem.finishRdb
  cases hr : s.rdb with
  | none => exact ⟨hi, Keeps.refl _, rfl, rfl⟩
  | some r =>
    dsimp only
    cases hw : r.writing with
    | false =>
      simp only [Bool.not_false, if_true]
      refine ⟨hi, ⟨?_, ?_, ?_, ?_⟩, ?_, ?_⟩ <;> first | rfl | trivial | exact Nat.le_refl _
    | true =>
      simp only [Bool.not_true, Bool.false_eq_true, if_false]
      split
      · refine ⟨⟨hi.stream, RdbOk.none _⟩, ⟨?_, ?_, ?_, ?_⟩, ?_, ?_⟩ <;> first | rfl | trivial | exact Nat.le_refl _
      · rename_i hc
        simp only [Bool.or_eq_true, decide_eq_true_eq, not_or, Nat.not_lt] at hc
        refine ⟨⟨hi.stream, ?_⟩, ⟨Nat.le_refl _, rfl, rfl, rfl⟩, rfl, rfl⟩
        have hR := hi.rdb
        rw [hr] at hR
        dsimp only
        refine ⟨?_, ?_, ?_, ?_, ?_, ?_⟩
        · intro r' h'; cases h'
          have := hR.nonempty r rfl
          unfold mUpdate; simpa using this
        · intro r' h'; cases h'; exact Or.inr hc.2
        · intro r' h' hrep; cases h'
          dsimp only
          have := mUpdate_close_buffered r.segs r.cur (fun g => ({ g with closed := true } : MSeg)) (fun g => rfl)
          rw [this]
          exact hR.whole r rfl hrep
        · intro r' h'; cases h'
          dsimp only
          have := mUpdate_sids (l := r.segs) (sid := r.cur) (f := fun g => ({ g with closed := true } : MSeg)) (fun g => rfl)
          rw [this]
          exact hR.nodup r rfl
        · intro r' h' g hg; cases h'
          obtain ⟨g0, hg0, rfl⟩ := mem_mUpdate.mp hg
          have := hR.bound r rfl g0 hg0
          split <;> exact this
        · intro r' h' hw'; cases h'; cases hw'

/-- the snapshot after the rotation inside `appendRdb` -/
def rdbRotated (r : MRdb) (seg : MSeg) (n : Nat) : MRdb :=
  { r with segs := (mUpdate r.segs r.cur (fun g => { g with closed := true, next := some n })) ++
                     [{ sid := n, left := seg.right, data := [], closed := false, next := none }],
           cur := n }

def rdbRotate (s : Mem) (r : MRdb) (seg : MSeg) (rotate : Bool) : Mem × MRdb :=
  if rotate then
    ({ s with rdb := some (rdbRotated r seg s.nextSid), nextSid := s.nextSid + 1 }, rdbRotated r seg s.nextSid)
  else (s, r)

def rdbPut (s2 : Mem) (r2 : MRdb) (cur1 : Nat) (piece : Bytes) : Mem :=
  { s2 with rdb := some { r2 with segs := mUpdate r2.segs cur1 (fun g => { g with data := g.data ++ piece }),
                                  written := r2.written + piece.length },
            total := s2.total + piece.length }

theorem appendRdbLoop_succ (fuel : Nat) (s : Mem) (buf : Bytes) (done : Nat) :
    Mem.appendRdbLoop (fuel + 1) s buf done =
      if buf.isEmpty then (s, done, false) else
      match s.rdb with
      | none => (s, done, false)
      | some r =>
        if !r.writing then (s, done, false) else
        match mFind r.segs r.cur with
        | none => (s, done, false)
        | some seg =>
          let ps := pieceSpace s.logSize seg.data.length buf.length
          let s1 := rdbRotate s r seg ps.2
          let e := s1.1.ensure ps.1
          if !e.2 then (e.1, done, true) else
          match e.1.rdb with
          | none => (e.1, done, true)
          | some r2 =>
            Mem.appendRdbLoop fuel (rdbPut e.1 r2 s1.2.cur (buf.take ps.1)) (buf.drop ps.1)
              (done + (buf.take ps.1).length) := by
  rw [Mem.appendRdbLoop]
  dsimp only [rdbRotate, rdbPut, rdbRotated]
  by_cases hb : buf.isEmpty = true
  · simp only [hb, if_true]
  · simp only [hb, if_false, Bool.false_eq_true]
    cases s.rdb with
    | none => rfl
    | some r =>
      dsimp only
      cases r.writing with
      | false => rfl
      | true =>
        simp only [Bool.not_true, Bool.false_eq_true, if_false]
        cases mFind r.segs r.cur with
        | none => rfl
        | some seg =>
          cases (pieceSpace s.logSize seg.data.length buf.length).2 <;> rfl

theorem rdbRotate_inv (s : Mem) (r : MRdb) (seg : MSeg) (rotate : Bool) (hi : MemInv s) (hr : s.rdb = some r)
    (hw : r.writing = true) :
    MemInv (rdbRotate s r seg rotate).1 ∧ (rdbRotate s r seg rotate).1.rdb = some (rdbRotate s r seg rotate).2 ∧
      (rdbRotate s r seg rotate).2.writing = true ∧ Keeps s (rdbRotate s r seg rotate).1 ∧
      (rdbRotate s r seg rotate).1.aofW = s.aofW ∧ (rdbRotate s r seg rotate).1.segs = s.segs := by
  unfold rdbRotate
  cases rotate with
  | false => exact ⟨hi, hr, hw, Keeps.refl _, rfl, rfl⟩
  | true =>
    simp only [if_true]
    refine ⟨⟨?strm, ?rdbk⟩, ?_, hw, ⟨Nat.le_succ _, ?_, ?_, ?_⟩, ?_, ?_⟩
    case strm => exact StreamOk.monoSid hi.stream (Nat.le_succ _)
    case rdbk =>
      have hR := hi.rdb
      rw [hr] at hR
      dsimp only
      obtain ⟨last, hlast, hls, hlc⟩ := hR.cur r rfl hw
      have hsids : (mUpdate r.segs r.cur (fun g => ({ g with closed := true, next := some s.nextSid } : MSeg))).map (·.sid)
          = r.segs.map (·.sid) := mUpdate_sids (fun g => rfl)
      refine ⟨?_, ?_, ?_, ?_, ?_, ?_⟩
      · intro r' h'; cases h'; simp [rdbRotated]
      · intro r' h'; cases h'; exact Or.inl hw
      · intro r' h' hrep; cases h'
        simp only [rdbRotated, mBuffered_append]
        have := mUpdate_close_buffered r.segs r.cur (fun g => ({ g with closed := true, next := some s.nextSid } : MSeg)) (fun g => rfl)
        rw [this]
        have := hR.whole r rfl hrep
        simp [mBuffered] at this ⊢
        exact this
      · intro r' h'; cases h'
        simp only [rdbRotated, List.map_append, hsids]
        rw [List.nodup_append]
        refine ⟨hR.nodup r rfl, by simp, ?_⟩
        intro a ha b hb e
        simp at hb; subst hb
        obtain ⟨g, hg, rfl⟩ := List.mem_map.mp ha
        have := hR.bound r rfl g hg
        omega
      · intro r' h' g hg; cases h'
        simp only [rdbRotated] at hg
        rcases List.mem_append.mp hg with hg | hg
        · obtain ⟨g0, hg0, rfl⟩ := mem_mUpdate.mp hg
          have := hR.bound r rfl g0 hg0
          split
          · show g0.sid < s.nextSid + 1; omega
          · show g0.sid < s.nextSid + 1; omega
        · rw [List.mem_singleton] at hg; subst hg
          show s.nextSid < s.nextSid + 1; omega
      · intro r' h' _; cases h'
        exact ⟨_, by simp only [rdbRotated]; rw [getLast?_append_cons']; rfl, rfl, rfl⟩
    all_goals first | rfl | trivial

theorem rdbPut_inv (s2 : Mem) (r2 : MRdb) (piece : Bytes) (hi : MemInv s2) (hr : s2.rdb = some r2)
    (hw : r2.writing = true) : MemInv (rdbPut s2 r2 r2.cur piece) ∧ Keeps s2 (rdbPut s2 r2 r2.cur piece) := by
  refine ⟨⟨hi.stream, ?_⟩, ⟨Nat.le_refl _, rfl, rfl, rfl⟩⟩
  have hR := hi.rdb
  rw [hr] at hR
  unfold rdbPut
  dsimp only
  obtain ⟨last, hlast, hls, hlc⟩ := hR.cur r2 rfl hw
  obtain ⟨init, hinit⟩ := List.getLast?_eq_some_iff.mp hlast
  have hnd := hR.nodup r2 rfl
  have hupd : mUpdate r2.segs r2.cur (fun g => ({ g with data := g.data ++ piece } : MSeg)) =
      init ++ [({ last with data := last.data ++ piece } : MSeg)] := by
    rw [hinit, ← hls]
    rw [hinit] at hnd
    exact mUpdate_last hnd _
  refine ⟨?_, ?_, ?_, ?_, ?_, ?_⟩
  · intro r' h'; cases h'; dsimp only; rw [hupd]; simp
  · intro r' h'; cases h'; exact Or.inl hw
  · intro r' h' hrep; cases h'
    dsimp only
    have := hR.whole r2 rfl hrep
    rw [hupd, mBuffered_append]
    rw [hinit, mBuffered_append] at this
    simp [mBuffered] at this ⊢
    omega
  · intro r' h'; cases h'
    dsimp only
    rw [hupd]
    rw [hinit] at hnd
    simpa using hnd
  · intro r' h' g hg; cases h'
    dsimp only at hg
    rw [hupd] at hg
    rcases List.mem_append.mp hg with hg | hg
    · exact hR.bound r2 rfl g (by rw [hinit]; exact List.mem_append_left _ hg)
    · rw [List.mem_singleton] at hg; subst hg
      exact hR.bound r2 rfl last (by rw [hinit]; simp)
  · intro r' h' _; cases h'
    dsimp only
    rw [hupd]
    exact ⟨({ last with data := last.data ++ piece } : MSeg), by rw [getLast?_append_cons']; rfl, hls, hlc⟩

theorem appendRdbLoop_inv (fuel : Nat) : ∀ (s : Mem) (buf : Bytes) (done : Nat), MemInv s →
    MemInv (Mem.appendRdbLoop fuel s buf done).1 ∧ Keeps s (Mem.appendRdbLoop fuel s buf done).1 := by
  induction fuel with
  | zero => intro s buf done hi; exact ⟨hi, Keeps.refl _⟩
  | succ fuel ih =>
    intro s buf done hi
    rw [appendRdbLoop_succ]
    split
    · exact ⟨hi, Keeps.refl _⟩
    · cases hr : s.rdb with
      | none => exact ⟨hi, Keeps.refl _⟩
      | some r =>
        dsimp only
        cases hw : r.writing with
        | false => exact ⟨hi, Keeps.refl _⟩
        | true =>
          simp only [Bool.not_true, Bool.false_eq_true, if_false]
          cases hf : mFind r.segs r.cur with
          | none => exact ⟨hi, Keeps.refl _⟩
          | some seg =>
            dsimp only
            obtain ⟨h1, e1, w1, k1, _, _⟩ :=
              rdbRotate_inv s r seg (pieceSpace s.logSize seg.data.length buf.length).2 hi hr hw
            obtain ⟨h2, f2⟩ := ensure_inv _ (pieceSpace s.logSize seg.data.length buf.length).1 h1
            split
            · exact ⟨h2, k1.trans f2.keeps⟩
            · cases hr2 : ((rdbRotate s r seg (pieceSpace s.logSize seg.data.length buf.length).2).1.ensure
                  (pieceSpace s.logSize seg.data.length buf.length).1).1.rdb with
              | none => exact ⟨h2, k1.trans f2.keeps⟩
              | some r2 =>
                dsimp only
                -- the collector keeps the writer's current segment and the writing flag
                have hcw : r2.cur = (rdbRotate s r seg (pieceSpace s.logSize seg.data.length buf.length).2).2.cur ∧
                    r2.writing = true := by
                  rcases f2.rdb with h | h | ⟨q, q', hq, hq', _, hc, hwq, _⟩
                  · rw [hr2, e1] at h; cases h; exact ⟨rfl, w1⟩
                  · rw [hr2] at h; cases h
                  · rw [e1] at hq; cases hq
                    rw [hr2] at hq'; cases hq'
                    exact ⟨hc, by rw [hwq]; exact w1⟩
                rw [← hcw.1]
                obtain ⟨h3, k3⟩ := rdbPut_inv _ r2 (buf.take (pieceSpace s.logSize seg.data.length buf.length).1) h2 hr2 hcw.2
                obtain ⟨h4, k4⟩ := ih _ (buf.drop (pieceSpace s.logSize seg.data.length buf.length).1)
                  (done + (buf.take (pieceSpace s.logSize seg.data.length buf.length).1).length) h3
                exact ⟨h4, ((k1.trans f2.keeps).trans k3).trans k4⟩

/-! ### readers -/

theorem mFindReader_mem {rs : List MReader} {rid : Nat} {r : MReader} (h : mFindReader rs rid = some r) : r ∈ rs :=
  List.mem_of_find?_eq_some h

theorem indexAof_some {s : Mem} (hc : MContig s.segs) {off : Nat} {g : MSeg} (h : s.indexAof off = some g) :
    g ∈ s.segs ∧ g.left ≤ off ∧ off ≤ g.right := by
  unfold Mem.indexAof Mem.runRev at h
  have hm := List.mem_of_find?_eq_some h
  have hp := List.find?_some h
  rw [mContigRun_of_contig _ hc, List.mem_reverse] at hm
  simp only [Bool.and_eq_true, decide_eq_true_eq] at hp
  exact ⟨hm, hp.1, hp.2⟩

theorem lookup_sid {s : Mem} {sid : Nat} {g : MSeg} (h : s.lookup sid = some g) : g.sid = sid := by
  unfold Mem.lookup at h
  split at h
  · rename_i g' hg'; cases h; exact (mFind_some hg').2
  · split at h
    · rename_i g' hg'
      cases h
      split at hg'
      · exact (mFind_some hg').2
      · cases hg'
    · exact (mFind_some h).2

theorem lookup_of_indexed {s : Mem} (hn : (s.segs.map (·.sid)).Nodup) {g : MSeg} (hg : g ∈ s.segs) :
    s.lookup g.sid = some g := by
  unfold Mem.lookup
  rw [mFind_of_mem hn hg]

theorem mNextOf_some {l : List MSeg} {sid : Nat} {nx : MSeg} (h : mNextOf l sid = some nx) :
    ∃ pre g0 post, l = pre ++ g0 :: nx :: post ∧ g0.sid = sid := by
  induction l with
  | nil => simp [mNextOf] at h
  | cons a t ih =>
    cases t with
    | nil => simp [mNextOf] at h
    | cons b t' =>
      simp only [mNextOf] at h
      split at h
      · rename_i hs
        cases h
        exact ⟨[], a, t', rfl, by simpa using hs⟩
      · obtain ⟨pre, g0, post, e, hs⟩ := ih h
        exact ⟨a :: pre, g0, post, by rw [e]; rfl, hs⟩

theorem mcontig_adjacent {pre post : List MSeg} {g0 nx : MSeg} (h : MContig (pre ++ g0 :: nx :: post)) :
    g0.right = nx.left := (mcontig_suffix pre _ h).1

theorem AofOk.congrReader {hb : Nat} {hi : Bytes} {r r' : MReader} {g : MSeg} (h : AofOk hb hi r g)
    (hp : r'.pos = r.pos) (hs : r'.start = r.start) (ho : r'.out = r.out) : AofOk hb hi r' g :=
  ⟨by rw [hp]; exact h.inl, by rw [hp]; exact h.inr, by rw [hs]; exact h.base, by rw [hs, hp]; exact h.ord,
   by rw [ho, hs, hp]; exact h.out⟩

/-- a reader whose copy-loop position is untouched keeps its clause -/
theorem StreamOk.touchReader {l : List MSeg} {w : Option Nat} {rs : List MReader} {n hb : Nat} {hi : Bytes}
    (h : StreamOk l w rs n hb hi) {r : MReader} (hr : r ∈ rs) (r' : MReader) (ha : r'.isAof = r.isAof)
    (hseg : r'.seg = r.seg) (hp : r'.pos = r.pos) (hs : r'.start = r.start) (ho : r'.out = r.out)
    (hrel : r'.released = false → r.released = false) : StreamOk l w (mSetReader rs r') n hb hi := by
  apply h.setReader
  intro ha'
  obtain ⟨h1, h2⟩ := h.readers r hr (by rw [← ha]; exact ha')
  refine ⟨by rw [hseg]; exact h1, fun hr' g hg hsid => ?_⟩
  exact (h2 (hrel hr') g hg (by rw [← hseg]; exact hsid)).congrReader hp hs ho

theorem open_inv (s : Mem) (rid off : Nat) (hi : MemInv s) : MemInv (s.open rid off).1 := by
  unfold Mem.open
  split
  · exact hi
  · split
    · exact hi
    · cases hidx : s.indexAof off with
      | some g =>
        dsimp only
        refine ⟨?_, hi.rdb⟩
        have hst := hi.stream
        unfold StreamInv at hst ⊢
        dsimp only
        obtain ⟨hg, hl, hr⟩ := indexAof_some hst.contig hidx
        apply hst.addReader
        intro _
        refine ⟨hst.bound g hg, fun _ g' hg' hs => ?_⟩
        have : g' = g := sid_unique hst.nodup hg' hg hs
        subst this
        exact ⟨hl, hr, Nat.le_trans (hst.segOk g' hg).lo hl, Nat.le_refl _, by simp⟩
      | none =>
        dsimp only
        cases hro : s.rdbOffered with
        | none => exact hi
        | some rd =>
          dsimp only
          split
          · cases hsg : rd.segs with
            | nil => exact hi
            | cons first rest =>
              dsimp only
              refine ⟨?_, hi.rdb⟩
              have hst := hi.stream
              unfold StreamInv at hst ⊢
              dsimp only
              apply hst.addReader
              intro h; cases h
          · exact hi

/-- the copy loop returns (or fails): the reader is released -/
theorem StreamOk.finishReader {l : List MSeg} {w : Option Nat} {rs : List MReader} {n hb : Nat} {hi : Bytes}
    (h : StreamOk l w rs n hb hi) {r : MReader} (hr : r ∈ rs) (st : RSt) :
    StreamOk l w (mSetReader rs { r with st := st, released := true }) n hb hi := by
  apply h.setReader
  intro ha
  exact ⟨(h.readers r hr ha).1, fun hrel => by cases hrel⟩

theorem copyStep_inv (s : Mem) (rid : Nat) (hi : MemInv s) : MemInv (s.copyStep rid).1 := by
  have hst := hi.stream
  unfold StreamInv at hst
  unfold Mem.copyStep
  cases hfr : mFindReader s.readers rid with
  | none => exact hi
  | some r =>
    have hrm := mFindReader_mem hfr
    have fin : ∀ st, MemInv { s with readers := mSetReader s.readers { r with st := st, released := true } } :=
      fun st => ⟨hst.finishReader hrm st, hi.rdb⟩
    dsimp only
    split
    · exact hi
    · rename_i hrs
      simp only [Bool.or_eq_true, Bool.not_eq_true', not_or, Bool.not_eq_true, Bool.not_eq_false] at hrs
      split
      · exact fin _
      · cases hlk : s.lookup r.seg with
        | none => exact fin _
        | some g =>
          dsimp only
          split
          case isFalse hraf =>
            -- a snapshot reader: nothing is claimed of it here
            have hra : r.isAof = false := by simpa using hraf
            have snap : ∀ r' : MReader, r'.isAof = false → MemInv { s with readers := mSetReader s.readers r' } :=
              fun r' h' => ⟨hst.setReader r' (by intro h''; rw [h'] at h''; cases h''), hi.rdb⟩
            split
            · exact fin _
            · split
              · exact fin _
              · split
                · exact snap _ hra
                · split
                  · split
                    · exact fin _
                    · exact snap _ hra
                  · exact hi
          case isTrue hra =>
            split
            · exact fin _
            · rename_i hpl
              split
              · -- bytes of the held segment go to the pipe
                rename_i hbs
                refine ⟨?_, hi.rdb⟩
                show StreamOk s.segs s.aofW (mSetReader s.readers _) s.nextSid s.hbase s.hist
                apply hst.setReader
                intro _
                obtain ⟨h1, h2⟩ := hst.readers r hrm hra
                refine ⟨h1, fun _ g' hg' hs => ?_⟩
                have hok := h2 hrs.1 g' hg' hs
                have : g = g' := by
                  have := lookup_of_indexed hst.nodup hg'
                  rw [hs, hlk] at this; cases this; rfl
                subst this
                have hseg := hst.segOk g hg'
                have hlen : (g.data.drop (r.pos - g.left)).length = g.right - r.pos := by
                  have := hok.inl; have := hok.inr; unfold MSeg.right at *; simp; omega
                refine ⟨by dsimp only; have := hok.inl; omega, by dsimp only; rw [hlen]; have := hok.inr; omega,
                  hok.base, by dsimp only; have := hok.ord; omega, ?_⟩
                dsimp only
                rw [hok.out, hlen]
                have hbs' : g.data.drop (r.pos - g.left) = (s.hist.drop (r.pos - s.hbase)).take (g.right - r.pos) := by
                  rw [hseg.data, List.drop_take, List.drop_drop]
                  have := hok.inl; have := hseg.lo; have := hok.inr
                  congr 1
                  · unfold MSeg.right; omega
                  · congr 1; omega
                rw [hbs']
                have e1 : r.pos - s.hbase = (r.start - s.hbase) + (r.pos - r.start) := by
                  have := hok.base; have := hok.ord; omega
                have e2 : r.pos + (g.right - r.pos) - r.start = (r.pos - r.start) + (g.right - r.pos) := by
                  have := hok.ord; have := hok.inr; omega
                rw [e1, e2]
                exact slice_glue _ _ _ _
              · rename_i hbs
                split
                · -- the segment is closed and drained: on to the next one
                  cases hnx : mNextOf s.segs g.sid with
                  | none => exact fin _
                  | some nx =>
                    dsimp only
                    refine ⟨?_, hi.rdb⟩
                    show StreamOk s.segs s.aofW (mSetReader s.readers _) s.nextSid s.hbase s.hist
                    obtain ⟨pre, g0, post, hl, hs0⟩ := mNextOf_some hnx
                    have hg0 : g0 ∈ s.segs := by rw [hl]; simp
                    have hnxm : nx ∈ s.segs := by rw [hl]; simp
                    have hgs : g.sid = r.seg := lookup_sid hlk
                    have : g = g0 := by
                      have := lookup_of_indexed hst.nodup hg0
                      rw [hs0, hgs, hlk] at this; cases this; rfl
                    subst this
                    have hadj : g.right = nx.left := mcontig_adjacent (hl ▸ hst.contig)
                    obtain ⟨h1, h2⟩ := hst.readers r hrm hra
                    have hok := h2 hrs.1 g hg0 hgs
                    have hdr : g.data.length ≤ r.pos - g.left := by
                      have : g.data.drop (r.pos - g.left) = [] := by
                        simpa using hbs
                      exact List.drop_eq_nil_iff.mp this
                    have hpos : r.pos = g.right := by
                      have := hok.inl; have := hok.inr; unfold MSeg.right at *; omega
                    apply hst.setReader
                    intro _
                    refine ⟨hst.bound nx hnxm, fun _ g' hg' hs => ?_⟩
                    have : g' = nx := sid_unique hst.nodup hg' hnxm hs
                    subst this
                    exact ⟨by dsimp only; omega, by dsimp only; unfold MSeg.right at *; omega, hok.base, hok.ord, hok.out⟩
                · exact hi

theorem touch_inv (s : Mem) (hi : MemInv s) {r : MReader} (hr : r ∈ s.readers) (r' : MReader) (ha : r'.isAof = r.isAof)
    (hseg : r'.seg = r.seg) (hp : r'.pos = r.pos) (hs : r'.start = r.start) (ho : r'.out = r.out)
    (hrel : r'.released = false → r.released = false) :
    MemInv { s with readers := mSetReader s.readers r' } :=
  ⟨hi.stream.touchReader hr r' ha hseg hp hs ho hrel, hi.rdb⟩

theorem consume_inv (s : Mem) (rid n : Nat) (hi : MemInv s) : MemInv (s.consume rid n).1 := by
  unfold Mem.consume
  cases hfr : mFindReader s.readers rid with
  | none => exact hi
  | some r =>
    have hrm := mFindReader_mem hfr
    dsimp only
    split
    · exact touch_inv s hi hrm _ rfl rfl rfl rfl rfl (fun h => h)
    · split
      · exact touch_inv s hi hrm _ rfl rfl rfl rfl rfl (fun h => h)
      · split
        · split <;> exact hi
        · exact hi

theorem closeReader_inv (s : Mem) (rid : Nat) (hi : MemInv s) : MemInv (s.closeReader rid).1 := by
  unfold Mem.closeReader
  cases hfr : mFindReader s.readers rid with
  | none => exact hi
  | some r =>
    have hrm := mFindReader_mem hfr
    dsimp only
    split
    · exact touch_inv s hi hrm _ rfl rfl rfl rfl rfl (fun h => h)
    · exact touch_inv s hi hrm _ rfl rfl rfl rfl rfl (fun h => by cases h)

/-! ### a blocked writer tries again -/

theorem setPend_inv (s : Mem) (hi : MemInv s) (a r : Option Bytes) : MemInv { s with pendA := a, pendR := r } :=
  ⟨hi.stream, hi.rdb⟩

theorem retry_inv (s : Mem) (hi : MemInv s) : MemInv s.retry.1 := by
  unfold Mem.retry
  cases hpa : s.pendA with
  | some buf =>
    dsimp only
    cases haw : s.aofW with
    | none =>
      dsimp only
      have hs := hi.stream
      unfold StreamInv at hs; rw [haw] at hs
      exact ⟨hs, hi.rdb⟩
    | some cur =>
      dsimp only
      have h1 := appendAofLoop_inv (buf.length + 1) s buf 0 hi
      split <;> exact ⟨h1.stream, h1.rdb⟩
  | none =>
    dsimp only
    cases hpr : s.pendR with
    | none => exact hi
    | some buf =>
      dsimp only
      cases hr : s.rdb with
      | none =>
        dsimp only
        exact ⟨hi.stream, RdbOk.none _⟩
      | some r =>
        dsimp only
        have hrk := hi.rdb
        rw [hr] at hrk
        split
        · exact ⟨hi.stream, hrk⟩
        · have h1 := (appendRdbLoop_inv (buf.length + 1) s buf 0 hi).1
          split
          · exact ⟨h1.stream, h1.rdb⟩
          · have h2 : MemInv { (Mem.appendRdbLoop (buf.length + 1) s buf 0).1 with pendR := none } := ⟨h1.stream, h1.rdb⟩
            dsimp only
            split
            · split
              · exact (finishRdb_inv _ false h2).1
              · exact h2
            · exact h2

end GunYu.Store
