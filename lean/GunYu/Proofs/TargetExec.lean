/-
  Helper lemmas for C01/C02/C09: how the target executes what the sender sends.
-/
import GunYu.Model.Target
import GunYu.Proofs.SenderData
import GunYu.Proofs.SenderCp

namespace GunYu.Target
open GunYu GunYu.Sender

/-- requests that are neither MULTI nor EXEC brackets -/
def Plain : Req → Bool
  | .multi => false
  | .exec => false
  | _ => true

theorem execReq_queued (t : TState) (r : Req) : (execReq t r).queued = t.queued := by
  cases r <;> simp only [execReq]
  case cmd n a =>
    split
    · split
      · split <;> rfl
      · rfl
    · split <;> rfl

theorem foldl_execReq_queued (l : List Req) (t : TState) :
    (l.foldl execReq t).queued = t.queued := by
  induction l generalizing t with
  | nil => rfl
  | cons r l ih => simp only [List.foldl_cons]; rw [ih, execReq_queued]

/-- queueing: inside MULTI plain requests only accumulate -/
theorem applyLog_queue (body : List Req) (hb : ∀ r ∈ body, Plain r = true) (t : TState) (q : List Req)
    (hq : t.queued = some q) :
    applyLog t body = { t with queued := some (q ++ body) } := by
  induction body generalizing t q with
  | nil => cases t; simp_all [applyLog]
  | cons r body ih =>
    have hr : Plain r = true := hb r (List.mem_cons_self ..)
    have hstep : applyReq t r = { t with queued := some (q ++ [r]) } := by
      unfold applyReq; rw [hq]
      cases r <;> simp_all [Plain]
    unfold applyLog at ih ⊢
    rw [List.foldl_cons, hstep]
    rw [ih (fun r hr => hb r (List.mem_cons_of_mem _ hr)) _ (q ++ [r]) rfl]
    simp

/-- a MULTI … EXEC block executes its body atomically, in order -/
theorem applyLog_block (body : List Req) (hb : ∀ r ∈ body, Plain r = true) (t : TState)
    (hq : t.queued = none) :
    applyLog t ([Req.multi] ++ body ++ [Req.exec]) = body.foldl execReq t := by
  unfold applyLog
  rw [List.foldl_append, List.foldl_append]
  have h1 : [Req.multi].foldl applyReq t = { t with queued := some [] } := by
    simp [applyReq, hq]
  rw [h1]
  have h2 := applyLog_queue body hb { t with queued := some [] } [] rfl
  unfold applyLog at h2
  rw [h2]
  simp only [List.nil_append, List.foldl_cons, List.foldl_nil, applyReq]
  have : ({ t with queued := none } : TState) = t := by
    cases t; simp_all
  rw [this]

/-- outside MULTI plain requests execute one by one -/
theorem applyLog_plain (body : List Req) (hb : ∀ r ∈ body, Plain r = true) (t : TState)
    (hq : t.queued = none) :
    applyLog t body = body.foldl execReq t := by
  induction body generalizing t with
  | nil => rfl
  | cons r body ih =>
    have hr : Plain r = true := hb r (List.mem_cons_self ..)
    have hstep : applyReq t r = execReq t r := by
      unfold applyReq; rw [hq]
      cases r <;> simp_all [Plain]
    unfold applyLog at ih ⊢
    rw [List.foldl_cons, hstep, List.foldl_cons]
    exact ih (fun r hr => hb r (List.mem_cons_of_mem _ hr)) _ (by rw [execReq_queued, hq])

/-- a batch as the sender builds it: a plain body, optionally bracketed -/
def stripB : Batch → List Req
  | .multi :: rest => rest.dropLast
  | b => b

def WFBatch (b : Batch) : Prop :=
  ∃ body : List Req, (∀ r ∈ body, Plain r = true) ∧
    ((b = body) ∨ (b = [Req.multi] ++ body ++ [Req.exec]))

theorem plain_cmds (q : List Item) : ∀ r ∈ q.map (fun i => Req.cmd i.cmd i.args i.offset), Plain r = true := by
  intro r hr
  obtain ⟨i, _, rfl⟩ := List.mem_map.mp hr
  rfl

theorem plain_cpPart (c : SCfg) (s : SState) (u : Bool) (off : Int) :
    ∀ r ∈ cpPart c s u off, Plain r = true := by
  intro r hr
  unfold cpPart at hr
  split at hr
  · split at hr <;> simp at hr <;> rcases hr with rfl | rfl <;> rfl
  · cases hr

/-- the plain body of a flush -/
def sendBody (c : SCfg) (s : SState) (u : Bool) (off : Int) : List Req :=
  s.queue.map (fun i => Req.cmd i.cmd i.args i.offset) ++ cpPart c s u off

theorem plain_sendBody (c : SCfg) (s : SState) (u : Bool) (off : Int) :
    ∀ r ∈ sendBody c s u off, Plain r = true := by
  intro r hr
  rcases List.mem_append.mp hr with h | h
  · exact plain_cmds _ r h
  · exact plain_cpPart c s u off r h

theorem sendReqs_eq (c : SCfg) (s : SState) (tb u : Bool) (off : Int) :
    sendReqs c s tb u off =
      if tb then [Req.multi] ++ sendBody c s u off ++ [Req.exec] else sendBody c s u off := by
  unfold sendReqs sendBody
  cases tb <;> simp

theorem wf_sendReqs (c : SCfg) (s : SState) (tb u : Bool) (off : Int) :
    WFBatch (sendReqs c s tb u off) := by
  refine ⟨sendBody c s u off, plain_sendBody c s u off, ?_⟩
  rw [sendReqs_eq]
  cases tb <;> simp

/-- executing a well-formed batch = executing its body in order (atomically
    when bracketed) -/
theorem applyLog_wf (b : Batch) (t : TState) (hq : t.queued = none) (hb : WFBatch b) :
    ∃ body, (∀ r ∈ body, Plain r = true) ∧ applyLog t b = body.foldl execReq t ∧
      dataB b = dataB body ∧ Sender.cpOffsetsB b = Sender.cpOffsetsB body := by
  obtain ⟨body, hp, h | h⟩ := hb
  · exact ⟨body, hp, by rw [h]; exact applyLog_plain body hp t hq, by rw [h], by rw [h]⟩
  · refine ⟨body, hp, by rw [h]; exact applyLog_block body hp t hq, ?_, ?_⟩
    · rw [h]; simp [dataB, cmdOfReq, List.filterMap_append, List.filterMap]
    · rw [h]; simp [Sender.cpOffsetsB, Sender.cpOfReq, List.filterMap_append, List.filterMap]

end GunYu.Target
