/-
  C05, memory backend: snapshot readers. The model has no ghost for the snapshot's
  source bytes; what can be said — and is proved here for arbitrary operation
  lists — is that a copy loop replaying the OFFERED snapshot has written to its
  pipe exactly the first `pos` bytes the snapshot holds, in order
  (`SnapInv`, on top of `MemInv`).
-/
import GunYu.Proofs.StoreMemInv

namespace GunYu.Store
open GunYu

def mflat (l : List MSeg) : Bytes := l.flatMap (·.data)

/-- the `next` pointers of a snapshot's segments follow the list; the last one has none -/
def Linked : List MSeg → Prop
  | [] => True
  | [a] => a.next = none
  | a :: b :: rest => a.next = some b.sid ∧ Linked (b :: rest)

def rdbW (rd : MRdb) : Option Nat := if rd.writing then some rd.cur else none

theorem Linked.tail {a : MSeg} {l : List MSeg} (h : Linked (a :: l)) : Linked l := by
  cases l with
  | nil => trivial
  | cons b t => exact h.2

theorem linked_map (f : MSeg → MSeg) (hs : ∀ g, (f g).sid = g.sid) (hn : ∀ g, (f g).next = g.next) :
    ∀ l, Linked l → Linked (l.map f) := by
  intro l
  induction l with
  | nil => intro _; trivial
  | cons a t ih =>
    intro h
    cases t with
    | nil => simp only [List.map_cons, List.map_nil, Linked]; rw [hn]; exact h
    | cons b t' =>
      simp only [List.map_cons, Linked]
      exact ⟨by rw [hn, hs]; exact h.1, ih h.2⟩

theorem linked_snoc : ∀ (init : List MSeg) (last last' x : MSeg), Linked (init ++ [last]) → last'.sid = last.sid →
    last'.next = some x.sid → x.next = none → Linked (init ++ [last'] ++ [x]) := by
  intro init
  induction init with
  | nil => intro last last' x _ _ hn hx; exact ⟨hn, hx⟩
  | cons a t ih =>
    intro last last' x h hs hn hx
    cases t with
    | nil =>
      simp only [List.cons_append, List.nil_append, Linked] at h ⊢
      exact ⟨by rw [hs]; exact h.1, hn, hx⟩
    | cons b t' =>
      simp only [List.cons_append, Linked] at h ⊢
      exact ⟨h.1, ih last last' x h.2 hs hn hx⟩

theorem linked_adjacent : ∀ (pre : List MSeg) (a b : MSeg) (post : List MSeg), Linked (pre ++ a :: b :: post) →
    a.next = some b.sid := by
  intro pre
  induction pre with
  | nil => intro a b post h; exact h.1
  | cons x t ih => intro a b post h; exact ih a b post h.tail

theorem linked_last : ∀ (init : List MSeg) (last : MSeg), Linked (init ++ [last]) → last.next = none := by
  intro init
  induction init with
  | nil => intro last h; exact h
  | cons x t ih => intro last h; exact ih last h.tail

theorem mflat_append (a b : List MSeg) : mflat (a ++ b) = mflat a ++ mflat b := by
  unfold mflat; simp

theorem mflat_map (f : MSeg → MSeg) (hd : ∀ g, (f g).data = g.data) (l : List MSeg) : mflat (l.map f) = mflat l := by
  unfold mflat
  induction l with
  | nil => rfl
  | cons a t ih => simp only [List.map_cons, List.flatMap_cons, hd, ih]

/-- the copy loop writes the rest of the held segment to the pipe -/
theorem MAofOk.advance {hb : Nat} {hi : Bytes} {r : MReader} {g : MSeg} (hok : MAofOk hb hi r g) (hseg : SegOk hb hi g)
    (r' : MReader) (hp : r'.pos = r.pos + (g.data.drop (r.pos - g.left)).length) (hs : r'.start = r.start)
    (ho : r'.out = r.out ++ g.data.drop (r.pos - g.left)) : MAofOk hb hi r' g := by
  have hlen : (g.data.drop (r.pos - g.left)).length = g.right - r.pos := by
    have := hok.inl; have := hok.inr; unfold MSeg.right at *; simp; omega
  refine ⟨by rw [hp]; have := hok.inl; omega, by rw [hp, hlen]; have := hok.inr; omega,
    by rw [hs]; exact hok.base, by rw [hs, hp]; have := hok.ord; omega, ?_⟩
  rw [ho, hs, hp, hok.out, hlen]
  have hbs' : g.data.drop (r.pos - g.left) = (hi.drop (r.pos - hb)).take (g.right - r.pos) := by
    rw [hseg.data, List.drop_take, List.drop_drop]
    have := hok.inl; have := hseg.lo; have := hok.inr
    congr 1
    · unfold MSeg.right; omega
    · congr 1; omega
  rw [hbs']
  have e1 : r.pos - hb = (r.start - hb) + (r.pos - r.start) := by
    have := hok.base; have := hok.ord; omega
  have e2 : r.pos + (g.right - r.pos) - r.start = (r.pos - r.start) + (g.right - r.pos) := by
    have := hok.ord; have := hok.inr; omega
  rw [e1, e2]
  exact slice_glue _ _ _ _

/-- a drained segment: the copy loop stands at its end -/
theorem MAofOk.drained {hb : Nat} {hi : Bytes} {r : MReader} {g : MSeg} (hok : MAofOk hb hi r g)
    (he : g.data.drop (r.pos - g.left) = []) : r.pos = g.right := by
  have := List.drop_eq_nil_iff.mp he
  have := hok.inl; have := hok.inr; unfold MSeg.right at *; omega

/-! ### the invariant -/

structure SnapInv (s : Mem) : Prop where
  streamNext : ∀ g ∈ s.segs, g.next = none
  nextBound : ∀ g, (g ∈ s.heap ∨ ∃ rd, s.rdb = some rd ∧ g ∈ rd.segs) → ∀ n, g.next = some n → n < s.nextSid
  heapNext : ∀ g ∈ s.heap, ∀ rd, s.rdb = some rd → rd.replayable = true → ∀ b ∈ rd.segs, g.next ≠ some b.sid
  disj : ∀ rd, s.rdb = some rd → ∀ a ∈ s.segs, ∀ b ∈ rd.segs, a.sid ≠ b.sid
  linked : ∀ rd, s.rdb = some rd → Linked rd.segs
  sbound : ∀ r ∈ s.readers, r.isAof = false → r.seg < s.nextSid ∧ r.start = 0
  snap : ∀ rd, s.rdb = some rd → rd.replayable = true →
    StreamOk false rd.segs (rdbW rd) s.readers s.nextSid 0 (mflat rd.segs)

theorem SnapInv.init (l m : Nat) : SnapInv (Mem.init l m) :=
  ⟨(by intro g hg; cases hg), (by intro g hg; rcases hg with h | ⟨rd, h, _⟩ <;> cases h),
   (by intro g hg; cases hg), (by intro rd h; cases h), (by intro rd h; cases h), (by intro r hr; cases hr),
   (by intro rd h; cases h)⟩

/-! ### the collector -/

theorem gcAof_snap {s s' : Mem} (h : s.gcAof = some s') (hs : SnapInv s) : SnapInv s' := by
  unfold Mem.gcAof at h
  split at h
  · rename_i first rest hsg
    split at h
    · simp at h; subst h
      have hfn : first.next = none := hs.streamNext first (by rw [hsg]; simp)
      refine ⟨?_, ?_, ?_, ?_, hs.linked, hs.sbound, hs.snap⟩
      · intro g hg; exact hs.streamNext g (by rw [hsg]; exact List.mem_cons_of_mem _ hg)
      · intro g hg n hn
        rcases hg with hg | hg
        · rcases List.mem_cons.mp hg with rfl | hg
          · rw [hfn] at hn; cases hn
          · exact hs.nextBound g (Or.inl hg) n hn
        · exact hs.nextBound g (Or.inr hg) n hn
      · intro g hg rd hr hrep b hb
        rcases List.mem_cons.mp hg with rfl | hg
        · rw [hfn]; simp
        · exact hs.heapNext g hg rd hr hrep b hb
      · intro rd hr a ha b hb
        exact hs.disj rd hr a (by rw [hsg]; exact List.mem_cons_of_mem _ ha) b hb
    · simp at h
  · simp at h

theorem gcRdb_snap {s s' : Mem} (h : s.gcRdb = some s') (hs : SnapInv s) : SnapInv s' := by
  unfold Mem.gcRdb at h
  split at h
  · rename_i r hr
    split at h
    · rename_i first rest hrs
      split at h
      · simp at h; subst h
        have hsub : ∀ rd', (if rest = [] then none else some ({ r with segs := rest, replayable := false } : MRdb)) = some rd' →
            rd'.replayable = false ∧ rd'.segs = rest := by
          intro rd' h'
          split at h'
          · cases h'
          · cases h'; exact ⟨rfl, rfl⟩
        refine ⟨hs.streamNext, ?_, ?_, ?_, ?_, hs.sbound, ?_⟩
        · intro g hg n hn
          rcases hg with hg | ⟨rd', h', hg⟩
          · rcases List.mem_cons.mp hg with rfl | hg
            · exact hs.nextBound g (Or.inr ⟨r, hr, by rw [hrs]; simp⟩) n hn
            · exact hs.nextBound g (Or.inl hg) n hn
          · obtain ⟨_, e⟩ := hsub rd' h'
            exact hs.nextBound g (Or.inr ⟨r, hr, by rw [hrs]; rw [e] at hg; exact List.mem_cons_of_mem _ hg⟩) n hn
        · intro g _ rd' h' hrep
          obtain ⟨e, _⟩ := hsub rd' h'
          rw [e] at hrep; cases hrep
        · intro rd' h' a ha b hb
          obtain ⟨_, e⟩ := hsub rd' h'
          exact hs.disj r hr a ha b (by rw [hrs]; rw [e] at hb; exact List.mem_cons_of_mem _ hb)
        · intro rd' h'
          obtain ⟨_, e⟩ := hsub rd' h'
          have := hs.linked r hr
          rw [hrs] at this
          rw [e]; exact this.tail
        · intro rd' h' hrep
          obtain ⟨e, _⟩ := hsub rd' h'
          rw [e] at hrep; cases hrep
      · simp at h
    · simp at h
  · simp at h

theorem gcLoop_snap (need fuel : Nat) : ∀ s, SnapInv s → SnapInv (Mem.gcLoop need fuel s) := by
  induction fuel with
  | zero => intro s hs; exact hs
  | succ fuel ih =>
    intro s hs
    simp only [Mem.gcLoop]
    split
    · cases hg : s.gcOnce with
      | none => exact hs
      | some s' =>
        apply ih
        unfold Mem.gcOnce at hg
        split at hg
        · rename_i s1 h1; simp at hg; subst hg; exact gcAof_snap h1 hs
        · exact gcRdb_snap hg hs
    · exact hs

theorem gc_snap (s : Mem) (need : Nat) (hs : SnapInv s) : SnapInv (s.gc need) := by
  unfold Mem.gc
  split
  · exact hs
  · exact gcLoop_snap need _ s hs

theorem ensure_snap (s : Mem) (need : Nat) (hs : SnapInv s) : SnapInv (s.ensure need).1 := by
  unfold Mem.ensure
  split
  · exact hs
  · exact gc_snap s need hs

/-! ### the stream writer -/

theorem mUpdate_next {l : List MSeg} {sid : Nat} {f : MSeg → MSeg} (hn : ∀ g, (f g).next = g.next) {x : MSeg}
    (hx : x ∈ mUpdate l sid f) : ∃ g ∈ l, x.next = g.next ∧ (∀ h : ∀ g, (f g).sid = g.sid, x.sid = g.sid) := by
  obtain ⟨g, hg, rfl⟩ := mem_mUpdate.mp hx
  refine ⟨g, hg, ?_, ?_⟩
  · split
    · exact hn g
    · rfl
  · intro h; split
    · exact h g
    · rfl

theorem aofRotate_snap (s : Mem) (cur : Nat) (seg : MSeg) (rotate : Bool) (hi : MemInv s) (hs : SnapInv s) :
    SnapInv (aofRotate s cur seg rotate).1 := by
  unfold aofRotate
  cases rotate with
  | false => exact hs
  | true =>
    simp only [if_true]
    refine ⟨?_, ?_, hs.heapNext, ?_, hs.linked, ?_, ?_⟩
    · intro g hg
      rcases List.mem_append.mp hg with hg | hg
      · obtain ⟨g0, hg0, hn, _⟩ := mUpdate_next (f := fun g => ({ g with closed := true } : MSeg)) (fun _ => rfl) hg
        rw [hn]; exact hs.streamNext g0 hg0
      · rw [List.mem_singleton] at hg; subst hg; rfl
    · intro g hg n hn
      have := hs.nextBound g hg n hn
      show n < s.nextSid + 1; omega
    · intro rd hr a ha b hb
      rcases List.mem_append.mp ha with ha | ha
      · obtain ⟨g0, hg0, _, hsid⟩ := mUpdate_next (f := fun g => ({ g with closed := true } : MSeg)) (fun _ => rfl) ha
        rw [hsid (fun _ => rfl)]
        exact hs.disj rd hr g0 hg0 b hb
      · rw [List.mem_singleton] at ha; subst ha
        have := hi.rdb.bound rd hr b hb
        show s.nextSid ≠ b.sid; omega
    · intro r hr ha
      exact ⟨by have := (hs.sbound r hr ha).1; show r.seg < s.nextSid + 1; omega, (hs.sbound r hr ha).2⟩
    · intro rd hr hrep
      exact (hs.snap rd hr hrep).monoSid (Nat.le_succ _)

theorem aofPut_snap (s2 : Mem) (cur1 : Nat) (piece : Bytes) (hs : SnapInv s2) : SnapInv (aofPut s2 cur1 piece) := by
  unfold aofPut
  refine ⟨?_, hs.nextBound, hs.heapNext, ?_, hs.linked, hs.sbound, hs.snap⟩
  · intro g hg
    obtain ⟨g0, hg0, hn, _⟩ := mUpdate_next (f := fun g => ({ g with data := g.data ++ piece } : MSeg)) (fun _ => rfl) hg
    rw [hn]; exact hs.streamNext g0 hg0
  · intro rd hr a ha b hb
    obtain ⟨g0, hg0, _, hsid⟩ := mUpdate_next (f := fun g => ({ g with data := g.data ++ piece } : MSeg)) (fun _ => rfl) ha
    rw [hsid (fun _ => rfl)]
    exact hs.disj rd hr g0 hg0 b hb

theorem appendAofLoop_snap (fuel : Nat) : ∀ (s : Mem) (buf : Bytes) (done : Nat), MemInv s → SnapInv s →
    SnapInv (Mem.appendAofLoop fuel s buf done).1 := by
  induction fuel with
  | zero => intro s buf done _ hs; exact hs
  | succ fuel ih =>
    intro s buf done hi hs
    rw [appendAofLoop_succ]
    split
    · exact hs
    · cases haw : s.aofW with
      | none => exact hs
      | some cur =>
        dsimp only
        cases hf : mFind s.segs cur with
        | none => exact hs
        | some seg =>
          dsimp only
          obtain ⟨h1, w1⟩ := aofRotate_inv s cur seg (pieceSpace s.logSize seg.data.length buf.length).2 hi haw hf
          have s1 := aofRotate_snap s cur seg (pieceSpace s.logSize seg.data.length buf.length).2 hi hs
          obtain ⟨h2, f2⟩ := ensure_inv _ (pieceSpace s.logSize seg.data.length buf.length).1 h1
          have s2 := ensure_snap _ (pieceSpace s.logSize seg.data.length buf.length).1 s1
          split
          · exact s2
          · exact ih _ _ _ (aofPut_inv _ _ _ h2 (by rw [f2.aofW, w1])) (aofPut_snap _ _ _ s2)

/-- the state inside `finishAof` after the segment is closed -/
def finishAofClosed (s : Mem) (cur : Nat) (aw : Option Nat) : Mem :=
  { s with segs := mUpdate s.segs cur (fun g => { g with closed := true }),
           heap := mUpdate s.heap cur (fun g => { g with closed := true }),
           aofW := aw, pendA := none }

theorem finishAof_snap (s : Mem) (cur : Nat) (isCurrent : Bool) (hs : SnapInv s) : SnapInv (s.finishAof cur isCurrent) := by
  unfold Mem.finishAof
  dsimp only
  have close_next : ∀ (l : List MSeg) x, x ∈ mUpdate l cur (fun g => ({ g with closed := true } : MSeg)) →
      ∃ g ∈ l, x.next = g.next ∧ x.sid = g.sid := by
    intro l x hx
    obtain ⟨g0, hg0, hn, hsid⟩ := mUpdate_next (f := fun g => ({ g with closed := true } : MSeg)) (fun _ => rfl) hx
    exact ⟨g0, hg0, hn, hsid (fun _ => rfl)⟩
  -- the state after closing the segment
  have base : ∀ (aw : Option Nat), SnapInv (finishAofClosed s cur aw) := by
    intro aw
    unfold finishAofClosed
    refine ⟨?_, ?_, ?_, ?_, hs.linked, hs.sbound, hs.snap⟩
    · intro g hg
      obtain ⟨g0, hg0, hn, _⟩ := close_next _ g hg
      rw [hn]; exact hs.streamNext g0 hg0
    · intro g hg n hn
      rcases hg with hg | hg
      · obtain ⟨g0, hg0, hn', _⟩ := close_next _ g hg
        exact hs.nextBound g0 (Or.inl hg0) n (by rw [← hn']; exact hn)
      · exact hs.nextBound g (Or.inr hg) n hn
    · intro g hg rd hr hrep b hb
      obtain ⟨g0, hg0, hn', _⟩ := close_next _ g hg
      rw [hn']; exact hs.heapNext g0 hg0 rd hr hrep b hb
    · intro rd hr a ha b hb
      obtain ⟨g0, hg0, _, hsid⟩ := close_next _ a ha
      rw [hsid]; exact hs.disj rd hr g0 hg0 b hb
  cases hf : mFind (mUpdate s.segs cur (fun g => { g with closed := true })) cur with
  | none => exact gc_snap _ 0 (base _)
  | some g =>
    dsimp only
    split
    · apply gc_snap
      have hb := base (if isCurrent then none else s.aofW)
      have hgm := (mFind_some hf).1
      have hgn : g.next = none := hb.streamNext g hgm
      refine ⟨?_, ?_, ?_, ?_, hb.linked, hb.sbound, hb.snap⟩
      · intro x hx; exact hb.streamNext x (List.mem_filter.mp hx).1
      · intro x hx n hn
        rcases hx with hx | hx
        · rcases List.mem_cons.mp hx with rfl | hx
          · rw [hgn] at hn; cases hn
          · exact hb.nextBound x (Or.inl hx) n hn
        · exact hb.nextBound x (Or.inr hx) n hn
      · intro x hx rd hr hrep b hb'
        rcases List.mem_cons.mp hx with rfl | hx
        · rw [hgn]; simp
        · exact hb.heapNext x hx rd hr hrep b hb'
      · intro rd hr a ha b hb'
        exact hb.disj rd hr a (List.mem_filter.mp ha).1 b hb'
    · exact gc_snap _ 0 (base _)

/-! ### reset and the snapshot writer -/

theorem mCloseAll_mem {l : List MSeg} {x : MSeg} (hx : x ∈ mCloseAll l) : ∃ g ∈ l, x.next = g.next ∧ x.sid = g.sid := by
  unfold mCloseAll at hx
  obtain ⟨g, hg, rfl⟩ := List.mem_map.mp hx
  exact ⟨g, hg, rfl, rfl⟩

theorem reset_snap (s : Mem) (hs : SnapInv s) : SnapInv s.reset := by
  unfold Mem.reset
  refine ⟨?_, ?_, ?_, ?_, ?_, hs.sbound, ?_⟩
  · intro g hg; cases hg
  · intro g hg n hn
    rcases hg with hg | ⟨rd, h, _⟩
    · rcases List.mem_append.mp hg with hg | hg
      · obtain ⟨g0, hg0, hn', _⟩ := mCloseAll_mem hg
        rw [hn'] at hn
        rcases List.mem_append.mp hg0 with hg0 | hg0
        · rw [hs.streamNext g0 hg0] at hn; cases hn
        · cases hr : s.rdb with
          | none => rw [hr] at hg0; cases hg0
          | some rd => rw [hr] at hg0; exact hs.nextBound g0 (Or.inr ⟨rd, hr, hg0⟩) n hn
      · exact hs.nextBound g (Or.inl hg) n hn
    · cases h
  · intro g _ rd h; cases h
  · intro rd h; cases h
  · intro rd h; cases h
  · intro rd h; cases h

theorem rdbRotate_snap (s : Mem) (r : MRdb) (seg : MSeg) (rotate : Bool) (hi : MemInv s) (hs : SnapInv s)
    (hr : s.rdb = some r) (hw : r.writing = true) (hf : mFind r.segs r.cur = some seg) :
    SnapInv (rdbRotate s r seg rotate).1 := by
  unfold rdbRotate
  cases rotate with
  | false => exact hs
  | true =>
    simp only [if_true]
    have hR := hi.rdb
    rw [hr] at hR
    obtain ⟨last, hlast, hls, hlc⟩ := hR.cur r rfl hw
    obtain ⟨init, hinit⟩ := List.getLast?_eq_some_iff.mp hlast
    have hnd := hR.nodup r rfl
    have hseg : seg = last := by
      obtain ⟨hm, hsid⟩ := mFind_some hf
      exact sid_unique hnd hm (List.mem_of_getLast? hlast) (by rw [hsid, hls])
    subst hseg
    have hupd : mUpdate r.segs r.cur (fun g => ({ g with closed := true, next := some s.nextSid } : MSeg)) =
        init ++ [({ seg with closed := true, next := some s.nextSid } : MSeg)] := by
      rw [hinit, ← hls]; rw [hinit] at hnd; exact mUpdate_last hnd _
    have hsegs : (rdbRotated r seg s.nextSid).segs =
        init ++ [({ seg with closed := true, next := some s.nextSid } : MSeg)] ++
          [{ sid := s.nextSid, left := seg.right, data := [], closed := false, next := none }] := by
      unfold rdbRotated; dsimp only; rw [hupd]
    have hmem : ∀ b ∈ (rdbRotated r seg s.nextSid).segs, (∃ b0 ∈ r.segs, b.sid = b0.sid ∧ (b.next = b0.next ∨ b.next = some s.nextSid)) ∨
        (b.sid = s.nextSid ∧ b.next = none) := by
      intro b hb
      rw [hsegs] at hb
      rcases List.mem_append.mp hb with hb | hb
      · rcases List.mem_append.mp hb with hb | hb
        · exact Or.inl ⟨b, by rw [hinit]; exact List.mem_append_left _ hb, rfl, Or.inl rfl⟩
        · rw [List.mem_singleton] at hb; subst hb
          exact Or.inl ⟨seg, by rw [hinit]; simp, rfl, Or.inr rfl⟩
      · rw [List.mem_singleton] at hb; subst hb
        exact Or.inr ⟨rfl, rfl⟩
    refine ⟨hs.streamNext, ?_, ?_, ?_, ?_, ?_, ?_⟩
    · intro g hg n hn
      show n < s.nextSid + 1
      rcases hg with hg | ⟨rd, h', hg⟩
      · have := hs.nextBound g (Or.inl hg) n hn; omega
      · cases h'
        rcases hmem g hg with ⟨b0, hb0, _, hn' | hn'⟩ | ⟨_, hn'⟩
        · have := hs.nextBound b0 (Or.inr ⟨r, hr, hb0⟩) n (by rw [← hn']; exact hn); omega
        · rw [hn'] at hn; cases hn; omega
        · rw [hn'] at hn; cases hn
    · intro g hg rd h' hrep b hb
      cases h'
      have hrep' : r.replayable = true := hrep
      rcases hmem b hb with ⟨b0, hb0, hsid, _⟩ | ⟨hsid, _⟩
      · rw [hsid]; exact hs.heapNext g hg r hr hrep' b0 hb0
      · rw [hsid]
        intro e
        have := hs.nextBound g (Or.inl hg) s.nextSid e
        omega
    · intro rd h' a ha b hb
      cases h'
      rcases hmem b hb with ⟨b0, hb0, hsid, _⟩ | ⟨hsid, _⟩
      · rw [hsid]; exact hs.disj r hr a ha b0 hb0
      · rw [hsid]
        have := hi.stream.bound a ha
        omega
    · intro rd h'
      cases h'
      rw [hsegs]
      have := hs.linked r hr
      rw [hinit] at this
      exact linked_snoc init seg _ _ this rfl rfl rfl
    · intro r' hr' ha
      exact ⟨by have := (hs.sbound r' hr' ha).1; show r'.seg < s.nextSid + 1; omega, (hs.sbound r' hr' ha).2⟩
    · intro rd h' hrep
      cases h'
      have hrep' : r.replayable = true := hrep
      have hsn := hs.snap r hr hrep'
      have hwr : rdbW r = some r.cur := by unfold rdbW; rw [hw]; rfl
      rw [hwr] at hsn
      have hflat : mflat (rdbRotated r seg s.nextSid).segs = mflat r.segs := by
        rw [hsegs, hinit]
        simp [mflat]
      have hw' : rdbW (rdbRotated r seg s.nextSid) = some s.nextSid := by
        unfold rdbW rdbRotated; dsimp only; rw [hw]; rfl
      rw [hflat, hw']
      have h1 := hsn.mapSegs (fun g => if g.sid == r.cur then ({ g with closed := true, next := some s.nextSid } : MSeg) else g)
        (by intro g; split <;> rfl) (by intro g; split <;> rfl) (by intro g; split <;> rfl)
      have h2 := h1.pushSeg { sid := s.nextSid, left := seg.right, data := [], closed := false, next := none } rfl rfl
        (by show seg.right = 0 + (mflat r.segs).length; exact hsn.lastEnd seg hlast)
      exact h2

theorem rdbPut_snap (s2 : Mem) (r2 : MRdb) (piece : Bytes) (hi : MemInv s2) (hs : SnapInv s2) (hr : s2.rdb = some r2)
    (hw : r2.writing = true) : SnapInv (rdbPut s2 r2 r2.cur piece) := by
  have hR := hi.rdb
  rw [hr] at hR
  obtain ⟨last, hlast, hls, hlc⟩ := hR.cur r2 rfl hw
  obtain ⟨init, hinit⟩ := List.getLast?_eq_some_iff.mp hlast
  have hnd := hR.nodup r2 rfl
  have hupd : mUpdate r2.segs r2.cur (fun g => ({ g with data := g.data ++ piece } : MSeg)) =
      init ++ [({ last with data := last.data ++ piece } : MSeg)] := by
    rw [hinit, ← hls]; rw [hinit] at hnd; exact mUpdate_last hnd _
  have hmem : ∀ b ∈ mUpdate r2.segs r2.cur (fun g => ({ g with data := g.data ++ piece } : MSeg)),
      ∃ b0 ∈ r2.segs, b.sid = b0.sid ∧ b.next = b0.next := by
    intro b hb
    obtain ⟨g0, hg0, hn, hsid⟩ := mUpdate_next (f := fun g => ({ g with data := g.data ++ piece } : MSeg)) (fun _ => rfl) hb
    exact ⟨g0, hg0, hsid (fun _ => rfl), hn⟩
  unfold rdbPut
  refine ⟨hs.streamNext, ?_, ?_, ?_, ?_, hs.sbound, ?_⟩
  · intro g hg n hn
    rcases hg with hg | ⟨rd, h', hg⟩
    · exact hs.nextBound g (Or.inl hg) n hn
    · cases h'
      obtain ⟨b0, hb0, _, hn'⟩ := hmem g hg
      exact hs.nextBound b0 (Or.inr ⟨r2, hr, hb0⟩) n (by rw [← hn']; exact hn)
  · intro g hg rd h' hrep b hb
    cases h'
    obtain ⟨b0, hb0, hsid, _⟩ := hmem b hb
    rw [hsid]; exact hs.heapNext g hg r2 hr hrep b0 hb0
  · intro rd h' a ha b hb
    cases h'
    obtain ⟨b0, hb0, hsid, _⟩ := hmem b hb
    rw [hsid]; exact hs.disj r2 hr a ha b0 hb0
  · intro rd h'
    cases h'
    dsimp only
    rw [mUpdate_eq_map]
    exact linked_map _ (by intro g; split <;> rfl) (by intro g; split <;> rfl) _ (hs.linked r2 hr)
  · intro rd h' hrep
    cases h'
    have hrep' : r2.replayable = true := hrep
    have hsn := hs.snap r2 hr hrep'
    have hwr : rdbW r2 = some r2.cur := by unfold rdbW; rw [hw]; rfl
    rw [hwr] at hsn
    have := hsn.appendPiece piece
    have hflat : mflat (mUpdate r2.segs r2.cur (fun g => ({ g with data := g.data ++ piece } : MSeg))) = mflat r2.segs ++ piece := by
      rw [hupd, hinit]; simp [mflat]
    show StreamOk false (mUpdate r2.segs r2.cur _) (rdbW _) s2.readers s2.nextSid 0 (mflat (mUpdate r2.segs r2.cur _))
    rw [hflat]
    have hw' : rdbW ({ r2 with segs := mUpdate r2.segs r2.cur (fun g => ({ g with data := g.data ++ piece } : MSeg)),
                               written := r2.written + piece.length } : MRdb) = some r2.cur := by
      unfold rdbW; dsimp only; rw [hw]; rfl
    rw [hw']
    exact this

theorem appendRdbLoop_snap (fuel : Nat) : ∀ (s : Mem) (buf : Bytes) (done : Nat), MemInv s → SnapInv s →
    SnapInv (Mem.appendRdbLoop fuel s buf done).1 := by
  induction fuel with
  | zero => intro s buf done _ hs; exact hs
  | succ fuel ih =>
    intro s buf done hi hs
    rw [appendRdbLoop_succ]
    split
    · exact hs
    · cases hr : s.rdb with
      | none => exact hs
      | some r =>
        dsimp only
        cases hw : r.writing with
        | false => exact hs
        | true =>
          simp only [Bool.not_true, Bool.false_eq_true, if_false]
          cases hf : mFind r.segs r.cur with
          | none => exact hs
          | some seg =>
            dsimp only
            obtain ⟨h1, e1, w1, k1, _, _⟩ :=
              rdbRotate_inv s r seg (pieceSpace s.logSize seg.data.length buf.length).2 hi hr hw
            have s1 := rdbRotate_snap s r seg (pieceSpace s.logSize seg.data.length buf.length).2 hi hs hr hw hf
            obtain ⟨h2, f2⟩ := ensure_inv _ (pieceSpace s.logSize seg.data.length buf.length).1 h1
            have s2 := ensure_snap _ (pieceSpace s.logSize seg.data.length buf.length).1 s1
            split
            · exact s2
            · cases hr2 : ((rdbRotate s r seg (pieceSpace s.logSize seg.data.length buf.length).2).1.ensure
                  (pieceSpace s.logSize seg.data.length buf.length).1).1.rdb with
              | none => exact s2
              | some r2 =>
                dsimp only
                have hcw : r2.cur = (rdbRotate s r seg (pieceSpace s.logSize seg.data.length buf.length).2).2.cur ∧
                    r2.writing = true := by
                  rcases f2.rdb with h | h | ⟨q, q', hq, hq', _, hc, hwq, _⟩
                  · rw [hr2, e1] at h; cases h; exact ⟨rfl, w1⟩
                  · rw [hr2] at h; cases h
                  · rw [e1] at hq; cases hq
                    rw [hr2] at hq'; cases hq'
                    exact ⟨hc, by rw [hwq]; exact w1⟩
                rw [← hcw.1]
                obtain ⟨h3, _⟩ := rdbPut_inv _ r2 (buf.take (pieceSpace s.logSize seg.data.length buf.length).1) h2 hr2 hcw.2
                have s3 := rdbPut_snap _ r2 (buf.take (pieceSpace s.logSize seg.data.length buf.length).1) h2 s2 hr2 hcw.2
                exact ih _ _ _ h3 s3

theorem finishRdb_snap (s : Mem) (failed : Bool) (hs : SnapInv s) : SnapInv (s.finishRdb failed) := by
  unfold Mem.finishRdb
  cases hr : s.rdb with
  | none => exact hs
  | some r =>
    dsimp only
    cases hw : r.writing with
    | false => simp only [Bool.not_false, if_true]; exact hs
    | true =>
      simp only [Bool.not_true, Bool.false_eq_true, if_false]
      have hmem : ∀ b ∈ mUpdate r.segs r.cur (fun g => ({ g with closed := true } : MSeg)),
          ∃ b0 ∈ r.segs, b.sid = b0.sid ∧ b.next = b0.next := by
        intro b hb
        obtain ⟨g0, hg0, hn, hsid⟩ := mUpdate_next (f := fun g => ({ g with closed := true } : MSeg)) (fun _ => rfl) hb
        exact ⟨g0, hg0, hsid (fun _ => rfl), hn⟩
      split
      · refine ⟨hs.streamNext, ?_, ?_, ?_, ?_, hs.sbound, ?_⟩
        · intro g hg n hn
          rcases hg with hg | ⟨rd, h', _⟩
          · rcases List.mem_append.mp hg with hg | hg
            · obtain ⟨b0, hb0, _, hn'⟩ := hmem g hg
              exact hs.nextBound b0 (Or.inr ⟨r, hr, hb0⟩) n (by rw [← hn']; exact hn)
            · exact hs.nextBound g (Or.inl hg) n hn
          · cases h'
        · intro g _ rd h'; cases h'
        · intro rd h'; cases h'
        · intro rd h'; cases h'
        · intro rd h'; cases h'
      · refine ⟨hs.streamNext, ?_, ?_, ?_, ?_, hs.sbound, ?_⟩
        · intro g hg n hn
          rcases hg with hg | ⟨rd, h', hg⟩
          · exact hs.nextBound g (Or.inl hg) n hn
          · cases h'
            obtain ⟨b0, hb0, _, hn'⟩ := hmem g hg
            exact hs.nextBound b0 (Or.inr ⟨r, hr, hb0⟩) n (by rw [← hn']; exact hn)
        · intro g hg rd h' hrep b hb
          cases h'
          obtain ⟨b0, hb0, hsid, _⟩ := hmem b hb
          rw [hsid]; exact hs.heapNext g hg r hr hrep b0 hb0
        · intro rd h' a ha b hb
          cases h'
          obtain ⟨b0, hb0, hsid, _⟩ := hmem b hb
          rw [hsid]; exact hs.disj r hr a ha b0 hb0
        · intro rd h'
          cases h'
          dsimp only
          rw [mUpdate_eq_map]
          exact linked_map _ (by intro g; split <;> rfl) (by intro g; split <;> rfl) _ (hs.linked r hr)
        · intro rd h' hrep
          cases h'
          have hrep' : r.replayable = true := hrep
          have hsn := hs.snap r hr hrep'
          have h1 := (hsn.closeSeg r.cur).noWriter
          have hflat : mflat (mUpdate r.segs r.cur (fun g => ({ g with closed := true } : MSeg))) = mflat r.segs := by
            rw [mUpdate_eq_map]; exact mflat_map _ (by intro g; split <;> rfl) _
          show StreamOk false (mUpdate r.segs r.cur _) (rdbW _) s.readers s.nextSid 0 (mflat (mUpdate r.segs r.cur _))
          rw [hflat]
          exact h1

/-! ### readers -/

theorem rdbOffered_some {s : Mem} {rd : MRdb} (h : s.rdbOffered = some rd) : s.rdb = some rd ∧ rd.replayable = true := by
  unfold Mem.rdbOffered at h
  split at h
  · rename_i r hr
    split at h
    · rename_i hrep; cases h; exact ⟨hr, hrep⟩
    · cases h
  · cases h

/-- the first segment of a replayable snapshot starts at 0 -/
theorem snap_first_left {s : Mem} (hs : SnapInv s) {rd : MRdb} (hr : s.rdb = some rd) (hrep : rd.replayable = true)
    {first : MSeg} {rest : List MSeg} (hsg : rd.segs = first :: rest) : first.left = 0 := by
  have := (hs.snap rd hr hrep).flat first rest hsg
  unfold mflat at this
  omega

/-- updating readers: what `SnapInv` needs of the new reader -/
theorem SnapInv.setReaders {s : Mem} (hs : SnapInv s) (rs' : List MReader)
    (hb : ∀ r ∈ rs', r.isAof = false → r.seg < s.nextSid ∧ r.start = 0)
    (hsn : ∀ rd, s.rdb = some rd → rd.replayable = true →
      StreamOk false rd.segs (rdbW rd) rs' s.nextSid 0 (mflat rd.segs)) :
    SnapInv { s with readers := rs' } :=
  ⟨hs.streamNext, hs.nextBound, hs.heapNext, hs.disj, hs.linked, hb, hsn⟩

theorem SnapInv.setReader {s : Mem} (hs : SnapInv s) (r' : MReader)
    (hr' : r'.isAof = false → r'.seg < s.nextSid ∧ r'.start = 0 ∧ ∀ rd, s.rdb = some rd → rd.replayable = true →
      (r'.released = false → ∀ g ∈ rd.segs, g.sid = r'.seg → MAofOk 0 (mflat rd.segs) r' g)) :
    SnapInv { s with readers := mSetReader s.readers r' } := by
  apply hs.setReaders
  · intro r hr ha
    rcases mem_mSetReader hr with hr | rfl
    · exact hs.sbound r hr ha
    · exact ⟨(hr' ha).1, (hr' ha).2.1⟩
  · intro rd hrd hrep
    exact (hs.snap rd hrd hrep).setReader r' (fun ha => ⟨(hr' ha).1, (hr' ha).2.2 rd hrd hrep⟩)

theorem SnapInv.touch {s : Mem} (hs : SnapInv s) {r : MReader} (hr : r ∈ s.readers) (r' : MReader) (ha : r'.isAof = r.isAof)
    (hseg : r'.seg = r.seg) (hp : r'.pos = r.pos) (hst : r'.start = r.start) (ho : r'.out = r.out)
    (hrel : r'.released = false → r.released = false) : SnapInv { s with readers := mSetReader s.readers r' } := by
  apply hs.setReaders
  · intro x hx hxa
    rcases mem_mSetReader hx with hx | rfl
    · exact hs.sbound x hx hxa
    · have := hs.sbound r hr (by rw [← ha]; exact hxa)
      exact ⟨by rw [hseg]; exact this.1, by rw [hst]; exact this.2⟩
  · intro rd hrd hrep
    exact (hs.snap rd hrd hrep).touchReader hr r' ha hseg hp hst ho hrel

/-- an stream reader changes: nothing to show for the snapshot clauses -/
theorem SnapInv.setAofReader {s : Mem} (hs : SnapInv s) (r' : MReader) (ha : r'.isAof = true) :
    SnapInv { s with readers := mSetReader s.readers r' } :=
  hs.setReader r' (by intro h; rw [ha] at h; cases h)

theorem open_snap (s : Mem) (rid off : Nat) (hi : MemInv s) (hs : SnapInv s) : SnapInv (s.open rid off).1 := by
  unfold Mem.open
  split
  · exact hs
  · split
    · exact hs
    · cases hidx : s.indexAof off with
      | some g =>
        dsimp only
        apply hs.setReaders
        · intro r hr ha
          rcases List.mem_append.mp hr with hr | hr
          · exact hs.sbound r hr ha
          · rw [List.mem_singleton] at hr; subst hr; cases ha
        · intro rd hrd hrep
          exact (hs.snap rd hrd hrep).addReader _ (by intro h; cases h)
      | none =>
        dsimp only
        cases hro : s.rdbOffered with
        | none => exact hs
        | some rd =>
          dsimp only
          obtain ⟨hrd, hrep⟩ := rdbOffered_some hro
          split
          · cases hsg : rd.segs with
            | nil => exact hs
            | cons first rest =>
              dsimp only
              have hfm : first ∈ rd.segs := by rw [hsg]; simp
              have hfb := hi.rdb.bound rd (by exact hrd) first hfm
              apply hs.setReaders
              · intro r hr ha
                rcases List.mem_append.mp hr with hr | hr
                · exact hs.sbound r hr ha
                · rw [List.mem_singleton] at hr; subst hr; exact ⟨hfb, rfl⟩
              · intro rd' hrd' hrep'
                rw [hrd] at hrd'; cases hrd'
                have hsn := hs.snap rd hrd hrep
                apply hsn.addReader
                intro _
                refine ⟨hfb, fun _ g hg hsid => ?_⟩
                have : g = first := sid_unique hsn.nodup hg hfm hsid
                subst this
                have hl := snap_first_left hs hrd hrep hsg
                exact ⟨by show g.left ≤ 0; omega, Nat.zero_le _, Nat.le_refl _, Nat.le_refl _, by simp⟩
          · exact hs

theorem lookup_cases {s : Mem} {sid : Nat} {g : MSeg} (h : s.lookup sid = some g) :
    g ∈ s.segs ∨ (∃ rd, s.rdb = some rd ∧ g ∈ rd.segs) ∨ g ∈ s.heap := by
  unfold Mem.lookup at h
  split at h
  · rename_i g' hg'; cases h; exact Or.inl (mFind_some hg').1
  · split at h
    · rename_i g' hg'
      cases h
      split at hg'
      · rename_i rd hrd; exact Or.inr (Or.inl ⟨rd, hrd, (mFind_some hg').1⟩)
      · cases hg'
    · exact Or.inr (Or.inr (mFind_some h).1)

theorem linked_next_mem : ∀ (l : List MSeg) (g : MSeg) (nx : Nat), Linked l → g ∈ l → g.next = some nx →
    ∃ pre b post, l = pre ++ g :: b :: post ∧ b.sid = nx := by
  intro l
  induction l with
  | nil => intro g nx _ hg; cases hg
  | cons a t ih =>
    intro g nx hl hg hn
    cases t with
    | nil =>
      simp only [List.mem_singleton] at hg; subst hg
      simp only [Linked] at hl
      rw [hl] at hn; cases hn
    | cons b t' =>
      rcases List.mem_cons.mp hg with rfl | hg
      · have := hl.1
        rw [this] at hn; cases hn
        exact ⟨[], b, t', rfl, rfl⟩
      · obtain ⟨pre, b', post, e, hs⟩ := ih g nx hl.2 hg hn
        exact ⟨a :: pre, b', post, by rw [e]; rfl, hs⟩

theorem mFind_none_of_disj {l : List MSeg} {sid : Nat} (h : ∀ a ∈ l, a.sid ≠ sid) : mFind l sid = none := by
  unfold mFind
  rw [List.find?_eq_none]
  intro a ha
  simpa using h a ha

theorem lookup_of_snapshot {s : Mem} (hs : SnapInv s) {rd : MRdb} (hr : s.rdb = some rd)
    (hn : (rd.segs.map (·.sid)).Nodup) {g : MSeg} (hg : g ∈ rd.segs) : s.lookup g.sid = some g := by
  unfold Mem.lookup
  rw [mFind_none_of_disj (fun a ha => hs.disj rd hr a ha g hg), hr]
  dsimp only
  rw [mFind_of_mem hn hg]

theorem copyStep_snap (s : Mem) (rid : Nat) (hi : MemInv s) (hs : SnapInv s) : SnapInv (s.copyStep rid).1 := by
  unfold Mem.copyStep
  cases hfr : mFindReader s.readers rid with
  | none => exact hs
  | some r =>
    have hrm := mFindReader_mem hfr
    have fin : ∀ st, SnapInv { s with readers := mSetReader s.readers { r with st := st, released := true } } :=
      fun st => hs.touch hrm _ rfl rfl rfl rfl rfl (fun h => by cases h)
    dsimp only
    split
    · exact hs
    · rename_i hrs
      simp only [Bool.or_eq_true, Bool.not_eq_true', not_or, Bool.not_eq_true, Bool.not_eq_false] at hrs
      split
      · exact fin _
      · cases hlk : s.lookup r.seg with
        | none => exact fin _
        | some g =>
          dsimp only
          split
          case isTrue hra =>
            -- a stream reader: the snapshot clauses say nothing of it
            have aof : ∀ r' : MReader, r'.isAof = true → SnapInv { s with readers := mSetReader s.readers r' } :=
              fun r' h' => hs.setAofReader r' h'
            split
            · exact fin _
            · split
              · exact aof _ hra
              · split
                · split
                  · exact fin _
                  · exact aof _ hra
                · exact hs
          case isFalse hraf =>
            have hra : r.isAof = false := by simpa using hraf
            have hgs : g.sid = r.seg := lookup_sid hlk
            have hbound := hs.sbound r hrm hra
            -- what is known of `r` on the offered snapshot
            have hclause : ∀ rd, s.rdb = some rd → rd.replayable = true → ∀ g'' ∈ rd.segs, g''.sid = r.seg →
                g'' = g ∧ MAofOk 0 (mflat rd.segs) r g ∧ SegOk 0 (mflat rd.segs) g := by
              intro rd hrd hrep g'' hg'' hsid
              have hsn := hs.snap rd hrd hrep
              have := lookup_of_snapshot hs hrd hsn.nodup hg''
              rw [hsid, hlk] at this; cases this
              exact ⟨rfl, (hsn.readers r hrm hra).2 hrs.1 g hg'' hsid, hsn.segOk g hg''⟩
            split
            · exact fin _
            · split
              · exact fin _
              · split
                · -- bytes of the held segment go to the pipe
                  apply hs.setReader
                  intro _
                  refine ⟨hbound.1, hbound.2, fun rd hrd hrep _ g'' hg'' hsid => ?_⟩
                  obtain ⟨rfl, hok, hseg⟩ := hclause rd hrd hrep g'' hg'' hsid
                  exact hok.advance hseg _ rfl rfl rfl
                · rename_i hbs
                  split
                  · cases hnx : g.next with
                    | none => exact fin _
                    | some nx =>
                      dsimp only
                      apply hs.setReader
                      intro _
                      have hwhere := lookup_cases hlk
                      refine ⟨?_, hbound.2, fun rd hrd hrep _ g'' hg'' hsid => ?_⟩
                      · show nx < s.nextSid
                        rcases hwhere with hw | hw | hw
                        · rw [hs.streamNext g hw] at hnx; cases hnx
                        · exact hs.nextBound g (Or.inr hw) nx hnx
                        · exact hs.nextBound g (Or.inl hw) nx hnx
                      · have hsid' : g''.sid = nx := hsid
                        rcases hwhere with hw | ⟨rd0, hrd0, hw⟩ | hw
                        · rw [hs.streamNext g hw] at hnx; cases hnx
                        · rw [hrd] at hrd0; cases hrd0
                          have hsn := hs.snap rd hrd hrep
                          obtain ⟨pre, b, post, hl, hb⟩ := linked_next_mem rd.segs g nx (hs.linked rd hrd) hw hnx
                          have hbm : b ∈ rd.segs := by rw [hl]; simp
                          have : g'' = b := sid_unique hsn.nodup hg'' hbm (by rw [hsid', hb])
                          subst this
                          obtain ⟨_, hok, _⟩ := hclause rd hrd hrep g hw hgs
                          have hadj : g.right = g''.left := mcontig_adjacent (hl ▸ hsn.contig)
                          have hdr : g.data.drop (r.pos - g.left) = [] := by simpa using hbs
                          have hpos := hok.drained hdr
                          exact ⟨by show g''.left ≤ r.pos; omega, by show r.pos ≤ g''.right; unfold MSeg.right at *; omega,
                            hok.base, hok.ord, hok.out⟩
                        · exact absurd (by rw [hnx, hsid']) (hs.heapNext g hw rd hrd hrep g'' hg'')
                  · exact hs

theorem consume_snap (s : Mem) (rid n : Nat) (hs : SnapInv s) : SnapInv (s.consume rid n).1 := by
  unfold Mem.consume
  cases hfr : mFindReader s.readers rid with
  | none => exact hs
  | some r =>
    have hrm := mFindReader_mem hfr
    dsimp only
    split
    · exact hs.touch hrm _ rfl rfl rfl rfl rfl (fun h => h)
    · split
      · exact hs.touch hrm _ rfl rfl rfl rfl rfl (fun h => h)
      · split
        · split <;> exact hs
        · exact hs

theorem closeReader_snap (s : Mem) (rid : Nat) (hs : SnapInv s) : SnapInv (s.closeReader rid).1 := by
  unfold Mem.closeReader
  cases hfr : mFindReader s.readers rid with
  | none => exact hs
  | some r =>
    have hrm := mFindReader_mem hfr
    dsimp only
    split
    · exact hs.touch hrm _ rfl rfl rfl rfl rfl (fun h => h)
    · exact hs.touch hrm _ rfl rfl rfl rfl rfl (fun h => by cases h)

theorem SnapInv.setPend {s : Mem} (hs : SnapInv s) (a r : Option Bytes) : SnapInv { s with pendA := a, pendR := r } :=
  ⟨hs.streamNext, hs.nextBound, hs.heapNext, hs.disj, hs.linked, hs.sbound, hs.snap⟩

theorem retry_snap (s : Mem) (hi : MemInv s) (hs : SnapInv s) : SnapInv s.retry.1 := by
  unfold Mem.retry
  cases hpa : s.pendA with
  | some buf =>
    dsimp only
    cases haw : s.aofW with
    | none =>
      dsimp only
      exact ⟨hs.streamNext, hs.nextBound, hs.heapNext, hs.disj, hs.linked, hs.sbound, hs.snap⟩
    | some cur =>
      dsimp only
      have h1 := appendAofLoop_snap (buf.length + 1) s buf 0 hi hs
      split <;> exact ⟨h1.streamNext, h1.nextBound, h1.heapNext, h1.disj, h1.linked, h1.sbound, h1.snap⟩
  | none =>
    dsimp only
    cases hpr : s.pendR with
    | none => exact hs
    | some buf =>
      dsimp only
      cases hr : s.rdb with
      | none =>
        dsimp only
        have := hs
        refine ⟨this.streamNext, ?_, ?_, ?_, ?_, this.sbound, ?_⟩
        · intro g hg n hn
          rcases hg with hg | ⟨rd, h', _⟩
          · exact this.nextBound g (Or.inl hg) n hn
          · cases h'
        · intro g _ rd h'; cases h'
        · intro rd h'; cases h'
        · intro rd h'; cases h'
        · intro rd h'; cases h'
      | some r =>
        dsimp only
        have hs' := hs.setPend none none
        split
        · rw [hr] at hs'; exact hs'
        · have h1 := (appendRdbLoop_inv (buf.length + 1) s buf 0 hi).1
          have s1 := appendRdbLoop_snap (buf.length + 1) s buf 0 hi hs
          split
          · exact ⟨s1.streamNext, s1.nextBound, s1.heapNext, s1.disj, s1.linked, s1.sbound, s1.snap⟩
          · have s2 : SnapInv { (Mem.appendRdbLoop (buf.length + 1) s buf 0).1 with pendR := none } :=
              ⟨s1.streamNext, s1.nextBound, s1.heapNext, s1.disj, s1.linked, s1.sbound, s1.snap⟩
            split
            · split
              · exact finishRdb_snap _ false s2
              · exact s2
            · exact s2

theorem step_snap (s : Mem) (op : MOp) (hi : MemInv s) (hs : SnapInv s) : SnapInv (s.step op).1 := by
  cases op with
  | setRunId id => exact ⟨hs.streamNext, hs.nextBound, hs.heapNext, hs.disj, hs.linked, hs.sbound, hs.snap⟩
  | delRunId id =>
    simp only [Mem.step]
    split
    · exact hs
    · have := reset_snap s hs
      exact ⟨this.streamNext, this.nextBound, this.heapNext, this.disj, this.linked, this.sbound, this.snap⟩
  | newRdbWriter off size =>
    simp only [Mem.step]
    have h0 := reset_snap s hs
    have hrd : s.reset.rdb = none := rfl
    refine ⟨h0.streamNext, ?_, ?_, ?_, ?_, ?_, ?_⟩
    · intro g hg n hn
      show n < s.reset.nextSid + 1
      rcases hg with hg | ⟨rd, h', hg⟩
      · have := h0.nextBound g (Or.inl hg) n hn; omega
      · cases h'
        simp only [List.mem_singleton] at hg; subst hg; cases hn
    · intro g hg rd h' _ b hb
      cases h'
      simp only [List.mem_singleton] at hb; subst hb
      intro e
      have := h0.nextBound g (Or.inl hg) _ e
      exact Nat.lt_irrefl _ this
    · intro rd h' a ha; cases ha
    · intro rd h'; cases h'; rfl
    · intro r hr ha
      exact ⟨by have := (h0.sbound r hr ha).1; show r.seg < s.reset.nextSid + 1; omega, (h0.sbound r hr ha).2⟩
    · intro rd h' _
      cases h'
      have := (StreamOk.empty (k := false) s.reset.readers s.reset.nextSid 0 [] (fun r hr ha => (h0.sbound r hr ha).1)).pushSeg
        { sid := s.reset.nextSid, left := 0, data := [], closed := false, next := none } rfl rfl (by simp)
      exact this
  | rdbAppend chunk =>
    simp only [Mem.step]
    have h1 := (appendRdbLoop_inv (chunk.length + 1) s chunk 0 hi).1
    have s1 := appendRdbLoop_snap (chunk.length + 1) s chunk 0 hi hs
    split
    · exact hs
    · split
      · exact ⟨s1.streamNext, s1.nextBound, s1.heapNext, s1.disj, s1.linked, s1.sbound, s1.snap⟩
      · split
        · split
          · exact finishRdb_snap _ false s1
          · exact s1
        · exact s1
  | rdbClose => exact finishRdb_snap s false hs
  | rdbFail => exact finishRdb_snap s true hs
  | newAofWriter off =>
    simp only [Mem.step]
    have tail : ∀ (s1 : Mem), SnapInv s1 → SnapInv (match s.aofW with
        | some old => s1.finishAof old false
        | none => s1) := by
      intro s1 h1
      cases s.aofW with
      | none => exact h1
      | some old => exact finishAof_snap s1 old false h1
    have push : ∀ (hb : Nat) (hh : Bytes) (l : List MSeg), (l = s.segs ∨ l = []) →
        SnapInv { s with segs := l ++ [{ sid := s.nextSid, left := off, data := [], closed := false, next := none }],
                         aofW := some s.nextSid, nextSid := s.nextSid + 1, hbase := hb, hist := hh } := by
      intro hb hh l hl
      have hsub : ∀ a ∈ l, a ∈ s.segs := by
        intro a ha
        rcases hl with rfl | rfl
        · exact ha
        · cases ha
      refine ⟨?_, ?_, hs.heapNext, ?_, hs.linked, ?_, ?_⟩
      · intro g hg
        rcases List.mem_append.mp hg with hg | hg
        · exact hs.streamNext g (hsub g hg)
        · rw [List.mem_singleton] at hg; subst hg; rfl
      · intro g hg n hn
        have := hs.nextBound g hg n hn
        show n < s.nextSid + 1; omega
      · intro rd hr a ha b hb'
        rcases List.mem_append.mp ha with ha | ha
        · exact hs.disj rd hr a (hsub a ha) b hb'
        · rw [List.mem_singleton] at ha; subst ha
          have := hi.rdb.bound rd hr b hb'
          show s.nextSid ≠ b.sid; omega
      · intro r hr ha
        exact ⟨by have := (hs.sbound r hr ha).1; show r.seg < s.nextSid + 1; omega, (hs.sbound r hr ha).2⟩
      · intro rd hr hrep
        exact (hs.snap rd hr hrep).monoSid (Nat.le_succ _)
    cases hlr : mLastRight s.segs with
    | some r =>
      dsimp only
      split
      · exact hs
      · exact tail _ (push s.hbase s.hist s.segs (Or.inl rfl))
    | none =>
      dsimp only
      exact tail _ (push off [] [] (Or.inr rfl))
  | aofAppend chunk =>
    simp only [Mem.step]
    cases haw : s.aofW with
    | none => exact hs
    | some cur =>
      dsimp only
      have s1 := appendAofLoop_snap (chunk.length + 1) s chunk 0 hi hs
      split
      · exact hs
      · split
        · exact ⟨s1.streamNext, s1.nextBound, s1.heapNext, s1.disj, s1.linked, s1.sbound, s1.snap⟩
        · exact s1
  | aofClose =>
    simp only [Mem.step]
    cases haw : s.aofW with
    | none => exact hs
    | some cur => exact finishAof_snap s cur true hs
  | openReader rid off => exact open_snap s rid off hi hs
  | startReader rid =>
    simp only [Mem.step]
    cases hfr : mFindReader s.readers rid with
    | none => exact hs
    | some r =>
      dsimp only
      split
      · exact hs
      · exact hs.touch (mFindReader_mem hfr) _ rfl rfl rfl rfl rfl (fun h => h)
  | copyStep rid => exact copyStep_snap s rid hi hs
  | consume rid n => exact consume_snap s rid n hs
  | closeReader rid => exact closeReader_snap s rid hs
  | retryAppend => exact retry_snap s hi hs

theorem run_snap (s : Mem) (ops : List MOp) (hi : MemInv s) (hs : SnapInv s) : SnapInv (s.run ops) := by
  induction ops generalizing s with
  | nil => exact hs
  | cons op rest ih => exact ih _ (step_inv s op hi) (step_snap s op hi hs)

/-! ### settling, and what the invariant gives -/

/-- both invariants together -/
def FullInv (s : Mem) : Prop := MemInv s ∧ SnapInv s

theorem FullInv.init (l m : Nat) : FullInv (Mem.init l m) := ⟨MemInv.init l m, SnapInv.init l m⟩

theorem FullInv.step {s : Mem} (h : FullInv s) (op : MOp) : FullInv (s.step op).1 :=
  ⟨step_inv s op h.1, step_snap s op h.1 h.2⟩

theorem FullInv.run {s : Mem} (h : FullInv s) (ops : List MOp) : FullInv (s.run ops) :=
  ⟨run_inv s ops h.1, run_snap s ops h.1 h.2⟩

theorem settleReader_full (fuel : Nat) : ∀ (s : Mem) (rid : Nat), FullInv s → FullInv (Mem.settleReader fuel s rid) := by
  induction fuel with
  | zero => intro s rid h; exact h
  | succ fuel ih =>
    intro s rid h
    simp only [Mem.settleReader]
    have h1 : FullInv (s.copyStep rid).1 := ⟨copyStep_inv s rid h.1, copyStep_snap s rid h.1 h.2⟩
    split
    · exact ih _ rid h1
    · exact h1

theorem foldl_full {α} (f : Mem → α → Mem) (hf : ∀ s a, FullInv s → FullInv (f s a)) (l : List α) :
    ∀ s, FullInv s → FullInv (l.foldl f s) := by
  induction l with
  | nil => intro s h; exact h
  | cons a t ih => intro s h; exact ih _ (hf s a h)

theorem settleLoop_full (fuel : Nat) : ∀ (s : Mem), FullInv s → FullInv (Mem.settleLoop fuel s) := by
  induction fuel with
  | zero => intro s h; exact h
  | succ fuel ih =>
    intro s h
    simp only [Mem.settleLoop]
    have h0 : FullInv s.settleReaders := by
      unfold Mem.settleReaders
      exact foldl_full _ (fun acc r ha => settleReader_full _ acc r.id ha) _ s h
    have h1 : FullInv s.settleReaders.retry.1 := ⟨retry_inv _ h0.1, retry_snap _ h0.1 h0.2⟩
    split
    · exact ih _ h1
    · exact h1

theorem FullInv.settle {s : Mem} (h : FullInv s) : FullInv s.settle := settleLoop_full _ s h

/-- a copy loop that replays the OFFERED snapshot (it holds one of its segments and has
    not returned) is inside that segment and has written to its pipe exactly the first
    `pos` bytes the snapshot holds, in order -/
theorem snapshot_reader_delivers {s : Mem} (h : FullInv s) (rd : MRdb) (hro : s.rdbOffered = some rd) :
    ∀ r ∈ s.readers, r.isAof = false → r.released = false → ∀ g ∈ rd.segs, g.sid = r.seg →
      g.left ≤ r.pos ∧ r.pos ≤ g.right ∧ r.out = (mflat rd.segs).take r.pos := by
  intro r hr ha hrel g hg hsid
  obtain ⟨hrd, hrep⟩ := rdbOffered_some hro
  have hok := ((h.2.snap rd hrd hrep).readers r hr ha).2 hrel g hg hsid
  have hst := (h.2.sbound r hr ha).2
  refine ⟨hok.inl, hok.inr, ?_⟩
  have := hok.out
  rw [hst] at this
  simpa using this

/-- the offered snapshot's segments are contiguous from offset 0 and chained by their `next` pointers -/
theorem snapshot_shape {s : Mem} (h : FullInv s) (rd : MRdb) (hro : s.rdbOffered = some rd) :
    MContig rd.segs ∧ Linked rd.segs ∧ (∀ first rest, rd.segs = first :: rest → first.left = 0) ∧
      (mflat rd.segs).length = rd.written := by
  obtain ⟨hrd, hrep⟩ := rdbOffered_some hro
  refine ⟨(h.2.snap rd hrd hrep).contig, h.2.linked rd hrd, fun first rest hsg => snap_first_left h.2 hrd hrep hsg, ?_⟩
  have := h.1.rdb.whole rd hrd hrep
  rw [← this]
  unfold mflat mBuffered
  induction rd.segs with
  | nil => rfl
  | cons a t ih => simp [ih]

end GunYu.Store
