/-
  C17 / Model/BookSys.lean — the sender model's abstract target (one record per database:
  offset, run id present) is what the checkpoint key holds for the run id of the session.

  `Abs N n cps t`: for every database the abstract record is what the fields of id `N` under key
  `n` say. A bookkeeping write keeps it (`abs_write`, `abs_fold`), so the theorems of the sender
  (Props.C02 / C02Lives / C07, stated on the abstract records) speak about `Checkpoint.Target`.
-/
import GunYu.Proofs.BookTrace
import GunYu.Proofs.BookStr
import GunYu.Proofs.TargetExec
import GunYu.Proofs.MaxOffset
import GunYu.Proofs.Crash

namespace GunYu.BookSys
open GunYu GunYu.Checkpoint

set_option linter.unusedSimpArgs false
set_option linter.unusedVariables false

instance (k : FKey) (fs : Cp) : Decidable (hasKey k fs) := by unfold hasKey; exact inferInstance

/-- the abstract record of one database: what the fields of id `N` in the hash `fs` say -/
def absRec (N : Bytes) (fs : Cp) : Target.CpRec :=
  { offset := if hasKey (N, Kind.offset) fs then some (offOf [N] fs) else none,
    hasRunId := decide (hasKey (N, Kind.runid) fs) }

def Abs (N n : Bytes) (cps : List (Int × Target.CpRec)) (t : Checkpoint.Target) : Prop :=
  ∀ db : Nat, Target.getCp cps (db : Int) = absRec N (t.cps db n)

theorem absRec_nil (N : Bytes) : absRec N [] = {} := by
  simp [absRec, hasKey]

/-- a value is decimal int64 -/
def InRange (o : Int) : Prop := -(2^63 : Int) ≤ o ∧ o < 2^63

theorem absRec_meta (N ver : Bytes) (fs : Cp) :
    absRec N (hsetMany fs (senderEntries N ver .rmeta)) = { absRec N fs with hasRunId := true } := by
  have hk1 : hasKey (N, Kind.offset) (hsetMany fs (senderEntries N ver .rmeta)) ↔ hasKey (N, Kind.offset) fs := by
    rw [hasKey_hsetMany]
    constructor
    · rintro (⟨e, he, hk⟩ | h)
      · simp only [senderEntries, List.mem_cons, List.not_mem_nil, or_false] at he
        rcases he with rfl | rfl <;> simp [Entry.key] at hk
      · exact h
    · exact Or.inr
  have hk2 : hasKey (N, Kind.runid) (hsetMany fs (senderEntries N ver .rmeta)) := by
    rw [hasKey_hsetMany]
    exact Or.inl ⟨⟨N, .runid, N⟩, by simp [senderEntries], rfl⟩
  have ho : offOf [N] (hsetMany fs (senderEntries N ver .rmeta)) = offOf [N] fs := by
    apply offOf_hsetMany_irrelevant
    intro e he
    simp only [senderEntries, List.mem_cons, List.not_mem_nil, or_false] at he
    rcases he with rfl | rfl <;> simp [offSel]
  unfold absRec
  simp only [hk1, hk2, ho, decide_true]

theorem absRec_off (N : Bytes) (fs : Cp) (o : Int) (hr : InRange o) :
    absRec N (hsetMany fs (senderEntries N [] (.off o))) = { absRec N fs with offset := some o } := by
  let e : Entry := ⟨N, .offset, intToDec o⟩
  have hm : hsetMany fs (senderEntries N [] (.off o)) = hsetOne fs e := rfl
  have hk1 : hasKey (N, Kind.offset) (hsetOne fs e) := hasKey_hsetOne.mpr (Or.inl rfl)
  have hk2 : hasKey (N, Kind.runid) (hsetOne fs e) ↔ hasKey (N, Kind.runid) fs := by
    rw [hasKey_hsetOne]
    constructor
    · rintro (h | h)
      · simp [Entry.key, e] at h
      · exact h
    · exact Or.inr
  have hv : Resp.parseInt64 e.val = some o := Resp.parseInt64_intToDec o hr.1 hr.2
  have ho : offOf [N] (hsetOne fs e) = o := by
    apply foldl_offStep_all_eq [N] o _ (-1)
    · intro x hx hs
      rw [offSel_iff, matchId_one] at hs
      have : x.key = e.key := by show (x.rid, x.kind) = (N, Kind.offset); rw [hs.1, hs.2]
      rw [hsetOne_key hx this]; exact hv
    · left
      exact ⟨e, mem_hsetOne_self fs e, by rw [offSel_iff, matchId_one]; exact ⟨rfl, rfl⟩⟩
  rw [hm]
  unfold absRec
  simp only [hk1, if_true, ho]
  congr 1
  exact decide_eq_decide.mpr hk2

theorem senderEntries_off_ver (N ver : Bytes) (o : Int) :
    senderEntries N ver (.off o) = senderEntries N [] (.off o) := rfl

/-- one bookkeeping write keeps the correspondence -/
theorem abs_write {N n ver : Bytes} {cps : List (Int × Target.CpRec)} {t : Checkpoint.Target}
    (h : Abs N n cps t) (w : Int × BkW) (hr : ∀ o, w.2 = .off o → InRange o) :
    Abs N n (absW cps w) (Checkpoint.applyAll t (writeReq n N ver w)) := by
  obtain ⟨wdb, ww⟩ := w
  intro db
  unfold writeReq
  by_cases hneg : 0 ≤ wdb
  · simp only [hneg, if_true, Checkpoint.applyAll, List.foldl_cons, List.foldl_nil]
    rw [applyReq_hsetCp_cps]
    have hwd : ((wdb.toNat : Nat) : Int) = wdb := Int.toNat_of_nonneg hneg
    by_cases hdb : db = wdb.toNat
    · subst hdb
      simp only [and_self, if_true]
      cases ww with
      | rmeta =>
        rw [absRec_meta]
        show Target.getCp (Target.setCp cps wdb _) _ = _
        rw [hwd, GunYu.Target.getCp_setCp_eq, ← h wdb.toNat, hwd]
      | off o =>
        rw [senderEntries_off_ver, absRec_off N _ o (hr o rfl)]
        show Target.getCp (Target.setCp cps wdb _) _ = _
        rw [hwd, GunYu.Target.getCp_setCp_eq, ← h wdb.toNat, hwd]
    · have hne : ((db : Nat) : Int) ≠ wdb := by
        intro hc; apply hdb; rw [← hc]; simp
      simp only [hdb, false_and, if_false]
      rw [← h db]
      cases ww with
      | rmeta => exact GunYu.Target.getCp_setCp_ne cps _ _ _ hne
      | off o => exact GunYu.Target.getCp_setCp_ne cps _ _ _ hne
  · simp only [hneg, if_false, Checkpoint.applyAll, List.foldl_nil]
    have hne : ((db : Nat) : Int) ≠ wdb := by omega
    rw [← h db]
    cases ww with
    | rmeta => exact GunYu.Target.getCp_setCp_ne cps _ _ _ hne
    | off o => exact GunYu.Target.getCp_setCp_ne cps _ _ _ hne

theorem abs_fold {N n ver : Bytes} (tr : List (Int × BkW)) :
    ∀ {cps : List (Int × Target.CpRec)} {t : Checkpoint.Target}, Abs N n cps t →
      (∀ w ∈ tr, ∀ o, w.2 = .off o → InRange o) →
      Abs N n (tr.foldl absW cps) (Checkpoint.applyAll t (tr.flatMap (writeReq n N ver))) := by
  induction tr with
  | nil => intro cps t h _; exact h
  | cons w tr ih =>
    intro cps t h hr
    simp only [List.foldl_cons, List.flatMap_cons]
    rw [applyAll_append]
    exact ih (abs_write h w (hr w (List.mem_cons_self ..)))
      (fun w' hw' => hr w' (List.mem_cons_of_mem _ hw'))

/-! ### the offsets a trace writes are the position writes of the log -/

theorem execW_off {t : Target.TState} {r : Sender.Req} {db o : Int} (h : (db, BkW.off o) ∈ execW t r) :
    r = Sender.Req.cpOffset o := by
  cases r <;> simp [execW] at h
  exact congrArg _ h.2.symm

theorem execTrace_off (q : List Sender.Req) : ∀ (t : Target.TState) {db o : Int},
    (db, BkW.off o) ∈ execTrace t q → o ∈ Target.cpReqs q := by
  induction q with
  | nil => intro t db o h; simp [execTrace] at h
  | cons r rs ih =>
    intro t db o h
    simp only [execTrace, List.mem_append] at h
    unfold Target.cpReqs
    rcases h with h | h
    · rw [execW_off h]; simp [Sender.cpOfReq]
    · have := ih _ h
      unfold Target.cpReqs at this
      simp only [List.filterMap_cons]
      cases Sender.cpOfReq r with
      | none => exact this
      | some v => exact List.mem_cons_of_mem _ this

theorem cpReqs_cons_sub (r : Sender.Req) (rs : List Sender.Req) {o : Int} (h : o ∈ Target.cpReqs rs) :
    o ∈ Target.cpReqs (r :: rs) := by
  unfold Target.cpReqs at *
  simp only [List.filterMap_cons]
  cases Sender.cpOfReq r with
  | none => exact h
  | some v => exact List.mem_cons_of_mem _ h

theorem logTrace_off (log : List Sender.Req) : ∀ (t : Target.TState) {db o : Int},
    (db, BkW.off o) ∈ logTrace t log →
    o ∈ Target.cpReqs log ∨ ∃ q, t.queued = some q ∧ o ∈ Target.cpReqs q := by
  induction log with
  | nil => intro t db o h; simp [logTrace] at h
  | cons r rs ih =>
    intro t db o h
    simp only [logTrace, List.mem_append] at h
    rcases h with h | h
    · unfold stepTrace at h
      cases hq : t.queued with
      | some q =>
        rw [hq] at h
        cases r with
        | exec => simp only at h; exact Or.inr ⟨q, rfl, execTrace_off q _ h⟩
        | cmd n a off => simp at h
        | multi => simp at h
        | cpMeta => simp at h
        | cpOffset o' => simp at h
      | none =>
        rw [hq] at h
        left
        cases r with
        | multi => simp at h
        | exec => simp only at h; rw [execW_off h]; simp [Target.cpReqs, Sender.cpOfReq]
        | cmd n a off => simp only at h; have := execW_off h; cases this
        | cpMeta => simp only at h; have := execW_off h; cases this
        | cpOffset o' =>
          simp only at h
          have := execW_off h
          injection this with this
          subst this
          simp [Target.cpReqs, Sender.cpOfReq]
    · rcases ih _ h with h' | ⟨q', hq', ho⟩
      · exact Or.inl (cpReqs_cons_sub r rs h')
      · unfold Target.applyReq at hq'
        cases hq : t.queued with
        | some q =>
          rw [hq] at hq'
          cases r with
          | exec =>
            simp only at hq'
            rw [Target.foldl_execReq_queued] at hq'
            cases hq'
          | cmd n a off =>
            simp only at hq'
            injection hq' with hq'
            subst hq'
            unfold Target.cpReqs at ho
            rw [List.filterMap_append] at ho
            rcases List.mem_append.mp ho with ho | ho
            · exact Or.inr ⟨q, rfl, ho⟩
            · simp [Sender.cpOfReq] at ho
          | multi =>
            simp only at hq'
            injection hq' with hq'
            subst hq'
            unfold Target.cpReqs at ho
            rw [List.filterMap_append] at ho
            rcases List.mem_append.mp ho with ho | ho
            · exact Or.inr ⟨q, rfl, ho⟩
            · simp [Sender.cpOfReq] at ho
          | cpMeta =>
            simp only at hq'
            injection hq' with hq'
            subst hq'
            unfold Target.cpReqs at ho
            rw [List.filterMap_append] at ho
            rcases List.mem_append.mp ho with ho | ho
            · exact Or.inr ⟨q, rfl, ho⟩
            · simp [Sender.cpOfReq] at ho
          | cpOffset o' =>
            simp only at hq'
            injection hq' with hq'
            subst hq'
            unfold Target.cpReqs at ho
            rw [List.filterMap_append] at ho
            rcases List.mem_append.mp ho with ho | ho
            · exact Or.inr ⟨q, rfl, ho⟩
            · left
              have : o = o' := by simpa [Sender.cpOfReq] using ho
              subst this
              simp [Target.cpReqs, Sender.cpOfReq]
        | none =>
          rw [hq] at hq'
          cases r with
          | multi =>
            simp only at hq'
            injection hq' with hq'
            subst hq'
            simp [Target.cpReqs] at ho
          | exec => simp only at hq'; rw [Target.execReq_queued, hq] at hq'; cases hq'
          | cmd n a off => simp only at hq'; rw [Target.execReq_queued, hq] at hq'; cases hq'
          | cpMeta => simp only at hq'; rw [Target.execReq_queued, hq] at hq'; cases hq'
          | cpOffset o' => simp only at hq'; rw [Target.execReq_queued, hq] at hq'; cases hq'

end GunYu.BookSys
