/-
  Helper lemmas for C17, part 3: single write requests preserve the position
  predicate `Holds`; the request lists of UpdateCheckpoint / DelStaleCheckpoint /
  gcStaleCp consist of such requests. Core only.
-/
import GunYu.Proofs.Checkpoint

namespace GunYu.Checkpoint
open GunYu

set_option linter.unusedSimpArgs false
set_option linter.unusedVariables false

theorem matchId_pair (a b x : Bytes) : matchId [a, b] x = true ↔ x = a ∨ x = b := by
  simp [matchId]

theorem matchId_one (a x : Bytes) : matchId [a] x = true ↔ x = a := by
  simp [matchId]

/-! ### the checkpoint hash -/

theorem lookup_map_set_ne (h : List (Bytes × Bytes)) (k v a : Bytes) (hne : a ≠ k) :
    (h.map (fun p => if p.1 = k then (k, v) else p)).lookup a = h.lookup a := by
  induction h with
  | nil => rfl
  | cons p h ih =>
    obtain ⟨pk, pv⟩ := p
    by_cases hp : pk = k
    · subst hp
      have : (a == pk) = false := by simpa using hne
      simp [List.lookup, this, ih]
    · by_cases ha : a = pk
      · subst ha; simp [List.lookup, hp]
      · have : (a == pk) = false := by simpa using ha
        simp [List.lookup, hp, this, ih]

theorem lookup_map_set_self (h : List (Bytes × Bytes)) (k v : Bytes)
    (hex : h.any (fun p => decide (p.1 = k)) = true) :
    (h.map (fun p => if p.1 = k then (k, v) else p)).lookup k = some v := by
  induction h with
  | nil => simp at hex
  | cons p h ih =>
    obtain ⟨pk, pv⟩ := p
    by_cases hp : pk = k
    · subst hp; simp [List.lookup]
    · have hk : (k == pk) = false := by simpa using (Ne.symm hp)
      have : h.any (fun p => decide (p.1 = k)) = true := by simpa [hp] using hex
      simp [List.lookup, hp, hk, ih this]

theorem lookup_append_single (h : List (Bytes × Bytes)) (k v a : Bytes) :
    (h ++ [(k, v)]).lookup a = match h.lookup a with
      | some x => some x
      | none => if a = k then some v else none := by
  induction h with
  | nil => by_cases ha : a = k <;> simp [List.lookup, ha]
  | cons p h ih =>
    obtain ⟨pk, pv⟩ := p
    by_cases ha : a = pk
    · subst ha; simp [List.lookup]
    · have : (a == pk) = false := by simpa using ha
      simp [List.lookup, this, ih]

theorem hlookup_hashSet_self (h : List (Bytes × Bytes)) (k v : Bytes) :
    hlookup (hashSet h k v) k = some v := by
  unfold hlookup hashSet
  split
  · rename_i hex; exact lookup_map_set_self h k v hex
  · rename_i hex
    rw [lookup_append_single]
    have : h.lookup k = none := by
      apply List.lookup_eq_none_iff.mpr
      intro p hp
      simp only [bne_iff_ne, ne_eq]
      intro hk
      apply hex
      exact List.any_eq_true.mpr ⟨p, hp, by simpa using hk.symm⟩
    simp [this]

theorem hlookup_hashSet_ne (h : List (Bytes × Bytes)) (k v a : Bytes) (hne : a ≠ k) :
    hlookup (hashSet h k v) a = hlookup h a := by
  unfold hlookup hashSet
  split
  · exact lookup_map_set_ne h k v a hne
  · rw [lookup_append_single]; cases h.lookup a <;> simp [hne]

theorem hlookup_hashDel_ne (h : List (Bytes × Bytes)) (k a : Bytes) (hne : a ≠ k) :
    hlookup (hashDel h k) a = hlookup h a := by
  unfold hlookup hashDel
  induction h with
  | nil => rfl
  | cons p h ih =>
    obtain ⟨pk, pv⟩ := p
    by_cases hp : pk = k
    · subst hp
      have : (a == pk) = false := by simpa using hne
      simp only [ne_eq, decide_not] at ih
      simp [List.filter, List.lookup, this, ih]
    · by_cases ha : a = pk
      · subst ha; simp [List.filter, hp, List.lookup]
      · have : (a == pk) = false := by simpa using ha
        simp only [ne_eq, decide_not] at ih
        simp [List.filter, hp, List.lookup, this, ih]

/-- `GetCheckpointHash` only looks at the two ids -/
theorem getHash_congr (h h' : List (Bytes × Bytes)) (a b : Bytes)
    (ha : hlookup h' a = hlookup h a) (hb : hlookup h' b = hlookup h b) :
    getHash h' [a, b] = getHash h [a, b] := by
  simp only [getHash, ha, hb]

/-! ### invariant of the maintenance operations -/

/-- `_runid` fields store their own id -/
def RunidOwn (t : Target) (n : Bytes) : Prop :=
  ∀ db, ∀ e ∈ t.cps db n, e.kind = .runid → e.val = e.rid

/-- id `A` alone carries the position in database `d` -/
def Carrier (A : Bytes) (t : Target) (n : Bytes) (d : Nat) (X : Int) : Prop :=
  offOf [A] (t.cps d n) = X ∧ ridOf [A] (t.cps d n) ≠ qmark

structure Inv (id1 id2 A : Bytes) (t : Target) (n r : Bytes) (d : Nat) (X : Int) : Prop where
  hash : getHash t.hash [id1, id2] = some (n, r)
  holds : Holds [id1, id2] t n d X
  carrier : Carrier A t n d X
  /-- every `_runid` field of the ids stores something other than "?" -/
  ridok : ∀ db, ∀ e ∈ t.cps db n, ridSel [id1, id2] e = true → e.val ≠ qmark

/-- requests that cannot hurt the position held under key `n` in database `d` carried by id `A` -/
def SafeReq (id1 id2 A n r : Bytes) (d : Nat) : Req → Prop
  | .hdelCp db name ks =>
    name ≠ n ∨ ∃ ρ, (∀ k ∈ ks, k.1 = ρ) ∧ (ρ, Kind.offset) ∈ ks ∧ (db ≠ d ∨ ρ ≠ A)
  | .hdelHash rid => rid ≠ id1 ∧ (rid ≠ id2 ∨ r = id1)
  | _ => False

theorem offSel_iff (ids : List Bytes) (e : Entry) :
    offSel ids e = true ↔ matchId ids e.rid = true ∧ e.kind = .offset := by
  simp [offSel]

theorem ridSel_iff (ids : List Bytes) (e : Entry) :
    ridSel ids e = true ↔ matchId ids e.rid = true ∧ e.kind = .runid := by
  simp [ridSel]

/-- HDEL of fields none of which is selected changes nothing that is read -/
theorem offOf_hdel_irrel (ids : List Bytes) (fs : Cp) (ks : List FKey)
    (h : ∀ e ∈ fs, ks.contains e.key = true → offSel ids e = false) :
    offOf ids (hdelMany fs ks) = offOf ids fs := by
  unfold hdelMany
  apply offOf_filter
  intro e he
  refine ⟨fun _ => rfl, fun hf => ?_⟩
  apply h e he
  simpa using hf

theorem ridOf_hdel_irrel (ids : List Bytes) (fs : Cp) (ks : List FKey)
    (h : ∀ e ∈ fs, ks.contains e.key = true → ridSel ids e = false) :
    ridOf ids (hdelMany fs ks) = ridOf ids fs := by
  unfold hdelMany
  apply ridOf_filter
  intro e he
  refine ⟨fun _ => rfl, fun hf => ?_⟩
  apply h e he
  simpa using hf

theorem key_rid_of_contains {ks : List FKey} {ρ : Bytes} (hk : ∀ k ∈ ks, k.1 = ρ) {e : Entry}
    (h : ks.contains e.key = true) : e.rid = ρ :=
  hk e.key (List.contains_iff_mem.mp h)

/-- deleting fields of `B` (among them `B_offset`) from a hash read with `[id1,id2] = {A,B}`
    leaves what `A` alone reads -/
theorem offOf_pair_hdel (id1 id2 A B : Bytes) (hAB : A ≠ B)
    (hpair : (A = id1 ∧ B = id2) ∨ (A = id2 ∧ B = id1)) (fs : Cp) (ks : List FKey)
    (hk : ∀ k ∈ ks, k.1 = B) (hoff : (B, Kind.offset) ∈ ks) :
    offOf [id1, id2] (hdelMany fs ks) = offOf [A] fs := by
  unfold hdelMany
  apply offOf_filter
  intro e _
  constructor
  · intro hkeep
    have hkeep' : ¬ ks.contains e.key = true := by simpa using hkeep
    rw [Bool.eq_iff_iff, offSel_iff, offSel_iff, matchId_pair, matchId_one]
    constructor
    · rintro ⟨hm, hko⟩
      refine ⟨?_, hko⟩
      have hnb : e.rid ≠ B := by
        intro hb
        apply hkeep'
        apply List.contains_iff_mem.mpr
        have : e.key = (B, Kind.offset) := by show (e.rid, e.kind) = _; rw [hb, hko]
        rw [this]; exact hoff
      rcases hpair with ⟨rfl, rfl⟩ | ⟨rfl, rfl⟩
      · rcases hm with h | h; exact h; exact absurd h hnb
      · rcases hm with h | h; exact absurd h hnb; exact h
    · rintro ⟨hm, hko⟩
      refine ⟨?_, hko⟩
      rcases hpair with ⟨rfl, rfl⟩ | ⟨rfl, rfl⟩
      · exact Or.inl hm
      · exact Or.inr hm
  · intro hf
    have hc : ks.contains e.key = true := by simpa using hf
    have := key_rid_of_contains hk hc
    rw [← Bool.not_eq_true, offSel_iff, matchId_one]
    intro h; exact hAB (h.1 ▸ this)

/-- a run id was read: a `_runid` field of the ids exists -/
theorem exists_of_ridOf_ne (ids : List Bytes) (fs : Cp) :
    ∀ r, fs.foldl (ridStep ids) r ≠ r → ∃ x ∈ fs, ridSel ids x = true := by
  induction fs with
  | nil => intro r h; exact absurd rfl h
  | cons y fs ih =>
    intro r h
    simp only [List.foldl_cons] at h
    by_cases hy : ridSel ids y = true
    · exact ⟨y, List.mem_cons_self .., hy⟩
    · have hy' : ridSel ids y = false := by simpa using hy
      have : ridStep ids r y = r := by simp [ridStep, hy']
      rw [this] at h
      obtain ⟨x, hx, hs⟩ := ih r h
      exact ⟨x, List.mem_cons_of_mem _ hx, hs⟩

theorem OffBelow.filter {ids : List Bytes} {fs : Cp} {X : Int} (h : OffBelow ids fs X)
    (p : Entry → Bool) : OffBelow ids (fs.filter p) X :=
  fun x hx => h x (List.mem_filter.mp hx).1

theorem Holds.update {ids : List Bytes} {t : Target} {n : Bytes} {d : Nat} {X : Int}
    (h : Holds ids t n d X) (t' : Target) (db0 : Nat)
    (hother : ∀ db, db ≠ db0 → t'.cps db n = t.cps db n)
    (hp : Parses ids (t'.cps db0 n))
    (hd : db0 = d → offOf ids (t'.cps db0 n) = X ∧ ridOf ids (t'.cps db0 n) ≠ qmark)
    (hnd : db0 ≠ d → OffBelow ids (t'.cps db0 n) X) : Holds ids t' n d X := by
  refine ⟨h.nonneg, ?_, ?_, ?_, ?_⟩
  · intro db
    by_cases hdb : db = db0
    · subst hdb; exact hp
    · rw [hother db hdb]; exact h.parses db
  · by_cases hdb : d = db0
    · subst hdb; exact (hd rfl).1
    · rw [hother d hdb]; exact h.off
  · by_cases hdb : d = db0
    · subst hdb; exact (hd rfl).2
    · rw [hother d hdb]; exact h.rid
  · intro db hne
    by_cases hdb : db = db0
    · subst hdb; exact hnd hne
    · rw [hother db hdb]; exact h.dom db hne

theorem Holds.congr {ids : List Bytes} {t t' : Target} {n : Bytes} {d : Nat} {X : Int}
    (h : Holds ids t n d X) (hc : ∀ db, t'.cps db n = t.cps db n) : Holds ids t' n d X := by
  refine ⟨h.nonneg, ?_, ?_, ?_, ?_⟩
  · intro db; rw [hc]; exact h.parses db
  · rw [hc]; exact h.off
  · rw [hc]; exact h.rid
  · intro db hne; rw [hc]; exact h.dom db hne

theorem Inv.congr {id1 id2 A n r : Bytes} {d : Nat} {X : Int} {t t' : Target}
    (hi : Inv id1 id2 A t n r d X) (hh : getHash t'.hash [id1, id2] = getHash t.hash [id1, id2])
    (hc : ∀ db, t'.cps db n = t.cps db n) : Inv id1 id2 A t' n r d X := by
  refine ⟨hh ▸ hi.hash, hi.holds.congr hc, ?_, ?_⟩
  · unfold Carrier; rw [hc]; exact hi.carrier
  · intro db e he; rw [hc] at he; exact hi.ridok db e he

theorem applyReq_hdelCp_cps (t : Target) (db : Nat) (name : Bytes) (ks : List FKey) (db' : Nat)
    (n' : Bytes) : (applyReq t (.hdelCp db name ks)).cps db' n'
      = if db' = db ∧ n' = name then hdelMany (t.cps db name) ks else t.cps db' n' := rfl

theorem applyReq_hsetCp_cps (t : Target) (db : Nat) (name : Bytes) (es : List Entry) (db' : Nat)
    (n' : Bytes) : (applyReq t (.hsetCp db name es)).cps db' n'
      = if db' = db ∧ n' = name then hsetMany (t.cps db name) es else t.cps db' n' := rfl

/-- a name resolved through the first id does not depend on the second id's entry -/
theorem getHash_first {h : List (Bytes × Bytes)} {id1 id2 n : Bytes} (hne : id1 ≠ id2) (h1 : id1 ≠ [])
    (hg : getHash h [id1, id2] = some (n, id1)) : hlookup h id1 = some n ∧ n ≠ [] := by
  simp only [getHash] at hg
  cases hl : hlookup h id1 with
  | none =>
    simp only [hl] at hg
    cases hl2 : hlookup h id2 with
    | none => simp only [hl2, Option.some.injEq, Prod.mk.injEq] at hg; exact absurd hg.2.symm h1
    | some m => simp only [hl2, Option.some.injEq, Prod.mk.injEq] at hg; exact absurd hg.2.symm hne
  | some m =>
    simp only [hl] at hg
    by_cases hm : m ≠ []
    · rw [if_pos hm] at hg
      simp only [Option.some.injEq, Prod.mk.injEq] at hg
      exact ⟨by rw [hg.1], hg.1 ▸ hm⟩
    · rw [if_neg hm] at hg
      cases hl2 : hlookup h id2 with
      | none => simp only [hl2, Option.some.injEq, Prod.mk.injEq] at hg; exact absurd hg.2.symm h1
      | some m' => simp only [hl2, Option.some.injEq, Prod.mk.injEq] at hg; exact absurd hg.2.symm hne

theorem getHash_of_first {h : List (Bytes × Bytes)} {id1 id2 n : Bytes}
    (hl : hlookup h id1 = some n) (hn : n ≠ []) : getHash h [id1, id2] = some (n, id1) := by
  simp only [getHash, hl]; rw [if_pos hn]

theorem inv_applyReq {id1 id2 A n r : Bytes} {d : Nat} {X : Int} (hne : id1 ≠ id2) (h1 : id1 ≠ [])
    (hA : A = id1 ∨ A = id2) {t : Target} (hi : Inv id1 id2 A t n r d X) (req : Req)
    (hs : SafeReq id1 id2 A n r d req) : Inv id1 id2 A (applyReq t req) n r d X := by
  cases req with
  | hsetCp db name es => exact absurd hs (by simp [SafeReq])
  | delKeys db names => exact absurd hs (by simp [SafeReq])
  | hsetHash rid name => exact absurd hs (by simp [SafeReq])
  | hsetnxHash rid name => exact absurd hs (by simp [SafeReq])
  | hdelHash rid =>
    have hs' : rid ≠ id1 ∧ (rid ≠ id2 ∨ r = id1) := hs
    rcases hs'.2 with h2 | h2
    · apply hi.congr
      · apply getHash_congr
        · exact hlookup_hashDel_ne _ _ _ (Ne.symm hs'.1)
        · exact hlookup_hashDel_ne _ _ _ (Ne.symm h2)
      · intro db; rfl
    · subst h2
      obtain ⟨hl, hn⟩ := getHash_first hne h1 hi.hash
      apply hi.congr
      · show getHash (hashDel t.hash rid) [r, id2] = getHash t.hash [r, id2]
        rw [hi.hash]
        exact getHash_of_first ((hlookup_hashDel_ne _ _ _ (Ne.symm hs'.1)).trans hl) hn
      · intro db; rfl
  | hdelCp db name ks =>
    have hs' : name ≠ n ∨ ∃ ρ, (∀ k ∈ ks, k.1 = ρ) ∧ (ρ, Kind.offset) ∈ ks ∧ (db ≠ d ∨ ρ ≠ A) := hs
    by_cases hname : name = n
    · subst hname
      rcases hs' with h | ⟨ρ, hkeys, hoffk, hsafe⟩
      · exact absurd rfl h
      · have hother : ∀ db', db' ≠ db →
            (applyReq t (.hdelCp db name ks)).cps db' name = t.cps db' name := by
          intro db' hd'; rw [applyReq_hdelCp_cps]; simp [hd']
        have hnew : (applyReq t (.hdelCp db name ks)).cps db name = hdelMany (t.cps db name) ks := by
          rw [applyReq_hdelCp_cps]; simp
        have hsub : ∀ e, e ∈ hdelMany (t.cps db name) ks → e ∈ t.cps db name :=
          fun e he => (List.mem_filter.mp he).1
        refine ⟨hi.hash, ?_, ?_, ?_⟩
        · apply hi.holds.update _ db hother
          · rw [hnew]; exact (hi.holds.parses db).filter _
          · intro hdb
            subst hdb
            have hρ : ρ ≠ A := by rcases hsafe with h | h; exact absurd rfl h; exact h
            rw [hnew]
            by_cases hm : matchId [id1, id2] ρ = true
            · have hpair : (A = id1 ∧ ρ = id2) ∨ (A = id2 ∧ ρ = id1) := by
                rcases (matchId_pair id1 id2 ρ).mp hm with h1 | h1 <;> rcases hA with h2 | h2
                · exact absurd (h1.trans h2.symm) hρ
                · exact Or.inr ⟨h2, h1⟩
                · exact Or.inl ⟨h2, h1⟩
                · exact absurd (h1.trans h2.symm) hρ
              refine ⟨?_, ?_⟩
              · rw [offOf_pair_hdel id1 id2 A ρ (Ne.symm hρ) hpair _ ks hkeys hoffk]
                exact hi.carrier.1
              · -- A's own `_runid` field survives, and no `_runid` field of the ids stores "?"
                apply foldl_ridStep_ne
                · intro x hx hs; exact hi.ridok db x (hsub x hx) hs
                · left
                  obtain ⟨x, hx, hsx⟩ := exists_of_ridOf_ne [A] (t.cps db name) qmark hi.carrier.2
                  have hxA : x.rid = A := ((ridSel_iff [A] x).mp hsx).1 |> (matchId_one A x.rid).mp
                  have hxk : x.kind = .runid := ((ridSel_iff [A] x).mp hsx).2
                  refine ⟨x, ?_, ?_⟩
                  · apply List.mem_filter.mpr
                    refine ⟨hx, ?_⟩
                    simp only [decide_eq_true_eq]
                    intro hc
                    exact hρ ((key_rid_of_contains hkeys hc).symm.trans hxA)
                  · rw [ridSel_iff, matchId_pair]
                    refine ⟨?_, hxk⟩
                    rcases hA with h | h
                    · left; rw [hxA, h]
                    · right; rw [hxA, h]
            · have hm' : matchId [id1, id2] ρ = false := by simpa using hm
              have hirr : ∀ (sel : Entry → Bool), (∀ e, sel e = true → matchId [id1, id2] e.rid = true) →
                  ∀ e ∈ t.cps db name, ks.contains e.key = true → sel e = false := by
                intro sel hsel e _ hc
                rw [← Bool.not_eq_true]
                intro hs
                have := hsel e hs
                rw [key_rid_of_contains hkeys hc, hm'] at this
                exact absurd this (by decide)
              rw [offOf_hdel_irrel _ _ _ (hirr (offSel [id1, id2]) (fun e h => ((offSel_iff _ e).mp h).1)),
                  ridOf_hdel_irrel _ _ _ (hirr (ridSel [id1, id2]) (fun e h => ((ridSel_iff _ e).mp h).1))]
              exact ⟨hi.holds.off, hi.holds.rid⟩
          · intro hdb
            rw [hnew]; exact (hi.holds.dom db hdb).filter _
        · unfold Carrier
          by_cases hdb : d = db
          · subst hdb
            have hρ : ρ ≠ A := by rcases hsafe with h | h; exact absurd rfl h; exact h
            have hirrA : ∀ (sel : Entry → Bool), (∀ e, sel e = true → e.rid = A) →
                ∀ e ∈ t.cps d name, ks.contains e.key = true → sel e = false := by
              intro sel hsel e _ hc
              rw [← Bool.not_eq_true]
              intro hs
              exact hρ ((key_rid_of_contains hkeys hc).symm.trans (hsel e hs))
            rw [hnew,
              offOf_hdel_irrel _ _ _ (hirrA (offSel [A]) (fun e h => (matchId_one A e.rid).mp ((offSel_iff _ e).mp h).1)),
              ridOf_hdel_irrel _ _ _ (hirrA (ridSel [A]) (fun e h => (matchId_one A e.rid).mp ((ridSel_iff _ e).mp h).1))]
            exact hi.carrier
          · rw [hother d hdb]; exact hi.carrier
        · intro db' e he
          by_cases hdb : db' = db
          · subst hdb
            rw [hnew] at he
            exact hi.ridok db' e (hsub e he)
          · rw [hother db' hdb] at he; exact hi.ridok db' e he
    · apply hi.congr (t' := applyReq t (.hdelCp db name ks)) rfl
      intro db'
      rw [applyReq_hdelCp_cps]
      have : ¬ (db' = db ∧ n = name) := fun h => hname h.2.symm
      simp [this]

theorem inv_applyAll {id1 id2 A n r : Bytes} {d : Nat} {X : Int} (hne : id1 ≠ id2) (h1 : id1 ≠ [])
    (hA : A = id1 ∨ A = id2) (rs : List Req) :
    ∀ {t : Target}, Inv id1 id2 A t n r d X → (∀ q ∈ rs, SafeReq id1 id2 A n r d q) →
      Inv id1 id2 A (applyAll t rs) n r d X := by
  induction rs with
  | nil => intro t hi _; exact hi
  | cons q rs ih =>
    intro t hi hs
    simp only [applyAll, List.foldl_cons]
    exact ih (inv_applyReq hne h1 hA hi q (hs q (List.mem_cons_self ..)))
      (fun q' hq' => hs q' (List.mem_cons_of_mem _ hq'))

/-- deletions keep `_runid` fields owning their id -/
theorem own_applyReq {id1 id2 A n r : Bytes} {d : Nat} {t : Target} (ho : RunidOwn t n) (req : Req)
    (hs : SafeReq id1 id2 A n r d req) : RunidOwn (applyReq t req) n := by
  cases req with
  | hsetCp db name es => exact absurd hs (by simp [SafeReq])
  | delKeys db names => exact absurd hs (by simp [SafeReq])
  | hsetHash rid name => exact absurd hs (by simp [SafeReq])
  | hsetnxHash rid name => exact absurd hs (by simp [SafeReq])
  | hdelHash rid => exact ho
  | hdelCp db name ks =>
    intro db' e he
    rw [applyReq_hdelCp_cps] at he
    split at he
    · rename_i hc
      rw [← hc.2, ← hc.1] at he
      exact ho db' e (List.mem_filter.mp he).1
    · exact ho db' e he

theorem own_applyAll {id1 id2 A n r : Bytes} {d : Nat} (rs : List Req) :
    ∀ {t : Target}, RunidOwn t n → (∀ q ∈ rs, SafeReq id1 id2 A n r d q) →
      RunidOwn (applyAll t rs) n := by
  induction rs with
  | nil => intro t ho _; exact ho
  | cons q rs ih =>
    intro t ho hs
    simp only [applyAll, List.foldl_cons]
    exact ih (own_applyReq ho q (hs q (List.mem_cons_self ..)))
      (fun q' hq' => hs q' (List.mem_cons_of_mem _ hq'))

theorem applyAll_append (t : Target) (a b : List Req) :
    applyAll t (a ++ b) = applyAll (applyAll t a) b := by
  simp [applyAll, List.foldl_append]

/-- the position a start reads in a state satisfying the invariant -/
theorem Inv.startPoint {id1 id2 A n r : Bytes} {d : Nat} {X : Int} {t : Target}
    (hi : Inv id1 id2 A t n r d X) (hn0 : n ≠ []) (ver : Bytes) (order : List Nat) (hd : d ∈ order) :
    startPoint ver [id1, id2] order t = some (some (X, d)) :=
  startPoint_of_holds ver hi.hash hn0 hi.holds order hd

/-! ### DelStaleCheckpoint / gcStaleCp -/

theorem Parses.sub {ids ids' : List Bytes} {fs : Cp} (h : Parses ids fs)
    (hsub : ∀ x, matchId ids' x = true → matchId ids x = true) : Parses ids' fs :=
  fun e he hm hk => h e he (hsub _ hm) hk

theorem OffBelow.sub {ids ids' : List Bytes} {fs : Cp} {X : Int} (h : OffBelow ids fs X)
    (hsub : ∀ x, matchId ids' x = true → matchId ids x = true) : OffBelow ids' fs X := by
  intro x hx hs v hv
  apply h x hx _ v hv
  rw [offSel_iff] at hs ⊢
  exact ⟨hsub _ hs.1, hs.2⟩

theorem matchId_one_sub (id1 id2 A : Bytes) (hA : A = id1 ∨ A = id2) :
    ∀ x, matchId [A] x = true → matchId [id1, id2] x = true := by
  intro x hx
  rw [matchId_one] at hx; rw [matchId_pair]
  rcases hA with h | h
  · left; rw [hx, h]
  · right; rw [hx, h]

/-- every entry the scan collected is what `fetchCheckpoint` read in that database -/
theorem staleScan_found (t : Target) (name rid : Bytes) (order : List Nat) :
    ∀ (s0 s : StaleScan), (∀ p ∈ s0.found, fetch [rid] (t.cps p.1 name) = some p.2) →
      order.foldl (staleScanStep t name rid) (some s0) = some s →
      ∀ p ∈ s.found, fetch [rid] (t.cps p.1 name) = some p.2 := by
  induction order with
  | nil => intro s0 s h0 h; simp only [List.foldl_nil, Option.some.injEq] at h; subst h; exact h0
  | cons db rest ih =>
    intro s0 s h0 h
    simp only [List.foldl_cons] at h
    cases hf : fetch [rid] (t.cps db name) with
    | none =>
      have hnone : ∀ l : List Nat, l.foldl (staleScanStep t name rid) none = none := by
        intro l; induction l with
        | nil => rfl
        | cons _ _ ihl => simpa [staleScanStep] using ihl
      simp only [staleScanStep, hf] at h
      rw [hnone] at h; exact absurd h (by simp)
    | some cpi =>
      simp only [staleScanStep, hf] at h
      refine ih _ s ?_ h
      intro p hp
      split at hp
      · rcases List.mem_append.mp hp with hp | hp
        · split at hp <;> exact h0 p hp
        · have : p = (db, cpi) := by simpa using hp
          subst this; exact hf
      · split at hp <;> exact h0 p hp

/-- a run id read through own `_runid` fields is the id or "?" -/
theorem foldl_ridStep_one (A : Bytes) (fs : Cp)
    (hown : ∀ e ∈ fs, e.kind = .runid → e.val = e.rid) :
    ∀ r, (r = A ∨ r = qmark) → (fs.foldl (ridStep [A]) r = A ∨ fs.foldl (ridStep [A]) r = qmark) := by
  induction fs with
  | nil => intro r h; exact h
  | cons y fs ih =>
    intro r h
    simp only [List.foldl_cons]
    apply ih (fun e he => hown e (List.mem_cons_of_mem _ he))
    unfold ridStep
    split
    · rename_i hy
      rw [ridSel_iff, matchId_one] at hy
      left; rw [hown y (List.mem_cons_self ..) hy.2, hy.1]
    · exact h

private structure SInv (d : Nat) (X : Int) (s : StaleScan) : Prop where
  le : s.newest ≤ X
  eq : s.newest = X → s.newestDb = d
  found : ∀ p ∈ s.found, p.1 = d → s.newest = X

/-- what one iteration of the first loop does to the scan record -/
def scanNext (s : StaleScan) (db : Nat) (cpi : CpInfo) : StaleScan :=
  let s1 : StaleScan := if cpi.offset > s.newest then { s with newest := cpi.offset, newestDb := db } else s
  if cpi.offset > 0 then { s1 with found := s1.found ++ [(db, cpi)] } else s1

theorem staleScanStep_some (t : Target) (name rid : Bytes) (s : StaleScan) (db : Nat) (cpi : CpInfo)
    (hf : fetch [rid] (t.cps db name) = some cpi) :
    staleScanStep t name rid (some s) db = some (scanNext s db cpi) := by
  simp only [staleScanStep, hf, scanNext]

theorem scanNext_fields (s : StaleScan) (db : Nat) (cpi : CpInfo) :
    ((scanNext s db cpi).newest = if cpi.offset > s.newest then cpi.offset else s.newest) ∧
    ((scanNext s db cpi).newestDb = if cpi.offset > s.newest then db else s.newestDb) ∧
    (∀ p ∈ (scanNext s db cpi).found, p ∈ s.found ∨ p = (db, cpi)) := by
  unfold scanNext
  by_cases h1 : cpi.offset > s.newest <;> by_cases h2 : cpi.offset > 0 <;>
    simp only [h1, h2, if_true, if_false] <;> refine ⟨trivial, trivial, ?_⟩ <;> intro p hp
  · rcases List.mem_append.mp hp with hp | hp
    · exact Or.inl hp
    · exact Or.inr (by simpa using hp)
  · exact Or.inl hp
  · rcases List.mem_append.mp hp with hp | hp
    · exact Or.inl hp
    · exact Or.inr (by simpa using hp)
  · exact Or.inl hp

/-- one id alone: database `d` reads its largest offset `X ≥ 0`, every `_offset` field of the id
    in another database is smaller, its numeric fields parse -/
structure Solo (rid : Bytes) (t : Target) (name : Bytes) (d : Nat) (X : Int) : Prop where
  nonneg : 0 ≤ X
  parses : ∀ db, Parses [rid] (t.cps db name)
  off : offOf [rid] (t.cps d name) = X
  below : ∀ db, db ≠ d → OffBelow [rid] (t.cps db name) X

private theorem staleScan_newest_aux {rid name : Bytes} {d : Nat} {X : Int} {t : Target}
    (hi : Solo rid t name d X) (order : List Nat) :
    ∀ (s0 s : StaleScan), SInv d X s0 →
      order.foldl (staleScanStep t name rid) (some s0) = some s → SInv d X s := by
  induction order with
  | nil => intro s0 s h0 h; simp only [List.foldl_nil, Option.some.injEq] at h; subst h; exact h0
  | cons db rest ih =>
    intro s0 s h0 h
    simp only [List.foldl_cons] at h
    obtain ⟨cpi, hf, hoff, _⟩ := fetch_spec [rid] (t.cps db name) (hi.parses db)
    rw [staleScanStep_some t name rid s0 db cpi hf] at h
    refine ih _ s ?_ h
    obtain ⟨e1, e2, e3⟩ := scanNext_fields s0 db cpi
    have hle := h0.le
    by_cases hdb : db = d
    · subst hdb
      have hX : cpi.offset = X := by rw [hoff]; exact hi.off
      refine ⟨?_, ?_, ?_⟩
      · rw [e1]; split <;> omega
      · intro _; rw [e2]; split
        · rfl
        · exact h0.eq (by omega)
      · intro p _ _; rw [e1]; split <;> omega
    · have hlt : cpi.offset < X := by
        rw [hoff]; exact offOf_lt_of_below (hi.below db hdb) hi.nonneg
      refine ⟨?_, ?_, ?_⟩
      · rw [e1]; split <;> omega
      · rw [e1, e2]; split
        · intro h'; omega
        · exact h0.eq
      · intro p hp hpd
        rcases e3 p hp with hp | hp
        · have := h0.found p hp hpd
          rw [e1]; split <;> omega
        · subst hp; exact absurd hpd hdb

theorem staleScan_newest_solo {rid name : Bytes} {d : Nat} {X : Int} {t : Target}
    (hi : Solo rid t name d X) (order : List Nat)
    (s : StaleScan) (h : staleScan t name rid order = some s) :
    ∀ p ∈ s.found, p.1 = d → s.newestDb = d := by
  have h0 : SInv d X {} := ⟨by have := hi.nonneg; simp; omega,
    by intro h; have := hi.nonneg; simp at h; omega, by simp⟩
  have := staleScan_newest_aux hi order {} s h0 h
  intro p hp hpd
  exact this.eq (this.found p hp hpd)

theorem Inv.solo {id1 id2 A n r : Bytes} {d : Nat} {X : Int} {t : Target}
    (hA : A = id1 ∨ A = id2) (hi : Inv id1 id2 A t n r d X) : Solo A t n d X :=
  ⟨hi.holds.nonneg, fun db => (hi.holds.parses db).sub (matchId_one_sub id1 id2 A hA), hi.carrier.1,
   fun db hdb => (hi.holds.dom db hdb).sub (matchId_one_sub id1 id2 A hA)⟩

theorem staleScan_newest {id1 id2 A n r : Bytes} {d : Nat} {X : Int}
    (hA : A = id1 ∨ A = id2) {t : Target} (hi : Inv id1 id2 A t n r d X) (order : List Nat)
    (s : StaleScan) (h : staleScan t n A order = some s) :
    ∀ p ∈ s.found, p.1 = d → s.newestDb = d :=
  staleScan_newest_solo (hi.solo hA) order s h

/-- read with one id through own `_runid` fields, the run id is that id or "?" -/
theorem fetch_one_runId (rid : Bytes) : ∀ (fs : Cp) (c : CpInfo), (∀ e ∈ fs, e.kind = .runid → e.val = e.rid) →
    ∀ c0 : CpInfo, (c0.runId = rid ∨ c0.runId = qmark) →
    fs.foldl (fetchStep [rid]) (some c0) = some c → (c.runId = rid ∨ c.runId = qmark) := by
  intro fs
  induction fs with
  | nil => intro c _ c0 h0 h; simp only [List.foldl_nil, Option.some.injEq] at h; subst h; exact h0
  | cons y fs ih =>
    intro c hown c0 h0 h
    simp only [List.foldl_cons] at h
    have hnone : ∀ l : Cp, l.foldl (fetchStep [rid]) none = none := by
      intro l; induction l with
      | nil => rfl
      | cons _ _ ihl => simpa [fetchStep] using ihl
    cases hstep : fetchStep [rid] (some c0) y with
    | none => rw [hstep, hnone] at h; exact absurd h (by simp)
    | some c1 =>
      rw [hstep] at h
      refine ih c (fun e he => hown e (List.mem_cons_of_mem _ he)) c1 ?_ h
      unfold fetchStep at hstep
      by_cases hm : matchId [rid] y.rid = true
      · simp only [hm, if_true] at hstep
        cases hk : y.kind with
        | runid =>
          simp only [hk, Option.some.injEq] at hstep
          subst hstep
          left; simp only
          rw [hown y (List.mem_cons_self ..) hk]
          exact (matchId_one rid y.rid).mp hm
        | offset =>
          simp only [hk] at hstep
          cases hv : Resp.parseInt64 y.val with
          | none => simp [hv] at hstep
          | some v => simp only [hv, Option.map_some, Option.some.injEq] at hstep; subst hstep; exact h0
        | mtime =>
          simp only [hk] at hstep
          cases hv : Resp.parseInt64 y.val with
          | none => simp [hv] at hstep
          | some v => simp only [hv, Option.map_some, Option.some.injEq] at hstep; subst hstep; exact h0
        | version => simp only [hk, Option.some.injEq] at hstep; subst hstep; exact h0
        | other => simp only [hk, Option.some.injEq] at hstep; subst hstep; exact h0
      · simp only [hm] at hstep
        simp only [Bool.false_eq_true, if_false, Option.some.injEq] at hstep
        subst hstep; exact h0

/-- the requests of one `DelStaleCheckpoint` call are safe for the held position -/
theorem delStale_safe {id1 id2 A n r : Bytes} {d : Nat} {X : Int}
    (hA : A = id1 ∨ A = id2) (hq : A ≠ qmark) {t : Target} (hi : Inv id1 id2 A t n r d X)
    (hown : RunidOwn t n)
    (cpn rid : Bytes) (before : Int) (exist : Bool) (order : List Nat)
    (hex : rid = A → exist = true) :
    ∀ q ∈ (delStale t cpn rid before exist order).2.2, SafeReq id1 id2 A n r d q := by
  intro q hq'
  unfold delStale at hq'
  cases hs : staleScan t cpn rid order with
  | none => simp [hs] at hq'
  | some s =>
    simp only [hs] at hq'
    obtain ⟨p, hp, rfl⟩ := List.mem_map.mp hq'
    have hpf : p ∈ s.found := (List.mem_filter.mp hp).1
    have hpv := (List.mem_filter.mp hp).2
    show cpn ≠ n ∨ ∃ ρ, (∀ k ∈ staleKeys p.2.runId exist, k.1 = ρ) ∧
      (ρ, Kind.offset) ∈ staleKeys p.2.runId exist ∧ (p.1 ≠ d ∨ ρ ≠ A)
    by_cases hname : cpn = n
    · subst hname
      right
      refine ⟨p.2.runId, ?_, ?_, ?_⟩
      · intro k hk; unfold staleKeys at hk; split at hk <;> simp [fourKeys] at hk <;>
          rcases hk with rfl | rfl | rfl | rfl <;> rfl
      · unfold staleKeys; split <;> simp [fourKeys]
      by_cases hrid : rid = A
      · subst hrid
        left
        intro hpd
        have hnew := staleScan_newest hA hi order s hs p hpf hpd
        have hE := hex rfl
        simp only [hE, decide_eq_true_eq] at hpv
        apply hpv; left
        exact ⟨hpd.trans hnew.symm, trivial⟩
      · right
        have hfetch := staleScan_found t cpn rid order {} s (by simp) hs p hpf
        -- the run id read with [rid] is rid or "?"
        have hown : ∀ e ∈ t.cps p.1 cpn, e.kind = .runid → e.val = e.rid := hown p.1
        have := fetch_one_runId rid (t.cps p.1 cpn) p.2 hown {} (Or.inr rfl) hfetch
        rcases this with h | h
        · rw [h]; exact hrid
        · rw [h]; exact hq.symm
    · left; exact hname

theorem mem_take {α : Type} {l : List α} {k : Nat} {a : α} (h : a ∈ l.take k) : a ∈ l :=
  List.mem_of_mem_take h

/-- gc keeps the invariant at every request prefix -/
theorem gcLoop_prefix {id1 id2 A n r : Bytes} {d : Nat} {X : Int} (hne : id1 ≠ id2) (h10 : id1 ≠ [])
    (hA : A = id1 ∨ A = id2) (hq : A ≠ qmark) (live : List Bytes) (h1 : id1 ∈ live) (h2 : id2 ∈ live)
    (before : Int) :
    ∀ (pairs : List (Bytes × Bytes)) (orders : List (List Nat)) (t : Target),
      Inv id1 id2 A t n r d X → RunidOwn t n → ∀ k,
      Inv id1 id2 A (applyAll t ((gcLoop live before t pairs orders).take k)) n r d X := by
  intro pairs
  induction pairs with
  | nil => intro orders t hi _ k; simpa [gcLoop, applyAll] using hi
  | cons pr rest ih =>
    intro orders t hi hown k
    obtain ⟨rid, cpn⟩ := pr
    simp only [gcLoop]
    generalize hrs : (delStale t cpn rid before (live.contains rid) (orders.headD [])).2.2 ++
      (if ¬ (live.contains rid = true) ∧
          (delStale t cpn rid before (live.contains rid) (orders.headD [])).1 =
          (delStale t cpn rid before (live.contains rid) (orders.headD [])).2.1
        then [Req.hdelHash rid] else []) = rs
    have hAlive : A ∈ live := by rcases hA with h | h <;> rw [h] <;> assumption
    have hsafe : ∀ q ∈ rs, SafeReq id1 id2 A n r d q := by
      intro q hq'
      rw [← hrs] at hq'
      rcases List.mem_append.mp hq' with hq' | hq'
      · exact delStale_safe hA hq hi hown cpn rid before _ _
          (fun h => by rw [h]; exact List.contains_iff_mem.mpr hAlive) q hq'
      · split at hq'
        · rename_i hc
          have : q = Req.hdelHash rid := by simpa using hq'
          subst this
          have hnl : rid ∉ live := fun h => hc.1 (List.contains_iff_mem.mpr h)
          exact ⟨fun h => hnl (h ▸ h1), Or.inl (fun h => hnl (h ▸ h2))⟩
        · simp at hq'
    rw [List.take_append, applyAll_append]
    by_cases hk : k ≤ rs.length
    · have : k - rs.length = 0 := by omega
      rw [this, List.take_zero]
      show Inv id1 id2 A (applyAll t (rs.take k)) n r d X
      exact inv_applyAll hne h10 hA _ hi (fun q hq' => hsafe q (mem_take hq'))
    · have : rs.take k = rs := List.take_of_length_le (by omega)
      rw [this]
      exact ih _ _ (inv_applyAll hne h10 hA _ hi hsafe) (own_applyAll _ hown hsafe) _

/-- what the scan's `newest`/`newestDb` are: the largest offset read and a database reading it -/
structure ScanMax (t : Target) (name rid : Bytes) (visited : List Nat) (s : StaleScan) : Prop where
  floor : -2 ≤ s.newest
  ge : ∀ db ∈ visited, ∀ c, fetch [rid] (t.cps db name) = some c → c.offset ≤ s.newest
  attained : -2 < s.newest → s.newestDb ∈ visited ∧
    ∃ c, fetch [rid] (t.cps s.newestDb name) = some c ∧ c.offset = s.newest

theorem staleScan_max_aux (t : Target) (name rid : Bytes) (order : List Nat) :
    ∀ (visited : List Nat) (s0 s : StaleScan), ScanMax t name rid visited s0 →
      order.foldl (staleScanStep t name rid) (some s0) = some s →
      ScanMax t name rid (visited ++ order) s := by
  induction order with
  | nil =>
    intro v s0 s h0 h
    simp only [List.foldl_nil, Option.some.injEq] at h; subst h; simpa using h0
  | cons db rest ih =>
    intro v s0 s h0 h
    simp only [List.foldl_cons] at h
    cases hf : fetch [rid] (t.cps db name) with
    | none =>
      have hnone : ∀ l : List Nat, l.foldl (staleScanStep t name rid) none = none := by
        intro l; induction l with
        | nil => rfl
        | cons _ _ ihl => simpa [staleScanStep] using ihl
      simp only [staleScanStep, hf] at h
      rw [hnone] at h; exact absurd h (by simp)
    | some cpi =>
      rw [staleScanStep_some t name rid s0 db cpi hf] at h
      have := ih (v ++ [db]) _ s ?_ h
      · simpa using this
      · obtain ⟨e1, e2, _⟩ := scanNext_fields s0 db cpi
        have hfl := h0.floor
        refine ⟨?_, ?_, ?_⟩
        · rw [e1]; split <;> omega
        · intro db' hdb' c hc
          rw [e1]
          rcases List.mem_append.mp hdb' with hdb' | hdb'
          · have := h0.ge db' hdb' c hc
            split <;> omega
          · have : db' = db := by simpa using hdb'
            subst this
            rw [hf] at hc; have := Option.some.inj hc; subst this
            split <;> omega
        · intro hgt
          rw [e1] at hgt; rw [e1, e2]
          split
          · exact ⟨by simp, cpi, hf, rfl⟩
          · rename_i hng
            simp only [hng, if_false] at hgt
            obtain ⟨hm, c, hc, hco⟩ := h0.attained hgt
            exact ⟨List.mem_append_left _ hm, c, hc, hco⟩

theorem staleScan_max (t : Target) (name rid : Bytes) (order : List Nat) (s : StaleScan)
    (h : staleScan t name rid order = some s) : ScanMax t name rid order s := by
  have h0 : ScanMax t name rid [] {} := ⟨by simp, by simp, by simp⟩
  simpa using staleScan_max_aux t name rid order [] {} s h0 h

/-! ### gc and ANY id a source still reports -/

/-- requests that leave the newest entry (database `d` under key `name`) of id `rid` alone -/
def GSafe (rid name : Bytes) (d : Nat) : Req → Prop
  | .hdelCp db nm ks => ∃ ρ, (∀ k ∈ ks, k.1 = ρ) ∧ (nm = name → ρ ≠ rid ∨ db ≠ d)
  | .hdelHash r' => r' ≠ rid
  | _ => False

structure LiveInv (rid name : Bytes) (d : Nat) (X : Int) (t : Target) : Prop where
  solo : Solo rid t name d X
  own : ∀ n, RunidOwn t n

theorem liveInv_applyReq {rid name : Bytes} {d : Nat} {X : Int} {t : Target}
    (hi : LiveInv rid name d X t) (q : Req) (hq : GSafe rid name d q) :
    LiveInv rid name d X (applyReq t q) := by
  cases q with
  | hsetCp db nm es => exact absurd hq (by simp [GSafe])
  | delKeys db names => exact absurd hq (by simp [GSafe])
  | hsetHash r' nm => exact absurd hq (by simp [GSafe])
  | hsetnxHash r' nm => exact absurd hq (by simp [GSafe])
  | hdelHash r' => exact ⟨⟨hi.solo.nonneg, hi.solo.parses, hi.solo.off, hi.solo.below⟩, hi.own⟩
  | hdelCp db nm ks =>
    obtain ⟨ρ, hkeys, hsafe⟩ := hq
    have hcps : ∀ db' n', (applyReq t (.hdelCp db nm ks)).cps db' n' =
        if db' = db ∧ n' = nm then hdelMany (t.cps db nm) ks else t.cps db' n' :=
      fun db' n' => applyReq_hdelCp_cps t db nm ks db' n'
    refine ⟨⟨hi.solo.nonneg, ?_, ?_, ?_⟩, ?_⟩
    · intro db'
      rw [hcps]; split
      · rename_i hc; rw [← hc.2]; exact (hi.solo.parses db).filter _
      · exact hi.solo.parses db'
    · rw [hcps]; split
      · rename_i hc
        have hρ : ρ ≠ rid := by
          rcases hsafe hc.2.symm with h | h
          · exact h
          · exact absurd hc.1.symm h
        rw [← hc.2, ← hc.1, offOf_hdel_irrel]
        · exact hi.solo.off
        · intro e _ hcont
          rw [← Bool.not_eq_true, offSel_iff, matchId_one]
          intro hs; exact hρ ((key_rid_of_contains hkeys hcont).symm.trans hs.1)
      · exact hi.solo.off
    · intro db' hdb'
      rw [hcps]; split
      · rename_i hc; rw [← hc.2, ← hc.1]; exact (hi.solo.below db' hdb').filter _
      · exact hi.solo.below db' hdb'
    · intro n' db' e he hk
      rw [hcps] at he
      split at he
      · rename_i hc; rw [hc.1, hc.2] at *; exact hi.own nm db e (List.mem_filter.mp he).1 hk
      · exact hi.own n' db' e he hk

theorem liveInv_applyAll {rid name : Bytes} {d : Nat} {X : Int} (rs : List Req) :
    ∀ {t : Target}, LiveInv rid name d X t → (∀ q ∈ rs, GSafe rid name d q) →
      LiveInv rid name d X (applyAll t rs) := by
  induction rs with
  | nil => intro t hi _; exact hi
  | cons q rs ih =>
    intro t hi hs
    simp only [applyAll, List.foldl_cons]
    exact ih (liveInv_applyReq hi q (hs q (List.mem_cons_self ..)))
      (fun q' hq' => hs q' (List.mem_cons_of_mem _ hq'))

theorem delStale_gsafe {rid name : Bytes} {d : Nat} {X : Int} {t : Target}
    (hq : rid ≠ qmark) (hi : LiveInv rid name d X t)
    (cpn rid' : Bytes) (before : Int) (exist : Bool) (order : List Nat) (hex : rid' = rid → exist = true) :
    ∀ q ∈ (delStale t cpn rid' before exist order).2.2, GSafe rid name d q := by
  intro q hq'
  unfold delStale at hq'
  cases hs : staleScan t cpn rid' order with
  | none => simp [hs] at hq'
  | some s =>
    simp only [hs] at hq'
    obtain ⟨p, hp, rfl⟩ := List.mem_map.mp hq'
    have hpf : p ∈ s.found := (List.mem_filter.mp hp).1
    have hpv := (List.mem_filter.mp hp).2
    refine ⟨p.2.runId, ?_, ?_⟩
    · intro k hk; unfold staleKeys at hk; split at hk <;> simp [fourKeys] at hk <;>
        rcases hk with rfl | rfl | rfl | rfl <;> rfl
    · intro hname
      subst hname
      by_cases hrid : rid' = rid
      · subst hrid
        right
        intro hpd
        have hnew := staleScan_newest_solo hi.solo order s hs p hpf hpd
        have hE := hex rfl
        simp only [hE, decide_eq_true_eq] at hpv
        apply hpv; left
        exact ⟨hpd.trans hnew.symm, trivial⟩
      · left
        have hfetch := staleScan_found t cpn rid' order {} s (by simp) hs p hpf
        rcases fetch_one_runId rid' (t.cps p.1 cpn) p.2 (hi.own cpn p.1) {} (Or.inr rfl) hfetch with h | h
        · rw [h]; exact hrid
        · rw [h]; exact hq.symm

/-- no request of a whole gc pass touches the newest entry of a live id or its hash entry -/
theorem gcLoop_gsafe {rid name : Bytes} {d : Nat} {X : Int} (hq : rid ≠ qmark) (live : List Bytes)
    (hl : rid ∈ live) (before : Int) :
    ∀ (pairs : List (Bytes × Bytes)) (orders : List (List Nat)) (t : Target),
      LiveInv rid name d X t → ∀ q ∈ gcLoop live before t pairs orders, GSafe rid name d q := by
  intro pairs
  induction pairs with
  | nil => intro orders t _ q hq'; simp [gcLoop] at hq'
  | cons pr rest ih =>
    intro orders t hi q hq'
    obtain ⟨rid', cpn⟩ := pr
    simp only [gcLoop] at hq'
    generalize hrs : (delStale t cpn rid' before (live.contains rid') (orders.headD [])).2.2 ++
      (if ¬ (live.contains rid' = true) ∧
          (delStale t cpn rid' before (live.contains rid') (orders.headD [])).1 =
          (delStale t cpn rid' before (live.contains rid') (orders.headD [])).2.1
        then [Req.hdelHash rid'] else []) = rs at hq'
    have hsafe : ∀ q ∈ rs, GSafe rid name d q := by
      intro q hq''
      rw [← hrs] at hq''
      rcases List.mem_append.mp hq'' with hq'' | hq''
      · exact delStale_gsafe hq hi cpn rid' before _ _
          (fun h => by rw [h]; exact List.contains_iff_mem.mpr hl) q hq''
      · split at hq''
        · rename_i hc
          have : q = Req.hdelHash rid' := by simpa using hq''
          subst this
          show rid' ≠ rid
          intro h; exact hc.1 (List.contains_iff_mem.mpr (h ▸ hl))
        · simp at hq''
    rcases List.mem_append.mp hq' with h | h
    · exact hsafe q h
    · exact ih _ _ (liveInv_applyAll rs hi hsafe) q h

end GunYu.Checkpoint
