/-
  Helper lemmas for C17, part 3: single write requests preserve the position
  predicate `Holds`; the request lists of UpdateCheckpoint / DelStaleCheckpoint /
  gcStaleCp consist of such requests. Core only.
-/
import GunYu.Proofs.Checkpoint

namespace GunYu.Checkpoint
open GunYu

set_option linter.unusedSimpArgs false
set_option linter.unusedVariables false

theorem matchId_pair (a b x : Bytes) : matchId [a, b] x = true ↔ x = a ∨ x = b := by
  simp [matchId]

theorem matchId_one (a x : Bytes) : matchId [a] x = true ↔ x = a := by
  simp [matchId]

/-! ### the checkpoint hash -/

theorem lookup_map_set_ne (h : List (Bytes × Bytes)) (k v a : Bytes) (hne : a ≠ k) :
    (h.map (fun p => if p.1 = k then (k, v) else p)).lookup a = h.lookup a := by
  induction h with
  | nil => rfl
  | cons p h ih =>
    obtain ⟨pk, pv⟩ := p
    by_cases hp : pk = k
    · subst hp
      have : (a == pk) = false := by simpa using hne
      simp [List.lookup, this, ih]
    · by_cases ha : a = pk
      · subst ha; simp [List.lookup, hp]
      · have : (a == pk) = false := by simpa using ha
        simp [List.lookup, hp, this, ih]

theorem lookup_map_set_self (h : List (Bytes × Bytes)) (k v : Bytes)
    (hex : h.any (fun p => decide (p.1 = k)) = true) :
    (h.map (fun p => if p.1 = k then (k, v) else p)).lookup k = some v := by
  induction h with
  | nil => simp at hex
  | cons p h ih =>
    obtain ⟨pk, pv⟩ := p
    by_cases hp : pk = k
    · subst hp; simp [List.lookup]
    · have hk : (k == pk) = false := by simpa using (Ne.symm hp)
      have : h.any (fun p => decide (p.1 = k)) = true := by simpa [hp] using hex
      simp [List.lookup, hp, hk, ih this]

theorem lookup_append_single (h : List (Bytes × Bytes)) (k v a : Bytes) :
    (h ++ [(k, v)]).lookup a = match h.lookup a with
      | some x => some x
      | none => if a = k then some v else none := by
  induction h with
  | nil => by_cases ha : a = k <;> simp [List.lookup, ha]
  | cons p h ih =>
    obtain ⟨pk, pv⟩ := p
    by_cases ha : a = pk
    · subst ha; simp [List.lookup]
    · have : (a == pk) = false := by simpa using ha
      simp [List.lookup, this, ih]

theorem hlookup_hashSet_self (h : List (Bytes × Bytes)) (k v : Bytes) :
    hlookup (hashSet h k v) k = some v := by
  unfold hlookup hashSet
  split
  · rename_i hex; exact lookup_map_set_self h k v hex
  · rename_i hex
    rw [lookup_append_single]
    have : h.lookup k = none := by
      apply List.lookup_eq_none_iff.mpr
      intro p hp
      simp only [bne_iff_ne, ne_eq]
      intro hk
      apply hex
      exact List.any_eq_true.mpr ⟨p, hp, by simpa using hk.symm⟩
    simp [this]

theorem hlookup_hashSet_ne (h : List (Bytes × Bytes)) (k v a : Bytes) (hne : a ≠ k) :
    hlookup (hashSet h k v) a = hlookup h a := by
  unfold hlookup hashSet
  split
  · exact lookup_map_set_ne h k v a hne
  · rw [lookup_append_single]; cases h.lookup a <;> simp [hne]

theorem hlookup_hashDel_ne (h : List (Bytes × Bytes)) (k a : Bytes) (hne : a ≠ k) :
    hlookup (hashDel h k) a = hlookup h a := by
  unfold hlookup hashDel
  induction h with
  | nil => rfl
  | cons p h ih =>
    obtain ⟨pk, pv⟩ := p
    by_cases hp : pk = k
    · subst hp
      have : (a == pk) = false := by simpa using hne
      simp only [ne_eq, decide_not] at ih
      simp [List.filter, List.lookup, this, ih]
    · by_cases ha : a = pk
      · subst ha; simp [List.filter, hp, List.lookup]
      · have : (a == pk) = false := by simpa using ha
        simp only [ne_eq, decide_not] at ih
        simp [List.filter, hp, List.lookup, this, ih]

/-- `GetCheckpointHash` only looks at the two ids -/
theorem getHash_congr (h h' : List (Bytes × Bytes)) (a b : Bytes)
    (ha : hlookup h' a = hlookup h a) (hb : hlookup h' b = hlookup h b) :
    getHash h' [a, b] = getHash h [a, b] := by
  simp only [getHash, ha, hb]

end GunYu.Checkpoint
