/-
  C17 — the invariant `Good` (Proofs/BookGood.lean) as a Bool the driver evaluates on a dumped target state
  (op c17good), and that the Bool DECIDES it:

    goodChecks … X d          the clauses, each a named Bool, over the databases / keys of the dump
    goodChecks_sound          all true  →  GoodOn (the clauses as Props, quantified over the dump)
    good_of_goodOn            GoodOn + "the dump is the whole state" + the ghost clauses (names / ids used so far,
                              which no dump can show)  →  Good
  so "the driver answers good" means `Good` holds of the state the real writers produced. Core only.
-/
import GunYu.Proofs.BookGood

namespace GunYu.BookSys
open GunYu GunYu.Checkpoint

set_option linter.unusedSimpArgs false
set_option linter.unusedVariables false

def entryOKb (e : Entry) : Bool :=
  (!(decide (e.kind = Kind.offset ∨ e.kind = Kind.mtime)) || (Resp.parseInt64 e.val).isSome) &&
  (!(decide (e.kind = Kind.runid)) || decide (e.val = e.rid))

def hasKeyb (k : FKey) (fs : Cp) : Bool := fs.any (fun e => decide (e.key = k))

def noAfterb (N O : Bytes) : Cp → Bool
  | [] => true
  | e :: rest => (!(decide (e.key = (N, Kind.offset))) || rest.all (fun x => !(decide (x.key = (O, Kind.offset))))) && noAfterb N O rest

/-- every `_offset` field of the ids parses and is below (strictly / at most) `X` -/
def offsBelow (ids : List Bytes) (fs : Cp) (X : Int) (strict : Bool) : Bool :=
  fs.all (fun e => !(offSel ids e) || (match Resp.parseInt64 e.val with
    | some v => if strict then decide (v < X) else decide (v ≤ X)
    | none => false))

def unmappedb (h : List (Bytes × Bytes)) (x : Bytes) : Bool :=
  decide (hlookup h x = none) || decide (hlookup h x = some [])

theorem entryOKb_iff (e : Entry) : entryOKb e = true ↔ EntryOK e := by
  unfold entryOKb EntryOK
  simp only [Bool.and_eq_true, Bool.or_eq_true, Bool.not_eq_true', decide_eq_false_iff_not, decide_eq_true_eq]
  constructor
  · rintro ⟨h1, h2⟩
    exact ⟨fun hk => h1.resolve_left (fun h => h hk), fun hk => h2.resolve_left (fun h => h hk)⟩
  · rintro ⟨h1, h2⟩
    refine ⟨?_, ?_⟩
    · by_cases hk : e.kind = Kind.offset ∨ e.kind = Kind.mtime
      · exact Or.inr (h1 hk)
      · exact Or.inl hk
    · by_cases hk : e.kind = Kind.runid
      · exact Or.inr (h2 hk)
      · exact Or.inl hk

theorem hasKeyb_iff (k : FKey) (fs : Cp) : hasKeyb k fs = true ↔ hasKey k fs := by
  unfold hasKeyb hasKey
  simp only [List.any_eq_true, decide_eq_true_eq]

theorem noAfterb_iff (N O : Bytes) : ∀ fs : Cp, noAfterb N O fs = true ↔ NoAfter N O fs := by
  intro fs
  induction fs with
  | nil => simp [noAfterb, NoAfter]
  | cons e rest ih =>
    unfold NoAfter at ih ⊢
    simp only [noAfterb, Bool.and_eq_true, Bool.or_eq_true, Bool.not_eq_true', decide_eq_false_iff_not,
      List.all_eq_true, List.pairwise_cons, ih]
    constructor
    · rintro ⟨h1, h2⟩
      refine ⟨?_, h2⟩
      intro b hb hab
      rcases h1 with h | h
      · exact h hab.1
      · exact h b hb hab.2
    · rintro ⟨h1, h2⟩
      refine ⟨?_, h2⟩
      by_cases hk : e.key = (N, Kind.offset)
      · exact Or.inr (fun b hb hb2 => h1 b hb ⟨hk, hb2⟩)
      · exact Or.inl hk

theorem offsBelow_strict {ids : List Bytes} {fs : Cp} {X : Int} (h : offsBelow ids fs X true = true) :
    OffBelow ids fs X ∧ ∀ x ∈ fs, offSel ids x = true → (Resp.parseInt64 x.val).isSome = true := by
  unfold offsBelow at h
  rw [List.all_eq_true] at h
  constructor
  · intro x hx hs v hv
    have := h x hx
    simp only [hs, Bool.not_true, Bool.false_or, hv, if_true, decide_eq_true_eq] at this
    exact this
  · intro x hx hs
    have := h x hx
    simp only [hs, Bool.not_true, Bool.false_or] at this
    cases hv : Resp.parseInt64 x.val with
    | none => rw [hv] at this; cases this
    | some v => rfl

theorem offsBelow_le {ids : List Bytes} {fs : Cp} {X : Int} (h : offsBelow ids fs X false = true) :
    OffLe ids fs X := by
  unfold offsBelow at h
  rw [List.all_eq_true] at h
  intro x hx hs v hv
  have := h x hx
  simp only [hs, Bool.not_true, Bool.false_or, hv, Bool.false_eq_true, if_false, decide_eq_true_eq] at this
  exact this

/-- the clauses of `Good t c X d` for a dump of databases `dbs` and keys `keys` -/
def goodChecks (dbs : List Nat) (keys : List Bytes) (t : Checkpoint.Target) (c : Ctl) (X : Int) (d : Nat) :
    List (String × Bool) :=
  let fs := t.cps d c.key
  [ ("ctl", decide (c.mas ≠ c.sec ∧ c.mas ≠ [] ∧ c.mas ≠ qmark ∧ c.sec ≠ qmark ∧ c.sec ≠ [] ∧ (c.lab = c.mas ∨ c.lab = c.sec) ∧
      c.lab ≠ [] ∧ c.key ≠ [] ∧ (c.up = true → c.pend = none))),
    ("hashL", decide (hlookup t.hash c.lab = some c.key)),
    ("hashM", decide (c.lab = c.mas) || unmappedb t.hash c.mas),
    ("holds.at", decide (0 ≤ X ∧ offOf [c.mas, c.sec] fs = X ∧ ridOf [c.mas, c.sec] fs ≠ qmark)),
    ("holds.dom", dbs.all (fun db => decide (db = d) || offsBelow [c.mas, c.sec] (t.cps db c.key) X true)),
    ("carrier", decide (offOf [c.lab] fs = X ∧ ridOf [c.lab] fs ≠ qmark)),
    ("wf", dbs.all (fun db => keys.all (fun n => (t.cps db n).all entryOKb && decide ((t.cps db n).map Entry.key).Nodup))),
    ("order", dbs.all (fun db => noAfterb c.mas c.sec (t.cps db c.key))),
    ("second-le", dbs.all (fun db => offsBelow [c.sec] (t.cps db c.key) X false)),
    ("hasrid", dbs.all (fun db => !(hasKeyb (c.mas, Kind.offset) (t.cps db c.key)) || hasKeyb (c.mas, Kind.runid) (t.cps db c.key))),
    ("pend", match c.pend with
      | none => true
      | some p =>
        decide (p ≠ c.key ∧ p ≠ []) &&
        dbs.all (fun db => decide (db = d) || offsBelow [c.mas, c.sec] (t.cps db p) X true) &&
        (decide (offOf [c.mas, c.sec] (t.cps d p) = X) || (t.cps d p).all (fun e => !(matchId [c.mas, c.sec] e.rid))) &&
        dbs.all (fun db => (t.cps db p).all (fun e => decide (e.rid = c.lab))) &&
        !(t.hash.any (fun q => decide (q.2 = p))) &&
        dbs.all (fun db => !(hasKeyb (c.mas, Kind.offset) (t.cps db p)) || hasKeyb (c.mas, Kind.runid) (t.cps db p))) ]

/-- "" = every clause holds; otherwise the name of the first one that does not -/
def firstBad : List (String × Bool) → String
  | [] => ""
  | (n, b) :: rest => if b then firstBad rest else n

theorem firstBad_empty : ∀ l : List (String × Bool), (∀ p ∈ l, p.1 ≠ "") → firstBad l = "" → ∀ p ∈ l, p.2 = true := by
  intro l
  induction l with
  | nil => intro _ _ p hp; cases hp
  | cons x rest ih =>
    intro hne h p hp
    obtain ⟨n, b⟩ := x
    unfold firstBad at h
    cases b with
    | false => simp only [Bool.false_eq_true, if_false] at h; exact absurd h (hne _ (List.mem_cons_self ..))
    | true =>
      simp only [if_true] at h
      rcases List.mem_cons.mp hp with rfl | hp'
      · rfl
      · exact ih (fun q hq => hne q (List.mem_cons_of_mem _ hq)) h p hp'

/-- the clauses as Props over the dump -/
structure GoodOn (dbs : List Nat) (keys : List Bytes) (t : Checkpoint.Target) (c : Ctl) (X : Int) (d : Nat) : Prop where
  ctl : c.mas ≠ c.sec ∧ c.mas ≠ [] ∧ c.mas ≠ qmark ∧ c.sec ≠ qmark ∧ c.sec ≠ [] ∧ (c.lab = c.mas ∨ c.lab = c.sec) ∧
      c.lab ≠ [] ∧ c.key ≠ [] ∧ (c.up = true → c.pend = none)
  hashL : hlookup t.hash c.lab = some c.key
  hashM : c.lab ≠ c.mas → Unmapped t.hash c.mas
  atd : 0 ≤ X ∧ offOf [c.mas, c.sec] (t.cps d c.key) = X ∧ ridOf [c.mas, c.sec] (t.cps d c.key) ≠ qmark
  dom : ∀ db ∈ dbs, db ≠ d → OffBelow [c.mas, c.sec] (t.cps db c.key) X
  carr : Carrier c.lab t c.key d X
  wf : ∀ db ∈ dbs, ∀ n ∈ keys, (∀ e ∈ t.cps db n, EntryOK e) ∧ FieldsNodup (t.cps db n)
  ord : ∀ db ∈ dbs, NoAfter c.mas c.sec (t.cps db c.key)
  sle : ∀ db ∈ dbs, OffLe [c.sec] (t.cps db c.key) X
  hasrid : ∀ db ∈ dbs, hasKey (c.mas, Kind.offset) (t.cps db c.key) → hasKey (c.mas, Kind.runid) (t.cps db c.key)
  pend : ∀ p, c.pend = some p → p ≠ c.key ∧ p ≠ [] ∧
    (∀ db ∈ dbs, db ≠ d → OffBelow [c.mas, c.sec] (t.cps db p) X) ∧
    (offOf [c.mas, c.sec] (t.cps d p) = X ∨ ∀ e ∈ t.cps d p, matchId [c.mas, c.sec] e.rid = false) ∧
    (∀ db ∈ dbs, ∀ e ∈ t.cps db p, e.rid = c.lab) ∧ (∀ q ∈ t.hash, q.2 ≠ p) ∧
    (∀ db ∈ dbs, hasKey (c.mas, Kind.offset) (t.cps db p) → hasKey (c.mas, Kind.runid) (t.cps db p))

theorem goodChecks_sound (dbs : List Nat) (keys : List Bytes) (t : Checkpoint.Target) (c : Ctl) (X : Int) (d : Nat)
    (h : ∀ p ∈ goodChecks dbs keys t c X d, p.2 = true) : GoodOn dbs keys t c X d := by
  unfold goodChecks at h
  simp only [List.mem_cons, List.not_mem_nil, or_false, forall_eq_or_imp, forall_eq] at h
  obtain ⟨h1, h2, h3, h4, h5, h6, h7, h8, h9, h10, h11⟩ := h
  simp only [decide_eq_true_eq] at h1 h2 h4 h6
  refine ⟨h1, h2, ?_, h4, ?_, h6, ?_, ?_, ?_, ?_, ?_⟩
  · intro hl
    simp only [Bool.or_eq_true, decide_eq_true_eq, unmappedb] at h3
    rcases h3 with h | h
    · exact absurd h hl
    · exact h
  · intro db hdb hne
    have := List.all_eq_true.mp h5 db hdb
    simp only [Bool.or_eq_true, decide_eq_true_eq] at this
    exact (offsBelow_strict (this.resolve_left hne)).1
  · intro db hdb n hn
    have := List.all_eq_true.mp (List.all_eq_true.mp h7 db hdb) n hn
    simp only [Bool.and_eq_true, List.all_eq_true, decide_eq_true_eq] at this
    exact ⟨fun e he => (entryOKb_iff e).mp (this.1 e he), this.2⟩
  · intro db hdb; exact (noAfterb_iff _ _ _).mp (List.all_eq_true.mp h8 db hdb)
  · intro db hdb; exact offsBelow_le (List.all_eq_true.mp h9 db hdb)
  · intro db hdb hk
    have := List.all_eq_true.mp h10 db hdb
    simp only [Bool.or_eq_true, Bool.not_eq_true'] at this
    rcases this with h | h
    · rw [← hasKeyb_iff] at hk; rw [hk] at h; cases h
    · exact (hasKeyb_iff _ _).mp h
  · intro p hp
    rw [hp] at h11
    simp only [Bool.and_eq_true, decide_eq_true_eq, Bool.or_eq_true, List.all_eq_true, Bool.not_eq_true',
      List.any_eq_false, decide_eq_false_iff_not] at h11
    obtain ⟨⟨⟨⟨⟨ha, hb⟩, hc⟩, hd⟩, he⟩, hf⟩ := h11
    refine ⟨ha.1, ha.2, ?_, ?_, hd, fun q hq => he q hq, ?_⟩
    · intro db hdb hne
      have := hb db hdb
      exact (offsBelow_strict (this.resolve_left hne)).1
    · rcases hc with h | h
      · exact Or.inl h
      · exact Or.inr h
    · intro db hdb hk
      rcases hf db hdb with h | h
      · rw [← hasKeyb_iff] at hk; rw [hk] at h; cases h
      · exact (hasKeyb_iff _ _).mp h

/-- **what the driver decides is `Good`**: the clauses over a dump that is the whole state, together with the ghost
    clauses (key names / ids used so far) no dump can show -/
theorem good_of_goodOn {dbs : List Nat} {keys : List Bytes} {t : Checkpoint.Target} {c : Ctl} {X : Int} {d : Nat}
    (h : GoodOn dbs keys t c X d)
    (hdbs : ∀ db, db ∉ dbs → ∀ n, t.cps db n = []) (hkeys : ∀ n, n ∉ keys → ∀ db, t.cps db n = [])
    (hkeyIn : c.key ∈ c.names) (hmasIn : c.mas ∈ c.ids) (hsecIn : c.sec ∈ c.ids)
    (hnames : ∀ n, n ∉ c.names → (∀ db, t.cps db n = []) ∧ ∀ p ∈ t.hash, p.2 ≠ n)
    (hids : ∀ ρ, ρ ∉ c.ids → (∀ db n, ∀ e ∈ t.cps db n, e.rid ≠ ρ) ∧ hlookup t.hash ρ = none)
    (hpmem : ∀ p, c.pend = some p → p ∈ c.names) : Good t c X d := by
  obtain ⟨hne, hm0, hmq, hsq, hs0, hlab, hl0, hk0, hupk⟩ := h.ctl
  have hempty : ∀ db n, (db ∉ dbs ∨ n ∉ keys) → t.cps db n = [] := by
    intro db n hc
    rcases hc with hc | hc
    · exact hdbs db hc n
    · exact hkeys n hc db
  have hok : ∀ db n, ∀ e ∈ t.cps db n, EntryOK e := by
    intro db n e he
    by_cases hc : db ∈ dbs ∧ n ∈ keys
    · exact (h.wf db hc.1 n hc.2).1 e he
    · rw [hempty db n (by by_cases h1 : db ∈ dbs; exact Or.inr (fun h2 => hc ⟨h1, h2⟩); exact Or.inl h1)] at he; cases he
  have hnd : ∀ db n, FieldsNodup (t.cps db n) := by
    intro db n
    by_cases hc : db ∈ dbs ∧ n ∈ keys
    · exact (h.wf db hc.1 n hc.2).2
    · rw [hempty db n (by by_cases h1 : db ∈ dbs; exact Or.inr (fun h2 => hc ⟨h1, h2⟩); exact Or.inl h1)]
      exact List.nodup_nil
  have hstr : StrA t c.names c.ids := ⟨hok, hnd, ⟨dbs, hdbs⟩, hnames, hids⟩
  have hall : ∀ {P : Nat → Prop}, (∀ db ∈ dbs, P db) → (∀ db, t.cps db c.key = [] → P db) → ∀ db, P db := by
    intro P h1 h2 db
    by_cases hdb : db ∈ dbs
    · exact h1 db hdb
    · exact h2 db (hdbs db hdb _)
  refine ⟨⟨hne, hm0, hmq, hsq, hlab, hl0, hk0, hkeyIn, hmasIn, hsecIn, hupk, hs0⟩, ?_, ?_, h.carr⟩
  · refine ⟨h.hashL, h.hashM, hstr, ?_, ?_, ?_, ?_⟩
    · exact hall h.ord (fun db he => by rw [he]; exact List.Pairwise.nil)
    · exact hall h.sle (fun db he => by rw [he]; intro x hx; cases hx)
    · exact hall h.hasrid (fun db he => by rw [he]; rintro ⟨e, he', _⟩; cases he')
    · intro p hp
      obtain ⟨p1, p2, p3, p4, p5, p6, p7⟩ := h.pend p hp
      have hallp : ∀ {P : Nat → Prop}, (∀ db ∈ dbs, P db) → (∀ db, t.cps db p = [] → P db) → ∀ db, P db := by
        intro P h1 h2 db
        by_cases hdb : db ∈ dbs
        · exact h1 db hdb
        · exact h2 db (hdbs db hdb _)
      refine ⟨p1, p2, hpmem p hp, ⟨fun db => parses_of_ok hstr _ db _, ?_, p4, ?_⟩, ?_, p6, ?_⟩
      · intro db hne'
        by_cases hdb : db ∈ dbs
        · exact p3 db hdb hne'
        · rw [hdbs db hdb]; intro x hx; cases hx
      · intro db e he hs
        rw [ridSel_iff] at hs
        rw [(hok db p e he).2 hs.2]
        rcases (matchId_pair _ _ _).mp hs.1 with h' | h' <;> rw [h']
        · exact hmq
        · exact hsq
      · exact hallp p5 (fun db he => by rw [he]; intro e he'; cases he')
      · exact hallp p7 (fun db he => by rw [he]; rintro ⟨e, he', _⟩; cases he')
  · refine ⟨h.atd.1, fun db => parses_of_ok hstr _ db _, h.atd.2.1, h.atd.2.2, ?_⟩
    intro db hne'
    by_cases hdb : db ∈ dbs
    · exact h.dom db hdb hne'
    · rw [hdbs db hdb]; intro x hx; cases hx

end GunYu.BookSys
