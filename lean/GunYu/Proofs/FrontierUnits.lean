/-
  Helper lemmas for C14, part 9: the numbering of replay units the parser produces
  (Model/Bisync.lean `parse` = RedisOutput.parseAofReplayUnits: nextUnitSeq = bisyncSeq + 1, every
  emitted unit gets the next number and ends at the end offset of its last command). End offsets
  grow strictly with the unit number: the hypothesis `hm` / `hs` of the transition-system theorems
  is a property of the unit builder, not an assumption. Core only.
-/
import GunYu.Model.Bisync
import GunYu.Model.FrontierSys

namespace GunYu.Frontier
open GunYu GunYu.Bisync GunYu.BisyncUnit

set_option linter.unusedSimpArgs false
set_option linter.unusedVariables false

/-! ### one iteration of the parser loop -/

/-- what one iteration does to the numbering: an emitted unit carries the current number and ends where
    the command ends, the number advances by one; nothing emitted: the number stays -/
def StepOk (st : PState) (endOff : Nat) (r : PState × StepOut) : Prop :=
  match r.2 with
  | .emit e => e.seq = st.seq ∧ e.endOff = endOff ∧ r.1.seq = st.seq + 1
  | .none => r.1.seq = st.seq
  | .err _ => True

theorem stepData_ok (cfg : PCfg) (st : PState) (name : Bytes) (argv : List Bytes) (endOff : Nat) :
    StepOk st endOff (stepData cfg st name argv endOff) := by
  unfold stepData
  cases cfg.filter.filterCmdKey name argv with
  | none => exact rfl
  | some newArgv =>
    simp only
    split
    · exact rfl
    · split
      · exact rfl
      · split
        · exact rfl
        · split
          · trivial
          · exact ⟨rfl, rfl, rfl⟩

theorem preFilter_ret (cfg : PCfg) (st : PState) (name : Bytes) (argv : List Bytes) (endOff : Nat)
    (r : PState × StepOut) (h : preFilter cfg st name argv endOff = .ret r) : StepOk st endOff r := by
  unfold preFilter at h
  simp only at h
  split at h
  · split at h
    · split at h
      · split at h
        · simp only [Pre.ret.injEq] at h; subst h; trivial
        · split at h
          · simp only [Pre.ret.injEq] at h; subst h; exact rfl
          · exact absurd h (by simp)
      · simp only [Pre.ret.injEq] at h; subst h; trivial
    · split at h
      · simp only [Pre.ret.injEq] at h; subst h; exact rfl
      · split at h
        · simp only [Pre.ret.injEq] at h; subst h; exact rfl
        · split at h
          · simp only [Pre.ret.injEq] at h; subst h; exact rfl
          · exact absurd h (by simp)
  · exact absurd h (by simp)

theorem step_ok (cfg : PCfg) (st : PState) (name : Bytes) (argv : List Bytes) (endOff : Nat) :
    StepOk st endOff (Bisync.step cfg st name argv endOff) := by
  unfold Bisync.step
  split
  · split
    · trivial
    · exact rfl
  · split
    · split
      · trivial
      · split
        · exact rfl
        · split
          · exact rfl
          · split
            · trivial
            · exact ⟨rfl, rfl, rfl⟩
    · split
      · rename_i r hr
        exact preFilter_ret cfg st name argv endOff r hr
      · simp only
        split
        · exact rfl
        · split
          · exact rfl
          · have := stepData_ok cfg { st with bypass := ‹Bool› } name argv endOff
            exact this

/-! ### a whole stream -/

/-- end offsets of the decoded commands grow strictly, the first one beyond `lo` -/
def Rising : Nat → List Item → Prop
  | _, [] => True
  | lo, it :: rest => lo < it.endOff ∧ Rising it.endOff rest

/-- units numbered n, n+1, … with strictly growing end offsets, the first one beyond `lo` -/
def Numbered : Nat → Nat → List Emit → Prop
  | _, _, [] => True
  | n, lo, e :: es => e.seq = n ∧ lo < e.endOff ∧ Numbered (n + 1) e.endOff es

theorem Rising.weaken {lo lo' : Nat} (h : lo ≤ lo') : ∀ {l : List Item}, Rising lo' l → Rising lo l
  | [], _ => trivial
  | it :: rest, hr => ⟨Nat.lt_of_le_of_lt h hr.1, hr.2⟩

theorem parse_numbered (cfg : PCfg) :
    ∀ (its : List Item) (st : PState) (acc : List Emit) (lo : Nat), Rising lo its →
      ∃ new, (Bisync.parse cfg st its acc).1 = acc.reverse ++ new ∧ Numbered st.seq lo new := by
  intro its
  induction its with
  | nil => intro st acc lo _; exact ⟨[], by simp [Bisync.parse], trivial⟩
  | cons it rest ih =>
    intro st acc lo hr
    have hok := step_ok cfg st (lower it.cmd.name) it.cmd.args it.endOff
    unfold Bisync.parse
    cases hs : Bisync.step cfg st (lower it.cmd.name) it.cmd.args it.endOff with
    | mk st' out =>
      rw [hs] at hok
      cases out with
      | err e => exact ⟨[], by simp, trivial⟩
      | none =>
        simp only
        have hseq : st'.seq = st.seq := hok
        obtain ⟨new, h1, h2⟩ := ih st' acc lo (hr.2.weaken (Nat.le_of_lt hr.1))
        rw [hseq] at h2
        exact ⟨new, h1, h2⟩
      | emit e =>
        simp only
        obtain ⟨he1, he2, he3⟩ : e.seq = st.seq ∧ e.endOff = it.endOff ∧ st'.seq = st.seq + 1 := hok
        obtain ⟨new, h1, h2⟩ := ih st' (e :: acc) it.endOff hr.2
        refine ⟨e :: new, ?_, he1, by rw [he2]; exact hr.1, ?_⟩
        · rw [h1]; simp
        · rw [he3] at h2; rw [he2]; exact h2

theorem respLen_pos (c : Cmd) : 0 < respLen c := by unfold respLen; omega

theorem items_rising : ∀ (cmds : List Cmd) (off : Nat), Rising off (items off cmds)
  | [], _ => trivial
  | c :: cs, off => ⟨by have := respLen_pos c; show off < off + respLen c; omega, items_rising cs (off + respLen c)⟩

/-- the units the parser emits from offset `off` with the next number `n` -/
def parsedUnits (cfg : PCfg) (off n : Nat) (cmds : List Cmd) : List Emit :=
  (Bisync.parse cfg { prevOff := off, seq := n } (items off cmds) []).1

theorem parsedUnits_numbered (cfg : PCfg) (off n : Nat) (cmds : List Cmd) :
    Numbered n off (parsedUnits cfg off n cmds) := by
  obtain ⟨new, h1, h2⟩ := parse_numbered cfg (items off cmds) { prevOff := off, seq := n } [] off (items_rising cmds off)
  unfold parsedUnits
  rw [h1]
  simpa using h2

/-! ### the numbering function of a stream -/

/-- unit number ↦ end offset: `off` at number `k` (where the numbering starts: the root checkpoint for
    k = 0), the end offsets of the units k+1, k+2, …; extended strictly increasing to all integers -/
def unitsE (off : Int) (k : Int) : List Emit → Int → Int
  | [], i => off + (i - k)
  | u :: us, i => if i ≤ k then off + (i - k) else unitsE (u.endOff : Int) (k + 1) us i

theorem unitsE_base (off k : Int) (us : List Emit) : unitsE off k us k = off := by
  cases us with
  | nil => simp [unitsE]
  | cons u us => simp [unitsE]

theorem unitsE_ge : ∀ (us : List Emit) (off k : Int) (n lo : Nat), Numbered n lo us → (lo : Int) = off →
    ∀ j, k ≤ j → off ≤ unitsE off k us j := by
  intro us
  induction us with
  | nil => intro off k n lo _ _ j hj; simp only [unitsE]; omega
  | cons u us ih =>
    intro off k n lo hn hlo j hj
    simp only [unitsE]
    split
    · omega
    · have := ih (u.endOff : Int) (k + 1) (n + 1) u.endOff hn.2.2 rfl j (by omega)
      have h2 : (lo : Int) < (u.endOff : Int) := by exact_mod_cast hn.2.1
      omega

theorem unitsE_strict : ∀ (us : List Emit) (off k : Int) (n lo : Nat), Numbered n lo us → (lo : Int) = off →
    ∀ i j, i < j → unitsE off k us i < unitsE off k us j := by
  intro us
  induction us with
  | nil => intro off k n lo _ _ i j hij; simp only [unitsE]; omega
  | cons u us ih =>
    intro off k n lo hn hlo i j hij
    simp only [unitsE]
    by_cases hi : i ≤ k
    · rw [if_pos hi]
      by_cases hj : j ≤ k
      · rw [if_pos hj]; omega
      · rw [if_neg hj]
        have := unitsE_ge us (u.endOff : Int) (k + 1) (n + 1) u.endOff hn.2.2 rfl j (by omega)
        have h2 : (lo : Int) < (u.endOff : Int) := by exact_mod_cast hn.2.1
        omega
    · rw [if_neg hi, if_neg (by omega)]
      exact ih (u.endOff : Int) (k + 1) (n + 1) u.endOff hn.2.2 rfl i j hij

theorem numbered_seq_ge : ∀ (us : List Emit) (n lo : Nat), Numbered n lo us → ∀ u ∈ us, n ≤ u.seq := by
  intro us
  induction us with
  | nil => intro n lo _ u hu; exact absurd hu (List.not_mem_nil)
  | cons v us ih =>
    intro n lo hn u hu
    rcases List.mem_cons.mp hu with rfl | hu
    · rw [hn.1]; exact Nat.le_refl _
    · have := ih (n + 1) v.endOff hn.2.2 u hu; omega

theorem unitsE_at : ∀ (us : List Emit) (off k : Int) (n lo : Nat), Numbered n lo us → (n : Int) = k + 1 →
    ∀ u ∈ us, unitsE off k us (u.seq : Int) = (u.endOff : Int) := by
  intro us
  induction us with
  | nil => intro off k n lo _ _ u hu; exact absurd hu (List.not_mem_nil)
  | cons v us ih =>
    intro off k n lo hn hk u hu
    have hge := numbered_seq_ge (v :: us) n lo hn u hu
    have hgt : ¬ ((u.seq : Int) ≤ k) := by
      have : (n : Int) ≤ (u.seq : Int) := by exact_mod_cast hge
      omega
    simp only [unitsE, if_neg hgt]
    rcases List.mem_cons.mp hu with rfl | hu
    · have : (u.seq : Int) = k + 1 := by rw [hn.1]; exact hk
      rw [this]; exact unitsE_base _ _ _
    · exact ih (v.endOff : Int) (k + 1) (n + 1) v.endOff hn.2.2 (by omega) u hu

end GunYu.Frontier
