/-
  Helper lemmas for C05 (memory backend): step-level facts about
  `GunYu.Store.Mem` that need no global invariant.
-/
import GunYu.Model.Store

namespace GunYu.Store
open GunYu

/-! ### the collector -/

theorem gcAof_spec {s s' : Mem} (h : s.gcAof = some s') :
    ∃ first, s.segs = first :: s'.segs ∧ first.closed = true ∧ mRefs s.readers first.sid = 0 ∧
      s.aofW ≠ some first.sid ∧ s'.rdb = s.rdb ∧ s'.readers = s.readers ∧ s'.aofW = s.aofW ∧
      s'.maxSize = s.maxSize := by
  unfold Mem.gcAof at h
  split at h
  · rename_i first rest hs
    split at h
    · rename_i hc
      simp only [Bool.and_eq_true, beq_iff_eq, bne_iff_ne, ne_eq] at hc
      simp at h; subst h
      exact ⟨first, hs, hc.1.1, hc.1.2, hc.2, rfl, rfl, rfl, rfl⟩
    · simp at h
  · simp at h

theorem gcRdb_spec {s s' : Mem} (h : s.gcRdb = some s') :
    s'.segs = s.segs ∧ s'.readers = s.readers ∧ s'.aofW = s.aofW ∧ s'.maxSize = s.maxSize ∧
      ∃ r first rest, s.rdb = some r ∧ r.segs = first :: rest ∧ first.closed = true ∧
        mRefs s.readers first.sid = 0 ∧
        (s'.rdb = none ∨ ∃ r', s'.rdb = some r' ∧ r'.segs = rest ∧ r'.replayable = false) := by
  unfold Mem.gcRdb at h
  split at h
  · rename_i r hr
    split at h
    · rename_i first rest hrs
      split at h
      · rename_i hc
        simp only [Bool.and_eq_true, beq_iff_eq] at hc
        simp at h; subst h
        refine ⟨rfl, rfl, rfl, rfl, r, first, rest, hr, hrs, hc.1, hc.2, ?_⟩
        cases rest with
        | nil => left; simp
        | cons x xs =>
          right
          exact ⟨{ r with segs := x :: xs, replayable := false }, by simp, rfl, rfl⟩
      · simp at h
    · simp at h
  · simp at h

/-- what one removal of `gcLocked` does -/
theorem gcOnce_spec {s s' : Mem} (h : s.gcOnce = some s') :
    (∃ first, s.segs = first :: s'.segs ∧ first.closed = true ∧ mRefs s.readers first.sid = 0 ∧
        s.aofW ≠ some first.sid ∧ s'.rdb = s.rdb ∧ s'.readers = s.readers ∧ s'.aofW = s.aofW ∧
        s'.maxSize = s.maxSize) ∨
    (s'.segs = s.segs ∧ s'.readers = s.readers ∧ s'.aofW = s.aofW ∧ s'.maxSize = s.maxSize ∧
      ∃ r first rest, s.rdb = some r ∧ r.segs = first :: rest ∧ first.closed = true ∧
        mRefs s.readers first.sid = 0 ∧
        (s'.rdb = none ∨ ∃ r', s'.rdb = some r' ∧ r'.segs = rest ∧ r'.replayable = false)) := by
  unfold Mem.gcOnce at h
  split at h
  · rename_i s1 h1
    simp at h; subst h
    exact Or.inl (gcAof_spec h1)
  · exact Or.inr (gcRdb_spec h)

/-- `gcLocked` removes a prefix of the stream segments; every removed segment is
    closed, unreferenced and not the writer's current one -/
theorem gcLoop_prefix (need : Nat) (fuel : Nat) (s : Mem) :
    ∃ pre, s.segs = pre ++ (Mem.gcLoop need fuel s).segs ∧
      (Mem.gcLoop need fuel s).readers = s.readers ∧ (Mem.gcLoop need fuel s).aofW = s.aofW ∧
      ∀ g ∈ pre, g.closed = true ∧ mRefs s.readers g.sid = 0 ∧ s.aofW ≠ some g.sid := by
  induction fuel generalizing s with
  | zero => exact ⟨[], by simp [Mem.gcLoop], rfl, rfl, by simp⟩
  | succ fuel ih =>
    simp only [Mem.gcLoop]
    split
    · cases hg : s.gcOnce with
      | none => exact ⟨[], by simp, rfl, rfl, by simp⟩
      | some s' =>
        simp only []
        obtain ⟨pre, hp, hr, ha, hz⟩ := ih s'
        rcases gcOnce_spec hg with ⟨first, hs, hc, href, hcur, _, hrd, haw, _⟩ | ⟨hs, hrd, haw, _, _⟩
        · refine ⟨first :: pre, by rw [hs, hp]; simp, by rw [hr, hrd], by rw [ha, haw], ?_⟩
          intro g hg'
          rcases List.mem_cons.mp hg' with h | h
          · subst h; exact ⟨hc, href, hcur⟩
          · have := hz g h
            rw [hrd, haw] at this; exact this
        · refine ⟨pre, by rw [← hs, hp], by rw [hr, hrd], by rw [ha, haw], ?_⟩
          intro g hg'
          have := hz g hg'
          rw [hrd, haw] at this; exact this
    · exact ⟨[], by simp, rfl, rfl, by simp⟩

theorem gc_prefix (s : Mem) (need : Nat) :
    ∃ pre, s.segs = pre ++ (s.gc need).segs ∧
      ∀ g ∈ pre, g.closed = true ∧ mRefs s.readers g.sid = 0 ∧ s.aofW ≠ some g.sid := by
  unfold Mem.gc
  split
  · exact ⟨[], by simp, by simp⟩
  · obtain ⟨pre, hp, _, _, hz⟩ := gcLoop_prefix need _ s
    exact ⟨pre, hp, hz⟩

/-! ### snapshots -/

/-- `finishRdb` keeps a snapshot only if its writer delivered every announced
    byte and did not fail -/
theorem finishRdb_keeps_only_complete (s : Mem) (failed : Bool) (r : MRdb) (hr : s.rdb = some r)
    (hw : r.writing = true) :
    (s.finishRdb failed).rdb = none ∨
    (failed = false ∧ r.size ≤ r.written ∧
      ∃ r', (s.finishRdb failed).rdb = some r' ∧ r'.writing = false ∧ r'.written = r.written ∧ r'.size = r.size) := by
  unfold Mem.finishRdb
  simp only [hr, hw, Bool.not_true, Bool.false_eq_true, if_false]
  split
  · left; rfl
  · rename_i hc
    right
    simp only [Bool.or_eq_true, decide_eq_true_eq, not_or, Nat.not_lt] at hc
    refine ⟨by simpa using hc.1, hc.2, _, rfl, rfl, rfl, rfl⟩

/-- a snapshot that lost a segment to the collector is not offered any more -/
theorem rdbOffered_replayable (s : Mem) (r : MRdb) (h : s.rdbOffered = some r) :
    s.rdb = some r ∧ r.replayable = true := by
  unfold Mem.rdbOffered at h
  cases hr : s.rdb with
  | none => simp [hr] at h
  | some r0 =>
    simp only [hr] at h
    split at h
    · simp at h; subst h; exact ⟨rfl, by assumption⟩
    · simp at h

theorem getRdb_iff_offered (s : Mem) :
    s.getRdb ≠ (-1, -1) ↔ ∃ r, s.rdb = some r ∧ r.replayable = true := by
  unfold Mem.getRdb
  cases ho : s.rdbOffered with
  | none =>
    simp only [ne_eq, not_true_eq_false, false_iff, not_exists, not_and]
    intro r hr hrep
    unfold Mem.rdbOffered at ho
    simp [hr, hrep] at ho
  | some r =>
    obtain ⟨h1, h2⟩ := rdbOffered_replayable s r ho
    simp only []
    constructor
    · intro _; exact ⟨r, h1, h2⟩
    · intro _ hc
      have := congrArg Prod.fst hc
      simp at this

/-! ### writers -/

theorem newAofWriter_refuses (s : Mem) (off r : Nat) (h : mLastRight s.segs = some r) (hne : r ≠ off) :
    s.step (.newAofWriter off) = (s, Out.refused) := by
  simp [Mem.step, h, hne]

theorem newAofWriter_accepted (s : Mem) (off r : Nat) (h : mLastRight s.segs = some r)
    (hok : (s.step (.newAofWriter off)).2 = Out.ok) : off = r := by
  by_cases hne : r = off
  · exact hne.symm
  · rw [newAofWriter_refuses s off r h hne] at hok; cases hok

/-! ### readers -/

/-- one iteration of a stream reader's copy loop that delivers bytes delivers
    exactly the rest of the segment it holds, from its position on -/
theorem copyStep_aof_faithful (s : Mem) (rid : Nat) (r : MReader) (g : MSeg)
    (hf : mFindReader s.readers rid = some r) (hrun : r.released = false) (hst : r.started = true)
    (hu : r.closedByUser = false) (ha : r.isAof = true) (hl : s.lookup r.seg = some g)
    (hpos : g.left ≤ r.pos) (hne : (g.data.drop (r.pos - g.left)) ≠ []) :
    (s.copyStep rid).1.readers = mSetReader s.readers
      { r with pos := r.pos + (g.data.drop (r.pos - g.left)).length,
               buf := r.buf ++ g.data.drop (r.pos - g.left),
               out := r.out ++ g.data.drop (r.pos - g.left) } := by
  unfold Mem.copyStep
  simp only [hf, hrun, hst, hu, ha, hl, Bool.false_eq_true, Bool.not_true, Bool.or_self, if_false, if_true]
  have h1 : ¬ r.pos < g.left := by omega
  have h2 : (g.data.drop (r.pos - g.left)).isEmpty = false := by
    simpa [List.isEmpty_iff] using hne
  simp [h1, h2]

/-- a reset closes every indexed segment and moves it out of the index: nothing
    of the old history stays reachable through the index -/
theorem reset_index_empty (s : Mem) : s.reset.segs = [] ∧ s.reset.rdb = none ∧ s.reset.aofW = none ∧
    ∀ g ∈ s.segs, ∃ g' ∈ s.reset.heap, g'.sid = g.sid ∧ g'.closed = true ∧ g'.data = g.data := by
  refine ⟨rfl, rfl, rfl, ?_⟩
  intro g hg
  refine ⟨{ g with closed := true }, ?_, rfl, rfl, rfl⟩
  simp only [Mem.reset, mCloseAll, List.mem_append, List.mem_map]
  left
  exact ⟨g, by simp [hg], rfl⟩

/-- the successor lookup goes by identity: a segment that is not in the index
    has no successor (a reader of a reset history ends instead of following the
    new history, D25) -/
theorem mNextOf_none_of_not_mem (segs : List MSeg) (sid : Nat) (h : ∀ g ∈ segs, g.sid ≠ sid) :
    mNextOf segs sid = none := by
  induction segs with
  | nil => rfl
  | cons a t ih =>
    cases t with
    | nil => rfl
    | cons b u =>
      simp only [mNextOf]
      have : (a.sid == sid) = false := by simpa using h a (by simp)
      simp only [this, Bool.false_eq_true, if_false]
      exact ih (fun g hg => h g (List.mem_cons_of_mem _ hg))

end GunYu.Store
