/-
  C14 — the Lean definitions REGENERATED from pkg/redis/checkpoint/bisync.go (Gen/FnC14Frontier.lean, translator
  harness/extract/gofn_c14.go) are equal to the hand-written model of Model/Frontier.lean. Helper lemmas; the
  property-level statements are in Props/C14Gen.lean. Core only.
-/
import GunYu.Gen.FnC14Frontier
import GunYu.Proofs.Frontier
import GunYu.Proofs.FrontierSyncN

namespace GunYu.Frontier
open GunYu GunYu.Gen.C14

set_option linter.unusedSimpArgs false
set_option linter.unusedVariables false

/-- the int64 range -/
def I64 (x : Int) : Prop := -9223372036854775808 ≤ x ∧ x < 9223372036854775808

theorem addI_one {c : Int} (h1 : -9223372036854775808 ≤ c) (h2 : c < 9223372036854775807) :
    GoSem.addI c 1 = c + 1 := by
  unfold GoSem.addI; exact GoSem.wrap64_eq (by omega) (by omega)

/-! ### LoadBisyncLatestStartRecord: the selection -/

theorem latestStep_eq (ids : List Bytes) (best : Option Rec) (cnt : Int) (r : Rec)
    (h1 : 0 ≤ cnt) (h2 : cnt < 9223372036854775807) :
    latestStep ids best cnt (some r) =
      some (pickBest ids best r, if matchRun r.runId ids then cnt + 1 else cnt) := by
  unfold latestStep pickBest
  by_cases hm : matchRun r.runId ids = true
  · cases best with
    | none => simp [hm, addI_one (by omega : (-9223372036854775808:Int) ≤ cnt) h2]
    | some b =>
      simp [hm, addI_one (by omega : (-9223372036854775808:Int) ≤ cnt) h2]
      by_cases h : b.endOff < r.endOff <;> by_cases h' : r.endOff = b.endOff <;>
        by_cases h'' : b.mtime < r.mtime <;> simp [*]
  · simp [hm]

/-- the loop of LoadBisyncLatestStartRecord over the parsed records, with the REGENERATED selection step -/
def genBestLatest (ids : List Bytes) : List Rec → Option Rec × Int → Option (Option Rec × Int)
  | [], acc => some acc
  | r :: rest, acc => (latestStep ids acc.1 acc.2 (some r)).bind (genBestLatest ids rest)

theorem bestLatest_snd_fold (ids : List Bytes) (l : List Rec) (acc : Option Rec × Nat) :
    (l.foldl (fun (acc : Option Rec × Nat) r =>
      if matchRun r.runId ids then
        (match acc.1 with
          | none => some r
          | some b => if r.endOff > b.endOff ∨ (r.endOff = b.endOff ∧ r.mtime > b.mtime) then some r else some b,
         acc.2 + 1)
      else acc) acc).2 = acc.2 + (l.filter (fun r => matchRun r.runId ids)).length := by
  induction l generalizing acc with
  | nil => simp
  | cons r rest ih =>
    simp only [List.foldl_cons]
    rw [ih]
    by_cases h : matchRun r.runId ids = true
    · simp [h, List.filter]; omega
    · simp [h, List.filter]

theorem genBestLatest_eq (ids : List Bytes) (l : List Rec) :
    ∀ (acc : Option Rec × Int), 0 ≤ acc.2 → acc.2 + l.length < 9223372036854775807 →
      genBestLatest ids l acc =
        some (l.foldl (pickBest ids) acc.1, acc.2 + ((l.filter (fun r => matchRun r.runId ids)).length : Int)) := by
  induction l with
  | nil => intro acc _ _; simp [genBestLatest]
  | cons r rest ih =>
    intro acc h0 hlen
    simp only [List.length_cons] at hlen
    unfold genBestLatest
    rw [latestStep_eq ids acc.1 acc.2 r h0 (by omega)]
    simp only [Option.bind_some, List.foldl_cons]
    by_cases hm : matchRun r.runId ids = true
    · rw [ih _ (by simp [hm]; omega) (by simp [hm]; omega)]
      simp [hm, List.filter]; omega
    · rw [ih _ (by simp [hm]; omega) (by simp [hm]; omega)]
      simp [hm, List.filter]

/-! ### RebuildBisyncFrontier: the loop that fills `seqMap` -/

def minStep (ms : Int) (r : Rec) : Int := if r.seq ≤ 0 then ms else if ms = 0 ∨ r.seq < ms then r.seq else ms

/-- every value stored in the map is a non-nil record filed under its own sequence number -/
def MapOK (m : List (Int × Option Rec)) : Prop := ∀ p ∈ m, ∃ r, p.2 = some r ∧ r.seq = p.1

def look (m : List (Int × Option Rec)) (n : Int) : Option Rec := (mapGet m n).1

def fillStep (m : List (Int × Option Rec)) (r : Rec) : List (Int × Option Rec) :=
  if r.seq ≤ 0 then m
  else match look m r.seq with
    | some e => if e.mtime < r.mtime then mapSet m r.seq (some r) else m
    | none => mapSet m r.seq (some r)

theorem mapGet_ok {m : List (Int × Option Rec)} (h : MapOK m) (n : Int) :
    mapGet m n = (look m n, (look m n).isSome) ∧ ∀ r, look m n = some r → r.seq = n := by
  unfold look mapGet
  cases hf : m.find? (fun p => p.1 = n) with
  | none => simp
  | some p =>
    have hm := List.mem_of_find?_eq_some hf
    have hp := List.find?_some hf
    simp only [decide_eq_true_eq] at hp
    obtain ⟨r, hr, hs⟩ := h p hm
    simp [hr]
    rw [hs, hp]

theorem look_mapSet (m : List (Int × Option Rec)) (k : Int) (v : Option Rec) (n : Int) :
    look (mapSet m k v) n = if n = k then v else look m n := by
  unfold look mapGet mapSet
  by_cases h : n = k
  · subst h; simp
  · have hk : ¬ k = n := fun e => h e.symm
    simp only [List.find?_cons, hk, decide_false, h, if_false]
    rw [List.find?_filter]
    have : ∀ a : Int × Option Rec,
        (decide (decide (a.1 ≠ k) = true ∧ decide (a.1 = n) = true)) = decide (a.1 = n) := by
      intro a
      by_cases ha : a.1 = n <;> simp [ha, h]
    simp only [this]

theorem mapOK_mapSet {m : List (Int × Option Rec)} (h : MapOK m) (r : Rec) : MapOK (mapSet m r.seq (some r)) := by
  intro p hp
  unfold mapSet at hp
  rcases List.mem_cons.mp hp with hp | hp
  · subst hp; exact ⟨r, rfl, rfl⟩
  · exact h p (List.mem_filter.mp hp).1

theorem mapOK_fillStep {m : List (Int × Option Rec)} (h : MapOK m) (r : Rec) : MapOK (fillStep m r) := by
  unfold fillStep
  by_cases h0 : r.seq ≤ 0
  · simp only [h0, if_true]; exact h
  · simp only [h0, if_false]
    cases look m r.seq with
    | none => exact mapOK_mapSet h r
    | some e =>
      simp only
      by_cases hm : e.mtime < r.mtime
      · simp only [hm, if_true]; exact mapOK_mapSet h r
      · simp only [hm, if_false]; exact h

theorem look_fillStep (m : List (Int × Option Rec)) (r : Rec) (n : Int) :
    look (fillStep m r) n = pickStep n (look m n) r := by
  unfold fillStep pickStep
  by_cases h0 : r.seq ≤ 0
  · simp only [h0, if_true]
  · simp only [h0, if_false]
    by_cases hn : r.seq = n
    · subst hn
      simp only [ne_eq, not_true_eq_false, if_false]
      cases hl : look m r.seq with
      | none => simp [look_mapSet]
      | some e =>
        simp only
        by_cases hm : e.mtime < r.mtime
        · simp [hm, look_mapSet]
        · simp [hm, hl]
    · have hn' : ¬ n = r.seq := fun e => hn e.symm
      simp only [ne_eq, hn, not_false_eq_true, if_true]
      cases hl : look m r.seq with
      | none => simp [look_mapSet, hn']
      | some e =>
        simp only
        by_cases hm : e.mtime < r.mtime
        · simp [hm, look_mapSet, hn']
        · simp [hm]

theorem loop1_body_eq (ver : Bytes) (fuel : Nat) (m : List (Int × Option Rec)) (ms : Int) (r : Rec) (hok : MapOK m) :
    rebuildFrontier_loop1_body ver fuel (some r) (m, ms) = some (GoRet.next (fillStep m r, minStep ms r)) := by
  unfold rebuildFrontier_loop1_body fillStep minStep
  obtain ⟨hg, _⟩ := mapGet_ok hok r.seq
  by_cases h0 : r.seq ≤ 0
  · simp [h0]
  · simp [h0, hg]
    cases hl : look m r.seq with
    | none => by_cases hms : ms = 0 <;> by_cases hlt : r.seq < ms <;> simp [*]
    | some e =>
      by_cases hms : ms = 0 <;> by_cases hlt : r.seq < ms <;> by_cases hmt : e.mtime < r.mtime <;> simp [*]

theorem loop1_eq (ver : Bytes) (fuel : Nat) (recs : List Rec) :
    ∀ (m : List (Int × Option Rec)) (ms : Int), MapOK m →
      rebuildFrontier_loop1 ver fuel (recs.map some) (m, ms)
        = some (GoRet.next (recs.foldl fillStep m, recs.foldl minStep ms)) ∧
      MapOK (recs.foldl fillStep m) ∧
      ∀ n, look (recs.foldl fillStep m) n = recs.foldl (pickStep n) (look m n) := by
  induction recs with
  | nil => intro m ms h; exact ⟨by simp [rebuildFrontier_loop1], h, fun n => rfl⟩
  | cons r rest ih =>
    intro m ms h
    obtain ⟨h1, h2, h3⟩ := ih (fillStep m r) (minStep ms r) (mapOK_fillStep h r)
    refine ⟨?_, h2, ?_⟩
    · simp only [List.map_cons, rebuildFrontier_loop1, loop1_body_eq ver fuel m ms r h, List.foldl_cons]
      simpa using h1
    · intro n
      simp only [List.foldl_cons]
      rw [h3 n, look_fillStep]

theorem minSeq_eq_fold (recs : List Rec) : minSeq recs = recs.foldl minStep 0 := rfl

/-! ### RebuildBisyncFrontier: the advancing loop -/

theorem pick_none_of_no_rec {recs : List Rec} {n : Int} (h : ∀ r ∈ recs, r.seq ≠ n) : pick recs n = none := by
  cases hp : pick recs n with
  | none => rfl
  | some r => obtain ⟨h1, _, h3⟩ := pick_some hp; exact absurd h1 (h r h3)

theorem pick_none_of_nonpos {recs : List Rec} {n : Int} (h : n ≤ 0) : pick recs n = none := by
  cases hp : pick recs n with
  | none => rfl
  | some r => obtain ⟨h1, h2, _⟩ := pick_some hp; omega

/-- the wrapped `nextSeq` finds what the unbounded `cur.seq + 1` of the model finds -/
theorem pick_addI {recs : List Rec} (hr : ∀ r ∈ recs, I64 r.seq) {c : Int} (hc : I64 c) :
    pick recs (GoSem.addI c 1) = pick recs (c + 1) := by
  by_cases h : c < 9223372036854775807
  · rw [addI_one hc.1 h]
  · have hc' : c = 9223372036854775807 := by have := hc.2; omega
    subst hc'
    have e : GoSem.addI 9223372036854775807 1 = -9223372036854775808 := by decide
    rw [e, pick_none_of_nonpos (by omega), pick_none_of_no_rec]
    intro r hm
    have := (hr r hm).2
    omega

/-- one iteration of the advancing loop on a non-nil frontier: stop when the next number has no record,
    otherwise the model's `stepSnap` and the next number -/
theorem loop2_body_eq (ver : Bytes) (fuel : Nat) (M : List (Int × Option Rec)) (hM : MapOK M) (cur : Snap) (nx : Int) :
    rebuildFrontier_loop2_body ver fuel M (some cur, nx) =
      some (match look M nx with
        | none => GoRet.brk (some cur, nx)
        | some r => GoRet.next (some (stepSnap cur r), GoSem.addI nx 1)) := by
  unfold rebuildFrontier_loop2_body
  obtain ⟨hg, _⟩ := mapGet_ok hM nx
  cases hl : look M nx with
  | none => simp [hg, hl]
  | some r =>
    simp [hg, hl, stepSnap]
    by_cases hm : cur.mtime < r.mtime <;> simp [hm]

theorem loop2_eq (ver : Bytes) (fuel : Nat) (recs : List Rec) (hr : ∀ r ∈ recs, I64 r.seq)
    (M : List (Int × Option Rec)) (hM : MapOK M) (hlook : ∀ n, look M n = pick recs n) :
    ∀ (F : Nat) (cur : Snap), I64 cur.seq →
      pick recs ((advance F recs cur).seq + 1) = none →
      rebuildFrontier_loop2 ver fuel M (F + 1) (some cur, GoSem.addI cur.seq 1)
        = some (GoRet.next (some (advance F recs cur), GoSem.addI (advance F recs cur).seq 1)) := by
  intro F
  induction F with
  | zero =>
    intro cur hc hfix
    simp only [advance] at hfix ⊢
    have : look M (GoSem.addI cur.seq 1) = none := by rw [hlook, pick_addI hr hc]; exact hfix
    simp [rebuildFrontier_loop2, loop2_body_eq ver fuel M hM, this]
  | succ F ih =>
    intro cur hc hfix
    unfold advance at hfix ⊢
    cases hp : pick recs (cur.seq + 1) with
    | none =>
      have : look M (GoSem.addI cur.seq 1) = none := by rw [hlook, pick_addI hr hc]; exact hp
      simp [rebuildFrontier_loop2, loop2_body_eq ver fuel M hM, this]
    | some r =>
      rw [hp] at hfix
      simp only at hfix ⊢
      have hl : look M (GoSem.addI cur.seq 1) = some r := by rw [hlook, pick_addI hr hc]; exact hp
      obtain ⟨hs, _, hmem⟩ := pick_some hp
      have hnx : GoSem.addI cur.seq 1 = r.seq := by
        have := (mapGet_ok hM (GoSem.addI cur.seq 1)).2 r hl
        exact this.symm
      have hc' : I64 (stepSnap cur r).seq := hr r hmem
      have := ih (stepSnap cur r) hc' hfix
      rw [rebuildFrontier_loop2]
      simp only [loop2_body_eq ver fuel M hM, hl, Option.bind_eq_bind, Option.bind_some, Option.pure_def]
      rw [hnx]
      exact this

/-! ### the advancing loop of the model reaches its fixed point within `length` steps -/

theorem filter_length_le {α : Type} (l : List α) (p q : α → Bool) (himp : ∀ x ∈ l, p x = true → q x = true) :
    (l.filter p).length ≤ (l.filter q).length := by
  induction l with
  | nil => simp
  | cons a rest ih =>
    have := ih (fun x hx => himp x (List.mem_cons_of_mem _ hx))
    by_cases hp : p a = true
    · have hq := himp a List.mem_cons_self hp
      simp only [List.filter, hp, hq, List.length_cons]; omega
    · have hp' : p a = false := by cases h : p a with | true => exact absurd h hp | false => rfl
      by_cases hq : q a = true
      · simp only [List.filter, hp', hq, List.length_cons]; omega
      · have hq' : q a = false := by cases h : q a with | true => exact absurd h hq | false => rfl
        simp only [List.filter, hp', hq']; exact this

theorem filter_length_lt {α : Type} (l : List α) (p q : α → Bool) (himp : ∀ x ∈ l, p x = true → q x = true)
    (hw : ∃ x ∈ l, q x = true ∧ p x = false) : (l.filter p).length < (l.filter q).length := by
  induction l with
  | nil => obtain ⟨x, hx, _⟩ := hw; cases hx
  | cons a rest ih =>
    have himp' : ∀ x ∈ rest, p x = true → q x = true := fun x hx => himp x (List.mem_cons_of_mem _ hx)
    have hle := filter_length_le rest p q himp'
    obtain ⟨x, hx, hqx, hpx⟩ := hw
    rcases List.mem_cons.mp hx with hxa | hxr
    · subst hxa
      simp only [List.filter, hpx, hqx, List.length_cons]; omega
    · have hlt := ih himp' ⟨x, hxr, hqx, hpx⟩
      by_cases hp : p a = true
      · have hq := himp a List.mem_cons_self hp
        simp only [List.filter, hp, hq, List.length_cons]; omega
      · have hp' : p a = false := by cases h : p a with | true => exact absurd h hp | false => rfl
        by_cases hq : q a = true
        · simp only [List.filter, hp', hq, List.length_cons]; omega
        · have hq' : q a = false := by cases h : q a with | true => exact absurd h hq | false => rfl
          simp only [List.filter, hp', hq']; exact hlt

/-- records numbered above the frontier -/
def above (recs : List Rec) (c : Int) : Nat := (recs.filter (fun r => decide (c < r.seq))).length

/-- `advance` with at least as much fuel as there are records above the frontier ends where the next
    number has no record (each step consumes a record numbered above: pigeonhole) -/
theorem advance_fix (recs : List Rec) :
    ∀ (F : Nat) (cur : Snap), above recs cur.seq ≤ F → pick recs ((advance F recs cur).seq + 1) = none := by
  intro F
  induction F with
  | zero =>
    intro cur h
    simp only [advance]
    apply pick_none_of_no_rec
    intro r hm heq
    have : r ∈ recs.filter (fun r => decide (cur.seq < r.seq)) := List.mem_filter.mpr ⟨hm, by simp; omega⟩
    unfold above at h
    have hl : (recs.filter (fun r => decide (cur.seq < r.seq))).length = 0 := by omega
    rw [List.length_eq_zero_iff.mp hl] at this
    cases this
  | succ F ih =>
    intro cur h
    unfold advance
    cases hp : pick recs (cur.seq + 1) with
    | none => simpa using hp
    | some r =>
      simp only
      obtain ⟨hs, _, hmem⟩ := pick_some hp
      apply ih
      have hlt : above recs (stepSnap cur r).seq < above recs cur.seq := by
        unfold above
        apply filter_length_lt
        · intro x _ hx
          simp only [decide_eq_true_eq] at hx ⊢
          have : (stepSnap cur r).seq = r.seq := rfl
          omega
        · refine ⟨r, hmem, by simp; omega, ?_⟩
          have : (stepSnap cur r).seq = r.seq := rfl
          simp [this]
      omega

theorem above_le_length (recs : List Rec) (c : Int) : above recs c ≤ recs.length := by
  unfold above; exact List.length_filter_le _ _

end GunYu.Frontier
