/-
  Helper lemmas for C01/C09: which commands one loop iteration forwards.
-/
import GunYu.Model.Sender

namespace GunYu.Sender

abbrev Cmd := Bytes × List Bytes

def cmdOfReq : Req → Option Cmd
  | .cmd n a _ => if n = bPing then none else some (n, a)
  | _ => none

/-- commands (other than keep-alive pings) in a batch, in wire order -/
def dataB (b : Batch) : List Cmd := b.filterMap cmdOfReq
def dataOut (out : List Batch) : List Cmd := out.flatMap dataB

def itemCmd (i : Item) : Option Cmd := if i.cmd = bPing then none else some (i.cmd, i.args)
/-- commands waiting in the queue -/
def qd (s : SState) : List Cmd := s.queue.filterMap itemCmd

@[simp] theorem dataOut_nil : dataOut [] = [] := rfl
@[simp] theorem dataOut_append (a b : List Batch) : dataOut (a ++ b) = dataOut a ++ dataOut b := by
  simp [dataOut]
@[simp] theorem dataOut_none : dataOut (optToList none) = [] := rfl
@[simp] theorem dataOut_some (b : Batch) : dataOut (optToList (some b)) = dataB b := by
  simp [dataOut, optToList]

theorem dataB_append (a b : Batch) : dataB (a ++ b) = dataB a ++ dataB b := by simp [dataB]

theorem dataB_cmds (q : List Item) :
    dataB (q.map (fun i => Req.cmd i.cmd i.args i.offset)) = q.filterMap itemCmd := by
  induction q with
  | nil => rfl
  | cons i q ih =>
    simp only [List.map_cons, dataB, List.filterMap_cons, cmdOfReq, itemCmd] at ih ⊢
    split <;> simp_all

theorem dataB_cpPart (c : SCfg) (s : SState) (u : Bool) (off : Int) : dataB (cpPart c s u off) = [] := by
  unfold cpPart
  split
  · split <;> simp [dataB, cmdOfReq]
  · rfl

theorem dataB_sendReqs (c : SCfg) (s : SState) (tb u : Bool) (off : Int) :
    dataB (sendReqs c s tb u off) = qd s := by
  unfold sendReqs qd
  rw [dataB_append, dataB_append, dataB_append, dataB_cmds, dataB_cpPart]
  cases tb <;> simp [dataB, cmdOfReq, List.filterMap]

/-- a flush moves the queue onto the wire, unchanged and in order -/
theorem sendOnce_data (c : SCfg) (s : SState) (tb up : Bool) (off : Int) :
    dataOut (optToList (sendOnce c s tb up off).2) ++ qd (sendOnce c s tb up off).1 = qd s ∧
    (sendOnce c s tb up off).1.txn = s.txn := by
  unfold sendOnce
  simp only
  split
  · simp
  · split
    · simp
    · simp [dataB_sendReqs, qd]

theorem tail_data (c : SCfg) (s : SState) (tb up : Bool) (out : List Batch) :
    dataOut (tail c s tb up out).2 ++ qd (tail c s tb up out).1 = dataOut out ++ qd s ∧
    (tail c s tb up out).1.txn = s.txn := by
  unfold tail
  simp only
  split
  · simp only [↓reduceIte]
    have h := sendOnce_data c { s with needFlush := true } tb up s.lastOffset
    refine ⟨?_, h.2⟩
    rw [dataOut_append, List.append_assoc]
    have : qd { s with needFlush := true } = qd s := rfl
    simp only [qd] at h ⊢
    rw [h.1]
  · split
    · have h := sendOnce_data c s tb up s.lastOffset
      refine ⟨?_, h.2⟩
      rw [dataOut_append, List.append_assoc]
      simp only [qd] at h ⊢
      rw [h.1]
    · exact ⟨rfl, rfl⟩

theorem preFlush_data (c : SCfg) (s : SState) (t : Txn) (nf : Bool) (prev : Int) :
    dataOut (preFlush c s t nf prev).2 ++ qd (preFlush c s t nf prev).1 = qd s ∧
    (preFlush c s t nf prev).1.txn = s.txn := by
  unfold preFlush
  split
  · simp only
    split
    · have h := sendOnce_data c s c.txnMode (c.resume && c.txnMode) s.lastOffset
      simp only [qd] at h ⊢
      exact h
    · have h := sendOnce_data c s c.txnMode (c.resume && c.txnMode) prev
      simp only [qd] at h ⊢
      exact h
  · simp

/-- is an item with this (new) status forwarded to the target? -/
def forwards (t : Txn) : Bool := t != .begin_ && t != .commit

theorem absorb_data (s : SState) (t : Txn) (it : Item) (hp : it.cmd ≠ bPing) :
    qd (absorb s t it) = qd s ++ (if forwards t then [(it.cmd, it.args)] else []) ∧
    (absorb s t it).txn = s.txn := by
  unfold absorb forwards
  cases t <;> simp [enqueue, qd, itemCmd, hp]

/-- what one event contributes to the forwarded stream, and the status after it -/
def fwd1 (t : Txn) : Ev → List Cmd × Txn
  | .item it =>
    if it.cmd = bPing then ([], t)
    else ((if forwards (txnStatus it.cmd t).1 then [(it.cmd, it.args)] else []), (txnStatus it.cmd t).1)
  | _ => ([], t)

theorem stepItemTxn_data (c : SCfg) (s : SState) (t : Txn) (nf : Bool) (it : Item) (prev : Int)
    (hp : it.cmd ≠ bPing) :
    dataOut (stepItemTxn c s t nf it prev).2 ++ qd (stepItemTxn c s t nf it prev).1
      = qd s ++ (if forwards t then [(it.cmd, it.args)] else []) ∧
    (stepItemTxn c s t nf it prev).1.txn = s.txn := by
  unfold stepItemTxn
  simp only
  obtain ⟨h1, h1t⟩ := preFlush_data c s t nf prev
  obtain ⟨h2, h2t⟩ := absorb_data (preFlush c s t nf prev).1 t it hp
  obtain ⟨h3, h3t⟩ := tail_data c (absorb (preFlush c s t nf prev).1 t it) c.txnMode
    (c.resume && c.txnMode) (preFlush c s t nf prev).2
  refine ⟨?_, by rw [h3t, h2t, h1t]⟩
  rw [h3, h2, ← List.append_assoc, h1]

theorem stepItemPlain_data (c : SCfg) (s : SState) (t : Txn) (it : Item) (hp : it.cmd ≠ bPing) :
    dataOut (stepItemPlain c s t it).2 ++ qd (stepItemPlain c s t it).1
      = qd s ++ (if forwards t then [(it.cmd, it.args)] else []) ∧
    (stepItemPlain c s t it).1.txn = s.txn := by
  unfold stepItemPlain
  split
  · rename_i h; subst h; simp [forwards]
  · split
    · rename_i h; subst h
      obtain ⟨h3, h3t⟩ := tail_data c { s with needFlush := true } c.txnMode (c.resume && c.txnMode) []
      refine ⟨?_, h3t⟩
      rw [h3]; simp [forwards, qd]
    · rename_i hb hc
      obtain ⟨h3, h3t⟩ := tail_data c (enqueue s it) c.txnMode (c.resume && c.txnMode) []
      refine ⟨?_, h3t⟩
      rw [h3]
      have : forwards t = true := by cases t <;> simp_all [forwards]
      simp [this, enqueue, qd, itemCmd, hp]

theorem step_data (c : SCfg) (s : SState) (ev : Ev) :
    dataOut (step c s ev).2 ++ qd (step c s ev).1 = qd s ++ (fwd1 s.txn ev).1 ∧
    (step c s ev).1.txn = (fwd1 s.txn ev).2 := by
  cases ev with
  | item it =>
    simp only [step, fwd1]
    split
    · simp [qd]
    · rename_i hp
      unfold stepItem
      simp only
      split
      · have h := stepItemTxn_data c
          { s with lastOffset := it.offset, txn := (txnStatus it.cmd s.txn).1,
                   needFlush := (txnStatus it.cmd s.txn).2 }
          (txnStatus it.cmd s.txn).1 (txnStatus it.cmd s.txn).2 it s.lastOffset hp
        exact h
      · have h := stepItemPlain_data c
          { s with lastOffset := it.offset, txn := (txnStatus it.cmd s.txn).1,
                   needFlush := (txnStatus it.cmd s.txn).2 }
          (txnStatus it.cmd s.txn).1 it hp
        exact h
  | batchTick =>
    simp only [step, fwd1]
    split
    · have h := tail_data c { s with needFlush := true } c.txnMode (c.resume && c.txnMode) []
      simpa [qd] using h
    · have h := tail_data c s c.txnMode (c.resume && c.txnMode) []
      simpa using h
  | keepaliveTick =>
    simp only [step, fwd1]
    split
    · split
      · rename_i he
        have h := tail_data c { s with queue := [pingItem s.lastOffset], needFlush := true } false
          (c.resume && c.txnMode) []
        have hq : qd s = [] := by
          have : s.queue = [] := by simpa using he
          simp [qd, this]
        simp only [dataOut_nil, List.nil_append, List.append_nil] at h ⊢
        rw [hq]
        have : qd { s with queue := [pingItem s.lastOffset], needFlush := true } = [] := by
          simp [qd, itemCmd, pingItem]
        rw [this] at h
        exact h
      · have h := tail_data c { s with needFlush := true } c.txnMode (c.resume && c.txnMode) []
        simpa [qd] using h
    · have h := tail_data c s c.txnMode (c.resume && c.txnMode) []
      simpa using h
  | cpTick =>
    simp only [step, fwd1]
    split
    · have h := tail_data c { s with needFlush := true } c.txnMode true []
      simpa [qd] using h
    · have h := tail_data c s c.txnMode (c.resume && c.txnMode) []
      simpa using h
  | done =>
    simp only [step, fwd1]
    split
    · have h := tail_data c { s with needFlush := true } c.txnMode true []
      simpa [qd] using h
    · have h := tail_data c s c.txnMode (c.resume && c.txnMode) []
      simpa using h

end GunYu.Sender
