/-
  Helper lemmas for C17, part 4: UpdateCheckpoint — what its HSET does to the
  database holding the position, and the request list phase by phase. Core only.
-/
import GunYu.Proofs.CheckpointOps

namespace GunYu.Checkpoint
open GunYu

set_option linter.unusedSimpArgs false
set_option linter.unusedVariables false

theorem unsignedDec_le {ds : Bytes} {l n : Nat} (h : Resp.unsignedDec ds l = some n) : n ≤ l := by
  unfold Resp.unsignedDec at h
  split at h
  · split at h
    · simp only [Option.some.injEq] at h; omega
    · exact absurd h (by simp)
  · exact absurd h (by simp)

theorem parseInt64_range {b : Bytes} {v : Int} (h : Resp.parseInt64 b = some v) :
    -(2^63 : Int) ≤ v ∧ v < 2^63 := by
  unfold Resp.parseInt64 at h
  split at h
  · exact absurd h (by simp)
  · split at h
    · obtain ⟨n, hn, rfl⟩ := Option.map_eq_some_iff.mp h
      have := unsignedDec_le hn; simp only [Int.ofNat_eq_natCast]; omega
    · split at h
      · obtain ⟨n, hn, rfl⟩ := Option.map_eq_some_iff.mp h
        have := unsignedDec_le hn; simp only [Int.ofNat_eq_natCast]; omega
      · obtain ⟨n, hn, rfl⟩ := Option.map_eq_some_iff.mp h
        have := unsignedDec_le hn; simp only [Int.ofNat_eq_natCast]; omega

theorem foldl_offStep_range (ids : List Bytes) (fs : Cp) :
    ∀ o : Int, (-(2^63 : Int) ≤ o ∧ o < 2^63) →
      (-(2^63 : Int) ≤ fs.foldl (offStep ids) o ∧ fs.foldl (offStep ids) o < 2^63) := by
  induction fs with
  | nil => intro o h; exact h
  | cons y fs ih =>
    intro o h
    simp only [List.foldl_cons]
    apply ih
    unfold offStep
    split
    · cases hv : Resp.parseInt64 y.val with
      | none => simpa using h
      | some v => simpa using parseInt64_range hv
    · exact h

theorem offOf_range (ids : List Bytes) (fs : Cp) :
    -(2^63 : Int) ≤ offOf ids fs ∧ offOf ids fs < 2^63 :=
  foldl_offStep_range ids fs (-1) (by omega)

/-! ### the field list of SetCheckpoint -/

theorem cpEntries_eq (c : CpInfo) (id1 : Bytes) (now : Int) (h1 : id1 ≠ []) :
    cpEntries { c with runId := id1 } now =
      ([⟨id1, .mtime, intToDec now⟩, ⟨id1, .runid, id1⟩] ++
        (if c.version ≠ [] then [⟨id1, .version, c.version⟩] else [])) ++
      [⟨id1, .offset, intToDec c.offset⟩] := by
  simp [cpEntries, h1]

/-- the fields written before the `_offset` field -/
def cpPre (c : CpInfo) (id1 : Bytes) (now : Int) : List Entry :=
  [⟨id1, .mtime, intToDec now⟩, ⟨id1, .runid, id1⟩] ++
    (if c.version ≠ [] then [⟨id1, .version, c.version⟩] else [])

def cpOff (c : CpInfo) (id1 : Bytes) : Entry := ⟨id1, .offset, intToDec c.offset⟩
def cpRid (id1 : Bytes) : Entry := ⟨id1, .runid, id1⟩

theorem hsetMany_append (fs : Cp) (a b : List Entry) :
    hsetMany fs (a ++ b) = hsetMany (hsetMany fs a) b := by
  simp [hsetMany, List.foldl_append]

theorem hsetMany_cpEntries (fs : Cp) (c : CpInfo) (id1 : Bytes) (now : Int) (h1 : id1 ≠ []) :
    hsetMany fs (cpEntries { c with runId := id1 } now)
      = hsetOne (hsetMany fs (cpPre c id1 now)) (cpOff c id1) := by
  rw [cpEntries_eq c id1 now h1, hsetMany_append]; rfl

theorem mem_cpPre {c : CpInfo} {id1 : Bytes} {now : Int} {e : Entry} (h : e ∈ cpPre c id1 now) :
    e.rid = id1 ∧ e.kind ≠ .offset ∧ e.kind ≠ .other ∧ (e.kind = .runid → e = cpRid id1) ∧
      (e.kind = .mtime → e.val = intToDec now) := by
  unfold cpPre at h
  rcases List.mem_append.mp h with h | h
  · rcases List.mem_cons.mp h with rfl | h
    · simp
    · have : e = ⟨id1, .runid, id1⟩ := by simpa using h
      subst this; simp [cpRid]
  · split at h
    · have : e = ⟨id1, .version, c.version⟩ := by simpa using h
      subst this; simp
    · simp at h

theorem cpRid_mem_cpPre (c : CpInfo) (id1 : Bytes) (now : Int) : cpRid id1 ∈ cpPre c id1 now := by
  simp [cpPre, cpRid]

/-- an entry with a name no later HSET uses stays -/
theorem mem_hsetMany_keep {es : List Entry} :
    ∀ {fs : Cp} {x : Entry}, x ∈ fs → (∀ e ∈ es, x.key ≠ e.key) → x ∈ hsetMany fs es := by
  induction es with
  | nil => intro fs x hx _; exact hx
  | cons e es ih =>
    intro fs x hx hk
    simp only [hsetMany, List.foldl_cons]
    exact ih (mem_hsetOne_of_ne hx (hk e (List.mem_cons_self ..)))
      (fun e' he' => hk e' (List.mem_cons_of_mem _ he'))

theorem cpRid_mem_hsetMany (fs : Cp) (c : CpInfo) (id1 : Bytes) (now : Int) :
    cpRid id1 ∈ hsetMany fs (cpPre c id1 now) := by
  unfold cpPre
  rw [hsetMany_append]
  apply mem_hsetMany_keep
  · show cpRid id1 ∈ hsetOne (hsetOne fs _) _
    exact mem_hsetOne_self _ _
  · intro e he
    split at he
    · have : e = ⟨id1, .version, c.version⟩ := by simpa using he
      subst this; simp [cpRid, Entry.key]
    · simp at he

theorem cpRid_mem_result (fs : Cp) (c : CpInfo) (id1 : Bytes) (now : Int) :
    cpRid id1 ∈ hsetOne (hsetMany fs (cpPre c id1 now)) (cpOff c id1) :=
  mem_hsetOne_of_ne (cpRid_mem_hsetMany fs c id1 now) (by simp [cpRid, cpOff, Entry.key])

/-- members of the written hash: a written field or an old one -/
theorem mem_result {fs : Cp} {c : CpInfo} {id1 : Bytes} {now : Int} {x : Entry}
    (h : x ∈ hsetOne (hsetMany fs (cpPre c id1 now)) (cpOff c id1)) :
    x = cpOff c id1 ∨ x ∈ cpPre c id1 now ∨ x ∈ fs := by
  rcases mem_hsetOne h with h | h
  · exact Or.inl h
  · rcases mem_hsetMany h with h | h
    · exact Or.inr (Or.inl h)
    · exact Or.inr (Or.inr h)

/-! ### what the HSET of SetCheckpoint does to one hash -/

theorem foldl_sel_hsetOne_irrelevant {α : Type} (g : α → Entry → α) (sel : Entry → Bool)
    (hkey : ∀ x e : Entry, x.key = e.key → sel x = sel e) (fs : Cp) (e : Entry)
    (he : sel e = false) (a : α) :
    (hsetOne fs e).foldl (fun a x => if sel x then g a x else a) a
      = fs.foldl (fun a x => if sel x then g a x else a) a := by
  rcases hsetOne_cases fs e with ⟨heq, _⟩ | ⟨heq, _⟩
  · rw [heq]
    apply foldl_map_rep_irrelevant
    intro a x hk
    simp [he, hkey x e hk]
  · rw [heq, List.foldl_append]; simp [he]

theorem foldl_sel_hsetMany_irrelevant {α : Type} (g : α → Entry → α) (sel : Entry → Bool)
    (hkey : ∀ x e : Entry, x.key = e.key → sel x = sel e) (es : List Entry) :
    ∀ (fs : Cp) (a : α), (∀ e ∈ es, sel e = false) →
    (hsetMany fs es).foldl (fun a x => if sel x then g a x else a) a
      = fs.foldl (fun a x => if sel x then g a x else a) a := by
  induction es with
  | nil => intro fs a _; rfl
  | cons e es ih =>
    intro fs a h
    simp only [hsetMany, List.foldl_cons]
    have := ih (hsetOne fs e) a (fun e' he' => h e' (List.mem_cons_of_mem _ he'))
    simp only [hsetMany] at this
    rw [this]
    exact foldl_sel_hsetOne_irrelevant g sel hkey fs e (h e (List.mem_cons_self ..)) a

theorem offOf_hsetMany_irrelevant (ids : List Bytes) (fs : Cp) (es : List Entry)
    (h : ∀ e ∈ es, offSel ids e = false) : offOf ids (hsetMany fs es) = offOf ids fs :=
  foldl_sel_hsetMany_irrelevant (fun o e => (Resp.parseInt64 e.val).getD o) (offSel ids)
    (fun _ _ hk => offSel_key hk) es fs (-1) h

theorem ridOf_hsetMany_irrelevant (ids : List Bytes) (fs : Cp) (es : List Entry)
    (h : ∀ e ∈ es, ridSel ids e = false) : ridOf ids (hsetMany fs es) = ridOf ids fs :=
  foldl_sel_hsetMany_irrelevant (fun _ e => e.val) (ridSel ids)
    (fun _ _ hk => ridSel_key hk) es fs qmark h

/-- the hash after `SetCheckpoint` wrote `c` re-keyed to `id1` into it -/
def written (fs : Cp) (c : CpInfo) (id1 : Bytes) (now : Int) : Cp :=
  hsetOne (hsetMany fs (cpPre c id1 now)) (cpOff c id1)

structure WArgs (c : CpInfo) (id1 : Bytes) (now : Int) (X : Int) : Prop where
  h1 : id1 ≠ []
  h1q : id1 ≠ qmark
  hX : c.offset = X
  hXr : -(2^63 : Int) ≤ X ∧ X < 2^63
  hnow : -(2^63 : Int) ≤ now ∧ now < 2^63

theorem cpOff_parse {c : CpInfo} {id1 : Bytes} {now X : Int} (w : WArgs c id1 now X) :
    Resp.parseInt64 (cpOff c id1).val = some X := by
  simp only [cpOff, w.hX]; exact Resp.parseInt64_intToDec X w.hXr.1 w.hXr.2

theorem written_parses {ids : List Bytes} {fs : Cp} {c : CpInfo} {id1 : Bytes} {now X : Int}
    (w : WArgs c id1 now X) (hp : Parses ids fs) : Parses ids (written fs c id1 now) := by
  intro e he hm hk
  rcases mem_result he with rfl | he | he
  · rw [cpOff_parse w]; rfl
  · obtain ⟨_, hno, _, _, hmt⟩ := mem_cpPre he
    rcases hk with hk | hk
    · exact absurd hk hno
    · rw [hmt hk, Resp.parseInt64_intToDec now w.hnow.1 w.hnow.2]; rfl
  · exact hp e he hm hk

theorem pre_parses {ids : List Bytes} {fs : Cp} {c : CpInfo} {id1 : Bytes} {now X : Int}
    (w : WArgs c id1 now X) (hp : Parses ids fs) : Parses ids (hsetMany fs (cpPre c id1 now)) := by
  intro e he hm hk
  rcases mem_hsetMany he with he | he
  · obtain ⟨_, hno, _, _, hmt⟩ := mem_cpPre he
    rcases hk with hk | hk
    · exact absurd hk hno
    · rw [hmt hk, Resp.parseInt64_intToDec now w.hnow.1 w.hnow.2]; rfl
  · exact hp e he hm hk

theorem offSel_cpPre_false (ids : List Bytes) {c : CpInfo} {id1 : Bytes} {now : Int} :
    ∀ e ∈ cpPre c id1 now, offSel ids e = false := by
  intro e he
  rw [← Bool.not_eq_true, offSel_iff]
  intro h; exact (mem_cpPre he).2.1 h.2

/-- same key: the offset read stays X -/
theorem written_off_same {ids : List Bytes} {fs : Cp} {c : CpInfo} {id1 : Bytes} {now X : Int}
    (w : WArgs c id1 now X) (hm : matchId ids id1 = true) (hp : Parses ids fs)
    (h : offOf ids fs = X) : offOf ids (written fs c id1 now) = X := by
  unfold written
  apply offOf_hsetOne_set ids _ _ X _ (cpOff_parse w) (pre_parses w hp)
  · rw [offOf_hsetMany_irrelevant ids fs _ (offSel_cpPre_false ids)]; exact h
  · rw [offSel_iff]; exact ⟨hm, rfl⟩

/-- read with the new id alone, or into a hash holding no field of the ids: the offset is X -/
theorem written_off_fresh {ids : List Bytes} {fs : Cp} {c : CpInfo} {id1 : Bytes} {now X : Int}
    (w : WArgs c id1 now X) (hm : matchId ids id1 = true)
    (hfresh : ∀ e ∈ fs, offSel ids e = true → e.key = (cpOff c id1).key) :
    offOf ids (written fs c id1 now) = X := by
  apply foldl_offStep_all_eq
  · intro x hx hs
    have hk : x.key = (cpOff c id1).key := by
      rcases mem_result hx with rfl | hx' | hx'
      · rfl
      · exact absurd hs (by rw [offSel_cpPre_false ids x hx']; decide)
      · exact hfresh x hx' hs
    rw [hsetOne_key hx hk]; exact cpOff_parse w
  · left
    exact ⟨cpOff c id1, mem_hsetOne_self _ _, by rw [offSel_iff]; exact ⟨hm, rfl⟩⟩

theorem written_rid {ids : List Bytes} {fs : Cp} {c : CpInfo} {id1 : Bytes} {now X : Int}
    (w : WArgs c id1 now X) (hm : matchId ids id1 = true)
    (hold : ∀ e ∈ fs, ridSel ids e = true → e.val ≠ qmark) :
    ridOf ids (written fs c id1 now) ≠ qmark := by
  apply foldl_ridStep_ne
  · intro x hx hs
    rcases mem_result hx with rfl | hx' | hx'
    · rw [ridSel_iff] at hs; exact absurd hs.2 (by simp [cpOff])
    · rw [ridSel_iff] at hs
      rw [(mem_cpPre hx').2.2.2.1 hs.2]; exact w.h1q
    · exact hold x hx' hs
  · left
    exact ⟨cpRid id1, cpRid_mem_result fs c id1 now, by rw [ridSel_iff]; exact ⟨hm, rfl⟩⟩

theorem written_own {fs : Cp} {c : CpInfo} {id1 : Bytes} {now : Int}
    (hown : ∀ e ∈ fs, e.kind = .runid → e.val = e.rid) :
    ∀ e ∈ written fs c id1 now, e.kind = .runid → e.val = e.rid := by
  intro e he hk
  rcases mem_result he with rfl | he' | he'
  · exact absurd hk (by simp [cpOff])
  · rw [(mem_cpPre he').2.2.2.1 hk]; rfl
  · exact hown e he' hk

/-- the other id's fields are untouched -/
theorem written_other {fs : Cp} {c : CpInfo} {id1 id2 : Bytes} {now : Int} (hne : id1 ≠ id2) :
    offOf [id2] (written fs c id1 now) = offOf [id2] fs ∧
    ridOf [id2] (written fs c id1 now) = ridOf [id2] fs := by
  have hall : written fs c id1 now = hsetMany fs (cpPre c id1 now ++ [cpOff c id1]) := by
    rw [hsetMany_append]; rfl
  have hrid : ∀ e ∈ cpPre c id1 now ++ [cpOff c id1], e.rid = id1 := by
    intro e he
    rcases List.mem_append.mp he with he | he
    · exact (mem_cpPre he).1
    · have : e = cpOff c id1 := by simpa using he
      rw [this]; rfl
  rw [hall]
  constructor
  · apply offOf_hsetMany_irrelevant
    intro e he
    rw [← Bool.not_eq_true, offSel_iff, matchId_one, hrid e he]
    intro h; exact hne h.1
  · apply ridOf_hsetMany_irrelevant
    intro e he
    rw [← Bool.not_eq_true, ridSel_iff, matchId_one, hrid e he]
    intro h; exact hne h.1

/-! ### UpdateCheckpoint, phase by phase -/

theorem foldl_ridStep_mem (ids : List Bytes) (fs : Cp)
    (hown : ∀ e ∈ fs, e.kind = .runid → e.val = e.rid) :
    ∀ r, (r = qmark ∨ matchId ids r = true) →
      (fs.foldl (ridStep ids) r = qmark ∨ matchId ids (fs.foldl (ridStep ids) r) = true) := by
  induction fs with
  | nil => intro r h; exact h
  | cons y fs ih =>
    intro r h
    simp only [List.foldl_cons]
    apply ih (fun e he => hown e (List.mem_cons_of_mem _ he))
    unfold ridStep
    split
    · rename_i hy
      rw [ridSel_iff] at hy
      right; rw [hown y (List.mem_cons_self ..) hy.2]; exact hy.1
    · exact h

/-- what the NEW key may already hold: nothing of the ids, or what a rename cut after its first
    HSET left — fields of the ids that read `X` in `d` and are smaller than `X` in every other
    database (so the theorem also covers the re-run after such a cut) -/
structure LocOk (ids : List Bytes) (t : Target) (loc : Bytes) (d : Nat) (X : Int) : Prop where
  parses : ∀ db, Parses ids (t.cps db loc)
  below : ∀ db, db ≠ d → OffBelow ids (t.cps db loc) X
  atd : offOf ids (t.cps d loc) = X ∨ ∀ e ∈ t.cps d loc, matchId ids e.rid = false
  ridok : ∀ db, ∀ e ∈ t.cps db loc, ridSel ids e = true → e.val ≠ qmark

/-- a key holding no field of the ids is fine -/
theorem LocOk.of_fresh {ids : List Bytes} {t : Target} {loc : Bytes} {d : Nat} {X : Int}
    (h : ∀ db, ∀ e ∈ t.cps db loc, matchId ids e.rid = false) : LocOk ids t loc d X :=
  ⟨fun db e he hm => by rw [h db e he] at hm; exact absurd hm (by decide),
   fun db _ e he hs => by rw [offSel_iff, h db e he] at hs; exact absurd hs.1 (by decide),
   Or.inr (h d),
   fun db e he hs => by rw [ridSel_iff, h db e he] at hs; exact absurd hs.1 (by decide)⟩

/-- hypotheses of `update_prefix_safe` on the state before the operation -/
structure UpdPre (id1 id2 loc : Bytes) (t₀ : Target) (n r : Bytes) (d : Nat) (X : Int) (now : Int) : Prop where
  hne : id1 ≠ id2
  h1 : id1 ≠ []
  h1q : id1 ≠ qmark
  h2q : id2 ≠ qmark
  hloc : loc ≠ []
  hn : getHash t₀.hash [id1, id2] = some (n, r)
  hn0 : n ≠ []
  holds : Holds [id1, id2] t₀ n d X
  own : RunidOwn t₀ n
  fresh : n ≠ loc → LocOk [id1, id2] t₀ loc d X
  hnow : -(2^63 : Int) ≤ now ∧ now < 2^63

/-- the requests after the HSET of the new key and the repointing of the hash -/
def updRest (n oldId id1 loc : Bytes) (o2 : List Nat) : List Req :=
  if oldId ≠ [] ∧ oldId ≠ qmark ∧ ¬ (oldId = id1 ∧ n = loc) then
    o2.map (fun db => Req.hdelCp db n (fourKeys oldId))
      ++ (if oldId ≠ id1 then [Req.hdelHash oldId] else [])
  else []

theorem updateReqs_shape (ver : Bytes) {t₀ : Target} {loc id1 id2 n r : Bytes} {d : Nat} {c : CpInfo}
    (o1 o2 : List Nat) (now : Int)
    (hn : getHash t₀.hash [id1, id2] = some (n, r)) (hn0 : n ≠ [])
    (hgc : getCheckpoint ver t₀ n [id1, id2] o1 = some (c, (d : Int))) :
    updateReqs ver t₀ loc [id1, id2] o1 o2 now =
      if n ≠ loc ∨ id1 ≠ r then
        Req.hsetCp d loc (cpEntries { c with runId := id1 } now) :: Req.hsetHash id1 loc ::
          updRest n c.runId id1 loc o2
      else [] := by
  have hd : ¬ ((d : Int) < 0) := by omega
  simp only [updateReqs, hn, hn0, ne_eq, not_false_eq_true, if_true, hgc, hd, if_false,
    Int.toNat_natCast, updRest, List.cons_append, List.nil_append]

theorem safe_updRest {id1 id2 A loc n oldId : Bytes} {d : Nat} (o2 : List Nat)
    (hA : n = loc → oldId ≠ id1 → oldId ≠ A) :
    ∀ q ∈ updRest n oldId id1 loc o2, SafeReq id1 id2 A loc id1 d q := by
  intro q hq
  unfold updRest at hq
  split at hq
  · rename_i hcond
    replace hA : n = loc → oldId ≠ A := fun h => hA h (fun h1 => hcond.2.2 ⟨h1, h⟩)
    rcases List.mem_append.mp hq with hq | hq
    · obtain ⟨db, _, rfl⟩ := List.mem_map.mp hq
      show n ≠ loc ∨ ∃ ρ, (∀ k ∈ fourKeys oldId, k.1 = ρ) ∧ (ρ, Kind.offset) ∈ fourKeys oldId ∧
        (db ≠ d ∨ ρ ≠ A)
      by_cases h : n = loc
      · refine Or.inr ⟨oldId, ?_, by simp [fourKeys], Or.inr (hA h)⟩
        intro k hk; simp [fourKeys] at hk; rcases hk with rfl | rfl | rfl | rfl <;> rfl
      · exact Or.inl h
    · split at hq
      · rename_i h
        have : q = Req.hdelHash oldId := by simpa using hq
        subst this
        exact ⟨h, Or.inr rfl⟩
      · simp at hq
  · simp at hq

/-- the invariant at every prefix, with what the hash resolves to: once the first two requests are
    applied (and whenever nothing had to be done) it is the LOCAL key -/
theorem update_prefix_inv'' (ver : Bytes) {id1 id2 loc : Bytes} {t₀ : Target} {n r : Bytes} {d : Nat}
    {X : Int} {now : Int} (P : UpdPre id1 id2 loc t₀ n r d X now) (o1 o2 : List Nat)
    (ho1 : d ∈ o1) (k : Nat) :
    ∃ n' r', n' ≠ [] ∧ getHash (applyAll t₀ ((updateReqs ver t₀ loc [id1, id2] o1 o2 now).take k)).hash
        [id1, id2] = some (n', r') ∧
      Holds [id1, id2] (applyAll t₀ ((updateReqs ver t₀ loc [id1, id2] o1 o2 now).take k)) n' d X ∧
      ((n ≠ loc ∨ id1 ≠ r) → 2 ≤ k → n' = loc ∧ r' = id1) ∧
      (¬ (n ≠ loc ∨ id1 ≠ r) → n' = n ∧ r' = r) ∧
      -- once the hash is repointed the NEW id alone carries the position under the LOCAL key
      ((n ≠ loc ∨ id1 ≠ r) → 2 ≤ k →
        Inv id1 id2 id1 (applyAll t₀ ((updateReqs ver t₀ loc [id1, id2] o1 o2 now).take k)) loc id1 d X) := by
  obtain ⟨c, hgc, hcX, hcq, hfetch⟩ := getCheckpoint_of_holds ver P.holds o1 ho1
  rw [updateReqs_shape ver o1 o2 now P.hn P.hn0 hgc]
  by_cases hbr : n ≠ loc ∨ id1 ≠ r
  case neg =>
    simp only [hbr, if_false, List.take_nil]
    exact ⟨n, r, P.hn0, P.hn, P.holds, fun h => h.elim, fun _ => ⟨rfl, rfl⟩, fun h => h.elim⟩
  simp only [hbr, if_true]
  -- facts about what GetCheckpoint returned
  obtain ⟨c', hc', hoff', hrid'⟩ := fetch_spec [id1, id2] (t₀.cps d n) (P.holds.parses d)
  have hcc : c' = c := by rw [hfetch] at hc'; exact (Option.some.inj hc').symm
  subst hcc
  have holdId : c'.runId = id1 ∨ c'.runId = id2 := by
    have := foldl_ridStep_mem [id1, id2] (t₀.cps d n) (P.own d) qmark (Or.inl rfl)
    rw [show (t₀.cps d n).foldl (ridStep [id1, id2]) qmark = ridOf [id1, id2] (t₀.cps d n) from rfl,
      ← hrid'] at this
    rcases this with h | h
    · exact absurd h hcq
    · exact (matchId_pair id1 id2 _).mp h
  have w : WArgs c' id1 now X := ⟨P.h1, P.h1q, hcX, by rw [← hcX, hoff']; exact offOf_range _ _, P.hnow⟩
  have hm1 : matchId [id1, id2] id1 = true := (matchId_pair id1 id2 id1).mpr (Or.inl rfl)
  have hq2 : ∀ e ∈ t₀.cps d n, ridSel [id1, id2] e = true → e.val ≠ qmark := by
    intro e he hs
    rw [ridSel_iff] at hs
    rw [P.own d e he hs.2]
    rcases (matchId_pair id1 id2 _).mp hs.1 with h | h <;> rw [h]
    · exact P.h1q
    · exact P.h2q
  -- the state after the first request
  let R1 := Req.hsetCp d loc (cpEntries { c' with runId := id1 } now)
  have hcps1 : ∀ db nm, (applyReq t₀ R1).cps db nm =
      if db = d ∧ nm = loc then written (t₀.cps d loc) c' id1 now else t₀.cps db nm := by
    intro db nm
    show (applyReq t₀ (Req.hsetCp d loc _)).cps db nm = _
    rw [applyReq_hsetCp_cps, hsetMany_cpEntries _ _ _ _ P.h1]; rfl
  have hholds1 : Holds [id1, id2] (applyReq t₀ R1) n d X := by
    by_cases hnl : n = loc
    · apply P.holds.update _ d
      · intro db hdb; rw [hcps1]; simp [hdb]
      · rw [hcps1]; simp only [hnl, and_self, if_true]
        exact written_parses w (hnl ▸ P.holds.parses d)
      · intro _
        rw [hcps1]; simp only [hnl, and_self, if_true]
        exact ⟨written_off_same w hm1 (hnl ▸ P.holds.parses d) (hnl ▸ P.holds.off),
          written_rid w hm1 (hnl ▸ hq2)⟩
      · intro h; exact absurd rfl h
    · apply P.holds.congr
      intro db; rw [hcps1]
      have : ¬ (db = d ∧ n = loc) := fun h => hnl h.2
      simp [this]
  cases k with
  | zero => exact ⟨n, r, P.hn0, P.hn, P.holds, fun _ h => absurd h (by omega), fun h => absurd trivial h,
      fun _ h => absurd h (by omega)⟩
  | succ k =>
  cases k with
  | zero =>
    simp only [List.take_succ_cons, List.take_zero, applyAll, List.foldl_cons, List.foldl_nil]
    exact ⟨n, r, P.hn0, P.hn, hholds1, fun _ h => absurd h (by omega), fun h => absurd trivial h,
      fun _ h => absurd h (by omega)⟩
  | succ k =>
    simp only [List.take_succ_cons, applyAll, List.foldl_cons]
    -- the state after the second request
    let t₂ := applyReq (applyReq t₀ R1) (Req.hsetHash id1 loc)
    have hhash2 : getHash t₂.hash [id1, id2] = some (loc, id1) :=
      getHash_of_first (hlookup_hashSet_self _ _ _) P.hloc
    have hcps2 : ∀ db nm, t₂.cps db nm = (applyReq t₀ R1).cps db nm := fun _ _ => rfl
    -- no `_runid` field of the ids under the new key stores "?"
    have hridok2 : ∀ db, ∀ e ∈ t₂.cps db loc, ridSel [id1, id2] e = true → e.val ≠ qmark := by
      have hold : ∀ db, ∀ e ∈ t₀.cps db loc, ridSel [id1, id2] e = true → e.val ≠ qmark := by
        intro db e he hs
        by_cases hnl : n = loc
        · rw [ridSel_iff] at hs
          rw [P.own db e (hnl ▸ he) hs.2]
          rcases (matchId_pair id1 id2 _).mp hs.1 with h | h <;> rw [h]
          · exact P.h1q
          · exact P.h2q
        · exact (P.fresh hnl).ridok db e he hs
      intro db e he hs
      rw [hcps2, hcps1] at he
      split at he
      · rename_i hc
        rcases mem_result he with rfl | he' | he'
        · rw [ridSel_iff] at hs; exact absurd hs.2 (by simp [cpOff])
        · rw [ridSel_iff] at hs
          rw [(mem_cpPre he').2.2.2.1 hs.2]; exact P.h1q
        · exact hold d e he' hs
      · exact hold db e he hs
    -- choose the carrier and establish the invariant under the new key
    have hinv2 : ∃ A, A = id1 ∧ (A = id1 ∨ A = id2) ∧ (n = loc → c'.runId ≠ id1 → c'.runId ≠ A) ∧
        Inv id1 id2 A t₂ loc id1 d X := by
      by_cases hnl : n = loc
      · have hh2 : Holds [id1, id2] t₂ loc d X := by
          have := hholds1.congr (t' := t₂) (fun db => hcps2 db n)
          rw [hnl] at this; exact this
        refine ⟨id1, rfl, Or.inl rfl, fun _ h => h, hhash2, hh2, ?_, hridok2⟩
        unfold Carrier
        rw [hcps2, hcps1]; simp only [and_self, if_true]
        constructor
        · apply written_off_fresh w ((matchId_one id1 id1).mpr rfl)
          intro e _ hs
          rw [offSel_iff, matchId_one] at hs
          show (e.rid, e.kind) = (id1, Kind.offset)
          rw [hs.1, hs.2]
        · apply written_rid w ((matchId_one id1 id1).mpr rfl)
          intro e he hs
          rw [ridSel_iff, matchId_one] at hs
          rw [P.own d e (hnl ▸ he) hs.2, hs.1]; exact P.h1q
      · have hfr := P.fresh hnl
        refine ⟨id1, rfl, Or.inl rfl, fun h => absurd h hnl, hhash2, ?_, ?_, hridok2⟩
        · refine ⟨P.holds.nonneg, ?_, ?_, ?_, ?_⟩
          · intro db
            rw [hcps2, hcps1]
            by_cases hdb : db = d
            · subst hdb
              simp only [and_self, if_true]
              exact written_parses w (hfr.parses db)
            · simp only [hdb, false_and, if_false]
              exact hfr.parses db
          · rw [hcps2, hcps1]; simp only [and_self, if_true]
            rcases hfr.atd with hx | hno
            · exact written_off_same w hm1 (hfr.parses d) hx
            · apply written_off_fresh w hm1
              intro e he hs
              rw [offSel_iff, hno e he] at hs; exact absurd hs.1 (by decide)
          · rw [hcps2, hcps1]; simp only [and_self, if_true]
            exact written_rid w hm1 (hfr.ridok d)
          · intro db hdb
            rw [hcps2, hcps1]
            simp only [hdb, false_and, if_false]
            exact hfr.below db hdb
        · unfold Carrier
          rw [hcps2, hcps1]; simp only [and_self, if_true]
          constructor
          · apply written_off_fresh w ((matchId_one id1 id1).mpr rfl)
            intro e _ hs
            rw [offSel_iff, matchId_one] at hs
            show (e.rid, e.kind) = (id1, Kind.offset)
            rw [hs.1, hs.2]
          · apply written_rid w ((matchId_one id1 id1).mpr rfl)
            intro e he hs
            apply hfr.ridok d e he
            rw [ridSel_iff, matchId_one] at hs
            rw [ridSel_iff, matchId_pair]
            exact ⟨Or.inl hs.1, hs.2⟩
    obtain ⟨A, hA1, hA, hAold, hinv⟩ := hinv2
    have hA1' := hA1.symm
    subst hA1'
    have hsafe := safe_updRest (id1 := id1) (id2 := id2) (A := id1) (loc := loc) (d := d) o2 hAold
    have := inv_applyAll P.hne P.h1 hA ((updRest n c'.runId id1 loc o2).take k) hinv
      (fun q hq => hsafe q (mem_take hq))
    exact ⟨loc, id1, P.hloc, this.hash, this.holds, fun _ _ => ⟨rfl, rfl⟩, fun h => absurd trivial h,
      fun _ _ => this⟩

theorem update_prefix_inv' (ver : Bytes) {id1 id2 loc : Bytes} {t₀ : Target} {n r : Bytes} {d : Nat}
    {X : Int} {now : Int} (P : UpdPre id1 id2 loc t₀ n r d X now) (o1 o2 : List Nat)
    (ho1 : d ∈ o1) (k : Nat) :
    ∃ n' r', n' ≠ [] ∧ getHash (applyAll t₀ ((updateReqs ver t₀ loc [id1, id2] o1 o2 now).take k)).hash
        [id1, id2] = some (n', r') ∧
      Holds [id1, id2] (applyAll t₀ ((updateReqs ver t₀ loc [id1, id2] o1 o2 now).take k)) n' d X ∧
      ((n ≠ loc ∨ id1 ≠ r) → 2 ≤ k → n' = loc ∧ r' = id1) ∧
      (¬ (n ≠ loc ∨ id1 ≠ r) → n' = n ∧ r' = r) := by
  obtain ⟨n', r', h1, h2, h3, h4, h5, _⟩ := update_prefix_inv'' ver P o1 o2 ho1 k
  exact ⟨n', r', h1, h2, h3, h4, h5⟩

theorem update_prefix_inv (ver : Bytes) {id1 id2 loc : Bytes} {t₀ : Target} {n r : Bytes} {d : Nat}
    {X : Int} {now : Int} (P : UpdPre id1 id2 loc t₀ n r d X now) (o1 o2 : List Nat)
    (ho1 : d ∈ o1) (k : Nat) :
    ∃ n' r', n' ≠ [] ∧ getHash (applyAll t₀ ((updateReqs ver t₀ loc [id1, id2] o1 o2 now).take k)).hash
        [id1, id2] = some (n', r') ∧
      Holds [id1, id2] (applyAll t₀ ((updateReqs ver t₀ loc [id1, id2] o1 o2 now).take k)) n' d X := by
  obtain ⟨n', r', h1, h2, h3, _, _⟩ := update_prefix_inv' ver P o1 o2 ho1 k
  exact ⟨n', r', h1, h2, h3⟩

end GunYu.Checkpoint
