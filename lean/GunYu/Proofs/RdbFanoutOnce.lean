/-
  C04 — multiplicity in the fan-out (Model/RdbFanout.lean): every entry the
  distributor took is, at every moment, in EXACTLY ONE place — applied, dropped
  by a failing worker, or queued for the one worker its route names — and when
  the checkpoint is written nothing is dropped or queued: the applied entries
  are a permutation of the snapshot's entries (exactly once).
-/
import GunYu.Proofs.RdbFanout
import GunYu.Model.RdbFanoutG

namespace GunYu.RdbFanout

theorem flatMap_congr' {α} {l : List Nat} {f g : Nat → List α} (h : ∀ i ∈ l, f i = g i) :
    l.flatMap f = l.flatMap g := by
  induction l with
  | nil => rfl
  | cons x t ih =>
    simp only [List.flatMap_cons]
    rw [h x (List.mem_cons_self), ih (fun i hi => h i (List.mem_cons_of_mem _ hi))]

/-- replacing pipe `j` changes exactly that segment of the concatenation of all pipes -/
theorem flatMap_upd_split {α} (f : Nat → List α) (j : Nat) (v : List α) : ∀ n, j < n →
    ∃ pre post, (List.range n).flatMap f = pre ++ f j ++ post ∧
      (List.range n).flatMap (upd f j v) = pre ++ v ++ post
  | 0, h => by omega
  | n+1, h => by
    by_cases hj : j = n
    · subst hj
      refine ⟨(List.range j).flatMap f, [], ?_, ?_⟩
      · rw [List.range_succ, List.flatMap_append]; simp
      · rw [List.range_succ, List.flatMap_append]
        have : (List.range j).flatMap (upd f j v) = (List.range j).flatMap f :=
          flatMap_congr' (fun i hi => upd_other _ _ _ _ (by have := List.mem_range.mp hi; omega))
        rw [this]; simp [upd_same]
    · obtain ⟨pre, post, h1, h2⟩ := flatMap_upd_split f j v n (by omega)
      refine ⟨pre, post ++ f n, ?_, ?_⟩
      · rw [List.range_succ, List.flatMap_append, h1]; simp
      · rw [List.range_succ, List.flatMap_append, h2]; simp [upd_other _ _ _ _ (Ne.symm hj)]

theorem flatMap_nil_of {α} (f : Nat → List α) : ∀ n, (∀ i, i < n → f i = []) → (List.range n).flatMap f = []
  | 0, _ => rfl
  | n+1, h => by
    rw [List.range_succ, List.flatMap_append, flatMap_nil_of f n (fun i hi => h i (by omega))]
    simp [h n (by omega)]

structure Once {α} (c : Cfg α) (s : St α) : Prop where
  /-- every entry the distributor took is in exactly one place -/
  perm : s.consumed.Perm (s.applied ++ s.dropped ++ queued c s)
  /-- an entry is only ever queued for the worker its route names -/
  lane : ∀ i, i < c.n → ∀ a ∈ s.pipes i, c.route a % c.n = i
  /-- once the checkpoint is written every goroutine has returned, nothing is dropped or queued -/
  cpDone : s.checkpoint = true →
    s.dist.isSome = true ∧ (∀ i, i < c.n → (s.wres i).isSome = true) ∧ s.dropped = [] ∧ queued c s = []

theorem init_once {α} (c : Cfg α) (items : List (Item α)) : Once c (init items) := by
  refine ⟨?_, ?_, ?_⟩
  · simp only [init, queued]
    rw [flatMap_nil_of _ c.n (fun _ _ => rfl)]
    exact List.Perm.refl _
  · intro i _ a ha; simp [init] at ha
  · intro h; simp [init] at h

section
variable {α : Type} (c : Cfg α) (items0 : List (Item α)) (s : St α) (inv : Inv c items0 s) (o : Once c s)
include o

theorem parse_once : Once c (stepParse c s) := by
  unfold stepParse
  split
  · split
    · exact o
    · exact ⟨o.perm, o.lane, o.cpDone⟩
  · split
    · exact ⟨o.perm, o.lane, o.cpDone⟩
    · exact o

theorem dist_once (hn : 0 < c.n) : Once c (stepDist c s) := by
  unfold stepDist
  split
  · exact o
  · next hdn =>
    have hd0 : s.dist = none := by simpa using hdn
    have hnocp : s.checkpoint = true → False := by
      intro h; have := (o.cpDone h).1; rw [hd0] at this; cases this
    split
    · split
      · exact ⟨o.perm, o.lane, fun h => absurd h (by simpa using hnocp)⟩
      · exact o
    · exact ⟨o.perm, o.lane, fun h => absurd h (by simpa using hnocp)⟩
    · exact ⟨o.perm, o.lane, fun h => absurd h (by simpa using hnocp)⟩
    · next a rest hp =>
      split
      · have hj : c.route a % c.n < c.n := Nat.mod_lt _ hn
        refine ⟨?_, ?_, fun h => absurd h (by simpa using hnocp)⟩
        · obtain ⟨pre, post, h1, h2⟩ := flatMap_upd_split s.pipes (c.route a % c.n)
            (s.pipes (c.route a % c.n) ++ [a]) c.n hj
          show (s.consumed ++ [a]).Perm (s.applied ++ s.dropped ++
            (List.range c.n).flatMap (upd s.pipes (c.route a % c.n) (s.pipes (c.route a % c.n) ++ [a])))
          rw [h2]
          have hp0 := o.perm
          unfold queued at hp0
          rw [h1] at hp0
          have e1 : s.applied ++ s.dropped ++ (pre ++ (s.pipes (c.route a % c.n) ++ [a]) ++ post) =
              (s.applied ++ s.dropped ++ (pre ++ s.pipes (c.route a % c.n))) ++ ([a] ++ post) := by
            simp [List.append_assoc]
          have e2 : s.applied ++ s.dropped ++ (pre ++ s.pipes (c.route a % c.n) ++ post) =
              (s.applied ++ s.dropped ++ (pre ++ s.pipes (c.route a % c.n))) ++ post := by
            simp [List.append_assoc]
          rw [e1]
          rw [e2] at hp0
          refine (List.Perm.append_right [a] hp0).trans ?_
          rw [List.append_assoc]
          exact List.Perm.append_left _ List.perm_append_comm
        · intro i hi x hx
          by_cases hji : i = c.route a % c.n
          · subst hji
            simp only [upd_same] at hx
            rcases List.mem_append.mp hx with hx | hx
            · exact o.lane _ hi x hx
            · simp at hx; subst hx; rfl
          · simp only [upd_other _ _ _ _ hji] at hx
            exact o.lane i hi x hx
      · exact o

theorem distCancel_once : Once c (stepDistCancel s) := by
  unfold stepDistCancel
  split
  · next h =>
    have hd0 : s.dist = none := by
      have := h; simp only [Bool.and_eq_true] at this; simpa using this.1
    refine ⟨o.perm, o.lane, fun hc => ?_⟩
    have := (o.cpDone hc).1; rw [hd0] at this; cases this
  · exact o

theorem work_once (i : Nat) : Once c (stepWork c s i) := by
  unfold stepWork
  split
  · exact o
  · next hg =>
    have hin : i < c.n := by
      simp only [Bool.or_eq_true, not_or] at hg; simpa using hg.1
    have hw0 : s.wres i = none := by
      simp only [Bool.or_eq_true, not_or] at hg; simpa using hg.2
    have hnocp : s.checkpoint = true → False := by
      intro h; have := (o.cpDone h).2.1 i hin; rw [hw0] at this; cases this
    split
    · exact o
    · next a q hp =>
      refine ⟨?_, ?_, fun h => absurd h (by simpa using hnocp)⟩
      · obtain ⟨pre, post, h1, h2⟩ := flatMap_upd_split s.pipes i q c.n hin
        show s.consumed.Perm (s.applied ++ [a] ++ s.dropped ++ (List.range c.n).flatMap (upd s.pipes i q))
        rw [h2]
        have hp0 := o.perm
        unfold queued at hp0
        rw [h1, hp] at hp0
        refine hp0.trans ?_
        have e1 : s.applied ++ s.dropped ++ (pre ++ a :: q ++ post) = (s.applied ++ s.dropped ++ pre) ++ a :: (q ++ post) := by
          simp [List.append_assoc]
        have e2 : s.applied ++ [a] ++ s.dropped ++ (pre ++ q ++ post) = s.applied ++ a :: (s.dropped ++ pre ++ (q ++ post)) := by
          simp [List.append_assoc]
        rw [e1, e2]
        refine List.perm_middle.trans ?_
        have e3 : s.applied ++ s.dropped ++ pre ++ (q ++ post) = s.applied ++ (s.dropped ++ pre ++ (q ++ post)) := by
          simp [List.append_assoc]
        rw [e3]
        exact List.perm_middle.symm
      · intro j hj x hx
        by_cases hji : j = i
        · subst hji
          simp only [upd_same] at hx
          exact o.lane j hj x (by rw [hp]; exact List.mem_cons_of_mem _ hx)
        · simp only [upd_other _ _ _ _ hji] at hx
          exact o.lane j hj x hx

theorem workFail_once (i : Nat) : Once c (stepWorkFail c s i) := by
  unfold stepWorkFail
  split
  · exact o
  · next hg =>
    have hin : i < c.n := by
      simp only [Bool.or_eq_true, not_or] at hg; simpa using hg.1
    have hw0 : s.wres i = none := by
      simp only [Bool.or_eq_true, not_or] at hg; simpa using hg.2
    have hnocp : s.checkpoint = true → False := by
      intro h; have := (o.cpDone h).2.1 i hin; rw [hw0] at this; cases this
    split
    · exact ⟨o.perm, o.lane, fun h => absurd h (by simpa using hnocp)⟩
    · next a q hp =>
      refine ⟨?_, ?_, fun h => absurd h (by simpa using hnocp)⟩
      · obtain ⟨pre, post, h1, h2⟩ := flatMap_upd_split s.pipes i q c.n hin
        show s.consumed.Perm (s.applied ++ (s.dropped ++ [a]) ++ (List.range c.n).flatMap (upd s.pipes i q))
        rw [h2]
        have hp0 := o.perm
        unfold queued at hp0
        rw [h1, hp] at hp0
        refine hp0.trans ?_
        have e1 : s.applied ++ s.dropped ++ (pre ++ a :: q ++ post) = (s.applied ++ s.dropped ++ pre) ++ a :: (q ++ post) := by
          simp [List.append_assoc]
        have e2 : s.applied ++ (s.dropped ++ [a]) ++ (pre ++ q ++ post) = (s.applied ++ s.dropped) ++ a :: (pre ++ (q ++ post)) := by
          simp [List.append_assoc]
        rw [e1, e2]
        refine List.perm_middle.trans ?_
        have e3 : s.applied ++ s.dropped ++ pre ++ (q ++ post) = (s.applied ++ s.dropped) ++ (pre ++ (q ++ post)) := by
          simp [List.append_assoc]
        rw [e3]
        exact List.perm_middle.symm
      · intro j hj x hx
        by_cases hji : j = i
        · subst hji
          simp only [upd_same] at hx
          exact o.lane j hj x (by rw [hp]; exact List.mem_cons_of_mem _ hx)
        · simp only [upd_other _ _ _ _ hji] at hx
          exact o.lane j hj x hx

theorem workCancel_once (i : Nat) : Once c (stepWorkCancel c s i) := by
  unfold stepWorkCancel
  split
  · refine ⟨o.perm, o.lane, fun h => ?_⟩
    obtain ⟨h1, h2, h3, h4⟩ := o.cpDone h
    refine ⟨h1, fun j hj => ?_, h3, h4⟩
    by_cases hji : j = i
    · subst hji; simp [upd_same]
    · simp only [upd_other _ _ _ _ hji]; exact h2 j hj
  · exact o

theorem workClosed_once (i : Nat) : Once c (stepWorkClosed c s i) := by
  unfold stepWorkClosed
  split
  · refine ⟨o.perm, o.lane, fun h => ?_⟩
    obtain ⟨h1, h2, h3, h4⟩ := o.cpDone h
    refine ⟨h1, fun j hj => ?_, h3, h4⟩
    by_cases hji : j = i
    · subst hji; simp [upd_same]
    · simp only [upd_other _ _ _ _ hji]; exact h2 j hj
  · exact o

theorem collectD_once : Once c (stepCollectD s) := by
  unfold stepCollectD
  split
  · exact o
  · split
    · exact o
    · exact ⟨o.perm, o.lane, o.cpDone⟩
    · exact ⟨o.perm, o.lane, o.cpDone⟩

theorem collectW_once (i : Nat) : Once c (stepCollectW c s i) := by
  unfold stepCollectW
  split
  · exact o
  · split
    · exact o
    · exact ⟨o.perm, o.lane, o.cpDone⟩
    · exact ⟨o.perm, o.lane, o.cpDone⟩

include inv in
theorem finish_once (cpOk : Bool) : Once c (stepFinish c s cpOk) := by
  unfold stepFinish
  split
  · exact o
  · next hg =>
    simp only [Bool.or_eq_true, not_or, Bool.not_eq_eq_eq_not, Bool.not_true] at hg
    split
    · exact ⟨o.perm, o.lane, o.cpDone⟩
    · next herr =>
      split
      · exact ⟨o.perm, o.lane, o.cpDone⟩
      · next hcan =>
        split
        · have hgd : s.gotD = true := by
            cases h : s.gotD with
            | true => rfl
            | false => simp [h] at hg
          have hall : ∀ i, i < c.n → s.gotW i = true := by
            apply (allGot_iff c.n s).mp
            cases h : allGot c.n s with
            | true => rfl
            | false => simp [h] at hg
          have herr' : s.errs = false := by simpa using herr
          have hcan' : s.cancelled = false := by simpa using hcan
          have hchild : s.childCancelled = false := by
            cases h : s.childCancelled with
            | false => rfl
            | true => have := inv.child h; rw [herr'] at this; cases this
          have hdist : s.dist = some .ok := by
            rcases inv.gotD hgd with h | ⟨_, h⟩
            · exact h
            · rw [herr'] at h; cases h
          have hwres : ∀ i, i < c.n → s.wres i = some .ok := by
            intro i hi
            rcases inv.gotW i (hall i hi) with h | ⟨_, h⟩
            · exact h
            · rw [herr'] at h; cases h
          have hpipes : ∀ i, i < c.n → s.pipes i = [] := by
            intro i hi
            rcases inv.wok i hi (hwres i hi) with ⟨h, _⟩ | h | h
            · exact h
            · rw [hcan'] at h; cases h
            · rw [hchild] at h; cases h
          have hdrop : s.dropped = [] := by
            cases hd : s.dropped with
            | nil => rfl
            | cons a l =>
              obtain ⟨i, hi, hw⟩ := inv.dropped (by rw [hd]; simp)
              rw [hwres i hi] at hw; cases hw
          refine ⟨o.perm, o.lane, fun _ => ⟨by rw [hdist]; rfl, fun i hi => by rw [hwres i hi]; rfl, hdrop, ?_⟩⟩
          exact flatMap_nil_of _ c.n hpipes
        · exact ⟨o.perm, o.lane, o.cpDone⟩

end

theorem step_once {α} (c : Cfg α) (items0 : List (Item α)) (hn : 0 < c.n)
    (s : St α) (e : Ev) (inv : Inv c items0 s) (o : Once c s) : Once c (step c s e) := by
  cases e with
  | parse => exact parse_once c s o
  | dist => exact dist_once c s o hn
  | distCancel => exact distCancel_once c s o
  | work i => exact work_once c s o i
  | workFail i => exact workFail_once c s o i
  | workCancel i => exact workCancel_once c s o i
  | workClosed i => exact workClosed_once c s o i
  | cancel => exact ⟨o.perm, o.lane, o.cpDone⟩
  | collectD => exact collectD_once c s o
  | collectW i => exact collectW_once c s o i
  | finish cpOk => exact finish_once c items0 s inv o cpOk

theorem run_once {α} (c : Cfg α) (items0 : List (Item α)) (hn : 0 < c.n)
    (sched : List Ev) : ∀ s, Inv c items0 s → Once c s → Once c (run c s sched) := by
  induction sched with
  | nil => intro s _ h; exact h
  | cons e rest ih =>
    intro s hi ho
    simp only [run, List.foldl_cons]
    exact ih _ (step_inv c items0 hn s e hi) (step_once c items0 hn s e hi ho)

end GunYu.RdbFanout
