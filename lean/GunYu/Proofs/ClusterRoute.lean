/-
  Helper lemmas for C19 (Props/C19.lean): invariants of the ClusterRoute
  transition systems. Core Lean only.
-/
import GunYu.Model.ClusterRoute
import GunYu.Model.ClusterSender

namespace GunYu.ClusterRoute

theorem splitFirst_spec {α : Type} (p : α → Bool) :
    ∀ (l : List α) (b : List α) (y : α) (a : List α), splitFirst p l = some (b, y, a) →
      l = b ++ y :: a ∧ p y = true ∧ ∀ z ∈ b, p z = false := by
  intro l
  induction l with
  | nil => intro b y a h; simp [splitFirst] at h
  | cons x xs ih =>
    intro b y a h
    unfold splitFirst at h
    by_cases hx : p x = true
    · simp only [hx, if_true, Option.some.injEq, Prod.mk.injEq] at h
      obtain ⟨rfl, rfl, rfl⟩ := h
      exact ⟨rfl, hx, by simp⟩
    · simp only [hx] at h
      cases hr : splitFirst p xs with
      | none => simp [hr] at h
      | some t =>
        rcases t with ⟨b', y', a'⟩
        rw [hr] at h
        simp at h
        obtain ⟨hb, hy, ha⟩ := h
        subst hb; subst hy; subst ha
        obtain ⟨h1, h2, h3⟩ := ih b' y' a' hr
        refine ⟨by rw [h1]; rfl, h2, ?_⟩
        intro z hz
        cases hz with
        | head => simpa using hx
        | tail _ hz => exact h3 z hz

section
variable (slotOf : Key → Slot)

def idsR (l : List Redir) (k : Key) : List Nat :=
  (l.filter (fun r => r.cmd.key == k)).map (fun r => r.cmd.id)

def idsS (l : List Sent) (k : Key) : List Nat :=
  (l.filter (fun x => x.cmd.key == k)).map (fun x => x.cmd.id)

/-- ids of the not-yet-finished commands of key `k`, in queue order -/
def outIds (s : St) (k : Key) : List Nat :=
  ((routes s).filter (fun p => p.1.key == k)).map (fun p => p.1.id)

/-- executed ids of `k` in the current segment followed by the outstanding ones -/
def seqOf (s : St) (k : Key) : List Nat := keyLog s.log k ++ outIds s k

theorem outIds_eq (s : St) (k : Key) :
    outIds s k = idsR s.redir k ++ idsS s.todo k ++ idsS s.cur k := by
  simp [outIds, routes, idsR, idsS, List.filter_map, Function.comp_def]

theorem idsS_append (a b : List Sent) (k : Key) : idsS (a ++ b) k = idsS a k ++ idsS b k := by
  simp [idsS]

theorem idsR_append (a b : List Redir) (k : Key) : idsR (a ++ b) k = idsR a k ++ idsR b k := by
  simp [idsR]

theorem idsS_cons (x : Sent) (a : List Sent) (k : Key) :
    idsS (x :: a) k = (if x.cmd.key = k then [x.cmd.id] else []) ++ idsS a k := by
  by_cases h : x.cmd.key = k <;> simp [idsS, List.filter_cons, h]

theorem idsR_cons (x : Redir) (a : List Redir) (k : Key) :
    idsR (x :: a) k = (if x.cmd.key = k then [x.cmd.id] else []) ++ idsR a k := by
  by_cases h : x.cmd.key = k <;> simp [idsR, List.filter_cons, h]

theorem idsS_nil_of (l : List Sent) (k : Key) (h : ∀ x ∈ l, x.cmd.key ≠ k) : idsS l k = [] := by
  simp only [idsS, List.map_eq_nil_iff, List.filter_eq_nil_iff]
  intro x hx; simpa using h x hx

theorem idsR_nil_of (l : List Redir) (k : Key) (h : ∀ x ∈ l, x.cmd.key ≠ k) : idsR l k = [] := by
  simp only [idsR, List.map_eq_nil_iff, List.filter_eq_nil_iff]
  intro x hx; simpa using h x hx

theorem keyLog_append (a b : List Exec) (k : Key) : keyLog (a ++ b) k = keyLog a k ++ keyLog b k := by
  simp [keyLog]

theorem keyLog_single (e : Exec) (k : Key) :
    keyLog [e] k = if e.cmd.key = k then [e.cmd.id] else [] := by
  by_cases h : e.cmd.key = k <;> simp [keyLog, h]

structure Inv (s : St) : Prop where
  sorted : ∀ k, (seqOf s k).Pairwise (· < ·)
  below : ∀ k, ∀ i ∈ seqOf s k, i < s.nextId
  stable : ∀ p ∈ routes s, ∀ q ∈ routes s, slotOf p.1.key = slotOf q.1.key → p.2 = q.2
  unserved : ∀ r ∈ s.redir, answer slotOf s.sv r.origin r.cmd.key false ≠ .exec
  histOk : ∀ seg ∈ s.hist, ∀ k, (keyLog seg k).Pairwise (· < ·)


theorem stepPut_ok {s s' : St} {bid : Nat} {c : Cmd} {n : Node}
    (h : stepPut slotOf s bid c n = .ok s') :
    s.nextId ≤ c.id ∧ (∀ p ∈ routes s, slotOf p.1.key = slotOf c.key → p.2 = n) ∧
    s' = { s with cur := s.cur ++ [⟨c, bid, n⟩], nextId := c.id + 1 } := by
  unfold stepPut at h
  split at h
  · exact nomatch h
  split at h
  · exact nomatch h
  split at h
  · exact nomatch h
  split at h
  · exact nomatch h
  split at h
  · exact nomatch h
  rename_i h1 h2 h3 h4 h5
  simp only [Decidable.not_not] at h3 h4
  injection h with h
  exact ⟨h3, h4, h.symm⟩

theorem Inv_put {s s' : St} {bid : Nat} {c : Cmd} {n : Node} (hi : Inv slotOf s)
    (h : stepPut slotOf s bid c n = .ok s') : Inv slotOf s' := by
  obtain ⟨hid, hst, rfl⟩ := stepPut_ok slotOf h
  have hr : routes { s with cur := s.cur ++ [⟨c, bid, n⟩], nextId := c.id + 1 } = routes s ++ [(c, n)] := by
    simp [routes]
  have hs : ∀ k, seqOf { s with cur := s.cur ++ [⟨c, bid, n⟩], nextId := c.id + 1 } k
      = seqOf s k ++ (if c.key = k then [c.id] else []) := by
    intro k
    simp only [seqOf, outIds, hr, List.filter_append, List.map_append, List.append_assoc]
    congr 2
    by_cases hk : c.key = k <;> simp [hk]
  refine ⟨?_, ?_, ?_, hi.unserved, hi.histOk⟩
  · intro k
    rw [hs k, List.pairwise_append]
    refine ⟨hi.sorted k, ?_, ?_⟩
    · split <;> simp
    · intro a ha b hb
      have := hi.below k a ha
      split at hb
      · simp at hb; omega
      · simp at hb
  · intro k i hi'
    rw [hs k, List.mem_append] at hi'
    show i < c.id + 1
    cases hi' with
    | inl h1 => have := hi.below k i h1; omega
    | inr h1 =>
      split at h1
      · simp at h1; omega
      · simp at h1
  · intro p hp q hq hpq
    rw [hr, List.mem_append] at hp hq
    cases hp with
    | inl hp =>
      cases hq with
      | inl hq => exact hi.stable p hp q hq hpq
      | inr hq => simp at hq; subst hq; exact hst p hp hpq
    | inr hp =>
      simp at hp; subst hp
      cases hq with
      | inl hq => exact (hst q hq hpq.symm).symm
      | inr hq => simp at hq; subst hq; rfl

theorem stepDispatch_ok {s s' : St} {bid : Nat} (h : stepDispatch s bid = .ok s') :
    bid ∉ s.batches.map (·.1) ∧
    s' = { s with todo := s.todo ++ s.cur, batches := s.batches ++ [(bid, s.cur.map (·.cmd))], cur := [] } := by
  unfold stepDispatch at h
  split at h
  · exact nomatch h
  split at h
  · exact nomatch h
  split at h
  · exact nomatch h
  rename_i h1 h2 h3
  injection h with h
  exact ⟨h3, h.symm⟩

theorem Inv_dispatch {s s' : St} {bid : Nat} (hi : Inv slotOf s)
    (h : stepDispatch s bid = .ok s') : Inv slotOf s' := by
  obtain ⟨_, rfl⟩ := stepDispatch_ok h
  have hr : routes { s with todo := s.todo ++ s.cur, batches := s.batches ++ [(bid, s.cur.map (·.cmd))], cur := [] } = routes s := by
    simp [routes]
  have hs : ∀ k, seqOf { s with todo := s.todo ++ s.cur, batches := s.batches ++ [(bid, s.cur.map (·.cmd))], cur := [] } k = seqOf s k := by
    intro k; simp only [seqOf, outIds, hr]
  refine ⟨?_, ?_, ?_, hi.unserved, hi.histOk⟩
  · intro k; rw [hs k]; exact hi.sorted k
  · intro k i h1; rw [hs k] at h1; exact hi.below k i h1
  · intro p hp q hq; rw [hr] at hp hq; exact hi.stable p hp q hq

theorem Inv_of_sublist {s s' : St} (hi : Inv slotOf s)
    (hseq : ∀ k, (seqOf s' k).Sublist (seqOf s k))
    (hn : s'.nextId = s.nextId)
    (hr : ∀ p ∈ routes s', p ∈ routes s)
    (hu : ∀ r ∈ s'.redir, answer slotOf s'.sv r.origin r.cmd.key false ≠ .exec)
    (hh : s'.hist = s.hist) : Inv slotOf s' := by
  refine ⟨?_, ?_, ?_, hu, ?_⟩
  · intro k; exact (hi.sorted k).sublist (hseq k)
  · intro k i h1; rw [hn]; exact hi.below k i ((hseq k).subset h1)
  · intro p hp q hq; exact hi.stable p (hr p hp) q (hr q hq)
  · rw [hh]; exact hi.histOk

theorem answer_of_out {sv : Srv} {n : Node} {k : Key} {a : Bool} {o : Out}
    (h : o = .err ∨ o = answer slotOf sv n k a) (hne : o ≠ .err) : answer slotOf sv n k a = o := by
  cases h with
  | inl h => exact absurd h hne
  | inr h => exact h.symm

/-- the commands queued before the head of node `n`'s FIFO are not of the head's key -/
theorem before_free {s : St} (hi : Inv slotOf s) {n : Node} {b a : List Sent} {x : Sent}
    (ht : s.todo = b ++ x :: a) (hx : (x.node == n) = true)
    (hb : ∀ z ∈ b, (z.node == n) = false) : ∀ z ∈ b, z.cmd.key ≠ x.cmd.key := by
  intro z hz hk
  have hzr : (z.cmd, z.node) ∈ routes s := by
    simp only [routes, ht, List.mem_append, List.mem_map]
    exact Or.inl (Or.inr ⟨z, by simp [hz], rfl⟩)
  have hxr : (x.cmd, x.node) ∈ routes s := by
    simp only [routes, ht, List.mem_append, List.mem_map]
    exact Or.inl (Or.inr ⟨x, by simp, rfl⟩)
  have := hi.stable _ hzr _ hxr (by simp [hk])
  have h2 := hb z hz
  simp at this hx h2
  exact h2 (this.trans hx)

/-- if node `n` serves the head's key, no redirected command of that key is waiting -/
theorem redir_free {s : St} (hi : Inv slotOf s) {n : Node} {b a : List Sent} {x : Sent}
    (ht : s.todo = b ++ x :: a) (hx : (x.node == n) = true)
    (hex : answer slotOf s.sv n x.cmd.key false = .exec) : ∀ r ∈ s.redir, r.cmd.key ≠ x.cmd.key := by
  intro r hr hk
  have hrr : (r.cmd, r.origin) ∈ routes s := by
    simp only [routes, List.mem_append, List.mem_map]
    exact Or.inl (Or.inl ⟨r, hr, rfl⟩)
  have hxr : (x.cmd, x.node) ∈ routes s := by
    simp only [routes, ht, List.mem_append, List.mem_map]
    exact Or.inl (Or.inr ⟨x, by simp, rfl⟩)
  have h1 := hi.stable _ hrr _ hxr (by simp [hk])
  have h2 := hi.unserved r hr
  simp at h1 hx
  rw [h1, hx, hk] at h2
  exact h2 hex

theorem seqOf_todo_split (s : St) (k : Key) {b a : List Sent} {x : Sent} (ht : s.todo = b ++ x :: a) :
    seqOf s k = keyLog s.log k ++ (idsR s.redir k ++ (idsS b k ++
      ((if x.cmd.key = k then [x.cmd.id] else []) ++ idsS a k)) ++ idsS s.cur k) := by
  simp only [seqOf, outIds_eq, ht, idsS_append, idsS_cons]

theorem Inv_first {s s' : St} {n : Node} {c : Cmd} {o : Out} {b a : List Sent} {x : Sent}
    (hi : Inv slotOf s) (ht : s.todo = b ++ x :: a) (hx : (x.node == n) = true)
    (hb : ∀ z ∈ b, (z.node == n) = false) (hxc : x.cmd = c)
    (h : stepFirst slotOf s n c o b x a = .ok s') : Inv slotOf s' := by
  unfold stepFirst at h
  split at h
  · exact nomatch h
  rename_i hans
  simp only [Decidable.not_not] at hans
  have hbf := before_free slotOf hi ht hx hb
  have hxn : x.node = n := by simpa using hx
  have hxr : (x.cmd, x.node) ∈ routes s := by
    simp only [routes, ht, List.mem_append, List.mem_map]
    exact Or.inl (Or.inr ⟨x, by simp, rfl⟩)
  have hsub : ∀ z, z ∈ b ∨ z ∈ a → z ∈ s.todo := by
    intro z hz; rw [ht]; simp only [List.mem_append, List.mem_cons]
    cases hz with
    | inl h => exact Or.inl h
    | inr h => exact Or.inr (Or.inr h)
  subst hxc
  cases o with
  | exec =>
    simp only at h
    injection h with h; subst h
    have hex := answer_of_out slotOf hans (by simp)
    have hrf := redir_free slotOf hi ht hx hex
    apply Inv_of_sublist slotOf hi
    · intro k
      rw [seqOf_todo_split s k ht]
      simp only [seqOf, outIds_eq, idsS_append, keyLog_append, keyLog_single, mkExec]
      by_cases hk : x.cmd.key = k
      · subst hk
        rw [idsR_nil_of _ _ hrf, idsS_nil_of _ _ hbf]
        simp
      · simp [hk]
    · rfl
    · intro p hp
      simp only [routes, List.mem_append, List.mem_map] at hp ⊢
      rcases hp with (hp | ⟨z, hz, rfl⟩) | hp
      · exact Or.inl (Or.inl hp)
      · exact Or.inl (Or.inr ⟨z, hsub z hz, rfl⟩)
      · exact Or.inr hp
    · exact hi.unserved
    · rfl
  | moved d =>
    simp only at h
    injection h with h; subst h
    have hex := answer_of_out slotOf hans (by simp)
    apply Inv_of_sublist slotOf hi
    · intro k
      rw [seqOf_todo_split s k ht]
      simp only [seqOf, outIds_eq, idsS_append, idsR_append, idsR_cons]
      by_cases hk : x.cmd.key = k
      · subst hk
        rw [idsS_nil_of _ _ hbf]
        simp [idsR]
      · simp [hk, idsR]
    · rfl
    · intro p hp
      simp only [routes, List.mem_append, List.mem_map, List.mem_singleton] at hp ⊢
      rcases hp with ((⟨r, hr | hr, rfl⟩) | ⟨z, hz, rfl⟩) | hp
      · exact Or.inl (Or.inl ⟨r, hr, rfl⟩)
      · subst hr; simp only; rw [← hxn]
        exact Or.inl (Or.inr ⟨x, by rw [ht]; simp, rfl⟩)
      · exact Or.inl (Or.inr ⟨z, hsub z hz, rfl⟩)
      · exact Or.inr hp
    · intro r hr
      simp only [List.mem_append, List.mem_singleton] at hr
      cases hr with
      | inl hr => exact hi.unserved r hr
      | inr hr => subst hr; simp only; rw [hex]; simp
    · rfl
  | ask d =>
    simp only at h
    injection h with h; subst h
    have hex := answer_of_out slotOf hans (by simp)
    apply Inv_of_sublist slotOf hi
    · intro k
      rw [seqOf_todo_split s k ht]
      simp only [seqOf, outIds_eq, idsS_append, idsR_append, idsR_cons]
      by_cases hk : x.cmd.key = k
      · subst hk
        rw [idsS_nil_of _ _ hbf]
        simp [idsR]
      · simp [hk, idsR]
    · rfl
    · intro p hp
      simp only [routes, List.mem_append, List.mem_map, List.mem_singleton] at hp ⊢
      rcases hp with ((⟨r, hr | hr, rfl⟩) | ⟨z, hz, rfl⟩) | hp
      · exact Or.inl (Or.inl ⟨r, hr, rfl⟩)
      · subst hr; simp only; rw [← hxn]
        exact Or.inl (Or.inr ⟨x, by rw [ht]; simp, rfl⟩)
      · exact Or.inl (Or.inr ⟨z, hsub z hz, rfl⟩)
      · exact Or.inr hp
    · intro r hr
      simp only [List.mem_append, List.mem_singleton] at hr
      cases hr with
      | inl hr => exact hi.unserved r hr
      | inr hr => subst hr; simp only; rw [hex]; simp
    · rfl
  | err =>
    simp only at h
    injection h with h; subst h
    apply Inv_of_sublist slotOf hi
    · intro k
      rw [seqOf_todo_split s k ht]
      simp only [seqOf, outIds_eq, idsS_append]
      refine List.Sublist.append (List.Sublist.refl _) ?_
      refine List.Sublist.append ?_ (List.Sublist.refl _)
      refine List.Sublist.append (List.Sublist.refl _) ?_
      refine List.Sublist.append (List.Sublist.refl _) ?_
      exact List.sublist_append_right _ _
    · rfl
    · intro p hp
      simp only [routes, List.mem_append, List.mem_map] at hp ⊢
      rcases hp with (hp | ⟨z, hz, rfl⟩) | hp
      · exact Or.inl (Or.inl hp)
      · exact Or.inl (Or.inr ⟨z, hsub z hz, rfl⟩)
      · exact Or.inr hp
    · exact hi.unserved
    · rfl

theorem seqOf_redir_split (s : St) (k : Key) {b a : List Redir} {r : Redir} (ht : s.redir = b ++ r :: a) :
    seqOf s k = keyLog s.log k ++ ((idsR b k ++ ((if r.cmd.key = k then [r.cmd.id] else []) ++ idsR a k))
      ++ idsS s.todo k ++ idsS s.cur k) := by
  simp only [seqOf, outIds_eq, ht, idsR_append, idsR_cons]

theorem Inv_chase {s s' : St} {n : Node} {c : Cmd} {asking : Bool} {o : Out}
    (hi : Inv slotOf s) (h : stepChase slotOf s n c asking o = .ok s') : Inv slotOf s' := by
  unfold stepChase at h
  split at h
  · exact nomatch h
  rename_i b r a hsp
  obtain ⟨ht, hrc, _⟩ := splitFirst_spec _ _ _ _ _ hsp
  split at h
  · exact nomatch h
  split at h
  · exact nomatch h
  split at h
  · exact nomatch h
  rename_i hord htgt hans
  simp only [Decidable.not_not] at hord htgt hans
  have hrc' : r.cmd = c := by simpa using hrc
  subst hrc'
  have hrr : (r.cmd, r.origin) ∈ routes s := by
    simp only [routes, ht, List.mem_append, List.mem_map]
    exact Or.inl (Or.inl ⟨r, by simp, rfl⟩)
  have hbf : ∀ y ∈ b, y.cmd.key ≠ r.cmd.key := by
    intro y hy hk
    have hyr : (y.cmd, y.origin) ∈ routes s := by
      simp only [routes, ht, List.mem_append, List.mem_map]
      exact Or.inl (Or.inl ⟨y, by simp [hy], rfl⟩)
    exact hord y hy (hi.stable _ hyr _ hrr (by simp [hk]))
  have hsub : ∀ z, z ∈ b ∨ z ∈ a → z ∈ s.redir := by
    intro z hz; rw [ht]; simp only [List.mem_append, List.mem_cons]
    cases hz with
    | inl h => exact Or.inl h
    | inr h => exact Or.inr (Or.inr h)
  have hrm : r ∈ s.redir := by rw [ht]; simp
  cases o with
  | exec =>
    simp only at h
    injection h with h; subst h
    apply Inv_of_sublist slotOf hi
    · intro k
      rw [seqOf_redir_split s k ht]
      simp only [seqOf, outIds_eq, idsR_append, keyLog_append, keyLog_single, mkExec]
      by_cases hk : r.cmd.key = k
      · subst hk
        rw [idsR_nil_of _ _ hbf]
        simp
      · simp [hk]
    · rfl
    · intro p hp
      simp only [routes, List.mem_append, List.mem_map] at hp ⊢
      rcases hp with (⟨z, hz, rfl⟩ | hp) | hp
      · exact Or.inl (Or.inl ⟨z, hsub z hz, rfl⟩)
      · exact Or.inl (Or.inr hp)
      · exact Or.inr hp
    · intro z hz
      simp only [List.mem_append] at hz
      exact hi.unserved z (hsub z hz)
    · rfl
  | moved d =>
    simp only at h
    injection h with h; subst h
    apply Inv_of_sublist slotOf hi
    · intro k
      rw [seqOf_redir_split s k ht]
      simp only [seqOf, outIds_eq, idsR_append, idsR_cons]
      exact List.Sublist.refl _
    · rfl
    · intro p hp
      simp only [routes, List.mem_append, List.mem_map, List.mem_cons] at hp ⊢
      rcases hp with (⟨z, hz | hz | hz, rfl⟩ | hp) | hp
      · exact Or.inl (Or.inl ⟨z, hsub z (Or.inl hz), rfl⟩)
      · subst hz; exact Or.inl (Or.inl ⟨r, hrm, rfl⟩)
      · exact Or.inl (Or.inl ⟨z, hsub z (Or.inr hz), rfl⟩)
      · exact Or.inl (Or.inr hp)
      · exact Or.inr hp
    · intro z hz
      simp only [List.mem_append, List.mem_cons] at hz
      rcases hz with hz | hz | hz
      · exact hi.unserved z (hsub z (Or.inl hz))
      · subst hz; exact hi.unserved r hrm
      · exact hi.unserved z (hsub z (Or.inr hz))
    · rfl
  | ask d =>
    simp only at h
    injection h with h; subst h
    apply Inv_of_sublist slotOf hi
    · intro k
      rw [seqOf_redir_split s k ht]
      simp only [seqOf, outIds_eq, idsR_append, idsR_cons]
      exact List.Sublist.refl _
    · rfl
    · intro p hp
      simp only [routes, List.mem_append, List.mem_map, List.mem_cons] at hp ⊢
      rcases hp with (⟨z, hz | hz | hz, rfl⟩ | hp) | hp
      · exact Or.inl (Or.inl ⟨z, hsub z (Or.inl hz), rfl⟩)
      · subst hz; exact Or.inl (Or.inl ⟨r, hrm, rfl⟩)
      · exact Or.inl (Or.inl ⟨z, hsub z (Or.inr hz), rfl⟩)
      · exact Or.inl (Or.inr hp)
      · exact Or.inr hp
    · intro z hz
      simp only [List.mem_append, List.mem_cons] at hz
      rcases hz with hz | hz | hz
      · exact hi.unserved z (hsub z (Or.inl hz))
      · subst hz; exact hi.unserved r hrm
      · exact hi.unserved z (hsub z (Or.inr hz))
    · rfl
  | err =>
    simp only at h
    injection h with h; subst h
    apply Inv_of_sublist slotOf hi
    · intro k
      rw [seqOf_redir_split s k ht]
      simp only [seqOf, outIds_eq, idsR_append]
      refine List.Sublist.append (List.Sublist.refl _) ?_
      refine List.Sublist.append ?_ (List.Sublist.refl _)
      refine List.Sublist.append ?_ (List.Sublist.refl _)
      refine List.Sublist.append (List.Sublist.refl _) ?_
      exact List.sublist_append_right _ _
    · rfl
    · intro p hp
      simp only [routes, List.mem_append, List.mem_map] at hp ⊢
      rcases hp with (⟨z, hz, rfl⟩ | hp) | hp
      · exact Or.inl (Or.inl ⟨z, hsub z hz, rfl⟩)
      · exact Or.inl (Or.inr hp)
      · exact Or.inr hp
    · intro z hz
      simp only [List.mem_append] at hz
      exact hi.unserved z (hsub z hz)
    · rfl

theorem Inv_srv {s s' : St} {n : Node} {c : Cmd} {asking : Bool} {o : Out}
    (hi : Inv slotOf s) (h : stepSrv slotOf s n c asking o = .ok s') : Inv slotOf s' := by
  unfold stepSrv at h
  split at h
  · rename_i b x a hsp
    obtain ⟨ht, hx, hb⟩ := splitFirst_spec _ _ _ _ _ hsp
    split at h
    · rename_i hc
      exact Inv_first slotOf hi ht hx hb hc.1 h
    · exact Inv_chase slotOf hi h
  · exact Inv_chase slotOf hi h

theorem Inv_same {s s' : St} (hi : Inv slotOf s)
    (h1 : s'.log = s.log) (h2 : routes s' = routes s) (h3 : s'.nextId = s.nextId)
    (h4 : s'.redir = s.redir) (h5 : s'.sv = s.sv) (h6 : s'.hist = s.hist) : Inv slotOf s' := by
  have hs : ∀ k, seqOf s' k = seqOf s k := by intro k; simp only [seqOf, outIds, h1, h2]
  refine ⟨?_, ?_, ?_, ?_, ?_⟩
  · intro k; rw [hs]; exact hi.sorted k
  · intro k i hm; rw [hs] at hm; rw [h3]; exact hi.below k i hm
  · rw [h2]; exact hi.stable
  · rw [h4, h5]; exact hi.unserved
  · rw [h6]; exact hi.histOk

theorem Inv_recv {s s' : St} {bid : Nat} {ok : Bool}
    (hi : Inv slotOf s) (h : stepRecv s bid ok = .ok s') : Inv slotOf s' := by
  unfold stepRecv at h
  split at h
  · split at h
    · exact nomatch h
    split at h
    · exact nomatch h
    split at h
    · exact nomatch h
    split at h
    · exact nomatch h
    injection h with h; subst h
    exact Inv_same slotOf hi rfl rfl rfl rfl rfl rfl
  · injection h with h; subst h
    exact Inv_same slotOf hi rfl rfl rfl rfl rfl rfl

theorem keyLog_sorted_of_seq {s : St} (hi : Inv slotOf s) (k : Key) :
    (keyLog s.log k).Pairwise (· < ·) := by
  have := hi.sorted k
  rw [seqOf, List.pairwise_append] at this
  exact this.1

theorem Inv_restart {s s' : St} (hi : Inv slotOf s) (h : stepRestart s = .ok s') : Inv slotOf s' := by
  unfold stepRestart at h
  split at h
  · exact nomatch h
  split at h
  · exact nomatch h
  injection h with h; subst h
  refine ⟨?_, ?_, ?_, ?_, ?_⟩
  · intro k; simp [seqOf, outIds, routes, keyLog]
  · intro k i hm; simp [seqOf, outIds, routes, keyLog] at hm
  · intro p hp; simp [routes] at hp
  · intro r hr; simp at hr
  · intro seg hseg k
    simp only [List.mem_append, List.mem_singleton] at hseg
    cases hseg with
    | inl h => exact hi.histOk seg h k
    | inr h => subst h; exact keyLog_sorted_of_seq slotOf hi k

theorem Inv_unsent {s s' : St} {c : Cmd} (hi : Inv slotOf s) (h : stepUnsent s c = .ok s') :
    Inv slotOf s' := by
  unfold stepUnsent at h
  split at h
  · exact nomatch h
  split at h
  · exact nomatch h
  rename_i b x a hsp
  obtain ⟨ht, _, _⟩ := splitFirst_spec _ _ _ _ _ hsp
  injection h with h; subst h
  have hsub : ∀ z, z ∈ b ∨ z ∈ a → z ∈ s.todo := by
    intro z hz; rw [ht]; simp only [List.mem_append, List.mem_cons]
    cases hz with
    | inl h => exact Or.inl h
    | inr h => exact Or.inr (Or.inr h)
  apply Inv_of_sublist slotOf hi
  · intro k
    rw [seqOf_todo_split s k ht]
    simp only [seqOf, outIds_eq, idsS_append]
    refine List.Sublist.append (List.Sublist.refl _) ?_
    refine List.Sublist.append ?_ (List.Sublist.refl _)
    refine List.Sublist.append (List.Sublist.refl _) ?_
    refine List.Sublist.append (List.Sublist.refl _) ?_
    exact List.sublist_append_right _ _
  · rfl
  · intro p hp
    simp only [routes, List.mem_append, List.mem_map] at hp ⊢
    rcases hp with (hp | ⟨z, hz, rfl⟩) | hp
    · exact Or.inl (Or.inl hp)
    · exact Or.inl (Or.inr ⟨z, hsub z hz, rfl⟩)
    · exact Or.inr hp
  · exact hi.unserved
  · rfl

theorem Inv_step {s s' : St} {e : Ev} (hi : Inv slotOf s)
    (hq : match e with | .mig m => QuietStep slotOf s m | _ => True)
    (h : step slotOf s e = .ok s') : Inv slotOf s' := by
  cases e with
  | put bid c n => exact Inv_put slotOf hi h
  | dispatch bid => exact Inv_dispatch slotOf hi h
  | srv n c asking o => exact Inv_srv slotOf hi h
  | recv bid ok => exact Inv_recv slotOf hi h
  | unsent c => exact Inv_unsent slotOf hi h
  | nodeDown n =>
    simp only [step] at h
    injection h with h; subst h
    exact Inv_same slotOf hi rfl rfl rfl rfl rfl rfl
  | mig m =>
    simp only [step] at h
    split at h
    · rename_i sv' hsv
      injection h with h; subst h
      have hs : ∀ k, seqOf { s with sv := sv' } k = seqOf s k := by intro k; rfl
      refine ⟨hi.sorted, hi.below, hi.stable, ?_, hi.histOk⟩
      intro r hr
      exact hq sv' hsv r hr
    · exact nomatch h
  | snapshot =>
    simp only [step] at h
    injection h with h; subst h
    exact Inv_same slotOf hi rfl rfl rfl rfl rfl rfl
  | install =>
    simp only [step] at h
    split at h
    · injection h with h; subst h
      exact Inv_same slotOf hi rfl rfl rfl rfl rfl rfl
    · exact nomatch h
  | refreshNow =>
    simp only [step] at h
    injection h with h; subst h
    exact Inv_same slotOf hi rfl rfl rfl rfl rfl rfl
  | restart => exact Inv_restart slotOf hi h

theorem Inv_init (sv : Srv) (slots : Slot → Node) : Inv slotOf (init sv slots) := by
  refine ⟨?_, ?_, ?_, ?_, ?_⟩
  · intro k; simp [seqOf, outIds, routes, keyLog, init]
  · intro k i hm; simp [seqOf, outIds, routes, keyLog, init] at hm
  · intro p hp; simp [routes, init] at hp
  · intro r hr; simp [init] at hr
  · intro seg hseg; simp [init] at hseg

theorem Inv_run : ∀ (evs : List Ev) (s s' : St), Inv slotOf s → QuietRun slotOf s evs →
    run slotOf s evs = .ok s' → Inv slotOf s' := by
  intro evs
  induction evs with
  | nil => intro s s' hi _ h; simp only [run] at h; injection h with h; subst h; exact hi
  | cons e es ih =>
    intro s s' hi hq h
    simp only [run] at h
    split at h
    · rename_i s1 hs1
      obtain ⟨hq1, hq2⟩ := hq
      exact ih s1 s' (Inv_step slotOf hi hq1 hs1) (hq2 s1 hs1) h
    · exact nomatch h


theorem answer_exec {sv : Srv} {n : Node} {k : Key} {a : Bool}
    (h : answer slotOf sv n k a = .exec) :
    n = sv.owner (slotOf k) ∨ (sv.mig (slotOf k) = some n ∧ a = true) := by
  unfold answer at h
  split at h
  · rename_i ho; exact Or.inl ho.symm
  · split at h
    · rename_i hm; exact Or.inr hm
    · exact nomatch h

def OwnedExec (e : Exec) : Prop :=
  e.node = e.ownerThen ∨ (e.importThen = some e.node ∧ e.asking = true)

theorem mkExec_owned {sv : Srv} {c : Cmd} {n : Node} {a : Bool}
    (h : answer slotOf sv n c.key a = .exec) : OwnedExec (mkExec slotOf sv c n a) :=
  answer_exec slotOf h

/-- bookkeeping invariant: nothing dispatched disappears silently -/
structure Inv2 (s : St) : Prop where
  comp : ∀ b cs, (b, cs) ∈ s.batches → ∀ c ∈ cs,
    (∃ e ∈ s.log, e.cmd = c) ∨ (∃ x ∈ s.todo, x.cmd = c ∧ x.bid = b) ∨
    (∃ r ∈ s.redir, r.cmd = c ∧ r.bid = b) ∨ b ∈ s.bad
  acked : ∀ b ∈ s.acked, ∀ cs, (b, cs) ∈ s.batches → ∀ c ∈ cs, ∃ e ∈ s.log, e.cmd = c
  ackedKnown : ∀ b ∈ s.acked, b ∈ s.batches.map (·.1)
  owned : ∀ e ∈ s.log, OwnedExec e
  ownedH : ∀ seg ∈ s.hist, ∀ e ∈ seg, OwnedExec e

theorem Inv2_init (sv : Srv) (slots : Slot → Node) : Inv2 (init sv slots) := by
  refine ⟨?_, ?_, ?_, ?_, ?_⟩ <;> simp [init]

theorem Inv2_put {s s' : St} {bid : Nat} {c : Cmd} {n : Node} (hi : Inv2 s)
    (h : stepPut slotOf s bid c n = .ok s') : Inv2 s' := by
  obtain ⟨_, _, rfl⟩ := stepPut_ok slotOf h
  exact ⟨hi.comp, hi.acked, hi.ackedKnown, hi.owned, hi.ownedH⟩

theorem stepDispatch_bid {s s' : St} {bid : Nat} (h : stepDispatch s bid = .ok s') :
    ∀ x ∈ s.cur, x.bid = bid := by
  unfold stepDispatch at h
  split at h
  · exact nomatch h
  split at h
  · exact nomatch h
  rename_i h1 h2
  simpa using h2

theorem Inv2_dispatch {s s' : St} {bid : Nat} (hi : Inv2 s)
    (h : stepDispatch s bid = .ok s') : Inv2 s' := by
  have hb := stepDispatch_bid h
  obtain ⟨hfresh, rfl⟩ := stepDispatch_ok h
  refine ⟨?_, ?_, ?_, hi.owned, hi.ownedH⟩
  · intro b cs hm c hc
    simp only [List.mem_append, List.mem_singleton, Prod.mk.injEq] at hm
    cases hm with
    | inl hm =>
      rcases hi.comp b cs hm c hc with h1 | ⟨x, hx, h2⟩ | h3 | h4
      · exact Or.inl h1
      · exact Or.inr (Or.inl ⟨x, by simp [hx], h2⟩)
      · exact Or.inr (Or.inr (Or.inl h3))
      · exact Or.inr (Or.inr (Or.inr h4))
    | inr hm =>
      obtain ⟨rfl, rfl⟩ := hm
      simp only [List.mem_map] at hc
      obtain ⟨x, hx, rfl⟩ := hc
      exact Or.inr (Or.inl ⟨x, by simp [hx], rfl, hb x hx⟩)
  · intro b hbm cs hm c hc
    simp only [List.mem_append, List.mem_singleton, Prod.mk.injEq] at hm
    cases hm with
    | inl hm => exact hi.acked b hbm cs hm c hc
    | inr hm =>
      obtain ⟨rfl, _⟩ := hm
      exact absurd (hi.ackedKnown b hbm) hfresh
  · intro b hbm
    have := hi.ackedKnown b hbm
    simp only [List.map_append, List.mem_append]
    exact Or.inl this

/-- generic preservation: every obligation of the old state is still met -/
theorem Inv2_of {s s' : St} (hi : Inv2 s) (hb : s'.batches = s.batches) (ha : s'.acked = s.acked)
    (hh : s'.hist = s.hist)
    (hlog : ∀ e ∈ s.log, e ∈ s'.log)
    (hown : ∀ e ∈ s'.log, OwnedExec e)
    (hcomp : ∀ b c, ((∃ e ∈ s.log, e.cmd = c) ∨ (∃ x ∈ s.todo, x.cmd = c ∧ x.bid = b) ∨
        (∃ r ∈ s.redir, r.cmd = c ∧ r.bid = b) ∨ b ∈ s.bad) →
      ((∃ e ∈ s'.log, e.cmd = c) ∨ (∃ x ∈ s'.todo, x.cmd = c ∧ x.bid = b) ∨
        (∃ r ∈ s'.redir, r.cmd = c ∧ r.bid = b) ∨ b ∈ s'.bad)) : Inv2 s' := by
  refine ⟨?_, ?_, ?_, hown, ?_⟩
  · intro b cs hm c hc; rw [hb] at hm; exact hcomp b c (hi.comp b cs hm c hc)
  · intro b hbm cs hm c hc
    rw [ha] at hbm; rw [hb] at hm
    obtain ⟨e, he, hec⟩ := hi.acked b hbm cs hm c hc
    exact ⟨e, hlog e he, hec⟩
  · intro b hbm; rw [ha] at hbm; rw [hb]; exact hi.ackedKnown b hbm
  · rw [hh]; exact hi.ownedH

theorem Inv2_first {s s' : St} {n : Node} {c : Cmd} {o : Out} {b a : List Sent} {x : Sent}
    (hi : Inv2 s) (ht : s.todo = b ++ x :: a) (hxc : x.cmd = c)
    (h : stepFirst slotOf s n c o b x a = .ok s') : Inv2 s' := by
  unfold stepFirst at h
  split at h
  · exact nomatch h
  rename_i hans
  simp only [Decidable.not_not] at hans
  subst hxc
  have hcase : ∀ z ∈ s.todo, z = x ∨ z ∈ b ++ a := by
    intro z hz; rw [ht] at hz
    simp only [List.mem_append, List.mem_cons] at hz ⊢
    rcases hz with h | h | h
    · exact Or.inr (Or.inl h)
    · exact Or.inl h
    · exact Or.inr (Or.inr h)
  cases o with
  | exec =>
    simp only at h
    injection h with h; subst h
    have hex := answer_of_out slotOf hans (by simp)
    apply Inv2_of hi
    · rfl
    · rfl
    · rfl
    · intro e he; simp [he]
    · intro e he
      simp only [List.mem_append, List.mem_singleton] at he
      cases he with
      | inl he => exact hi.owned e he
      | inr he => subst he; exact mkExec_owned slotOf hex
    · intro b0 c0 hc
      rcases hc with ⟨e, he, h1⟩ | ⟨z, hz, h1, h2⟩ | h3 | h4
      · exact Or.inl ⟨e, by simp [he], h1⟩
      · cases hcase z hz with
        | inl hzx => subst hzx; exact Or.inl ⟨mkExec slotOf s.sv z.cmd n false, by simp, h1⟩
        | inr hzx => exact Or.inr (Or.inl ⟨z, hzx, h1, h2⟩)
      · exact Or.inr (Or.inr (Or.inl h3))
      · exact Or.inr (Or.inr (Or.inr h4))
  | moved d =>
    simp only at h
    injection h with h; subst h
    apply Inv2_of hi
    · rfl
    · rfl
    · rfl
    · intro e he; exact he
    · exact hi.owned
    · intro b0 c0 hc
      rcases hc with h0 | ⟨z, hz, h1, h2⟩ | ⟨r, hr, h3⟩ | h4
      · exact Or.inl h0
      · cases hcase z hz with
        | inl hzx => subst hzx; exact Or.inr (Or.inr (Or.inl ⟨⟨z.cmd, z.bid, n, d, false⟩, by simp, h1, h2⟩))
        | inr hzx => exact Or.inr (Or.inl ⟨z, hzx, h1, h2⟩)
      · exact Or.inr (Or.inr (Or.inl ⟨r, by simp [hr], h3⟩))
      · exact Or.inr (Or.inr (Or.inr h4))
  | ask d =>
    simp only at h
    injection h with h; subst h
    apply Inv2_of hi
    · rfl
    · rfl
    · rfl
    · intro e he; exact he
    · exact hi.owned
    · intro b0 c0 hc
      rcases hc with h0 | ⟨z, hz, h1, h2⟩ | ⟨r, hr, h3⟩ | h4
      · exact Or.inl h0
      · cases hcase z hz with
        | inl hzx => subst hzx; exact Or.inr (Or.inr (Or.inl ⟨⟨z.cmd, z.bid, n, d, true⟩, by simp, h1, h2⟩))
        | inr hzx => exact Or.inr (Or.inl ⟨z, hzx, h1, h2⟩)
      · exact Or.inr (Or.inr (Or.inl ⟨r, by simp [hr], h3⟩))
      · exact Or.inr (Or.inr (Or.inr h4))
  | err =>
    simp only at h
    injection h with h; subst h
    apply Inv2_of hi
    · rfl
    · rfl
    · rfl
    · intro e he; exact he
    · exact hi.owned
    · intro b0 c0 hc
      rcases hc with h0 | ⟨z, hz, h1, h2⟩ | h3 | h4
      · exact Or.inl h0
      · cases hcase z hz with
        | inl hzx => subst hzx; exact Or.inr (Or.inr (Or.inr (by simp [h2])))
        | inr hzx => exact Or.inr (Or.inl ⟨z, hzx, h1, h2⟩)
      · exact Or.inr (Or.inr (Or.inl h3))
      · exact Or.inr (Or.inr (Or.inr (by simp [h4])))

theorem Inv2_chase {s s' : St} {n : Node} {c : Cmd} {asking : Bool} {o : Out}
    (hi : Inv2 s) (h : stepChase slotOf s n c asking o = .ok s') : Inv2 s' := by
  unfold stepChase at h
  split at h
  · exact nomatch h
  rename_i b r a hsp
  obtain ⟨ht, hrc, _⟩ := splitFirst_spec _ _ _ _ _ hsp
  split at h
  · exact nomatch h
  split at h
  · exact nomatch h
  split at h
  · exact nomatch h
  rename_i hord htgt hans
  simp only [Decidable.not_not] at hans
  have hrc' : r.cmd = c := by simpa using hrc
  subst hrc'
  have hcase : ∀ z ∈ s.redir, z = r ∨ z ∈ b ++ a := by
    intro z hz; rw [ht] at hz
    simp only [List.mem_append, List.mem_cons] at hz ⊢
    rcases hz with h | h | h
    · exact Or.inr (Or.inl h)
    · exact Or.inl h
    · exact Or.inr (Or.inr h)
  cases o with
  | exec =>
    simp only at h
    injection h with h; subst h
    have hex := answer_of_out slotOf hans (by simp)
    apply Inv2_of hi
    · rfl
    · rfl
    · rfl
    · intro e he; simp [he]
    · intro e he
      simp only [List.mem_append, List.mem_singleton] at he
      cases he with
      | inl he => exact hi.owned e he
      | inr he => subst he; exact mkExec_owned slotOf hex
    · intro b0 c0 hc
      rcases hc with ⟨e, he, h1⟩ | h2 | ⟨z, hz, h1, h2⟩ | h4
      · exact Or.inl ⟨e, by simp [he], h1⟩
      · exact Or.inr (Or.inl h2)
      · cases hcase z hz with
        | inl hzx => subst hzx; exact Or.inl ⟨mkExec slotOf s.sv z.cmd n asking, by simp, h1⟩
        | inr hzx => exact Or.inr (Or.inr (Or.inl ⟨z, hzx, h1, h2⟩))
      · exact Or.inr (Or.inr (Or.inr h4))
  | moved d =>
    simp only at h
    injection h with h; subst h
    apply Inv2_of hi
    · rfl
    · rfl
    · rfl
    · intro e he; exact he
    · exact hi.owned
    · intro b0 c0 hc
      rcases hc with h0 | h2 | ⟨z, hz, h1, h2⟩ | h4
      · exact Or.inl h0
      · exact Or.inr (Or.inl h2)
      · cases hcase z hz with
        | inl hzx =>
          subst hzx
          exact Or.inr (Or.inr (Or.inl ⟨{ z with target := d, asking := false }, by simp, h1, h2⟩))
        | inr hzx =>
          refine Or.inr (Or.inr (Or.inl ⟨z, ?_, h1, h2⟩))
          simp only [List.mem_append, List.mem_cons] at hzx ⊢
          rcases hzx with h | h
          · exact Or.inl h
          · exact Or.inr (Or.inr h)
      · exact Or.inr (Or.inr (Or.inr h4))
  | ask d =>
    simp only at h
    injection h with h; subst h
    apply Inv2_of hi
    · rfl
    · rfl
    · rfl
    · intro e he; exact he
    · exact hi.owned
    · intro b0 c0 hc
      rcases hc with h0 | h2 | ⟨z, hz, h1, h2⟩ | h4
      · exact Or.inl h0
      · exact Or.inr (Or.inl h2)
      · cases hcase z hz with
        | inl hzx =>
          subst hzx
          exact Or.inr (Or.inr (Or.inl ⟨{ z with target := d, asking := true }, by simp, h1, h2⟩))
        | inr hzx =>
          refine Or.inr (Or.inr (Or.inl ⟨z, ?_, h1, h2⟩))
          simp only [List.mem_append, List.mem_cons] at hzx ⊢
          rcases hzx with h | h
          · exact Or.inl h
          · exact Or.inr (Or.inr h)
      · exact Or.inr (Or.inr (Or.inr h4))
  | err =>
    simp only at h
    injection h with h; subst h
    apply Inv2_of hi
    · rfl
    · rfl
    · rfl
    · intro e he; exact he
    · exact hi.owned
    · intro b0 c0 hc
      rcases hc with h0 | h2 | ⟨z, hz, h1, h2⟩ | h4
      · exact Or.inl h0
      · exact Or.inr (Or.inl h2)
      · cases hcase z hz with
        | inl hzx => subst hzx; exact Or.inr (Or.inr (Or.inr (by simp [h2])))
        | inr hzx => exact Or.inr (Or.inr (Or.inl ⟨z, hzx, h1, h2⟩))
      · exact Or.inr (Or.inr (Or.inr (by simp [h4])))

theorem Inv2_srv {s s' : St} {n : Node} {c : Cmd} {asking : Bool} {o : Out}
    (hi : Inv2 s) (h : stepSrv slotOf s n c asking o = .ok s') : Inv2 s' := by
  unfold stepSrv at h
  split at h
  · rename_i b x a hsp
    obtain ⟨ht, _, _⟩ := splitFirst_spec _ _ _ _ _ hsp
    split at h
    · rename_i hc
      exact Inv2_first slotOf hi ht hc.1 h
    · exact Inv2_chase slotOf hi h
  · exact Inv2_chase slotOf hi h

theorem Inv2_recv {s s' : St} {bid : Nat} {ok : Bool}
    (hi : Inv2 s) (h : stepRecv s bid ok = .ok s') : Inv2 s' := by
  unfold stepRecv at h
  split at h
  · split at h
    · exact nomatch h
    split at h
    · exact nomatch h
    split at h
    · exact nomatch h
    split at h
    · exact nomatch h
    rename_i h1 h2 h3 h4
    simp only [Decidable.not_not] at h1 h2 h3
    injection h with h; subst h
    refine ⟨hi.comp, ?_, ?_, hi.owned, hi.ownedH⟩
    · intro b hb cs hm c hc
      simp only [List.mem_cons] at hb
      cases hb with
      | inr hb => exact hi.acked b hb cs hm c hc
      | inl hb =>
        subst hb
        rcases hi.comp b cs hm c hc with h0 | ⟨x, hx, _, hxb⟩ | ⟨r, hr, _, hrb⟩ | hbad
        · exact h0
        · exact absurd hxb (h2 x hx)
        · exact absurd hrb (h3 r hr)
        · exact absurd hbad h4
    · intro b hb
      simp only [List.mem_cons] at hb
      cases hb with
      | inr hb => exact hi.ackedKnown b hb
      | inl hb => subst hb; exact h1
  · injection h with h; subst h
    exact ⟨hi.comp, hi.acked, hi.ackedKnown, hi.owned, hi.ownedH⟩

theorem Inv2_restart {s s' : St} (hi : Inv2 s) (h : stepRestart s = .ok s') : Inv2 s' := by
  unfold stepRestart at h
  split at h
  · exact nomatch h
  split at h
  · exact nomatch h
  injection h with h; subst h
  refine ⟨?_, ?_, ?_, ?_, ?_⟩
  · intro b cs hm; simp at hm
  · intro b hb; simp at hb
  · intro b hb; simp at hb
  · intro e he; simp at he
  · intro seg hseg e he
    simp only [List.mem_append, List.mem_singleton] at hseg
    cases hseg with
    | inl h => exact hi.ownedH seg h e he
    | inr h => subst h; exact hi.owned e he

theorem Inv2_unsent {s s' : St} {c : Cmd} (hi : Inv2 s) (h : stepUnsent s c = .ok s') : Inv2 s' := by
  unfold stepUnsent at h
  split at h
  · exact nomatch h
  split at h
  · exact nomatch h
  rename_i b x a hsp
  obtain ⟨ht, _, _⟩ := splitFirst_spec _ _ _ _ _ hsp
  injection h with h; subst h
  have hcase : ∀ z ∈ s.todo, z = x ∨ z ∈ b ++ a := by
    intro z hz; rw [ht] at hz
    simp only [List.mem_append, List.mem_cons] at hz ⊢
    rcases hz with h | h | h
    · exact Or.inr (Or.inl h)
    · exact Or.inl h
    · exact Or.inr (Or.inr h)
  apply Inv2_of hi
  · rfl
  · rfl
  · rfl
  · intro e he; exact he
  · exact hi.owned
  · intro b0 c0 hc
    rcases hc with h0 | ⟨z, hz, h1, h2⟩ | h3 | h4
    · exact Or.inl h0
    · cases hcase z hz with
      | inl hzx => subst hzx; exact Or.inr (Or.inr (Or.inr (by simp [h2])))
      | inr hzx => exact Or.inr (Or.inl ⟨z, hzx, h1, h2⟩)
    · exact Or.inr (Or.inr (Or.inl h3))
    · exact Or.inr (Or.inr (Or.inr (by simp [h4])))

theorem Inv2_step {s s' : St} {e : Ev} (hi : Inv2 s) (h : step slotOf s e = .ok s') : Inv2 s' := by
  cases e with
  | put bid c n => exact Inv2_put slotOf hi h
  | dispatch bid => exact Inv2_dispatch hi h
  | srv n c asking o => exact Inv2_srv slotOf hi h
  | recv bid ok => exact Inv2_recv hi h
  | unsent c => exact Inv2_unsent hi h
  | nodeDown n =>
    simp only [step] at h
    injection h with h; subst h
    exact ⟨hi.comp, hi.acked, hi.ackedKnown, hi.owned, hi.ownedH⟩
  | mig m =>
    simp only [step] at h
    split at h
    · injection h with h; subst h
      exact ⟨hi.comp, hi.acked, hi.ackedKnown, hi.owned, hi.ownedH⟩
    · exact nomatch h
  | snapshot =>
    simp only [step] at h
    injection h with h; subst h
    exact ⟨hi.comp, hi.acked, hi.ackedKnown, hi.owned, hi.ownedH⟩
  | install =>
    simp only [step] at h
    split at h
    · injection h with h; subst h
      exact ⟨hi.comp, hi.acked, hi.ackedKnown, hi.owned, hi.ownedH⟩
    · exact nomatch h
  | refreshNow =>
    simp only [step] at h
    injection h with h; subst h
    exact ⟨hi.comp, hi.acked, hi.ackedKnown, hi.owned, hi.ownedH⟩
  | restart => exact Inv2_restart hi h

theorem Inv2_run : ∀ (evs : List Ev) (s s' : St), Inv2 s → run slotOf s evs = .ok s' → Inv2 s' := by
  intro evs
  induction evs with
  | nil => intro s s' hi h; simp only [run] at h; injection h with h; subst h; exact hi
  | cons e es ih =>
    intro s s' hi h
    simp only [run] at h
    split at h
    · rename_i s1 hs1
      exact ih s1 s' (Inv2_step slotOf hi hs1) h
    · exact nomatch h


def OwnedTExec (e : TExec) : Prop :=
  e.ownerThen = some e.node ∨ (e.importThen = some e.node ∧ e.asking = true)

structure TInv (s : TSt) : Prop where
  below : ∀ t ∈ s.txns, t.tid < s.nextTid
  incr : (s.txns.map (·.tid)).Pairwise (· < ·)
  logged : ∀ e ∈ s.log, ∃ t ∈ s.txns, t.tid = e.tid ∧ t.phase = .committed ∧ t.cmds = e.cmds
  clogged : ∀ t ∈ s.txns, t.phase = .committed → ∃ e ∈ s.log, e.tid = t.tid
  nodup : (s.log.map (·.tid)).Nodup
  acked : ∀ b ∈ s.acked, ∃ e ∈ s.log, e.tid = b
  owned : ∀ e ∈ s.log, OwnedTExec e

theorem TInv_init (sv : Srv) (slots : Slot → Node) : TInv (tinit sv slots) := by
  refine ⟨?_, ?_, ?_, ?_, ?_, ?_, ?_⟩ <;> simp [tinit]

theorem split_unique {l b a : List Txn} {t t0 : Txn} (hl : l = b ++ t :: a)
    (hp : (l.map (·.tid)).Pairwise (· < ·)) (h0 : t0 ∈ l) (ht : t0.tid = t.tid) :
    t0 = t := by
  subst hl
  simp only [List.map_append, List.map_cons, List.pairwise_append, List.pairwise_cons,
    List.mem_map, List.mem_cons] at hp
  obtain ⟨_, ⟨ha, _⟩, hba⟩ := hp
  simp only [List.mem_append, List.mem_cons] at h0
  rcases h0 with h | h | h
  · have := hba t0.tid ⟨t0, h, rfl⟩ t.tid (Or.inl rfl); omega
  · exact h
  · have := ha t0.tid ⟨t0, h, rfl⟩; omega

/-- replacing a transaction record by one with the same tid -/
theorem TInv_replace {s s' : TSt} {b a : List Txn} {t t' : Txn} (hi : TInv s)
    (hl : s.txns = b ++ t :: a) (hl' : s'.txns = b ++ t' :: a) (htid : t'.tid = t.tid)
    (hnc : t.phase ≠ .committed) (hnc' : t'.phase ≠ .committed)
    (hlog : s'.log = s.log) (hack : s'.acked = s.acked) (hn : s'.nextTid = s.nextTid) : TInv s' := by
  have hmap : s'.txns.map (·.tid) = s.txns.map (·.tid) := by simp [hl, hl', htid]
  refine ⟨?_, ?_, ?_, ?_, ?_, ?_, ?_⟩
  · intro x hx
    rw [hn]
    rw [hl'] at hx
    simp only [List.mem_append, List.mem_cons] at hx
    rcases hx with h | h | h
    · exact hi.below x (by rw [hl]; simp [h])
    · subst h; rw [htid]; exact hi.below t (by rw [hl]; simp)
    · exact hi.below x (by rw [hl]; simp [h])
  · rw [hmap]; exact hi.incr
  · intro e he
    rw [hlog] at he
    obtain ⟨t0, ht0, h1, h2, h3⟩ := hi.logged e he
    have hne : t0 ≠ t := by intro h; subst h; exact hnc h2
    refine ⟨t0, ?_, h1, h2, h3⟩
    rw [hl] at ht0; rw [hl']
    simp only [List.mem_append, List.mem_cons] at ht0 ⊢
    rcases ht0 with h | h | h
    · exact Or.inl h
    · exact absurd h hne
    · exact Or.inr (Or.inr h)
  · intro x hx hc
    rw [hlog]
    rw [hl'] at hx
    simp only [List.mem_append, List.mem_cons] at hx
    rcases hx with h | h | h
    · exact hi.clogged x (by rw [hl]; simp [h]) hc
    · subst h; exact absurd hc hnc'
    · exact hi.clogged x (by rw [hl]; simp [h]) hc
  · rw [hlog]; exact hi.nodup
  · rw [hack, hlog]; exact hi.acked
  · rw [hlog]; exact hi.owned

theorem tanswer_exec {sv : Srv} {n : Node} {keys : List Key} {a : Bool}
    (h : tanswer slotOf sv n keys a = .exec) :
    ∃ k rest, keys = k :: rest ∧
      (sv.owner (slotOf k) = n ∨ (sv.mig (slotOf k) = some n ∧ a = true)) := by
  unfold tanswer at h
  split at h
  · exact nomatch h
  · rename_i k rest
    refine ⟨k, rest, rfl, ?_⟩
    simp only at h
    split at h
    · rename_i ho; exact Or.inl ho
    · split at h
      · rename_i hm; exact Or.inr hm
      · exact nomatch h

theorem TInv_begin {s s' : TSt} {tid : Nat} {cmds : List Cmd} {n : Node} (hi : TInv s)
    (h : tstepBegin slotOf s tid cmds n = .ok s') : TInv s' := by
  unfold tstepBegin at h
  split at h
  · exact nomatch h
  split at h
  · exact nomatch h
  split at h
  · exact nomatch h
  split at h
  · exact nomatch h
  split at h
  · exact nomatch h
  rename_i h1 h2 h3 h4
  simp only [Decidable.not_not] at h1
  injection h with h; subst h
  refine ⟨?_, ?_, ?_, ?_, hi.nodup, hi.acked, hi.owned⟩
  rotate_left 3
  · intro t ht hc
    simp only [List.mem_append, List.mem_singleton] at ht
    cases ht with
    | inl ht => exact hi.clogged t ht hc
    | inr ht => subst ht; exact nomatch hc
  · intro t ht
    simp only [List.mem_append, List.mem_singleton] at ht
    show t.tid < tid + 1
    cases ht with
    | inl ht => have := hi.below t ht; omega
    | inr ht => subst ht; simp
  · simp only [List.map_append, List.map_cons, List.map_nil, List.pairwise_append]
    refine ⟨hi.incr, by simp, ?_⟩
    intro x hx y hy
    simp only [List.mem_map] at hx
    obtain ⟨t, ht, rfl⟩ := hx
    simp at hy; subst hy
    have := hi.below t ht; omega
  · intro e he
    obtain ⟨t0, ht0, h⟩ := hi.logged e he
    exact ⟨t0, by simp [ht0], h⟩

theorem TInv_srv {s s' : TSt} {n : Node} {tid : Nat} {asking : Bool} {o : Out} (hi : TInv s)
    (h : tstepSrv slotOf s n tid asking o = .ok s') : TInv s' := by
  unfold tstepSrv at h
  split at h
  · exact nomatch h
  rename_i b t a hsp
  obtain ⟨hl, htid, _⟩ := splitFirst_spec _ _ _ _ _ hsp
  have htid' : t.tid = tid := by simpa using htid
  split at h
  · exact nomatch h
  split at h
  · exact nomatch h
  split at h
  · exact nomatch h
  rename_i hph htgt hans
  simp only [Decidable.not_not] at hph hans
  have hnc : t.phase ≠ .committed := by
    intro hc; rw [hc] at hph; cases hph with
    | inl h => exact nomatch h
    | inr h => exact nomatch h
  cases o with
  | exec =>
    simp only at h
    injection h with h; subst h
    have hex : tanswer slotOf s.sv n (t.cmds.map (·.key)) asking = .exec := by
      rcases hans with h | ⟨_, h⟩ | ⟨h, _⟩
      · exact nomatch h
      · exact h
      · exact absurd rfl h
    have hmem : ∀ x, x ∈ s.txns → x = t ∨ x ∈ b ∨ x ∈ a := by
      intro x hx; rw [hl] at hx
      simp only [List.mem_append, List.mem_cons] at hx
      rcases hx with h | h | h
      · exact Or.inr (Or.inl h)
      · exact Or.inl h
      · exact Or.inr (Or.inr h)
    refine ⟨?_, ?_, ?_, ?_, ?_, ?_, ?_⟩
    rotate_left 3
    · intro x hx hc
      simp only [List.mem_append, List.mem_cons] at hx
      rcases hx with h | h | h
      · obtain ⟨e, he, h1⟩ := hi.clogged x (by rw [hl]; simp [h]) hc
        exact ⟨e, by simp [he], h1⟩
      · subst h; exact ⟨_, List.mem_append_right _ (List.mem_singleton.mpr rfl), htid'.symm⟩
      · obtain ⟨e, he, h1⟩ := hi.clogged x (by rw [hl]; simp [h]) hc
        exact ⟨e, by simp [he], h1⟩
    · simp only [List.map_append, List.map_cons, List.map_nil]
      rw [List.nodup_append]
      refine ⟨hi.nodup, by simp, ?_⟩
      intro x hx y hy
      simp at hy; subst hy
      simp only [List.mem_map] at hx
      obtain ⟨e, he, rfl⟩ := hx
      intro heq
      obtain ⟨t0, ht0, h1, h2, _⟩ := hi.logged e he
      have : t0 = t := split_unique hl hi.incr ht0 (by rw [h1, heq, htid'])
      subst this
      exact hnc h2
    · intro x hx
      obtain ⟨e, he, h1⟩ := hi.acked x hx
      exact ⟨e, by simp [he], h1⟩
    · intro e he
      simp only [List.mem_append, List.mem_singleton] at he
      cases he with
      | inl he => exact hi.owned e he
      | inr he =>
        subst he
        obtain ⟨k, rest, hk, hown⟩ := tanswer_exec slotOf hex
        cases hc : t.cmds with
        | nil => rw [hc] at hk; exact nomatch hk
        | cons c cs =>
          rw [hc] at hk
          simp only [List.map_cons, List.cons.injEq] at hk
          obtain ⟨hk1, _⟩ := hk
          subst hk1
          simp only [OwnedTExec, List.head?_cons, Option.map_some, Option.bind_some]
          cases hown with
          | inl h => exact Or.inl (by rw [h])
          | inr h => exact Or.inr h
    · intro x hx
      simp only [List.mem_append, List.mem_cons] at hx
      rcases hx with h | h | h
      · exact hi.below x (by rw [hl]; simp [h])
      · subst h; exact hi.below t (by rw [hl]; simp)
      · exact hi.below x (by rw [hl]; simp [h])
    · have := hi.incr; rw [hl] at this; simpa using this
    · intro e he
      simp only [List.mem_append, List.mem_singleton] at he
      cases he with
      | inl he =>
        obtain ⟨t0, ht0, h1, h2, h3⟩ := hi.logged e he
        have hne : t0 ≠ t := by intro h; subst h; exact hnc h2
        refine ⟨t0, ?_, h1, h2, h3⟩
        simp only [List.mem_append, List.mem_cons]
        rcases hmem t0 ht0 with h | h | h
        · exact absurd h hne
        · exact Or.inl h
        · exact Or.inr (Or.inr h)
      | inr he =>
        subst he
        exact ⟨{ t with phase := .committed }, by simp, htid', rfl, rfl⟩
  | moved d =>
    simp only at h
    split at h
    · injection h with h; subst h
      exact TInv_replace hi hl rfl rfl hnc (by first | exact hnc | exact fun h => nomatch h) rfl rfl rfl
    · injection h with h; subst h
      exact TInv_replace hi hl rfl rfl hnc (by first | exact hnc | exact fun h => nomatch h) rfl rfl rfl
  | ask d =>
    simp only at h
    split at h
    · injection h with h; subst h
      exact TInv_replace hi hl rfl rfl hnc (by first | exact hnc | exact fun h => nomatch h) rfl rfl rfl
    · injection h with h; subst h
      exact TInv_replace hi hl rfl rfl hnc (by first | exact hnc | exact fun h => nomatch h) rfl rfl rfl
  | err =>
    simp only at h
    injection h with h; subst h
    exact TInv_replace hi hl rfl rfl hnc (by first | exact hnc | exact fun h => nomatch h) rfl rfl rfl

theorem TInv_recv {s s' : TSt} {tid : Nat} {ok : Bool} (hi : TInv s)
    (h : tstepRecv s tid ok = .ok s') : TInv s' := by
  unfold tstepRecv at h
  split at h
  · exact nomatch h
  rename_i b t a hsp
  obtain ⟨hl, htid, _⟩ := splitFirst_spec _ _ _ _ _ hsp
  have htid' : t.tid = tid := by simpa using htid
  split at h
  · split at h
    · rename_i hc
      injection h with h; subst h
      refine ⟨hi.below, hi.incr, hi.logged, hi.clogged, hi.nodup, ?_, hi.owned⟩
      intro x hx
      simp only [List.mem_cons] at hx
      cases hx with
      | inr hx => exact hi.acked x hx
      | inl hx =>
        subst hx
        obtain ⟨e, he, h1⟩ := hi.clogged t (by rw [hl]; simp) hc
        exact ⟨e, he, by rw [h1, htid']⟩
    · exact nomatch h
  · split at h
    · rename_i hp
      injection h with h; subst h
      exact TInv_replace hi hl rfl rfl (by rw [hp]; exact fun h => nomatch h) (fun h => nomatch h) rfl rfl rfl
    · injection h with h; subst h; exact hi

theorem TInv_step {s s' : TSt} {e : TEv} (hi : TInv s) (h : tstep slotOf s e = .ok s') : TInv s' := by
  cases e with
  | «begin» tid cmds n => exact TInv_begin slotOf hi h
  | srv n tid asking o => exact TInv_srv slotOf hi h
  | recv tid ok => exact TInv_recv hi h
  | mig m =>
    simp only [tstep] at h
    split at h
    · injection h with h; subst h
      exact ⟨hi.below, hi.incr, hi.logged, hi.clogged, hi.nodup, hi.acked, hi.owned⟩
    · exact nomatch h
  | snapshot =>
    simp only [tstep] at h
    injection h with h; subst h
    exact ⟨hi.below, hi.incr, hi.logged, hi.clogged, hi.nodup, hi.acked, hi.owned⟩
  | install =>
    simp only [tstep] at h
    split at h
    · injection h with h; subst h
      exact ⟨hi.below, hi.incr, hi.logged, hi.clogged, hi.nodup, hi.acked, hi.owned⟩
    · exact nomatch h
  | refreshNow =>
    simp only [tstep] at h
    injection h with h; subst h
    exact ⟨hi.below, hi.incr, hi.logged, hi.clogged, hi.nodup, hi.acked, hi.owned⟩

theorem TInv_run : ∀ (evs : List TEv) (s s' : TSt), TInv s → trun slotOf s evs = .ok s' → TInv s' := by
  intro evs
  induction evs with
  | nil => intro s s' hi h; simp only [trun] at h; injection h with h; subst h; exact hi
  | cons e es ih =>
    intro s s' hi h
    simp only [trun] at h
    split at h
    · rename_i s1 hs1
      exact ih s1 s' (TInv_step slotOf hi hs1) h
    · exact nomatch h

def Live (t : Txn) : Prop := t.phase = .pending ∨ t.phase = .abandoned

/-- sequential use of the transaction batcher (Exec = Dispatch + Receive, one
    transaction at a time): a transaction begins only when no earlier one can
    still execute -/
def TSeqRun : TSt → List TEv → Prop
  | _, [] => True
  | s, e :: es =>
    (match e with
     | .begin _ _ _ => ∀ t ∈ s.txns, ¬ Live t
     | _ => True) ∧ ∀ s', tstep slotOf s e = .ok s' → TSeqRun s' es

structure TSeq (s : TSt) : Prop where
  sorted : (s.log.map (·.tid)).Pairwise (· < ·)
  ahead : ∀ t ∈ s.txns, Live t → ∀ e ∈ s.log, e.tid < t.tid
  one : ∀ t1 ∈ s.txns, ∀ t2 ∈ s.txns, Live t1 → Live t2 → t1.tid = t2.tid

theorem TSeq_replace {s s' : TSt} {b a : List Txn} {t t' : Txn} (hi : TSeq s)
    (hl : s.txns = b ++ t :: a) (hl' : s'.txns = b ++ t' :: a) (htid : t'.tid = t.tid)
    (hlive : Live t' → Live t) (hlog : s'.log = s.log) : TSeq s' := by
  have hin : ∀ x ∈ s'.txns, Live x → ∃ y ∈ s.txns, Live y ∧ y.tid = x.tid := by
    intro x hx hlx
    rw [hl'] at hx
    simp only [List.mem_append, List.mem_cons] at hx
    rcases hx with h | h | h
    · exact ⟨x, by rw [hl]; simp [h], hlx, rfl⟩
    · subst h; exact ⟨t, by rw [hl]; simp, hlive hlx, htid.symm⟩
    · exact ⟨x, by rw [hl]; simp [h], hlx, rfl⟩
  refine ⟨by rw [hlog]; exact hi.sorted, ?_, ?_⟩
  · intro x hx hlx e he
    rw [hlog] at he
    obtain ⟨y, hy, hly, hyt⟩ := hin x hx hlx
    rw [← hyt]; exact hi.ahead y hy hly e he
  · intro x1 h1 x2 h2 l1 l2
    obtain ⟨y1, hy1, hly1, e1⟩ := hin x1 h1 l1
    obtain ⟨y2, hy2, hly2, e2⟩ := hin x2 h2 l2
    rw [← e1, ← e2]; exact hi.one y1 hy1 y2 hy2 hly1 hly2

theorem TSeq_step {s s' : TSt} {e : TEv} (hv : TInv s) (hi : TSeq s)
    (hq : match e with | .begin _ _ _ => ∀ t ∈ s.txns, ¬ Live t | _ => True)
    (h : tstep slotOf s e = .ok s') : TSeq s' := by
  cases e with
  | «begin» tid cmds n =>
    simp only [tstep] at h
    unfold tstepBegin at h
    split at h
    · exact nomatch h
    split at h
    · exact nomatch h
    split at h
    · exact nomatch h
    split at h
    · exact nomatch h
    split at h
    · exact nomatch h
    rename_i h1 h2 h3 h4
    simp only [Decidable.not_not] at h1
    injection h with h; subst h
    refine ⟨hi.sorted, ?_, ?_⟩
    · intro t ht hlt e he
      simp only [List.mem_append, List.mem_singleton] at ht
      cases ht with
      | inl ht => exact absurd hlt (hq t ht)
      | inr ht =>
        subst ht
        obtain ⟨t0, ht0, h5, _, _⟩ := hv.logged e he
        have := hv.below t0 ht0
        show e.tid < tid
        omega
    · intro t1 ht1 t2 ht2 l1 l2
      simp only [List.mem_append, List.mem_singleton] at ht1 ht2
      cases ht1 with
      | inl ht1 => exact absurd l1 (hq t1 ht1)
      | inr ht1 =>
        cases ht2 with
        | inl ht2 => exact absurd l2 (hq t2 ht2)
        | inr ht2 => subst ht1; subst ht2; rfl
  | srv n tid asking o =>
    simp only [tstep] at h
    unfold tstepSrv at h
    split at h
    · exact nomatch h
    rename_i b t a hsp
    obtain ⟨hl, htid, _⟩ := splitFirst_spec _ _ _ _ _ hsp
    have htid' : t.tid = tid := by simpa using htid
    split at h
    · exact nomatch h
    split at h
    · exact nomatch h
    split at h
    · exact nomatch h
    rename_i hph htgt hans
    simp only [Decidable.not_not] at hph
    have htm : t ∈ s.txns := by rw [hl]; simp
    cases o with
    | exec =>
      simp only at h
      injection h with h; subst h
      have hother : ∀ x, x ∈ b ∨ x ∈ a → ¬ Live x := by
        intro x hx hlx
        have hxm : x ∈ s.txns := by
          rw [hl]; simp only [List.mem_append, List.mem_cons]
          cases hx with
          | inl h => exact Or.inl h
          | inr h => exact Or.inr (Or.inr h)
        have heq := hi.one x hxm t htm hlx hph
        have hinc := hv.incr
        rw [hl] at hinc
        simp only [List.map_append, List.map_cons, List.pairwise_append, List.pairwise_cons,
          List.mem_map, List.mem_cons] at hinc
        obtain ⟨_, ⟨ha, _⟩, hba⟩ := hinc
        cases hx with
        | inl h => have := hba x.tid ⟨x, h, rfl⟩ t.tid (Or.inl rfl); omega
        | inr h => have := ha x.tid ⟨x, h, rfl⟩; omega
      refine ⟨?_, ?_, ?_⟩
      · simp only [List.map_append, List.map_cons, List.map_nil, List.pairwise_append]
        refine ⟨hi.sorted, by simp, ?_⟩
        intro x hx y hy
        simp at hy; subst hy
        simp only [List.mem_map] at hx
        obtain ⟨e, he, rfl⟩ := hx
        rw [← htid']; exact hi.ahead t htm hph e he
      · intro x hx hlx
        simp only [List.mem_append, List.mem_cons] at hx
        rcases hx with h | h | h
        · exact absurd hlx (hother x (Or.inl h))
        · subst h; cases hlx with
          | inl h => exact nomatch h
          | inr h => exact nomatch h
        · exact absurd hlx (hother x (Or.inr h))
      · intro x1 h1 x2 h2 l1 l2
        simp only [List.mem_append, List.mem_cons] at h1
        rcases h1 with h | h | h
        · exact absurd l1 (hother x1 (Or.inl h))
        · subst h; cases l1 with
          | inl h => exact nomatch h
          | inr h => exact nomatch h
        · exact absurd l1 (hother x1 (Or.inr h))
    | moved d =>
      simp only at h
      split at h
      · injection h with h; subst h
        exact TSeq_replace hi hl rfl rfl (fun _ => hph) rfl
      · injection h with h; subst h
        exact TSeq_replace hi hl rfl rfl (fun _ => hph) rfl
    | ask d =>
      simp only at h
      split at h
      · injection h with h; subst h
        exact TSeq_replace hi hl rfl rfl (fun _ => hph) rfl
      · injection h with h; subst h
        exact TSeq_replace hi hl rfl rfl (fun _ => hph) rfl
    | err =>
      simp only at h
      injection h with h; subst h
      exact TSeq_replace hi hl rfl rfl (fun _ => hph) rfl
  | recv tid ok =>
    simp only [tstep] at h
    unfold tstepRecv at h
    split at h
    · exact nomatch h
    rename_i b t a hsp
    obtain ⟨hl, _, _⟩ := splitFirst_spec _ _ _ _ _ hsp
    split at h
    · split at h
      · injection h with h; subst h
        exact ⟨hi.sorted, hi.ahead, hi.one⟩
      · exact nomatch h
    · split at h
      · rename_i hp
        injection h with h; subst h
        exact TSeq_replace hi hl rfl rfl (fun _ => Or.inl hp) rfl
      · injection h with h; subst h; exact hi
  | mig m =>
    simp only [tstep] at h
    split at h
    · injection h with h; subst h
      exact ⟨hi.sorted, hi.ahead, hi.one⟩
    · exact nomatch h
  | snapshot =>
    simp only [tstep] at h
    injection h with h; subst h
    exact ⟨hi.sorted, hi.ahead, hi.one⟩
  | install =>
    simp only [tstep] at h
    split at h
    · injection h with h; subst h
      exact ⟨hi.sorted, hi.ahead, hi.one⟩
    · exact nomatch h
  | refreshNow =>
    simp only [tstep] at h
    injection h with h; subst h
    exact ⟨hi.sorted, hi.ahead, hi.one⟩

theorem TSeq_init (sv : Srv) (slots : Slot → Node) : TSeq (tinit sv slots) := by
  refine ⟨?_, ?_, ?_⟩ <;> simp [tinit]

theorem TSeq_run : ∀ (evs : List TEv) (s s' : TSt), TInv s → TSeq s → TSeqRun slotOf s evs →
    trun slotOf s evs = .ok s' → TSeq s' := by
  intro evs
  induction evs with
  | nil => intro s s' _ hi _ h; simp only [trun] at h; injection h with h; subst h; exact hi
  | cons e es ih =>
    intro s s' hv hi hq h
    simp only [trun] at h
    split at h
    · rename_i s1 hs1
      obtain ⟨hq1, hq2⟩ := hq
      exact ih s1 s' (TInv_step slotOf hv hs1) (TSeq_step slotOf hv hi hq1 hs1) (hq2 s1 hs1) h
    · exact nomatch h


theorem quietStep_of_B {s : St} {m : Mig} (h : quietStepB slotOf s m = true) : QuietStep slotOf s m := by
  intro sv' hsv r hr
  unfold quietStepB at h
  rw [hsv] at h
  simp only [List.all_eq_true, decide_eq_true_eq] at h
  exact h r hr

theorem quietRun_of_B : ∀ (evs : List Ev) (s : St), quietRunB slotOf s evs = true → QuietRun slotOf s evs := by
  intro evs
  induction evs with
  | nil => intro s _; trivial
  | cons e es ih =>
    intro s h
    simp only [quietRunB, Bool.and_eq_true] at h
    obtain ⟨h1, h2⟩ := h
    refine ⟨?_, ?_⟩
    · cases e with
      | mig m => exact quietStep_of_B slotOf h1
      | _ => trivial
    · intro s' hs'
      rw [hs'] at h2
      exact ih s' h2

/-- decidable form of `TSeqRun` -/
def tseqB : TSt → List TEv → Bool
  | _, [] => true
  | s, e :: es =>
    (match e with
     | .begin _ _ _ => s.txns.all (fun t => t.phase != .pending && t.phase != .abandoned)
     | _ => true) &&
    (match tstep slotOf s e with
     | .ok s' => tseqB s' es
     | .error _ => true)

theorem tseqRun_of_B : ∀ (evs : List TEv) (s : TSt), tseqB slotOf s evs = true → TSeqRun slotOf s evs := by
  intro evs
  induction evs with
  | nil => intro s _; trivial
  | cons e es ih =>
    intro s h
    simp only [tseqB, Bool.and_eq_true] at h
    obtain ⟨h1, h2⟩ := h
    refine ⟨?_, ?_⟩
    · cases e with
      | «begin» tid cmds n =>
        intro t ht hl
        simp only [List.all_eq_true, Bool.and_eq_true, bne_iff_ne, ne_eq] at h1
        obtain ⟨h3, h4⟩ := h1 t ht
        cases hl with
        | inl h => exact h3 h
        | inr h => exact h4 h
      | _ => trivial
    · intro s' hs'
      rw [hs'] at h2
      exact ih s' h2


end

end GunYu.ClusterRoute

namespace GunYu.ClusterSender

theorem sendFunc_bound (m : SMode) : ∀ (outs : List (Option SErr)) (r : Nat),
    (sendFunc m outs r).1 ≤ max 1 (3 - r) := by
  intro outs
  induction outs with
  | nil => intro r; simp [sendFunc]
  | cons o rest ih =>
    intro r
    cases o with
    | none => simp only [sendFunc]; omega
    | some e =>
      have h := ih (r + 1)
      cases e <;> simp only [sendFunc] <;> (repeat' split) <;> simp_all <;> omega

end GunYu.ClusterSender

namespace GunYu.ClusterRoute

theorem sorted_subset_sublist : ∀ (B A : List Nat), A.Pairwise (· < ·) → B.Pairwise (· < ·) →
    (∀ a ∈ A, a ∈ B) → A.Sublist B := by
  intro B
  induction B with
  | nil =>
    intro A _ _ h
    cases A with
    | nil => exact List.Sublist.slnil
    | cons a as => exact absurd (h a (by simp)) List.not_mem_nil
  | cons b bs ih =>
    intro A hA hB h
    cases A with
    | nil => exact List.nil_sublist _
    | cons a as =>
      rw [List.pairwise_cons] at hA hB
      have ha := h a (by simp)
      rw [List.mem_cons] at ha
      cases ha with
      | inl hab =>
        subst hab
        apply List.Sublist.cons_cons
        apply ih as hA.2 hB.2
        intro x hx
        have hx' := h x (by simp [hx])
        rw [List.mem_cons] at hx'
        cases hx' with
        | inl e => have := hA.1 x hx; omega
        | inr e => exact e
      | inr hab =>
        have hba := hB.1 a hab
        apply List.Sublist.cons
        apply ih (a :: as) (List.pairwise_cons.mpr hA) hB.2
        intro x hx
        have hx' := h x hx
        rw [List.mem_cons] at hx' hx
        cases hx' with
        | inl e =>
          cases hx with
          | inl e2 => omega
          | inr e2 => have := hA.1 x e2; omega
        | inr e => exact e

/-- ids of the commands of key `k` in a batch, in put order -/
def idsC (cs : List Cmd) (k : Key) : List Nat := (cs.filter (fun c => c.key == k)).map (·.id)

section
variable (slotOf : Key → Slot)

/-- every dispatched batch lists, per key, its commands in increasing id (source) order -/
def BatchesSorted (s : St) : Prop := ∀ b cs, (b, cs) ∈ s.batches → ∀ k, (idsC cs k).Pairwise (· < ·)

theorem idsC_of_sent (cur : List Sent) (k : Key) : idsC (cur.map (·.cmd)) k = idsS cur k := by
  simp [idsC, idsS, List.filter_map, Function.comp_def]

theorem BatchesSorted_step {s s' : St} {e : Ev} (hi : Inv slotOf s) (hb : BatchesSorted s)
    (h : step slotOf s e = .ok s') : BatchesSorted s' := by
  have same : s'.batches = s.batches → BatchesSorted s' := by
    intro he b cs hm; rw [he] at hm; exact hb b cs hm
  cases e with
  | put bid c n =>
    obtain ⟨_, _, rfl⟩ := stepPut_ok slotOf h
    exact same rfl
  | dispatch bid =>
    obtain ⟨_, rfl⟩ := stepDispatch_ok h
    intro b cs hm k
    simp only [List.mem_append, List.mem_singleton, Prod.mk.injEq] at hm
    cases hm with
    | inl hm => exact hb b cs hm k
    | inr hm =>
      obtain ⟨_, rfl⟩ := hm
      rw [idsC_of_sent]
      have := hi.sorted k
      rw [seqOf, outIds_eq, List.pairwise_append] at this
      have h2 := this.2.1
      rw [List.pairwise_append] at h2
      exact h2.2.1
  | srv n c asking o =>
    apply same
    simp only [step, stepSrv] at h
    split at h
    · split at h
      · unfold stepFirst at h
        split at h
        · exact nomatch h
        · cases o <;> simp only at h <;> (injection h with h; subst h; rfl)
      · unfold stepChase at h
        split at h
        · exact nomatch h
        · split at h
          · exact nomatch h
          split at h
          · exact nomatch h
          split at h
          · exact nomatch h
          cases o <;> simp only at h <;> (injection h with h; subst h; rfl)
    · unfold stepChase at h
      split at h
      · exact nomatch h
      · split at h
        · exact nomatch h
        split at h
        · exact nomatch h
        split at h
        · exact nomatch h
        cases o <;> simp only at h <;> (injection h with h; subst h; rfl)
  | recv bid ok =>
    apply same
    simp only [step, stepRecv] at h
    split at h
    · split at h
      · exact nomatch h
      split at h
      · exact nomatch h
      split at h
      · exact nomatch h
      split at h
      · exact nomatch h
      injection h with h; subst h; rfl
    · injection h with h; subst h; rfl
  | unsent c =>
    apply same
    simp only [step, stepUnsent] at h
    split at h
    · exact nomatch h
    split at h
    · exact nomatch h
    injection h with h; subst h; rfl
  | nodeDown n => apply same; simp only [step] at h; injection h with h; subst h; rfl
  | mig m =>
    apply same
    simp only [step] at h
    split at h
    · injection h with h; subst h; rfl
    · exact nomatch h
  | snapshot => apply same; simp only [step] at h; injection h with h; subst h; rfl
  | install =>
    apply same
    simp only [step] at h
    split at h
    · injection h with h; subst h; rfl
    · exact nomatch h
  | refreshNow => apply same; simp only [step] at h; injection h with h; subst h; rfl
  | restart =>
    simp only [step, stepRestart] at h
    split at h
    · exact nomatch h
    split at h
    · exact nomatch h
    injection h with h; subst h
    intro b cs hm; simp at hm

theorem BatchesSorted_run : ∀ (evs : List Ev) (s s' : St), Inv slotOf s → BatchesSorted s →
    QuietRun slotOf s evs → run slotOf s evs = .ok s' → BatchesSorted s' := by
  intro evs
  induction evs with
  | nil => intro s s' _ hb _ h; simp only [run] at h; injection h with h; subst h; exact hb
  | cons e es ih =>
    intro s s' hi hb hq h
    simp only [run] at h
    split at h
    · rename_i s1 hs1
      obtain ⟨hq1, hq2⟩ := hq
      exact ih s1 s' (Inv_step slotOf hi hq1 hs1) (BatchesSorted_step slotOf hi hb hs1) (hq2 s1 hs1) h
    · exact nomatch h
end
end GunYu.ClusterRoute
