/-
  C08: the CONTENT of snapshot files. The ghost `received` (Model/StoreFs.lean)
  records every byte handed to the snapshot writer; here it is tied to the
  index (`GInv`) and to the files (`RdbOkP`), for every script, every crash
  instant and every torn length.
-/
import GunYu.Proofs.StoreFs
import GunYu.Proofs.StoreFsTrue

namespace GunYu.StoreFs
open GunYu GunYu.Store

/-! ### the ghost agrees with the index -/

structure GInv (s : Disk) (g : RecvG) : Prop where
  rid : g.runId = s.runId
  held : ∀ r, s.rdb = some r → g.cur = some ⟨r.left, r.size, r.data, r.writing⟩ ∧ 0 < r.size
  gone : s.rdb = none → ∀ x, g.cur = some x → x.receiving = false

theorem GInv.init (l m : Nat) : GInv (Disk.init l m) ⟨"", none⟩ :=
  ⟨rfl, (by intro r h; cases h), (by intro _ x h; cases h)⟩

theorem stopRecv_receiving {c : Option SnapRecv} {x : SnapRecv} (h : stopRecv c = some x) : x.receiving = false := by
  cases c with
  | none => cases h
  | some y => simp [stopRecv] at h; subst h; rfl

theorem stopRecv_stopped {y : SnapRecv} (h : y.receiving = false) : stopRecv (some y) = some y := by
  cases y; simp_all [stopRecv]

/-- operations that leave the snapshot index entry and the replication id alone -/
theorem GInv.frame {s s' : Disk} {g : RecvG} (h : GInv s g) (hr : s'.rdb = s.rdb) (hid : s'.runId = s.runId) : GInv s' g :=
  ⟨by rw [hid]; exact h.rid, by rw [hr]; exact h.held, by rw [hr]; exact h.gone⟩

theorem reader_ops_rdb (s : Disk) :
    (∀ rid off crc, (s.open rid off crc).1.rdb = s.rdb ∧ (s.open rid off crc).1.runId = s.runId) ∧
    (∀ rid n, (s.read rid n).1.rdb = s.rdb ∧ (s.read rid n).1.runId = s.runId) ∧
    (∀ rid, (s.advAcquire rid).1.rdb = s.rdb ∧ (s.advAcquire rid).1.runId = s.runId) ∧
    (∀ rid, (s.advRelease rid).1.rdb = s.rdb ∧ (s.advRelease rid).1.runId = s.runId) ∧
    (∀ rid, (s.closeReader rid).1.rdb = s.rdb ∧ (s.closeReader rid).1.runId = s.runId) := by
  refine ⟨?_, ?_, ?_, ?_, ?_⟩
  · intro rid off crc; unfold Disk.open; repeat' split
    all_goals exact ⟨rfl, rfl⟩
  · intro rid n; simp only [Disk.read]; repeat' split
    all_goals exact ⟨rfl, rfl⟩
  · intro rid; unfold Disk.advAcquire; repeat' split
    all_goals exact ⟨rfl, rfl⟩
  · intro rid; unfold Disk.advRelease; repeat' split
    all_goals exact ⟨rfl, rfl⟩
  · intro rid; unfold Disk.closeReader; repeat' split
    all_goals exact ⟨rfl, rfl⟩

theorem closeLive_runId (s : Disk) : s.closeLive.runId = s.runId := by
  unfold Disk.closeLive
  cases s.live with
  | none => rfl
  | some g => simp only []; split <;> rfl

/-- what a replication-id switch leaves of the snapshot: nothing, or the committed one -/
theorem switch_rdb (s : Disk) (r' : DRdb) (h : s.closeAllForSwitch.rescan.rdb = some r') :
    s.rdb = some r' ∧ r'.writing = false := by
  have hw := rescan_rdb_not_writing _ r' h
  have hrdb : s.closeAllForSwitch.rescan.rdb = (truncateGap (match s.closeAllForSwitch.rdb with
      | some r => if r.final then some { r with writing := false } else none
      | none => none) (sortSegs (s.closeAllForSwitch.all.filter (fun g => !g.data.isEmpty)))).1 := rfl
  rw [hrdb] at h
  have hs1 : s.closeAllForSwitch.rdb = (match s.rdb with
      | some r => if r.writing then none else some r
      | none => none) := by
    unfold Disk.closeAllForSwitch
    rw [(closeLive_hist _).2.2]
    unfold Disk.dropWritingRdb
    dsimp only
    cases s.rdb with
    | none => rfl
    | some r => dsimp only; split <;> rfl
  rcases truncateGap_rdb (match s.closeAllForSwitch.rdb with
      | some r => if r.final then some { r with writing := false } else none
      | none => none) (sortSegs (s.closeAllForSwitch.all.filter (fun g => !g.data.isEmpty))) with h1 | h1
  · rw [h1] at h; cases h
  · rw [h1, hs1] at h
    cases hr : s.rdb with
    | none => rw [hr] at h; simp at h
    | some r =>
      rw [hr] at h
      dsimp only at h
      by_cases hwr : r.writing = true
      · simp [hwr] at h
      · have hwf : r.writing = false := by simpa using hwr
        simp only [hwf, Bool.false_eq_true, if_false] at h
        split at h
        · cases h
          refine ⟨?_, rfl⟩
          cases r; simp_all
        · cases h

theorem ginv_step (s : Disk) (g : RecvG) (op : DOp) (h : GInv s g) (hok : s.okOp op) :
    GInv (s.step op).1 (recvStep g op) := by
  obtain ⟨ro, rr, ra, rl, rc⟩ := reader_ops_rdb s
  cases op with
  | setRunId id =>
    simp only [Disk.step, recvStep, h.rid]
    by_cases h1 : s.runId = ""
    · simp only [h1, if_true]
      exact ⟨rfl, (by intro r hr; cases hr), fun _ x hx => stopRecv_receiving hx⟩
    · simp only [h1, if_false]
      by_cases h2 : id = s.runId
      · simp only [h2, if_true]; exact h
      · simp only [h2, if_false]
        refine ⟨rfl, ?_, fun _ x hx => stopRecv_receiving hx⟩
        intro r' hr'
        obtain ⟨hs, hw⟩ := switch_rdb s r' hr'
        obtain ⟨hc, hp⟩ := h.held r' hs
        refine ⟨?_, hp⟩
        show stopRecv g.cur = _
        rw [hc, hw]
        exact stopRecv_stopped rfl
  | delRunId =>
    simp only [Disk.step, recvStep, h.rid]
    by_cases h1 : s.runId = ""
    · simp only [h1, if_true]; exact h
    · simp only [h1, if_false]
      exact ⟨rfl, (by intro r hr; cases hr), fun _ x hx => stopRecv_receiving hx⟩
  | newRdbWriter off size =>
    simp only [Disk.step, recvStep]
    refine ⟨h.rid, ?_, (by intro hn; cases hn)⟩
    intro r hr
    simp at hr; subst hr
    exact ⟨rfl, hok⟩
  | rdbAppend chunk =>
    simp only [Disk.step, recvStep]
    cases hr : s.rdb with
    | none =>
      dsimp only
      cases hc : g.cur with
      | none => dsimp only; exact h
      | some x =>
        dsimp only
        have := h.gone hr x hc
        simp only [this, Bool.false_eq_true, if_false]
        exact h
    | some r =>
      obtain ⟨hc, hp⟩ := h.held r hr
      rw [hc]
      dsimp only
      by_cases hw : r.writing = true
      · simp only [hw, if_true]
        by_cases hl : (r.data ++ chunk).length = r.size
        · have hl' : r.data.length + chunk.length = r.size := by simpa using hl
          simp only [hl, hl', if_true]
          refine ⟨h.rid, ?_, (by intro hn; cases hn)⟩
          intro r' hr'
          simp at hr'; subst hr'
          exact ⟨by simp [hl], hp⟩
        · have hl' : ¬ r.data.length + chunk.length = r.size := by simpa using hl
          simp only [hl, hl', if_false]
          refine ⟨h.rid, ?_, (by intro hn; cases hn)⟩
          intro r' hr'
          simp at hr'; subst hr'
          exact ⟨by simp; exact hl', hp⟩
      · have hwf : r.writing = false := by simpa using hw
        simp only [hwf, Bool.false_eq_true, if_false]
        exact ⟨h.rid, (by rw [hr]; intro r' hr'; cases hr'; exact ⟨by rw [hc, hwf], hp⟩), (by intro hn; rw [hr] at hn; cases hn)⟩
  | rdbClose =>
    simp only [Disk.step, recvStep]
    cases hr : s.rdb with
    | none =>
      dsimp only
      exact ⟨h.rid, (by rw [hr]; intro r' hr'; cases hr'), fun _ x hx => stopRecv_receiving hx⟩
    | some r =>
      obtain ⟨hc, hp⟩ := h.held r hr
      dsimp only
      by_cases hw : r.writing = true
      · simp only [hw, if_true]
        exact ⟨h.rid, (by intro r' hr'; cases hr'), fun _ x hx => stopRecv_receiving hx⟩
      · have hwf : r.writing = false := by simpa using hw
        simp only [hwf, Bool.false_eq_true, if_false]
        refine ⟨h.rid, ?_, (by intro hn; rw [hr] at hn; cases hn)⟩
        rw [hr]; intro r' hr'; cases hr'
        refine ⟨?_, hp⟩
        show stopRecv g.cur = _
        rw [hc, hwf]; exact stopRecv_stopped rfl
  | newAofWriter off =>
    apply h.frame
    · simp only [Disk.step]; exact (closeLive_hist s).2.2
    · simp only [Disk.step]; exact closeLive_runId s
  | aofAppend chunk =>
    have : (s.step (.aofAppend chunk)).1.rdb = s.rdb ∧ (s.step (.aofAppend chunk)).1.runId = s.runId := by
      cases hlv : s.live with
      | none => simp [Disk.step, Disk.appendLive, hlv]
      | some g =>
        simp only [Disk.step, Disk.appendLive, hlv]
        split <;> simp
    exact h.frame this.1 this.2
  | aofClose =>
    apply h.frame
    · exact (closeLive_hist s).2.2
    · exact closeLive_runId s
  | gc =>
    simp only [Disk.step, recvStep]
    have hid : s.gc.runId = s.runId := by
      unfold Disk.gc; repeat' split
      all_goals rfl
    cases hg : s.gc.rdb with
    | some r' =>
      have : s.rdb = some r' := by
        unfold Disk.gc at hg
        repeat' split at hg
        all_goals simp_all
      exact ⟨(by rw [hid]; exact h.rid), (by rw [hg]; intro r hr; cases hr; exact h.held _ this), (by rw [hg]; intro hn; cases hn)⟩
    | none =>
      refine ⟨(by rw [hid]; exact h.rid), (by rw [hg]; intro r hr; cases hr), ?_⟩
      intro _ x hx
      cases hr : s.rdb with
      | none => exact h.gone hr x hx
      | some r =>
        have hz := gc_snapshot_branch s r hr hg
        obtain ⟨hc, _⟩ := h.held r hr
        rw [hc] at hx; cases hx
        show r.writing = false
        unfold rdbRef at hz
        by_cases hw : r.writing = true
        · simp [hw] at hz
        · simpa using hw
  | openReader rid off crcOk => exact h.frame (ro rid off crcOk).1 (ro rid off crcOk).2
  | read rid n => exact h.frame (rr rid n).1 (rr rid n).2
  | advAcquire rid => exact h.frame (ra rid).1 (ra rid).2
  | advRelease rid => exact h.frame (rl rid).1 (rl rid).2
  | closeReader rid => exact h.frame (rc rid).1 (rc rid).2

/-! ### committed snapshot files, with an arbitrary property of their content -/

def RdbOkP (P : Nat → Nat → Bytes → Prop) (fs : FS) : Prop :=
  ∀ e ∈ fs, ∀ L S, parseRdbName e.1 = some (L, S) → P L S e.2

def RdbSafeP (P : Nat → Nat → Bytes → Prop) (fs : FS) : FsOp → Prop
  | .create n => parseRdbName n = none
  | .append n _ => parseRdbName n = none
  | .pwriteHdr n _ => parseRdbName n = none
  | .rename a b => ∀ L S, parseRdbName b = some (L, S) → ∀ c, fs.get a = some c → P L S c
  | .remove _ => True

theorem RdbOkP_set {P : Nat → Nat → Bytes → Prop} {fs : FS} (h : RdbOkP P fs) (n : FName) (c : Bytes)
    (hc : ∀ L S, parseRdbName n = some (L, S) → P L S c) : RdbOkP P (fs.set n c) := by
  intro e he L S hp
  rcases mem_set he with rfl | h'
  · exact hc L S hp
  · exact h e h' L S hp

theorem RdbOkP_del {P : Nat → Nat → Bytes → Prop} {fs : FS} (h : RdbOkP P fs) (n : FName) : RdbOkP P (fs.del n) := by
  intro e he
  exact h e (List.mem_filter.mp he).1

theorem RdbOkP_apply {P : Nat → Nat → Bytes → Prop} {fs : FS} (h : RdbOkP P fs) (op : FsOp) (hop : RdbSafeP P fs op) :
    RdbOkP P (fs.apply op) := by
  cases op with
  | create n => exact RdbOkP_set h n [] (fun L S hp => by rw [hop] at hp; cases hp)
  | remove n => exact RdbOkP_del h n
  | append n bs =>
    simp only [FS.apply]
    cases hg : fs.get n with
    | none => exact h
    | some c => exact RdbOkP_set h n _ (fun L S hp => by rw [hop] at hp; cases hp)
  | pwriteHdr n hdr =>
    simp only [FS.apply]
    cases hg : fs.get n with
    | none => exact h
    | some c => exact RdbOkP_set h n _ (fun L S hp => by rw [hop] at hp; cases hp)
  | rename a b =>
    simp only [FS.apply]
    cases hg : fs.get a with
    | none => exact h
    | some c => exact RdbOkP_set (RdbOkP_del h a) b c (fun L S hp => hop L S hp c hg)

theorem RdbOkP_applyAll {P : Nat → Nat → Bytes → Prop} (ops : List FsOp) :
    ∀ (fs : FS), RdbOkP P fs →
      (∀ pre op post, ops = pre ++ op :: post → RdbSafeP P (fs.applyAll pre) op) →
      RdbOkP P (fs.applyAll ops) := by
  induction ops with
  | nil => intro fs h _; exact h
  | cons op rest ih =>
    intro fs h hall
    show RdbOkP P ((fs.apply op).applyAll rest)
    apply ih _ (RdbOkP_apply h op (hall [] op rest rfl))
    intro pre op' post he
    exact hall (op :: pre) op' post (by simp [he])

theorem rdbSafeP_take {P : Nat → Nat → Bytes → Prop} {fs : FS} {ops : List FsOp}
    (hops : ∀ pre op post, ops = pre ++ op :: post → RdbSafeP P (fs.applyAll pre) op) (n : Nat) :
    ∀ pre op post, ops.take n = pre ++ op :: post → RdbSafeP P (fs.applyAll pre) op := by
  intro pre op post he
  apply hops pre op (post ++ ops.drop n)
  have := (List.take_append_drop n ops).symm
  rw [he] at this
  refine this.trans ?_
  simp

theorem RdbOkP_tornLast {P : Nat → Nat → Bytes → Prop} {fs : FS} (h : RdbOkP P fs) (xs : List FsOp)
    (hx : ∀ pre op post, xs = pre ++ op :: post → RdbSafeP P (fs.applyAll pre) op) (k : Nat) :
    RdbOkP P (fs.applyAll (tornLast xs k)) := by
  unfold tornLast
  cases hl : xs.getLast? with
  | none => exact RdbOkP_applyAll xs fs h hx
  | some last =>
    cases last with
    | append nm bs =>
      simp only []
      have hxs := dropLast_concat_of_getLast? hl
      rw [applyAll_append]
      have hpre : RdbOkP P (fs.applyAll xs.dropLast) := by
        apply RdbOkP_applyAll _ _ h
        intro pre op post he
        exact hx pre op (post ++ [.append nm bs]) (by rw [← hxs, he]; simp)
      show RdbOkP P ((fs.applyAll xs.dropLast).apply (.append nm (bs.take k)))
      apply RdbOkP_apply hpre
      exact (hx xs.dropLast (.append nm bs) [] hxs.symm : RdbSafeP P _ (.append nm bs))
    | create nm => exact RdbOkP_applyAll xs fs h hx
    | pwriteHdr nm hd => exact RdbOkP_applyAll xs fs h hx
    | rename a b => exact RdbOkP_applyAll xs fs h hx
    | remove nm => exact RdbOkP_applyAll xs fs h hx

/-- one writer step: the only rename commits exactly the bytes the index holds for the snapshot -/
theorem fsOps_stepP (P : Nat → Nat → Bytes → Prop) (s : Disk) (fs : FS) (op : DOp) (hok : s.okOp op) (hr : TmpRel s fs)
    (hP : ∀ r chunk, op = .rdbAppend chunk → s.rdb = some r → r.writing = true →
      r.data.length + chunk.length = r.size → P r.left r.size (r.data ++ chunk)) :
    ∀ p1 o p2, fsOps s op = p1 ++ o :: p2 → RdbSafeP P (fs.applyAll p1) o := by
  intro p1 o p2 he
  have hsafe := (fsOps_step s fs op hok hr).1 p1 o p2 he
  cases o with
  | create n => exact hsafe
  | append n bs => exact hsafe
  | pwriteHdr n hd => exact hsafe
  | remove n => trivial
  | rename a b =>
    obtain ⟨r, chunk, rfl, hrdb, hw, hc, rfl, rfl⟩ :=
      rename_only_when_complete s op a b (by rw [he]; simp)
    have hfs : fsOps s (.rdbAppend chunk) =
        [.append (rdbTmpName r.left r.size) chunk, .rename (rdbTmpName r.left r.size) (rdbName r.left r.size)] := by
      simp [fsOps, hrdb, hw, hc]
    rw [hfs] at he
    have hp1 : p1 = [.append (rdbTmpName r.left r.size) chunk] := by
      cases p1 with
      | nil => simp at he
      | cons x t =>
        cases t with
        | nil => simp at he; rw [he.1]
        | cons y u => simp at he
    subst hp1
    intro L S hp c hcget
    obtain ⟨rfl, rfl⟩ := parseRdbName_rdbName hp
    have htmp := hr r hrdb hw
    have happ : (fs.apply (.append (rdbTmpName r.left r.size) chunk)).get (rdbTmpName r.left r.size) =
        some (r.data ++ chunk) := by
      simp only [FS.apply, htmp]; exact get_set_eq _ _ _
    have : c = r.data ++ chunk := by
      have h' : (fs.apply (.append (rdbTmpName r.left r.size) chunk)).get (rdbTmpName r.left r.size) = some c := hcget
      rw [happ] at h'; cases h'; rfl
    rw [this]
    exact hP r chunk rfl hrdb hw hc

/-! ### the committed files hold what was received -/

/-- a snapshot `(L, S)` with content `c` was completely received at some point of the script -/
def Received (ops0 : List DOp) (L S : Nat) (c : Bytes) : Prop :=
  0 < S ∧ c.length = S ∧ ∃ j, j ≤ ops0.length ∧ received (ops0.take j) = some ⟨L, S, c, false⟩

theorem recvRun_snoc (pre : List DOp) (o : DOp) : recvRun (pre ++ [o]) = recvStep (recvRun pre) o := by
  unfold recvRun; rw [List.foldl_append]; rfl

theorem scriptOps_safeP (ops0 : List DOp) : ∀ (rest pre : List DOp) (s : Disk) (fs : FS),
    ops0 = pre ++ rest → s.wf rest → TmpRel s fs → GInv s (recvRun pre) →
      ∀ p1 o p2, scriptOps s rest = p1 ++ o :: p2 → RdbSafeP (Received ops0) (fs.applyAll p1) o := by
  intro rest
  induction rest with
  | nil => intro pre s fs _ _ _ _ p1 o p2 he; simp [scriptOps] at he
  | cons op rest ih =>
    intro pre s fs hops hwf hr hg p1 o p2 he
    have hstep := fsOps_stepP (Received ops0) s fs op hwf.1 hr (by
      intro r chunk hop hrdb hw hc
      subst hop
      obtain ⟨hcur, hpos⟩ := hg.held r hrdb
      refine ⟨hpos, by simp [hc], pre.length + 1, by rw [hops]; simp, ?_⟩
      have htake : ops0.take (pre.length + 1) = pre ++ [DOp.rdbAppend chunk] := by
        have e : pre ++ DOp.rdbAppend chunk :: rest = (pre ++ [DOp.rdbAppend chunk]) ++ rest := by simp
        rw [hops, e, List.take_left' (by simp)]
      rw [htake]
      unfold received
      rw [recvRun_snoc]
      simp only [recvStep, hcur, hw, if_true]
      have : (r.data ++ chunk).length = r.size := by simp [hc]
      simp [this])
    obtain ⟨_, hrel⟩ := fsOps_step s fs op hwf.1 hr
    simp only [scriptOps] at he
    rcases append_eq_split _ _ _ _ _ he with ⟨q2, h1, _⟩ | ⟨q1, h1, h2⟩
    · exact hstep p1 o q2 h1
    · rw [h1, applyAll_append]
      refine ih (pre ++ [op]) _ _ (by rw [hops]; simp) hwf.2 hrel ?_ q1 o p2 h2
      rw [recvRun_snoc]
      exact ginv_step s _ op hg hwf.1

/-- at every crash instant of every script, every committed snapshot file holds
    exactly the bytes a snapshot writer of the script received for that name, complete -/
theorem crashImage_received (l m : Nat) (ops : List DOp) (hwf : (Disk.init l m).wf ops) (n k : Nat) :
    RdbOkP (Received ops) (crashImage [] (scriptOps (Disk.init l m) ops) n k) := by
  unfold crashImage
  exact RdbOkP_tornLast (P := Received ops) (by intro e he; cases he) _
    (rdbSafeP_take (scriptOps_safeP ops ops [] _ _ rfl hwf (tmpRel_init l m) (GInv.init l m)) n) k

end GunYu.StoreFs
