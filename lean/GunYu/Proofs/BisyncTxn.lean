/-
  Helper lemmas for C18: the cluster client's transaction batcher
  (`txnPut`, `txnPutAll`, `wire`) accepts exactly the single-slot routable
  command lists.
-/
import GunYu.Proofs.BisyncUnit

namespace GunYu.BisyncUnit
open GunYu GunYu.Slot

/-- a command `chooseNodeWithCmdAndKeys` routes through the key-spec path -/
def Plain (c : Cmd) : Prop := upperName c.name ∉ specialRouted ∧ c.args ≠ []

/-- every slot has an owner in the client's slot map -/
def Covered (cv : ClusterView) : Prop := ∀ s, s < 16384 → ∃ n, cv.owner s = some n

theorem clusterHash_lt (k : Bytes) : clusterHash k < 16384 := by
  rw [Props.C11.clusterHash_eq_spec]; exact hashSlotSpec_lt k

theorem clusterResolve_eq (cv : ClusterView) (c : Cmd) :
    clusterResolve cv c.name c.args =
      match resolverWith cv.getKeys c.name c.args with
      | .err => .error .other
      | .notOk => .ok none
      | .ok ks => .ok (some ks) := by
  unfold clusterResolve resolverWith
  cases commandKeys c.name c.args with
  | some ks => rfl
  | none =>
    simp only
    cases cv.getKeys c.name c.args with
    | err => rfl
    | none => rfl
    | keys ks =>
      simp only
      cases ks <;> rfl

theorem plain_flags {c : Cmd} (h : Plain c) :
    (upperName c.name == uPing || upperName c.name == uCluster || upperName c.name == uInfo) = false ∧
    (upperName c.name == uSelect) = false ∧ (upperName c.name == uMget) = false ∧
    (upperName c.name == uMset || upperName c.name == uMsetnx) = false ∧
    (upperName c.name == uMulti || upperName c.name == uExec) = false ∧ c.args.isEmpty = false := by
  obtain ⟨h1, h2⟩ := h
  simp only [specialRouted, List.mem_cons, List.not_mem_nil, or_false, not_or] at h1
  obtain ⟨a1, a2, a3, a4, a5, a6, a7, a8, a9⟩ := h1
  refine ⟨?_, ?_, ?_, ?_, ?_, ?_⟩
  · simp [a1, a2, a3]
  · simp [a4]
  · simp [a5]
  · simp [a6, a7]
  · simp [a8, a9]
  · cases hc : c.args with
    | nil => exact absurd hc h2
    | cons _ _ => rfl

theorem sameNodeLoop_ok_of_slot (cv : ClusterView) (_hcov : Covered cv) (n s : Nat) (hn : cv.owner s = some n)
    (ks : List Bytes) (h : ∀ k ∈ ks, clusterHash k = s) : sameNodeLoop cv n ks = .ok () := by
  induction ks with
  | nil => rfl
  | cons k ks ih =>
    have hk := h k (by simp)
    simp only [sameNodeLoop, nodeOfKey, hk, hn]
    have : (n != n) = false := by simp
    rw [this]
    simp only [Bool.false_eq_true, ↓reduceIte]
    exact ih (fun k' hk' => h k' (List.mem_cons_of_mem _ hk'))

/-- chooseNode on a plain command: an error unless the resolver names keys;
    then a route whose key list is the resolver's -/
theorem chooseNode_plain (cv : ClusterView) (anyNode : Option Nat) (c : Cmd) (hp : Plain c) :
    chooseNode cv anyNode c =
      match resolverWith cv.getKeys c.name c.args with
      | .err => .error .other
      | .notOk => .error .other
      | .ok [] => .error .other
      | .ok (k :: ks) =>
        match nodeOfKey cv k with
        | none => .error .other
        | some n =>
          match sameNodeLoop cv n ks with
          | .error e => .error e
          | .ok _ => .ok (.route n (k :: ks)) := by
  obtain ⟨f1, f2, f3, f4, f5, f6⟩ := plain_flags hp
  unfold chooseNode
  simp only [f1, f2, f3, f4, f5, f6, Bool.false_eq_true, ↓reduceIte]
  rw [clusterResolve_eq]
  cases resolverWith cv.getKeys c.name c.args with
  | err => rfl
  | notOk => rfl
  | ok ks =>
    cases ks with
    | nil => rfl
    | cons k ks => rfl

/-- batcher state after some accepted commands: slot and node fixed together -/
def TKnown (cv : ClusterView) (t : Txn) (s : Nat) : Prop :=
  t.slot = some s ∧ t.node = cv.owner s ∧ (∃ n, cv.owner s = some n)

theorem txnPut_known (cv : ClusterView) (hcov : Covered cv) (anyNode : Option Nat) (t : Txn) (s : Nat)
    (ht : TKnown cv t s) (c : Cmd) (hp : Plain c) (t' : Txn) :
    txnPut cv anyNode t c = .ok t' ↔
      Routable (resolverWith cv.getKeys) c ∧
      (∀ k ∈ resolvedKeys (resolverWith cv.getKeys) c, clusterHash k = s) ∧
      t' = { t with cmds := t.cmds ++ [c] } := by
  obtain ⟨hs, hnode, n0, hn0⟩ := ht
  unfold txnPut
  rw [chooseNode_plain cv anyNode c hp]
  have hbad : ¬ Routable (resolverWith cv.getKeys) c →
      (Routable (resolverWith cv.getKeys) c ∧
        (∀ k ∈ resolvedKeys (resolverWith cv.getKeys) c, clusterHash k = s) ∧
        t' = { t with cmds := t.cmds ++ [c] }) → False := fun hn h => hn h.1
  cases hr : resolverWith cv.getKeys c.name c.args with
  | err =>
    simp only
    constructor
    · intro h; cases h
    · intro h; exact (hbad (not_routable_of (fun ks hk => by rw [hr] at hk; cases hk)) h).elim
  | notOk =>
    simp only
    constructor
    · intro h; cases h
    · intro h; exact (hbad (not_routable_of (fun ks hk => by rw [hr] at hk; cases hk)) h).elim
  | ok keys =>
    rw [resolvedKeys_of_ok hr]
    cases keys with
    | nil =>
      simp only
      constructor
      · intro h; cases h
      · intro h
        obtain ⟨ks', hk', hne'⟩ := h.1
        rw [hr] at hk'
        cases hk'
        exact (hne' rfl).elim
    | cons k ks =>
      simp only
      have hrt : Routable (resolverWith cv.getKeys) c := ⟨k :: ks, hr, by simp⟩
      obtain ⟨nk, hnk⟩ := hcov (clusterHash k) (clusterHash_lt k)
      simp only [nodeOfKey, hnk]
      by_cases hks : ∀ k' ∈ ks, clusterHash k' = clusterHash k
      · rw [sameNodeLoop_ok_of_slot cv hcov nk (clusterHash k) hnk ks hks]
        simp only
        have hany : (ks.any fun k' => clusterHash k' != clusterHash k) = false := by
          rw [List.any_eq_false]
          intro k' hk'
          simp [hks k' hk']
        rw [hany, hs]
        simp only [Bool.false_eq_true, ↓reduceIte]
        by_cases hslot : clusterHash k = s
        · have h1 : (s != clusterHash k) = false := by simp [hslot]
          rw [h1]
          simp only [Bool.false_eq_true, ↓reduceIte]
          have hnkn : nk = n0 := by
            rw [hslot, hn0] at hnk; injection hnk with e; exact e.symm
          have hget : t.node.getD nk = n0 := by rw [hnode, hn0]; rfl
          rw [hget, hnkn]
          have h2 : (n0 != n0) = false := by simp
          rw [h2]
          simp only [Bool.false_eq_true, ↓reduceIte]
          constructor
          · intro h
            injection h with h
            refine ⟨hrt, ?_, ?_⟩
            · intro k' hk'
              rcases List.mem_cons.mp hk' with e | e
              · rw [e]; exact hslot
              · rw [hks k' e]; exact hslot
            · rw [← h]
              cases t with
              | mk node slot cmds =>
                simp only at hs hnode
                subst hs
                rw [hnode, hn0]
          · rintro ⟨_, _, h3⟩
            rw [h3]
            cases t with
            | mk node slot cmds =>
              simp only at hs hnode
              subst hs
              rw [hnode, hn0]
        · have h1 : (s != clusterHash k) = true := by
            simp only [bne_iff_ne, ne_eq]
            exact fun e => hslot e.symm
          rw [h1]
          simp only [↓reduceIte]
          constructor
          · intro h; cases h
          · rintro ⟨_, h2, _⟩
            exact absurd (h2 k (by simp)) hslot
      · -- some key of the command hashes elsewhere: refused (by chooseNode or by Put)
        constructor
        · intro h
          exfalso
          apply hks
          cases hsl : sameNodeLoop cv nk ks with
          | error e => rw [hsl] at h; cases h
          | ok _ =>
            rw [hsl] at h
            simp only at h
            by_cases hany : (ks.any fun k' => clusterHash k' != clusterHash k) = true
            · rw [hany] at h; simp only [↓reduceIte] at h; cases h
            · intro k' hk'
              have hf : (ks.any fun k' => clusterHash k' != clusterHash k) = false := by
                cases hx : (ks.any fun k' => clusterHash k' != clusterHash k) with
                | true => exact absurd hx hany
                | false => rfl
              have := List.any_eq_false.mp hf k' hk'
              simpa using this
        · rintro ⟨_, h2, _⟩
          exfalso
          apply hks
          intro k' hk'
          rw [h2 k' (by simp [hk']), h2 k (by simp)]

theorem tknown_after (cv : ClusterView) (t : Txn) (s : Nat) (ht : TKnown cv t s) (c : Cmd) :
    TKnown cv { t with cmds := t.cmds ++ [c] } s := ht

theorem txnPutAll_known (cv : ClusterView) (hcov : Covered cv) (anyNode : Option Nat) (cmds : List Cmd)
    (hp : ∀ c ∈ cmds, Plain c) (t : Txn) (s : Nat) (ht : TKnown cv t s) (t' : Txn) :
    txnPutAll cv anyNode t cmds = .ok t' ↔
      (∀ c ∈ cmds, Routable (resolverWith cv.getKeys) c) ∧
      (∀ k ∈ allKeys (resolverWith cv.getKeys) cmds, clusterHash k = s) ∧
      t' = { t with cmds := t.cmds ++ cmds } := by
  induction cmds generalizing t with
  | nil =>
    simp only [txnPutAll, allKeys, List.flatMap_nil, List.append_nil]
    constructor
    · intro h; injection h with h; exact ⟨by simp, by simp, h.symm⟩
    · rintro ⟨_, _, h⟩; rw [h]
  | cons c cs ih =>
    rw [txnPutAll, allKeys_cons]
    have hpc := hp c (by simp)
    have hpcs : ∀ c' ∈ cs, Plain c' := fun c' hc' => hp c' (List.mem_cons_of_mem _ hc')
    cases h1 : txnPut cv anyNode t c with
    | error e =>
      simp only
      constructor
      · intro h; cases h
      · rintro ⟨a, b, _⟩
        exfalso
        have : txnPut cv anyNode t c = .ok { t with cmds := t.cmds ++ [c] } := by
          rw [txnPut_known cv hcov anyNode t s ht c hpc]
          exact ⟨a c (by simp), fun k hk => b k (List.mem_append.mpr (Or.inl hk)), rfl⟩
        rw [h1] at this; cases this
    | ok t1 =>
      obtain ⟨a1, a2, a3⟩ := (txnPut_known cv hcov anyNode t s ht c hpc t1).mp h1
      simp only
      rw [a3, ih hpcs _ (tknown_after cv t s ht c)]
      constructor
      · rintro ⟨b1, b2, b3⟩
        refine ⟨?_, ?_, ?_⟩
        · intro c' hc'
          rcases List.mem_cons.mp hc' with e | e
          · rw [e]; exact a1
          · exact b1 c' e
        · intro k hk
          rcases List.mem_append.mp hk with e | e
          · exact a2 k e
          · exact b2 k e
        · rw [b3]; simp [List.append_assoc]
      · rintro ⟨b1, b2, b3⟩
        refine ⟨fun c' hc' => b1 c' (List.mem_cons_of_mem _ hc'),
          fun k hk => b2 k (List.mem_append.mpr (Or.inr hk)), ?_⟩
        rw [b3]; simp [List.append_assoc]

/-- the first accepted command fixes slot and node -/
theorem txnPut_fresh (cv : ClusterView) (hcov : Covered cv) (anyNode : Option Nat) (c : Cmd) (hp : Plain c)
    (t' : Txn) :
    txnPut cv anyNode {} c = .ok t' ↔
      ∃ k ks, resolverWith cv.getKeys c.name c.args = .ok (k :: ks) ∧
        (∀ k' ∈ ks, clusterHash k' = clusterHash k) ∧
        t' = { node := cv.owner (clusterHash k), slot := some (clusterHash k), cmds := [c] } := by
  unfold txnPut
  rw [chooseNode_plain cv anyNode c hp]
  cases hr : resolverWith cv.getKeys c.name c.args with
  | err =>
    simp only
    constructor
    · intro h; cases h
    · rintro ⟨k, ks, h, _⟩; cases h
  | notOk =>
    simp only
    constructor
    · intro h; cases h
    · rintro ⟨k, ks, h, _⟩; cases h
  | ok keys =>
    cases keys with
    | nil =>
      simp only
      constructor
      · intro h; cases h
      · rintro ⟨k, ks, h, _⟩; cases h
    | cons k ks =>
      simp only
      obtain ⟨nk, hnk⟩ := hcov (clusterHash k) (clusterHash_lt k)
      simp only [nodeOfKey, hnk]
      by_cases hks : ∀ k' ∈ ks, clusterHash k' = clusterHash k
      · rw [sameNodeLoop_ok_of_slot cv hcov nk (clusterHash k) hnk ks hks]
        simp only
        have hany : (ks.any fun k' => clusterHash k' != clusterHash k) = false := by
          rw [List.any_eq_false]
          intro k' hk'
          simp [hks k' hk']
        rw [hany]
        simp only [Bool.false_eq_true, ↓reduceIte, Option.getD_none]
        simp only [bne_self_eq_false, Bool.false_eq_true, ↓reduceIte, List.nil_append]
        constructor
        · intro h
          injection h with h
          exact ⟨k, ks, rfl, hks, by rw [← h, hnk]⟩
        · rintro ⟨k2, ks2, e, _, h3⟩
          injection e with e
          injection e with e1 e2
          subst e1; subst e2
          rw [h3, hnk]
      · constructor
        · intro h
          exfalso
          apply hks
          cases hsl : sameNodeLoop cv nk ks with
          | error e => rw [hsl] at h; cases h
          | ok _ =>
            rw [hsl] at h
            simp only at h
            by_cases hany : (ks.any fun k' => clusterHash k' != clusterHash k) = true
            · rw [hany] at h; simp only [↓reduceIte] at h; cases h
            · intro k' hk'
              have hf : (ks.any fun k' => clusterHash k' != clusterHash k) = false := by
                cases hx : (ks.any fun k' => clusterHash k' != clusterHash k) with
                | true => exact absurd hx hany
                | false => rfl
              have := List.any_eq_false.mp hf k' hk'
              simpa using this
        · rintro ⟨k2, ks2, e, h2, _⟩
          injection e with e
          injection e with e1 e2
          subst e1; subst e2
          exact absurd h2 hks

/-- The batcher accepts a non-empty list of plain commands exactly when every
    command is routable and all keys share one `cluster.hash` value; it then
    holds exactly those commands. -/
theorem txnPutAll_fresh (cv : ClusterView) (hcov : Covered cv) (anyNode : Option Nat) (c : Cmd)
    (cs : List Cmd) (hp : ∀ c' ∈ c :: cs, Plain c') (t' : Txn) :
    txnPutAll cv anyNode {} (c :: cs) = .ok t' ↔
      (∀ c' ∈ c :: cs, Routable (resolverWith cv.getKeys) c') ∧
      (∃ s, (∀ k ∈ allKeys (resolverWith cv.getKeys) (c :: cs), clusterHash k = s) ∧
        t' = { node := cv.owner s, slot := some s, cmds := c :: cs }) := by
  rw [txnPutAll]
  have hpc := hp c (by simp)
  have hpcs : ∀ c' ∈ cs, Plain c' := fun c' hc' => hp c' (List.mem_cons_of_mem _ hc')
  cases h1 : txnPut cv anyNode {} c with
  | error e =>
    simp only
    constructor
    · intro h; cases h
    · rintro ⟨a, s, b, _⟩
      exfalso
      obtain ⟨ks0, hk0, hne0⟩ := a c (by simp)
      cases ks0 with
      | nil => exact hne0 rfl
      | cons k ks =>
        have hres : resolvedKeys (resolverWith cv.getKeys) c = k :: ks := resolvedKeys_of_ok hk0
        have hb : ∀ k' ∈ k :: ks, clusterHash k' = s := by
          intro k' hk'
          apply b
          rw [allKeys_cons, hres]
          exact List.mem_append.mpr (Or.inl hk')
        have : txnPut cv anyNode {} c =
            .ok { node := cv.owner (clusterHash k), slot := some (clusterHash k), cmds := [c] } := by
          rw [txnPut_fresh cv hcov anyNode c hpc]
          refine ⟨k, ks, hk0, ?_, rfl⟩
          intro k' hk'
          rw [hb k' (List.mem_cons_of_mem _ hk'), hb k (by simp)]
        rw [h1] at this; cases this
  | ok t1 =>
    obtain ⟨k, ks, hr, hks, ht1⟩ := (txnPut_fresh cv hcov anyNode c hpc t1).mp h1
    simp only
    have hres : resolvedKeys (resolverWith cv.getKeys) c = k :: ks := resolvedKeys_of_ok hr
    have hkn : TKnown cv t1 (clusterHash k) := by
      rw [ht1]
      exact ⟨rfl, rfl, hcov _ (clusterHash_lt k)⟩
    rw [txnPutAll_known cv hcov anyNode cs hpcs t1 (clusterHash k) hkn, allKeys_cons, hres]
    constructor
    · rintro ⟨b1, b2, b3⟩
      refine ⟨?_, clusterHash k, ?_, ?_⟩
      · intro c' hc'
        rcases List.mem_cons.mp hc' with e | e
        · rw [e]; exact ⟨k :: ks, hr, by simp⟩
        · exact b1 c' e
      · intro k' hk'
        rcases List.mem_append.mp hk' with e | e
        · rcases List.mem_cons.mp e with e' | e'
          · rw [e']
          · exact hks k' e'
        · exact b2 k' e
      · rw [b3, ht1]; rfl
    · rintro ⟨b1, s, b2, b3⟩
      have hs : clusterHash k = s := b2 k (by simp)
      refine ⟨fun c' hc' => b1 c' (List.mem_cons_of_mem _ hc'), ?_, ?_⟩
      · intro k' hk'
        rw [hs]
        exact b2 k' (List.mem_append.mpr (Or.inr hk'))
      · rw [b3, ht1, hs]; rfl

end GunYu.BisyncUnit
