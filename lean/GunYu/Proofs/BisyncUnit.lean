/-
  Helper lemmas for C18: characterisation of buildUnit in cluster mode, the
  slots of the control keys, and the cluster client's re-validation.
-/
import GunYu.Model.BisyncUnit
import GunYu.Proofs.BisyncTags
import GunYu.Props.C11

namespace GunYu.BisyncUnit
open GunYu GunYu.Slot

/-! ### vocabulary -/

/-- the keys the resolver names for one command (none when it fails) -/
def resolvedKeys (r : Resolver) (c : Cmd) : List Bytes :=
  match r c.name c.args with
  | .ok ks => ks
  | _ => []

/-- all business keys of a command list -/
def allKeys (r : Resolver) (cmds : List Cmd) : List Bytes := cmds.flatMap (resolvedKeys r)

/-- the resolver determines at least one key -/
def Routable (r : Resolver) (c : Cmd) : Prop := ∃ ks, r c.name c.args = .ok ks ∧ ks ≠ []

theorem unitKeys_eq (r : Resolver) (u : RUnit) : unitKeys r u = allKeys r u.cmds := rfl

theorem resolvedKeys_of_ok {r : Resolver} {c : Cmd} {ks : List Bytes} (h : r c.name c.args = .ok ks) :
    resolvedKeys r c = ks := by
  unfold resolvedKeys; rw [h]

/-! ### the loops in cluster mode -/

theorem keysLoop_known (idx : Nat) (keys : List Bytes) (s seen : Nat) (st : LoopSt) :
    keysLoop clusterMode idx keys (s, true, seen) = .ok st ↔
      (∀ k ∈ keys, keyToSlot k = s) ∧ st = (s, true, seen + keys.length) := by
  induction keys generalizing idx seen with
  | nil =>
    simp only [keysLoop, List.not_mem_nil, false_imp_iff, implies_true, true_and, List.length_nil,
      Nat.add_zero]
    constructor
    · intro h; cases h; rfl
    · intro h; rw [h]
  | cons k ks ih =>
    rw [keysLoop]
    simp only [clusterMode, Bool.not_true, Bool.false_and, Bool.false_eq_true, ↓reduceIte,
      Option.isNone_none, Bool.not_false, Bool.true_and]
    by_cases hk : keyToSlot k = s
    · have h1 : (keyToSlot k != s) = false := by simp [hk]
      rw [h1]
      simp only [Bool.false_eq_true, ↓reduceIte]
      have := ih (idx + 1) (seen + 1)
      simp only [clusterMode] at this
      rw [this]
      constructor
      · rintro ⟨h2, h3⟩
        refine ⟨?_, ?_⟩
        · intro k' hk'
          rcases List.mem_cons.mp hk' with e | e
          · rw [e]; exact hk
          · exact h2 k' e
        · rw [h3, List.length_cons]
          have e : seen + 1 + ks.length = seen + (ks.length + 1) := by omega
          rw [e]
      · rintro ⟨h2, h3⟩
        refine ⟨fun k' hk' => h2 k' (List.mem_cons_of_mem _ hk'), ?_⟩
        rw [h3, List.length_cons]
        have e : seen + 1 + ks.length = seen + (ks.length + 1) := by omega
        rw [e]
    · have h1 : (keyToSlot k != s) = true := by simp [hk]
      rw [h1]
      simp only [↓reduceIte]
      constructor
      · intro h; cases h
      · rintro ⟨h2, _⟩
        exact absurd (h2 k (by simp)) hk

theorem keysLoop_first (k : Bytes) (ks : List Bytes) (s0 seen : Nat) :
    keysLoop clusterMode 0 (k :: ks) (s0, false, seen) =
      keysLoop clusterMode 1 ks (keyToSlot k, true, seen + 1) := by
  simp [keysLoop]

theorem allKeys_cons (r : Resolver) (c : Cmd) (cs : List Cmd) :
    allKeys r (c :: cs) = resolvedKeys r c ++ allKeys r cs := by
  simp [allKeys]

theorem not_routable_of {r : Resolver} {c : Cmd} (h : ∀ ks, r c.name c.args = .ok ks → ks = []) :
    ¬ Routable r c := by
  rintro ⟨ks, hk, hne⟩
  exact hne (h ks hk)

theorem cmdsLoop_known (r : Resolver) (cmds : List Cmd) (s seen : Nat) (st : LoopSt) :
    cmdsLoop clusterMode r cmds (s, true, seen) = .ok st ↔
      (∀ c ∈ cmds, Routable r c) ∧ (∀ k ∈ allKeys r cmds, keyToSlot k = s) ∧
      st = (s, true, seen + (allKeys r cmds).length) := by
  induction cmds generalizing seen with
  | nil =>
    simp only [cmdsLoop, allKeys, List.flatMap_nil, List.length_nil, Nat.add_zero]
    constructor
    · intro h
      refine ⟨by simp, by simp, ?_⟩
      cases h; rfl
    · rintro ⟨_, _, h⟩; rw [h]
  | cons c cs ih =>
    rw [cmdsLoop, allKeys_cons]
    have hbad : ¬ Routable r c →
        ((∀ c' ∈ c :: cs, Routable r c') ∧ (∀ k ∈ resolvedKeys r c ++ allKeys r cs, keyToSlot k = s) ∧
          st = (s, true, seen + (resolvedKeys r c ++ allKeys r cs).length)) → False :=
      fun hn h => hn (h.1 c (by simp))
    cases hr : r c.name c.args with
    | err =>
      simp only
      constructor
      · intro h; cases h
      · intro h
        exact (hbad (not_routable_of (fun ks hk => by rw [hr] at hk; cases hk)) h).elim
    | notOk =>
      simp only
      constructor
      · intro h; cases h
      · intro h
        exact (hbad (not_routable_of (fun ks hk => by rw [hr] at hk; cases hk)) h).elim
    | ok keys =>
      simp only
      rw [resolvedKeys_of_ok hr]
      cases keys with
      | nil =>
        simp only [List.isEmpty_nil, ↓reduceIte]
        constructor
        · intro h; cases h
        · intro h
          refine ((not_routable_of (r := r) (c := c) ?_) (h.1 c (by simp))).elim
          intro ks hk
          rw [hr] at hk
          cases hk; rfl
      | cons k0 ks0 =>
        have he : (k0 :: ks0).isEmpty = false := rfl
        rw [he]
        simp only [Bool.false_eq_true, ↓reduceIte]
        cases hkl : keysLoop clusterMode 0 (k0 :: ks0) (s, true, seen) with
        | error e =>
          simp only
          constructor
          · intro h; cases h
          · rintro ⟨_, h2, _⟩
            exfalso
            have : keysLoop clusterMode 0 (k0 :: ks0) (s, true, seen) =
                .ok (s, true, seen + (k0 :: ks0).length) := by
              rw [keysLoop_known]
              exact ⟨fun k hk => h2 k (List.mem_append.mpr (Or.inl hk)), rfl⟩
            rw [hkl] at this
            cases this
        | ok st' =>
          obtain ⟨hall', hst'⟩ := (keysLoop_known 0 (k0 :: ks0) s seen st').mp hkl
          simp only
          rw [hst', ih]
          constructor
          · rintro ⟨h1, h2, h3⟩
            refine ⟨?_, ?_, ?_⟩
            · intro c' hc'
              rcases List.mem_cons.mp hc' with e | e
              · rw [e]; exact ⟨k0 :: ks0, hr, by simp⟩
              · exact h1 c' e
            · intro k hk
              rcases List.mem_append.mp hk with e | e
              · exact hall' k e
              · exact h2 k e
            · rw [h3, List.length_append, Nat.add_assoc]
          · rintro ⟨h1, h2, h3⟩
            refine ⟨fun c' hc' => h1 c' (List.mem_cons_of_mem _ hc'),
              fun k hk => h2 k (List.mem_append.mpr (Or.inr hk)), ?_⟩
            rw [h3, List.length_append, Nat.add_assoc]

/-- `buildUnit` in cluster mode succeeds exactly on non-empty lists of routable
    commands whose keys all have one `KeyToSlot` value, and then returns that
    slot, its tag, and the commands unchanged. -/
theorem buildUnit_cluster_iff (r : Resolver) (cmds : List Cmd) (u : RUnit) :
    buildUnit clusterMode r cmds = .ok u ↔
      cmds ≠ [] ∧ (∀ c ∈ cmds, Routable r c) ∧ (∀ k ∈ allKeys r cmds, keyToSlot k = u.slot) ∧
      u.slotTag = slotTag u.slot ∧ u.cmds = cmds := by
  cases cmds with
  | nil =>
    simp [buildUnit]
  | cons c cs =>
    have hne : (c :: cs).isEmpty = false := rfl
    unfold buildUnit
    rw [hne]
    simp only [Bool.false_eq_true, ↓reduceIte]
    have hinit : initSt clusterMode = (0, false, 0) := rfl
    rw [hinit, cmdsLoop, allKeys_cons]
    cases hr : r c.name c.args with
    | err =>
      simp only
      constructor
      · intro h; cases h
      · rintro ⟨_, h, _⟩
        exact ((not_routable_of (r := r) (c := c) (fun ks hk => by rw [hr] at hk; cases hk)) (h c (by simp))).elim
    | notOk =>
      simp only
      constructor
      · intro h; cases h
      · rintro ⟨_, h, _⟩
        exact ((not_routable_of (r := r) (c := c) (fun ks hk => by rw [hr] at hk; cases hk)) (h c (by simp))).elim
    | ok keys =>
      simp only
      rw [resolvedKeys_of_ok hr]
      cases keys with
      | nil =>
        simp only [List.isEmpty_nil, ↓reduceIte]
        constructor
        · intro h; cases h
        · rintro ⟨_, h, _⟩
          refine ((not_routable_of (r := r) (c := c) ?_) (h c (by simp))).elim
          intro ks hk
          rw [hr] at hk
          cases hk; rfl
      | cons k ks =>
        have he : (k :: ks).isEmpty = false := rfl
        rw [he]
        simp only [Bool.false_eq_true, ↓reduceIte]
        rw [keysLoop_first]
        cases hkl : keysLoop clusterMode 1 ks (keyToSlot k, true, 0 + 1) with
        | error e =>
          simp only
          constructor
          · intro h; cases h
          · rintro ⟨_, _, h2, _⟩
            exfalso
            have hb := h2 k (by simp)
            have : keysLoop clusterMode 1 ks (keyToSlot k, true, 0 + 1) =
                .ok (keyToSlot k, true, 0 + 1 + ks.length) := by
              rw [keysLoop_known]
              refine ⟨fun k' hk' => ?_, rfl⟩
              rw [hb]
              exact h2 k' (by simp [hk'])
            rw [hkl] at this
            cases this
        | ok st' =>
          obtain ⟨hall', hst'⟩ := (keysLoop_known 1 ks (keyToSlot k) (0 + 1) st').mp hkl
          simp only
          rw [hst']
          cases hl : cmdsLoop clusterMode r cs (keyToSlot k, true, 0 + 1 + ks.length) with
          | error e =>
            simp only
            constructor
            · intro h; cases h
            · rintro ⟨_, h1, h2, _⟩
              exfalso
              have hslot : keyToSlot k = u.slot := h2 k (by simp)
              have : cmdsLoop clusterMode r cs (keyToSlot k, true, 0 + 1 + ks.length) =
                  .ok (keyToSlot k, true, 0 + 1 + ks.length + (allKeys r cs).length) := by
                rw [cmdsLoop_known]
                refine ⟨fun c' hc' => h1 c' (List.mem_cons_of_mem _ hc'), ?_, rfl⟩
                intro k' hk'
                rw [hslot]
                exact h2 k' (List.mem_append.mpr (Or.inr hk'))
              rw [hl] at this
              cases this
          | ok st =>
            obtain ⟨h1, h2, h3⟩ := (cmdsLoop_known r cs _ _ st).mp hl
            rw [h3]
            simp only
            have hseen : (0 + 1 + ks.length + (allKeys r cs).length == 0) = false := by
              simp
            rw [hseen]
            simp only [Bool.not_true, Bool.or_self, Bool.false_eq_true, ↓reduceIte]
            constructor
            · intro h
              injection h with h
              subst h
              refine ⟨by simp, ?_, ?_, rfl, rfl⟩
              · intro c' hc'
                rcases List.mem_cons.mp hc' with e | e
                · rw [e]; exact ⟨k :: ks, hr, by simp⟩
                · exact h1 c' e
              · intro k' hk'
                rcases List.mem_append.mp hk' with e | e
                · rcases List.mem_cons.mp e with e' | e'
                  · rw [e']
                  · exact hall' k' e'
                · exact h2 k' e
            · rintro ⟨_, _, h2', h4, h5⟩
              have hslot : keyToSlot k = u.slot := h2' k (by simp)
              cases u with
              | mk slot tag cmds' =>
                simp only at hslot h4 h5
                subst hslot
                subst h4
                subst h5
                rfl

/-! ### control keys -/

theorem bisyncKeyPrefix_noBrace : lbrace ∉ Gen.bisyncKeyPrefix := by decide

/-- shape shared by the generated constructors: `prefix:cp<infix ending in {>tag}post` -/
theorem ctl_slot (cp infixNoBrace tag post : Bytes) (hcp : lbrace ∉ cp) (hin : lbrace ∉ infixNoBrace)
    (ht : rbrace ∉ tag) (hne : tag ≠ []) :
    hashSlotSpec (Gen.bisyncKeyPrefix ++ [58] ++ cp ++ (infixNoBrace ++ [lbrace]) ++ tag ++ (rbrace :: post)) =
      hashSlotSpec (braced tag) := by
  have hpre : lbrace ∉ Gen.bisyncKeyPrefix ++ [58] ++ cp ++ infixNoBrace := by
    intro h
    simp only [List.mem_append, List.mem_singleton] at h
    rcases h with ((h | h) | h) | h
    · exact bisyncKeyPrefix_noBrace h
    · revert h; decide
    · exact hcp h
    · exact hin h
  have := hashSlotSpec_wrap (Gen.bisyncKeyPrefix ++ [58] ++ cp ++ infixNoBrace) tag post hpre ht hne
  rw [← this]
  congr 1
  simp [List.append_assoc]

theorem markerKey_slot (cp tag : Bytes) (hcp : lbrace ∉ cp) (ht : rbrace ∉ tag) (hne : tag ≠ []) :
    hashSlotSpec (Gen.markerKey cp tag) = hashSlotSpec (braced tag) := by
  have := ctl_slot cp [58,109,97,114,107,101,114,58] tag [] hcp (by decide) ht hne
  rw [← this]
  rfl

theorem latestKey_slot (cp tag : Bytes) (hcp : lbrace ∉ cp) (ht : rbrace ∉ tag) (hne : tag ≠ []) :
    hashSlotSpec (Gen.latestKey cp tag) = hashSlotSpec (braced tag) := by
  have := ctl_slot cp [58,108,97,116,101,115,116,58] tag [] hcp (by decide) ht hne
  rw [← this]
  rfl

theorem commitIndexKey_slot (cp tag : Bytes) (hcp : lbrace ∉ cp) (ht : rbrace ∉ tag) (hne : tag ≠ []) :
    hashSlotSpec (Gen.commitIndexKey cp tag) = hashSlotSpec (braced tag) := by
  have := ctl_slot cp [58,105,110,100,101,120,58] tag [] hcp (by decide) ht hne
  rw [← this]
  rfl

theorem commitRecordKey_slot (cp tag : Bytes) (seq : Nat) (hcp : lbrace ∉ cp) (ht : rbrace ∉ tag)
    (hne : tag ≠ []) :
    hashSlotSpec (Gen.commitRecordKey cp tag seq) = hashSlotSpec (braced tag) := by
  have := ctl_slot cp [58,99,111,109,109,105,116,58] tag (58 :: Gen.pad20 seq) hcp (by decide) ht hne
  rw [← this]
  congr 1
  simp [Gen.commitRecordKey, List.append_assoc, lbrace, rbrace]

theorem rdbRecordKey_slot (cp tag : Bytes) (seq : Nat) (hcp : lbrace ∉ cp) (ht : rbrace ∉ tag)
    (hne : tag ≠ []) :
    hashSlotSpec (Gen.rdbRecordKey cp tag seq) = hashSlotSpec (braced tag) := by
  have := ctl_slot cp [58,114,100,98,58] tag (58 :: Gen.pad20 seq) hcp (by decide) ht hne
  rw [← this]
  congr 1
  simp [Gen.rdbRecordKey, List.append_assoc, lbrace, rbrace]

/-- every control key of a committed unit hashes to the slot of the unit's tag -/
theorem controlKeys_slot (cp : Bytes) (k : CommitKind) (u : RUnit) (p : Payload) (hcp : lbrace ∉ cp)
    (hs : u.slot < 16384) (htag : u.slotTag = slotTag u.slot) :
    ∀ key ∈ controlKeys cp k u p, hashSlotSpec key = u.slot := by
  obtain ⟨h1, _, h3, h4⟩ := slotTag_spec u.slot hs
  intro key hkey
  cases k <;> simp only [controlKeys, htag, List.mem_cons, List.not_mem_nil, or_false] at hkey
  · rcases hkey with e | e
    · rw [e, markerKey_slot cp _ hcp h3 h4, h1]
    · rw [e, latestKey_slot cp _ hcp h3 h4, h1]
  · rcases hkey with e | e | e
    · rw [e, markerKey_slot cp _ hcp h3 h4, h1]
    · rw [e, commitRecordKey_slot cp _ _ hcp h3 h4, h1]
    · rw [e, commitIndexKey_slot cp _ hcp h3 h4, h1]
  · rw [hkey, markerKey_slot cp _ hcp h3 h4, h1]

/-! ### standalone mode -/

theorem keysLoop_standalone (idx : Nat) (keys : List Bytes) (s seen : Nat) :
    keysLoop standaloneMode idx keys (s, true, seen) = .ok (s, true, seen + keys.length) := by
  induction keys generalizing idx seen with
  | nil => simp [keysLoop]
  | cons k ks ih =>
    rw [keysLoop]
    simp only [standaloneMode, Bool.not_true, Bool.false_and, Bool.false_eq_true, ↓reduceIte,
      Option.isNone_some]
    have := ih (idx + 1) (seen + 1)
    simp only [standaloneMode] at this
    rw [this, List.length_cons]
    have e : seen + 1 + ks.length = seen + (ks.length + 1) := by omega
    rw [e]

theorem cmdsLoop_standalone (r : Resolver) (cmds : List Cmd) (s seen : Nat) (h : ∀ c ∈ cmds, Routable r c) :
    cmdsLoop standaloneMode r cmds (s, true, seen) = .ok (s, true, seen + (allKeys r cmds).length) := by
  induction cmds generalizing seen with
  | nil => simp [cmdsLoop, allKeys]
  | cons c cs ih =>
    obtain ⟨ks, hk, hne⟩ := h c (by simp)
    rw [cmdsLoop, hk, allKeys_cons, resolvedKeys_of_ok hk]
    simp only
    have he : ks.isEmpty = false := by
      cases ks with
      | nil => exact absurd rfl hne
      | cons _ _ => rfl
    rw [he]
    simp only [Bool.false_eq_true, ↓reduceIte]
    rw [keysLoop_standalone]
    simp only
    rw [ih _ (fun c' hc' => h c' (List.mem_cons_of_mem _ hc')), List.length_append, Nat.add_assoc]

/-- in standalone mode every non-empty list of routable commands is accepted -/
theorem buildUnit_standalone (r : Resolver) (cmds : List Cmd) (hne : cmds ≠ []) (h : ∀ c ∈ cmds, Routable r c) :
    buildUnit standaloneMode r cmds = .ok ⟨0, slotTag 0, cmds⟩ := by
  unfold buildUnit
  have he : cmds.isEmpty = false := by
    cases cmds with
    | nil => exact absurd rfl hne
    | cons _ _ => rfl
  rw [he]
  simp only [Bool.false_eq_true, ↓reduceIte]
  have hinit : initSt standaloneMode = (0, true, 0) := rfl
  rw [hinit, cmdsLoop_standalone r cmds 0 0 h]
  simp only
  have hpos : ((0 + (allKeys r cmds).length == 0) || !true) = false := by
    cases cmds with
    | nil => exact absurd rfl hne
    | cons c cs =>
      obtain ⟨ks, hk, hks⟩ := h c (by simp)
      rw [allKeys_cons, resolvedKeys_of_ok hk]
      cases ks with
      | nil => exact absurd rfl hks
      | cons _ _ => simp
  rw [hpos]
  rfl

/-! ### the builder only looks at the resolver on its commands -/

theorem cmdsLoop_congr (m : SlotMode) (r1 r2 : Resolver) (cmds : List Cmd) (st : LoopSt)
    (h : ∀ c ∈ cmds, r1 c.name c.args = r2 c.name c.args) : cmdsLoop m r1 cmds st = cmdsLoop m r2 cmds st := by
  induction cmds generalizing st with
  | nil => rfl
  | cons c cs ih =>
    rw [cmdsLoop, cmdsLoop, h c (by simp)]
    cases r2 c.name c.args with
    | err => rfl
    | notOk => rfl
    | ok keys =>
      simp only
      split
      · rfl
      · cases keysLoop m 0 keys st with
        | error e => rfl
        | ok st' => exact ih st' (fun c' hc' => h c' (List.mem_cons_of_mem _ hc'))

theorem buildUnit_congr (m : SlotMode) (r1 r2 : Resolver) (cmds : List Cmd)
    (h : ∀ c ∈ cmds, r1 c.name c.args = r2 c.name c.args) : buildUnit m r1 cmds = buildUnit m r2 cmds := by
  unfold buildUnit
  rw [cmdsLoop_congr m r1 r2 cmds _ h]

/-- two fall-backs that agree wherever the static tables do not resolve give the same resolver -/
theorem resolverWith_congr (fb1 fb2 : Bytes → List Bytes → Fb) (c : Cmd)
    (h : commandKeys c.name c.args = none → fb1 c.name c.args = fb2 c.name c.args) :
    resolverWith fb1 c.name c.args = resolverWith fb2 c.name c.args := by
  unfold resolverWith
  cases hk : commandKeys c.name c.args with
  | some ks => rfl
  | none => simp only; rw [h hk]

end GunYu.BisyncUnit
