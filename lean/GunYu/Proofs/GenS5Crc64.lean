/-
  The REGENERATED `digest.update` of pkg/digest/crc64.go (lean/GunYu/Gen/FnCrc64.lean, translated
  from /repo's Go source on every run by harness/extract/gofn*.go, generator `gofn_crc64`) equals
  the two hand-written table-driven CRC64 models: `Rdb.crc64TabFrom` (C03/C04: the DUMP footer and
  the snapshot checksum) and `StoreFs.crc64` (C08: the segment header and the snapshot footer of
  the disk cache). Side condition: `len(p) < 2^63 - 1` (the range counter never wraps).
-/
import GunYu.Model.Rdb.Crc64
import GunYu.Props.C11Gen
import GunYu.Gen.FnCrc64

namespace GunYu.Proofs.GenS5
open GunYu GunYu.Gen
open GunYu.Props.C11 (index_nat lt_len_iff addI_nat)

theorem crc64_table_size : Gen.crc64Table.size = 256 := by decide +kernel

theorem arrIdx_crc64 (n : Nat) (h : n < 256) :
    GoSem.arrIdx Gen.crc64Table n = some (Gen.crc64Table.getD n 0#64) := by
  unfold GoSem.arrIdx
  have : n < Gen.crc64Table.size := by rw [crc64_table_size]; exact h
  simp [Array.getD, this]

/-- `byte(crc) ^ b` (Go, in uint8) is `(crc ^ uint64(b)) & 0xFF` (the hand models, in uint64) -/
theorem crc64_index_eq (crc : BitVec 64) (b : UInt8) :
    ((GoSem.bvToU8 crc) ^^^ b).toNat = ((crc ^^^ (b.toBitVec.setWidth 64)) &&& 0xFF#64).toNat := by
  have h1 : ((GoSem.bvToU8 crc) ^^^ b).toNat = ((crc.setWidth 8) ^^^ b.toBitVec).toNat := rfl
  rw [h1]
  have hm : ∀ i, i < 8 → (0xFF#64).getLsbD i = true := by decide
  have h2 : (crc.setWidth 8) ^^^ b.toBitVec = ((crc ^^^ (b.toBitVec.setWidth 64)) &&& 0xFF#64).setWidth 8 := by
    ext i hi
    simp only [BitVec.getElem_xor, BitVec.getElem_setWidth, BitVec.getLsbD_and, BitVec.getLsbD_xor,
      BitVec.getLsbD_setWidth]
    simp [hm i hi, show i < 64 by omega, BitVec.getLsbD_eq_getElem hi]
  rw [h2, BitVec.toNat_setWidth]
  have : ((crc ^^^ (b.toBitVec.setWidth 64)) &&& 0xFF#64).toNat < 256 := by
    rw [BitVec.toNat_and]
    exact Nat.lt_of_le_of_lt Nat.and_le_right (by decide)
  omega

/-- the same with the operands of `^` written the other way round (a harmless rewrite of the Go line) -/
theorem crc64_index_eq' (crc : BitVec 64) (b : UInt8) :
    (b ^^^ (GoSem.bvToU8 crc)).toNat = ((crc ^^^ (b.toBitVec.setWidth 64)) &&& 0xFF#64).toNat := by
  rw [UInt8.xor_comm]; exact crc64_index_eq crc b

theorem u8_toNat_lt (x : UInt8) : x.toNat < 256 := x.toBitVec.isLt

theorem gen_crc64Update_loop (p : Bytes) (hlen : p.length < 9223372036854775807) :
    ∀ (fuel i : Nat) (d : Fn.digest), i ≤ p.length → p.length - i < fuel →
      Fn.crc64Update_loop1 p fuel d (i : Int) = some ⟨(p.drop i).foldl Rdb.crc64TabStep d.crc⟩ := by
  intro fuel
  induction fuel with
  | zero => intro i d _ h; omega
  | succ fuel ih =>
    intro i d hi hf
    unfold Fn.crc64Update_loop1
    by_cases hlt : i < p.length
    · have h1 : ((i : Int) < GoSem.len p) := (lt_len_iff p i).2 hlt
      simp only [h1, ↓reduceIte, index_nat p i hlt, Option.bind_some, bind]
      rw [arrIdx_crc64 _ (u8_toNat_lt _)]
      simp only [Option.bind_some]
      rw [addI_nat i (by omega), ih (i + 1) _ (by omega) (by omega)]
      rw [List.drop_eq_getElem_cons hlt, List.foldl_cons]
      simp only [Rdb.crc64TabStep, crc64_index_eq, crc64_index_eq', BitVec.xor_comm]
    · have h1 : ¬ ((i : Int) < GoSem.len p) := fun h => hlt ((lt_len_iff p i).1 h)
      have h2 : p.drop i = [] := List.drop_eq_nil_of_le (by omega)
      rw [if_neg h1, h2]
      rfl

/-- the regenerated `digest.update` continues the table-driven CRC64 of the hand model from the
    digest's current state, for every input and every state; it never panics -/
theorem gen_crc64Update_eq_tabFrom (d : Fn.digest) (p : Bytes) (hlen : p.length < 9223372036854775807) :
    Fn.crc64Update d p = some ⟨Rdb.crc64TabFrom d.crc p⟩ := by
  unfold Fn.crc64Update
  have h := gen_crc64Update_loop p hlen ((GoSem.len p).toNat + 1) 0 d (by omega)
    (by unfold GoSem.len; omega)
  simp only [Int.ofNat_zero, List.drop_zero] at h
  simp [h, Rdb.crc64TabFrom]

/-- two writes are one write of the concatenation (what `digest.Write` relies on) -/
theorem gen_crc64Update_append (d : Fn.digest) (p q : Bytes)
    (hp : p.length < 9223372036854775807) (hq : q.length < 9223372036854775807)
    (hpq : (p ++ q).length < 9223372036854775807) :
    (Fn.crc64Update d p).bind (fun d' => Fn.crc64Update d' q) = Fn.crc64Update d (p ++ q) := by
  rw [gen_crc64Update_eq_tabFrom d p hp, gen_crc64Update_eq_tabFrom d (p ++ q) hpq]
  simp only [Option.bind_some]
  rw [gen_crc64Update_eq_tabFrom _ q hq]
  simp [Rdb.crc64TabFrom, List.foldl_append]

-- non-vacuity: CRC-64/Jones("123456789") = 0xe9c6d914c4b8d9ca (Redis crc64.c test vector), evaluated
-- on the GENERATED definition
example : Fn.crc64Update ⟨0#64⟩ [49, 50, 51, 52, 53, 54, 55, 56, 57] = some ⟨0xe9c6d914c4b8d9ca#64⟩ := by
  decide +kernel
example : Fn.crc64Update ⟨0x1234#64⟩ [] = some ⟨0x1234#64⟩ := by decide +kernel

end GunYu.Proofs.GenS5
