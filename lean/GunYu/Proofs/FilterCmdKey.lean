/-
  Helper lemmas for C10: what the builders put into a filter, and the
  decision procedure of FilterCmdKey in closed form.
-/
import GunYu.Model.Filter
import GunYu.Proofs.FilterRange
import GunYu.Proofs.FilterTrie
import GunYu.Proofs.FilterKeys

namespace GunYu.Filter
open GunYu

/-- some non-empty configured prefix is a byte-wise prefix of the key -/
def prefixHit (ps : List Bytes) (k : Bytes) : Prop := ∃ p ∈ ps, p ≠ [] ∧ p <+: k

/-- the command name is one of the listed names in lower or in upper case -/
def cmdListed (l : List Bytes) (cmd : Bytes) : Prop := ∃ b ∈ l, cmd = lower b ∨ cmd = upper b

/-! ### fields of the built filters -/

theorem build_prefBlack (c : FilterCfg) : (build c).prefBlack = insertPrefixes none c.prefBlack := rfl
theorem build_prefWhite (c : FilterCfg) : (build c).prefWhite = insertPrefixes none c.prefWhite := rfl
theorem build_slotWhite (c : FilterCfg) : (build c).slotWhite = insertSlotList none c.slotWhite := rfl
theorem build_slotBlack (c : FilterCfg) : (build c).slotBlack = insertSlotList none c.slotBlack := rfl
theorem build_cmdBlack (c : FilterCfg) : (build c).cmdBlack = insertCmds none c.cmdBlack true := rfl
theorem build_cmdWhite (c : FilterCfg) : (build c).cmdWhite = insertCmds none c.cmdWhite true := rfl
theorem build_dbBlack (c : FilterCfg) : (build c).dbBlack = c.dbBlack := by
  simp [build, KeyFilter.insertDbBlackList, KeyFilter.insertSlotBlackList,
    KeyFilter.insertSlotWhiteList, KeyFilter.insertPrefixKeyWhiteList, KeyFilter.insertPrefixKeyBlackList,
    KeyFilter.insertCmdWhiteList, KeyFilter.insertCmdBlackList]

theorem out_prefBlack (c : FilterCfg) :
    (buildOutput c).prefBlack = insertPrefixes (insertPrefixes none reservedPrefixes) c.prefBlack := rfl
theorem out_prefWhite (c : FilterCfg) : (buildOutput c).prefWhite = insertPrefixes none c.prefWhite := rfl
theorem out_slotWhite (c : FilterCfg) : (buildOutput c).slotWhite = insertSlotList none c.slotWhite := rfl
theorem out_slotBlack (c : FilterCfg) : (buildOutput c).slotBlack = insertSlotList none c.slotBlack := rfl
theorem out_cmdBlack (c : FilterCfg) :
    (buildOutput c).cmdBlack = insertCmds (insertCmds none Gen.noRouteCmds true) c.cmdBlack true := rfl
theorem out_cmdWhite (c : FilterCfg) : (buildOutput c).cmdWhite = none := rfl
theorem out_dbBlack (c : FilterCfg) : (buildOutput c).dbBlack = c.dbBlack := by
  simp [buildOutput, KeyFilter.insertDbBlackList, KeyFilter.insertSlotBlackList,
    KeyFilter.insertSlotWhiteList, KeyFilter.insertPrefixKeyWhiteList, KeyFilter.insertPrefixKeyBlackList,
    KeyFilter.insertCmdBlackList]

/-! ### the four Filter* predicates through the optional structures -/

theorem filterKey_eq (f : KeyFilter) (k : Bytes) :
    f.filterKey k = (optMatch f.prefBlack k || (f.prefWhite.isSome && !optMatch f.prefWhite k)) := by
  unfold KeyFilter.filterKey optMatch
  cases f.prefBlack <;> cases f.prefWhite <;> simp

theorem filterSlot_eq (f : KeyFilter) (k : Bytes) :
    f.filterSlot k = (optContains f.slotBlack (Slot.keyToSlot k) ||
      (f.slotWhite.isSome && !optContains f.slotWhite (Slot.keyToSlot k))) := by
  unfold KeyFilter.filterSlot optContains
  cases f.slotBlack <;> cases f.slotWhite <;> simp

theorem filterCmd_eq (f : KeyFilter) (cmd : Bytes) :
    f.filterCmd cmd = (optSearch f.cmdBlack cmd || (f.cmdWhite.isSome && !optSearch f.cmdWhite cmd)) := by
  unfold KeyFilter.filterCmd optSearch
  cases f.cmdBlack <;> cases f.cmdWhite <;> simp

theorem optMatch_prefixes (ps : List Bytes) (k : Bytes) :
    optMatch (insertPrefixes none ps) k = true ↔ prefixHit ps k := by
  rw [optMatch_iff]
  unfold prefixHit
  constructor
  · rintro ⟨p, h1, h2, h3⟩
    rw [optSearch_insertPrefixes] at h2
    rcases h2 with h2 | h2
    · exact ⟨p, h2, h1, h3⟩
    · simp [optSearch] at h2
  · rintro ⟨p, h1, h2, h3⟩
    exact ⟨p, h2, (optSearch_insertPrefixes none ps p).mpr (Or.inl h1), h3⟩

theorem optMatch_prefixes2 (ps qs : List Bytes) (k : Bytes) :
    optMatch (insertPrefixes (insertPrefixes none ps) qs) k = true ↔ prefixHit (ps ++ qs) k := by
  rw [optMatch_iff]
  unfold prefixHit
  constructor
  · rintro ⟨p, h1, h2, h3⟩
    rw [optSearch_insertPrefixes, optSearch_insertPrefixes] at h2
    rcases h2 with h2 | h2 | h2
    · exact ⟨p, List.mem_append.mpr (Or.inr h2), h1, h3⟩
    · exact ⟨p, List.mem_append.mpr (Or.inl h2), h1, h3⟩
    · simp [optSearch] at h2
  · rintro ⟨p, h1, h2, h3⟩
    refine ⟨p, h2, ?_, h3⟩
    rw [optSearch_insertPrefixes, optSearch_insertPrefixes]
    rcases List.mem_append.mp h1 with h1 | h1
    · exact Or.inr (Or.inl h1)
    · exact Or.inl h1

/-! ### FilterCmdKey in closed form -/

theorem partialProjection_eq : Gen.partialProjectionCmds = [wMset, wDel, wUnlink] := by decide

theorem allowsPartial_iff (cmd : Bytes) :
    allowsPartial cmd = true ↔ lower cmd = wMset ∨ lower cmd = wDel ∨ lower cmd = wUnlink := by
  unfold allowsPartial
  rw [partialProjection_eq]
  simp only [List.contains_cons, List.contains_nil, Bool.or_false, Bool.or_eq_true, beq_iff_eq]

/-- the key positions whose key the rules accept, in command order -/
def keptIdx (f : KeyFilter) (args : List Bytes) (idx : List Nat) : List Nat :=
  idx.filter (fun i => !f.keyRejected (args.getD i []))

theorem filterCmdKey_resolved (f : KeyFilter) (cmd : Bytes) (args : List Bytes) (idx : List Nat)
    (hr : f.hasKeyRules = true) (hidx : keyIndexes cmd args = some idx) :
    f.filterCmdKey cmd args =
      (if (keptIdx f args idx).length == idx.length then some args
       else if (keptIdx f args idx).isEmpty then none
       else if !allowsPartial cmd then none
       else if lower cmd == wDel || lower cmd == wUnlink then
         some ((keptIdx f args idx).map (fun i => args.getD i []))
       else if lower cmd == wMset then
         if (keptIdx f args idx).any (fun i => i + 1 ≥ args.length) then none
         else some ((keptIdx f args idx).flatMap (fun i => [args.getD i [], args.getD (i + 1) []]))
       else none) := by
  have hin := (keyIndexes_inRange hidx).2
  have hany : idx.any (fun i => decide (i ≥ args.length)) = false := by
    rw [List.any_eq_false]
    intro i hi
    have := hin i hi
    simp; omega
  unfold KeyFilter.filterCmdKey
  simp only [hr, Bool.not_true, Bool.false_eq_true, if_false, hidx, hany, keptIdx]
  rfl

theorem keptIdx_length_iff (f : KeyFilter) (args : List Bytes) (idx : List Nat) :
    ((keptIdx f args idx).length == idx.length) = true ↔ keptIdx f args idx = idx := by
  unfold keptIdx
  rw [beq_iff_eq, List.length_filter_eq_length_iff, List.filter_eq_self]

theorem filterCmdKey_all (f : KeyFilter) (cmd : Bytes) (args : List Bytes) (idx : List Nat)
    (hr : f.hasKeyRules = true) (hidx : keyIndexes cmd args = some idx)
    (hk : keptIdx f args idx = idx) : f.filterCmdKey cmd args = some args := by
  rw [filterCmdKey_resolved f cmd args idx hr hidx, if_pos ((keptIdx_length_iff f args idx).mpr hk)]

theorem filterCmdKey_none (f : KeyFilter) (cmd : Bytes) (args : List Bytes) (idx : List Nat)
    (hr : f.hasKeyRules = true) (hidx : keyIndexes cmd args = some idx)
    (hk : keptIdx f args idx = []) : f.filterCmdKey cmd args = none := by
  have hne := (keyIndexes_inRange hidx).1
  have h1 : ¬ ((keptIdx f args idx).length == idx.length) = true := by
    rw [keptIdx_length_iff, hk]; exact fun h => hne h.symm
  rw [filterCmdKey_resolved f cmd args idx hr hidx, if_neg h1, hk]
  simp

theorem filterCmdKey_some (f : KeyFilter) (cmd : Bytes) (args : List Bytes) (idx : List Nat)
    (hr : f.hasKeyRules = true) (hidx : keyIndexes cmd args = some idx)
    (hk1 : keptIdx f args idx ≠ idx) (hk2 : keptIdx f args idx ≠ []) :
    f.filterCmdKey cmd args =
      (if lower cmd = wDel ∨ lower cmd = wUnlink then
         some ((keptIdx f args idx).map (fun i => args.getD i []))
       else if lower cmd = wMset then
         if ∃ i ∈ keptIdx f args idx, args.length ≤ i + 1 then none
         else some ((keptIdx f args idx).flatMap (fun i => [args.getD i [], args.getD (i + 1) []]))
       else none) := by
  have h1 : ¬ ((keptIdx f args idx).length == idx.length) = true := by
    rw [keptIdx_length_iff]; exact hk1
  have h2 : ¬ (keptIdx f args idx).isEmpty = true := by simpa using hk2
  rw [filterCmdKey_resolved f cmd args idx hr hidx, if_neg h1, if_neg h2]
  by_cases hd : lower cmd = wDel ∨ lower cmd = wUnlink
  · have hp : allowsPartial cmd = true := (allowsPartial_iff cmd).mpr (Or.inr hd)
    have hb : (lower cmd == wDel || lower cmd == wUnlink) = true := by
      simpa [Bool.or_eq_true, beq_iff_eq] using hd
    simp only [hp, Bool.not_true, Bool.false_eq_true, if_false, hb, if_true, if_pos hd]
  · have hb : (lower cmd == wDel || lower cmd == wUnlink) = false := by
      cases hbb : (lower cmd == wDel || lower cmd == wUnlink) with
      | false => rfl
      | true => exact absurd (by simpa [Bool.or_eq_true, beq_iff_eq] using hbb) hd
    rw [if_neg hd]
    by_cases hm : lower cmd = wMset
    · have hp : allowsPartial cmd = true := (allowsPartial_iff cmd).mpr (Or.inl hm)
      have hmb : (lower cmd == wMset) = true := by simpa using hm
      simp only [hp, Bool.not_true, Bool.false_eq_true, if_false, hb, hmb, if_true, if_pos hm,
        List.any_eq_true, decide_eq_true_eq, ge_iff_le]
    · have hmb : (lower cmd == wMset) = false := by simpa using hm
      simp only [hb, hmb, Bool.false_eq_true, if_false, if_neg hm]
      split <;> rfl

end GunYu.Filter
