/-
  CRC-64/Jones as the repo computes it detects every single-byte change:
  two byte strings of equal length that differ in exactly one position have
  different checksums. (One shift-register step is injective because the
  reflected polynomial has its top bit set; hence the per-byte update is
  injective in the state and in the byte.) Used by C04 `alteration_detected`.

  Builds on C03's `crc64TabStep_eq_specStep` (table-driven step = bitwise step).
-/
import GunYu.Proofs.Rdb.Crc64

namespace GunYu.Rdb

theorem jonesPolyRev_msb : jonesPolyRev[63] = true := by
  rw [jonesPolyRev_val]; decide

theorem shr1_msb (x : BitVec 64) : (x >>> 1)[63] = false := by
  rw [BitVec.getElem_ushiftRight]
  apply BitVec.getLsbD_of_ge; omega

/-- a register is determined by its low bit and the rest -/
theorem eq_of_lsb_shr1 (x y : BitVec 64) (h0 : x[0] = y[0]) (h1 : x >>> 1 = y >>> 1) : x = y := by
  ext i hi
  cases i with
  | zero => exact h0
  | succ j =>
    have := congrArg (fun v => v.getLsbD j) h1
    simp only [BitVec.getLsbD_ushiftRight] at this
    have e : 1 + j = j + 1 := by omega
    rw [e] at this
    rw [← BitVec.getLsbD_eq_getElem hi, ← BitVec.getLsbD_eq_getElem hi]
    exact this

theorem xor_right_cancel64 (a b c : BitVec 64) (h : a ^^^ c = b ^^^ c) : a = b := by
  have := congrArg (· ^^^ c) h
  simp only [BitVec.xor_assoc, BitVec.xor_self, BitVec.xor_zero] at this
  exact this

theorem xor_left_cancel64 (a b c : BitVec 64) (h : c ^^^ a = c ^^^ b) : a = b := by
  rw [BitVec.xor_comm c a, BitVec.xor_comm c b] at h
  exact xor_right_cancel64 a b c h

theorem crc64BitStep_inj (x y : BitVec 64) (h : crc64BitStep x = crc64BitStep y) : x = y := by
  unfold crc64BitStep at h
  cases hx : x[0] <;> cases hy : y[0] <;> simp only [hx, hy, if_true, if_false, Bool.false_eq_true] at h
  · exact eq_of_lsb_shr1 x y (by rw [hx, hy]) h
  · exfalso
    have := congrArg (fun v => v[63]) h
    simp only [BitVec.getElem_xor, shr1_msb, jonesPolyRev_msb] at this
    cases this
  · exfalso
    have := congrArg (fun v => v[63]) h
    simp only [BitVec.getElem_xor, shr1_msb, jonesPolyRev_msb] at this
    cases this
  · exact eq_of_lsb_shr1 x y (by rw [hx, hy]) (xor_right_cancel64 _ _ _ h)

theorem crc64BitStep8_inj (x y : BitVec 64) (h : crc64BitStep8 x = crc64BitStep8 y) : x = y := by
  unfold crc64BitStep8 at h
  exact crc64BitStep_inj _ _ (crc64BitStep_inj _ _ (crc64BitStep_inj _ _ (crc64BitStep_inj _ _
    (crc64BitStep_inj _ _ (crc64BitStep_inj _ _ (crc64BitStep_inj _ _ (crc64BitStep_inj _ _ h)))))))

/-- the per-byte update is injective in the state … -/
theorem crc64TabStep_inj_state (s s' : BitVec 64) (b : UInt8) (h : crc64TabStep s b = crc64TabStep s' b) : s = s' := by
  rw [crc64TabStep_eq_specStep, crc64TabStep_eq_specStep] at h
  exact xor_right_cancel64 _ _ _ (crc64BitStep8_inj _ _ h)

theorem byte_setWidth_inj (x y : UInt8) (h : x.toBitVec.setWidth 64 = y.toBitVec.setWidth 64) : x = y := by
  have := congrArg BitVec.toNat h
  simp only [BitVec.toNat_setWidth] at this
  have hx : x.toBitVec.toNat < 256 := x.toBitVec.isLt
  have hy : y.toBitVec.toNat < 256 := y.toBitVec.isLt
  rw [Nat.mod_eq_of_lt (by omega), Nat.mod_eq_of_lt (by omega)] at this
  exact UInt8.toNat_inj.mp this

/-- … and in the byte -/
theorem crc64TabStep_inj_byte (s : BitVec 64) (x y : UInt8) (h : crc64TabStep s x = crc64TabStep s y) : x = y := by
  rw [crc64TabStep_eq_specStep, crc64TabStep_eq_specStep] at h
  exact byte_setWidth_inj x y (xor_left_cancel64 _ _ _ (crc64BitStep8_inj _ _ h))

theorem crc64TabFrom_inj_state (z : Bytes) : ∀ (s s' : BitVec 64), crc64TabFrom s z = crc64TabFrom s' z → s = s' := by
  induction z with
  | nil => intro s s' h; exact h
  | cons b z ih =>
    intro s s' h
    simp only [crc64TabFrom, List.foldl_cons] at h
    exact crc64TabStep_inj_state s s' b (ih _ _ h)

/-- **single-byte change ⇒ different CRC64** -/
theorem crc64Tab_single_byte (a z : Bytes) (x y : UInt8) (hxy : x ≠ y) :
    crc64Tab (a ++ x :: z) ≠ crc64Tab (a ++ y :: z) := by
  intro h
  unfold crc64Tab at h
  rw [crc64TabFrom_append, crc64TabFrom_append] at h
  simp only [crc64TabFrom, List.foldl_cons] at h
  have := crc64TabFrom_inj_state z _ _ h
  exact hxy (crc64TabStep_inj_byte _ x y this)

end GunYu.Rdb
