/-
  Helper lemmas for C10, range lists (pkg/filter/range.go model).
-/
import GunYu.Model.Filter

namespace GunYu.Filter

/-- sorted by left bound -/
def SortedL (xs : List (Nat × Nat)) : Prop := xs.Pairwise (fun a b => a.1 ≤ b.1)

theorem mem_insertSorted (l r : Nat) (xs : List (Nat × Nat)) (p : Nat × Nat) :
    p ∈ insertSorted l r xs ↔ p = (l, r) ∨ p ∈ xs := by
  induction xs with
  | nil => simp [insertSorted]
  | cons x rest ih =>
    obtain ⟨a, b⟩ := x
    unfold insertSorted
    split
    · simp
    · simp only [List.mem_cons, ih]
      constructor
      · rintro (h | h | h) <;> simp [h]
      · rintro (h | h | h) <;> simp [h]

theorem sorted_insertSorted (l r : Nat) (xs : List (Nat × Nat)) (h : SortedL xs) :
    SortedL (insertSorted l r xs) := by
  induction xs with
  | nil => simp [insertSorted, SortedL]
  | cons x rest ih =>
    obtain ⟨a, b⟩ := x
    unfold SortedL at h ih ⊢
    rw [List.pairwise_cons] at h
    unfold insertSorted
    split
    · rename_i hgt
      rw [List.pairwise_cons, List.pairwise_cons]
      refine ⟨?_, h.1, h.2⟩
      intro q hq
      rcases List.mem_cons.mp hq with hq | hq
      · subst hq; exact Nat.le_of_lt hgt
      · have := h.1 q hq
        simp only at this ⊢
        omega
    · rename_i hle
      rw [List.pairwise_cons]
      refine ⟨?_, ih h.2⟩
      intro q hq
      rcases (mem_insertSorted l r rest q).mp hq with hq | hq
      · subst hq; simp only; omega
      · exact h.1 q hq

theorem scanRanges_iff (xs : List (Nat × Nat)) (s : Nat) (h : SortedL xs) :
    scanRanges xs s = true ↔ ∃ p ∈ xs, p.1 ≤ s ∧ s ≤ p.2 := by
  induction xs with
  | nil => simp [scanRanges]
  | cons x rest ih =>
    obtain ⟨a, b⟩ := x
    unfold SortedL at h ih
    rw [List.pairwise_cons] at h
    unfold scanRanges
    split
    · rename_i hgt
      constructor
      · intro hf; cases hf
      · rintro ⟨p, hp, h1, _⟩
        rcases List.mem_cons.mp hp with hp | hp
        · subst hp; simp only at h1; omega
        · have := h.1 p hp; simp only at this; omega
    · rename_i hle
      split
      · rename_i hsb
        constructor
        · intro _; exact ⟨(a, b), List.mem_cons_self, by simp only; omega, hsb⟩
        · intro _; rfl
      · rename_i hsb
        rw [ih h.2]
        constructor
        · rintro ⟨p, hp, h1⟩; exact ⟨p, List.mem_cons_of_mem _ hp, h1⟩
        · rintro ⟨p, hp, h1, h2⟩
          rcases List.mem_cons.mp hp with hp | hp
          · subst hp; simp only at h2; omega
          · exact ⟨p, hp, h1, h2⟩

/-- invariant of every reachable range list -/
structure RangeList.WF (rl : RangeList) : Prop where
  sorted : SortedL rl.list
  minLeft : rl.minLeft = 0
  maxRight : ∀ p ∈ rl.list, p.2 ≤ rl.maxRight

theorem RangeList.wf_empty : RangeList.empty.WF :=
  ⟨by simp [RangeList.empty, SortedL], rfl, by simp [RangeList.empty]⟩

theorem RangeList.wf_insert (rl : RangeList) (l r : Nat) (h : rl.WF) : (rl.insert l r).WF := by
  unfold RangeList.insert
  split
  · refine ⟨sorted_insertSorted l r _ h.sorted, ?_, ?_⟩
    · simp only [h.minLeft]; split <;> omega
    · intro p hp
      simp only at hp ⊢
      rcases (mem_insertSorted l r _ p).mp hp with hp | hp
      · subst hp; simp only; split <;> omega
      · have := h.maxRight p hp; split <;> omega
  · exact h

theorem RangeList.mem_insert (rl : RangeList) (l r : Nat) (p : Nat × Nat) :
    p ∈ (rl.insert l r).list ↔ (p = (l, r) ∧ l ≤ r) ∨ p ∈ rl.list := by
  unfold RangeList.insert
  split
  · rename_i h; simp only [mem_insertSorted]; constructor
    · rintro (h1 | h1); exact Or.inl ⟨h1, h⟩; exact Or.inr h1
    · rintro (h1 | h1); exact Or.inl h1.1; exact Or.inr h1
  · rename_i h; constructor
    · intro h1; exact Or.inr h1
    · rintro (h1 | h1); exact absurd h1.2 h; exact h1

theorem RangeList.contains_iff (rl : RangeList) (s : Nat) (h : rl.WF) :
    rl.contains s = true ↔ ∃ p ∈ rl.list, p.1 ≤ s ∧ s ≤ p.2 := by
  unfold RangeList.contains
  split
  · rename_i he
    have : rl.list = [] := by simpa using he
    simp [this]
  · split
    · rename_i hb
      constructor
      · intro hf; cases hf
      · rintro ⟨p, hp, h1, h2⟩
        have := h.maxRight p hp
        have hm := h.minLeft
        simp only [Bool.or_eq_true, decide_eq_true_eq] at hb
        omega
    · exact scanRanges_iff _ _ h.sorted

theorem RangeList.wf_foldl (rs : List (Nat × Nat)) (rl : RangeList) (h : rl.WF) :
    (rs.foldl (fun rl p => rl.insert p.1 p.2) rl).WF := by
  induction rs generalizing rl with
  | nil => exact h
  | cons x rest ih => exact ih _ (RangeList.wf_insert rl x.1 x.2 h)

theorem RangeList.mem_foldl (rs : List (Nat × Nat)) (rl : RangeList) (p : Nat × Nat) :
    p ∈ (rs.foldl (fun rl p => rl.insert p.1 p.2) rl).list ↔ (p ∈ rs ∧ p.1 ≤ p.2) ∨ p ∈ rl.list := by
  induction rs generalizing rl with
  | nil => simp
  | cons x rest ih =>
    simp only [List.foldl_cons, ih, RangeList.mem_insert, List.mem_cons]
    constructor
    · rintro (⟨h1, h2⟩ | ⟨h1, h2⟩ | h1)
      · exact Or.inl ⟨Or.inr h1, h2⟩
      · subst h1; exact Or.inl ⟨Or.inl rfl, h2⟩
      · exact Or.inr h1
    · rintro (⟨h1 | h1, h2⟩ | h1)
      · subst h1; exact Or.inr (Or.inl ⟨rfl, h2⟩)
      · exact Or.inl ⟨h1, h2⟩
      · exact Or.inr (Or.inr h1)

/-! ### configuration entries -/

/-- what one configured entry denotes: `[x]` is the slot x, `[l, r]` with
    `l ≤ r` the range; reversed and malformed entries denote nothing. -/
def entryRange? : List Nat → Option (Nat × Nat)
  | [x] => some (x, x)
  | [x, y] => if x ≤ y then some (x, y) else none
  | _ => none

theorem wf_insertSlotEntries (es : List (List Nat)) (rl : RangeList) (h : rl.WF) :
    (insertSlotEntries rl es).WF := by
  induction es generalizing rl with
  | nil => exact h
  | cons e rest ih =>
    match e with
    | [] => simp only [insertSlotEntries]; exact ih _ h
    | [x] => simp only [insertSlotEntries]; exact ih _ (RangeList.wf_insert _ _ _ h)
    | [x, y] =>
      simp only [insertSlotEntries]
      split
      · exact ih _ h
      · exact ih _ (RangeList.wf_insert _ _ _ h)
    | _ :: _ :: _ :: _ => simp only [insertSlotEntries]; exact ih _ h

theorem mem_insertSlotEntries (es : List (List Nat)) (rl : RangeList) (p : Nat × Nat) :
    p ∈ (insertSlotEntries rl es).list ↔ (∃ e ∈ es, entryRange? e = some p) ∨ p ∈ rl.list := by
  induction es generalizing rl with
  | nil => simp [insertSlotEntries]
  | cons e rest ih =>
    match e with
    | [] =>
      simp only [insertSlotEntries, ih, List.mem_cons, exists_eq_or_imp, entryRange?]
      simp
    | [x] =>
      simp only [insertSlotEntries, ih, List.mem_cons, exists_eq_or_imp, entryRange?, RangeList.mem_insert]
      constructor
      · rintro (h | ⟨h, _⟩ | h)
        · exact Or.inl (Or.inr h)
        · exact Or.inl (Or.inl (by rw [h]))
        · exact Or.inr h
      · rintro ((h | h) | h)
        · exact Or.inr (Or.inl ⟨by simpa using h.symm, Nat.le_refl _⟩)
        · exact Or.inl h
        · exact Or.inr (Or.inr h)
    | [x, y] =>
      by_cases hxy : x > y
      · simp only [insertSlotEntries, hxy, if_true, ih, List.mem_cons, exists_eq_or_imp, entryRange?]
        have : ¬ x ≤ y := by omega
        simp [this]
      · simp only [insertSlotEntries, hxy, if_false, ih, List.mem_cons, exists_eq_or_imp, entryRange?,
          RangeList.mem_insert]
        have hle : x ≤ y := by omega
        simp only [hle, if_true]
        constructor
        · rintro (h | ⟨h, _⟩ | h)
          · exact Or.inl (Or.inr h)
          · exact Or.inl (Or.inl (by rw [h]))
          · exact Or.inr h
        · rintro ((h | h) | h)
          · exact Or.inr (Or.inl ⟨by simpa using h.symm, trivial⟩)
          · exact Or.inl h
          · exact Or.inr (Or.inr h)
    | _ :: _ :: _ :: _ =>
      simp only [insertSlotEntries, ih, List.mem_cons, exists_eq_or_imp, entryRange?]
      simp

/-- the slot is in the union of what the configured entries denote -/
def slotIn (entries : List (List Nat)) (s : Nat) : Prop :=
  ∃ e ∈ entries, ∃ l r, entryRange? e = some (l, r) ∧ l ≤ s ∧ s ≤ r

/-- lookup in the list built from a configuration ("not configured" = `none`) -/
def optContains (o : Option RangeList) (s : Nat) : Bool :=
  match o with
  | some rl => rl.contains s
  | none => false

theorem optContains_insertSlotList (es : List (List Nat)) (s : Nat) :
    optContains (insertSlotList none es) s = true ↔ slotIn es s := by
  unfold insertSlotList
  split
  · rename_i he
    have : es = [] := by simpa using he
    subst this
    simp [optContains, slotIn]
  · simp only [optContains, Option.getD_none]
    rw [RangeList.contains_iff _ _ (wf_insertSlotEntries es _ RangeList.wf_empty)]
    constructor
    · rintro ⟨p, hp, h1, h2⟩
      rcases (mem_insertSlotEntries es _ p).mp hp with ⟨e, he, hr⟩ | hp
      · exact ⟨e, he, p.1, p.2, hr, h1, h2⟩
      · simp [RangeList.empty] at hp
    · rintro ⟨e, he, l, r, hr, h1, h2⟩
      exact ⟨(l, r), (mem_insertSlotEntries es _ _).mpr (Or.inl ⟨e, he, hr⟩), h1, h2⟩

theorem isSome_insertSlotList (es : List (List Nat)) :
    (insertSlotList none es).isSome = true ↔ es ≠ [] := by
  unfold insertSlotList
  split
  · rename_i he
    have : es = [] := by simpa using he
    simp [this]
  · rename_i he
    have : es ≠ [] := by simpa using he
    simp [this]

end GunYu.Filter
