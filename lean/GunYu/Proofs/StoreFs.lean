/-
  Helper lemmas for C08: what `reopen` rebuilds from an arbitrary directory
  image, what `serve` returns from it, checksum verification of closed
  segments, and the file operations that keep a directory truthful.
-/
import GunYu.Model.StoreFs
import GunYu.Proofs.StoreDisk

namespace GunYu.StoreFs
open GunYu GunYu.Store

/-! ### the re-opened index -/

theorem reopen_segs (fs : FS) : (reopen fs).segs = contigRun (sortSegs (scanSegs fs)) := rfl

theorem reopen_contig (fs : FS) : Contig (reopen fs).segs := by
  rw [reopen_segs]; exact contigRun_contig _

/-- the run is maximal: the segment just before it (if any) does not connect -/
theorem contigRun_maximal (l : List DSeg) :
    ∀ pre, l = pre ++ contigRun l → pre ≠ [] →
      ∃ a f, pre.getLast? = some a ∧ (contigRun l).head? = some f ∧ a.right ≠ f.left := by
  induction l with
  | nil => intro pre h; simp [contigRun] at h; intro hne; exact absurd h hne
  | cons a t ih =>
    cases t with
    | nil =>
      intro pre h hne
      simp [contigRun] at h
      exact absurd h hne
    | cons b u =>
      intro pre h hne
      simp only [contigRun] at h ⊢
      split at h
      · -- everything kept: `pre` must be empty
        rename_i hc
        have h2 := congrArg List.length h
        simp only [List.length_append, List.length_cons] at h2
        have := hc.1
        simp only [List.length_cons] at this
        exact absurd (List.eq_nil_of_length_eq_zero (by omega)) hne
      · rename_i hc
        simp only [hc, if_false]
        -- `a` is cut off; either the tail run is the whole tail (then `a` is
        -- the last dropped one) or the gap is further right
        cases pre with
        | nil => exact absurd rfl hne
        | cons p ps =>
          simp only [List.cons_append, List.cons.injEq] at h
          obtain ⟨hp, hrest⟩ := h
          subst hp
          by_cases hps : ps = []
          · subst hps
            simp at hrest
            have hfull : (contigRun (b :: u)).length = (b :: u).length := by rw [← hrest]
            have hnot : ¬ a.right = b.left := by
              intro e; exact hc ⟨hfull, e⟩
            refine ⟨a, b, rfl, ?_, hnot⟩
            rw [← hrest]; rfl
          · obtain ⟨x, f, hx, hf, hne'⟩ := ih ps hrest hps
            refine ⟨x, f, ?_, hf, hne'⟩
            cases ps with
            | nil => exact absurd rfl hps
            | cons q qs => simpa [List.getLast?_cons_cons] using hx

/-! ### truthful directories -/

/-- a segment holds the source's bytes at its offsets -/
def SegTrue (src : Nat → UInt8) (g : DSeg) : Prop :=
  ∀ i b, g.data[i]? = some b → b = src (g.left + i)

/-- every stream file `<l>.aof` of the directory holds, after its header, a
    prefix of the bytes the source sent from offset `l` on -/
def FsTrue (src : Nat → UInt8) (fs : FS) : Prop :=
  ∀ e ∈ fs, ∀ l, parseAofName e.1 = some l →
    ∀ i b, (e.2.drop headerSize)[i]? = some b → b = src (l + i)

theorem scanSegs_true {src : Nat → UInt8} {fs : FS} (h : FsTrue src fs) :
    ∀ g ∈ scanSegs fs, SegTrue src g := by
  intro g hg
  unfold scanSegs at hg
  obtain ⟨e, he, hsome⟩ := List.mem_filterMap.mp hg
  cases hp : parseAofName e.1 with
  | none => simp [hp] at hsome
  | some l =>
    simp only [hp] at hsome
    split at hsome
    · simp at hsome; subst hsome
      intro i b hb
      exact h e he l hp i b hb
    · simp at hsome

theorem mem_insertSeg {g x : DSeg} {l : List DSeg} : x ∈ insertSeg g l ↔ x = g ∨ x ∈ l := by
  induction l with
  | nil => simp [insertSeg]
  | cons a t ih =>
    simp only [insertSeg]
    split
    · simp
    · simp [ih]; constructor
      · rintro (h | h | h) <;> simp [h]
      · rintro (h | h | h) <;> simp [h]

theorem mem_sortSegs {x : DSeg} {l : List DSeg} : x ∈ sortSegs l ↔ x ∈ l := by
  induction l with
  | nil => simp [sortSegs]
  | cons a t ih =>
    show x ∈ insertSeg a (sortSegs t) ↔ _
    rw [mem_insertSeg, ih]; simp

theorem mem_contigRun {x : DSeg} {l : List DSeg} (h : x ∈ contigRun l) : x ∈ l := by
  obtain ⟨pre, hp⟩ := contigRun_suffix l
  rw [hp]; simp [h]

theorem reopen_segs_true {src : Nat → UInt8} {fs : FS} (h : FsTrue src fs) :
    ∀ g ∈ (reopen fs).segs, SegTrue src g := by
  intro g hg
  rw [reopen_segs] at hg
  exact scanSegs_true h g (mem_sortSegs.mp (mem_contigRun hg))

/-- following contiguous, truthful segments from `off` yields the source's
    bytes from `off` on — whatever is (or is not) verified on the way -/
theorem serveFrom_true (src : Nat → UInt8) (fs : FS) (v : Bool) :
    ∀ (segs : List DSeg) (off : Nat), Contig segs → (∀ g ∈ segs, SegTrue src g) →
      (∀ g, segs.head? = some g → g.left ≤ off ∧ off ≤ g.right) →
      ∀ k b, (serveFrom fs v segs off).1[k]? = some b → b = src (off + k) := by
  intro segs
  induction segs with
  | nil => intro off _ _ _ k b hb; simp [serveFrom] at hb
  | cons g rest ih =>
    intro off hc ht hh k b hb
    obtain ⟨hl, hr⟩ := hh g rfl
    simp only [serveFrom] at hb
    cases hf : fs.get (aofName g.left) with
    | none => simp [hf] at hb
    | some file =>
      simp only [hf] at hb
      split at hb
      · simp at hb
      · have hrest : ∀ k b, (serveFrom fs v rest g.right).1[k]? = some b → b = src (g.right + k) := by
          apply ih g.right hc.tail (fun x hx => ht x (List.mem_cons_of_mem _ hx))
          intro x hx
          cases rest with
          | nil => simp at hx
          | cons y ys =>
            simp at hx; subst hx
            have := hc.1
            simp only [DSeg.right] at this ⊢
            omega
        simp only [] at hb
        have hlen : (g.data.drop (off - g.left)).length = g.right - off := by
          simp [DSeg.right]; omega
        by_cases hk : k < g.right - off
        · rw [List.getElem?_append_left (by omega)] at hb
          rw [List.getElem?_drop] at hb
          have := ht g (List.mem_cons_self) _ b hb
          rw [this]; congr 1; omega
        · rw [List.getElem?_append_right (by omega)] at hb
          have := hrest _ b hb
          rw [this, hlen]; congr 1; omega

/-! ### checksum verification of closed segments -/

theorem leBytes_length (k n : Nat) : (leBytes k n).length = k := by
  induction k generalizing n with
  | zero => rfl
  | succ k ih => simp [leBytes, ih]

theorem ofLE_leBytes (k n : Nat) : ofLE (leBytes k n) = n % 256 ^ k := by
  induction k generalizing n with
  | zero => simp [leBytes, ofLE, Nat.mod_one]
  | succ k ih =>
    simp only [leBytes, ofLE, ih]
    have h1 : (UInt8.ofNat (n % 256)).toNat = n % 256 := by
      simp [UInt8.toNat_ofNat]
    rw [h1, Nat.pow_succ, Nat.mul_comm (256 ^ k) 256, Nat.mod_mul]

theorem crc64_lt (bs : Bytes) : crc64 bs < 2 ^ 64 := by
  unfold crc64; exact UInt64.toNat_lt _

theorem closedHeader_length (data : Bytes) : (closedHeader data).length = headerSize := by
  simp [closedHeader, leBytes_length, headerSize]

/-- what the verification reads out of a file that starts with a closed header -/
theorem segVerifyOk_closed (data data' : Bytes) :
    segVerifyOk (closedHeader data ++ data') =
      (decide (data.length % 4294967296 = data'.length) && decide (crc64 data = crc64 data')) := by
  have hlen : (closedHeader data ++ data').length = headerSize + data'.length := by
    simp [closedHeader_length]
  have hsz : ((closedHeader data ++ data').drop 9).take 4 = leBytes 4 (data.length % 4294967296) := by
    simp only [closedHeader, List.cons_append, List.drop_succ_cons, List.append_assoc]
    rw [List.drop_append_of_le_length (by simp [leBytes_length]), List.drop_of_length_le (by simp [leBytes_length])]
    simp only [List.nil_append]
    rw [List.take_append_of_le_length (by simp [leBytes_length]), List.take_of_length_le (by simp [leBytes_length])]
  have hcrc : ((closedHeader data ++ data').drop 1).take 8 = leBytes 8 (crc64 data) := by
    simp only [closedHeader, List.cons_append, List.drop_succ_cons, List.drop_zero, List.append_assoc]
    rw [List.take_append_of_le_length (by simp [leBytes_length]), List.take_of_length_le (by simp [leBytes_length])]
  have hdata : (closedHeader data ++ data').drop headerSize = data' := by
    rw [List.drop_append_of_le_length (by simp [closedHeader_length]), List.drop_of_length_le (by simp [closedHeader_length])]
    rfl
  unfold segVerifyOk
  rw [hsz, hcrc, hdata, hlen, ofLE_leBytes, ofLE_leBytes]
  have h1 : headerSize ≤ headerSize + data'.length := Nat.le_add_right _ _
  have h2 : crc64 data % 256 ^ 8 = crc64 data := Nat.mod_eq_of_lt (by have := crc64_lt data; omega)
  have h3 : data.length % 4294967296 % 256 ^ 4 = data.length % 4294967296 := by
    apply Nat.mod_eq_of_lt; have := Nat.mod_lt data.length (show 0 < 4294967296 by omega); omega
  simp only [h1, h2, h3, decide_true, Bool.true_and, Nat.add_sub_cancel_left]
  rfl

/-- a segment closed by the writer passes its own verification -/
theorem segVerifyOk_written (data : Bytes) (h : data.length < 4294967296) :
    segVerifyOk (closedHeader data ++ data) = true := by
  rw [segVerifyOk_closed]; simp [Nat.mod_eq_of_lt h]

/-- a verifying reader refuses a file that fails the check before delivering
    anything from it -/
theorem serveFrom_refuses (fs : FS) (g : DSeg) (rest : List DSeg) (off : Nat) (file : Bytes)
    (hf : fs.get (aofName g.left) = some file) (hbad : segVerifyOk file = false) :
    serveFrom fs true (g :: rest) off = ([], ServeEnd.corrupt) := by
  simp [serveFrom, hf, hbad]

/-! ### snapshots: only committed files are offered -/

/-- a temporary snapshot file is never read as a snapshot -/
theorem parseRdbName_tmp (l sz : Nat) : parseRdbName (rdbTmpName l sz) = none := rfl

theorem parseRdbName_some {n : FName} {l sz : Nat} (h : parseRdbName n = some (l, sz)) : n = rdbName l sz := by
  cases n <;> simp [parseRdbName] at h
  obtain ⟨rfl, rfl⟩ := h; rfl

theorem mem_sortNames {x : FName} {l : List FName} (h : x ∈ sortNames l) : x ∈ l := by
  induction l with
  | nil => simp [sortNames] at h
  | cons a t ih =>
    have hx' : x ∈ insertName a (sortNames t) := h
    have ins : ∀ (m : List FName), x ∈ insertName a m → x = a ∨ x ∈ m := by
      intro m
      induction m with
      | nil => intro h'; simp [insertName] at h'; exact Or.inl h'
      | cons b u ihm =>
        intro h'
        simp only [insertName] at h'
        split at h'
        · simp at h'; rcases h' with h' | h' | h' <;> simp [h']
        · simp at h'
          rcases h' with h' | h'
          · simp [h']
          · rcases ihm h' with h'' | h'' <;> simp [h'']
    rcases ins _ hx' with h' | h'
    · simp [h']
    · simp [ih h']

theorem sizedRdb_some {fs : FS} {n : FName} {l sz : Nat} (h : sizedRdb fs n = some (l, sz)) :
    parseRdbName n = some (l, sz) ∧ ((fs.get n).getD []).length = sz := by
  unfold sizedRdb at h
  split at h
  · rename_i l' s' hp
    split at h
    · rename_i hl
      simp at h; obtain ⟨rfl, rfl⟩ := h
      exact ⟨hp, hl⟩
    · cases h
  · cases h

theorem scanRdb_some {fs : FS} {l sz : Nat} (h : scanRdb fs = some (l, sz)) :
    ∃ e ∈ fs, parseRdbName e.1 = some (l, sz) := by
  unfold scanRdb at h
  have hm := List.mem_of_getLast? h
  obtain ⟨n, hn, hp⟩ := List.mem_filterMap.mp hm
  obtain ⟨e, he, rfl⟩ := List.mem_map.mp (mem_sortNames hn)
  exact ⟨e, he, (sizedRdb_some hp).1⟩

/-- … and the file under that name holds exactly the announced number of bytes -/
theorem scanRdb_sized {fs : FS} {l sz : Nat} (h : scanRdb fs = some (l, sz)) :
    ((fs.get (rdbName l sz)).getD []).length = sz := by
  unfold scanRdb at h
  have hm := List.mem_of_getLast? h
  obtain ⟨n, _, hp⟩ := List.mem_filterMap.mp hm
  obtain ⟨h1, h2⟩ := sizedRdb_some hp
  have : n = rdbName l sz := by
    cases n <;> simp [parseRdbName] at h1
    obtain ⟨rfl, rfl⟩ := h1; rfl
  rw [← this]; exact h2

theorem reopen_rdb_some {fs : FS} {l sz : Nat} (h : (reopen fs).rdb = some (l, sz)) :
    scanRdb fs = some (l, sz) := by
  unfold reopen at h
  simp only [] at h
  repeat' split at h
  all_goals simp_all

/-! ### file operations that keep a directory truthful -/

/-- the content of a stream file named `n` is truthful -/
def ContentTrue (src : Nat → UInt8) (n : FName) (c : Bytes) : Prop :=
  ∀ l, parseAofName n = some l → ∀ i b, (c.drop headerSize)[i]? = some b → b = src (l + i)

theorem FsTrue_iff (src : Nat → UInt8) (fs : FS) : FsTrue src fs ↔ ∀ e ∈ fs, ContentTrue src e.1 e.2 :=
  Iff.rfl

theorem FsTrue_del {src : Nat → UInt8} {fs : FS} (h : FsTrue src fs) (n : FName) : FsTrue src (fs.del n) := by
  intro e he
  exact h e (List.mem_filter.mp he).1

theorem mem_set {fs : FS} {n : FName} {c : Bytes} {e : FName × Bytes} (he : e ∈ fs.set n c) :
    e = (n, c) ∨ e ∈ fs := by
  unfold FS.set at he
  split at he
  · obtain ⟨x, hx, rfl⟩ := List.mem_map.mp he
    split
    · left; rfl
    · right; exact hx
  · rcases List.mem_append.mp he with h | h
    · right; exact h
    · left; simpa using h

theorem FsTrue_set {src : Nat → UInt8} {fs : FS} (h : FsTrue src fs) (n : FName) (c : Bytes)
    (hc : ContentTrue src n c) : FsTrue src (fs.set n c) := by
  intro e he
  rcases mem_set he with rfl | h'
  · exact hc
  · exact h e h'

theorem get_some_mem {fs : FS} {n : FName} {c : Bytes} (h : fs.get n = some c) : (n, c) ∈ fs := by
  unfold FS.get at h
  cases hf : fs.find? (fun e => e.1 == n) with
  | none => simp [hf] at h
  | some e =>
    simp [hf] at h
    have h1 := List.mem_of_find?_eq_some hf
    have h2 := List.find?_some hf
    simp at h2
    rw [← h, ← h2]; exact h1

/-- which operations keep the directory truthful: creating, removing, rewriting
    a header (the first `headerSize` bytes), appending bytes that leave the file
    truthful, renaming onto a name that is truthful for the content -/
def OpTrue (src : Nat → UInt8) (fs : FS) : FsOp → Prop
  | .create _ => True
  | .remove _ => True
  | .pwriteHdr n hdr => hdr.length = headerSize ∧ ∀ c, fs.get n = some c → headerSize ≤ c.length
  | .append n bs => ∀ c, fs.get n = some c → ContentTrue src n (c ++ bs)
  | .rename a b => ∀ c, fs.get a = some c → ContentTrue src b c

theorem FsTrue_apply {src : Nat → UInt8} {fs : FS} (h : FsTrue src fs) (op : FsOp) (hop : OpTrue src fs op) :
    FsTrue src (fs.apply op) := by
  cases op with
  | create n =>
    apply FsTrue_set h
    intro l _ i b hb; simp at hb
  | remove n => exact FsTrue_del h n
  | append n bs =>
    simp only [FS.apply]
    cases hg : fs.get n with
    | none => exact h
    | some c => exact FsTrue_set h n _ (hop c hg)
  | pwriteHdr n hdr =>
    simp only [FS.apply]
    cases hg : fs.get n with
    | none => exact h
    | some c =>
      apply FsTrue_set h
      obtain ⟨hl, hc⟩ := hop
      have hlen := hc c hg
      have hold : ContentTrue src n c := h (n, c) (get_some_mem hg)
      intro l hp i b hb
      apply hold l hp i b
      have hd : (hdr ++ c.drop hdr.length).drop headerSize = c.drop headerSize := by
        rw [List.drop_append_of_le_length (by omega), List.drop_of_length_le (by omega), hl]; rfl
      rw [hd] at hb
      exact hb
  | rename a b =>
    simp only [FS.apply]
    cases hg : fs.get a with
    | none => exact h
    | some c => exact FsTrue_set (FsTrue_del h a) b c (hop c hg)

/-- a torn append (only the first `k` bytes reached the file) is truthful if
    the whole append would have been -/
theorem OpTrue_torn {src : Nat → UInt8} {fs : FS} {n : FName} {bs : Bytes} (k : Nat)
    (h : OpTrue src fs (.append n bs)) : OpTrue src fs (.append n (bs.take k)) := by
  intro c hc l hp i b hb
  apply h c hc l hp i b
  have hpre : (c ++ bs.take k) <+: (c ++ bs) := by
    exact (List.prefix_append_right_inj c).mpr (List.take_prefix k bs)
  have hpre2 : (c ++ bs.take k).drop headerSize <+: (c ++ bs).drop headerSize := by
    obtain ⟨t, ht⟩ := hpre
    rw [← ht]
    by_cases hl : headerSize ≤ (c ++ bs.take k).length
    · rw [List.drop_append_of_le_length hl]; exact List.prefix_append _ _
    · rw [List.drop_of_length_le (by omega)]; exact List.nil_prefix
  obtain ⟨t, ht⟩ := hpre2
  rw [← ht, List.getElem?_append_left]
  · exact hb
  · exact (List.getElem?_eq_some_iff.mp hb).1

/-- **every crash image of a truthful run is truthful**: any number of
    operations, each of which keeps the directory truthful, the last one
    possibly torn -/
theorem FsTrue_applyAll {src : Nat → UInt8} (ops : List FsOp) :
    ∀ (fs : FS), FsTrue src fs →
      (∀ (pre : List FsOp) (op : FsOp) (post : List FsOp), ops = pre ++ op :: post →
          OpTrue src (fs.applyAll pre) op) →
      FsTrue src (fs.applyAll ops) := by
  induction ops with
  | nil => intro fs h _; exact h
  | cons op rest ih =>
    intro fs h hall
    show FsTrue src ((fs.apply op).applyAll rest)
    apply ih _ (FsTrue_apply h op (hall [] op rest rfl))
    intro pre op' post he
    have := hall (op :: pre) op' post (by simp [he])
    exact this

theorem dropLast_concat_of_getLast? {α} {l : List α} {a : α} (h : l.getLast? = some a) :
    l.dropLast ++ [a] = l := by
  have hne : l ≠ [] := by intro e; rw [e] at h; simp at h
  have := List.dropLast_concat_getLast hne
  rw [List.getLast?_eq_some_getLast hne] at h
  cases h
  exact this

theorem applyAll_append (fs : FS) (a b : List FsOp) : fs.applyAll (a ++ b) = (fs.applyAll a).applyAll b := by
  unfold FS.applyAll; rw [List.foldl_append]

/-- the hypothesis "every operation is truthful where it is applied" passes to prefixes -/
theorem opsTrue_take {src : Nat → UInt8} {fs : FS} {ops : List FsOp}
    (hops : ∀ pre op post, ops = pre ++ op :: post → OpTrue src (fs.applyAll pre) op) (n : Nat) :
    ∀ pre op post, ops.take n = pre ++ op :: post → OpTrue src (fs.applyAll pre) op := by
  intro pre op post he
  apply hops pre op (post ++ ops.drop n)
  have := (List.take_append_drop n ops).symm
  rw [he] at this
  refine this.trans ?_
  simp

/-- … and a list whose last append is torn stays truthful -/
theorem FsTrue_tornLast {src : Nat → UInt8} {fs : FS} (h : FsTrue src fs) (xs : List FsOp)
    (hx : ∀ pre op post, xs = pre ++ op :: post → OpTrue src (fs.applyAll pre) op) (k : Nat) :
    FsTrue src (fs.applyAll (tornLast xs k)) := by
  unfold tornLast
  cases hl : xs.getLast? with
  | none => exact FsTrue_applyAll xs fs h hx
  | some last =>
    cases last with
    | append nm bs =>
      simp only []
      have hxs := dropLast_concat_of_getLast? hl
      rw [applyAll_append]
      have hpre : FsTrue src (fs.applyAll xs.dropLast) := by
        apply FsTrue_applyAll _ _ h
        intro pre op post he
        exact hx pre op (post ++ [.append nm bs]) (by rw [← hxs, he]; simp)
      show FsTrue src ((fs.applyAll xs.dropLast).apply (.append nm (bs.take k)))
      apply FsTrue_apply hpre
      apply OpTrue_torn k
      exact hx xs.dropLast (.append nm bs) [] hxs.symm
    | create nm => exact FsTrue_applyAll xs fs h hx
    | pwriteHdr nm hd => exact FsTrue_applyAll xs fs h hx
    | rename a b => exact FsTrue_applyAll xs fs h hx
    | remove nm => exact FsTrue_applyAll xs fs h hx

/-! ### the snapshot's final name appears only when all bytes were written -/

theorem rename_not_mem_closeLiveOps (s : Disk) (a b : FName) : FsOp.rename a b ∉ closeLiveOps s := by
  unfold closeLiveOps
  split
  · simp
  · split <;> simp

theorem rename_not_mem_resetOps (s : Disk) (a b : FName) : FsOp.rename a b ∉ resetOps s := by
  unfold resetOps
  simp only [List.mem_append, not_or]
  refine ⟨⟨?_, rename_not_mem_closeLiveOps s a b⟩, by simp⟩
  split
  · split <;> simp
  · simp

theorem rename_only_when_complete (s : Disk) (op : DOp) (a b : FName) (h : FsOp.rename a b ∈ fsOps s op) :
    ∃ r chunk, op = .rdbAppend chunk ∧ s.rdb = some r ∧ r.writing = true ∧
      r.data.length + chunk.length = r.size ∧ a = rdbTmpName r.left r.size ∧ b = rdbName r.left r.size := by
  cases op with
  | rdbAppend chunk =>
    simp only [fsOps] at h
    cases hr : s.rdb with
    | none => simp [hr] at h
    | some r =>
      simp only [hr] at h
      by_cases hw : r.writing = true
      · simp only [hw, if_true] at h
        by_cases hc : r.data.length + chunk.length = r.size
        · simp [hc] at h
          exact ⟨r, chunk, rfl, rfl, hw, hc, h.1, h.2⟩
        · simp [hc] at h
      · simp [hw] at h
  | newRdbWriter off size =>
    exfalso
    simp only [fsOps, List.mem_append] at h
    rcases h with h | h
    · exact rename_not_mem_resetOps s a b h
    · simp at h
  | rdbClose =>
    exfalso
    simp only [fsOps] at h
    split at h
    · split at h <;> simp at h
    · simp at h
  | newAofWriter off =>
    exfalso
    simp only [fsOps, List.mem_append] at h
    rcases h with h | h
    · exact rename_not_mem_closeLiveOps s a b h
    · simp at h
  | aofAppend chunk =>
    exfalso
    simp only [fsOps] at h
    split at h
    · simp at h
    · simp only [List.mem_append] at h
      rcases h with h | h
      · simp at h
      · split at h <;> simp at h
  | aofClose => exact absurd h (rename_not_mem_closeLiveOps s a b)
  | gc =>
    exfalso
    simp only [fsOps, List.mem_append] at h
    rcases h with h | h
    · split at h <;> simp at h
    · simp at h
  | setRunId id => simp [fsOps] at h
  | delRunId => simp [fsOps] at h
  | openReader rid off crcOk => simp [fsOps] at h
  | read rid n => simp [fsOps] at h
  | advAcquire rid => simp [fsOps] at h
  | advRelease rid => simp [fsOps] at h
  | closeReader rid => simp [fsOps] at h

/-! ### committed snapshot files are complete — at every crash instant of every script -/

/-- every committed snapshot file `<L>_<S>.rdb` of the directory holds `S` bytes -/
def RdbLenOk (fs : FS) : Prop :=
  ∀ e ∈ fs, ∀ L S, parseRdbName e.1 = some (L, S) → e.2.length = S

/-- operations that keep `RdbLenOk`: nothing but a rename ever produces or touches a
    committed name, and a rename onto `<L>_<S>.rdb` moves a file of `S` bytes -/
def RdbSafe (fs : FS) : FsOp → Prop
  | .create n => parseRdbName n = none
  | .append n _ => parseRdbName n = none
  | .pwriteHdr n _ => parseRdbName n = none
  | .rename a b => ∀ L S, parseRdbName b = some (L, S) → ∀ c, fs.get a = some c → c.length = S
  | .remove _ => True

theorem RdbLenOk_set {fs : FS} (h : RdbLenOk fs) (n : FName) (c : Bytes)
    (hc : ∀ L S, parseRdbName n = some (L, S) → c.length = S) : RdbLenOk (fs.set n c) := by
  intro e he L S hp
  rcases mem_set he with rfl | h'
  · exact hc L S hp
  · exact h e h' L S hp

theorem RdbLenOk_del {fs : FS} (h : RdbLenOk fs) (n : FName) : RdbLenOk (fs.del n) := by
  intro e he
  exact h e (List.mem_filter.mp he).1

theorem RdbLenOk_apply {fs : FS} (h : RdbLenOk fs) (op : FsOp) (hop : RdbSafe fs op) :
    RdbLenOk (fs.apply op) := by
  cases op with
  | create n => exact RdbLenOk_set h n [] (fun L S hp => by rw [hop] at hp; cases hp)
  | remove n => exact RdbLenOk_del h n
  | append n bs =>
    simp only [FS.apply]
    cases hg : fs.get n with
    | none => exact h
    | some c => exact RdbLenOk_set h n _ (fun L S hp => by rw [hop] at hp; cases hp)
  | pwriteHdr n hdr =>
    simp only [FS.apply]
    cases hg : fs.get n with
    | none => exact h
    | some c => exact RdbLenOk_set h n _ (fun L S hp => by rw [hop] at hp; cases hp)
  | rename a b =>
    simp only [FS.apply]
    cases hg : fs.get a with
    | none => exact h
    | some c => exact RdbLenOk_set (RdbLenOk_del h a) b c (fun L S hp => hop L S hp c hg)

theorem RdbLenOk_applyAll (ops : List FsOp) :
    ∀ (fs : FS), RdbLenOk fs →
      (∀ pre op post, ops = pre ++ op :: post → RdbSafe (fs.applyAll pre) op) →
      RdbLenOk (fs.applyAll ops) := by
  induction ops with
  | nil => intro fs h _; exact h
  | cons op rest ih =>
    intro fs h hall
    show RdbLenOk ((fs.apply op).applyAll rest)
    apply ih _ (RdbLenOk_apply h op (hall [] op rest rfl))
    intro pre op' post he
    exact hall (op :: pre) op' post (by simp [he])

theorem RdbSafe_torn {fs : FS} {n : FName} {bs : Bytes} (k : Nat) (h : RdbSafe fs (.append n bs)) :
    RdbSafe fs (.append n (bs.take k)) := h

theorem rdbSafe_take {fs : FS} {ops : List FsOp}
    (hops : ∀ pre op post, ops = pre ++ op :: post → RdbSafe (fs.applyAll pre) op) (n : Nat) :
    ∀ pre op post, ops.take n = pre ++ op :: post → RdbSafe (fs.applyAll pre) op := by
  intro pre op post he
  apply hops pre op (post ++ ops.drop n)
  have := (List.take_append_drop n ops).symm
  rw [he] at this
  refine this.trans ?_
  simp

theorem RdbLenOk_tornLast {fs : FS} (h : RdbLenOk fs) (xs : List FsOp)
    (hx : ∀ pre op post, xs = pre ++ op :: post → RdbSafe (fs.applyAll pre) op) (k : Nat) :
    RdbLenOk (fs.applyAll (tornLast xs k)) := by
  unfold tornLast
  cases hl : xs.getLast? with
  | none => exact RdbLenOk_applyAll xs fs h hx
  | some last =>
    cases last with
    | append nm bs =>
      simp only []
      have hxs := dropLast_concat_of_getLast? hl
      rw [applyAll_append]
      have hpre : RdbLenOk (fs.applyAll xs.dropLast) := by
        apply RdbLenOk_applyAll _ _ h
        intro pre op post he
        exact hx pre op (post ++ [.append nm bs]) (by rw [← hxs, he]; simp)
      show RdbLenOk ((fs.applyAll xs.dropLast).apply (.append nm (bs.take k)))
      apply RdbLenOk_apply hpre
      exact RdbSafe_torn k (hx xs.dropLast (.append nm bs) [] hxs.symm)
    | create nm => exact RdbLenOk_applyAll xs fs h hx
    | pwriteHdr nm hd => exact RdbLenOk_applyAll xs fs h hx
    | rename a b => exact RdbLenOk_applyAll xs fs h hx
    | remove nm => exact RdbLenOk_applyAll xs fs h hx

/-! #### file-system algebra -/

theorem find_map_set (l : FS) (n : FName) (c : Bytes) (h : ∃ e ∈ l, e.1 = n) :
    (l.map (fun e => if e.1 == n then (n, c) else e)).find? (fun e => e.1 == n) = some (n, c) := by
  induction l with
  | nil => obtain ⟨e, he, _⟩ := h; cases he
  | cons a t ih =>
    simp only [List.map_cons, List.find?_cons]
    by_cases ha : (a.1 == n) = true
    · simp [ha]
    · have ha' : (a.1 == n) = false := by simpa using ha
      simp only [ha', Bool.false_eq_true, if_false]
      apply ih
      obtain ⟨e, he, hen⟩ := h
      rcases List.mem_cons.mp he with h1 | h1
      · subst h1; simp [hen] at ha'
      · exact ⟨e, h1, hen⟩

theorem find_map_ne (l : FS) {n m : FName} (c : Bytes) (h : m ≠ n) :
    (l.map (fun e => if e.1 == n then (n, c) else e)).find? (fun e => e.1 == m) = l.find? (fun e => e.1 == m) := by
  induction l with
  | nil => rfl
  | cons a t ih =>
    simp only [List.map_cons, List.find?_cons]
    by_cases ha : (a.1 == n) = true
    · have han : a.1 = n := by simpa using ha
      have h1 : (a.1 == m) = false := by
        simp only [beq_eq_false_iff_ne, ne_eq]; intro e; exact h (by rw [← e, han])
      have h2 : (n == m) = false := by
        simp only [beq_eq_false_iff_ne, ne_eq]; intro e; exact h e.symm
      simp only [ha, if_true, h1, h2]
      exact ih
    · have ha' : (a.1 == n) = false := by simpa using ha
      simp only [ha', Bool.false_eq_true, if_false]
      by_cases hm : (a.1 == m) = true
      · simp [hm]
      · have hm' : (a.1 == m) = false := by simpa using hm
        simp only [hm']
        exact ih

theorem get_isSome_iff (fs : FS) (n : FName) : (fs.get n).isSome = true ↔ ∃ e ∈ fs, e.1 = n := by
  unfold FS.get
  cases hf : fs.find? (fun e => e.1 == n) with
  | none =>
    simp only [Option.map_none, Option.isSome_none, Bool.false_eq_true, false_iff]
    rintro ⟨e, he, hen⟩
    have := List.find?_eq_none.mp hf e he
    simp [hen] at this
  | some e =>
    simp only [Option.map_some, Option.isSome_some, true_iff]
    have h1 := List.mem_of_find?_eq_some hf
    have h2 := List.find?_some hf
    exact ⟨e, h1, by simpa using h2⟩

theorem get_set_eq (fs : FS) (n : FName) (c : Bytes) : (fs.set n c).get n = some c := by
  unfold FS.set
  split
  · rename_i hs
    unfold FS.get
    rw [find_map_set fs n c ((get_isSome_iff fs n).mp hs)]
    rfl
  · rename_i hs
    unfold FS.get
    have hnone : fs.find? (fun e => e.1 == n) = none := by
      cases hf : fs.find? (fun e => e.1 == n) with
      | none => rfl
      | some e =>
        exfalso; apply hs
        unfold FS.get; rw [hf]; rfl
    rw [List.find?_append, hnone]
    simp

theorem get_set_ne (fs : FS) {n m : FName} (c : Bytes) (h : m ≠ n) : (fs.set n c).get m = fs.get m := by
  unfold FS.set
  split
  · unfold FS.get
    rw [find_map_ne fs c h]
  · unfold FS.get
    rw [List.find?_append]
    cases hf : fs.find? (fun e => e.1 == m) with
    | some e => simp
    | none =>
      have : (n == m) = false := by
        simp only [beq_eq_false_iff_ne, ne_eq]; intro e; exact h e.symm
      simp [this]

theorem get_del_ne (fs : FS) {n m : FName} (h : m ≠ n) : (fs.del n).get m = fs.get m := by
  unfold FS.del FS.get
  congr 1
  induction fs with
  | nil => rfl
  | cons a t ih =>
    simp only [List.filter_cons]
    by_cases ha : (a.1 != n) = true
    · simp only [ha, if_true, List.find?_cons]
      by_cases hm : (a.1 == m) = true
      · simp [hm]
      · have hm' : (a.1 == m) = false := by simpa using hm
        simp only [hm']; exact ih
    · have han : a.1 = n := by simpa using ha
      have : (a.1 == m) = false := by
        simp only [beq_eq_false_iff_ne, ne_eq]; intro e; exact h (by rw [← e, han])
      simp only [ha, List.find?_cons, this]
      exact ih

/-! #### the writers' scripts only commit complete snapshots -/

def FsOp.names : FsOp → List FName
  | .create n => [n]
  | .append n _ => [n]
  | .pwriteHdr n _ => [n]
  | .rename a b => [a, b]
  | .remove n => [n]

theorem get_apply_other (fs : FS) (op : FsOp) (m : FName) (h : m ∉ op.names) : (fs.apply op).get m = fs.get m := by
  cases op with
  | create n => simp [FsOp.names] at h; exact get_set_ne fs [] h
  | remove n => simp [FsOp.names] at h; exact get_del_ne fs h
  | append n bs =>
    simp [FsOp.names] at h
    simp only [FS.apply]
    cases fs.get n with
    | none => rfl
    | some c => exact get_set_ne fs _ h
  | pwriteHdr n hdr =>
    simp [FsOp.names] at h
    simp only [FS.apply]
    cases fs.get n with
    | none => rfl
    | some c => exact get_set_ne fs _ h
  | rename a b =>
    simp [FsOp.names] at h
    simp only [FS.apply]
    cases fs.get a with
    | none => rfl
    | some c => rw [get_set_ne _ _ h.2, get_del_ne _ h.1]

theorem get_applyAll_other (ops : List FsOp) (fs : FS) (m : FName) (h : ∀ op ∈ ops, m ∉ op.names) :
    (fs.applyAll ops).get m = fs.get m := by
  induction ops generalizing fs with
  | nil => rfl
  | cons op rest ih =>
    show ((fs.apply op).applyAll rest).get m = _
    rw [ih _ (fun o ho => h o (List.mem_cons_of_mem _ ho)), get_apply_other fs op m (h op (by simp))]

/-- the temporary file of a snapshot being written holds exactly the bytes written so far -/
def TmpRel (s : Disk) (fs : FS) : Prop :=
  ∀ r, s.rdb = some r → r.writing = true → fs.get (rdbTmpName r.left r.size) = some r.data

/-- operations on stream files and committed snapshots: never a temporary name, never unsafe -/
def AofOrFinalOnly (ops : List FsOp) : Prop :=
  ∀ op ∈ ops, (∀ l s, rdbTmpName l s ∉ op.names) ∧ (∀ fs, RdbSafe fs op)

theorem closeLiveOps_aof (s : Disk) : AofOrFinalOnly (closeLiveOps s) := by
  intro op hop
  unfold closeLiveOps at hop
  split at hop
  · simp at hop
  · split at hop <;> (simp at hop; subst hop; exact ⟨by intro l s; simp [FsOp.names, aofName, rdbTmpName], by intro fs; simp [RdbSafe, aofName, parseRdbName]⟩)

theorem safe_of_aofOnly {ops : List FsOp} (h : AofOrFinalOnly ops) (fs : FS) :
    ∀ p1 op p2, ops = p1 ++ op :: p2 → RdbSafe (fs.applyAll p1) op := by
  intro p1 op p2 he
  exact (h op (by rw [he]; simp)).2 _

theorem tmpRel_of_aofOnly {ops : List FsOp} (h : AofOrFinalOnly ops) {s s' : Disk} {fs : FS}
    (hr : TmpRel s fs) (hrdb : ∀ r, s'.rdb = some r → r.writing = true → s.rdb = some r) :
    TmpRel s' (fs.applyAll ops) := by
  intro r hr' hw
  rw [get_applyAll_other ops fs _ (fun op hop => (h op hop).1 r.left r.size)]
  exact hr r (hrdb r hr' hw) hw

theorem parseRdbName_rdbName {l s L S : Nat} (h : parseRdbName (rdbName l s) = some (L, S)) : l = L ∧ s = S := by
  simp [parseRdbName, rdbName] at h; exact h

theorem truncateGap_rdb (rdb : Option DRdb) (segs : List DSeg) :
    (truncateGap rdb segs).1 = none ∨ (truncateGap rdb segs).1 = rdb := by
  unfold truncateGap
  simp only []
  repeat' split
  all_goals simp_all

theorem rescan_rdb_not_writing (s : Disk) : ∀ r, s.rescan.rdb = some r → r.writing = false := by
  intro r hr
  have hrdb : s.rescan.rdb = (truncateGap (match s.rdb with
      | some r => if r.final then some { r with writing := false } else none
      | none => none) (sortSegs (s.all.filter (fun g => !g.data.isEmpty)))).1 := rfl
  rw [hrdb] at hr
  rcases truncateGap_rdb (match s.rdb with
      | some r => if r.final then some { r with writing := false } else none
      | none => none) (sortSegs (s.all.filter (fun g => !g.data.isEmpty))) with h | h
  · rw [h] at hr; cases hr
  · rw [h] at hr
    split at hr
    · split at hr
      · simp at hr; subst hr; rfl
      · cases hr
    · cases hr

/-- one writer step: its file operations are safe where they are applied, and the
    temporary-file relation holds again afterwards -/
theorem fsOps_step (s : Disk) (fs : FS) (op : DOp) (hok : s.okOp op) (hr : TmpRel s fs) :
    (∀ p1 o p2, fsOps s op = p1 ++ o :: p2 → RdbSafe (fs.applyAll p1) o) ∧
    TmpRel (s.step op).1 (fs.applyAll (fsOps s op)) := by
  have nil_case : ∀ (s' : Disk), (∀ r, s'.rdb = some r → r.writing = true → s.rdb = some r) →
      (∀ p1 o p2, ([] : List FsOp) = p1 ++ o :: p2 → RdbSafe (fs.applyAll p1) o) ∧ TmpRel s' (fs.applyAll []) := by
    intro s' h
    refine ⟨fun p1 o p2 he => by simp at he, ?_⟩
    intro r hr' hw
    exact hr r (h r hr' hw) hw
  cases op with
  | newRdbWriter off size =>
    simp only [fsOps]
    constructor
    · intro p1 o p2 he
      -- every operation is a remove, a header rewrite / remove of a stream file, or the creation of the temporary file
      have hm : o ∈ resetOps s ++ [FsOp.create (rdbTmpName off size)] := by rw [he]; simp
      rcases List.mem_append.mp hm with h1 | h1
      · unfold resetOps at h1
        simp only [List.mem_append] at h1
        rcases h1 with (h1 | h1) | h1
        · split at h1
          · split at h1 <;> simp at h1
            subst h1; trivial
          · simp at h1
        · exact (closeLiveOps_aof s o h1).2 _
        · obtain ⟨n, _, rfl⟩ := List.mem_map.mp h1; trivial
      · simp at h1; subst h1; simp [RdbSafe, rdbTmpName, parseRdbName]
    · intro r hr' hw
      simp only [Disk.step] at hr'
      simp at hr'; subst hr'
      rw [applyAll_append]
      show ((fs.applyAll (resetOps s)).apply (.create (rdbTmpName off size))).get (rdbTmpName off size) = some []
      exact get_set_eq _ _ _
  | rdbAppend chunk =>
    simp only [fsOps, Disk.step]
    cases hrdb : s.rdb with
    | none => simp only []; exact nil_case s (fun r h _ => h)
    | some r =>
      simp only []
      by_cases hw : r.writing = true
      · simp only [hw, if_true]
        have htmp := hr r hrdb hw
        have happ : (fs.apply (.append (rdbTmpName r.left r.size) chunk)).get (rdbTmpName r.left r.size) =
            some (r.data ++ chunk) := by
          simp only [FS.apply, htmp]; exact get_set_eq _ _ _
        by_cases hc : r.data.length + chunk.length = r.size
        · have hc' : (r.data ++ chunk).length = r.size := by simp [hc]
          simp only [hc, hc', if_true]
          constructor
          · intro p1 o p2 he
            -- two operations: the append, then the rename
            cases p1 with
            | nil =>
              simp at he; rw [← he.1]; simp [RdbSafe, rdbTmpName, parseRdbName]
            | cons a t =>
              cases t with
              | nil =>
                simp at he
                obtain ⟨ha, ho, _⟩ := he
                subst ha; subst ho
                intro L S hp c hcget
                obtain ⟨_, hS⟩ := parseRdbName_rdbName hp
                have : c = r.data ++ chunk := by
                  have : (FS.applyAll fs [FsOp.append (rdbTmpName r.left r.size) chunk]).get (rdbTmpName r.left r.size) = some c := hcget
                  rw [show FS.applyAll fs [FsOp.append (rdbTmpName r.left r.size) chunk] = fs.apply (.append (rdbTmpName r.left r.size) chunk) from rfl, happ] at this
                  cases this; rfl
                rw [this, hc', hS]
              | cons b u => simp at he
          · intro r' hr' hw'
            simp at hr'; subst hr'; simp at hw'
        · have hc' : ¬ (r.data ++ chunk).length = r.size := by simp; exact hc
          simp only [hc, hc', if_false, List.append_nil]
          constructor
          · intro p1 o p2 he
            cases p1 with
            | nil => simp at he; rw [← he.1]; simp [RdbSafe, rdbTmpName, parseRdbName]
            | cons a t => simp at he
          · intro r' hr' hw'
            simp at hr'; subst hr'
            exact happ
      · simp only [hw]
        exact nil_case s (fun r h _ => h)
  | rdbClose =>
    simp only [fsOps, Disk.step]
    cases hrdb : s.rdb with
    | none => simp only []; exact nil_case s (fun r h _ => h)
    | some r =>
      simp only []
      by_cases hw : r.writing = true
      · simp only [hw, if_true]
        constructor
        · intro p1 o p2 he
          cases p1 with
          | nil => simp at he; rw [← he.1]; trivial
          | cons a t => simp at he
        · intro r' hr'; simp at hr'
      · simp only [hw]
        exact nil_case s (fun r h _ => h)
  | newAofWriter off =>
    have hops : AofOrFinalOnly (closeLiveOps s ++ [FsOp.create (aofName off), FsOp.append (aofName off) fixHeader]) := by
      intro o ho
      rcases List.mem_append.mp ho with h1 | h1
      · exact closeLiveOps_aof s o h1
      · simp at h1
        rcases h1 with rfl | rfl <;>
          exact ⟨by intro l s; simp [FsOp.names, aofName, rdbTmpName], by intro fs; simp [RdbSafe, aofName, parseRdbName]⟩
    simp only [fsOps]
    refine ⟨safe_of_aofOnly hops fs, tmpRel_of_aofOnly hops hr ?_⟩
    intro r hr' _
    simp only [Disk.step] at hr'
    have := (closeLive_hist s).2.2
    simpa [this] using hr'
  | aofAppend chunk =>
    simp only [fsOps]
    cases hl : s.live with
    | none =>
      simp only []
      apply nil_case
      intro r hr' _
      simp only [Disk.step, Disk.appendLive, hl] at hr'
      exact hr'
    | some g =>
      simp only []
      have hops : AofOrFinalOnly ([FsOp.append (aofName g.left) chunk] ++
          (if 16 + (g.data ++ chunk).length > s.logSize then
            [FsOp.pwriteHdr (aofName g.left) (closedHeader (g.data ++ chunk)),
             FsOp.create (aofName (g.left + (g.data ++ chunk).length)),
             FsOp.append (aofName (g.left + (g.data ++ chunk).length)) fixHeader]
           else [])) := by
        intro o ho
        have : ∃ n, o.names = [aofName n] ∧ (∀ fs, RdbSafe fs o) := by
          rcases List.mem_append.mp ho with h1 | h1
          · simp at h1; subst h1; exact ⟨_, rfl, by intro fs; simp [RdbSafe, aofName, parseRdbName]⟩
          · split at h1
            · simp at h1
              rcases h1 with rfl | rfl | rfl <;>
                exact ⟨_, rfl, by intro fs; simp [RdbSafe, aofName, parseRdbName]⟩
            · simp at h1
        obtain ⟨n, hn, hs⟩ := this
        exact ⟨by intro l s; rw [hn]; simp [aofName, rdbTmpName], hs⟩
      refine ⟨safe_of_aofOnly hops fs, tmpRel_of_aofOnly hops hr ?_⟩
      intro r hr' _
      simp only [Disk.step, Disk.appendLive, hl] at hr'
      split at hr' <;> simpa using hr'
  | aofClose =>
    simp only [fsOps]
    refine ⟨safe_of_aofOnly (closeLiveOps_aof s) fs, tmpRel_of_aofOnly (closeLiveOps_aof s) hr ?_⟩
    intro r hr' _
    simp only [Disk.step] at hr'
    rw [(closeLive_hist s).2.2] at hr'
    exact hr'
  | gc =>
    have hops : AofOrFinalOnly (fsOps s .gc) := by
      intro o ho
      simp only [fsOps, List.mem_append] at ho
      rcases ho with h1 | h1
      · split at h1
        · simp at h1; subst h1
          exact ⟨by intro l s; simp [FsOp.names, rdbName, rdbTmpName], by intro fs; trivial⟩
        · simp at h1
      · obtain ⟨g, _, rfl⟩ := List.mem_map.mp h1
        exact ⟨by intro l s; simp [FsOp.names, aofName, rdbTmpName], by intro fs; trivial⟩
    refine ⟨safe_of_aofOnly hops fs, tmpRel_of_aofOnly hops hr ?_⟩
    intro r hr' _
    simp only [Disk.step, Disk.gc] at hr'
    repeat' split at hr'
    all_goals simp_all
  | setRunId id =>
    simp only [fsOps]
    apply nil_case
    intro r hr' hw
    simp only [Disk.step] at hr'
    split at hr'
    · simp [Disk.reset] at hr'
    · split at hr'
      · exact hr'
      · have := rescan_rdb_not_writing s.closeAllForSwitch r hr'
        rw [this] at hw; cases hw
  | delRunId =>
    simp only [fsOps]
    apply nil_case
    intro r hr' _
    simp only [Disk.step] at hr'
    split at hr'
    · exact hr'
    · simp [Disk.reset] at hr'
  | openReader rid off crcOk =>
    simp only [fsOps]
    apply nil_case
    intro r hr' _
    simp only [Disk.step, Disk.open] at hr'
    repeat' split at hr'
    all_goals simp_all
  | read rid n =>
    simp only [fsOps]
    apply nil_case
    intro r hr' _
    simp only [Disk.step, Disk.read] at hr'
    repeat' split at hr'
    all_goals simp_all
  | advAcquire rid =>
    simp only [fsOps]
    apply nil_case
    intro r hr' _
    simp only [Disk.step, Disk.advAcquire] at hr'
    repeat' split at hr'
    all_goals simp_all
  | advRelease rid =>
    simp only [fsOps]
    apply nil_case
    intro r hr' _
    simp only [Disk.step, Disk.advRelease] at hr'
    repeat' split at hr'
    all_goals simp_all
  | closeReader rid =>
    simp only [fsOps]
    apply nil_case
    intro r hr' _
    simp only [Disk.step, Disk.closeReader] at hr'
    repeat' split at hr'
    all_goals simp_all

theorem append_eq_split {α} (a b pre post : List α) (x : α) (h : a ++ b = pre ++ x :: post) :
    (∃ p2, a = pre ++ x :: p2 ∧ post = p2 ++ b) ∨ (∃ p1, pre = a ++ p1 ∧ b = p1 ++ x :: post) := by
  induction a generalizing pre with
  | nil => right; exact ⟨pre, by simp, by simpa using h⟩
  | cons y t ih =>
    cases pre with
    | nil =>
      simp at h
      left; exact ⟨t, by simp [h.1], h.2.symm⟩
    | cons z u =>
      simp at h
      rcases ih u h.2 with ⟨p2, h1, h2⟩ | ⟨p1, h1, h2⟩
      · left; exact ⟨p2, by simp [h.1, h1], h2⟩
      · right; exact ⟨p1, by simp [h.1, h1], h2⟩

/-- every file operation of a writers' script is safe where it is applied -/
theorem scriptOps_safe (ops : List DOp) :
    ∀ (s : Disk) (fs : FS), s.wf ops → TmpRel s fs →
      ∀ pre op post, scriptOps s ops = pre ++ op :: post → RdbSafe (fs.applyAll pre) op := by
  induction ops with
  | nil => intro s fs _ _ pre op post he; simp [scriptOps] at he
  | cons o rest ih =>
    intro s fs hwf hr pre op post he
    obtain ⟨hsafe, hrel⟩ := fsOps_step s fs o hwf.1 hr
    simp only [scriptOps] at he
    rcases append_eq_split _ _ _ _ _ he with ⟨p2, h1, _⟩ | ⟨p1, h1, h2⟩
    · exact hsafe pre op p2 h1
    · rw [h1, applyAll_append]
      exact ih _ _ hwf.2 hrel p1 op post h2

theorem tmpRel_init (l m : Nat) : TmpRel (Disk.init l m) [] := by
  intro r hr; simp [Disk.init] at hr

/-- at every crash instant of every script, committed snapshot files are complete -/
theorem crashImage_rdbLenOk (l m : Nat) (ops : List DOp) (hwf : (Disk.init l m).wf ops) (n k : Nat) :
    RdbLenOk (crashImage [] (scriptOps (Disk.init l m) ops) n k) := by
  unfold crashImage
  apply RdbLenOk_tornLast (by intro e he; cases he)
  exact rdbSafe_take (scriptOps_safe ops _ _ hwf (tmpRel_init l m)) n

theorem get_some_of_mem {fs : FS} {n : FName} {c : Bytes} (h : (n, c) ∈ fs) : ∃ c', fs.get n = some c' ∧ (n, c') ∈ fs := by
  have : (fs.get n).isSome = true := (get_isSome_iff fs n).mpr ⟨(n, c), h, rfl⟩
  obtain ⟨c', hc'⟩ := Option.isSome_iff_exists.mp this
  exact ⟨c', hc', get_some_mem hc'⟩

/-! ### no byte of a failing segment, wherever it is in the chain -/

theorem serveFrom_stops_at_corrupt (fs : FS) (pre : List DSeg) (g : DSeg) (post : List DSeg) (off : Nat)
    (file : Bytes) (hf : fs.get (aofName g.left) = some file) (hbad : segVerifyOk file = false) :
    (serveFrom fs true (pre ++ g :: post) off).1.length ≤ (pre.map (·.data.length)).sum ∧
    (serveFrom fs true (pre ++ g :: post) off).2 ≠ ServeEnd.eof := by
  induction pre generalizing off with
  | nil =>
    simp only [List.nil_append, serveFrom_refuses fs g post off file hf hbad]
    simp
  | cons a t ih =>
    simp only [List.cons_append, serveFrom]
    cases hg : fs.get (aofName a.left) with
    | none => simp
    | some fa =>
      simp only []
      split
      · simp
      · obtain ⟨h1, h2⟩ := ih a.right
        simp only [List.map_cons, List.sum_cons, List.length_append, List.length_drop]
        exact ⟨by omega, h2⟩

theorem segVerifyOk_altered_crc (data : Bytes) (c : Nat) (hc : c < 2 ^ 64) (hne : c ≠ crc64 data) :
    segVerifyOk ((1 :: (leBytes 8 c ++ leBytes 4 (data.length % 4294967296) ++ [0, 0, 0])) ++ data) = false := by
  have hcrc : (((1 :: (leBytes 8 c ++ leBytes 4 (data.length % 4294967296) ++ [0, 0, 0])) ++ data).drop 1).take 8 = leBytes 8 c := by
    simp only [List.cons_append, List.drop_succ_cons, List.drop_zero, List.append_assoc]
    rw [List.take_append_of_le_length (by simp [leBytes_length]), List.take_of_length_le (by simp [leBytes_length])]
  have hdata : ((1 :: (leBytes 8 c ++ leBytes 4 (data.length % 4294967296) ++ [0, 0, 0])) ++ data).drop headerSize = data := by
    have hl : (1 :: (leBytes 8 c ++ leBytes 4 (data.length % 4294967296) ++ [0, 0, 0])).length = headerSize := by
      simp [leBytes_length, headerSize]
    rw [List.drop_append_of_le_length (by omega), List.drop_of_length_le (by omega)]
    rfl
  unfold segVerifyOk
  rw [hcrc, hdata, ofLE_leBytes]
  have : c % 256 ^ 8 = c := Nat.mod_eq_of_lt (by omega)
  rw [this]
  have hne' : (c == crc64 data) = false := by simpa using hne
  simp [hne']

end GunYu.StoreFs
