/-
  Helper lemmas for C08: what `reopen` rebuilds from an arbitrary directory
  image, what `serve` returns from it, checksum verification of closed
  segments, and the file operations that keep a directory truthful.
-/
import GunYu.Model.StoreFs
import GunYu.Proofs.StoreDisk

namespace GunYu.StoreFs
open GunYu GunYu.Store

/-! ### the re-opened index -/

theorem reopen_segs (fs : FS) : (reopen fs).segs = contigRun (sortSegs (scanSegs fs)) := rfl

theorem reopen_contig (fs : FS) : Contig (reopen fs).segs := by
  rw [reopen_segs]; exact contigRun_contig _

/-- the run is maximal: the segment just before it (if any) does not connect -/
theorem contigRun_maximal (l : List DSeg) :
    ∀ pre, l = pre ++ contigRun l → pre ≠ [] →
      ∃ a f, pre.getLast? = some a ∧ (contigRun l).head? = some f ∧ a.right ≠ f.left := by
  induction l with
  | nil => intro pre h; simp [contigRun] at h; intro hne; exact absurd h hne
  | cons a t ih =>
    cases t with
    | nil =>
      intro pre h hne
      simp [contigRun] at h
      exact absurd h hne
    | cons b u =>
      intro pre h hne
      simp only [contigRun] at h ⊢
      split at h
      · -- everything kept: `pre` must be empty
        rename_i hc
        have h2 := congrArg List.length h
        simp only [List.length_append, List.length_cons] at h2
        have := hc.1
        simp only [List.length_cons] at this
        exact absurd (List.eq_nil_of_length_eq_zero (by omega)) hne
      · rename_i hc
        simp only [hc, if_false]
        -- `a` is cut off; either the tail run is the whole tail (then `a` is
        -- the last dropped one) or the gap is further right
        cases pre with
        | nil => exact absurd rfl hne
        | cons p ps =>
          simp only [List.cons_append, List.cons.injEq] at h
          obtain ⟨hp, hrest⟩ := h
          subst hp
          by_cases hps : ps = []
          · subst hps
            simp at hrest
            have hfull : (contigRun (b :: u)).length = (b :: u).length := by rw [← hrest]
            have hnot : ¬ a.right = b.left := by
              intro e; exact hc ⟨hfull, e⟩
            refine ⟨a, b, rfl, ?_, hnot⟩
            rw [← hrest]; rfl
          · obtain ⟨x, f, hx, hf, hne'⟩ := ih ps hrest hps
            refine ⟨x, f, ?_, hf, hne'⟩
            cases ps with
            | nil => exact absurd rfl hps
            | cons q qs => simpa [List.getLast?_cons_cons] using hx

/-! ### truthful directories -/

/-- a segment holds the source's bytes at its offsets -/
def SegTrue (src : Nat → UInt8) (g : DSeg) : Prop :=
  ∀ i b, g.data[i]? = some b → b = src (g.left + i)

/-- every stream file `<l>.aof` of the directory holds, after its header, a
    prefix of the bytes the source sent from offset `l` on -/
def FsTrue (src : Nat → UInt8) (fs : FS) : Prop :=
  ∀ e ∈ fs, ∀ l, parseAofName e.1 = some l →
    ∀ i b, (e.2.drop headerSize)[i]? = some b → b = src (l + i)

theorem scanSegs_true {src : Nat → UInt8} {fs : FS} (h : FsTrue src fs) :
    ∀ g ∈ scanSegs fs, SegTrue src g := by
  intro g hg
  unfold scanSegs at hg
  obtain ⟨e, he, hsome⟩ := List.mem_filterMap.mp hg
  cases hp : parseAofName e.1 with
  | none => simp [hp] at hsome
  | some l =>
    simp only [hp] at hsome
    split at hsome
    · simp at hsome; subst hsome
      intro i b hb
      exact h e he l hp i b hb
    · simp at hsome

theorem mem_insertSeg {g x : DSeg} {l : List DSeg} : x ∈ insertSeg g l ↔ x = g ∨ x ∈ l := by
  induction l with
  | nil => simp [insertSeg]
  | cons a t ih =>
    simp only [insertSeg]
    split
    · simp
    · simp [ih]; constructor
      · rintro (h | h | h) <;> simp [h]
      · rintro (h | h | h) <;> simp [h]

theorem mem_sortSegs {x : DSeg} {l : List DSeg} : x ∈ sortSegs l ↔ x ∈ l := by
  induction l with
  | nil => simp [sortSegs]
  | cons a t ih =>
    show x ∈ insertSeg a (sortSegs t) ↔ _
    rw [mem_insertSeg, ih]; simp

theorem mem_contigRun {x : DSeg} {l : List DSeg} (h : x ∈ contigRun l) : x ∈ l := by
  obtain ⟨pre, hp⟩ := contigRun_suffix l
  rw [hp]; simp [h]

theorem reopen_segs_true {src : Nat → UInt8} {fs : FS} (h : FsTrue src fs) :
    ∀ g ∈ (reopen fs).segs, SegTrue src g := by
  intro g hg
  rw [reopen_segs] at hg
  exact scanSegs_true h g (mem_sortSegs.mp (mem_contigRun hg))

/-- following contiguous, truthful segments from `off` yields the source's
    bytes from `off` on — whatever is (or is not) verified on the way -/
theorem serveFrom_true (src : Nat → UInt8) (fs : FS) (v : Bool) :
    ∀ (segs : List DSeg) (off : Nat), Contig segs → (∀ g ∈ segs, SegTrue src g) →
      (∀ g, segs.head? = some g → g.left ≤ off ∧ off ≤ g.right) →
      ∀ k b, (serveFrom fs v segs off).1[k]? = some b → b = src (off + k) := by
  intro segs
  induction segs with
  | nil => intro off _ _ _ k b hb; simp [serveFrom] at hb
  | cons g rest ih =>
    intro off hc ht hh k b hb
    obtain ⟨hl, hr⟩ := hh g rfl
    simp only [serveFrom] at hb
    cases hf : fs.get (aofName g.left) with
    | none => simp [hf] at hb
    | some file =>
      simp only [hf] at hb
      split at hb
      · simp at hb
      · have hrest : ∀ k b, (serveFrom fs v rest g.right).1[k]? = some b → b = src (g.right + k) := by
          apply ih g.right hc.tail (fun x hx => ht x (List.mem_cons_of_mem _ hx))
          intro x hx
          cases rest with
          | nil => simp at hx
          | cons y ys =>
            simp at hx; subst hx
            have := hc.1
            simp only [DSeg.right] at this ⊢
            omega
        simp only [] at hb
        have hlen : (g.data.drop (off - g.left)).length = g.right - off := by
          simp [DSeg.right]; omega
        by_cases hk : k < g.right - off
        · rw [List.getElem?_append_left (by omega)] at hb
          rw [List.getElem?_drop] at hb
          have := ht g (List.mem_cons_self) _ b hb
          rw [this]; congr 1; omega
        · rw [List.getElem?_append_right (by omega)] at hb
          have := hrest _ b hb
          rw [this, hlen]; congr 1; omega

/-! ### checksum verification of closed segments -/

theorem leBytes_length (k n : Nat) : (leBytes k n).length = k := by
  induction k generalizing n with
  | zero => rfl
  | succ k ih => simp [leBytes, ih]

theorem ofLE_leBytes (k n : Nat) : ofLE (leBytes k n) = n % 256 ^ k := by
  induction k generalizing n with
  | zero => simp [leBytes, ofLE, Nat.mod_one]
  | succ k ih =>
    simp only [leBytes, ofLE, ih]
    have h1 : (UInt8.ofNat (n % 256)).toNat = n % 256 := by
      simp [UInt8.toNat_ofNat]
    rw [h1, Nat.pow_succ, Nat.mul_comm (256 ^ k) 256, Nat.mod_mul]

theorem crc64_lt (bs : Bytes) : crc64 bs < 2 ^ 64 := by
  unfold crc64; exact UInt64.toNat_lt _

theorem closedHeader_length (data : Bytes) : (closedHeader data).length = headerSize := by
  simp [closedHeader, leBytes_length, headerSize]

/-- what the verification reads out of a file that starts with a closed header -/
theorem segVerifyOk_closed (data data' : Bytes) :
    segVerifyOk (closedHeader data ++ data') =
      (decide (data.length % 4294967296 = data'.length) && decide (crc64 data = crc64 data')) := by
  have hlen : (closedHeader data ++ data').length = headerSize + data'.length := by
    simp [closedHeader_length]
  have hsz : ((closedHeader data ++ data').drop 9).take 4 = leBytes 4 (data.length % 4294967296) := by
    simp only [closedHeader, List.cons_append, List.drop_succ_cons, List.append_assoc]
    rw [List.drop_append_of_le_length (by simp [leBytes_length]), List.drop_of_length_le (by simp [leBytes_length])]
    simp only [List.nil_append]
    rw [List.take_append_of_le_length (by simp [leBytes_length]), List.take_of_length_le (by simp [leBytes_length])]
  have hcrc : ((closedHeader data ++ data').drop 1).take 8 = leBytes 8 (crc64 data) := by
    simp only [closedHeader, List.cons_append, List.drop_succ_cons, List.drop_zero, List.append_assoc]
    rw [List.take_append_of_le_length (by simp [leBytes_length]), List.take_of_length_le (by simp [leBytes_length])]
  have hdata : (closedHeader data ++ data').drop headerSize = data' := by
    rw [List.drop_append_of_le_length (by simp [closedHeader_length]), List.drop_of_length_le (by simp [closedHeader_length])]
    rfl
  unfold segVerifyOk
  rw [hsz, hcrc, hdata, hlen, ofLE_leBytes, ofLE_leBytes]
  have h1 : headerSize ≤ headerSize + data'.length := Nat.le_add_right _ _
  have h2 : crc64 data % 256 ^ 8 = crc64 data := Nat.mod_eq_of_lt (by have := crc64_lt data; omega)
  have h3 : data.length % 4294967296 % 256 ^ 4 = data.length % 4294967296 := by
    apply Nat.mod_eq_of_lt; have := Nat.mod_lt data.length (show 0 < 4294967296 by omega); omega
  simp only [h1, h2, h3, decide_true, Bool.true_and, Nat.add_sub_cancel_left]
  rfl

/-- a segment closed by the writer passes its own verification -/
theorem segVerifyOk_written (data : Bytes) (h : data.length < 4294967296) :
    segVerifyOk (closedHeader data ++ data) = true := by
  rw [segVerifyOk_closed]; simp [Nat.mod_eq_of_lt h]

/-- a verifying reader refuses a file that fails the check before delivering
    anything from it -/
theorem serveFrom_refuses (fs : FS) (g : DSeg) (rest : List DSeg) (off : Nat) (file : Bytes)
    (hf : fs.get (aofName g.left) = some file) (hbad : segVerifyOk file = false) :
    serveFrom fs true (g :: rest) off = ([], ServeEnd.corrupt) := by
  simp [serveFrom, hf, hbad]

/-! ### snapshots: only committed files are offered -/

/-- a temporary snapshot file is never read as a snapshot -/
theorem parseRdbName_tmp (l sz : Nat) : parseRdbName (rdbTmpName l sz) = none := rfl

theorem parseRdbName_some {n : FName} {l sz : Nat} (h : parseRdbName n = some (l, sz)) : n = rdbName l sz := by
  cases n <;> simp [parseRdbName] at h
  obtain ⟨rfl, rfl⟩ := h; rfl

theorem mem_sortNames {x : FName} {l : List FName} (h : x ∈ sortNames l) : x ∈ l := by
  induction l with
  | nil => simp [sortNames] at h
  | cons a t ih =>
    have hx' : x ∈ insertName a (sortNames t) := h
    have ins : ∀ (m : List FName), x ∈ insertName a m → x = a ∨ x ∈ m := by
      intro m
      induction m with
      | nil => intro h'; simp [insertName] at h'; exact Or.inl h'
      | cons b u ihm =>
        intro h'
        simp only [insertName] at h'
        split at h'
        · simp at h'; rcases h' with h' | h' | h' <;> simp [h']
        · simp at h'
          rcases h' with h' | h'
          · simp [h']
          · rcases ihm h' with h'' | h'' <;> simp [h'']
    rcases ins _ hx' with h' | h'
    · simp [h']
    · simp [ih h']

theorem scanRdb_some {fs : FS} {l sz : Nat} (h : scanRdb fs = some (l, sz)) :
    ∃ e ∈ fs, parseRdbName e.1 = some (l, sz) := by
  unfold scanRdb at h
  have hm := List.mem_of_getLast? h
  obtain ⟨n, hn, hp⟩ := List.mem_filterMap.mp hm
  obtain ⟨e, he, rfl⟩ := List.mem_map.mp (mem_sortNames hn)
  exact ⟨e, he, hp⟩

theorem reopen_rdb_some {fs : FS} {l sz : Nat} (h : (reopen fs).rdb = some (l, sz)) :
    scanRdb fs = some (l, sz) := by
  unfold reopen at h
  simp only [] at h
  repeat' split at h
  all_goals simp_all

/-! ### file operations that keep a directory truthful -/

/-- the content of a stream file named `n` is truthful -/
def ContentTrue (src : Nat → UInt8) (n : FName) (c : Bytes) : Prop :=
  ∀ l, parseAofName n = some l → ∀ i b, (c.drop headerSize)[i]? = some b → b = src (l + i)

theorem FsTrue_iff (src : Nat → UInt8) (fs : FS) : FsTrue src fs ↔ ∀ e ∈ fs, ContentTrue src e.1 e.2 :=
  Iff.rfl

theorem FsTrue_del {src : Nat → UInt8} {fs : FS} (h : FsTrue src fs) (n : FName) : FsTrue src (fs.del n) := by
  intro e he
  exact h e (List.mem_filter.mp he).1

theorem mem_set {fs : FS} {n : FName} {c : Bytes} {e : FName × Bytes} (he : e ∈ fs.set n c) :
    e = (n, c) ∨ e ∈ fs := by
  unfold FS.set at he
  split at he
  · obtain ⟨x, hx, rfl⟩ := List.mem_map.mp he
    split
    · left; rfl
    · right; exact hx
  · rcases List.mem_append.mp he with h | h
    · right; exact h
    · left; simpa using h

theorem FsTrue_set {src : Nat → UInt8} {fs : FS} (h : FsTrue src fs) (n : FName) (c : Bytes)
    (hc : ContentTrue src n c) : FsTrue src (fs.set n c) := by
  intro e he
  rcases mem_set he with rfl | h'
  · exact hc
  · exact h e h'

theorem get_some_mem {fs : FS} {n : FName} {c : Bytes} (h : fs.get n = some c) : (n, c) ∈ fs := by
  unfold FS.get at h
  cases hf : fs.find? (fun e => e.1 == n) with
  | none => simp [hf] at h
  | some e =>
    simp [hf] at h
    have h1 := List.mem_of_find?_eq_some hf
    have h2 := List.find?_some hf
    simp at h2
    rw [← h, ← h2]; exact h1

/-- which operations keep the directory truthful: creating, removing, rewriting
    a header (the first `headerSize` bytes), appending bytes that leave the file
    truthful, renaming onto a name that is truthful for the content -/
def OpTrue (src : Nat → UInt8) (fs : FS) : FsOp → Prop
  | .create _ => True
  | .remove _ => True
  | .pwriteHdr n hdr => hdr.length = headerSize ∧ ∀ c, fs.get n = some c → headerSize ≤ c.length
  | .append n bs => ∀ c, fs.get n = some c → ContentTrue src n (c ++ bs)
  | .rename a b => ∀ c, fs.get a = some c → ContentTrue src b c

theorem FsTrue_apply {src : Nat → UInt8} {fs : FS} (h : FsTrue src fs) (op : FsOp) (hop : OpTrue src fs op) :
    FsTrue src (fs.apply op) := by
  cases op with
  | create n =>
    apply FsTrue_set h
    intro l _ i b hb; simp at hb
  | remove n => exact FsTrue_del h n
  | append n bs =>
    simp only [FS.apply]
    cases hg : fs.get n with
    | none => exact h
    | some c => exact FsTrue_set h n _ (hop c hg)
  | pwriteHdr n hdr =>
    simp only [FS.apply]
    cases hg : fs.get n with
    | none => exact h
    | some c =>
      apply FsTrue_set h
      obtain ⟨hl, hc⟩ := hop
      have hlen := hc c hg
      have hold : ContentTrue src n c := h (n, c) (get_some_mem hg)
      intro l hp i b hb
      apply hold l hp i b
      have hd : (hdr ++ c.drop hdr.length).drop headerSize = c.drop headerSize := by
        rw [List.drop_append_of_le_length (by omega), List.drop_of_length_le (by omega), hl]; rfl
      rw [hd] at hb
      exact hb
  | rename a b =>
    simp only [FS.apply]
    cases hg : fs.get a with
    | none => exact h
    | some c => exact FsTrue_set (FsTrue_del h a) b c (hop c hg)

/-- a torn append (only the first `k` bytes reached the file) is truthful if
    the whole append would have been -/
theorem OpTrue_torn {src : Nat → UInt8} {fs : FS} {n : FName} {bs : Bytes} (k : Nat)
    (h : OpTrue src fs (.append n bs)) : OpTrue src fs (.append n (bs.take k)) := by
  intro c hc l hp i b hb
  apply h c hc l hp i b
  have hpre : (c ++ bs.take k) <+: (c ++ bs) := by
    exact (List.prefix_append_right_inj c).mpr (List.take_prefix k bs)
  have hpre2 : (c ++ bs.take k).drop headerSize <+: (c ++ bs).drop headerSize := by
    obtain ⟨t, ht⟩ := hpre
    rw [← ht]
    by_cases hl : headerSize ≤ (c ++ bs.take k).length
    · rw [List.drop_append_of_le_length hl]; exact List.prefix_append _ _
    · rw [List.drop_of_length_le (by omega)]; exact List.nil_prefix
  obtain ⟨t, ht⟩ := hpre2
  rw [← ht, List.getElem?_append_left]
  · exact hb
  · exact (List.getElem?_eq_some_iff.mp hb).1

/-- **every crash image of a truthful run is truthful**: any number of
    operations, each of which keeps the directory truthful, the last one
    possibly torn -/
theorem FsTrue_applyAll {src : Nat → UInt8} (ops : List FsOp) :
    ∀ (fs : FS), FsTrue src fs →
      (∀ (pre : List FsOp) (op : FsOp) (post : List FsOp), ops = pre ++ op :: post →
          OpTrue src (fs.applyAll pre) op) →
      FsTrue src (fs.applyAll ops) := by
  induction ops with
  | nil => intro fs h _; exact h
  | cons op rest ih =>
    intro fs h hall
    show FsTrue src ((fs.apply op).applyAll rest)
    apply ih _ (FsTrue_apply h op (hall [] op rest rfl))
    intro pre op' post he
    have := hall (op :: pre) op' post (by simp [he])
    exact this

theorem dropLast_concat_of_getLast? {α} {l : List α} {a : α} (h : l.getLast? = some a) :
    l.dropLast ++ [a] = l := by
  have hne : l ≠ [] := by intro e; rw [e] at h; simp at h
  have := List.dropLast_concat_getLast hne
  rw [List.getLast?_eq_some_getLast hne] at h
  cases h
  exact this

theorem applyAll_append (fs : FS) (a b : List FsOp) : fs.applyAll (a ++ b) = (fs.applyAll a).applyAll b := by
  unfold FS.applyAll; rw [List.foldl_append]

/-- the hypothesis "every operation is truthful where it is applied" passes to prefixes -/
theorem opsTrue_take {src : Nat → UInt8} {fs : FS} {ops : List FsOp}
    (hops : ∀ pre op post, ops = pre ++ op :: post → OpTrue src (fs.applyAll pre) op) (n : Nat) :
    ∀ pre op post, ops.take n = pre ++ op :: post → OpTrue src (fs.applyAll pre) op := by
  intro pre op post he
  apply hops pre op (post ++ ops.drop n)
  have := (List.take_append_drop n ops).symm
  rw [he] at this
  refine this.trans ?_
  simp

/-- … and a list whose last append is torn stays truthful -/
theorem FsTrue_tornLast {src : Nat → UInt8} {fs : FS} (h : FsTrue src fs) (xs : List FsOp)
    (hx : ∀ pre op post, xs = pre ++ op :: post → OpTrue src (fs.applyAll pre) op) (k : Nat) :
    FsTrue src (fs.applyAll (tornLast xs k)) := by
  unfold tornLast
  cases hl : xs.getLast? with
  | none => exact FsTrue_applyAll xs fs h hx
  | some last =>
    cases last with
    | append nm bs =>
      simp only []
      have hxs := dropLast_concat_of_getLast? hl
      rw [applyAll_append]
      have hpre : FsTrue src (fs.applyAll xs.dropLast) := by
        apply FsTrue_applyAll _ _ h
        intro pre op post he
        exact hx pre op (post ++ [.append nm bs]) (by rw [← hxs, he]; simp)
      show FsTrue src ((fs.applyAll xs.dropLast).apply (.append nm (bs.take k)))
      apply FsTrue_apply hpre
      apply OpTrue_torn k
      exact hx xs.dropLast (.append nm bs) [] hxs.symm
    | create nm => exact FsTrue_applyAll xs fs h hx
    | pwriteHdr nm hd => exact FsTrue_applyAll xs fs h hx
    | rename a b => exact FsTrue_applyAll xs fs h hx
    | remove nm => exact FsTrue_applyAll xs fs h hx

/-! ### the snapshot's final name appears only when all bytes were written -/

theorem rename_not_mem_closeLiveOps (s : Disk) (a b : FName) : FsOp.rename a b ∉ closeLiveOps s := by
  unfold closeLiveOps
  split
  · simp
  · split <;> simp

theorem rename_not_mem_resetOps (s : Disk) (a b : FName) : FsOp.rename a b ∉ resetOps s := by
  unfold resetOps
  simp only [List.mem_append, not_or]
  refine ⟨⟨?_, rename_not_mem_closeLiveOps s a b⟩, by simp⟩
  split
  · split <;> simp
  · simp

theorem rename_only_when_complete (s : Disk) (op : DOp) (a b : FName) (h : FsOp.rename a b ∈ fsOps s op) :
    ∃ r chunk, op = .rdbAppend chunk ∧ s.rdb = some r ∧ r.writing = true ∧
      r.data.length + chunk.length = r.size ∧ a = rdbTmpName r.left r.size ∧ b = rdbName r.left r.size := by
  cases op with
  | rdbAppend chunk =>
    simp only [fsOps] at h
    cases hr : s.rdb with
    | none => simp [hr] at h
    | some r =>
      simp only [hr] at h
      by_cases hw : r.writing = true
      · simp only [hw, if_true] at h
        by_cases hc : r.data.length + chunk.length = r.size
        · simp [hc] at h
          exact ⟨r, chunk, rfl, rfl, hw, hc, h.1, h.2⟩
        · simp [hc] at h
      · simp [hw] at h
  | newRdbWriter off size =>
    exfalso
    simp only [fsOps, List.mem_append] at h
    rcases h with h | h
    · exact rename_not_mem_resetOps s a b h
    · simp at h
  | rdbClose =>
    exfalso
    simp only [fsOps] at h
    split at h
    · split at h <;> simp at h
    · simp at h
  | newAofWriter off =>
    exfalso
    simp only [fsOps, List.mem_append] at h
    rcases h with h | h
    · exact rename_not_mem_closeLiveOps s a b h
    · simp at h
  | aofAppend chunk =>
    exfalso
    simp only [fsOps] at h
    split at h
    · simp at h
    · simp only [List.mem_append] at h
      rcases h with h | h
      · simp at h
      · split at h <;> simp at h
  | aofClose => exact absurd h (rename_not_mem_closeLiveOps s a b)
  | gc =>
    exfalso
    simp only [fsOps, List.mem_append] at h
    rcases h with h | h
    · split at h <;> simp at h
    · simp at h
  | setRunId id => simp [fsOps] at h
  | delRunId => simp [fsOps] at h
  | openReader rid off crcOk => simp [fsOps] at h
  | read rid n => simp [fsOps] at h
  | advAcquire rid => simp [fsOps] at h
  | advRelease rid => simp [fsOps] at h
  | closeReader rid => simp [fsOps] at h

end GunYu.StoreFs
