/-
  Helper lemmas for C07: which checkpoint offsets one loop iteration can emit.
-/
import GunYu.Model.Sender

namespace GunYu.Sender

def cpOfReq : Req → Option Int
  | .cpOffset o => some o
  | _ => none

/-- checkpoint offsets written by one batch, in wire order -/
def cpOffsetsB (b : Batch) : List Int := b.filterMap cpOfReq

/-- checkpoint offsets written by a list of batches, in wire order -/
def cpOffsets (out : List Batch) : List Int := out.flatMap cpOffsetsB

@[simp] theorem cpOffsets_nil : cpOffsets [] = [] := rfl
@[simp] theorem cpOffsets_append (a b : List Batch) :
    cpOffsets (a ++ b) = cpOffsets a ++ cpOffsets b := by simp [cpOffsets]
@[simp] theorem cpOffsets_none : cpOffsets (optToList none) = [] := rfl
@[simp] theorem cpOffsets_some (b : Batch) : cpOffsets (optToList (some b)) = cpOffsetsB b := by
  simp [cpOffsets, optToList]

theorem cpOffsetsB_append (a b : Batch) : cpOffsetsB (a ++ b) = cpOffsetsB a ++ cpOffsetsB b := by
  simp [cpOffsetsB]

theorem cpOffsetsB_cmds (q : List Item) :
    cpOffsetsB (q.map (fun i => Req.cmd i.cmd i.args i.offset)) = [] := by
  induction q with
  | nil => rfl
  | cons i q ih => simp [cpOffsetsB, cpOfReq] at ih ⊢

theorem cpOffsetsB_cpPart (c : SCfg) (s : SState) (u : Bool) (off : Int) :
    cpOffsetsB (cpPart c s u off) = if u && c.resume then [off] else [] := by
  unfold cpPart
  by_cases h : (u && c.resume) = true
  · simp only [h, ↓reduceIte]
    by_cases hm : s.cpInDbs.contains (dbAfter s.connDb s.queue) = true <;>
      simp [cpOffsetsB, cpOfReq]
  · simp [h, cpOffsetsB]

theorem cpOffsetsB_sendReqs (c : SCfg) (s : SState) (tb u : Bool) (off : Int) :
    cpOffsetsB (sendReqs c s tb u off) = if u && c.resume then [off] else [] := by
  unfold sendReqs
  rw [cpOffsetsB_append, cpOffsetsB_append, cpOffsetsB_append, cpOffsetsB_cmds, cpOffsetsB_cpPart]
  cases tb <;> simp [cpOffsetsB, cpOfReq, List.filterMap]

/-- what `sendOnce` writes: at most one offset, equal to `off`, never negative;
    `lastOffset` is not touched -/
theorem sendOnce_cp (c : SCfg) (s : SState) (tb up : Bool) (off : Int) :
    (sendOnce c s tb up off).1.lastOffset = s.lastOffset ∧
    (cpOffsets (optToList (sendOnce c s tb up off).2) = [] ∨
      (cpOffsets (optToList (sendOnce c s tb up off).2) = [off] ∧ 0 ≤ off)) := by
  unfold sendOnce
  simp only
  split
  · simp
  · split
    · simp
    · simp only [cpOffsets_some, cpOffsetsB_sendReqs, true_and]
      by_cases h3 : (up && decide (0 ≤ off) && c.resume) = true
      · right
        simp only [h3, ↓reduceIte, true_and]
        simp only [Bool.and_eq_true, decide_eq_true_eq] at h3
        exact h3.1.2
      · left; simp [h3]

theorem tail_cp (c : SCfg) (s : SState) (tb up : Bool) (out : List Batch) :
    (tail c s tb up out).1.lastOffset = s.lastOffset ∧
    ∃ l2, cpOffsets (tail c s tb up out).2 = cpOffsets out ++ l2 ∧
      (l2 = [] ∨ (l2 = [s.lastOffset] ∧ 0 ≤ s.lastOffset)) := by
  unfold tail
  simp only
  split
  · -- size-triggered: needFlush := true
    simp only [↓reduceIte]
    have h := sendOnce_cp c { s with needFlush := true } tb up s.lastOffset
    refine ⟨h.1, _, by rw [cpOffsets_append], ?_⟩
    simpa using h.2
  · split
    · have h := sendOnce_cp c s tb up s.lastOffset
      refine ⟨h.1, _, by rw [cpOffsets_append], ?_⟩
      simpa using h.2
    · exact ⟨rfl, [], by simp, Or.inl rfl⟩

/-- the offset the loop holds after an event -/
def newLast (s : SState) : Ev → Int
  | .item it => it.offset
  | _ => s.lastOffset

/-- shape of the offsets one iteration writes -/
def StepShape (old new : Int) (l : List Int) : Prop :=
  ∃ l1 l2, l = l1 ++ l2 ∧
    (l1 = [] ∨ (l1 = [old] ∧ 0 ≤ old) ∨ (l1 = [new] ∧ 0 ≤ new)) ∧
    (l2 = [] ∨ (l2 = [new] ∧ 0 ≤ new))

theorem shape_nil (old new : Int) : StepShape old new [] :=
  ⟨[], [], rfl, Or.inl rfl, Or.inl rfl⟩

theorem shape_of_tail (c : SCfg) (s : SState) (tb up : Bool) (old : Int) :
    StepShape old s.lastOffset (cpOffsets (tail c s tb up []).2) := by
  obtain ⟨_, l2, h, hl⟩ := tail_cp c s tb up []
  exact ⟨[], l2, by simpa using h, Or.inl rfl, hl⟩

theorem shape_of_flush_tail (c : SCfg) (s s2 : SState) (tb up tb' up' : Bool) (old off : Int)
    (hoff : off = old ∨ off = s2.lastOffset) :
    StepShape old s2.lastOffset
      (cpOffsets (tail c s2 tb' up' (optToList (sendOnce c s tb up off).2)).2) := by
  obtain ⟨_, l2, h, hl⟩ := tail_cp c s2 tb' up' (optToList (sendOnce c s tb up off).2)
  refine ⟨_, l2, h, ?_, hl⟩
  rcases (sendOnce_cp c s tb up off).2 with h0 | ⟨h1, hpos⟩
  · exact Or.inl h0
  · rcases hoff with rfl | rfl
    · exact Or.inr (Or.inl ⟨h1, hpos⟩)
    · exact Or.inr (Or.inr ⟨h1, hpos⟩)

theorem preFlush_cp (c : SCfg) (s : SState) (t : Txn) (nf : Bool) (prev : Int) :
    (preFlush c s t nf prev).1.lastOffset = s.lastOffset ∧
    (cpOffsets (preFlush c s t nf prev).2 = [] ∨
      (cpOffsets (preFlush c s t nf prev).2 = [prev] ∧ 0 ≤ prev) ∨
      (cpOffsets (preFlush c s t nf prev).2 = [s.lastOffset] ∧ 0 ≤ s.lastOffset)) := by
  unfold preFlush
  split
  · simp only
    by_cases ht : t = Txn.commit
    · simp only [ht, ↓reduceIte]
      have h := sendOnce_cp c s c.txnMode (c.resume && c.txnMode) s.lastOffset
      refine ⟨h.1, ?_⟩
      rcases h.2 with h0 | h1
      · exact Or.inl h0
      · exact Or.inr (Or.inr h1)
    · simp only [ht, ↓reduceIte]
      have h := sendOnce_cp c s c.txnMode (c.resume && c.txnMode) prev
      refine ⟨h.1, ?_⟩
      rcases h.2 with h0 | h1
      · exact Or.inl h0
      · exact Or.inr (Or.inl h1)
  · exact ⟨rfl, Or.inl rfl⟩

theorem absorb_last (s : SState) (t : Txn) (it : Item) :
    (absorb s t it).lastOffset = s.lastOffset := by
  unfold absorb; split
  · rfl
  · split <;> rfl

theorem stepItemTxn_cp (c : SCfg) (s : SState) (t : Txn) (nf : Bool) (it : Item) (prev : Int) :
    (stepItemTxn c s t nf it prev).1.lastOffset = s.lastOffset ∧
    StepShape prev s.lastOffset (cpOffsets (stepItemTxn c s t nf it prev).2) := by
  unfold stepItemTxn
  simp only
  obtain ⟨hlast, hcp⟩ := preFlush_cp c s t nf prev
  have habs : (absorb (preFlush c s t nf prev).1 t it).lastOffset = s.lastOffset := by
    rw [absorb_last, hlast]
  obtain ⟨htl, l2, h2, hl2⟩ := tail_cp c (absorb (preFlush c s t nf prev).1 t it)
    c.txnMode (c.resume && c.txnMode) (preFlush c s t nf prev).2
  refine ⟨by rw [htl, habs], _, l2, h2, hcp, ?_⟩
  rw [habs] at hl2; exact hl2

theorem stepItemPlain_cp (c : SCfg) (s : SState) (t : Txn) (it : Item) (prev : Int) :
    (stepItemPlain c s t it).1.lastOffset = s.lastOffset ∧
    StepShape prev s.lastOffset (cpOffsets (stepItemPlain c s t it).2) := by
  unfold stepItemPlain
  split
  · exact ⟨rfl, shape_nil _ _⟩
  · split
    · obtain ⟨htl, l2, h2, hl2⟩ := tail_cp c { s with needFlush := true }
        c.txnMode (c.resume && c.txnMode) []
      exact ⟨htl, [], l2, by simpa using h2, Or.inl rfl, hl2⟩
    · obtain ⟨htl, l2, h2, hl2⟩ := tail_cp c (enqueue s it) c.txnMode (c.resume && c.txnMode) []
      exact ⟨htl, [], l2, by simpa using h2, Or.inl rfl, hl2⟩

theorem stepItem_cp (c : SCfg) (s : SState) (it : Item) (prev : Int) :
    (stepItem c s it prev).1.lastOffset = s.lastOffset ∧
    StepShape prev s.lastOffset (cpOffsets (stepItem c s it prev).2) := by
  unfold stepItem
  simp only
  split
  · exact stepItemTxn_cp c _ _ _ it prev
  · exact stepItemPlain_cp c _ _ it prev

theorem step_cp (c : SCfg) (s : SState) (ev : Ev) :
    (step c s ev).1.lastOffset = newLast s ev ∧
    StepShape s.lastOffset (newLast s ev) (cpOffsets (step c s ev).2) := by
  cases ev with
  | item it =>
    simp only [step, newLast]
    split
    · exact ⟨rfl, shape_nil _ _⟩
    · exact stepItem_cp c { s with lastOffset := it.offset } it s.lastOffset
  | batchTick =>
    simp only [step, newLast]
    split
    · obtain ⟨htl, l2, h2, hl2⟩ := tail_cp c { s with needFlush := true } c.txnMode (c.resume && c.txnMode) []
      exact ⟨htl, [], l2, by simpa using h2, Or.inl rfl, hl2⟩
    · obtain ⟨htl, l2, h2, hl2⟩ := tail_cp c s c.txnMode (c.resume && c.txnMode) []
      exact ⟨htl, [], l2, by simpa using h2, Or.inl rfl, hl2⟩
  | keepaliveTick =>
    simp only [step, newLast]
    split
    · split
      · obtain ⟨htl, l2, h2, hl2⟩ := tail_cp c
          { s with queue := [pingItem s.lastOffset], needFlush := true } false (c.resume && c.txnMode) []
        exact ⟨htl, [], l2, by simpa using h2, Or.inl rfl, hl2⟩
      · obtain ⟨htl, l2, h2, hl2⟩ := tail_cp c { s with needFlush := true } c.txnMode (c.resume && c.txnMode) []
        exact ⟨htl, [], l2, by simpa using h2, Or.inl rfl, hl2⟩
    · obtain ⟨htl, l2, h2, hl2⟩ := tail_cp c s c.txnMode (c.resume && c.txnMode) []
      exact ⟨htl, [], l2, by simpa using h2, Or.inl rfl, hl2⟩
  | cpTick =>
    simp only [step, newLast]
    split
    · obtain ⟨htl, l2, h2, hl2⟩ := tail_cp c { s with needFlush := true } c.txnMode true []
      exact ⟨htl, [], l2, by simpa using h2, Or.inl rfl, hl2⟩
    · obtain ⟨htl, l2, h2, hl2⟩ := tail_cp c s c.txnMode (c.resume && c.txnMode) []
      exact ⟨htl, [], l2, by simpa using h2, Or.inl rfl, hl2⟩
  | done =>
    simp only [step, newLast]
    split
    · obtain ⟨htl, l2, h2, hl2⟩ := tail_cp c { s with needFlush := true } c.txnMode true []
      exact ⟨htl, [], l2, by simpa using h2, Or.inl rfl, hl2⟩
    · obtain ⟨htl, l2, h2, hl2⟩ := tail_cp c s c.txnMode (c.resume && c.txnMode) []
      exact ⟨htl, [], l2, by simpa using h2, Or.inl rfl, hl2⟩

end GunYu.Sender
