import GunYu.Model.ClusterSegments
namespace GunYu.ClusterSegments

theorem mem_keepLast (i : Nat) : ∀ l : List Nat, i ∈ keepLast l ↔ i ∈ l := by
  intro l
  induction l with
  | nil => simp [keepLast]
  | cons x xs ih =>
    unfold keepLast
    by_cases hx : x ∈ xs
    · simp only [hx, if_true, ih, List.mem_cons]
      constructor
      · intro h; exact Or.inr h
      · intro h; cases h with
        | inl h => subst h; exact hx
        | inr h => exact h
    · simp only [hx, if_false, List.mem_cons, ih]

theorem keepLast_of_nodup : ∀ l : List Nat, l.Nodup → keepLast l = l := by
  intro l
  induction l with
  | nil => intro _; rfl
  | cons x xs ih =>
    intro h
    rw [List.nodup_cons] at h
    unfold keepLast
    simp only [h.1, if_false, ih h.2]

theorem keepLast_append (app : List Nat) (happ : app.Nodup) : ∀ l : List Nat,
    keepLast (l ++ app) = (keepLast l).filter (fun i => decide (i ∉ app)) ++ app := by
  intro l
  induction l with
  | nil => simp [keepLast, keepLast_of_nodup app happ]
  | cons x xs ih =>
    simp only [List.cons_append]
    by_cases hxa : x ∈ app
    · -- x is executed again by the batch: its old execution does not count
      have h1 : x ∈ xs ++ app := List.mem_append_right _ hxa
      rw [keepLast, if_pos h1, ih]
      by_cases hxs : x ∈ xs
      · rw [keepLast, if_pos hxs]
      · rw [keepLast, if_neg hxs, List.filter_cons]
        simp [hxa]
    · by_cases hxs : x ∈ xs
      · have h1 : x ∈ xs ++ app := List.mem_append_left _ hxs
        rw [keepLast, if_pos h1, ih, keepLast, if_pos hxs]
      · have h1 : x ∉ xs ++ app := by
          intro h; rw [List.mem_append] at h; cases h with
          | inl h => exact hxs h
          | inr h => exact hxa h
        rw [keepLast, if_neg h1, ih, keepLast, if_neg hxs, List.filter_cons]
        simp [hxa]

theorem rng_mem {p q i : Nat} : i ∈ rng p q ↔ p ≤ i ∧ i < q := by
  unfold rng
  rw [List.mem_range'_1]
  omega

theorem range_split (p q : Nat) (h : p ≤ q) : List.range q = List.range p ++ rng p q := by
  unfold rng
  rw [List.range_eq_range', List.range_eq_range']
  have : q = p + (q - p) := by omega
  conv => lhs; rw [this]
  rw [← List.range'_append_1]
  simp

end GunYu.ClusterSegments

namespace GunYu.ClusterSegments
variable (n : Nat) (grp : Nat → Nat)

/-- the effective stream of group `g` below position `c` -/
def effBelow (l : List Nat) (c g : Nat) : List Nat :=
  (keepLast l).filter (fun i => decide (i < c) && (grp i == g))

/-- the specification stream of group `g` below position `c` -/
def specBelow (c g : Nat) : List Nat := (List.range c).filter (fun i => grp i == g)

structure SInv (s : Tgt) : Prop where
  le1 : s.stored ≤ s.cur
  le2 : s.cur ≤ s.acked
  le3 : s.acked ≤ n
  inlog : ∀ i, i < s.acked → i ∈ s.log
  bound : ∀ i ∈ s.log, i < n
  eff : ∀ g, effBelow grp s.log s.cur g = specBelow grp s.cur g

theorem complete_all_groups {p q : Nat} {app : List Nat} (ha : AppOK p q app)
    (hc : Complete grp p q app) (g : Nat) :
    app.filter (fun j => grp j == g) = (rng p q).filter (fun j => grp j == g) := by
  by_cases h : ∃ i ∈ rng p q, grp i = g
  · obtain ⟨i, hi, rfl⟩ := h
    exact hc i hi
  · have h1 : (rng p q).filter (fun j => grp j == g) = [] := by
      rw [List.filter_eq_nil_iff]
      intro j hj hg
      exact h ⟨j, hj, by simpa using hg⟩
    have h2 : app.filter (fun j => grp j == g) = [] := by
      rw [List.filter_eq_nil_iff]
      intro j hj hg
      exact h ⟨j, rng_mem.mpr (ha.2 j hj), by simpa using hg⟩
    rw [h1, h2]

theorem complete_mem {p q : Nat} {app : List Nat} (hc : Complete grp p q app) {i : Nat}
    (hi : i ∈ rng p q) : i ∈ app := by
  have h := hc i hi
  have : i ∈ (rng p q).filter (fun j => grp j == grp i) := by
    rw [List.mem_filter]; exact ⟨hi, by simp⟩
  rw [← h, List.mem_filter] at this
  exact this.1

theorem specBelow_split (p q g : Nat) (h : p ≤ q) :
    specBelow grp q g = specBelow grp p g ++ (rng p q).filter (fun i => grp i == g) := by
  unfold specBelow
  rw [range_split p q h, List.filter_append]

theorem effBelow_mono (l : List Nat) (c c' g : Nat) (h : c' ≤ c)
    (he : effBelow grp l c g = specBelow grp c g) : effBelow grp l c' g = specBelow grp c' g := by
  have h1 : effBelow grp l c' g = (effBelow grp l c g).filter (fun i => decide (i < c')) := by
    unfold effBelow
    rw [List.filter_filter]
    apply List.filter_congr
    intro i _
    by_cases h1 : i < c'
    · have h2 : i < c := Nat.lt_of_lt_of_le h1 h
      simp [h1, h2]
    · simp [h1]
  have h2 : specBelow grp c' g = (specBelow grp c g).filter (fun i => decide (i < c')) := by
    unfold specBelow
    rw [range_split c' c h, List.filter_append, List.filter_append, List.filter_filter, List.filter_filter]
    have e1 : (List.range c').filter (fun a => (decide (a < c') && (grp a == g))) =
        (List.range c').filter (fun i => grp i == g) := by
      apply List.filter_congr
      intro i hi
      rw [List.mem_range] at hi
      simp [hi]
    have e2 : (rng c' c).filter (fun a => (decide (a < c') && (grp a == g))) = [] := by
      rw [List.filter_eq_nil_iff]
      intro i hi
      have := (rng_mem.mp hi).1
      simp; omega
    rw [e1, e2, List.append_nil]
  rw [h1, h2, he]
end GunYu.ClusterSegments
namespace GunYu.ClusterSegments
variable (n : Nat) (grp : Nat → Nat)

theorem SInv_init : SInv n grp {} := by
  refine ⟨Nat.le_refl _, Nat.le_refl _, Nat.zero_le _, ?_, ?_, ?_⟩
  · intro i hi; exact absurd hi (Nat.not_lt_zero _)
  · intro i hi; exact nomatch hi
  · intro g; rfl

/-- the effect of appending a batch's executions on the effective stream below `c`, when the
    batch only touches indices `≥ p` and `c ≤ p` -/
theorem effBelow_append_above (l app : List Nat) (happ : app.Nodup) (c p g : Nat) (hcp : c ≤ p)
    (hlo : ∀ i ∈ app, p ≤ i) : effBelow grp (l ++ app) c g = effBelow grp l c g := by
  unfold effBelow
  rw [keepLast_append app happ, List.filter_append, List.filter_filter]
  have e2 : app.filter (fun i => decide (i < c) && (grp i == g)) = [] := by
    rw [List.filter_eq_nil_iff]
    intro i hi
    have := hlo i hi
    simp; omega
  rw [e2, List.append_nil]
  apply List.filter_congr
  intro i _
  by_cases h1 : i < c
  · have : i ∉ app := fun h => by have := hlo i h; omega
    simp [h1, this]
  · simp [h1]

theorem SInv_step {s s' : Tgt} {e : Ev} (hi : SInv n grp s)
    (hd : cutStoresNothing e)
    (h : step n grp s e = some s') :
    SInv n grp s' := by
  cases e with
  | start =>
    simp only [step, Option.some.injEq] at h; subst h
    refine ⟨Nat.le_refl _, Nat.le_trans hi.le1 hi.le2, hi.le3, hi.inlog, hi.bound, ?_⟩
    intro g
    exact effBelow_mono grp s.log s.cur s.stored g hi.le1 (hi.eff g)
  | batch q o =>
    cases o with
    | ok app store =>
      simp only [step] at h
      split at h
      · rename_i hg
        obtain ⟨hlt, hqn, happ, hcomp⟩ := hg
        simp only [Option.some.injEq] at h; subst h
        refine ⟨?_, ?_, ?_, ?_, ?_, ?_⟩
        rotate_left 4
        · intro i hia
          have hia' : i ∈ s.log ++ app := hia
          rw [List.mem_append] at hia'
          cases hia' with
          | inl h => exact hi.bound i h
          | inr h => have := (happ.2 i h).2; omega
        rotate_right 4
        · show (if store = true then q else s.stored) ≤ q
          split
          · exact Nat.le_refl _
          · have := hi.le1; omega
        · show q ≤ max s.acked q; omega
        · show max s.acked q ≤ n; have := hi.le3; omega
        · intro i hia
          show i ∈ s.log ++ app
          rw [List.mem_append]
          by_cases h1 : i < s.acked
          · exact Or.inl (hi.inlog i h1)
          · have h2 : i < q := by
              have : i < max s.acked q := hia
              omega
            by_cases h3 : i < s.cur
            · exact Or.inl (hi.inlog i (by have := hi.le2; omega))
            · exact Or.inr (complete_mem grp hcomp (rng_mem.mpr ⟨by omega, h2⟩))
        · intro g
          show effBelow grp (s.log ++ app) q g = specBelow grp q g
          rw [specBelow_split grp s.cur q g (by omega), ← hi.eff g]
          unfold effBelow
          rw [keepLast_append app happ.1, List.filter_append, List.filter_filter]
          have e2 : app.filter (fun i => decide (i < q) && (grp i == g)) =
              (rng s.cur q).filter (fun i => grp i == g) := by
            rw [← complete_all_groups grp happ hcomp g]
            apply List.filter_congr
            intro i hia
            have := (happ.2 i hia).2
            simp [this]
          rw [e2]
          congr 1
          apply List.filter_congr
          intro i _
          by_cases h1 : i < s.cur
          · have : i ∉ app := fun h => by have := (happ.2 i h).1; omega
            have h2 : i < q := by omega
            simp [h1, h2, this]
          · by_cases h2 : i < q
            · have : i ∈ app := complete_mem grp hcomp (rng_mem.mpr ⟨by omega, h2⟩)
              simp [h1, this]
            · simp [h1, h2]
      · exact nomatch h
    | cut app st =>
      have hst : st = false := hd
      subst hst
      simp only [step] at h
      split at h
      · rename_i hg
        obtain ⟨hlt, hqn, happ⟩ := hg
        simp only [Option.some.injEq] at h; subst h
        refine ⟨hi.le1, hi.le2, hi.le3, ?_, ?_, ?_⟩
        · intro i hia
          show i ∈ s.log ++ app
          exact List.mem_append_left _ (hi.inlog i hia)
        · intro i hia
          have hia' : i ∈ s.log ++ app := hia
          rw [List.mem_append] at hia'
          cases hia' with
          | inl h => exact hi.bound i h
          | inr h => have := (happ.2 i h).2; omega
        · intro g
          show effBelow grp (s.log ++ app) s.cur g = specBelow grp s.cur g
          rw [effBelow_append_above grp s.log app happ.1 s.cur s.cur g (Nat.le_refl _)
            (fun i hia => (happ.2 i hia).1)]
          exact hi.eff g
      · exact nomatch h

theorem Disciplined_head {e : Ev} {es : List Ev} (hd : Disciplined (e :: es)) :
    cutStoresNothing e ∧ Disciplined es :=
  ⟨hd e (by simp), fun x hx => hd x (by simp [hx])⟩

theorem SInv_run : ∀ (evs : List Ev) (s s' : Tgt), SInv n grp s → Disciplined evs →
    run n grp s evs = some s' → SInv n grp s' := by
  intro evs
  induction evs with
  | nil => intro s s' hi _ h; simp only [run, Option.some.injEq] at h; subst h; exact hi
  | cons e es ih =>
    intro s s' hi hd h
    simp only [run] at h
    split at h
    · rename_i s1 hs1
      obtain ⟨hd1, hd2⟩ := Disciplined_head hd
      exact ih s1 s' (SInv_step n grp hi hd1 hs1) hd2 h
    · exact nomatch h

/-- the stored position never moves backwards -/
theorem stored_mono_step {s s' : Tgt} {e : Ev} (hi : SInv n grp s) (h : step n grp s e = some s') :
    s.stored ≤ s'.stored := by
  cases e with
  | start => simp only [step, Option.some.injEq] at h; subst h; exact Nat.le_refl _
  | batch q o =>
    cases o with
    | ok app store =>
      simp only [step] at h
      split at h
      · rename_i hg
        simp only [Option.some.injEq] at h; subst h
        show s.stored ≤ (if store = true then q else s.stored)
        split
        · have := hi.le1; omega
        · exact Nat.le_refl _
      · exact nomatch h
    | cut app st =>
      simp only [step] at h
      split at h
      · rename_i hg
        simp only [Option.some.injEq] at h; subst h
        show s.stored ≤ (if st = true then q else s.stored)
        split
        · have := hi.le1; omega
        · exact Nat.le_refl _
      · exact nomatch h

theorem stored_mono_run : ∀ (evs : List Ev) (s s' : Tgt), SInv n grp s → Disciplined evs →
    run n grp s evs = some s' → s.stored ≤ s'.stored := by
  intro evs
  induction evs with
  | nil => intro s s' _ _ h; simp only [run, Option.some.injEq] at h; subst h; exact Nat.le_refl _
  | cons e es ih =>
    intro s s' hi hd h
    simp only [run] at h
    split at h
    · rename_i s1 hs1
      obtain ⟨hd1, hd2⟩ := Disciplined_head hd
      exact Nat.le_trans (stored_mono_step n grp hi hs1) (ih s1 s' (SInv_step n grp hi hd1 hs1) hd2 h)
    · exact nomatch h
end GunYu.ClusterSegments
namespace GunYu.ClusterSegments
variable (n : Nat) (grp : Nat → Nat)

/-- every cut batch of the run executed, per group, a prefix of its part (fault model:
    redirect of a slot, loss of a connection, close) -/
def PrefixRun : Tgt → List Ev → Prop
  | _, [] => True
  | s, e :: es =>
    (match e with
     | .batch q (.cut app _) => PrefixCut grp s.cur q app
     | _ => True) ∧ ∀ s', step n grp s e = some s' → PrefixRun s' es

/-- per group, what has been executed is downward closed -/
def DownClosed (l : List Nat) : Prop := ∀ i ∈ l, ∀ j, j < i → grp j = grp i → j ∈ l

theorem rng_filter_sorted (p q g : Nat) :
    ((rng p q).filter (fun j => grp j == g)).Pairwise (· < ·) := by
  apply List.Pairwise.filter
  unfold rng
  exact List.pairwise_lt_range'

theorem prefix_sorted_down {l pre : List Nat} (hs : l.Pairwise (· < ·)) (hp : pre <+: l)
    {i j : Nat} (hi : i ∈ pre) (hj : j ∈ l) (hlt : j < i) : j ∈ pre := by
  obtain ⟨rest, rfl⟩ := hp
  rw [List.mem_append] at hj
  cases hj with
  | inl h => exact h
  | inr h =>
    rw [List.pairwise_append] at hs
    have := hs.2.2 i hi j h
    omega

theorem DownClosed_step {s s' : Tgt} {e : Ev} (hi : SInv n grp s) (hd : DownClosed grp s.log)
    (hp : match e with | .batch q (.cut app _) => PrefixCut grp s.cur q app | _ => True)
    (h : step n grp s e = some s') : DownClosed grp s'.log := by
  -- what a batch `[cur,q)` with per-group prefixes adds keeps the log downward closed
  have key : ∀ (q : Nat) (app : List Nat), AppOK s.cur q app →
      (∀ i ∈ rng s.cur q, (app.filter (fun j => grp j == grp i)) <+: ((rng s.cur q).filter (fun j => grp j == grp i))) →
      DownClosed grp (s.log ++ app) := by
    intro q app happ hpre i hia j hji hg
    rw [List.mem_append] at hia ⊢
    cases hia with
    | inl h => exact Or.inl (hd i h j hji hg)
    | inr h =>
      by_cases hjc : j < s.cur
      · exact Or.inl (hi.inlog j (by have := hi.le2; omega))
      · have hib := happ.2 i h
        have hir : i ∈ rng s.cur q := rng_mem.mpr hib
        have hjr : j ∈ rng s.cur q := rng_mem.mpr ⟨by omega, by omega⟩
        have h1 : i ∈ app.filter (fun x => grp x == grp i) := by
          rw [List.mem_filter]; exact ⟨h, by simp⟩
        have h2 : j ∈ (rng s.cur q).filter (fun x => grp x == grp i) := by
          rw [List.mem_filter]; exact ⟨hjr, by simp [hg]⟩
        have h3 := prefix_sorted_down (rng_filter_sorted grp s.cur q (grp i)) (hpre i hir) h1 h2 hji
        rw [List.mem_filter] at h3
        exact Or.inr h3.1
  cases e with
  | start => simp only [step, Option.some.injEq] at h; subst h; exact hd
  | batch q o =>
    cases o with
    | ok app store =>
      simp only [step] at h
      split at h
      · rename_i hg
        obtain ⟨_, _, happ, hcomp⟩ := hg
        simp only [Option.some.injEq] at h; subst h
        apply key q app happ
        intro i hir
        rw [hcomp i hir]
        exact List.prefix_refl _
      · exact nomatch h
    | cut app st =>
      simp only [step] at h
      split at h
      · rename_i hg
        obtain ⟨_, _, happ⟩ := hg
        simp only [Option.some.injEq] at h; subst h
        exact key q app happ hp
      · exact nomatch h

theorem DownClosed_run : ∀ (evs : List Ev) (s s' : Tgt), SInv n grp s → DownClosed grp s.log →
    Disciplined evs → PrefixRun n grp s evs → run n grp s evs = some s' → DownClosed grp s'.log := by
  intro evs
  induction evs with
  | nil => intro s s' _ hd _ _ h; simp only [run, Option.some.injEq] at h; subst h; exact hd
  | cons e es ih =>
    intro s s' hi hd hdi hp h
    simp only [run] at h
    split at h
    · rename_i s1 hs1
      obtain ⟨hp1, hp2⟩ := hp
      obtain ⟨hd1, hd2⟩ := Disciplined_head hdi
      exact ih s1 s' (SInv_step n grp hi hd1 hs1) (DownClosed_step n grp hi hd hp1 hs1) hd2 (hp2 s1 hs1) h
    · exact nomatch h

/-- a batch only ever executes commands at or above the stored position: what has been
    acknowledged AND stored is never executed again -/
theorem batch_above_stored {s s' : Tgt} {q : Nat} {o : Outcome} (hi : SInv n grp s)
    (h : step n grp s (.batch q o) = some s') :
    ∃ app, s'.log = s.log ++ app ∧ ∀ i ∈ app, s.stored ≤ i := by
  cases o with
  | ok app store =>
    simp only [step] at h
    split at h
    · rename_i hg
      simp only [Option.some.injEq] at h; subst h
      exact ⟨app, rfl, fun i hia => by have := (hg.2.2.1.2 i hia).1; have := hi.le1; omega⟩
    · exact nomatch h
  | cut app st =>
    simp only [step] at h
    split at h
    · rename_i hg
      simp only [Option.some.injEq] at h; subst h
      exact ⟨app, rfl, fun i hia => by have := (hg.2.2.2 i hia).1; have := hi.le1; omega⟩
    · exact nomatch h

/-- no replay (no new segment, no cut batch) ⇒ nothing is executed twice -/
def OnlyAcked (evs : List Ev) : Prop := ∀ e ∈ evs, ∃ q app st, e = .batch q (.ok app st)

theorem no_replay_nodup : ∀ (evs : List Ev) (s s' : Tgt), s.log.Nodup → (∀ i ∈ s.log, i < s.cur) →
    OnlyAcked evs → run n grp s evs = some s' → s'.log.Nodup ∧ ∀ i ∈ s'.log, i < s'.cur := by
  intro evs
  induction evs with
  | nil => intro s s' h1 h2 _ h; simp only [run, Option.some.injEq] at h; subst h; exact ⟨h1, h2⟩
  | cons e es ih =>
    intro s s' h1 h2 ho h
    simp only [run] at h
    split at h
    · rename_i s1 hs1
      obtain ⟨q, app, st, rfl⟩ := ho e (by simp)
      simp only [step] at hs1
      split at hs1
      · rename_i hg
        obtain ⟨hlt, _, happ, _⟩ := hg
        simp only [Option.some.injEq] at hs1; subst hs1
        apply ih _ s' _ _ (fun e he => ho e (by simp [he])) h
        · show (s.log ++ app).Nodup
          rw [List.nodup_append]
          refine ⟨h1, happ.1, ?_⟩
          intro a ha b hb hab
          have := h2 a ha
          have := (happ.2 b hb).1
          omega
        · intro i hia
          show i < q
          rw [List.mem_append] at hia
          cases hia with
          | inl h => have := h2 i h; omega
          | inr h => exact (happ.2 i h).2
      · exact nomatch hs1
    · exact nomatch h
end GunYu.ClusterSegments

namespace GunYu.ClusterSegments
variable (n : Nat) (grp : Nat → Nat)

instance (p q : Nat) (app : List Nat) : Decidable (PrefixCut grp p q app) := by
  unfold PrefixCut; infer_instance

/-- decidable form of `PrefixRun` -/
def prefixRunB : Tgt → List Ev → Bool
  | _, [] => true
  | s, e :: es =>
    (match e with
     | .batch q (.cut app _) => decide (PrefixCut grp s.cur q app)
     | _ => true) &&
    (match step n grp s e with
     | some s' => prefixRunB s' es
     | none => true)

theorem prefixRun_of_B : ∀ (evs : List Ev) (s : Tgt), prefixRunB n grp s evs = true →
    PrefixRun n grp s evs := by
  intro evs
  induction evs with
  | nil => intro s _; trivial
  | cons e es ih =>
    intro s h
    simp only [prefixRunB, Bool.and_eq_true] at h
    obtain ⟨h1, h2⟩ := h
    refine ⟨?_, ?_⟩
    · cases e with
      | start => trivial
      | batch q o =>
        cases o with
        | ok app st => trivial
        | cut app st => simpa using h1
    · intro s' hs'
      rw [hs'] at h2
      exact ih s' h2

end GunYu.ClusterSegments

namespace GunYu.ClusterSegments

/-- every two adjacent elements are related -/
def Adj (R : Nat → Nat → Prop) : List Nat → Prop
  | [] => True
  | [_] => True
  | x :: y :: t => R x y ∧ Adj R (y :: t)

theorem adj_append {R : Nat → Nat → Prop} : ∀ (l1 l2 : List Nat), Adj R l1 → Adj R l2 →
    (∀ x y, l1.getLast? = some x → l2.head? = some y → R x y) → Adj R (l1 ++ l2) := by
  intro l1
  induction l1 with
  | nil => intro l2 _ h2 _; simpa using h2
  | cons a t ih =>
    intro l2 h1 h2 hj
    cases t with
    | nil =>
      cases l2 with
      | nil => simp [Adj]
      | cons y t2 =>
        show Adj R (a :: y :: t2)
        exact ⟨hj a y (by simp) (by simp), h2⟩
    | cons b t' =>
      show Adj R (a :: (b :: t' ++ l2))
      have h1' : R a b ∧ Adj R (b :: t') := h1
      have := ih l2 h1'.2 h2 (fun x y hx hy => hj x y (by simpa [List.getLast?_cons_cons] using hx) hy)
      exact ⟨h1'.1, this⟩

theorem adj_prefix {R : Nat → Nat → Prop} : ∀ (l pre : List Nat), Adj R l → pre <+: l → Adj R pre := by
  intro l
  induction l with
  | nil => intro pre _ hp; have := List.prefix_nil.mp hp; subst this; trivial
  | cons a t ih =>
    intro pre hl hp
    cases pre with
    | nil => trivial
    | cons a' pt =>
      have h1 := List.cons_prefix_cons.mp hp
      obtain ⟨rfl, hpt⟩ := h1
      cases pt with
      | nil => trivial
      | cons b pt' =>
        cases t with
        | nil => exact absurd hpt (by simp)
        | cons b' t' =>
          have h2 := List.cons_prefix_cons.mp hpt
          obtain ⟨rfl, _⟩ := h2
          have hl' : R a' b ∧ Adj R (b :: t') := hl
          exact ⟨hl'.1, ih (b :: pt') hl'.2 hpt⟩

/-- in group `g`'s log, `y` directly after `x` never skips a command of the group: no command of
    `g` lies strictly between them (`y ≤ x` = a replay jumps back, `y` = the next one otherwise) -/
def NoSkipRel (grp : Nat → Nat) (g : Nat) (x y : Nat) : Prop := ∀ z, grp z = g → x < z → z < y → False

theorem adj_range_filter (grp : Nat → Nat) (g : Nat) : ∀ (m p : Nat),
    Adj (NoSkipRel grp g) ((List.range' p m).filter (fun i => grp i == g)) := by
  intro m
  induction m with
  | zero => intro p; simp [Adj]
  | succ m ih =>
    intro p
    rw [List.range'_succ, List.filter_cons]
    by_cases hp : grp p = g
    · simp only [hp, beq_self_eq_true, if_true]
      have hF := ih (p + 1)
      have hS : ((List.range' (p + 1) m).filter (fun i => grp i == g)).Pairwise (· < ·) :=
        List.Pairwise.filter _ List.pairwise_lt_range'
      cases hFl : (List.range' (p + 1) m).filter (fun i => grp i == g) with
      | nil => trivial
      | cons y t =>
        rw [hFl] at hF hS
        refine ⟨?_, hF⟩
        intro z hz hpz hzy
        have hy : y ∈ (List.range' (p + 1) m).filter (fun i => grp i == g) := by rw [hFl]; simp
        rw [List.mem_filter, List.mem_range'_1] at hy
        have hzm : z ∈ (List.range' (p + 1) m).filter (fun i => grp i == g) := by
          rw [List.mem_filter, List.mem_range'_1]
          exact ⟨⟨by omega, by omega⟩, by simp [hz]⟩
        rw [hFl, List.mem_cons] at hzm
        rw [List.pairwise_cons] at hS
        cases hzm with
        | inl e => omega
        | inr e => have := hS.1 z e; omega
    · have : (grp p == g) = false := by simp [hp]
      simp only [this]
      exact ih (p + 1)

end GunYu.ClusterSegments

namespace GunYu.ClusterSegments
variable (n : Nat) (grp : Nat → Nat)

/-- group `g`'s part of the target's log, in execution order -/
def projG (g : Nat) (l : List Nat) : List Nat := l.filter (fun i => grp i == g)

structure KInv (s : Tgt) : Prop where
  adj : ∀ g, Adj (NoSkipRel grp g) (projG grp g s.log)
  top : ∀ g x, (projG grp g s.log).getLast? = some x → ∀ z, grp z = g → z < s.cur → z ≤ x

theorem group_prefix_all {p q : Nat} {app : List Nat} (ha : AppOK p q app)
    (hp : PrefixCut grp p q app) (g : Nat) :
    projG grp g app <+: (rng p q).filter (fun j => grp j == g) := by
  by_cases h : ∃ i ∈ rng p q, grp i = g
  · obtain ⟨i, hi, rfl⟩ := h
    exact hp i hi
  · have : projG grp g app = [] := by
      unfold projG
      rw [List.filter_eq_nil_iff]
      intro j hj hg
      exact h ⟨j, rng_mem.mpr (ha.2 j hj), by simpa using hg⟩
    rw [this]
    exact List.nil_prefix

theorem sorted_head_le {l : List Nat} (hs : l.Pairwise (· < ·)) {y z : Nat} (hy : l.head? = some y)
    (hz : z ∈ l) : y ≤ z := by
  cases l with
  | nil => exact nomatch hy
  | cons a t =>
    simp only [List.head?_cons, Option.some.injEq] at hy
    subst hy
    rw [List.pairwise_cons] at hs
    rw [List.mem_cons] at hz
    cases hz with
    | inl e => omega
    | inr e => have := hs.1 z e; omega

theorem sorted_le_last {l : List Nat} (hs : l.Pairwise (· < ·)) {m z : Nat} (hm : l.getLast? = some m)
    (hz : z ∈ l) : z ≤ m := by
  rw [List.getLast?_eq_some_iff] at hm
  obtain ⟨init, rfl⟩ := hm
  rw [List.pairwise_append] at hs
  rw [List.mem_append] at hz
  cases hz with
  | inl e => have := hs.2.2 z e m (by simp); omega
  | inr e => simp at e; omega

/-- appending a batch's executions `[p,q)` (per group a prefix of the group's part) keeps the
    per-group log free of skips -/
theorem KInv_append {s : Tgt} (hk : KInv grp s) {q : Nat} {app : List Nat} (_hq : s.cur ≤ q)
    (ha : AppOK s.cur q app) (hp : PrefixCut grp s.cur q app) :
    (∀ g, Adj (NoSkipRel grp g) (projG grp g (s.log ++ app))) ∧
    (∀ g x, (projG grp g (s.log ++ app)).getLast? = some x → ∀ z, grp z = g → z < s.cur → z ≤ x) := by
  have hpre := group_prefix_all grp ha hp
  have hsplit : ∀ g, projG grp g (s.log ++ app) = projG grp g s.log ++ projG grp g app := by
    intro g; simp [projG]
  refine ⟨?_, ?_⟩
  · intro g
    rw [hsplit g]
    apply adj_append _ _ (hk.adj g)
    · exact adj_prefix _ _ (adj_range_filter grp g (q - s.cur) s.cur) (hpre g)
    · intro x y hx hy z hz hxz hzy
      have hyR : ((rng s.cur q).filter (fun j => grp j == g)).head? = some y := by
        obtain ⟨rest, hr⟩ := hpre g
        rw [← hr]
        cases hpa : projG grp g app with
        | nil => rw [hpa] at hy; exact nomatch hy
        | cons a t => rw [hpa] at hy; simpa using hy
      have hyin : y ∈ (rng s.cur q).filter (fun j => grp j == g) := by
        cases hl : (rng s.cur q).filter (fun j => grp j == g) with
        | nil => rw [hl] at hyR; exact nomatch hyR
        | cons a t => rw [hl] at hyR; simp at hyR; subst hyR; simp
      rw [List.mem_filter] at hyin
      have hyb := rng_mem.mp hyin.1
      by_cases hzp : z < s.cur
      · have := hk.top g x hx z hz hzp; omega
      · have hzin : z ∈ (rng s.cur q).filter (fun j => grp j == g) := by
          rw [List.mem_filter]; exact ⟨rng_mem.mpr ⟨by omega, by omega⟩, by simp [hz]⟩
        have := sorted_head_le (rng_filter_sorted grp s.cur q g) hyR hzin
        omega
  · intro g x hx z hz hzc
    rw [hsplit g, List.getLast?_append] at hx
    cases hla : (projG grp g app).getLast? with
    | none =>
      rw [hla] at hx
      simp only [Option.none_or] at hx
      exact hk.top g x hx z hz hzc
    | some m =>
      rw [hla] at hx
      simp only [Option.some_or, Option.some.injEq] at hx
      subst hx
      have hm : m ∈ projG grp g app := List.mem_of_getLast? hla
      unfold projG at hm
      rw [List.mem_filter] at hm
      have := (ha.2 m hm.1).1
      omega
end GunYu.ClusterSegments
namespace GunYu.ClusterSegments
variable (n : Nat) (grp : Nat → Nat)

theorem complete_prefixCut {p q : Nat} {app : List Nat} (hc : Complete grp p q app) :
    PrefixCut grp p q app := by
  intro i hi
  rw [hc i hi]
  exact List.prefix_refl _

theorem KInv_step {s s' : Tgt} {e : Ev} (hi : SInv n grp s) (hk : KInv grp s)
    (hp : match e with | .batch q (.cut app _) => PrefixCut grp s.cur q app | _ => True)
    (h : step n grp s e = some s') : KInv grp s' := by
  cases e with
  | start =>
    simp only [step, Option.some.injEq] at h; subst h
    exact ⟨hk.adj, fun g x hx z hz hzc => hk.top g x hx z hz (Nat.lt_of_lt_of_le hzc hi.le1)⟩
  | batch q o =>
    cases o with
    | ok app store =>
      simp only [step] at h
      split at h
      · rename_i hg
        obtain ⟨hle, hqn, happ, hcomp⟩ := hg
        simp only [Option.some.injEq] at h; subst h
        obtain ⟨h1, h2⟩ := KInv_append grp hk hle happ (complete_prefixCut grp hcomp)
        refine ⟨h1, ?_⟩
        intro g x hx z hz hzq
        by_cases hzc : z < s.cur
        · exact h2 g x hx z hz hzc
        · -- z is a command of the batch: it was executed by it, the group's log ends at or after it
          have hzr : z ∈ rng s.cur q := rng_mem.mpr ⟨by omega, hzq⟩
          have hzapp : z ∈ projG grp g app := by
            unfold projG
            rw [List.mem_filter]
            exact ⟨complete_mem grp hcomp hzr, by simp [hz]⟩
          have hsplit : projG grp g (s.log ++ app) = projG grp g s.log ++ projG grp g app := by
            simp [projG]
          have hx' : (projG grp g (s.log ++ app)).getLast? = some x := hx
          rw [hsplit, List.getLast?_append] at hx'
          cases hla : (projG grp g app).getLast? with
          | none =>
            have : projG grp g app = [] := List.getLast?_eq_none_iff.mp hla
            rw [this] at hzapp
            exact absurd hzapp List.not_mem_nil
          | some m =>
            rw [hla] at hx'
            simp only [Option.some_or, Option.some.injEq] at hx'
            subst hx'
            have hsorted : (projG grp g app).Pairwise (· < ·) := by
              have := complete_all_groups grp happ hcomp g
              unfold projG
              rw [this]
              exact rng_filter_sorted grp s.cur q g
            exact sorted_le_last hsorted hla hzapp
      · exact nomatch h
    | cut app st =>
      simp only [step] at h
      split at h
      · rename_i hg
        obtain ⟨hle, hqn, happ⟩ := hg
        simp only [Option.some.injEq] at h; subst h
        obtain ⟨h1, h2⟩ := KInv_append grp hk hle happ hp
        exact ⟨h1, h2⟩
      · exact nomatch h

theorem KInv_init : KInv grp {} := by
  refine ⟨fun g => ?_, fun g x hx => ?_⟩
  · simp [projG, Adj]
  · simp [projG] at hx

theorem KInv_run : ∀ (evs : List Ev) (s s' : Tgt), SInv n grp s → KInv grp s → Disciplined evs →
    PrefixRun n grp s evs → run n grp s evs = some s' → KInv grp s' := by
  intro evs
  induction evs with
  | nil => intro s s' _ hk _ _ h; simp only [run, Option.some.injEq] at h; subst h; exact hk
  | cons e es ih =>
    intro s s' hi hk hdi hp h
    simp only [run] at h
    split at h
    · rename_i s1 hs1
      obtain ⟨hp1, hp2⟩ := hp
      obtain ⟨hd1, hd2⟩ := Disciplined_head hdi
      exact ih s1 s' (SInv_step n grp hi hd1 hs1) (KInv_step n grp hi hk hp1 hs1) hd2 (hp2 s1 hs1) h
    · exact nomatch h
end GunYu.ClusterSegments

namespace GunYu.ClusterSegments
variable (n : Nat) (grp : Nat → Nat)

theorem run_append : ∀ (a b : List Ev) (s : Tgt),
    run n grp s (a ++ b) = (run n grp s a).bind (fun s1 => run n grp s1 b) := by
  intro a
  induction a with
  | nil => intro b s; rfl
  | cons e es ih =>
    intro b s
    simp only [List.cons_append, run]
    cases step n grp s e with
    | none => rfl
    | some s1 => exact ih b s1

/-- after a run of acknowledged batches the sender stands at the end of the last one -/
theorem run_ok_batches_cur : ∀ (bs : List (Nat × Outcome)) (s s' : Tgt),
    (∀ b ∈ bs, isOk b.2 = true) → run n grp s (bs.map (fun b => Ev.batch b.1 b.2)) = some s' →
    s'.cur = (bs.getLast?.map (·.1)).getD s.cur := by
  intro bs
  induction bs with
  | nil => intro s s' _ h; simp only [List.map_nil, run, Option.some.injEq] at h; subst h; rfl
  | cons b t ih =>
    intro s s' hok h
    simp only [List.map_cons, run] at h
    split at h
    · rename_i s1 hs1
      have hb := hok b (by simp)
      obtain ⟨q, o⟩ := b
      cases o with
      | cut app st => exact nomatch hb
      | ok app st =>
        simp only [step] at hs1
        split at hs1
        · simp only [Option.some.injEq] at hs1; subst hs1
          have := ih _ s' (fun x hx => hok x (by simp [hx])) h
          rw [this]
          cases t with
          | nil => rfl
          | cons b2 t2 =>
            cases hl : (b2 :: t2).getLast? with
            | none => exact absurd (List.getLast?_eq_none_iff.mp hl) (by simp)
            | some v => simp [List.getLast?_cons_cons, hl]
        · exact nomatch hs1
    · exact nomatch h
end GunYu.ClusterSegments
