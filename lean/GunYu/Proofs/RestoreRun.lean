/-
  C20 — whole runs of a replay worker.

  1. `runPlain_split` / `runBisync_split`: the run over `a ++ b` IS the run over
     `a` resumed over `b` from the remembered state and the target `a` left
     (requests, outcome, state, target — the whole `Run`), for EVERY split point,
     also in the middle of a key's chunks.
  2. invariants of a run: connection DB, clock and "cannot load" set of the target.
  3. `whole`: a generic induction over a list of key groups with pairwise
     distinct keys, for any runner that splits (1) and whose behaviour on one
     group is described by an `Eff` of what the target holds under the key.

  Core Lean only.
-/
import GunYu.Proofs.Restore

namespace GunYu.Restore

/-! ### 1. splitting a run -/

/-- continue a finished run `r` with `next` (from `r`'s remembered state and target) unless `r` failed -/
def Run.resume (r : Run) (next : RState → Target → Run) : Run :=
  if r.out = .ok then
    { reqs := r.reqs ++ (next r.st r.tgt).reqs, out := (next r.st r.tgt).out, st := (next r.st r.tgt).st,
      tgt := (next r.st r.tgt).tgt }
  else r

theorem runPlain_split (pol : Policy) (cfg : Cfg) :
    ∀ (a b : List Entry) (st : RState) (t : Target),
      runPlain pol cfg st t (a ++ b) = (runPlain pol cfg st t a).resume (fun st' t' => runPlain pol cfg st' t' b)
  | [], b, st, t => by simp [runPlain_nil, Run.resume]
  | e :: a, b, st, t => by
    have ih := runPlain_split pol cfg a b
    cases hr : replay pol cfg st (viewOf t e) e with
    | mk rs p =>
      obtain ⟨out, st'⟩ := p
      cases out <;> simp [runPlain, hr, ih, Run.resume] <;> split <;> simp_all

theorem runBisync_split (pol : Policy) (cfg : Cfg) :
    ∀ (a b : List Entry) (st : RState) (t : Target),
      runBisync pol cfg st t (a ++ b) = (runBisync pol cfg st t a).resume (fun st' t' => runBisync pol cfg st' t' b)
  | [], b, st, t => by simp [runBisync_nil, Run.resume]
  | e :: a, b, st, t => by
    have ih := runBisync_split pol cfg a b
    cases hr : buildUnit pol cfg st (viewOf t e) e with
    | mk direct p =>
      obtain ⟨cmds, out, st'⟩ := p
      cases out <;> simp [runBisync, hr, ih, Run.resume, bOut] <;> split <;> simp_all

/-! ### 2. invariants of a run: connection DB, clock, the set of payloads the target cannot load -/

theorem applyReq_bad (t : Target) (r : Req) : (applyReq t r).bad = t.bad := by
  cases r <;> simp [applyReq, Target.put, reqKey]

theorem applyReqs_bad (t : Target) (rs : List Req) : (applyReqs t rs).bad = t.bad := by
  induction rs generalizing t with
  | nil => rfl
  | cons r rs ih => simp only [applyReqs, List.foldl_cons]; exact (ih (applyReq t r)).trans (applyReq_bad t r)

def noSelB : Req → Bool
  | .select _ => false
  | _ => true

theorem noSelB_iff {r : Req} : noSelB r = true ↔ noSel r := by
  cases r <;> simp [noSelB, noSel]

theorem expand_noSelB (cfg : Cfg) (e : Entry) : (expand cfg e).all noSelB = true := by
  unfold expand
  simp only [List.all_append, List.all_map, Bool.and_eq_true]
  refine ⟨by simp [List.all_eq_true, noSelB], by split <;> simp [noSelB]⟩

theorem expandB_noSelB (cfg : Cfg) (e : Entry) (b : Bool) : (expandB cfg e b).all noSelB = true := by
  unfold expandB
  simp only [List.all_append, List.all_map, Bool.and_eq_true]
  refine ⟨by cases b <;> simp [List.all_eq_true, noSelB], by split <;> simp [noSelB]⟩

theorem replay_noSelB (pol : Policy) (cfg : Cfg) (st : RState) (v : View) (e : Entry) :
    (replay pol cfg st v e).1.all noSelB = true := by
  have hx := expand_noSelB cfg e
  unfold replay
  repeat' split
  all_goals simp [List.all_cons, noSelB, hx, List.all_map, List.all_eq_true]

theorem replay_noSel (pol : Policy) (cfg : Cfg) (st : RState) (v : View) (e : Entry) :
    ∀ r ∈ (replay pol cfg st v e).1, noSel r := by
  intro r hr
  exact noSelB_iff.mp (List.all_eq_true.mp (replay_noSelB pol cfg st v e) r hr)

theorem execUnit_noSelB (cmds : List Req) (h : cmds.all noSelB = true) : (execUnit cmds).all noSelB = true := by
  simp [execUnit, List.all_cons, List.all_append, noSelB, h]

/-- the requests of one bidirectional step: the probe, then the unit if one is built -/
def unitReqs (b : List Req × List Req × BOutcome × RState) : List Req :=
  b.1 ++ (if b.2.2.1 = .unit then execUnit b.2.1 else [])

theorem buildUnit_direct_noSelB (pol : Policy) (cfg : Cfg) (st : RState) (v : View) (e : Entry) :
    (buildUnit pol cfg st v e).1.all noSelB = true := by
  unfold buildUnit
  extract_lets hasKey st1 probe direct c1 c2
  have hd : direct.all noSelB = true := by
    simp only [direct]; split <;> simp [noSelB]
  clear_value c2 c1 direct probe st1 hasKey
  repeat' split
  all_goals simp [hd, List.all_append, execUnit, noSelB]

theorem buildUnit_cmds_noSelB (pol : Policy) (cfg : Cfg) (st : RState) (v : View) (e : Entry) :
    (buildUnit pol cfg st v e).2.1.all noSelB = true := by
  unfold buildUnit
  extract_lets hasKey st1 probe direct c1 c2
  have h1 : c1.all noSelB = true := expandB_noSelB cfg e hasKey
  have h2 : c2.all noSelB = true := by
    simp only [c2]; split <;> simp [noSelB, h1]
  clear_value c2 c1 direct probe st1 hasKey
  repeat' split
  all_goals simp [h2, noSelB]

theorem buildUnit_noSelB (pol : Policy) (cfg : Cfg) (st : RState) (v : View) (e : Entry) :
    (unitReqs (buildUnit pol cfg st v e)).all noSelB = true := by
  unfold unitReqs
  rw [List.all_append, buildUnit_direct_noSelB]
  split
  · simp [execUnit_noSelB _ (buildUnit_cmds_noSelB pol cfg st v e)]
  · simp

theorem runPlain_inv (pol : Policy) (cfg : Cfg) :
    ∀ (es : List Entry) (st : RState) (t : Target),
      (runPlain pol cfg st t es).tgt.cur = t.cur ∧ (runPlain pol cfg st t es).tgt.now = t.now ∧
      (runPlain pol cfg st t es).tgt.bad = t.bad
  | [], st, t => by simp [runPlain_nil]
  | e :: es, st, t => by
    have hns := replay_noSel pol cfg st (viewOf t e) e
    cases hr : replay pol cfg st (viewOf t e) e with
    | mk rs p =>
      obtain ⟨out, st'⟩ := p
      rw [hr] at hns
      have h1 := applyReqs_cur t rs hns
      have h2 := applyReqs_now t rs
      have h3 := applyReqs_bad t rs
      have ih := runPlain_inv pol cfg es st' (applyReqs t rs)
      cases out <;> simp [runPlain, hr, h1, h2, h3, ih]

theorem runBisync_inv (pol : Policy) (cfg : Cfg) :
    ∀ (es : List Entry) (st : RState) (t : Target),
      (runBisync pol cfg st t es).tgt.cur = t.cur ∧ (runBisync pol cfg st t es).tgt.now = t.now ∧
      (runBisync pol cfg st t es).tgt.bad = t.bad
  | [], st, t => by simp [runBisync_nil]
  | e :: es, st, t => by
    have hns : ∀ r ∈ unitReqs (buildUnit pol cfg st (viewOf t e) e), noSel r := fun r hr =>
      noSelB_iff.mp (List.all_eq_true.mp (buildUnit_noSelB pol cfg st (viewOf t e) e) r hr)
    cases hr : buildUnit pol cfg st (viewOf t e) e with
    | mk direct p =>
      obtain ⟨cmds, out, st'⟩ := p
      rw [hr] at hns
      simp only [unitReqs] at hns
      have h1 := applyReqs_cur t _ hns
      have h2 := applyReqs_now t (direct ++ if out = .unit then execUnit cmds else [])
      have h3 := applyReqs_bad t (direct ++ if out = .unit then execUnit cmds else [])
      have ih := runBisync_inv pol cfg es st' (applyReqs t (direct ++ if out = .unit then execUnit cmds else []))
      cases out <;> simp_all [runBisync, bOut]

/-! ### 3. a list of key groups with pairwise distinct keys -/

/-- a key group: first chunk and later chunks of one snapshot key -/
abbrev KGroup := Entry × List Entry
def KGroup.entries (g : KGroup) : List Entry := g.1 :: g.2
def KGroup.key (g : KGroup) : Bytes := g.1.key
/-- the entry stream of a snapshot: its key groups one after the other -/
def flat (gs : List KGroup) : List Entry := gs.flatMap KGroup.entries

theorem flat_cons (g : KGroup) (gs : List KGroup) : flat (g :: gs) = g.entries ++ flat gs := by
  simp [flat]

/-- what a worker does with one key group, seen from the key -/
inductive Eff
  | keep                  -- nothing is written, the run goes on
  | set (o : Obj)         -- the key ends as `o`, nothing else is written, the run goes on
  | stop (out : Outcome)  -- the run stops with `out`, nothing is written

def Eff.isStop : Eff → Bool
  | .stop _ => true
  | _ => false

/-- the key's object after the group, given what it was -/
def Eff.result (was : Option Obj) : Eff → Option Obj
  | .set o => some o
  | _ => was

/-- a worker loop `run` that splits at any point, keeps the connection's DB, and
    whose behaviour on ONE key group (of kind `good`) is the effect `eff t g`,
    a function of the target's clock, of the payloads it cannot load and of what
    it holds under the group's key -/
structure Runner (run : RState → Target → List Entry → Run) (eff : Target → KGroup → Eff) (good : KGroup → Prop) : Prop where
  nil : ∀ st t, run st t [] = { st := st, tgt := t }
  split : ∀ a b st t, run st t (a ++ b) = (run st t a).resume (fun st' t' => run st' t' b)
  inv : ∀ es st t, (run st t es).tgt.cur = t.cur ∧ (run st t es).tgt.now = t.now ∧ (run st t es).tgt.bad = t.bad
  loc : ∀ t t' g, t'.now = t.now → t'.bad = t.bad → t'.get g.key = t.get g.key → eff t' g = eff t g
  keep : ∀ st t g, good g → eff t g = .keep →
    (run st t g.entries).out = .ok ∧ ∀ d k, (run st t g.entries).tgt.ks d k = t.ks d k
  set : ∀ st t g o, good g → eff t g = .set o →
    (run st t g.entries).out = .ok ∧ (run st t g.entries).tgt.get g.key = some o ∧
    ∀ d k, ¬ (d = t.cur ∧ k = g.key) → (run st t g.entries).tgt.ks d k = t.ks d k
  stop : ∀ st t g out, good g → eff t g = .stop out →
    out ≠ .ok ∧ (run st t g.entries).out = out ∧ ∀ d k, (run st t g.entries).tgt.ks d k = t.ks d k

theorem Runner.whole {run : RState → Target → List Entry → Run} {eff : Target → KGroup → Eff} {good : KGroup → Prop}
    (R : Runner run eff good) :
    ∀ (gs : List KGroup) (st : RState) (t : Target), (∀ g ∈ gs, good g) → (gs.map KGroup.key).Nodup →
      (∀ d k, ¬ (d = t.cur ∧ k ∈ gs.map KGroup.key) → (run st t (flat gs)).tgt.ks d k = t.ks d k) ∧
      ((∀ g ∈ gs, (eff t g).isStop = false) →
        (run st t (flat gs)).out = .ok ∧
        ∀ g ∈ gs, (run st t (flat gs)).tgt.get g.key = (eff t g).result (t.get g.key)) ∧
      (∀ pre g post out, gs = pre ++ g :: post → (∀ p ∈ pre, (eff t p).isStop = false) → eff t g = .stop out →
        (run st t (flat gs)).out = out ∧
        (∀ p ∈ pre, (run st t (flat gs)).tgt.get p.key = (eff t p).result (t.get p.key)) ∧
        (∀ d k, ¬ (d = t.cur ∧ k ∈ pre.map KGroup.key) → (run st t (flat gs)).tgt.ks d k = t.ks d k))
  | [], st, t, _, _ => by
    refine ⟨?_, ?_, ?_⟩
    · intro d k _; simp [flat, R.nil]
    · intro _; simp [flat, R.nil]
    · intro pre g post out h; simp at h
  | g :: gs, st, t, hgood, hnd => by
    have hg : good g := hgood g (List.mem_cons_self ..)
    have hgs : ∀ x ∈ gs, good x := fun x hx => hgood x (List.mem_cons_of_mem _ hx)
    have hnd' : (gs.map KGroup.key).Nodup := (List.nodup_cons.mp (by simpa using hnd)).2
    have hnotin : g.key ∉ gs.map KGroup.key := (List.nodup_cons.mp (by simpa using hnd)).1
    obtain ⟨icur, inow, ibad⟩ := R.inv g.entries st t
    rw [flat_cons, R.split]
    -- keep / set: the run goes on from the target the group left
    have cont : (run st t g.entries).out = .ok →
        (∀ d k, ¬ (d = t.cur ∧ k = g.key) → (run st t g.entries).tgt.ks d k = t.ks d k) →
        (run st t g.entries).tgt.get g.key = (eff t g).result (t.get g.key) →
        (eff t g).isStop = false →
        (∀ d k, ¬ (d = t.cur ∧ k ∈ (g :: gs).map KGroup.key) →
          ((run st t g.entries).resume fun st' t' => run st' t' (flat gs)).tgt.ks d k = t.ks d k) ∧
        ((∀ x ∈ g :: gs, (eff t x).isStop = false) →
          ((run st t g.entries).resume fun st' t' => run st' t' (flat gs)).out = .ok ∧
          ∀ x ∈ g :: gs, ((run st t g.entries).resume fun st' t' => run st' t' (flat gs)).tgt.get x.key
            = (eff t x).result (t.get x.key)) ∧
        (∀ pre x post out, g :: gs = pre ++ x :: post → (∀ p ∈ pre, (eff t p).isStop = false) → eff t x = .stop out →
          ((run st t g.entries).resume fun st' t' => run st' t' (flat gs)).out = out ∧
          (∀ p ∈ pre, ((run st t g.entries).resume fun st' t' => run st' t' (flat gs)).tgt.get p.key
            = (eff t p).result (t.get p.key)) ∧
          (∀ d k, ¬ (d = t.cur ∧ k ∈ pre.map KGroup.key) →
            ((run st t g.entries).resume fun st' t' => run st' t' (flat gs)).tgt.ks d k = t.ks d k)) := by
      intro F1 F2 F3 hns
      generalize run st t g.entries = r1 at F1 F2 F3 icur inow ibad
      simp only [Run.resume, F1, if_true]
      obtain ⟨ih1, ih2, ih3⟩ := Runner.whole R gs r1.st r1.tgt hgs hnd'
      obtain ⟨jcur, _, _⟩ := R.inv (flat gs) r1.st r1.tgt
      have hne : ∀ x ∈ gs, x.key ≠ g.key := by
        intro x hx h; exact hnotin (h ▸ List.mem_map_of_mem (f := KGroup.key) hx)
      have hget : ∀ x ∈ gs, r1.tgt.get x.key = t.get x.key := by
        intro x hx
        unfold Target.get
        rw [icur]
        exact F2 t.cur x.key (fun h => hne x hx h.2)
      have heff : ∀ x ∈ gs, eff r1.tgt x = eff t x := fun x hx => R.loc t r1.tgt x inow ibad (hget x hx)
      -- the group's own key after the rest of the run
      have hown : ∀ (fin : Target), fin.cur = r1.tgt.cur →
          (∀ d k, ¬ (d = r1.tgt.cur ∧ k ∈ gs.map KGroup.key) → fin.ks d k = r1.tgt.ks d k) →
          fin.get g.key = (eff t g).result (t.get g.key) := by
        intro fin hc hf
        rw [← F3]
        unfold Target.get
        rw [hc]
        exact hf r1.tgt.cur g.key (fun h => hnotin h.2)
      refine ⟨?_, ?_, ?_⟩
      · intro d k hdk
        rw [ih1 d k (fun h => hdk ⟨h.1.trans icur, List.mem_cons_of_mem _ (by simpa using h.2)⟩)]
        exact F2 d k (fun h => hdk ⟨h.1, by simp [h.2]⟩)
      · intro hall
        obtain ⟨o1, o2⟩ := ih2 (fun x hx => by rw [heff x hx]; exact hall x (List.mem_cons_of_mem _ hx))
        refine ⟨o1, ?_⟩
        intro x hx
        rcases List.mem_cons.mp hx with rfl | hx
        · exact hown _ jcur ih1
        · rw [o2 x hx, heff x hx, hget x hx]
      · intro pre x post out hsplit hpre hx
        cases pre with
        | nil =>
          simp only [List.nil_append, List.cons.injEq] at hsplit
          obtain ⟨rfl, _⟩ := hsplit
          rw [hx] at hns; simp [Eff.isStop] at hns
        | cons p pre' =>
          simp only [List.cons_append, List.cons.injEq] at hsplit
          obtain ⟨rfl, hgs'⟩ := hsplit
          have hxin : x ∈ gs := by rw [hgs']; simp
          have hprein : ∀ q ∈ pre', q ∈ gs := by intro q hq; rw [hgs']; simp [hq]
          obtain ⟨o1, o2, o3⟩ := ih3 pre' x post out hgs'
            (fun q hq => by rw [heff q (hprein q hq)]; exact hpre q (List.mem_cons_of_mem _ hq))
            (by rw [heff x hxin]; exact hx)
          refine ⟨o1, ?_, ?_⟩
          · intro q hq
            rcases List.mem_cons.mp hq with rfl | hq
            · refine hown _ jcur (fun d k hdk => o3 d k (fun h => hdk ⟨h.1, ?_⟩))
              obtain ⟨y, hy, rfl⟩ := List.mem_map.mp h.2
              exact List.mem_map_of_mem (f := KGroup.key) (hprein y hy)
            · rw [o2 q hq, heff q (hprein q hq), hget q (hprein q hq)]
          · intro d k hdk
            rw [o3 d k (fun h => hdk ⟨h.1.trans icur, List.mem_cons_of_mem _ (by simpa using h.2)⟩)]
            exact F2 d k (fun h => hdk ⟨h.1, by simp [h.2]⟩)
    cases he : eff t g with
    | stop out =>
      obtain ⟨hne, hout, hks⟩ := R.stop st t g out hg he
      have hres : (run st t g.entries).resume (fun st' t' => run st' t' (flat gs)) = run st t g.entries := by
        simp [Run.resume, hout, hne]
      rw [hres]
      refine ⟨fun d k _ => hks d k, ?_, ?_⟩
      · intro h; have := h g (List.mem_cons_self ..); simp [he, Eff.isStop] at this
      · intro pre x post out' hsplit hpre hx
        cases pre with
        | nil =>
          simp only [List.nil_append, List.cons.injEq] at hsplit
          obtain ⟨rfl, _⟩ := hsplit
          rw [he] at hx; cases hx
          exact ⟨hout, by simp, fun d k _ => hks d k⟩
        | cons p pre' =>
          simp only [List.cons_append, List.cons.injEq] at hsplit
          obtain ⟨rfl, _⟩ := hsplit
          have := hpre g (List.mem_cons_self ..)
          simp [he, Eff.isStop] at this
    | keep =>
      obtain ⟨ho, hks⟩ := R.keep st t g hg he
      rw [he] at cont
      refine cont ho (fun d k _ => hks d k) ?_ rfl
      simp only [Eff.result]
      unfold Target.get
      rw [icur]; exact hks _ _
    | set o =>
      obtain ⟨ho, hk, hks⟩ := R.set st t g o hg he
      rw [he] at cont
      exact cont ho hks (by simpa [Eff.result] using hk) rfl

/-! ### 4. the worker loop with DB selection, over any runner

  `runWG run` is `rdbReplay` / `rdbReplayBisync` (= `runWorker`, see
  `runWorker_is_runWG_*`): SELECT when the entry's DB differs from the
  connection's, then one step of `run`; it returns the run and the DB the
  connection is left in. -/

def runWG (run : RState → Target → List Entry → Run) : Nat → RState → Target → List Entry → Run × Nat
  | cur, st, t, [] => ({ st := st, tgt := t }, cur)
  | cur, st, t, e :: rest =>
    let sel : List Req := if e.db ≥ 0 ∧ e.db.toNat ≠ cur then [Req.select e.db.toNat] else []
    let cur' := if e.db ≥ 0 then e.db.toNat else cur
    let r1 := run st (applyReqs t sel) [e]
    if r1.out = .ok then
      let w := runWG run cur' r1.st r1.tgt rest
      ({ reqs := sel ++ r1.reqs ++ w.1.reqs, out := w.1.out, st := w.1.st, tgt := w.1.tgt }, w.2)
    else ({ reqs := sel ++ r1.reqs, out := r1.out, st := r1.st, tgt := r1.tgt }, cur')

/-- continue a worker run -/
def wResume (w : Run × Nat) (next : Nat → RState → Target → Run × Nat) : Run × Nat :=
  if w.1.out = .ok then
    ({ reqs := w.1.reqs ++ (next w.2 w.1.st w.1.tgt).1.reqs, out := (next w.2 w.1.st w.1.tgt).1.out,
       st := (next w.2 w.1.st w.1.tgt).1.st, tgt := (next w.2 w.1.st w.1.tgt).1.tgt }, (next w.2 w.1.st w.1.tgt).2)
  else w

theorem runWG_split (run : RState → Target → List Entry → Run) :
    ∀ (a b : List Entry) (cur : Nat) (st : RState) (t : Target),
      runWG run cur st t (a ++ b) = wResume (runWG run cur st t a) (fun c st' t' => runWG run c st' t' b)
  | [], b, cur, st, t => by simp [runWG, wResume]
  | e :: a, b, cur, st, t => by
    have ih := runWG_split run a b
    simp only [List.cons_append, runWG]
    generalize (if e.db ≥ 0 ∧ e.db.toNat ≠ cur then [Req.select e.db.toNat] else []) = sel
    generalize (if e.db ≥ 0 then e.db.toNat else cur) = cur'
    generalize run st (applyReqs t sel) [e] = r1
    by_cases h1 : r1.out = .ok
    · simp only [h1, if_true, ih]
      generalize runWG run cur' r1.st r1.tgt a = w
      unfold wResume
      by_cases h2 : w.1.out = .ok
      · simp [h2]
      · simp [h2]
    · simp [h1, wResume]

theorem Run.eta (r : Run) : ({ reqs := r.reqs, out := r.out, st := r.st, tgt := r.tgt } : Run) = r := rfl

/-- entries of the DB the connection is in: no SELECT, the worker loop is the runner -/
theorem Runner.runWG_sameDb {run : RState → Target → List Entry → Run} {eff : Target → KGroup → Eff} {good : KGroup → Prop}
    (R : Runner run eff good) (d : Nat) :
    ∀ (es : List Entry) (st : RState) (t : Target), (∀ e ∈ es, e.db = Int.ofNat d) →
      runWG run d st t es = (run st t es, d)
  | [], st, t, _ => by simp [runWG, R.nil]
  | e :: es, st, t, h => by
    have he : e.db = Int.ofNat d := h e (List.mem_cons_self ..)
    have hsel : (if e.db ≥ 0 ∧ e.db.toNat ≠ d then [Req.select e.db.toNat] else []) = [] := by rw [he]; simp
    have hcur : (if e.db ≥ 0 then e.db.toNat else d) = d := by rw [he]; simp
    have ih := fun st' t' => Runner.runWG_sameDb R d es st' t' (fun x hx => h x (List.mem_cons_of_mem _ hx))
    have hs := R.split [e] es st t
    simp only [List.singleton_append] at hs
    simp only [runWG, hsel, hcur, applyReqs, List.foldl_nil, List.nil_append, ih, hs, Run.resume]
    split <;> rfl

/-- the chunks of one key, all of DB `d`, met by a connection that is in DB `c`:
    SELECT if `d ≠ c`, then the runner on the group -/
theorem Runner.runWG_group {run : RState → Target → List Entry → Run} {eff : Target → KGroup → Eff} {good : KGroup → Prop}
    (R : Runner run eff good) (c d : Nat) (st : RState) (t : Target) (e0 : Entry) (rest : List Entry)
    (h : ∀ e ∈ e0 :: rest, e.db = Int.ofNat d) :
    runWG run c st t (e0 :: rest) =
      ({ reqs := (if d ≠ c then [Req.select d] else []) ++
            (run st (applyReqs t (if d ≠ c then [Req.select d] else [])) (e0 :: rest)).reqs,
         out := (run st (applyReqs t (if d ≠ c then [Req.select d] else [])) (e0 :: rest)).out,
         st := (run st (applyReqs t (if d ≠ c then [Req.select d] else [])) (e0 :: rest)).st,
         tgt := (run st (applyReqs t (if d ≠ c then [Req.select d] else [])) (e0 :: rest)).tgt }, d) := by
    have he : e0.db = Int.ofNat d := h e0 (List.mem_cons_self ..)
    have hsel : (if e0.db ≥ 0 ∧ e0.db.toNat ≠ c then [Req.select e0.db.toNat] else [])
        = (if d ≠ c then [Req.select d] else []) := by rw [he]; simp
    have hcur : (if e0.db ≥ 0 then e0.db.toNat else c) = d := by rw [he]; simp
    have hrest := fun st' t' => Runner.runWG_sameDb R d rest st' t' (fun x hx => h x (List.mem_cons_of_mem _ hx))
    have hs := R.split [e0] rest st (applyReqs t (if d ≠ c then [Req.select d] else []))
    simp only [List.singleton_append] at hs
    simp only [runWG, hsel, hcur, hrest, hs, Run.resume]
    generalize (if d ≠ c then [Req.select d] else []) = sel
    generalize run st (applyReqs t sel) [e0] = r1
    by_cases h1 : r1.out = .ok <;> simp [h1, List.append_assoc]

theorem applySel (t : Target) (c d : Nat) (hc : t.cur = c) :
    (applyReqs t (if d ≠ c then [Req.select d] else [])).cur = d ∧
    (applyReqs t (if d ≠ c then [Req.select d] else [])).ks = t.ks ∧
    (applyReqs t (if d ≠ c then [Req.select d] else [])).now = t.now ∧
    (applyReqs t (if d ≠ c then [Req.select d] else [])).bad = t.bad := by
  by_cases h : d = c
  · subst h; simp [applyReqs, hc]
  · simp [h, applyReqs, applyReq]

/-! the whole snapshot over several DBs: a key is a cell (db, key) -/

def KGroup.dbn (g : KGroup) : Nat := g.1.db.toNat
def KGroup.cell (g : KGroup) : Nat × Bytes := (g.dbn, g.key)
/-- all chunks of the key carry the key's (non-negative) DB -/
def KGroup.oneDb (g : KGroup) : Prop := ∀ e ∈ g.entries, e.db = Int.ofNat g.dbn
/-- the target as a connection that is in DB `d` sees it -/
def Target.inDb (t : Target) (d : Nat) : Target := { t with cur := d }

theorem Runner.wholeW {run : RState → Target → List Entry → Run} {eff : Target → KGroup → Eff} {good : KGroup → Prop}
    (R : Runner run eff good) :
    ∀ (gs : List KGroup) (c : Nat) (st : RState) (t : Target), t.cur = c → (∀ g ∈ gs, good g ∧ g.oneDb) →
      (gs.map KGroup.cell).Nodup →
      (∀ d k, (d, k) ∉ gs.map KGroup.cell → (runWG run c st t (flat gs)).1.tgt.ks d k = t.ks d k) ∧
      ((∀ g ∈ gs, (eff (t.inDb g.dbn) g).isStop = false) →
        (runWG run c st t (flat gs)).1.out = .ok ∧
        ∀ g ∈ gs, (runWG run c st t (flat gs)).1.tgt.ks g.dbn g.key
          = (eff (t.inDb g.dbn) g).result (t.ks g.dbn g.key)) ∧
      (∀ pre g post out, gs = pre ++ g :: post → (∀ p ∈ pre, (eff (t.inDb p.dbn) p).isStop = false) →
        eff (t.inDb g.dbn) g = .stop out →
        (runWG run c st t (flat gs)).1.out = out ∧
        (∀ p ∈ pre, (runWG run c st t (flat gs)).1.tgt.ks p.dbn p.key
          = (eff (t.inDb p.dbn) p).result (t.ks p.dbn p.key)) ∧
        (∀ d k, (d, k) ∉ pre.map KGroup.cell → (runWG run c st t (flat gs)).1.tgt.ks d k = t.ks d k))
  | [], c, st, t, _, _, _ => by
    refine ⟨?_, ?_, ?_⟩
    · intro d k _; simp [flat, runWG]
    · intro _; simp [flat, runWG]
    · intro pre g post out h; simp at h
  | g :: gs, c, st, t, hc, hgood, hnd => by
    have hg : good g := (hgood g (List.mem_cons_self ..)).1
    have hdb : ∀ e ∈ g.1 :: g.2, e.db = Int.ofNat g.dbn := (hgood g (List.mem_cons_self ..)).2
    have hgs : ∀ x ∈ gs, good x ∧ x.oneDb := fun x hx => hgood x (List.mem_cons_of_mem _ hx)
    have hnd' : (gs.map KGroup.cell).Nodup := (List.nodup_cons.mp (by simpa using hnd)).2
    have hnotin : g.cell ∉ gs.map KGroup.cell := (List.nodup_cons.mp (by simpa using hnd)).1
    obtain ⟨s1, s2, s3, s4⟩ := applySel t c g.dbn hc
    have hW := R.runWG_group c g.dbn st t g.1 g.2 hdb
    rw [flat_cons, runWG_split]
    show _ ∧ _ ∧ _
    have hent : g.entries = g.1 :: g.2 := rfl
    rw [hent, hW]
    generalize applyReqs t (if g.dbn ≠ c then [Req.select g.dbn] else []) = t1 at s1 s2 s3 s4
    generalize (if g.dbn ≠ c then [Req.select g.dbn] else []) = sel
    obtain ⟨icur, inow, ibad⟩ := R.inv (g.1 :: g.2) st t1
    have heffg : eff t1 g = eff (t.inDb g.dbn) g := by
      refine R.loc (t.inDb g.dbn) t1 g s3 s4 ?_
      simp only [Target.get, Target.inDb, s1, s2]
    have hk := R.keep st t1 g hg
    have hs := R.set st t1 g
    have hst := R.stop st t1 g
    rw [heffg, hent] at hk hst
    simp only [heffg, hent] at hs
    generalize run st t1 (g.1 :: g.2) = r1 at icur inow ibad hk hs hst
    have cont : r1.out = .ok →
        (∀ d k, ¬ (d = g.dbn ∧ k = g.key) → r1.tgt.ks d k = t.ks d k) →
        r1.tgt.ks g.dbn g.key = (eff (t.inDb g.dbn) g).result (t.ks g.dbn g.key) →
        (eff (t.inDb g.dbn) g).isStop = false →
        (∀ d k, (d, k) ∉ (g :: gs).map KGroup.cell →
          (wResume ({ reqs := sel ++ r1.reqs, out := r1.out, st := r1.st, tgt := r1.tgt }, g.dbn)
            fun c st' t' => runWG run c st' t' (flat gs)).1.tgt.ks d k = t.ks d k) ∧
        ((∀ x ∈ g :: gs, (eff (t.inDb x.dbn) x).isStop = false) →
          (wResume ({ reqs := sel ++ r1.reqs, out := r1.out, st := r1.st, tgt := r1.tgt }, g.dbn)
            fun c st' t' => runWG run c st' t' (flat gs)).1.out = .ok ∧
          ∀ x ∈ g :: gs, (wResume ({ reqs := sel ++ r1.reqs, out := r1.out, st := r1.st, tgt := r1.tgt }, g.dbn)
            fun c st' t' => runWG run c st' t' (flat gs)).1.tgt.ks x.dbn x.key
            = (eff (t.inDb x.dbn) x).result (t.ks x.dbn x.key)) ∧
        (∀ pre x post out, g :: gs = pre ++ x :: post → (∀ p ∈ pre, (eff (t.inDb p.dbn) p).isStop = false) →
          eff (t.inDb x.dbn) x = .stop out →
          (wResume ({ reqs := sel ++ r1.reqs, out := r1.out, st := r1.st, tgt := r1.tgt }, g.dbn)
            fun c st' t' => runWG run c st' t' (flat gs)).1.out = out ∧
          (∀ p ∈ pre, (wResume ({ reqs := sel ++ r1.reqs, out := r1.out, st := r1.st, tgt := r1.tgt }, g.dbn)
            fun c st' t' => runWG run c st' t' (flat gs)).1.tgt.ks p.dbn p.key
            = (eff (t.inDb p.dbn) p).result (t.ks p.dbn p.key)) ∧
          (∀ d k, (d, k) ∉ pre.map KGroup.cell →
            (wResume ({ reqs := sel ++ r1.reqs, out := r1.out, st := r1.st, tgt := r1.tgt }, g.dbn)
              fun c st' t' => runWG run c st' t' (flat gs)).1.tgt.ks d k = t.ks d k)) := by
      intro F1 F2 F3 hns
      simp only [wResume, F1, if_true]
      obtain ⟨ih1, ih2, ih3⟩ := Runner.wholeW R gs g.dbn r1.st r1.tgt (icur.trans s1) hgs hnd'
      have hne : ∀ x ∈ gs, ¬ (x.dbn = g.dbn ∧ x.key = g.key) := by
        intro x hx h
        apply hnotin
        have : x.cell = g.cell := by simp only [KGroup.cell, h.1, h.2]
        rw [← this]; exact List.mem_map_of_mem (f := KGroup.cell) hx
      have hks : ∀ x ∈ gs, r1.tgt.ks x.dbn x.key = t.ks x.dbn x.key := fun x hx => F2 _ _ (hne x hx)
      have heff : ∀ x ∈ gs, eff (r1.tgt.inDb x.dbn) x = eff (t.inDb x.dbn) x := by
        intro x hx
        refine R.loc (t.inDb x.dbn) (r1.tgt.inDb x.dbn) x (inow.trans s3) (ibad.trans s4) ?_
        simp only [Target.get, Target.inDb]; exact hks x hx
      have hnotin' : (g.dbn, g.key) ∉ gs.map KGroup.cell := hnotin
      refine ⟨?_, ?_, ?_⟩
      · intro d k hdk
        rw [ih1 d k (fun h => hdk (List.mem_cons_of_mem _ (by simpa using h)))]
        exact F2 d k (fun h => hdk (by simp [KGroup.cell, h.1, h.2]))
      · intro hall
        obtain ⟨o1, o2⟩ := ih2 (fun x hx => by rw [heff x hx]; exact hall x (List.mem_cons_of_mem _ hx))
        refine ⟨o1, ?_⟩
        intro x hx
        rcases List.mem_cons.mp hx with rfl | hx
        · rw [ih1 _ _ hnotin']; exact F3
        · rw [o2 x hx, heff x hx, hks x hx]
      · intro pre x post out hsplit hpre hx
        cases pre with
        | nil =>
          simp only [List.nil_append, List.cons.injEq] at hsplit
          obtain ⟨rfl, _⟩ := hsplit
          rw [hx] at hns; simp [Eff.isStop] at hns
        | cons p pre' =>
          simp only [List.cons_append, List.cons.injEq] at hsplit
          obtain ⟨rfl, hgs'⟩ := hsplit
          have hxin : x ∈ gs := by rw [hgs']; simp
          have hprein : ∀ q ∈ pre', q ∈ gs := by intro q hq; rw [hgs']; simp [hq]
          obtain ⟨o1, o2, o3⟩ := ih3 pre' x post out hgs'
            (fun q hq => by rw [heff q (hprein q hq)]; exact hpre q (List.mem_cons_of_mem _ hq))
            (by rw [heff x hxin]; exact hx)
          have hnotpre : (g.dbn, g.key) ∉ pre'.map KGroup.cell := by
            intro h
            obtain ⟨y, hy, hye⟩ := List.mem_map.mp h
            exact hnotin' (hye ▸ List.mem_map_of_mem (f := KGroup.cell) (hprein y hy))
          refine ⟨o1, ?_, ?_⟩
          · intro q hq
            rcases List.mem_cons.mp hq with rfl | hq
            · rw [o3 _ _ hnotpre]; exact F3
            · rw [o2 q hq, heff q (hprein q hq), hks q (hprein q hq)]
          · intro d k hdk
            rw [o3 d k (fun h => hdk (List.mem_cons_of_mem _ (by simpa using h)))]
            exact F2 d k (fun h => hdk (by simp [KGroup.cell, h.1, h.2]))
    have F2of : (∀ d k, ¬ (d = t1.cur ∧ k = g.key) → r1.tgt.ks d k = t1.ks d k) →
        ∀ d k, ¬ (d = g.dbn ∧ k = g.key) → r1.tgt.ks d k = t.ks d k := by
      intro h d k hdk
      rw [h d k (by rw [s1]; exact hdk), s2]
    cases he : eff (t.inDb g.dbn) g with
    | stop out =>
      obtain ⟨hne, hout, hks⟩ := hst out hg he
      have hres : (wResume ({ reqs := sel ++ r1.reqs, out := r1.out, st := r1.st, tgt := r1.tgt }, g.dbn)
          fun c st' t' => runWG run c st' t' (flat gs))
          = ({ reqs := sel ++ r1.reqs, out := r1.out, st := r1.st, tgt := r1.tgt }, g.dbn) := by
        simp [wResume, hout, hne]
      rw [hres]
      have hks' : ∀ d k, r1.tgt.ks d k = t.ks d k := fun d k => by rw [hks d k, s2]
      refine ⟨fun d k _ => hks' d k, ?_, ?_⟩
      · intro h; have := h g (List.mem_cons_self ..); simp [he, Eff.isStop] at this
      · intro pre x post out' hsplit hpre hx
        cases pre with
        | nil =>
          simp only [List.nil_append, List.cons.injEq] at hsplit
          obtain ⟨rfl, _⟩ := hsplit
          rw [he] at hx; cases hx
          exact ⟨hout, by simp, fun d k _ => hks' d k⟩
        | cons p pre' =>
          simp only [List.cons_append, List.cons.injEq] at hsplit
          obtain ⟨rfl, _⟩ := hsplit
          have := hpre g (List.mem_cons_self ..)
          simp [he, Eff.isStop] at this
    | keep =>
      obtain ⟨ho, hks⟩ := hk he
      rw [he] at cont
      refine cont ho (fun d k _ => by rw [hks d k, s2]) ?_ rfl
      simp only [Eff.result]
      rw [hks, s2]
    | set o =>
      obtain ⟨ho, hkk, hks⟩ := hs o hg he
      rw [he] at cont
      refine cont ho (F2of hks) ?_ rfl
      simp only [Eff.result]
      rw [← hkk]; simp only [Target.get, icur, s1]

/-! `runWorker` (the function the correspondence harness compares the real worker loops with) is `runWG` -/

theorem workerTarget_cons (t : Target) (l : List Req × Outcome) (ls : List (List Req × Outcome)) :
    workerTarget t (l :: ls) = workerTarget (applyReqs t l.1) ls := rfl

theorem runWorker_is_runWG_plain (pol : Policy) (cfg : Cfg) :
    ∀ (es : List Entry) (cur : Nat) (st : RState) (t : Target),
      (runWorker false pol cfg cur st t es).flatMap (·.1) = (runWG (runPlain pol cfg) cur st t es).1.reqs ∧
      workerTarget t (runWorker false pol cfg cur st t es) = (runWG (runPlain pol cfg) cur st t es).1.tgt ∧
      lastOut (runWorker false pol cfg cur st t es) = (runWG (runPlain pol cfg) cur st t es).1.out
  | [], cur, st, t => by simp [runWorker, runWG, workerTarget, lastOut]
  | e :: rest, cur, st, t => by
    unfold runWorker runWG
    simp only [Bool.false_eq_true, if_false]
    generalize (if e.db ≥ 0 ∧ e.db.toNat ≠ cur then [Req.select e.db.toNat] else []) = sel
    generalize (if e.db ≥ 0 then e.db.toNat else cur) = cur'
    cases hr : replay pol cfg st (viewOf (applyReqs t sel) e) e with
    | mk rs p =>
      obtain ⟨out, st'⟩ := p
      have ih := runWorker_is_runWG_plain pol cfg rest cur' st' (applyReqs (applyReqs t sel) rs)
      cases out with
      | ok =>
        simp only [runPlain, hr, List.append_nil, if_true, List.flatMap_cons, workerTarget_cons,
          applyReqs_append, ih, List.append_assoc, true_and]
        cases hrw : runWorker false pol cfg cur' st' (applyReqs (applyReqs t sel) rs) rest with
        | nil => rw [hrw] at ih; simp [lastOut, ← ih.2.2]
        | cons l ls => rw [hrw] at ih; simp [lastOut, ← ih.2.2]
      | errExists => simp [runPlain, hr, workerTarget, applyReqs_append, lastOut]
      | errModule => simp [runPlain, hr, workerTarget, applyReqs_append, lastOut]
      | errBad => simp [runPlain, hr, workerTarget, applyReqs_append, lastOut]

theorem runWorker_is_runWG_bisync (pol : Policy) (cfg : Cfg) :
    ∀ (es : List Entry) (cur : Nat) (st : RState) (t : Target),
      (runWorker true pol cfg cur st t es).flatMap (·.1) = (runWG (runBisync pol cfg) cur st t es).1.reqs ∧
      workerTarget t (runWorker true pol cfg cur st t es) = (runWG (runBisync pol cfg) cur st t es).1.tgt ∧
      lastOut (runWorker true pol cfg cur st t es) = (runWG (runBisync pol cfg) cur st t es).1.out
  | [], cur, st, t => by simp [runWorker, runWG, workerTarget, lastOut]
  | e :: rest, cur, st, t => by
    unfold runWorker runWG
    simp only [if_true]
    generalize (if e.db ≥ 0 ∧ e.db.toNat ≠ cur then [Req.select e.db.toNat] else []) = sel
    generalize (if e.db ≥ 0 then e.db.toNat else cur) = cur'
    cases hr : buildUnit pol cfg st (viewOf (applyReqs t sel) e) e with
    | mk direct p =>
      obtain ⟨cmds, out, st'⟩ := p
      generalize hrs : (direct ++ if out = BOutcome.unit then execUnit cmds else []) = rs
      have ih := runWorker_is_runWG_bisync pol cfg rest cur' st' (applyReqs (applyReqs t sel) rs)
      cases hb : bOut out with
      | ok =>
        simp only [runBisync, hr, hrs, hb, List.append_nil, if_true, List.flatMap_cons, workerTarget_cons,
          applyReqs_append, ih, List.append_assoc, true_and]
        cases hrw : runWorker true pol cfg cur' st' (applyReqs (applyReqs t sel) rs) rest with
        | nil => rw [hrw] at ih; simp [lastOut, ← ih.2.2]
        | cons l ls => rw [hrw] at ih; simp [lastOut, ← ih.2.2]
      | errExists => simp [runBisync, hr, hrs, hb, workerTarget, applyReqs_append, lastOut]
      | errModule => simp [runBisync, hr, hrs, hb, workerTarget, applyReqs_append, lastOut]
      | errBad => simp [runBisync, hr, hrs, hb, workerTarget, applyReqs_append, lastOut]

/-! ### 5. keyless entries (functions, AUX fields) are transparent

  A real worker stream has AUX entries (`redis-ver`, …) and function libraries
  between the key groups. Both replayers send their commands as they are and
  touch neither the keyspace nor the remembered state, so outcome, state and
  target of a run are those of the run over the KEYED entries alone. -/

def keyless (e : Entry) : Bool := decide (e.otype = .func) || decide (e.otype = .aux)

theorem applyReqs_id (t : Target) (rs : List Req) (h : ∀ r ∈ rs, reqKey r = none ∧ noSel r) : applyReqs t rs = t := by
  induction rs generalizing t with
  | nil => rfl
  | cons r rs ih =>
    simp only [applyReqs, List.foldl_cons]
    have hr := h r (List.mem_cons_self ..)
    have : applyReq t r = t := by rw [applyReq_eq t r hr.2, hr.1]
    rw [this]
    exact ih t (fun x hx => h x (List.mem_cons_of_mem _ hx))

theorem replay_keyless (pol : Policy) (cfg : Cfg) (st : RState) (v : View) (e : Entry) (h : keyless e = true) :
    replay pol cfg st v e = (e.cmds.map Req.raw, .ok, st) := by
  unfold keyless at h
  unfold replay
  cases ho : e.otype <;> simp [ho] at h ⊢

theorem runPlain_keyless (pol : Policy) (cfg : Cfg) (st : RState) (t : Target) (e : Entry) (rest : List Entry)
    (h : keyless e = true) :
    (runPlain pol cfg st t (e :: rest)).out = (runPlain pol cfg st t rest).out ∧
    (runPlain pol cfg st t (e :: rest)).st = (runPlain pol cfg st t rest).st ∧
    (runPlain pol cfg st t (e :: rest)).tgt = (runPlain pol cfg st t rest).tgt := by
  have hr := replay_keyless pol cfg st (viewOf t e) e h
  have hid : applyReqs t (e.cmds.map Req.raw) = t := applyReqs_id t _ (by
    intro r hr; obtain ⟨c, _, rfl⟩ := List.mem_map.mp hr; simp [reqKey, noSel])
  obtain ⟨_, h2, h3, h4⟩ := runPlain_cons_ok pol cfg st t e rest _ _ hr
  rw [hid] at h2 h3 h4
  exact ⟨h2, h3, h4⟩

theorem runPlain_strip (pol : Policy) (cfg : Cfg) :
    ∀ (es : List Entry) (st : RState) (t : Target),
      (runPlain pol cfg st t es).out = (runPlain pol cfg st t (es.filter (fun e => !keyless e))).out ∧
      (runPlain pol cfg st t es).st = (runPlain pol cfg st t (es.filter (fun e => !keyless e))).st ∧
      (runPlain pol cfg st t es).tgt = (runPlain pol cfg st t (es.filter (fun e => !keyless e))).tgt
  | [], st, t => by simp
  | e :: es, st, t => by
    cases hk : keyless e with
    | true =>
      obtain ⟨h1, h2, h3⟩ := runPlain_keyless pol cfg st t e es hk
      simp only [List.filter_cons, hk, Bool.not_true, Bool.false_eq_true, if_false]
      rw [h1, h2, h3]
      exact runPlain_strip pol cfg es st t
    | false =>
      simp only [List.filter_cons, hk, Bool.not_false, if_true]
      cases hr : replay pol cfg st (viewOf t e) e with
      | mk rs p =>
        obtain ⟨out, st'⟩ := p
        have ih := runPlain_strip pol cfg es st' (applyReqs t rs)
        cases out <;> simp [runPlain, hr, ih]

theorem buildUnit_keyless (pol : Policy) (cfg : Cfg) (st : RState) (v : View) (e : Entry) (h : keyless e = true) :
    (buildUnit pol cfg st v e).1 = [] ∧ (buildUnit pol cfg st v e).2.2.2 = st ∧
    ((buildUnit pol cfg st v e).2.2.1 = .skip ∨ (buildUnit pol cfg st v e).2.2.1 = .unit) ∧
    (∀ r ∈ (buildUnit pol cfg st v e).2.1, reqKey r = none ∧ noSel r) := by
  have hk : (!(decide (e.otype = OType.func) || decide (e.otype = OType.aux))) = false := by
    unfold keyless at h; simp [h]
  have hx : ∀ r ∈ expandB cfg e false, reqKey r = none ∧ noSel r := by
    intro r hr
    unfold expandB at hr
    simp only [Bool.false_eq_true, if_false, and_false, List.append_nil] at hr
    obtain ⟨c, _, rfl⟩ := List.mem_map.mp hr
    simp [reqKey, noSel]
  unfold buildUnit
  extract_lets hasKey st1 probe direct c1 c2
  have h1 : hasKey = false := hk
  have hst : st1 = st := by simp only [st1, h1]; simp
  have hp : probe = false := by simp only [probe, h1]; simp
  have hd : direct = [] := by simp only [direct, hp]; simp
  have hc1 : c1 = expandB cfg e false := by simp only [c1, h1]
  have hc2 : c2 = expandB cfg e false := by simp only [c2, h1, hc1]; simp
  simp only [h1, hp, Bool.false_and, Bool.false_eq_true, if_false]
  split
  · exact ⟨hd, hst, Or.inl rfl, by simp⟩
  · exact ⟨hd, hst, Or.inr rfl, by rw [hc2]; exact hx⟩

theorem runBisync_keyless (pol : Policy) (cfg : Cfg) (st : RState) (t : Target) (e : Entry) (rest : List Entry)
    (h : keyless e = true) :
    (runBisync pol cfg st t (e :: rest)).out = (runBisync pol cfg st t rest).out ∧
    (runBisync pol cfg st t (e :: rest)).st = (runBisync pol cfg st t rest).st ∧
    (runBisync pol cfg st t (e :: rest)).tgt = (runBisync pol cfg st t rest).tgt := by
  obtain ⟨b1, b2, b3, b4⟩ := buildUnit_keyless pol cfg st (viewOf t e) e h
  cases hb : buildUnit pol cfg st (viewOf t e) e with
  | mk direct p =>
    obtain ⟨cmds, out, st'⟩ := p
    rw [hb] at b1 b2 b3 b4
    simp only at b1 b2 b3 b4
    subst b1 b2
    have hid : applyReqs t ([] ++ if out = BOutcome.unit then execUnit cmds else []) = t := by
      apply applyReqs_id
      intro r hr
      simp only [List.nil_append] at hr
      split at hr
      · simp only [execUnit, List.mem_cons, List.mem_append, List.cons_append] at hr
        rcases hr with rfl | rfl | hr
        · simp [reqKey, noSel]
        · simp [reqKey, noSel]
        · rcases hr with hr | hr
          · exact b4 r hr
          · simp at hr; subst hr; simp [reqKey, noSel]
      · simp at hr
    rcases b3 with rfl | rfl
    · simp only [List.nil_append, reduceCtorEq, if_false] at hid
      simp [runBisync, hb, bOut, hid]
    · simp only [List.nil_append, if_true] at hid
      simp [runBisync, hb, bOut, hid]

theorem runBisync_strip (pol : Policy) (cfg : Cfg) :
    ∀ (es : List Entry) (st : RState) (t : Target),
      (runBisync pol cfg st t es).out = (runBisync pol cfg st t (es.filter (fun e => !keyless e))).out ∧
      (runBisync pol cfg st t es).st = (runBisync pol cfg st t (es.filter (fun e => !keyless e))).st ∧
      (runBisync pol cfg st t es).tgt = (runBisync pol cfg st t (es.filter (fun e => !keyless e))).tgt
  | [], st, t => by simp
  | e :: es, st, t => by
    cases hk : keyless e with
    | true =>
      obtain ⟨h1, h2, h3⟩ := runBisync_keyless pol cfg st t e es hk
      simp only [List.filter_cons, hk, Bool.not_true, Bool.false_eq_true, if_false]
      rw [h1, h2, h3]
      exact runBisync_strip pol cfg es st t
    | false =>
      simp only [List.filter_cons, hk, Bool.not_false, if_true]
      cases hr : buildUnit pol cfg st (viewOf t e) e with
      | mk direct p =>
        obtain ⟨cmds, out, st'⟩ := p
        have ih := runBisync_strip pol cfg es st' (applyReqs t (direct ++ if out = BOutcome.unit then execUnit cmds else []))
        cases out <;> simp [runBisync, hr, bOut] <;> simpa using ih

theorem target_ext (a b : Target) (h1 : a.cur = b.cur) (h2 : a.now = b.now) (h3 : a.ks = b.ks) (h4 : a.bad = b.bad) : a = b := by
  cases a; cases b; simp_all

theorem runWG_cons (run : RState → Target → List Entry → Run) (cur : Nat) (st : RState) (t : Target) (e : Entry) (rest : List Entry) :
    runWG run cur st t (e :: rest) =
      if (run st (applyReqs t (if e.db ≥ 0 ∧ e.db.toNat ≠ cur then [Req.select e.db.toNat] else [])) [e]).out = .ok then
        ({ reqs := (if e.db ≥ 0 ∧ e.db.toNat ≠ cur then [Req.select e.db.toNat] else []) ++
              (run st (applyReqs t (if e.db ≥ 0 ∧ e.db.toNat ≠ cur then [Req.select e.db.toNat] else [])) [e]).reqs ++
              (runWG run (if e.db ≥ 0 then e.db.toNat else cur)
                (run st (applyReqs t (if e.db ≥ 0 ∧ e.db.toNat ≠ cur then [Req.select e.db.toNat] else [])) [e]).st
                (run st (applyReqs t (if e.db ≥ 0 ∧ e.db.toNat ≠ cur then [Req.select e.db.toNat] else [])) [e]).tgt rest).1.reqs,
           out := (runWG run (if e.db ≥ 0 then e.db.toNat else cur)
                (run st (applyReqs t (if e.db ≥ 0 ∧ e.db.toNat ≠ cur then [Req.select e.db.toNat] else [])) [e]).st
                (run st (applyReqs t (if e.db ≥ 0 ∧ e.db.toNat ≠ cur then [Req.select e.db.toNat] else [])) [e]).tgt rest).1.out,
           st := (runWG run (if e.db ≥ 0 then e.db.toNat else cur)
                (run st (applyReqs t (if e.db ≥ 0 ∧ e.db.toNat ≠ cur then [Req.select e.db.toNat] else [])) [e]).st
                (run st (applyReqs t (if e.db ≥ 0 ∧ e.db.toNat ≠ cur then [Req.select e.db.toNat] else [])) [e]).tgt rest).1.st,
           tgt := (runWG run (if e.db ≥ 0 then e.db.toNat else cur)
                (run st (applyReqs t (if e.db ≥ 0 ∧ e.db.toNat ≠ cur then [Req.select e.db.toNat] else [])) [e]).st
                (run st (applyReqs t (if e.db ≥ 0 ∧ e.db.toNat ≠ cur then [Req.select e.db.toNat] else [])) [e]).tgt rest).1.tgt },
         (runWG run (if e.db ≥ 0 then e.db.toNat else cur)
                (run st (applyReqs t (if e.db ≥ 0 ∧ e.db.toNat ≠ cur then [Req.select e.db.toNat] else [])) [e]).st
                (run st (applyReqs t (if e.db ≥ 0 ∧ e.db.toNat ≠ cur then [Req.select e.db.toNat] else [])) [e]).tgt rest).2)
      else
        ({ reqs := (if e.db ≥ 0 ∧ e.db.toNat ≠ cur then [Req.select e.db.toNat] else []) ++
              (run st (applyReqs t (if e.db ≥ 0 ∧ e.db.toNat ≠ cur then [Req.select e.db.toNat] else [])) [e]).reqs,
           out := (run st (applyReqs t (if e.db ≥ 0 ∧ e.db.toNat ≠ cur then [Req.select e.db.toNat] else [])) [e]).out,
           st := (run st (applyReqs t (if e.db ≥ 0 ∧ e.db.toNat ≠ cur then [Req.select e.db.toNat] else [])) [e]).st,
           tgt := (run st (applyReqs t (if e.db ≥ 0 ∧ e.db.toNat ≠ cur then [Req.select e.db.toNat] else [])) [e]).tgt },
         if e.db ≥ 0 then e.db.toNat else cur) := by
  simp only [runWG]

/-- the same for the worker loop with DB selection: the keyless entries may move the
    connection to another DB (AUX entries carry the DB of their place in the file),
    the next keyed entry selects its own DB anyway: outcome, state and KEYSPACE are
    those of the worker over the keyed entries alone -/
theorem runWG_strip (run : RState → Target → List Entry → Run)
    (hkl : ∀ st t e, keyless e = true → (run st t [e]).out = .ok ∧ (run st t [e]).st = st ∧ (run st t [e]).tgt = t)
    (hinv : ∀ st t e, (run st t [e]).tgt.cur = t.cur) :
    ∀ (es : List Entry) (c1 c2 : Nat) (st : RState) (t1 t2 : Target),
      t1.cur = c1 → t2.cur = c2 → t1.ks = t2.ks → t1.now = t2.now → t1.bad = t2.bad →
      (∀ e ∈ es, keyless e = false → ∃ d : Nat, e.db = Int.ofNat d) →
      (runWG run c1 st t1 es).1.out = (runWG run c2 st t2 (es.filter (fun e => !keyless e))).1.out ∧
      (runWG run c1 st t1 es).1.st = (runWG run c2 st t2 (es.filter (fun e => !keyless e))).1.st ∧
      (runWG run c1 st t1 es).1.tgt.ks = (runWG run c2 st t2 (es.filter (fun e => !keyless e))).1.tgt.ks
  | [], c1, c2, st, t1, t2, _, _, h3, _, _, _ => by simp [runWG, h3]
  | e :: es, c1, c2, st, t1, t2, h1, h2, h3, h4, h5, hdb => by
    have hdb' : ∀ x ∈ es, keyless x = false → ∃ d : Nat, x.db = Int.ofNat d := fun x hx => hdb x (List.mem_cons_of_mem _ hx)
    cases hk : keyless e with
    | true =>
      simp only [List.filter_cons, hk, Bool.not_true, Bool.false_eq_true, if_false]
      rw [runWG_cons run c1 st t1 e es]
      obtain ⟨k1, k2, k3⟩ := hkl st (applyReqs t1 (if e.db ≥ 0 ∧ e.db.toNat ≠ c1 then [Req.select e.db.toNat] else [])) e hk
      simp only [k1, if_true, k2, k3]
      refine runWG_strip run hkl hinv es _ c2 st _ t2 ?_ h2 ?_ ?_ ?_ hdb'
      · by_cases hd : e.db ≥ 0
        · by_cases hne : e.db.toNat ≠ c1
          · simp [hd, hne, applyReqs, applyReq]
          · have : e.db.toNat = c1 := by simpa using hne
            simp [hd, this, applyReqs, h1]
        · simp [hd, applyReqs, h1]
      · rw [← h3]; split <;> simp [applyReqs, applyReq]
      · rw [← h4]; split <;> simp [applyReqs, applyReq]
      · rw [← h5]; split <;> simp [applyReqs, applyReq]
    | false =>
      obtain ⟨d, hd⟩ := hdb e (List.mem_cons_self ..) hk
      simp only [List.filter_cons, hk, Bool.not_false, if_true]
      have hs1 : (if e.db ≥ 0 ∧ e.db.toNat ≠ c1 then [Req.select e.db.toNat] else []) = (if d ≠ c1 then [Req.select d] else []) := by
        rw [hd]; simp
      have hs2 : (if e.db ≥ 0 ∧ e.db.toNat ≠ c2 then [Req.select e.db.toNat] else []) = (if d ≠ c2 then [Req.select d] else []) := by
        rw [hd]; simp
      have hc1 : (if e.db ≥ 0 then e.db.toNat else c1) = d := by rw [hd]; simp
      have hc2 : (if e.db ≥ 0 then e.db.toNat else c2) = d := by rw [hd]; simp
      obtain ⟨a1, a2, a3, a4⟩ := applySel t1 c1 d h1
      obtain ⟨b1, b2, b3, b4⟩ := applySel t2 c2 d h2
      have heq : applyReqs t1 (if d ≠ c1 then [Req.select d] else []) = applyReqs t2 (if d ≠ c2 then [Req.select d] else []) :=
        target_ext _ _ (a1.trans b1.symm) (by rw [a3, b3, h4]) (by rw [a2, b2, h3]) (by rw [a4, b4, h5])
      rw [runWG_cons run c1 st t1 e es, runWG_cons run c2 st t2 e]
      simp only [hs1, hs2, hc1, hc2, heq]
      generalize hr : run st (applyReqs t2 (if d ≠ c2 then [Req.select d] else [])) [e] = r1
      have hcur : r1.tgt.cur = d := by rw [← hr, hinv]; exact b1
      by_cases ho : r1.out = .ok
      · simp only [ho, if_true]
        exact runWG_strip run hkl hinv es d d r1.st r1.tgt r1.tgt hcur hcur rfl rfl rfl hdb'
      · simp [ho]

end GunYu.Restore
