/-
  C12 fragmentation: the decoder over the bufio model (Model/RespFrag.lean) computes,
  for EVERY buffer size and EVERY way the underlying reader cuts the stream into
  pieces, exactly what the decoder over the plain byte sequence (Model/Resp.lean)
  computes; the ghost `gas` never runs out. Core only.
-/
import GunYu.Model.RespFrag
import GunYu.Proofs.Resp

namespace GunYu.Resp
open GunYu

/-- termination measure of the reader loops -/
def Rd.M (r : Rd) : Nat := 2 * r.src.flatten.length + r.buf.length

/-- a pending io.EOF (`b.err`) means the underlying reader has handed out its last byte -/
def Rd.ErrOK (r : Rd) : Prop := r.err = true → r.src.flatten = []

/-- buffer size at least one byte (bufio: at least 16), enough gas left, and `ErrOK` -/
def Rd.Inv (r : Rd) : Prop := 1 ≤ r.cap ∧ r.M < r.gas ∧ r.ErrOK

theorem Rd.new_inv (size : Nat) (chunks : List Bytes) (eofLast : Bool) : (Rd.new size chunks eofLast).Inv := by
  unfold Rd.Inv Rd.M Rd.new Rd.ErrOK
  simp only [List.length_nil]
  refine ⟨by omega, by omega, ?_⟩
  intro h; cases h

theorem Rd.new_flat (size : Nat) (chunks : List Bytes) (eofLast : Bool) :
    (Rd.new size chunks eofLast).flat = chunks.flatten := by
  simp [Rd.flat, Rd.new]

theorem all_isEmpty_flatten (s : List Bytes) (h : s.all List.isEmpty = true) : s.flatten = [] := by
  induction s with
  | nil => rfl
  | cons c cs ih =>
    simp only [List.all_cons, Bool.and_eq_true] at h
    have hc : c = [] := by simpa using h.1
    simp [hc, ih h.2]

theorem eofNow_flatten (r : Rd) (s : List Bytes) (h : r.eofNow s = true) : s.flatten = [] := by
  unfold Rd.eofNow at h
  simp only [Bool.and_eq_true] at h
  exact all_isEmpty_flatten s h.2

/-! ## the underlying reader -/

theorem srcRead_some (k : Nat) (hk : 1 ≤ k) : ∀ (src : List Bytes) (d : Bytes) (s : List Bytes),
    srcRead k src = some (d, s) → d ≠ [] ∧ d ++ s.flatten = src.flatten ∧ d.length ≤ k := by
  intro src
  induction src with
  | nil => intro d s h; simp [srcRead] at h
  | cons c cs ih =>
    intro d s h
    unfold srcRead at h
    by_cases hc : c.isEmpty = true
    · rw [if_pos hc] at h
      have hc' : c = [] := by simpa using hc
      obtain ⟨h1, h2, h3⟩ := ih d s h
      exact ⟨h1, by simp [hc', h2], h3⟩
    · rw [if_neg hc] at h
      have hne : c ≠ [] := by simpa using hc
      by_cases hl : c.length ≤ k
      · rw [if_pos hl] at h
        injection h with h; injection h with h1 h2
        subst h1; subst h2
        exact ⟨hne, by simp, hl⟩
      · rw [if_neg hl] at h
        injection h with h; injection h with h1 h2
        subst h1; subst h2
        refine ⟨?_, ?_, ?_⟩
        · intro e
          have : (c.take k).length = 0 := by rw [e]; rfl
          rw [List.length_take] at this
          omega
        · simp [List.flatten_cons, ← List.append_assoc, List.take_append_drop]
        · rw [List.length_take]; omega

theorem srcRead_none (k : Nat) : ∀ (src : List Bytes), srcRead k src = none → src.flatten = [] := by
  intro src
  induction src with
  | nil => intro _; rfl
  | cons c cs ih =>
    intro h
    unfold srcRead at h
    by_cases hc : c.isEmpty = true
    · rw [if_pos hc] at h
      have hc' : c = [] := by simpa using hc
      simp [hc', ih h]
    · rw [if_neg hc] at h
      by_cases hl : c.length ≤ k
      · rw [if_pos hl] at h; cases h
      · rw [if_neg hl] at h; cases h

/-! ## fill / ReadByte -/

theorem fill_some (r r' : Rd) (hfree : r.buf.length < r.cap) (h : r.fill = some r') :
    r'.flat = r.flat ∧ r'.cap = r.cap ∧ r'.gas = r.gas ∧ r'.M + 1 ≤ r.M ∧ r.buf.length < r'.buf.length ∧
      ∃ d, r'.buf = r.buf ++ d := by
  unfold Rd.fill at h
  split at h
  · cases h
  · rename_i d s hs
    injection h with h; subst h
    obtain ⟨h1, h2, _⟩ := srcRead_some _ (by omega) _ _ _ hs
    have hd : 1 ≤ d.length := by
      cases d with
      | nil => exact absurd rfl h1
      | cons _ _ => simp
    have hlen : r.src.flatten.length = d.length + s.flatten.length := by rw [← h2]; simp
    refine ⟨?_, rfl, rfl, ?_, ?_, d, rfl⟩
    · simp [Rd.flat, List.append_assoc, h2]
    · simp only [Rd.M, List.length_append]; omega
    · simp only [List.length_append]; omega

theorem fill_none (r : Rd) (h : r.fill = none) : r.src.flatten = [] := by
  unfold Rd.fill at h
  split at h
  · rename_i hs; exact srcRead_none _ _ hs
  · cases h

theorem fill_errOK (r r' : Rd) (h : r.fill = some r') : r'.ErrOK := by
  unfold Rd.fill at h
  split at h
  · cases h
  · rename_i d s hs
    injection h with h; subst h
    intro he
    exact eofNow_flatten r s he

theorem readByte_nil (r : Rd) (hi : 1 ≤ r.cap) (h : r.flat = []) : r.readByte = none := by
  have hb : r.buf = [] := by
    unfold Rd.flat at h
    exact (List.append_eq_nil_iff.mp h).1
  have hs : r.src.flatten = [] := by
    unfold Rd.flat at h
    exact (List.append_eq_nil_iff.mp h).2
  unfold Rd.readByte
  rw [hb]
  simp only
  by_cases he : r.err = true
  · rw [if_pos he]
  · rw [if_neg he]
    cases hf : r.fill with
    | none => rfl
    | some r' =>
    obtain ⟨h1, _, _, _, h5, _⟩ := fill_some r r' (by rw [hb]; exact hi) hf
    have : r'.flat = [] := by rw [h1]; exact h
    have hb' : r'.buf = [] := by
      unfold Rd.flat at this
      exact (List.append_eq_nil_iff.mp this).1
    rw [hb'] at h5
    simp at h5

theorem readByte_cons (r : Rd) (hi : 1 ≤ r.cap) (heo : r.ErrOK) (b : UInt8) (t : Bytes) (h : r.flat = b :: t) :
    ∃ r', r.readByte = some (b, r') ∧ r'.flat = t ∧ r'.cap = r.cap ∧ r'.gas = r.gas ∧ r'.M + 1 ≤ r.M ∧ r'.ErrOK := by
  unfold Rd.readByte
  cases hb : r.buf with
  | cons x xs =>
    simp only
    have : x = b ∧ xs ++ r.src.flatten = t := by
      unfold Rd.flat at h
      rw [hb] at h
      simp only [List.cons_append] at h
      injection h with h1 h2
      exact ⟨h1, h2⟩
    obtain ⟨rfl, h2⟩ := this
    refine ⟨_, rfl, ?_, rfl, rfl, ?_, heo⟩
    · simpa [Rd.flat] using h2
    · simp only [Rd.M, hb, List.length_cons]; omega
  | nil =>
    simp only
    have hne : ¬ r.err = true := by
      intro he
      unfold Rd.flat at h
      rw [hb, heo he] at h
      cases h
    rw [if_neg hne]
    cases hf : r.fill with
    | none =>
      have := fill_none r hf
      unfold Rd.flat at h
      rw [hb, this] at h
      cases h
    | some r' =>
      obtain ⟨h1, h2, h3, h4, h5, _⟩ := fill_some r r' (by rw [hb]; exact hi) hf
      have heo' := fill_errOK r r' hf
      simp only
      cases hb' : r'.buf with
      | nil => rw [hb', hb] at h5; simp at h5
      | cons x xs =>
        simp only
        have : x = b ∧ xs ++ r'.src.flatten = t := by
          have h' : r'.flat = b :: t := by rw [h1]; exact h
          unfold Rd.flat at h'
          rw [hb'] at h'
          simp only [List.cons_append] at h'
          injection h' with h1 h2
          exact ⟨h1, h2⟩
        obtain ⟨rfl, h6⟩ := this
        refine ⟨_, rfl, ?_, h2, h3, ?_, heo'⟩
        · simpa [Rd.flat] using h6
        · have : r'.M = 2 * r'.src.flatten.length + (xs.length + 1) := by simp [Rd.M, hb']
          simp only [Rd.M] at this h4 ⊢
          omega

/-! ## ReadBytes('\n') -/

theorem findNl_none (l : Bytes) (h : findNl l = none) : ∀ b ∈ l, b ≠ 10 := by
  induction l with
  | nil => intro b hb; cases hb
  | cons x xs ih =>
    unfold findNl at h
    by_cases hx : x = 10
    · rw [if_pos hx] at h; cases h
    · rw [if_neg hx] at h
      have h' : findNl xs = none := by
        cases hf : findNl xs with
        | none => rfl
        | some _ => rw [hf] at h; cases h
      intro b hb
      rcases List.mem_cons.mp hb with rfl | hb
      · exact hx
      · exact ih h' b hb

theorem findNl_some (l : Bytes) (i : Nat) (h : findNl l = some i) :
    ∃ p q, l = p ++ 10 :: q ∧ p.length = i ∧ ∀ b ∈ p, b ≠ 10 := by
  induction l generalizing i with
  | nil => cases h
  | cons x xs ih =>
    unfold findNl at h
    by_cases hx : x = 10
    · rw [if_pos hx] at h
      injection h with h; subst h; subst hx
      exact ⟨[], xs, rfl, rfl, by intro b hb; cases hb⟩
    · rw [if_neg hx] at h
      cases hf : findNl xs with
      | none => rw [hf] at h; cases h
      | some j =>
        rw [hf] at h
        simp only [Option.map_some] at h
        injection h with h; subst h
        obtain ⟨p, q, h1, h2, h3⟩ := ih j hf
        refine ⟨x :: p, q, by simp [h1], by simp [h2], ?_⟩
        intro b hb
        rcases List.mem_cons.mp hb with rfl | hb
        · exact hx
        · exact h3 b hb

/-- a prefix without newline in front of a stream: `ReadBytes` returns it in front of the line -/
theorem readLine_noNl_append (p x : Bytes) (h : ∀ b ∈ p, b ≠ 10) :
    readLine (p ++ x) = (readLine x).map (fun lr => (p ++ lr.1, lr.2)) := by
  unfold readLine
  rw [span_eq, span_eq]
  have hp : ∀ a, a ∈ p → (fun y : UInt8 => decide (y ≠ 10)) a = true := by
    intro a ha; simp [h a ha]
  rw [List.takeWhile_append_of_pos hp, List.dropWhile_append_of_pos hp]
  cases hd : List.dropWhile (fun y : UInt8 => decide (y ≠ 10)) x with
  | nil => simp
  | cons _ r => simp [List.append_assoc]

theorem readBytesLoop_spec : ∀ (g : Nat) (acc : Bytes) (r : Rd), 1 ≤ r.cap → r.M < g → r.ErrOK →
    match readLine r.flat with
    | none => readBytesLoop g acc r = none
    | some (l, rest) => ∃ r', readBytesLoop g acc r = some (acc ++ l, r') ∧ r'.flat = rest ∧ r'.Inv := by
  intro g
  induction g with
  | zero => intro acc r _ h; omega
  | succ g ih =>
    intro acc r hc hg heo
    unfold readBytesLoop
    cases hf : findNl r.buf with
    | some i =>
      obtain ⟨p, q, h1, h2, h3⟩ := findNl_some _ _ hf
      have hflat : r.flat = p ++ 10 :: (q ++ r.src.flatten) := by simp [Rd.flat, h1]
      rw [hflat, readLine_line _ _ h3]
      simp only
      have ht : (r.buf).take (i + 1) = p ++ [10] := by
        rw [h1, ← h2]
        have : p ++ 10 :: q = (p ++ [10]) ++ q := by simp
        rw [this]
        exact List.take_left' (by simp)
      have hd : (r.buf).drop (i + 1) = q := by
        rw [h1, ← h2]
        have : p ++ 10 :: q = (p ++ [10]) ++ q := by simp
        rw [this]
        exact List.drop_left' (by simp)
      refine ⟨{ r with buf := r.buf.drop (i + 1), gas := g }, by rw [ht], ?_, ?_⟩
      · simp [Rd.flat, hd]
      · refine ⟨hc, ?_, heo⟩
        have hl : r.buf.length = p.length + 1 + q.length := by rw [h1]; simp; omega
        simp only [Rd.M, hd] at hg ⊢
        omega
    | none =>
      have hno := findNl_none _ hf
      simp only
      by_cases hpe : r.err = true
      · rw [if_pos hpe]
        have hflat : r.flat = r.buf := by simp [Rd.flat, heo hpe]
        rw [hflat, readLine_none_of_noNl _ hno]
      rw [if_neg hpe]
      by_cases hfull : r.cap ≤ r.buf.length
      · rw [if_pos hfull]
        have hflat : r.flat = r.buf ++ r.src.flatten := rfl
        rw [hflat, readLine_noNl_append _ _ hno]
        have := ih (acc ++ r.buf) { r with buf := [] } hc (by simp only [Rd.M, List.length_nil] at hg ⊢; omega) heo
        have hfl : ({ r with buf := [] } : Rd).flat = r.src.flatten := by simp [Rd.flat]
        rw [hfl] at this
        cases hr : readLine r.src.flatten with
        | none => rw [hr] at this; simpa using this
        | some lr =>
          obtain ⟨l, rest⟩ := lr
          rw [hr] at this
          obtain ⟨r', h1, h2, h3⟩ := this
          simp only [Option.map_some]
          exact ⟨r', by rw [h1, List.append_assoc], h2, h3⟩
      · rw [if_neg hfull]
        cases hfi : r.fill with
        | none =>
          have hs := fill_none r hfi
          have hflat : r.flat = r.buf := by simp [Rd.flat, hs]
          rw [hflat, readLine_none_of_noNl _ hno]
        | some r' =>
          obtain ⟨h1, h2, _, h4, _, _⟩ := fill_some r r' (by omega) hfi
          have := ih acc r' (by rw [h2]; exact hc) (by omega) (fill_errOK r r' hfi)
          rw [h1] at this
          exact this

theorem readBytes_spec (r : Rd) (hi : r.Inv) :
    match readLine r.flat with
    | none => r.readBytes = none
    | some (l, rest) => ∃ r', r.readBytes = some (l, r') ∧ r'.flat = rest ∧ r'.Inv := by
  have := readBytesLoop_spec r.gas [] r hi.1 hi.2.1 hi.2.2
  simpa [Rd.readBytes] using this

/-! ## io.ReadFull -/

theorem read_spec (r : Rd) (hc : 1 ≤ r.cap) (heo : r.ErrOK) (k : Nat) (hk : 1 ≤ k) :
    match r.read k with
    | none => r.flat = []
    | some (d, r') => d ≠ [] ∧ d ++ r'.flat = r.flat ∧ d.length ≤ k ∧ r'.cap = r.cap ∧ r'.M + 1 ≤ r.M ∧ r'.ErrOK := by
  unfold Rd.read
  by_cases he : r.buf.isEmpty = true
  · have hb : r.buf = [] := by simpa using he
    rw [if_pos he]
    by_cases hpe : r.err = true
    · rw [if_pos hpe]
      simp [Rd.flat, hb, heo hpe]
    rw [if_neg hpe]
    by_cases hbig : r.cap ≤ k
    · rw [if_pos hbig]
      cases hs : srcRead k r.src with
      | none => simp [Rd.flat, hb, srcRead_none _ _ hs]
      | some ds =>
        obtain ⟨d, s⟩ := ds
        obtain ⟨h1, h2, h3⟩ := srcRead_some k hk _ _ _ hs
        have hlen : r.src.flatten.length = d.length + s.flatten.length := by rw [← h2]; simp
        have hd : 1 ≤ d.length := by
          cases d with
          | nil => exact absurd rfl h1
          | cons _ _ => simp
        refine ⟨h1, ?_, h3, rfl, ?_, fun hh => eofNow_flatten r s hh⟩
        · simp [Rd.flat, hb, h2]
        · simp only [Rd.M, hb, List.length_nil]; omega
    · rw [if_neg hbig]
      cases hs : srcRead r.cap r.src with
      | none => simp [Rd.flat, hb, srcRead_none _ _ hs]
      | some ds =>
        obtain ⟨d, s⟩ := ds
        obtain ⟨h1, h2, h3⟩ := srcRead_some r.cap hc _ _ _ hs
        have hlen : r.src.flatten.length = d.length + s.flatten.length := by rw [← h2]; simp
        have hd : 1 ≤ d.length := by
          cases d with
          | nil => exact absurd rfl h1
          | cons _ _ => simp
        refine ⟨?_, ?_, ?_, rfl, ?_, fun hh => eofNow_flatten r s hh⟩
        · intro e
          have : (d.take k).length = 0 := by rw [e]; rfl
          rw [List.length_take] at this
          omega
        · simp only [Rd.flat, hb, List.nil_append]
          rw [← List.append_assoc, List.take_append_drop, h2]
        · rw [List.length_take]; omega
        · simp only [Rd.M, hb, List.length_nil, List.length_drop]; omega
  · rw [if_neg he]
    have hne : r.buf ≠ [] := by simpa using he
    have hl : 1 ≤ r.buf.length := by
      cases hb : r.buf with
      | nil => exact absurd hb hne
      | cons _ _ => simp
    refine ⟨?_, ?_, ?_, rfl, ?_, heo⟩
    · intro e
      have : (r.buf.take k).length = 0 := by rw [e]; rfl
      rw [List.length_take] at this
      omega
    · simp only [Rd.flat]
      rw [← List.append_assoc, List.take_append_drop]
    · rw [List.length_take]; omega
    · simp only [Rd.M, List.length_drop]; omega

theorem readFullLoop_spec : ∀ (g n : Nat) (acc : Bytes) (r : Rd), 1 ≤ r.cap → r.M < g → r.ErrOK →
    (n ≤ acc.length + r.flat.length →
      ∃ r', readFullLoop g n acc r = .ok (acc ++ r.flat.take (n - acc.length)) r' ∧
        r'.flat = r.flat.drop (n - acc.length) ∧ r'.Inv) ∧
    (acc.length + r.flat.length < n →
      readFullLoop g n acc r = if (acc ++ r.flat).isEmpty then .eof else .ueof) := by
  intro g
  induction g with
  | zero => intro n acc r _ h; omega
  | succ g ih =>
    intro n acc r hc hg heo
    unfold readFullLoop
    by_cases hdone : n ≤ acc.length
    · rw [if_pos hdone]
      have h0 : n - acc.length = 0 := by omega
      constructor
      · intro _
        refine ⟨{ r with gas := g + 1 }, ?_, ?_, ?_⟩
        · rw [h0]; simp
        · rw [h0]; simp [Rd.flat]
        · exact ⟨hc, by simp only [Rd.M] at hg ⊢; omega, heo⟩
      · intro h; omega
    · rw [if_neg hdone]
      simp only
      have hk : 1 ≤ n - acc.length := by omega
      have hrd := read_spec r hc heo (n - acc.length) hk
      cases hr : r.read (n - acc.length) with
      | none =>
        rw [hr] at hrd
        simp only at hrd
        constructor
        · intro h; rw [hrd] at h; simp at h; omega
        · intro _
          simp only [hrd, List.append_nil]
      | some dr =>
        obtain ⟨d, r'⟩ := dr
        rw [hr] at hrd
        obtain ⟨h1, h2, h3, h4, h5, heo'⟩ := hrd
        simp only
        have hd : 1 ≤ d.length := by
          cases d with
          | nil => exact absurd rfl h1
          | cons _ _ => simp
        obtain ⟨ihA, ihB⟩ := ih n (acc ++ d) r' (by rw [h4]; exact hc) (by omega) heo'
        have hlen : r.flat.length = d.length + r'.flat.length := by rw [← h2]; simp
        have hla : (acc ++ d).length = acc.length + d.length := List.length_append
        rw [hla] at ihA ihB
        have hsub : n - acc.length - d.length = n - (acc.length + d.length) := by omega
        constructor
        · intro h
          obtain ⟨r'', e1, e2, e3⟩ := ihA (by omega)
          refine ⟨r'', ?_, ?_, e3⟩
          · rw [e1, ← h2, List.append_assoc, List.take_append, List.take_of_length_le h3, hsub]
          · rw [e2, ← h2, List.drop_append, List.drop_of_length_le h3, hsub]
            simp
        · intro h
          rw [ihB (by omega), ← h2, List.append_assoc]

theorem readFull_spec (r : Rd) (hi : r.Inv) (n : Nat) :
    (n ≤ r.flat.length → ∃ r', r.readFull n = .ok (r.flat.take n) r' ∧ r'.flat = r.flat.drop n ∧ r'.Inv) ∧
    (r.flat.length < n → r.readFull n = if r.flat.isEmpty then .eof else .ueof) := by
  have := readFullLoop_spec r.gas n [] r hi.1 hi.2.1 hi.2.2
  simpa [Rd.readFull] using this

/-! ## the decoder: simulation -/

/-- the result over the reader, read as a result over the remaining byte sequence -/
def SimD {α : Type} (x : DecC α) (y : Dec α) : Prop :=
  match x, y with
  | .error e, .error e' => e = e'
  | .ok (v, o, r), .ok (v', o', rest) => v = v' ∧ o = o' ∧ r.flat = rest ∧ r.Inv
  | _, _ => False

theorem SimD.inv {α : Type} {x : DecC α} {y : Dec α} (h : SimD x y) :
    (∃ e, x = .error e ∧ y = .error e) ∨
    (∃ v o r, x = .ok (v, o, r) ∧ y = .ok (v, o, r.flat) ∧ r.Inv) := by
  cases x with
  | error e =>
    cases y with
    | error e' => left; simp only [SimD] at h; exact ⟨e, rfl, by rw [h]⟩
    | ok q => simp only [SimD] at h
  | ok p =>
    obtain ⟨v, o, r⟩ := p
    cases y with
    | error e' => simp only [SimD] at h
    | ok q =>
      obtain ⟨v', o', rest⟩ := q
      simp only [SimD] at h
      obtain ⟨rfl, rfl, rfl, h4⟩ := h
      right; exact ⟨v, o, r, rfl, rfl, h4⟩

theorem SimD.err {α : Type} (e : DecErr) : SimD (α := α) (.error e) (.error e) := by simp [SimD]

theorem SimD.ok {α : Type} (v : α) (o : Nat) (r : Rd) (h : r.Inv) : SimD (.ok (v, o, r)) (.ok (v, o, r.flat)) := by
  simp [SimD, h]

theorem decodeTypeLoop_sim : ∀ (g : Nat) (r : Rd) (off : Nat), 1 ≤ r.cap → r.M < g → r.ErrOK →
    SimD (decodeTypeLoop g r off) (decodeType r.flat off) := by
  intro g
  induction g with
  | zero => intro r off _ h; omega
  | succ g ih =>
    intro r off hc hg heo
    unfold decodeTypeLoop
    cases hf : r.flat with
    | nil =>
      rw [readByte_nil r hc hf]
      simp only [decodeType]
      exact SimD.err _
    | cons b t =>
      obtain ⟨r', h1, h2, h3, h4, h5, heo'⟩ := readByte_cons r hc heo b t hf
      rw [h1]
      simp only [decodeType]
      by_cases hb : b = 10
      · rw [if_pos hb, if_pos hb, ← h2]
        exact ih r' (off + 1) (by rw [h3]; exact hc) (by omega) heo'
      · rw [if_neg hb, if_neg hb]
        have : ({ r' with gas := g } : Rd).flat = t := by rw [← h2]; rfl
        rw [← this]
        apply SimD.ok
        refine ⟨by simpa [h3] using hc, ?_, heo'⟩
        have : ({ r' with gas := g } : Rd).M = r'.M := rfl
        rw [this]
        show r'.M < g
        omega

theorem decodeTypeC_sim (r : Rd) (off : Nat) (hi : r.Inv) : SimD (decodeTypeC r off) (decodeType r.flat off) :=
  decodeTypeLoop_sim r.gas r off hi.1 hi.2.1 hi.2.2

theorem decodeTextC_sim (r : Rd) (off : Nat) (hi : r.Inv) : SimD (decodeTextC r off) (decodeText r.flat off) := by
  have h := readBytes_spec r hi
  unfold decodeTextC decodeText
  cases hr : readLine r.flat with
  | none =>
    rw [hr] at h
    simp only at h
    rw [h]
    exact SimD.err _
  | some lr =>
    obtain ⟨l, rest⟩ := lr
    rw [hr] at h
    obtain ⟨r', h1, h2, h3⟩ := h
    rw [h1]
    simp only
    by_cases hcnd : l.length < 2 ∨ l.getD (l.length - 2) 0 ≠ 13
    · rw [if_pos hcnd, if_pos hcnd]; exact SimD.err _
    · rw [if_neg hcnd, if_neg hcnd, ← h2]; exact SimD.ok _ _ _ h3

theorem decodeIntC_sim (r : Rd) (off : Nat) (hi : r.Inv) : SimD (decodeIntC r off) (decodeInt r.flat off) := by
  unfold decodeIntC decodeInt
  rcases (decodeTextC_sim r off hi).inv with ⟨e, hx, hy⟩ | ⟨v, o, r', hx, hy, hi'⟩
  · rw [hx, hy]; exact SimD.err _
  · rw [hx, hy]
    simp only
    cases parseInt64 v with
    | none => exact SimD.err _
    | some n => exact SimD.ok _ _ _ hi'

theorem decodeBulkC_sim (r : Rd) (off : Nat) (hi : r.Inv) : SimD (decodeBulkC r off) (decodeBulk r.flat off) := by
  unfold decodeBulkC decodeBulk
  rcases (decodeIntC_sim r off hi).inv with ⟨e, hx, hy⟩ | ⟨n, o, r', hx, hy, hi'⟩
  · rw [hx, hy]; exact SimD.err _
  · rw [hx, hy]
    simp only
    by_cases h1 : n < -1
    · rw [if_pos h1, if_pos h1]; exact SimD.err _
    · rw [if_neg h1, if_neg h1]
      by_cases h2 : n = -1
      · rw [if_pos h2, if_pos h2]; exact SimD.ok _ _ _ hi'
      · rw [if_neg h2, if_neg h2]
        obtain ⟨hA, hB⟩ := readFull_spec r' hi' (n.toNat + 2)
        by_cases hlen : n.toNat + 2 ≤ r'.flat.length
        · obtain ⟨r'', e1, e2, e3⟩ := hA hlen
          rw [e1]
          have hl : ¬ ((r'.flat.take (n.toNat + 2)).length < n.toNat + 2) := by
            rw [List.length_take]; omega
          simp only
          rw [if_neg hl]
          by_cases hcr : (r'.flat.take (n.toNat + 2)).getD n.toNat 0 ≠ 13 ∨
              (r'.flat.take (n.toNat + 2)).getD (n.toNat + 1) 0 ≠ 10
          · rw [if_pos hcr, if_pos hcr]; exact SimD.err _
          · rw [if_neg hcr, if_neg hcr, ← e2]; exact SimD.ok _ _ _ e3
        · have hlt : r'.flat.length < n.toNat + 2 := by omega
          rw [hB hlt]
          have ht : r'.flat.take (n.toNat + 2) = r'.flat := List.take_of_length_le (by omega)
          rw [ht, if_pos hlt]
          by_cases hem : r'.flat.isEmpty = true
          · rw [if_pos hem, if_pos hem]; exact SimD.err _
          · rw [if_neg hem, if_neg hem]; exact SimD.err _

theorem decodeElemsC_sim (elemC : Rd → Nat → DecC Resp) (elem : Bytes → Nat → Dec Resp)
    (he : ∀ r off, r.Inv → SimD (elemC r off) (elem r.flat off)) :
    ∀ (n : Nat) (r : Rd) (off : Nat), r.Inv → SimD (decodeElemsC elemC n r off) (decodeElems elem n r.flat off) := by
  intro n
  induction n with
  | zero => intro r off hi; simp only [decodeElemsC, decodeElems]; exact SimD.ok _ _ _ hi
  | succ n ih =>
    intro r off hi
    simp only [decodeElemsC, decodeElems]
    rcases (he r off hi).inv with ⟨e, hx, hy⟩ | ⟨v, o, r', hx, hy, hi'⟩
    · rw [hx, hy]; exact SimD.err _
    · rw [hx, hy]
      simp only
      rcases (ih r' o hi').inv with ⟨e, hx2, hy2⟩ | ⟨vs, o2, r'', hx2, hy2, hi''⟩
      · rw [hx2, hy2]; exact SimD.err _
      · rw [hx2, hy2]; exact SimD.ok _ _ _ hi''

theorem decodeInlineC_sim (r : Rd) (off : Nat) (hi : r.Inv) : SimD (decodeInlineC r off) (decodeInline r.flat off) := by
  have h := readBytes_spec r hi
  unfold decodeInlineC decodeInline
  cases hr : readLine r.flat with
  | none =>
    rw [hr] at h
    simp only at h
    rw [h]
    exact SimD.err _
  | some lr =>
    obtain ⟨l, rest⟩ := lr
    rw [hr] at h
    obtain ⟨r', h1, h2, h3⟩ := h
    rw [h1]
    simp only
    by_cases hcnd : l.length < 2 ∨ l.getD (l.length - 2) 0 ≠ 13
    · rw [if_pos hcnd, if_pos hcnd]; exact SimD.err _
    · rw [if_neg hcnd, if_neg hcnd, ← h2]; exact SimD.ok _ _ _ h3

theorem unreadByte_flat (r : Rd) (b : UInt8) : (r.unreadByte b).flat = b :: r.flat := rfl

theorem unreadByte_inv (r : Rd) (b : UInt8) (hi : r.Inv) : (r.unreadByte b).Inv := by
  obtain ⟨h1, h2, h3⟩ := hi
  refine ⟨h1, ?_, h3⟩
  simp only [Rd.unreadByte, Rd.M, List.length_cons] at h2 ⊢
  omega

theorem decodeRespC_sim : ∀ (fuel depth : Nat) (r : Rd) (off : Nat), r.Inv →
    SimD (decodeRespC fuel depth r off) (decodeResp fuel depth r.flat off) := by
  intro fuel
  induction fuel with
  | zero => intro depth r off _; simp only [decodeRespC, decodeResp]; exact SimD.err _
  | succ fuel ih =>
    intro depth r off hi
    simp only [decodeRespC, decodeResp]
    rcases (decodeTypeC_sim r off hi).inv with ⟨e, hx, hy⟩ | ⟨t, o1, r1, hx, hy, hi1⟩
    · rw [hx, hy]; exact SimD.err _
    · rw [hx, hy]
      simp only
      by_cases h43 : t = 43
      · rw [if_pos h43, if_pos h43]
        rcases (decodeTextC_sim r1 o1 hi1).inv with ⟨e, hx2, hy2⟩ | ⟨v, o, r2, hx2, hy2, hi2⟩
        · rw [hx2, hy2]; exact SimD.err _
        · rw [hx2, hy2]; exact SimD.ok _ _ _ hi2
      · rw [if_neg h43, if_neg h43]
        by_cases h45 : t = 45
        · rw [if_pos h45, if_pos h45]
          rcases (decodeTextC_sim r1 o1 hi1).inv with ⟨e, hx2, hy2⟩ | ⟨v, o, r2, hx2, hy2, hi2⟩
          · rw [hx2, hy2]; exact SimD.err _
          · rw [hx2, hy2]; exact SimD.ok _ _ _ hi2
        · rw [if_neg h45, if_neg h45]
          by_cases h58 : t = 58
          · rw [if_pos h58, if_pos h58]
            rcases (decodeIntC_sim r1 o1 hi1).inv with ⟨e, hx2, hy2⟩ | ⟨v, o, r2, hx2, hy2, hi2⟩
            · rw [hx2, hy2]; exact SimD.err _
            · rw [hx2, hy2]; exact SimD.ok _ _ _ hi2
          · rw [if_neg h58, if_neg h58]
            by_cases h36 : t = 36
            · rw [if_pos h36, if_pos h36]
              rcases (decodeBulkC_sim r1 o1 hi1).inv with ⟨e, hx2, hy2⟩ | ⟨v, o, r2, hx2, hy2, hi2⟩
              · rw [hx2, hy2]; exact SimD.err _
              · rw [hx2, hy2]; exact SimD.ok _ _ _ hi2
            · rw [if_neg h36, if_neg h36]
              by_cases h42 : t = 42
              · rw [if_pos h42, if_pos h42]
                rcases (decodeIntC_sim r1 o1 hi1).inv with ⟨e, hx2, hy2⟩ | ⟨n, o, r2, hx2, hy2, hi2⟩
                · rw [hx2, hy2]; exact SimD.err _
                · rw [hx2, hy2]
                  simp only
                  by_cases hn1 : n < -1
                  · rw [if_pos hn1, if_pos hn1]; exact SimD.err _
                  · rw [if_neg hn1, if_neg hn1]
                    by_cases hn2 : n = -1
                    · rw [if_pos hn2, if_pos hn2]; exact SimD.ok _ _ _ hi2
                    · rw [if_neg hn2, if_neg hn2]
                      rcases (decodeElemsC_sim _ _ (ih (depth + 1)) n.toNat r2 o hi2).inv with
                        ⟨e, hx3, hy3⟩ | ⟨vs, o3, r3, hx3, hy3, hi3⟩
                      · rw [hx3, hy3]; exact SimD.err _
                      · rw [hx3, hy3]; exact SimD.ok _ _ _ hi3
              · rw [if_neg h42, if_neg h42]
                by_cases hd : depth ≠ 0
                · rw [if_pos hd, if_pos hd]; exact SimD.err _
                · rw [if_neg hd, if_neg hd, ← unreadByte_flat]
                  exact decodeInlineC_sim _ _ (unreadByte_inv _ _ hi1)

theorem decodeCmdC_sim (fuel : Nat) (r : Rd) (off : Nat) (hi : r.Inv) :
    SimD (decodeCmdC fuel r off) (decodeCmd fuel r.flat off) := by
  unfold decodeCmdC decodeCmd
  rcases (decodeRespC_sim fuel 0 r off hi).inv with ⟨e, hx, hy⟩ | ⟨v, o, r', hx, hy, hi'⟩
  · rw [hx, hy]; exact SimD.err _
  · rw [hx, hy]
    simp only
    cases parseArgs v with
    | none => exact SimD.err _
    | some na => obtain ⟨name, args⟩ := na; exact SimD.ok _ _ _ hi'

theorem decodeAllAuxC_eq (fuel start : Nat) : ∀ (k : Nat) (r : Rd) (off : Nat), r.Inv →
    ((decodeAllAuxC fuel start k r off).1, (decodeAllAuxC fuel start k r off).2.1) =
      decodeAllAux fuel start k r.flat off := by
  intro k
  induction k with
  | zero => intro r off _; rfl
  | succ k ih =>
    intro r off hi
    simp only [decodeAllAuxC, decodeAllAux]
    rcases (decodeCmdC_sim fuel r off hi).inv with ⟨e, hx, hy⟩ | ⟨c, o, r', hx, hy, hi'⟩
    · rw [hx, hy]
    · rw [hx, hy]
      simp only
      rw [← ih r' o hi']

/-- **any buffer size, any fragmentation, any kind of reader** (pieces may be empty = `0, nil` reads;
    `eofLast`: io.EOF comes together with the last bytes): the parser loop over the bufio model gives
    what the parser loop over the plain byte sequence gives -/
theorem decodeAllC_eq (start pre size : Nat) (chunks : List Bytes) (eofLast : Bool) :
    decodeAllC start pre size chunks eofLast = decodeAllFrom start pre chunks.flatten := by
  unfold decodeAllC decodeAllFrom
  have := decodeAllAuxC_eq (chunks.flatten.length + 1) start (chunks.flatten.length + 1)
    (Rd.new size chunks eofLast) pre (Rd.new_inv size chunks eofLast)
  rw [Rd.new_flat] at this
  rw [← this]

end GunYu.Resp
