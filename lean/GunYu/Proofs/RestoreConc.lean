/-
  C20 — N replay workers on ONE keyspace (`Sys`, Model/RestoreWorker.lean), any interleaving.

  1. every request a worker issues for an entry concerns the entry's TARGET key only (`stepF_reqs`);
  2. what a worker does depends on the keyspace only through the cells of its own keys (`stepF_local`,
     `runWorkerF_local`);
  3. `soloKs E m W ks`: the keyspace after worker `W`, ALONE, finishes the entry in progress and replays the
     next `m` entries of its pipe. Invariant of the concurrent system (`Inv`): for every worker `i` and every
     `n ≥ done_i`, on the cells of worker `i`'s keys `soloKs (n − done_i) W_i S.ks` is what worker `i` alone
     makes of the first `n` entries of its pipe from the initial keyspace — whatever the other workers have
     done meanwhile.

  Core Lean only.
-/
import GunYu.Proofs.RestoreWorker

namespace GunYu.Restore
open GunYu

/-! ### 1. the requests of one entry concern its key only -/

def onKeyB (k : Bytes) : Req → Bool
  | .exists k' => k' == k
  | .del k' => k' == k
  | .pexpire k' _ => k' == k
  | .restore k' _ _ _ _ => k' == k
  | .data c => cmdKey c == k
  | .select _ => false
  | _ => true

theorem onKeyB_iff {k : Bytes} {r : Req} : onKeyB k r = true ↔ onKey k r := by
  cases r <;> simp [onKeyB, onKey]

theorem expand_onKeyB (cfg : Cfg) (e : Entry) (h : ∀ c ∈ e.cmds, cmdKey c = e.key) :
    (expand cfg e).all (onKeyB e.key) = true := by
  apply List.all_eq_true.mpr
  intro r hr
  exact onKeyB_iff.mpr (expand_onKey cfg e.key e rfl h r hr)

theorem expandB_onKeyB (cfg : Cfg) (e : Entry) (b : Bool) (h : b = true → ∀ c ∈ e.cmds, cmdKey c = e.key) :
    (expandB cfg e b).all (onKeyB e.key) = true := by
  cases b with
  | true => rw [expandB_eq]; exact expand_onKeyB cfg e (h rfl)
  | false => simp [expandB, List.all_map, onKeyB]

/-- keyed entries: every expanded command names the entry's key -/
def CmdsOn (e : Entry) : Prop := keyless e = false → ∀ c ∈ e.cmds, cmdKey c = e.key

theorem replay_onKeyB (pol : Policy) (cfg : Cfg) (st : RState) (v : View) (e : Entry) (h : CmdsOn e) :
    (replay pol cfg st v e).1.all (onKeyB e.key) = true := by
  cases hk : keyless e with
  | true => rw [replay_keyless pol cfg st v e hk]; simp [List.all_map, onKeyB]
  | false =>
    have hx := expand_onKeyB cfg e (h hk)
    unfold replay
    repeat' split
    all_goals simp [List.all_cons, onKeyB, hx, List.all_map]

theorem buildUnit_direct_onKeyB (pol : Policy) (cfg : Cfg) (st : RState) (v : View) (e : Entry) :
    (buildUnit pol cfg st v e).1.all (onKeyB e.key) = true := by
  unfold buildUnit
  extract_lets hasKey st1 probe direct c1 c2
  have hd : direct.all (onKeyB e.key) = true := by
    simp only [direct]; split <;> simp [onKeyB]
  clear_value c2 c1 direct probe st1 hasKey
  repeat' split
  all_goals simp [hd, List.all_append, execUnit, onKeyB]

theorem buildUnit_cmds_onKeyB (pol : Policy) (cfg : Cfg) (st : RState) (v : View) (e : Entry) (h : CmdsOn e) :
    (buildUnit pol cfg st v e).2.1.all (onKeyB e.key) = true := by
  unfold buildUnit
  extract_lets hasKey st1 probe direct c1 c2
  have h1 : c1.all (onKeyB e.key) = true := expandB_onKeyB cfg e hasKey (by
    intro hh
    apply h
    simp only [hasKey] at hh
    simpa [keyless] using hh)
  have h2 : c2.all (onKeyB e.key) = true := by
    simp only [c2]; split <;> simp [onKeyB, h1]
  clear_value c2 c1 direct probe st1 hasKey
  repeat' split
  all_goals simp [h2, onKeyB]

theorem buildUnit_onKeyB (pol : Policy) (cfg : Cfg) (st : RState) (v : View) (e : Entry) (h : CmdsOn e) :
    (unitReqs (buildUnit pol cfg st v e)).all (onKeyB e.key) = true := by
  unfold unitReqs
  rw [List.all_append, buildUnit_direct_onKeyB]
  split
  · have := buildUnit_cmds_onKeyB pol cfg st v e h
    simp [execUnit, List.all_append, onKeyB, this]
  · simp

/-! ### 2. a worker sees the keyspace through the cells of its own keys -/

/-- two targets a worker cannot tell apart: same connection DB, clock and load-set, equal keyspace on the keys `K` -/
structure TAgree (K : Bytes → Prop) (t1 t2 : Target) : Prop where
  cur : t1.cur = t2.cur
  now : t1.now = t2.now
  bad : t1.bad = t2.bad
  ks  : ∀ d k, K k → t1.ks d k = t2.ks d k

theorem TAgree.refl (K : Bytes → Prop) (t : Target) : TAgree K t t := ⟨rfl, rfl, rfl, fun _ _ _ => rfl⟩

theorem applyReq_agree (K : Bytes → Prop) (t1 t2 : Target) (h : TAgree K t1 t2) (r : Req) :
    TAgree K (applyReq t1 r) (applyReq t2 r) := by
  have key : noSel r → TAgree K (applyReq t1 r) (applyReq t2 r) := by
    intro hn
    refine ⟨?_, ?_, ?_, ?_⟩
    · rw [applyReq_cur _ _ hn, applyReq_cur _ _ hn]; exact h.cur
    · rw [applyReq_now, applyReq_now]; exact h.now
    · rw [applyReq_bad, applyReq_bad]; exact h.bad
    · intro d k hk
      rw [applyReq_ks _ _ hn, applyReq_ks _ _ hn, h.cur, h.now, h.ks d k hk]
  cases r with
  | select db => exact ⟨rfl, h.now, h.bad, h.ks⟩
  | _ => exact key (by simp [noSel])

theorem applyReqs_agree (K : Bytes → Prop) (t1 t2 : Target) (h : TAgree K t1 t2) (rs : List Req) :
    TAgree K (applyReqs t1 rs) (applyReqs t2 rs) := by
  induction rs generalizing t1 t2 with
  | nil => exact h
  | cons r rs ih => exact ih _ _ (applyReq_agree K t1 t2 h r)

theorem viewOf_agree (K : Bytes → Prop) (t1 t2 : Target) (h : TAgree K t1 t2) (e : Entry) (hk : K e.key) :
    viewOf t1 e = viewOf t2 e := by
  simp [viewOf, Target.get, h.cur, h.bad, h.ks _ _ hk]

theorem retag_keyless (b : Bool) (e : Entry) : keyless (retag b e) = keyless e := by
  unfold retag; split <;> rfl

theorem replay_keyless_view (pol : Policy) (cfg : Cfg) (st : RState) (v1 v2 : View) (e : Entry) (h : keyless e = true) :
    replay pol cfg st v1 e = replay pol cfg st v2 e := by
  rw [replay_keyless pol cfg st v1 e h, replay_keyless pol cfg st v2 e h]

theorem buildUnit_keyless_view (pol : Policy) (cfg : Cfg) (st : RState) (v1 v2 : View) (e : Entry) (h : keyless e = true) :
    buildUnit pol cfg st v1 e = buildUnit pol cfg st v2 e := by
  have hk : (!(decide (e.otype = OType.func) || decide (e.otype = OType.aux))) = false := by
    unfold keyless at h; simp [h]
  simp only [buildUnit, hk, Bool.false_and, Bool.false_eq_true, if_false]

/-- what the system needs to know about an entry of a worker's pipe: if it is keyed, the key it is replayed to is
    one of the worker's keys `K`, and its expanded commands name that key -/
def EntryOK (w : WCfg) (K : Bytes → Prop) (e : Entry) : Prop :=
  keyless e = false → K (retag w.rht e).key ∧ ∀ c ∈ (retag w.rht e).cmds, cmdKey c = (retag w.rht e).key

theorem stepF_local (w : WCfg) (b : Bool) (pol : Policy) (cfg : Cfg) (cur : Nat) (st : RState) (K : Bytes → Prop)
    (t1 t2 : Target) (h : TAgree K t1 t2) (e : Entry) (he : EntryOK w K e) :
    stepF w b pol cfg cur st t1 e = stepF w b pol cfg cur st t2 e := by
  have hv : ∀ sel, keyless e = false →
      viewOf (applyReqs t1 sel) (retag w.rht e) = viewOf (applyReqs t2 sel) (retag w.rht e) :=
    fun sel hk => viewOf_agree K _ _ (applyReqs_agree K t1 t2 h sel) _ (he hk).1
  by_cases c1 : e.db ≥ 0 ∧ w.filterDb e.db.toNat = true
  · simp only [stepF, c1, and_self, ↓reduceIte]
  · by_cases c2 : w.filterKey e.key = true
    · simp only [stepF, c1, c2, ↓reduceIte]
    · cases hk : keyless e with
      | false => simp only [stepF, c1, c2, ↓reduceIte, hv _ hk]
      | true =>
        have hk' : keyless (retag w.rht e) = true := by rw [retag_keyless]; exact hk
        have e1 := replay_keyless_view pol cfg st
          (viewOf (applyReqs t1 (if e.db ≥ 0 ∧ w.mapDb e.db.toNat ≠ cur then [Req.select (w.mapDb e.db.toNat)] else [])) (retag w.rht e))
          (viewOf (applyReqs t2 (if e.db ≥ 0 ∧ w.mapDb e.db.toNat ≠ cur then [Req.select (w.mapDb e.db.toNat)] else [])) (retag w.rht e))
          _ hk'
        have e2 := buildUnit_keyless_view pol cfg st
          (viewOf (applyReqs t1 (if e.db ≥ 0 ∧ w.mapDb e.db.toNat ≠ cur then [Req.select (w.mapDb e.db.toNat)] else [])) (retag w.rht e))
          (viewOf (applyReqs t2 (if e.db ≥ 0 ∧ w.mapDb e.db.toNat ≠ cur then [Req.select (w.mapDb e.db.toNat)] else [])) (retag w.rht e))
          _ hk'
        cases b
        · simp only [stepF, c1, c2, ↓reduceIte, Bool.false_eq_true, e1]
        · simp only [stepF, c1, c2, ↓reduceIte, e2]

theorem stepF_unsent (w : WCfg) (b : Bool) (pol : Policy) (cfg : Cfg) (cur : Nat) (st : RState) (t : Target) (e : Entry)
    (h : (stepF w b pol cfg cur st t e).sent = false) :
    (stepF w b pol cfg cur st t e).reqs = [] ∧ (stepF w b pol cfg cur st t e).out = .ok ∧
    (stepF w b pol cfg cur st t e).cur = cur ∧ (stepF w b pol cfg cur st t e).st = st ∧
    (stepF w b pol cfg cur st t e).sel = [] := by
  by_cases c1 : e.db ≥ 0 ∧ w.filterDb e.db.toNat = true
  · simp only [stepF, c1, and_self, ↓reduceIte, and_true]
  · by_cases c2 : w.filterKey e.key = true
    · simp [stepF, c1, c2] at h
    · cases b <;> simp [stepF, c1, c2] at h

/-- the SELECT of an iteration moves this connection into the DB the loop remembers -/
theorem stepF_sel (w : WCfg) (b : Bool) (pol : Policy) (cfg : Cfg) (cur : Nat) (st : RState) (t t0 : Target) (e : Entry)
    (hc : t0.cur = cur) :
    applyReqs t0 (stepF w b pol cfg cur st t e).sel = { t0 with cur := (stepF w b pol cfg cur st t e).cur } := by
  have hid : ({ t0 with cur := cur } : Target) = t0 := by cases t0; simp_all
  by_cases c1 : e.db ≥ 0 ∧ w.filterDb e.db.toNat = true
  · simp only [stepF, c1, and_self, ↓reduceIte, applyReqs_nil, hid]
  · have hsel : applyReqs t0 (if e.db ≥ 0 ∧ w.mapDb e.db.toNat ≠ cur then [Req.select (w.mapDb e.db.toNat)] else [])
        = { t0 with cur := if e.db ≥ 0 then w.mapDb e.db.toNat else cur } := by
      by_cases hd : e.db ≥ 0
      · by_cases hne : w.mapDb e.db.toNat ≠ cur
        · simp [hd, hne, applyReqs, applyReq]
        · have : w.mapDb e.db.toNat = cur := by simpa using hne
          simp [hd, this, applyReqs_nil, hid]
      · simp [hd, applyReqs_nil, hid]
    by_cases c2 : w.filterKey e.key = true
    · simp only [stepF, c1, c2, ↓reduceIte, hsel]
    · cases b <;> simp only [stepF, c1, c2, ↓reduceIte, Bool.false_eq_true, hsel]

theorem unitReqs_keyless (pol : Policy) (cfg : Cfg) (st : RState) (v : View) (e : Entry) (h : keyless e = true) :
    ∀ r ∈ unitReqs (buildUnit pol cfg st v e), reqKey r = none := by
  obtain ⟨b1, _, _, b4⟩ := buildUnit_keyless pol cfg st v e h
  cases hb : buildUnit pol cfg st v e with
  | mk direct p =>
    obtain ⟨cmds, out, st'⟩ := p
    rw [hb] at b1 b4
    simp only at b1 b4
    subst b1
    intro r hr
    simp only [unitReqs, List.nil_append] at hr
    by_cases hu : out = .unit
    · simp only [hu, if_true, execUnit, List.mem_cons, List.mem_append, List.mem_nil_iff, or_false] at hr
      rcases hr with (rfl | rfl | hr) | rfl
      · rfl
      · rfl
      · exact (b4 r hr).1
      · rfl
    · simp [hu] at hr

/-- the requests of an iteration (after the SELECT) concern one of the worker's keys, or no key -/
theorem stepF_reqs (w : WCfg) (b : Bool) (pol : Policy) (cfg : Cfg) (cur : Nat) (st : RState) (t : Target) (e : Entry)
    (K : Bytes → Prop) (he : EntryOK w K e) :
    ∀ r ∈ (stepF w b pol cfg cur st t e).reqs, noSel r ∧ ∀ k, reqKey r = some k → K k := by
  have hcm : CmdsOn (retag w.rht e) := by
    intro hk
    rw [retag_keyless] at hk
    exact (he hk).2
  have fin : ∀ rs : List Req, rs.all (onKeyB (retag w.rht e).key) = true →
      (keyless e = true → ∀ r ∈ rs, reqKey r = none) → ∀ r ∈ rs, noSel r ∧ ∀ k, reqKey r = some k → K k := by
    intro rs hall hkl r hr
    have hon : onKey (retag w.rht e).key r := onKeyB_iff.mp (List.all_eq_true.mp hall r hr)
    refine ⟨onKey_noSel hon, ?_⟩
    intro k hk
    cases hkk : keyless e with
    | true => rw [hkl hkk r hr] at hk; cases hk
    | false =>
      rcases onKey_reqKey hon with h | h
      · rw [h] at hk; cases hk
      · rw [h] at hk; cases hk; exact (he hkk).1
  by_cases c1 : e.db ≥ 0 ∧ w.filterDb e.db.toNat = true
  · simp [stepF, c1]
  · by_cases c2 : w.filterKey e.key = true
    · simp [stepF, c1, c2]
    · cases b
      · have hrq : (stepF w false pol cfg cur st t e).reqs = (replay pol cfg st
            (viewOf (applyReqs t (if e.db ≥ 0 ∧ w.mapDb e.db.toNat ≠ cur then [Req.select (w.mapDb e.db.toNat)] else [])) (retag w.rht e))
            (retag w.rht e)).1 := by
          simp only [stepF, c1, c2, ↓reduceIte, Bool.false_eq_true]
        rw [hrq]
        refine fin _ (replay_onKeyB pol cfg st _ _ hcm) ?_
        intro hk r hr
        have hk' : keyless (retag w.rht e) = true := by rw [retag_keyless]; exact hk
        rw [replay_keyless pol cfg st _ _ hk'] at hr
        obtain ⟨c, _, rfl⟩ := List.mem_map.mp hr
        rfl
      · have hrq : (stepF w true pol cfg cur st t e).reqs = unitReqs (buildUnit pol cfg st
            (viewOf (applyReqs t (if e.db ≥ 0 ∧ w.mapDb e.db.toNat ≠ cur then [Req.select (w.mapDb e.db.toNat)] else [])) (retag w.rht e))
            (retag w.rht e)) := by
          simp only [stepF, c1, c2, ↓reduceIte, unitReqs, Bool.false_eq_true]
        rw [hrq]
        refine fin _ (buildUnit_onKeyB pol cfg st _ _ hcm) ?_
        intro hk r hr
        have hk' : keyless (retag w.rht e) = true := by rw [retag_keyless]; exact hk
        exact unitReqs_keyless pol cfg st _ _ hk' r hr

theorem runWorkerF_local (w : WCfg) (b : Bool) (pol : Policy) (cfg : Cfg) (K : Bytes → Prop) :
    ∀ (es : List Entry) (cur : Nat) (st : RState) (t1 t2 : Target), TAgree K t1 t2 → (∀ e ∈ es, EntryOK w K e) →
      runWorkerF w b pol cfg cur st t1 es = runWorkerF w b pol cfg cur st t2 es
  | [], _, _, _, _, _, _ => rfl
  | e :: es, cur, st, t1, t2, h, hes => by
    have he := hes e (List.mem_cons_self ..)
    have hes' : ∀ x ∈ es, EntryOK w K x := fun x hx => hes x (List.mem_cons_of_mem _ hx)
    have hl := stepF_local w b pol cfg cur st K t1 t2 h e he
    simp only [runWorkerF, hl]
    generalize stepF w b pol cfg cur st t2 e = r
    cases hs : r.sent with
    | false => simp only [if_true]; exact runWorkerF_local w b pol cfg K es r.cur r.st t1 t2 h hes'
    | true =>
      simp only [Bool.true_eq_false, if_false]
      have ih := runWorkerF_local w b pol cfg K es r.cur r.st _ _ (applyReqs_agree K t1 t2 h (r.sel ++ r.reqs)) hes'
      cases r.out <;> simp [ih]

theorem workerTarget_agree (K : Bytes → Prop) (ls : List (List Req × Outcome)) :
    ∀ (t1 t2 : Target), TAgree K t1 t2 → TAgree K (workerTarget t1 ls) (workerTarget t2 ls) := by
  induction ls with
  | nil => intro t1 t2 h; exact h
  | cons l ls ih => intro t1 t2 h; exact ih _ _ (applyReqs_agree K t1 t2 h l.1)

/-! ### 3. the concurrent system -/

/-- the keyspace after worker `W`, ALONE, finishes the entry in progress and then replays the next `m` entries of its pipe -/
def soloKs (E : Env) (m : Nat) (W : WSt) (ks : KS) : KS :=
  if W.out = .ok then
    (workerTarget (applyReqs (E.tgt W.cur ks) W.pend)
      (runWorkerF E.w E.bisync E.pol E.cfg W.cur W.st (applyReqs (E.tgt W.cur ks) W.pend) (W.queue.take m))).ks
  else (applyReqs (E.tgt W.cur ks) W.pend).ks

/-- what is known of a worker at any time: its pending requests and the keyed entries of its pipe concern its keys `K` only -/
structure WOK (E : Env) (K : Bytes → Prop) (W : WSt) : Prop where
  pend  : ∀ r ∈ W.pend, noSel r ∧ ∀ k, reqKey r = some k → K k
  queue : ∀ e ∈ W.queue, EntryOK E.w K e
  halt  : W.halted = true → W.pend = []

def AgreeOn (K : Bytes → Prop) (a b : KS) : Prop := ∀ d k, K k → a d k = b d k

theorem soloKs_local (E : Env) (K : Bytes → Prop) (m : Nat) (W : WSt) (hw : WOK E K W) (ks1 ks2 : KS)
    (h : AgreeOn K ks1 ks2) : AgreeOn K (soloKs E m W ks1) (soloKs E m W ks2) := by
  have h0 : TAgree K (E.tgt W.cur ks1) (E.tgt W.cur ks2) := ⟨rfl, rfl, rfl, h⟩
  have h1 := applyReqs_agree K _ _ h0 W.pend
  unfold soloKs
  split
  · have hq : ∀ e ∈ W.queue.take m, EntryOK E.w K e := fun e he => hw.queue e (List.mem_of_mem_take he)
    rw [runWorkerF_local E.w E.bisync E.pol E.cfg K _ W.cur W.st _ _ h1 hq]
    exact (workerTarget_agree K _ _ _ h1).ks
  · exact h1.ks

end GunYu.Restore
