/-
  C13 — EVERY fair schedule drains (session 5).

  `drain_reaches` (Proofs/BisyncDrain.lean) is an existence statement. Here the
  drain is characterised exactly: `needOf w s` is the number of steps link `s`
  still has to take before it is past its last pending client block, a step of
  link `s` lowers ITS count by one (or to 0 when the builder stops it) and
  leaves the other link's count alone (what a link writes at the other site is
  never owed a commit). Hence

  * over ANY sequence of link steps the count of each link is at most what it
    was minus the number of steps that link took (`needOf_run_le`);
  * any finite schedule in which each link takes at least `needOf w s` steps
    ends with both links settled (`enough_steps_settle`);
  * for an INFINITE schedule `Nat → SiteId × CommitArg` that lets each link step
    again and again (`Fair`), from some index on every prefix leaves both links
    settled, and extending the prefix changes neither stream, nor the commit
    log, nor the emitted units (`fair_schedule_drains`).
-/
import GunYu.Proofs.BisyncDrain

namespace GunYu.Bisync
open GunYu GunYu.BisyncUnit

/-- `progress_of_facts`, per link -/
theorem needOf_of_facts (w W' : World) (src : SiteId) (tb : TBlock) (l' : LinkSt) (ext : List TBlock)
    (hlive : ¬ (w.link src).halted.isSome = true)
    (hget : (w.site src).stream[(w.link src).pos]? = some tb)
    (hneed : need ((w.site src).stream.drop (w.link src).pos) > 0)
    (hpos : (w.link src.other).pos ≤ (w.site src.other).stream.length)
    (h1 : W'.link src = l') (hp : l'.pos = (w.link src).pos + 1) (hh : l'.halted = (w.link src).halted)
    (h2 : W'.link src.other = w.link src.other) (h3 : W'.site src = w.site src)
    (h4 : (W'.site src.other).stream = (w.site src.other).stream ++ ext) (hnd : ∀ tb ∈ ext, due tb = false) :
    needOf W' src + 1 = needOf w src ∧ needOf W' src.other = needOf w src.other := by
  constructor
  · unfold needOf
    rw [h1, h3, hh, hp, if_neg hlive, if_neg hlive]
    rw [drop_of_get _ _ tb hget] at hneed ⊢
    exact need_cons tb _ hneed
  · unfold needOf
    rw [h2, h4, List.drop_append_of_le_length hpos, need_append _ _ hnd]

/-- one link step, per link: the stepping link's remaining work drops by one (or
    to zero), the other link's is untouched -/
theorem link_step_needOf (cfg : WCfg) (hf : FOK cfg.parser.filter) (w : World) (hinv : WInv cfg w)
    (src : SiteId) (arg : CommitArg) :
    needOf (stepWorld cfg w (.link src arg)) src ≤ needOf w src - 1 ∧
    needOf (stepWorld cfg w (.link src arg)) src.other = needOf w src.other := by
  by_cases hwork : needOf w src > 0
  · have hlive : ¬ (w.link src).halted.isSome = true := by
      intro h; unfold needOf at hwork; rw [if_pos h] at hwork; omega
    have hneed : need ((w.site src).stream.drop (w.link src).pos) > 0 := by
      unfold needOf at hwork; rw [if_neg hlive] at hwork; exact hwork
    have hs := link_step_shape cfg hf w hinv src arg
    generalize stepWorld cfg w (.link src arg) = w' at hs
    cases hs with
    | stay h =>
      exfalso
      rcases h with h | h
      · exact hlive h
      · have : (w.site src).stream.drop (w.link src).pos = [] := by
          rw [List.drop_eq_nil_iff]
          rcases Nat.lt_or_ge (w.link src).pos (w.site src).stream.length with h1 | h1
          · rw [List.getElem?_eq_getElem h1] at h; cases h
          · exact h1
        rw [this] at hneed
        simp [need] at hneed
    | skip tb pst' hget hd =>
      have e1 : needOf (w.setLink src { (w.link src) with pos := (w.link src).pos + 1, pst := pst' }) src.other =
          needOf w src.other := by
        unfold needOf; rw [link_setLink_other, site_setLink]
      have e2 : needOf (w.setLink src { (w.link src) with pos := (w.link src).pos + 1, pst := pst' }) src + 1 =
          needOf w src := by
        unfold needOf
        rw [link_setLink_same, site_setLink]
        show (if (w.link src).halted.isSome = true then 0 else need (List.drop ((w.link src).pos + 1) _)) + 1 = _
        rw [if_neg hlive, if_neg hlive]
        rw [drop_of_get _ _ tb hget] at hneed ⊢
        exact need_cons tb _ hneed
      exact ⟨by omega, e1⟩
    | halt tb e hget hd _ =>
      have e1 : needOf (w.setLink src { (w.link src) with halted := some (.build e) }) src.other = needOf w src.other := by
        unfold needOf; rw [link_setLink_other, site_setLink]
      have e2 : needOf (w.setLink src { (w.link src) with halted := some (.build e) }) src = 0 := by
        unfold needOf; rw [link_setLink_same]; rfl
      exact ⟨by omega, e1⟩
    | emit tb pst' e hget hd _ _ =>
      obtain ⟨h1, h2, h3, ⟨ext, h4, h5⟩, _⟩ := emit_world cfg w src (linkAfter (w.link src) pst' tb.tag e)
        (commitCmds (w.link src).cp arg.kind e.unit ⟨arg.markerValue, arg.recordFields, e.seq⟩) (.tool (tagId tb.tag)) tb.tag
      have hnd := tool_not_due (.tool (tagId tb.tag)) rfl ext h5
      obtain ⟨e2, e1⟩ := needOf_of_facts w _ src tb _ ext hlive hget hneed (hinv.pos src.other) h1 rfl rfl h2 h3 h4 hnd
      exact ⟨by omega, e1⟩
  · have hz : needOf w src = 0 := by omega
    have hset : Settled w src := settled_of_needOf w src hz
    obtain ⟨l', hstep, _, hhalt, hpos⟩ := link_step_settled cfg hf w hinv src arg hset
    rw [hstep]
    constructor
    · have : needOf (w.setLink src l') src = 0 := by
        unfold needOf
        rw [link_setLink_same, site_setLink, hhalt]
        by_cases hh : (w.link src).halted.isSome = true
        · rw [if_pos hh]
        · rw [if_neg hh]
          unfold needOf at hz
          rw [if_neg hh] at hz
          have hall := (need_eq_zero _).mp hz
          apply (need_eq_zero _).mpr
          intro tb htb
          apply hall tb
          have : l'.pos = (w.link src).pos + (l'.pos - (w.link src).pos) := by omega
          rw [this, ← List.drop_drop] at htb
          exact List.mem_of_mem_drop htb
      omega
    · unfold needOf; rw [link_setLink_other, site_setLink]

/-- how many steps link `s` takes in a list of events -/
def stepsOf (s : SiteId) : List Ev → Nat
  | [] => 0
  | .link src _ :: es => (if src = s then 1 else 0) + stepsOf s es
  | _ :: es => stepsOf s es

theorem stepsOf_append (s : SiteId) (l t : List Ev) : stepsOf s (l ++ t) = stepsOf s l + stepsOf s t := by
  induction l with
  | nil => simp [stepsOf]
  | cons e es ih =>
    cases e <;> simp only [List.cons_append, stepsOf, ih] <;> omega

theorem runWorld_append (cfg : WCfg) (w : World) (l t : List Ev) :
    runWorld cfg w (l ++ t) = runWorld cfg (runWorld cfg w l) t := by
  induction l generalizing w with
  | nil => rfl
  | cons e es ih => exact ih _

theorem run_links_inv (cfg : WCfg) (hf : FOK cfg.parser.filter) (more : List Ev) (w : World) (hinv : WInv cfg w)
    (hl : ∀ e ∈ more, e.isLink) : WInv cfg (runWorld cfg w more) := by
  induction more generalizing w with
  | nil => exact hinv
  | cons e es ih =>
    have he := hl e (by simp)
    cases e with
    | link src arg =>
      exact ih _ (step_link cfg hf w hinv src arg) (fun e' he' => hl e' (List.mem_cons_of_mem _ he'))
    | client _ _ _ => exact absurd he (by simp [Ev.isLink])
    | tick _ _ => exact absurd he (by simp [Ev.isLink])
    | expire _ _ => exact absurd he (by simp [Ev.isLink])
    | snapshot _ _ _ => exact absurd he (by simp [Ev.isLink])
    | book _ _ => exact absurd he (by simp [Ev.isLink])
    | toolRaw _ _ _ => exact absurd he (by simp [Ev.isLink])
    | restart _ _ _ => exact absurd he (by simp [Ev.isLink])

/-- **Over ANY sequence of link steps** each link's remaining work is at most
    what it was minus the number of steps that link took. -/
theorem needOf_run_le (cfg : WCfg) (hf : FOK cfg.parser.filter) (more : List Ev) (w : World) (hinv : WInv cfg w)
    (hl : ∀ e ∈ more, e.isLink) (s : SiteId) :
    needOf (runWorld cfg w more) s ≤ needOf w s - stepsOf s more := by
  induction more generalizing w with
  | nil => simp [runWorld, stepsOf]
  | cons e es ih =>
    have he := hl e (by simp)
    cases e with
    | link src arg =>
      have hrun : runWorld cfg w (Ev.link src arg :: es) = runWorld cfg (stepWorld cfg w (.link src arg)) es := rfl
      have h := ih _ (step_link cfg hf w hinv src arg) (fun e' he' => hl e' (List.mem_cons_of_mem _ he'))
      obtain ⟨h1, h2⟩ := link_step_needOf cfg hf w hinv src arg
      rw [hrun]
      show _ ≤ needOf w s - ((if src = s then 1 else 0) + stepsOf s es)
      rcases eq_or_other' src s with rfl | rfl
      · rw [if_pos rfl]; omega
      · have hne : ¬ src = src.other := by cases src <;> simp [SiteId.other]
        rw [if_neg hne]; omega
    | client _ _ _ => exact absurd he (by simp [Ev.isLink])
    | tick _ _ => exact absurd he (by simp [Ev.isLink])
    | expire _ _ => exact absurd he (by simp [Ev.isLink])
    | snapshot _ _ _ => exact absurd he (by simp [Ev.isLink])
    | book _ _ => exact absurd he (by simp [Ev.isLink])
    | toolRaw _ _ _ => exact absurd he (by simp [Ev.isLink])
    | restart _ _ _ => exact absurd he (by simp [Ev.isLink])

/-- any finite schedule of link steps in which each link takes at least its
    remaining work ends with both links settled -/
theorem enough_steps_settle (cfg : WCfg) (hf : FOK cfg.parser.filter) (more : List Ev) (w : World) (hinv : WInv cfg w)
    (hl : ∀ e ∈ more, e.isLink) (hen : ∀ s, needOf w s ≤ stepsOf s more) :
    ∀ s, Settled (runWorld cfg w more) s := by
  intro s
  apply settled_of_needOf
  have := needOf_run_le cfg hf more w hinv hl s
  have := hen s
  omega

/-! ### infinite schedules -/

/-- the first `n` steps of an infinite schedule of link steps -/
def schedPrefix (sched : Nat → SiteId × CommitArg) : Nat → List Ev
  | 0 => []
  | n + 1 => schedPrefix sched n ++ [.link (sched n).1 (sched n).2]

theorem schedPrefix_links (sched : Nat → SiteId × CommitArg) (n : Nat) : ∀ e ∈ schedPrefix sched n, e.isLink := by
  induction n with
  | zero => intro e he; cases he
  | succ n ih =>
    intro e he
    rcases List.mem_append.mp he with h | h
    · exact ih e h
    · rw [List.mem_singleton.mp h]; trivial

/-- the schedule lets each link step again and again -/
def Fair (sched : Nat → SiteId × CommitArg) : Prop := ∀ s n, ∃ m, n ≤ m ∧ (sched m).1 = s

theorem stepsOf_prefix_mono (sched : Nat → SiteId × CommitArg) (s : SiteId) (n m : Nat) (h : n ≤ m) :
    stepsOf s (schedPrefix sched n) ≤ stepsOf s (schedPrefix sched m) := by
  induction m with
  | zero => have : n = 0 := by omega
            rw [this]; exact Nat.le_refl _
  | succ m ih =>
    rcases Nat.lt_or_ge n (m + 1) with h1 | h1
    · have := ih (by omega)
      show _ ≤ stepsOf s (schedPrefix sched m ++ _)
      rw [stepsOf_append]; omega
    · have : n = m + 1 := by omega
      rw [this]; exact Nat.le_refl _

theorem fair_steps (sched : Nat → SiteId × CommitArg) (hfair : Fair sched) (s : SiteId) (k : Nat) :
    ∃ N, k ≤ stepsOf s (schedPrefix sched N) := by
  induction k with
  | zero => exact ⟨0, Nat.zero_le _⟩
  | succ k ih =>
    obtain ⟨N, hN⟩ := ih
    obtain ⟨m, hm, hs⟩ := hfair s N
    refine ⟨m + 1, ?_⟩
    have hmono := stepsOf_prefix_mono sched s N m hm
    show _ ≤ stepsOf s (schedPrefix sched m ++ [.link (sched m).1 (sched m).2])
    rw [stepsOf_append]
    show _ ≤ _ + ((if (sched m).1 = s then 1 else 0) + 0)
    rw [if_pos hs]; omega

/-- **Every fair schedule drains.** From a world satisfying the invariant, along
    ANY infinite schedule of link steps that lets each link step again and again
    (any commit arguments at each step), there is an index from which on every
    prefix of the schedule leaves both links settled; and from that index on
    extending the prefix changes neither stream, nor the commit log, nor the
    units emitted. -/
theorem fair_schedule_drains (cfg : WCfg) (hf : FOK cfg.parser.filter) (w : World) (hinv : WInv cfg w)
    (sched : Nat → SiteId × CommitArg) (hfair : Fair sched) :
    ∃ N, ∀ n, N ≤ n →
      (∀ s, Settled (runWorld cfg w (schedPrefix sched n)) s) ∧
      (runWorld cfg w (schedPrefix sched n)).a.stream = (runWorld cfg w (schedPrefix sched N)).a.stream ∧
      (runWorld cfg w (schedPrefix sched n)).b.stream = (runWorld cfg w (schedPrefix sched N)).b.stream ∧
      (runWorld cfg w (schedPrefix sched n)).commits = (runWorld cfg w (schedPrefix sched N)).commits ∧
      ∀ s, ((runWorld cfg w (schedPrefix sched n)).link s).emitted = ((runWorld cfg w (schedPrefix sched N)).link s).emitted := by
  obtain ⟨Na, hNa⟩ := fair_steps sched hfair .A (needOf w .A)
  obtain ⟨Nb, hNb⟩ := fair_steps sched hfair .B (needOf w .B)
  have hsettle : ∀ n, max Na Nb ≤ n → ∀ s, Settled (runWorld cfg w (schedPrefix sched n)) s := by
    intro n hn
    apply enough_steps_settle cfg hf _ w hinv (schedPrefix_links sched n)
    intro s
    cases s
    · exact Nat.le_trans hNa (stepsOf_prefix_mono sched .A Na n (by omega))
    · exact Nat.le_trans hNb (stepsOf_prefix_mono sched .B Nb n (by omega))
  refine ⟨max Na Nb, ?_⟩
  intro n hn
  refine ⟨hsettle n hn, ?_⟩
  -- the prefix of length n is the prefix of length N followed by link steps
  have hsplit : ∀ d, ∃ rest, (∀ e ∈ rest, e.isLink) ∧
      schedPrefix sched (max Na Nb + d) = schedPrefix sched (max Na Nb) ++ rest := by
    intro d
    induction d with
    | zero => exact ⟨[], by simp, by simp⟩
    | succ d ih =>
      obtain ⟨rest, hr, he⟩ := ih
      refine ⟨rest ++ [.link (sched (max Na Nb + d)).1 (sched (max Na Nb + d)).2], ?_, ?_⟩
      · intro e hmem
        rcases List.mem_append.mp hmem with h | h
        · exact hr e h
        · rw [List.mem_singleton.mp h]; trivial
      · show schedPrefix sched (max Na Nb + d) ++ _ = _
        rw [he, List.append_assoc]
        rfl
  obtain ⟨rest, hr, he⟩ := hsplit (n - max Na Nb)
  have hn' : max Na Nb + (n - max Na Nb) = n := by omega
  rw [hn'] at he
  rw [he, runWorld_append]
  exact quiesce_settled cfg hf rest _ (run_links_inv cfg hf _ w hinv (schedPrefix_links sched _))
    (hsettle _ (Nat.le_refl _)) hr

end GunYu.Bisync
