/-
  Helper lemmas for the frame-level snapshot parser (Model/RdbFrame.lean):
  every reader is *sequential* — on success it has consumed a prefix `c` of its
  input, behaves the same on any input starting with `c`, and fails on every
  proper prefix of `c`. From this: truncation of an accepted file is rejected,
  the parser needs no more fuel than input bytes, and `done` pins the EOF
  opcode and footer to the last nine bytes.
-/
import GunYu.Model.RdbFrame

namespace GunYu.RdbFrame
open GunYu

/-- `r` is sequential -/
def Seq {α} (r : Rd α) : Prop :=
  ∀ xs a rest, r xs = .ok a rest →
    ∃ c, xs = c ++ rest ∧ (∀ ys, r (c ++ ys) = .ok a ys) ∧ (∀ k, k < c.length → r (c.take k) = .err)

/-- `r` consumes at least one byte when it succeeds -/
def Consumes {α} (r : Rd α) : Prop :=
  ∀ xs a rest, r xs = .ok a rest → rest.length < xs.length

theorem Seq.len_le {α} {r : Rd α} (h : Seq r) {xs a rest} (hr : r xs = .ok a rest) : rest.length ≤ xs.length := by
  obtain ⟨c, hc, _, _⟩ := h xs a rest hr
  rw [hc]; simp

/-! ### primitives and combinators -/

theorem ret_seq {α} (a : α) : Seq (ret a) := by
  intro xs b rest h
  simp only [ret, R.ok.injEq] at h
  obtain ⟨rfl, rfl⟩ := h
  exact ⟨[], rfl, fun ys => rfl, fun k hk => by simp at hk⟩

theorem fail_seq {α} : Seq (fail : Rd α) := by intro xs a rest h; simp [fail] at h
theorem outside_seq {α} : Seq (outside : Rd α) := by intro xs a rest h; simp [outside] at h

theorem u8_seq : Seq u8 := by
  intro xs a rest h
  cases xs with
  | nil => simp [u8] at h
  | cons b t =>
    simp only [u8, R.ok.injEq] at h
    obtain ⟨rfl, rfl⟩ := h
    refine ⟨[b], rfl, fun ys => rfl, ?_⟩
    intro k hk
    have : k = 0 := by simp at hk; omega
    subst this; rfl

theorem u8_consumes : Consumes u8 := by
  intro xs a rest h
  cases xs with
  | nil => simp [u8] at h
  | cons b t => simp only [u8, R.ok.injEq] at h; obtain ⟨_, rfl⟩ := h; simp

theorem takeN_seq (n : Nat) : Seq (takeN n) := by
  intro xs a rest h
  unfold takeN at h
  split at h
  · next hle =>
    simp only [R.ok.injEq] at h
    obtain ⟨rfl, rfl⟩ := h
    have hl : (xs.take n).length = n := by rw [List.length_take]; omega
    refine ⟨xs.take n, (List.take_append_drop n xs).symm, ?_, ?_⟩
    · intro ys
      have h1 : n ≤ (List.take n xs ++ ys).length := by rw [List.length_append, hl]; omega
      have h2 : (List.take n xs ++ ys).take n = List.take n xs := by
        rw [List.take_append_of_le_length (by omega)]; simp [List.take_take]
      have h3 : (List.take n xs ++ ys).drop n = ys := by
        rw [List.drop_append_of_le_length (by omega)]
        have : List.drop n (List.take n xs) = [] := by
          apply List.drop_eq_nil_of_le; omega
        rw [this]; rfl
      simp only [takeN, h1, if_true, h2, h3]
    · intro k hk
      rw [hl] at hk
      have : ((xs.take n).take k).length < n := by rw [List.length_take, hl]; omega
      simp only [takeN]
      rw [if_neg (by omega)]
  · cases h

theorem takeN_consumes (n : Nat) (hn : 0 < n) : Consumes (takeN n) := by
  intro xs a rest h
  unfold takeN at h
  split at h
  · simp only [R.ok.injEq] at h; obtain ⟨_, rfl⟩ := h; rw [List.length_drop]; omega
  · cases h

theorem andThen_seq {α β} {r : Rd α} {k : α → Rd β} (hr : Seq r) (hk : ∀ a, Seq (k a)) : Seq (andThen r k) := by
  intro xs b rest h
  unfold andThen at h
  cases h1 : r xs with
  | err => rw [h1] at h; cases h
  | unsup => rw [h1] at h; cases h
  | ok a mid =>
    rw [h1] at h
    obtain ⟨c1, hx1, hall1, htr1⟩ := hr xs a mid h1
    obtain ⟨c2, hx2, hall2, htr2⟩ := hk a mid b rest h
    refine ⟨c1 ++ c2, by rw [hx1, hx2, List.append_assoc], ?_, ?_⟩
    · intro ys
      simp only [andThen, List.append_assoc, hall1 (c2 ++ ys), hall2 ys]
    · intro n hn
      by_cases hlt : n < c1.length
      · have : (c1 ++ c2).take n = c1.take n := List.take_append_of_le_length (by omega)
        simp only [andThen, this, htr1 n hlt]
      · have hge : c1.length ≤ n := by omega
        have : (c1 ++ c2).take n = c1 ++ c2.take (n - c1.length) := by
          rw [List.take_append]
          rw [List.take_of_length_le hge]
        simp only [andThen, this, hall1]
        apply htr2
        rw [List.length_append] at hn; omega

theorem andThen_consumes {α β} {r : Rd α} {k : α → Rd β} (hr : Consumes r) (hk : ∀ a, Seq (k a)) :
    Consumes (andThen r k) := by
  intro xs b rest h
  unfold andThen at h
  cases h1 : r xs with
  | err => rw [h1] at h; cases h
  | unsup => rw [h1] at h; cases h
  | ok a mid =>
    rw [h1] at h
    have := hr xs a mid h1
    have := (hk a).len_le h
    omega

theorem repeatN_seq {r : Rd Unit} (hr : Seq r) : ∀ n, Seq (repeatN n r)
  | 0 => ret_seq ()
  | n+1 => andThen_seq hr (fun _ => repeatN_seq hr n)

/-! ### the readers of the model -/

theorem encLen_seq : Seq encLen := by
  unfold encLen
  apply andThen_seq u8_seq
  intro u
  dsimp only
  split
  · exact ret_seq _
  · split
    · exact andThen_seq u8_seq (fun _ => ret_seq _)
    · split
      · exact ret_seq _
      · split
        · exact andThen_seq (takeN_seq 4) (fun _ => ret_seq _)
        · split
          · exact andThen_seq (takeN_seq 8) (fun _ => ret_seq _)
          · exact fail_seq

theorem len_seq : Seq len := by
  unfold len
  apply andThen_seq encLen_seq
  intro p; split
  · exact fail_seq
  · exact ret_seq _

theorem len32_seq : Seq len32 := andThen_seq len_seq (fun _ => ret_seq _)

theorem skipBytes_seq (n : Nat) : Seq (skipBytes n) := andThen_seq (takeN_seq n) (fun _ => ret_seq _)

theorem str_seq : Seq str := by
  unfold str
  apply andThen_seq encLen_seq
  intro p
  split
  · exact skipBytes_seq _
  · split
    · exact skipBytes_seq _
    · split
      · exact skipBytes_seq _
      · split
        · exact skipBytes_seq _
        · split
          · exact outside_seq
          · exact fail_seq

theorem valueBody_seq (t : Nat) : Seq (valueBody t) := by
  unfold valueBody
  split
  · exact str_seq
  · split
    · exact andThen_seq len32_seq (fun n => repeatN_seq str_seq n)
    · split
      · exact andThen_seq len32_seq (fun n => repeatN_seq (andThen_seq len_seq (fun _ => str_seq)) n)
      · split
        · exact andThen_seq len32_seq (fun n => repeatN_seq (andThen_seq str_seq (fun _ => str_seq)) n)
        · split
          · exact andThen_seq len32_seq (fun n => repeatN_seq (andThen_seq str_seq (fun _ => skipBytes_seq 8)) n)
          · split
            · exact fail_seq
            · exact outside_seq

theorem itemOf_seq (t : Nat) : Seq (itemOf t) := by
  unfold itemOf
  split
  · exact ret_seq _
  · split
    · exact andThen_seq len_seq (fun _ => ret_seq _)
    · split
      · exact andThen_seq len_seq (fun _ => andThen_seq len_seq (fun _ => ret_seq _))
      · split
        · exact andThen_seq (takeN_seq 8) (fun _ => ret_seq _)
        · split
          · exact andThen_seq (takeN_seq 4) (fun _ => ret_seq _)
          · split
            · exact andThen_seq (takeN_seq 1) (fun _ => ret_seq _)
            · split
              · exact andThen_seq len_seq (fun _ => andThen_seq len_seq (fun _ => andThen_seq len_seq (fun _ => ret_seq _)))
              · split
                · exact andThen_seq str_seq (fun _ => andThen_seq str_seq (fun _ => ret_seq _))
                · split
                  · exact andThen_seq str_seq (fun _ => ret_seq _)
                  · split
                    · exact outside_seq
                    · split
                      · exact andThen_seq str_seq (fun _ => andThen_seq (valueBody_seq _) (fun _ => ret_seq _))
                      · exact fail_seq

theorem item_seq : Seq item := andThen_seq u8_seq (fun op => itemOf_seq op.toNat)

theorem item_consumes : Consumes item := andThen_consumes u8_consumes (fun op => itemOf_seq op.toNat)

/-- readers that never return the EOF marker -/
def NeverEof (r : Rd Item) : Prop := ∀ xs rest, r xs ≠ .ok Item.eofOp rest

theorem neverEof_ret_other : NeverEof (ret Item.other) := by intro xs rest h; simp [ret] at h
theorem neverEof_ret_entry : NeverEof (ret Item.entry) := by intro xs rest h; simp [ret] at h
theorem neverEof_fail : NeverEof fail := by intro xs rest h; simp [fail] at h
theorem neverEof_outside : NeverEof outside := by intro xs rest h; simp [outside] at h
theorem neverEof_andThen {α} {r : Rd α} {k : α → Rd Item} (hk : ∀ a, NeverEof (k a)) : NeverEof (andThen r k) := by
  intro xs rest h
  unfold andThen at h
  cases h1 : r xs with
  | err => rw [h1] at h; cases h
  | unsup => rw [h1] at h; cases h
  | ok a mid => rw [h1] at h; exact hk a mid rest h

theorem itemOf_neverEof (t : Nat) (ht : t ≠ 0xFF) : NeverEof (itemOf t) := by
  unfold itemOf
  rw [if_neg ht]
  repeat' split
  all_goals first
    | exact neverEof_fail
    | exact neverEof_outside
    | exact neverEof_andThen (fun _ => neverEof_ret_other)
    | exact neverEof_andThen (fun _ => neverEof_ret_entry)
    | exact neverEof_andThen (fun _ => neverEof_andThen (fun _ => neverEof_ret_other))
    | exact neverEof_andThen (fun _ => neverEof_andThen (fun _ => neverEof_ret_entry))
    | exact neverEof_andThen (fun _ => neverEof_andThen (fun _ => neverEof_andThen (fun _ => neverEof_ret_other)))

theorem header_seq (maxVer : Nat) : Seq (header maxVer) := by
  unfold header
  apply andThen_seq (takeN_seq 9)
  intro h
  split
  · exact fail_seq
  · split
    · split
      · exact fail_seq
      · exact ret_seq _
    · exact fail_seq

/-- the EOF opcode is the single byte 0xFF -/
theorem item_eofOp {xs rest} (h : item xs = .ok Item.eofOp rest) : xs = 0xFF :: rest := by
  unfold item andThen at h
  cases xs with
  | nil => simp [u8] at h
  | cons b t =>
    simp only [u8] at h
    by_cases hb : b.toNat = 0xFF
    · have hb' : b = 0xFF := by
        apply UInt8.toNat_inj.mp; simpa using hb
      simp only [itemOf, hb, if_true, ret, R.ok.injEq, true_and] at h
      rw [hb', h]
    · exact absurd h (itemOf_neverEof b.toNat hb t rest)

/-! ### the opcode loop -/

theorem footer_ne_fuelOut (all rest : Bytes) (cnt : Nat) : footer all rest cnt ≠ .fuelOut := by
  unfold footer
  split
  · split
    · simp
    · split <;> simp
  · simp

/-- what the loop needs of an item reader -/
structure GoodItem (it : Rd Item) : Prop where
  seq : Seq it
  consumes : Consumes it
  eof : ∀ xs rest, it xs = .ok Item.eofOp rest → xs = 0xFF :: rest

theorem item_good : GoodItem item := ⟨item_seq, item_consumes, fun _ _ h => item_eofOp h⟩

theorem body_fuel (it : Rd Item) (g : GoodItem it) :
    ∀ (fuel : Nat) (all xs : Bytes) (cnt : Nat), xs.length < fuel → bodyWith it fuel all xs cnt ≠ .fuelOut
  | 0, _, _, _, h => by omega
  | fuel+1, all, xs, cnt, h => by
    unfold bodyWith
    split
    · exact footer_ne_fuelOut _ _ _
    · next rest hi => exact body_fuel it g fuel all rest _ (by have := g.consumes xs _ rest hi; omega)
    · next rest hi => exact body_fuel it g fuel all rest _ (by have := g.consumes xs _ rest hi; omega)
    · simp
    · simp

/-- where the parser stops with `done`: the input ends with the EOF opcode and
    an 8-byte footer that is zero or the CRC64 of everything before it -/
def EndsWithFooter (all : Bytes) : Prop :=
  ∃ p crc8, all = p ++ 0xFF :: crc8 ∧ crc8.length = 8 ∧
    (Rdb.ofLE crc8 = 0 ∨ (Rdb.crc64Tab (p ++ [0xFF])).toNat = Rdb.ofLE crc8)

theorem footer_done {all pre rest : Bytes} {cnt n : Nat} (hall : all = pre ++ 0xFF :: rest)
    (h : footer all rest cnt = .done n) : EndsWithFooter all ∧ n = cnt := by
  unfold footer at h
  cases ht : takeN 8 rest with
  | err => rw [ht] at h; cases h
  | unsup => rw [ht] at h; cases h
  | ok crcBytes rest' =>
    rw [ht] at h
    simp only at h
    split at h
    · cases h
    · next hcrc =>
      split at h
      · cases h
      · next hr =>
        have hr' : rest' = [] := by simpa using hr
        subst hr'
        obtain ⟨c, hc, _, _⟩ := takeN_seq 8 rest crcBytes [] ht
        unfold takeN at ht
        split at ht
        · simp only [R.ok.injEq] at ht
          obtain ⟨h1, h2⟩ := ht
          have hlen : rest.length = 8 := by
            have : (rest.drop 8).length = 0 := by rw [h2]; rfl
            rw [List.length_drop] at this; omega
          have hcb : crcBytes = rest := by rw [← h1]; exact List.take_of_length_le (by omega)
          refine ⟨⟨pre, rest, hall, hlen, ?_⟩, by simpa using h.symm⟩
          have htake : all.take (all.length - rest.length) = pre ++ [0xFF] := by
            rw [hall]
            have : (pre ++ 0xFF :: rest).length - rest.length = (pre ++ [0xFF]).length := by
              simp [List.length_append]; omega
            rw [this]
            have : pre ++ 0xFF :: rest = (pre ++ [0xFF]) ++ rest := by simp
            rw [this, List.take_left']
            rfl
          rw [htake, hcb] at hcrc
          by_cases h0 : Rdb.ofLE rest = 0
          · exact Or.inl h0
          · right
            by_cases h1 : (Rdb.crc64Tab (pre ++ [0xFF])).toNat = Rdb.ofLE rest
            · exact h1
            · exact absurd ⟨h0, h1⟩ hcrc
        · cases ht

theorem footer_done_len {all rest : Bytes} {cnt n : Nat} (h : footer all rest cnt = .done n) : rest.length = 8 := by
  unfold footer at h
  cases ht : takeN 8 rest with
  | err => rw [ht] at h; cases h
  | unsup => rw [ht] at h; cases h
  | ok crcBytes rest' =>
    rw [ht] at h
    simp only at h
    split at h
    · cases h
    · split at h
      · cases h
      · next hr =>
        have hr' : rest' = [] := by simpa using hr
        subst hr'
        unfold takeN at ht
        split at ht
        · simp only [R.ok.injEq] at ht
          have : (rest.drop 8).length = 0 := by rw [ht.2]; rfl
          rw [List.length_drop] at this; omega
        · cases ht

theorem footer_short (all rest : Bytes) (cnt : Nat) (h : rest.length < 8) : footer all rest cnt = .err cnt := by
  unfold footer takeN
  rw [if_neg (by omega)]

theorem body_done (it : Rd Item) (g : GoodItem it) : ∀ (fuel : Nat) (all pre xs : Bytes) (cnt n : Nat),
    all = pre ++ xs → bodyWith it fuel all xs cnt = .done n → EndsWithFooter all
  | 0, _, _, _, _, _, _, h => by simp [bodyWith] at h
  | fuel+1, all, pre, xs, cnt, n, hall, h => by
    unfold bodyWith at h
    split at h
    · next rest hi =>
      have := g.eof _ _ hi
      exact (footer_done (pre := pre) (by rw [hall, this]) h).1
    · next rest hi =>
      obtain ⟨c, hc, _, _⟩ := g.seq xs _ rest hi
      exact body_done it g fuel all (pre ++ c) rest _ n (by rw [hall, hc, List.append_assoc]) h
    · next rest hi =>
      obtain ⟨c, hc, _, _⟩ := g.seq xs _ rest hi
      exact body_done it g fuel all (pre ++ c) rest _ n (by rw [hall, hc, List.append_assoc]) h
    · cases h
    · cases h

/-- an accepted body, cut anywhere, is rejected -/
theorem body_trunc (it : Rd Item) (g : GoodItem it) : ∀ (fuel : Nat) (all xs : Bytes) (cnt n : Nat),
    bodyWith it fuel all xs cnt = .done n →
    ∀ (k : Nat), k < xs.length → ∀ (fuel' : Nat) (all' : Bytes) (cnt' : Nat), k < fuel' →
      ∃ m, bodyWith it fuel' all' (xs.take k) cnt' = .err m
  | 0, _, _, _, _, h => by simp [bodyWith] at h
  | fuel+1, all, xs, cnt, n, h => by
    intro k hk fuel' all' cnt' hf
    cases fuel' with
    | zero => omega
    | succ fuel' =>
    unfold bodyWith at h
    cases hi : it xs with
    | err => rw [hi] at h; cases h
    | unsup => rw [hi] at h; cases h
    | ok itm rest =>
      obtain ⟨c, hc, hallc, htr⟩ := g.seq xs itm rest hi
      have hcpos : 0 < c.length := by
        have := g.consumes xs itm rest hi
        rw [hc, List.length_append] at this; omega
      by_cases hlt : k < c.length
      · -- the cut falls inside this item
        have : xs.take k = c.take k := by rw [hc]; exact List.take_append_of_le_length (by omega)
        refine ⟨cnt', ?_⟩
        unfold bodyWith
        rw [this, htr k hlt]
      · have hge : c.length ≤ k := by omega
        have hx : xs.take k = c ++ rest.take (k - c.length) := by
          rw [hc, List.take_append, List.take_of_length_le hge]
        have hk' : k - c.length < rest.length := by
          rw [hc, List.length_append] at hk; omega
        have hi' : it (xs.take k) = .ok itm (rest.take (k - c.length)) := by rw [hx]; exact hallc _
        rw [hi] at h
        cases itm with
        | eofOp =>
          simp only at h
          -- the footer is cut short
          have hrest8 : rest.length = 8 := footer_done_len h
          refine ⟨cnt', ?_⟩
          unfold bodyWith
          rw [hi']
          exact footer_short all' _ cnt' (by rw [List.length_take]; omega)
        | entry =>
          simp only at h
          obtain ⟨m, hm⟩ := body_trunc it g fuel all rest _ n h (k - c.length) hk' fuel' all' (cnt' + 1) (by omega)
          exact ⟨m, by unfold bodyWith; rw [hi']; exact hm⟩
        | other =>
          simp only at h
          obtain ⟨m, hm⟩ := body_trunc it g fuel all rest _ n h (k - c.length) hk' fuel' all' cnt' (by omega)
          exact ⟨m, by unfold bodyWith; rw [hi']; exact hm⟩

/-- an item reader that never answers "outside the model" -/
def Total (it : Rd Item) : Prop := ∀ xs, it xs ≠ .unsup

theorem body_total (it : Rd Item) (ht : Total it) :
    ∀ (fuel : Nat) (all xs : Bytes) (cnt : Nat), bodyWith it fuel all xs cnt ≠ .unsup
  | 0, _, _, _ => by simp [bodyWith]
  | fuel+1, all, xs, cnt => by
    unfold bodyWith
    split
    · unfold footer; split
      · split
        · simp
        · split <;> simp
      · simp
    · exact body_total it ht fuel _ _ _
    · exact body_total it ht fuel _ _ _
    · simp
    · next h => exact absurd h (ht xs)

theorem header_ne_unsup (maxVer : Nat) (xs : Bytes) : header maxVer xs ≠ .unsup := by
  unfold header andThen
  cases h9 : takeN 9 xs with
  | err => simp
  | unsup => unfold takeN at h9; split at h9 <;> cases h9
  | ok h rest =>
    simp only
    by_cases h5 : h.take 5 ≠ sREDIS
    · simp [h5, fail]
    · simp only [h5, if_false]
      cases versionOf (h.drop 5) with
      | none => simp [fail]
      | some v =>
        simp only
        by_cases hv : v ≤ 0 ∨ v > maxVer
        · simp [hv, fail]
        · simp [hv, ret]

end GunYu.RdbFrame
