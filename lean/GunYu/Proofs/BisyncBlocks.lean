/-
  Helper lemmas for C13: the three kinds of blocks in a site's stream — what
  the tool committed, the tool's bookkeeping, and foreign writes — and what
  the opposite link's parser does with each.
-/
import GunYu.Proofs.BisyncParse
import GunYu.Proofs.BisyncProp
import GunYu.Proofs.BisyncCommit

namespace GunYu.Bisync
open GunYu GunYu.BisyncUnit

/-! ### byte-string facts -/

theorem containsSub_append (needle a b : Bytes) : containsSub needle (a ++ needle ++ b) = true := by
  induction a with
  | nil =>
    simp only [List.nil_append]
    cases hn : needle ++ b with
    | nil =>
      have : needle = [] := (List.append_eq_nil_iff.mp hn).1
      simp [containsSub, this]
    | cons x xs =>
      rw [containsSub, ← hn]
      have : needle.isPrefixOf (needle ++ b) = true := List.isPrefixOf_iff_prefix.mpr (List.prefix_append _ _)
      rw [this]
      rfl
  | cons x xs ih =>
    simp only [List.cons_append]
    rw [containsSub, ih]
    simp

theorem hasPrefix_append (p t : Bytes) : hasPrefix p (p ++ t) = true :=
  List.isPrefixOf_iff_prefix.mpr (List.prefix_append _ _)

theorem markerKey_isMarker (cp tag : Bytes) : isMarkerKey (Gen.markerKey cp tag) = true := by
  unfold isMarkerKey
  have h1 : hasPrefix nsPrefix (Gen.markerKey cp tag) = true := by
    have : Gen.markerKey cp tag = nsPrefix ++ (cp ++ [58,109,97,114,107,101,114,58,123] ++ tag ++ [125]) := by
      simp [Gen.markerKey, nsPrefix, List.append_assoc]
    rw [this]
    exact hasPrefix_append _ _
  have h2 : containsSub Gen.markerInfix (Gen.markerKey cp tag) = true := by
    have : Gen.markerKey cp tag = (Gen.bisyncKeyPrefix ++ [58] ++ cp) ++ Gen.markerInfix ++ (tag ++ [125]) := by
      simp [Gen.markerKey, Gen.markerInfix, List.append_assoc]
    rw [this]
    exact containsSub_append _ _ _
  rw [h1, h2]
  rfl

theorem markerKey_ns (k : Bytes) (h : isMarkerKey k = true) : hasPrefix nsPrefix k = true := by
  unfold isMarkerKey at h
  simp only [Bool.and_eq_true] at h
  exact h.1

theorem ns_of_prefix (k : Bytes) (h : hasPrefix nsPrefix k = true) : isNamespaceKey k = true := by
  unfold isNamespaceKey
  rw [h]
  rfl

/-! ### safe names -/

theorem txnSafe_of_name (c : Cmd) (n : Bytes) (hn : lower c.name = n)
    (h : n ≠ wMulti ∧ n ≠ wExec ∧ Filter.eqFold n wSelect = false) : TxnSafe c := by
  unfold TxnSafe
  rw [hn]
  exact h

theorem safe_set : wSet ≠ wMulti ∧ wSet ≠ wExec ∧ Filter.eqFold wSet wSelect = false := by decide
theorem safe_del : wDel ≠ wMulti ∧ wDel ≠ wExec ∧ Filter.eqFold wDel wSelect = false := by decide
theorem safe_unlink : wUnlink ≠ wMulti ∧ wUnlink ≠ wExec ∧ Filter.eqFold wUnlink wSelect = false := by decide
theorem safe_pexpireat : wPexpireat ≠ wMulti ∧ wPexpireat ≠ wExec ∧ Filter.eqFold wPexpireat wSelect = false := by
  decide
theorem safe_hset : wHset ≠ wMulti ∧ wHset ≠ wExec ∧ Filter.eqFold wHset wSelect = false := by decide
theorem safe_zadd : wZadd ≠ wMulti ∧ wZadd ≠ wExec ∧ Filter.eqFold wZadd wSelect = false := by decide

theorem delCmd_safe (cfg : RedisCfg) (k : Bytes) : TxnSafe (delCmd cfg k) := by
  unfold delCmd
  cases cfg.lazyUnlink
  · exact txnSafe_of_name _ wDel (by show lower wDel = wDel; decide) safe_del
  · exact txnSafe_of_name _ wUnlink (by show lower wUnlink = wUnlink; decide) safe_unlink

/-- effects of a safe command are safe -/
theorem eff_txnSafe (cfg : RedisCfg) (c e : Cmd) (hc : TxnSafe c) (h : EffShape cfg c e) : TxnSafe e := by
  cases h with
  | same => exact hc
  | del k _ => exact delCmd_safe cfg k
  | setPxat k v opts t _ => exact txnSafe_of_name _ wSet (by show lower wSet = wSet; decide) safe_set
  | setPlain k v opts _ => exact hc
  | pexpireat k t _ => exact txnSafe_of_name _ wPexpireat (by show lower wPexpireat = wPexpireat; decide) safe_pexpireat
  | restoreAbs k tt payload opts t _ => exact hc

theorem execCmds_txnSafe (cfg : RedisCfg) (now : Nat) (st : Store) (cs : List Cmd) (h : ∀ c ∈ cs, TxnSafe c) :
    ∀ e ∈ (execCmds cfg now st cs).2, TxnSafe e := by
  intro e he
  obtain ⟨c, hc, hs⟩ := execCmds_shape cfg now cs st e he
  exact eff_txnSafe cfg c e (h c hc) hs

/-! ### the marker command and its effects -/

/-- the marker SET as it reaches the stream: still a SET of the marker key with a value -/
structure MarkerLike (mk : Bytes) (m : Cmd) : Prop where
  name : m.name = wSet
  args : ∃ v rest, m.args = mk :: v :: rest

theorem set_opts_px (now : Nat) :
    parseSetOpts now [wPx, natToDec Gen.bisyncMarkerTTLms] {} =
      { exp := some (now + Gen.bisyncMarkerTTLms) } := by
  have h1 : Filter.upper wPx = uPX := by decide
  have h2 : decToNat? (natToDec Gen.bisyncMarkerTTLms) = some Gen.bisyncMarkerTTLms := Decimal.decToNat?_natToDec _
  rw [parseSetOpts]
  simp only [h1]
  have e1 : (uPX == uNX) = false := by decide
  have e2 : (uPX == uXX) = false := by decide
  have e3 : (uPX == uGET) = false := by decide
  have e4 : (uPX == uKEEPTTL) = false := by decide
  have e5 : (uPX == uEX || uPX == uPX || uPX == uEXAT || uPX == uPXAT) = true := by decide
  simp only [e1, e2, e3, e4, e5, Bool.false_eq_true, ↓reduceIte, h2]
  have e6 : (Gen.bisyncMarkerTTLms == 0) = false := by decide
  have e7 : (uPX == uEX) = false := by decide
  simp only [e6, Option.isSome_none, Bool.or_self, Bool.false_eq_true, ↓reduceIte, e7, BEq.rfl, parseSetOpts]

/-- executing the marker SET: an optional lazy-expiry deletion of the marker
    key, then a SET of the marker key — never nothing, never anything else -/
theorem propagate_marker (cfg : RedisCfg) (now : Nat) (st : Store) (mk mv : Bytes) :
    ∃ st' pre m, propagate cfg now st ⟨wSet, [mk, mv, wPx, natToDec Gen.bisyncMarkerTTLms]⟩ = (st', pre ++ [m]) ∧
      (pre = [] ∨ pre = [delCmd cfg mk]) ∧ MarkerLike mk m := by
  rw [propagate_eq]
  have hn : (lower (⟨wSet, [mk, mv, wPx, natToDec Gen.bisyncMarkerTTLms]⟩ : Cmd).name == wSet) = true := by
    show (lower wSet == wSet) = true; decide
  rw [if_pos hn]
  unfold propSet
  simp only [set_opts_px]
  have hpre := lazyExpire_eff cfg now st mk
  refine ⟨_, (lazyExpire cfg now st mk).2, _, rfl, hpre, ?_⟩
  split
  · exact ⟨rfl, _, _, rfl⟩
  · exact ⟨rfl, _, _, rfl⟩

theorem markerLike_isMarkerCommand (mk : Bytes) (m : Cmd) (hk : isMarkerKey mk = true) (h : MarkerLike mk m) :
    isMarkerCommand ⟨lower m.name, m.args⟩ = true := by
  obtain ⟨hn, v, rest, ha⟩ := h
  unfold isMarkerCommand
  rw [hn, ha]
  have : (lower (lower wSet) == wSet) = true := by decide
  simp [this, hk]

theorem set_extractors : Gen.commandKeyExtractors.lookup (lower wSet) = none := by decide +kernel
theorem set_positions : Gen.commandKeyPositions.lookup (lower wSet) = some (1, 1, 1) := by decide +kernel

/-- the filtered form of the marker SET is itself -/
theorem extOf_marker (cfg : PCfg) (hf : FOK cfg.filter) (mk : Bytes) (m : Cmd) (hk : isMarkerKey mk = true)
    (h : MarkerLike mk m) : extOf cfg m = [⟨wSet, m.args⟩] := by
  obtain ⟨hn, v, rest, ha⟩ := h
  unfold extOf
  rw [hn]
  have e0 : lower wSet = wSet := by decide
  have e1 : (wSet == wPing) = false := by decide
  have e2 : Filter.eqFold wSet wPublish = false := by decide
  rw [e0, e1, hf.setCmd, e2]
  simp only [Bool.false_eq_true, ↓reduceIte, Bool.false_and]
  have hpass : cfg.filter.filterCmdKey wSet m.args = some m.args := by
    apply hf.keyPass
    intro idx hidx i hi
    rw [ha] at hidx
    have := keyIndexes_generic wSet mk (v :: rest) set_extractors set_positions
    rw [this] at hidx
    injection hidx with hidx
    rw [← hidx] at hi
    have : i = 0 := by simpa using hi
    rw [this, ha]
    exact ns_not_filterReserved mk (markerKey_ns mk hk)
  rw [hpass]

/-- the filtered form of a lazy-expiry deletion of the marker is nothing, or itself -/
theorem extOf_markerDel (cfg : PCfg) (hf : FOK cfg.filter) (rcfg : RedisCfg) (mk : Bytes)
    (hk : isMarkerKey mk = true) :
    extOf cfg (delCmd rcfg mk) = [] ∨
      ∃ d, extOf cfg (delCmd rcfg mk) = [d] ∧ isMarkerExpiry d = true := by
  rcases extOf_cases cfg (delCmd rcfg mk) with h | ⟨a', hk', h⟩
  · left; exact h
  · right
    have hpass : cfg.filter.filterCmdKey (lower (delCmd rcfg mk).name) (delCmd rcfg mk).args =
        some (delCmd rcfg mk).args := by
      apply hf.keyPass
      intro idx hidx i hi
      have hlt := (Filter.keyIndexes_inRange hidx).2 i hi
      have hargs : (delCmd rcfg mk).args = [mk] := rfl
      rw [hargs] at hlt ⊢
      have : i = 0 := by simpa using hlt
      rw [this]
      exact ns_not_filterReserved mk (markerKey_ns mk hk)
    rw [hpass] at hk'
    injection hk' with hk'
    refine ⟨_, h, ?_⟩
    rw [← hk']
    unfold isMarkerExpiry delCmd
    cases rcfg.lazyUnlink
    · have e : lower (lower wDel) = wDel := by decide
      simp [e, hk]
    · have e : lower (lower wUnlink) = wUnlink := by decide
      have e2 : (wUnlink == wDel) = false := by decide
      simp [e, e2, hk]

/-! ### what the tool commits comes back quiet -/

/-- the commit transaction of any unit: marker SET first, every command safe -/
structure ToolTxn (mk : Bytes) (txn : List Cmd) : Prop where
  shape : ∃ mv rest, txn = ⟨wSet, [mk, mv, wPx, natToDec Gen.bisyncMarkerTTLms]⟩ :: rest ∧ ∀ c ∈ rest, TxnSafe c

theorem isMirrored_flatMap (cfg : PCfg) (hf : FOK cfg.filter) (rcfg : RedisCfg) (mk : Bytes)
    (hk : isMarkerKey mk = true) (pre : List Cmd) (m : Cmd) (tail : List Cmd)
    (hpre : pre = [] ∨ pre = [delCmd rcfg mk]) (hm : MarkerLike mk m) :
    isMirroredTxn ((pre ++ m :: tail).flatMap (extOf cfg)) = true := by
  have hmc : isMarkerCommand ⟨wSet, m.args⟩ = true := by
    have := markerLike_isMarkerCommand mk m hk hm
    rw [hm.name] at this
    exact this
  rw [List.flatMap_append, List.flatMap_cons, extOf_marker cfg hf mk m hk hm]
  have hfront : ∀ c ∈ pre.flatMap (extOf cfg), isMarkerExpiry c = true := by
    rcases hpre with h | h
    · rw [h]; intro c hc; cases hc
    · rw [h]
      simp only [List.flatMap_cons, List.flatMap_nil, List.append_nil]
      rcases extOf_markerDel cfg hf rcfg mk hk with h2 | ⟨d, h2, h3⟩
      · rw [h2]; intro c hc; cases hc
      · rw [h2]
        intro c hc
        rw [List.mem_singleton.mp hc]
        exact h3
  exact isMirroredTxn_append _ _ _ hfront hmc (markerCommand_not_expiry _ hmc)

/-- **Every block a commit leaves in the destination's stream is quiet for the
    opposite link**, whatever the store held, whatever Redis version/config
    propagated it. -/
theorem tool_blocks_quiet (cfg : PCfg) (hf : FOK cfg.filter) (rcfg : RedisCfg) (now : Nat) (st : Store)
    (mk : Bytes) (hk : isMarkerKey mk = true) (txn : List Cmd) (ht : ToolTxn mk txn) (pst : PState)
    (hi : Idle pst) :
    ∀ b ∈ toBlocks rcfg true txn.length (execCmds rcfg now st txn).2,
      ∃ pst', parseBlock cfg pst b = ([], pst', none) ∧ Idle pst' ∧ pst'.seq = pst.seq := by
  obtain ⟨mv, rest, htxn, hrest⟩ := ht.shape
  obtain ⟨st1, pre, m, hprop, hpre, hm⟩ := propagate_marker rcfg now st mk mv
  have heff : (execCmds rcfg now st txn).2 = pre ++ m :: (execCmds rcfg now st1 rest).2 := by
    rw [htxn, execCmds, hprop]
    simp [List.append_assoc]
  have htail : ∀ e ∈ (execCmds rcfg now st1 rest).2, TxnSafe e := execCmds_txnSafe rcfg now st1 rest hrest
  have hmsafe : TxnSafe m := txnSafe_of_name m wSet (by rw [hm.name]; decide) safe_set
  have hallsafe : ∀ e ∈ pre ++ m :: (execCmds rcfg now st1 rest).2, TxnSafe e := by
    intro e he
    rcases List.mem_append.mp he with h | h
    · rcases hpre with hp | hp
      · rw [hp] at h; cases h
      · rw [hp] at h; rw [List.mem_singleton.mp h]; exact delCmd_safe rcfg mk
    · rcases List.mem_cons.mp h with h | h
      · rw [h]; exact hmsafe
      · exact htail e h
  have hmulti : ∃ pst', parseBlock cfg pst (.multi (pre ++ m :: (execCmds rcfg now st1 rest).2)) = ([], pst', none) ∧
      Idle pst' ∧ pst'.seq = pst.seq :=
    (parseBlock_multi_safe cfg _ pst hi hallsafe).1
      (Or.inl (isMirrored_flatMap cfg hf rcfg mk hk pre m _ hpre hm))
  have hsingle : ∃ pst', parseBlock cfg pst (.single m) = ([], pst', none) ∧ Idle pst' ∧ pst'.seq = pst.seq := by
    refine (parseBlock_single_safe cfg m pst hi hmsafe).1 (Or.inr ⟨_, _, extOf_marker cfg hf mk m hk hm, ?_⟩)
    obtain ⟨_, v, r, ha⟩ := hm
    unfold touchesNamespace
    rw [ha]
    have e1 : (lower wSet == wDel || lower wSet == wUnlink) = false := by decide
    simp only [List.isEmpty_cons, Bool.false_eq_true, ↓reduceIte, e1, List.headD_cons]
    exact ns_of_prefix mk (markerKey_ns mk hk)
  intro b hb
  rw [heff] at hb
  have hlen : txn.length ≠ 0 := by rw [htxn]; simp
  unfold toBlocks at hb
  by_cases ha : rcfg.atomicUnits = true
  · rw [if_pos ha] at hb
    -- one effect: the bare marker SET; more: a MULTI block
    rcases hpre with hp | hp
    · rw [hp] at hb hmulti
      simp only [List.nil_append] at hb hmulti
      cases htl : (execCmds rcfg now st1 rest).2 with
      | nil =>
        rw [htl] at hb
        simp only [List.mem_singleton] at hb
        rw [hb]; exact hsingle
      | cons x xs =>
        rw [htl] at hb hmulti
        simp only [List.mem_singleton] at hb
        rw [hb]; exact hmulti
    · rw [hp] at hb hmulti
      simp only [List.cons_append, List.nil_append, List.mem_singleton] at hb hmulti
      rw [hb]; exact hmulti
  · rw [if_neg ha] at hb
    have hz : (txn.length == 0) = false := by simpa using hlen
    simp only [↓reduceIte, hz, Bool.false_eq_true, List.mem_singleton] at hb
    rw [hb]; exact hmulti

end GunYu.Bisync

namespace GunYu.Bisync
open GunYu GunYu.BisyncUnit

/-! ### foreign writes come out -/

/-- the command as the parser hands it on: lower-cased name, same arguments -/
def norm (c : Cmd) : Cmd := ⟨lower c.name, c.args⟩

/-- a command of a client (or expiry) block outside the reserved namespace, of
    a kind the parser forwards: not framing/PING/SELECT/PUBLISH, not on the
    command blacklist, no key the output filter withholds, and neither its
    first argument (any command) nor any argument (DEL/UNLINK) in the bisync /
    checkpoint namespace -/
structure Fgn (cfg : PCfg) (c : Cmd) : Prop where
  safe : TxnSafe c
  notPing : lower c.name ≠ wPing
  notPublish : Filter.eqFold (lower c.name) wPublish = false
  notBlack : cfg.filter.filterCmd (lower c.name) = false
  keys : ∀ idx, Filter.keyIndexes (lower c.name) c.args = some idx →
    ∀ i ∈ idx, ¬ FilterReserved (c.args.getD i [])
  outside : touchesNamespace (norm c) = false

theorem extOf_fgn (cfg : PCfg) (hf : FOK cfg.filter) (c : Cmd) (h : Fgn cfg c) : extOf cfg c = [norm c] := by
  unfold extOf
  rw [beq_of_ne h.notPing, h.notBlack, h.notPublish, hf.keyPass _ _ h.keys]
  rfl

theorem flatMap_extOf_fgn (cfg : PCfg) (hf : FOK cfg.filter) (cs : List Cmd) (h : ∀ c ∈ cs, Fgn cfg c) :
    cs.flatMap (extOf cfg) = cs.map norm := by
  induction cs with
  | nil => rfl
  | cons c cs ih =>
    rw [List.flatMap_cons, extOf_fgn cfg hf c (h c (by simp)), ih (fun c' hc' => h c' (List.mem_cons_of_mem _ hc'))]
    rfl

theorem not_marker_of_outside (c : Cmd) (h : touchesNamespace c = false) :
    isMarkerExpiry c = false ∧ isMarkerCommand c = false := by
  unfold touchesNamespace at h
  constructor
  · unfold isMarkerExpiry
    cases hargs : c.args with
    | nil => simp
    | cons k rest =>
      rw [hargs] at h
      simp only [List.isEmpty_cons, Bool.false_eq_true, ↓reduceIte, List.headD_cons] at h
      by_cases hd : (lower c.name == wDel || lower c.name == wUnlink) = true
      · rw [if_pos hd] at h
        simp only [List.any_cons, Bool.or_eq_false_iff] at h
        have : isMarkerKey k = false := by
          cases hx : isMarkerKey k with
          | false => rfl
          | true =>
            have := ns_of_prefix k (markerKey_ns k hx)
            rw [this] at h; exact absurd h.1 (by decide)
        simp [this]
      · have : (lower c.name == wDel || lower c.name == wUnlink) = false := by
          cases hx : (lower c.name == wDel || lower c.name == wUnlink) with
          | true => exact absurd hx hd
          | false => rfl
        simp [this]
  · unfold isMarkerCommand
    cases hargs : c.args with
    | nil => simp
    | cons k rest =>
      rw [hargs] at h
      simp only [List.isEmpty_cons, Bool.false_eq_true, ↓reduceIte, List.headD_cons] at h
      by_cases hs : (lower c.name == wSet) = true
      · have hn : lower c.name = wSet := by simpa using hs
        rw [hn] at h
        have e1 : (wSet == wDel || wSet == wUnlink) = false := by decide
        rw [e1] at h
        simp only [Bool.false_eq_true, ↓reduceIte] at h
        have : isMarkerKey k = false := by
          cases hx : isMarkerKey k with
          | false => rfl
          | true =>
            have := ns_of_prefix k (markerKey_ns k hx)
            rw [this] at h; exact absurd h (by decide)
        simp [this]
      · have : (lower c.name == wSet) = false := by
          cases hx : (lower c.name == wSet) with
          | true => exact absurd hx hs
          | false => rfl
        simp [this]

theorem isMirroredTxn_fgn (cs : List Cmd) (h : ∀ c ∈ cs, touchesNamespace c = false) :
    isMirroredTxn cs = false := by
  cases cs with
  | nil => rfl
  | cons c rest =>
    have := not_marker_of_outside c (h c (by simp))
    simp [isMirroredTxn, this.1, this.2]

theorem buildUnit_cmds (m : SlotMode) (r : Resolver) (cmds : List Cmd) (u : RUnit)
    (h : buildUnit m r cmds = .ok u) : u.cmds = cmds := by
  unfold buildUnit at h
  split at h
  · cases h
  · split at h
    · cases h
    · split at h
      · cases h
      · injection h with h
        rw [← h]

/-- **A foreign block is never swallowed**: started idle, the parser either
    emits exactly one unit holding exactly the block's commands, or stops with
    the builder's error. -/
theorem foreign_block (cfg : PCfg) (hf : FOK cfg.filter) (b : Block) (hb : ∀ c ∈ b.body, Fgn cfg c)
    (hne : b.body ≠ []) (pst : PState) (hi : Idle pst) :
    (∃ pst' e, parseBlock cfg pst b = ([e], pst', none) ∧ Idle pst' ∧ pst'.seq = pst.seq + 1 ∧
      e.seq = pst.seq ∧ e.unit.cmds = b.body.map norm ∧
      buildUnit cfg.mode cfg.resolver (b.body.map norm) = .ok e.unit) ∨
    (∃ pst' e, parseBlock cfg pst b = ([], pst', some (.build e)) ∧
      buildUnit cfg.mode cfg.resolver (b.body.map norm) = .error e) := by
  cases b with
  | single c =>
    have hc : Fgn cfg c := hb c (by simp [Block.body])
    have hext := extOf_fgn cfg hf c hc
    obtain ⟨hok, herr⟩ := (parseBlock_single_safe cfg c pst hi hc.safe).2 (norm c) [] hext hc.outside
    cases hbu : buildUnit cfg.mode cfg.resolver [norm c] with
    | ok u =>
      left
      obtain ⟨pst', off, h1, h2, h3⟩ := hok u hbu
      exact ⟨pst', _, h1, h2, h3, rfl, buildUnit_cmds _ _ _ u hbu, hbu⟩
    | error e =>
      right
      obtain ⟨pst', h1⟩ := herr e hbu
      exact ⟨pst', e, h1, hbu⟩
  | multi cs =>
    have hcs : ∀ c ∈ cs, Fgn cfg c := fun c hc => hb c hc
    have hflat := flatMap_extOf_fgn cfg hf cs hcs
    have hmir : isMirroredTxn (cs.flatMap (extOf cfg)) = false := by
      rw [hflat]
      apply isMirroredTxn_fgn
      intro c hc
      obtain ⟨c0, hc0, rfl⟩ := List.mem_map.mp hc
      exact (hcs c0 hc0).outside
    have hne' : cs.flatMap (extOf cfg) ≠ [] := by
      rw [hflat]
      intro h
      exact hne (List.map_eq_nil_iff.mp h)
    obtain ⟨hok, herr⟩ := (parseBlock_multi_safe cfg cs pst hi (fun c hc => (hcs c hc).safe)).2 hmir hne'
    rw [hflat] at hok herr
    cases hbu : buildUnit cfg.mode cfg.resolver (cs.map norm) with
    | ok u =>
      left
      obtain ⟨pst', off, h1, h2, h3⟩ := hok u hbu
      exact ⟨pst', _, h1, h2, h3, rfl, buildUnit_cmds _ _ _ u hbu, hbu⟩
    | error e =>
      right
      obtain ⟨pst', h1⟩ := herr e hbu
      exact ⟨pst', e, h1, hbu⟩

end GunYu.Bisync

namespace GunYu.Bisync
open GunYu GunYu.BisyncUnit

/-! ### bookkeeping traffic is skipped -/

/-- a stand-alone command whose first argument is its only table-resolved key -/
structure FirstKeyCmd (c : Cmd) : Prop where
  safe : TxnSafe c
  notDel : (lower (lower c.name) == wDel || lower (lower c.name) == wUnlink) = false
  idx : ∀ k rest, c.args = k :: rest → Filter.keyIndexes (lower c.name) c.args = some [0]

/-- such a command on a key of the tool's namespaces is quiet: the output
    filter withholds `redis-gunyu-checkpoint…` keys, and a
    `redis-gunyu-bisync:…` key makes it a control command -/
theorem firstKey_quiet (cfg : PCfg) (hf : FOK cfg.filter) (c : Cmd) (k : Bytes) (rest : List Bytes)
    (hc : FirstKeyCmd c) (hargs : c.args = k :: rest)
    (hk : hasPrefix nsPrefix k = true ∨ Gen.checkpointKey <+: k) (pst : PState) (hi : Idle pst) :
    ∃ pst', parseBlock cfg pst (.single c) = ([], pst', none) ∧ Idle pst' ∧ pst'.seq = pst.seq := by
  apply (parseBlock_single_safe cfg c pst hi hc.safe).1
  rcases extOf_cases cfg c with h | ⟨a', hka, h⟩
  · left; exact h
  · right
    have hidx := hc.idx k rest hargs
    rcases hk with hns | hcp
    · -- bisync namespace: passes the filter unchanged, then recognised as control
      have hpass : cfg.filter.filterCmdKey (lower c.name) c.args = some c.args := by
        apply hf.keyPass
        intro idx hi2 i hi3
        rw [hidx] at hi2
        injection hi2 with hi2
        rw [← hi2] at hi3
        have : i = 0 := by simpa using hi3
        rw [this, hargs]
        exact ns_not_filterReserved k hns
      rw [hpass] at hka
      injection hka with hka
      refine ⟨_, [], h, ?_⟩
      rw [← hka]
      unfold touchesNamespace
      simp only [hargs, List.isEmpty_cons, Bool.false_eq_true, ↓reduceIte, hc.notDel, List.headD_cons]
      exact ns_of_prefix k hns
    · -- checkpoint namespace: the filter withholds the command
      have : cfg.filter.filterCmdKey (lower c.name) c.args = none := by
        apply hf.allReserved _ _ [0] hidx
        intro i hi3
        have : i = 0 := by simpa using hi3
        rw [this, hargs]
        exact Or.inl hcp
      rw [this] at hka
      cases hka

theorem firstKey_of_generic (c : Cmd) (n : Bytes) (hn : lower c.name = n)
    (hsafe : n ≠ wMulti ∧ n ≠ wExec ∧ Filter.eqFold n wSelect = false)
    (hnd : (lower n == wDel || lower n == wUnlink) = false)
    (h1 : Gen.commandKeyExtractors.lookup (lower n) = none)
    (h2 : Gen.commandKeyPositions.lookup (lower n) = some (1, 1, 1)) : FirstKeyCmd c where
  safe := txnSafe_of_name c n hn hsafe
  notDel := by rw [hn]; exact hnd
  idx := by
    intro k rest hargs
    rw [hn, hargs]
    exact keyIndexes_generic n k rest h1 h2

theorem safe_hsetnx : wHsetnx ≠ wMulti ∧ wHsetnx ≠ wExec ∧ Filter.eqFold wHsetnx wSelect = false := by decide
theorem safe_hdel : wHdel ≠ wMulti ∧ wHdel ≠ wExec ∧ Filter.eqFold wHdel wSelect = false := by decide
theorem safe_zrem : wZrem ≠ wMulti ∧ wZrem ≠ wExec ∧ Filter.eqFold wZrem wSelect = false := by decide

theorem fk_hset (args : List Bytes) : FirstKeyCmd ⟨wHset, args⟩ :=
  firstKey_of_generic _ wHset (by show lower wHset = wHset; decide) safe_hset (by decide) (by decide +kernel) (by decide +kernel)
theorem fk_hsetnx (args : List Bytes) : FirstKeyCmd ⟨wHsetnx, args⟩ :=
  firstKey_of_generic _ wHsetnx (by show lower wHsetnx = wHsetnx; decide) safe_hsetnx (by decide) (by decide +kernel) (by decide +kernel)
theorem fk_hdel (args : List Bytes) : FirstKeyCmd ⟨wHdel, args⟩ :=
  firstKey_of_generic _ wHdel (by show lower wHdel = wHdel; decide) safe_hdel (by decide) (by decide +kernel) (by decide +kernel)
theorem fk_zrem (args : List Bytes) : FirstKeyCmd ⟨wZrem, args⟩ :=
  firstKey_of_generic _ wZrem (by show lower wZrem = wZrem; decide) safe_zrem (by decide) (by decide +kernel) (by decide +kernel)

/-- `DEL` / `UNLINK` of keys that all belong to the tool's namespaces is quiet -/
theorem del_quiet (cfg : PCfg) (_hf : FOK cfg.filter) (c : Cmd)
    (hname : lower c.name = wDel ∨ lower c.name = wUnlink) (hne : c.args ≠ [])
    (hk : ∀ k ∈ c.args, hasPrefix nsPrefix k = true ∨ Gen.checkpointKey <+: k) (pst : PState) (hi : Idle pst) :
    ∃ pst', parseBlock cfg pst (.single c) = ([], pst', none) ∧ Idle pst' ∧ pst'.seq = pst.seq := by
  have hsafe : TxnSafe c := by
    rcases hname with h | h
    · exact txnSafe_of_name c wDel h safe_del
    · exact txnSafe_of_name c wUnlink h safe_unlink
  apply (parseBlock_single_safe cfg c pst hi hsafe).1
  rcases extOf_cases cfg c with h | ⟨a', hka, h⟩
  · left; exact h
  · right
    refine ⟨_, [], h, ?_⟩
    -- whatever projection the filter returns, it is a non-empty list of namespace keys or the filter
    -- returned the arguments unchanged
    have hd : (lower (lower c.name) == wDel || lower (lower c.name) == wUnlink) = true := by
      rcases hname with h | h <;> rw [h] <;> decide
    have hnsall : ∀ k ∈ c.args, isNamespaceKey k = true := by
      intro k hkm
      rcases hk k hkm with h1 | h1
      · exact ns_of_prefix k h1
      · unfold isNamespaceKey
        have : hasPrefix Gen.checkpointKey k = true := List.isPrefixOf_iff_prefix.mpr h1
        rw [this]; simp
    obtain ⟨hsub, hne'⟩ := filterCmdKey_sub cfg.filter (lower c.name) c.args a' hka
    unfold touchesNamespace
    cases ha : a' with
    | nil => exact absurd ha (hne' hne)
    | cons x xs =>
      simp only [List.isEmpty_cons, Bool.false_eq_true, ↓reduceIte, hd, List.any_cons]
      rw [hnsall x (hsub x (by rw [ha]; simp))]
      rfl

end GunYu.Bisync

namespace GunYu.Bisync
open GunYu GunYu.BisyncUnit

theorem commitRecordKey_ns (cp tag : Bytes) (seq : Nat) : hasPrefix nsPrefix (Gen.commitRecordKey cp tag seq) = true := by
  have : Gen.commitRecordKey cp tag seq =
      nsPrefix ++ (cp ++ [58,99,111,109,109,105,116,58,123] ++ tag ++ [125,58] ++ Gen.pad20 seq) := by
    simp [Gen.commitRecordKey, nsPrefix, List.append_assoc]
  rw [this]; exact hasPrefix_append _ _

theorem commitIndexKey_ns (cp tag : Bytes) : hasPrefix nsPrefix (Gen.commitIndexKey cp tag) = true := by
  have : Gen.commitIndexKey cp tag = nsPrefix ++ (cp ++ [58,105,110,100,101,120,58,123] ++ tag ++ [125]) := by
    simp [Gen.commitIndexKey, nsPrefix, List.append_assoc]
  rw [this]; exact hasPrefix_append _ _

theorem latestKey_ns (cp tag : Bytes) : hasPrefix nsPrefix (Gen.latestKey cp tag) = true := by
  have : Gen.latestKey cp tag = nsPrefix ++ (cp ++ [58,108,97,116,101,115,116,58,123] ++ tag ++ [125]) := by
    simp [Gen.latestKey, nsPrefix, List.append_assoc]
  rw [this]; exact hasPrefix_append _ _

/-- the checkpoint name of a bookkeeping request is one the tool generates -/
def Bookkeeping.Valid : Bookkeeping → Prop
  | .frontierSave cp _ => Gen.checkpointKey <+: cp
  | .rootSet cp _ => Gen.checkpointKey <+: cp
  | .rootHdel cp _ => Gen.checkpointKey <+: cp
  | .rootDel cp => Gen.checkpointKey <+: cp
  | .frontierDel cp => Gen.checkpointKey <+: cp
  | .nsDel cp keys => keys ≠ [] ∧ ∀ k ∈ keys, PlainNsKey cp k
  | _ => True

/-- **Stand-alone bookkeeping traffic is skipped** by the opposite link: every
    request of the tool's bookkeeping vocabulary, met in a stream by an idle
    parser, produces no unit and no error. -/
theorem bookkeeping_cmd_quiet (cfg : PCfg) (hf : FOK cfg.filter) (bk : Bookkeeping) (hv : bk.Valid)
    (pst : PState) (hi : Idle pst) :
    ∃ pst', parseBlock cfg pst (.single bk.toCmd) = ([], pst', none) ∧ Idle pst' ∧ pst'.seq = pst.seq := by
  have hhash : Gen.checkpointKey <+: checkpointHashKey := List.prefix_append _ _
  cases bk with
  | frontierSave cp fields =>
    exact firstKey_quiet cfg hf _ (Gen.frontierKey cp) fields (fk_hset _) rfl
      (Or.inr (List.IsPrefix.trans hv (List.prefix_append _ _))) pst hi
  | journalDel cp tag seq =>
    refine del_quiet cfg hf _ (Or.inl (by show lower wDel = wDel; decide)) (by simp [Bookkeeping.toCmd]) ?_ pst hi
    intro k hk
    have : k = Gen.commitRecordKey cp tag seq := by simpa [Bookkeeping.toCmd] using hk
    rw [this]; exact Or.inl (commitRecordKey_ns cp tag seq)
  | indexRem cp tag members =>
    exact firstKey_quiet cfg hf _ (Gen.commitIndexKey cp tag) members (fk_zrem _) rfl
      (Or.inl (commitIndexKey_ns cp tag)) pst hi
  | markerExpiry cp tag unlink =>
    refine del_quiet cfg hf _ ?_ (by simp [Bookkeeping.toCmd]) ?_ pst hi
    · cases unlink
      · left; show lower wDel = wDel; decide
      · right; show lower wUnlink = wUnlink; decide
    · intro k hk
      have : k = Gen.markerKey cp tag := by simpa [Bookkeeping.toCmd] using hk
      rw [this]; exact Or.inl (markerKey_ns _ (markerKey_isMarker cp tag))
  | cpHashSet runId cpName nx =>
    cases nx
    · exact firstKey_quiet cfg hf _ checkpointHashKey [runId, cpName] (fk_hset _) rfl (Or.inr hhash) pst hi
    · exact firstKey_quiet cfg hf _ checkpointHashKey [runId, cpName] (fk_hsetnx _) rfl (Or.inr hhash) pst hi
  | cpHashDel runId =>
    exact firstKey_quiet cfg hf _ checkpointHashKey [runId] (fk_hdel _) rfl (Or.inr hhash) pst hi
  | rootSet cp fields =>
    exact firstKey_quiet cfg hf _ cp fields (fk_hset _) rfl (Or.inr hv) pst hi
  | rootHdel cp fields =>
    exact firstKey_quiet cfg hf _ cp fields (fk_hdel _) rfl (Or.inr hv) pst hi
  | latestSeed cp tag fields =>
    exact firstKey_quiet cfg hf _ (Gen.latestKey cp tag) fields (fk_hset _) rfl (Or.inl (latestKey_ns cp tag)) pst hi
  | latestDel cp tag =>
    refine del_quiet cfg hf _ (Or.inl (by show lower wDel = wDel; decide)) (by simp [Bookkeeping.toCmd]) ?_ pst hi
    intro k hk
    have : k = Gen.latestKey cp tag := by simpa [Bookkeeping.toCmd] using hk
    rw [this]; exact Or.inl (latestKey_ns cp tag)
  | rootDel cp =>
    refine del_quiet cfg hf _ (Or.inl (by show lower wDel = wDel; decide)) (by simp [Bookkeeping.toCmd]) ?_ pst hi
    intro k hk
    simp only [Bookkeeping.toCmd, List.mem_cons, List.not_mem_nil, or_false] at hk
    rcases hk with rfl | rfl
    · exact Or.inr hv
    · exact Or.inr (List.IsPrefix.trans hv (List.prefix_append _ _))
  | frontierDel cp =>
    refine del_quiet cfg hf _ (Or.inl (by show lower wDel = wDel; decide)) (by simp [Bookkeeping.toCmd]) ?_ pst hi
    intro k hk
    have : k = Gen.frontierKey cp := by simpa [Bookkeeping.toCmd] using hk
    rw [this]; exact Or.inr (List.IsPrefix.trans hv (List.prefix_append _ _))
  | markerDel cp tag =>
    refine del_quiet cfg hf _ (Or.inl (by show lower wDel = wDel; decide)) (by simp [Bookkeeping.toCmd]) ?_ pst hi
    intro k hk
    have : k = Gen.markerKey cp tag := by simpa [Bookkeeping.toCmd] using hk
    rw [this]; exact Or.inl (markerKey_ns _ (markerKey_isMarker cp tag))
  | nsDel cp keys =>
    refine del_quiet cfg hf _ (Or.inl (by show lower wDel = wDel; decide)) hv.1 ?_ pst hi
    intro k hk
    obtain ⟨tag, h | h | ⟨seq, h⟩⟩ := hv.2 k hk
    · rw [h]; exact Or.inl (latestKey_ns cp tag)
    · rw [h]; exact Or.inl (commitIndexKey_ns cp tag)
    · rw [h]; exact Or.inl (commitRecordKey_ns cp tag seq)

end GunYu.Bisync
