/-
  Helper lemmas for Props/C16Restart.lean (C16 × C08): a contiguous list of truthful
  stream segments (C08: `Contig`, `SegTrue`) flattens to one range `hseg h id base len`
  of a history (C16: `Hist`, `hseg`).
-/
import GunYu.Model.Replica
import GunYu.Proofs.Replica
import GunYu.Model.StoreFs
import GunYu.Model.ReplicaReopen
import GunYu.Proofs.StoreDisk
import GunYu.Proofs.StoreFs
import GunYu.Proofs.StoreFsTrue

namespace GunYu.StoreFs
open GunYu GunYu.Store GunYu.Replica

/-- no segment, no byte -/
@[simp] theorem segsBytes_nil : segsBytes [] = [] := rfl

/-- the first segment's data, then the rest -/
@[simp] theorem segsBytes_cons (g : DSeg) (rest : List DSeg) :
    segsBytes (g :: rest) = g.data ++ segsBytes rest := by
  simp [segsBytes]

/-- one truthful segment (C08 `SegTrue` against history `id`'s bytes) is the range
    `[left, left + |data|)` of history `id` -/
theorem segTrue_hseg (h : Hist UInt8) (id : Replica.Id) (g : DSeg)
    (hg : SegTrue (fun o => h.byte id o) g) : g.data = hseg h id g.left g.data.length := by
  apply List.ext_getElem (by simp)
  intro i h1 h2
  have := hg i g.data[i] (List.getElem?_eq_getElem h1)
  rw [this]
  simp [hseg]

/-- **the list lemma**: contiguous (each segment starts where the previous one ends) and
    truthful segments flatten to ONE range of history `id`, starting at the first
    segment's left end -/
theorem contig_true_hseg (h : Hist UInt8) (id : Replica.Id) :
    ∀ (rest : List DSeg) (g : DSeg), Contig (g :: rest) →
      (∀ x ∈ g :: rest, SegTrue (fun o => h.byte id o) x) →
      segsBytes (g :: rest) = hseg h id g.left (segsBytes (g :: rest)).length
  | [], g, _, ht => by
    simpa using segTrue_hseg h id g (ht g (by simp))
  | a :: t, g, hc, ht => by
    have ih := contig_true_hseg h id t a hc.2 (fun x hx => ht x (List.mem_cons_of_mem _ hx))
    have hg := segTrue_hseg h id g (ht g (by simp))
    have hr : g.left + g.data.length = a.left := hc.1
    rw [segsBytes_cons, List.length_append, hseg_append, hr, ← ih, ← hg]

/-- the right end of the flattened range is the last segment's right end (C08's
    `lastRight`, the `right` of the range `getRange` reports) -/
theorem contig_right (rest : List DSeg) (g : DSeg) (hc : Contig (g :: rest)) :
    lastRight (g :: rest) = some (g.left + (segsBytes (g :: rest)).length) := by
  induction rest generalizing g with
  | nil => simp [lastRight, DSeg.right]
  | cons a t ih =>
    have hr : g.left + g.data.length = a.left := hc.1
    rw [lastRight_cons_cons, ih a hc.2, segsBytes_cons g, List.length_append, ← hr, Nat.add_assoc]

/-! ### decidable forms of C08's `SrcOk` (for concrete scripts in non-vacuity examples) -/

/-- `ChunkOk` as a check: the appended chunk IS the source's range at the append offset -/
def chunkOkB (src : Nat → UInt8) (s : Disk) : DOp → Bool
  | .aofAppend chunk =>
    chunk == (List.range chunk.length).map (fun i => src (s.hbase + s.hist.length + i))
  | _ => true

/-- `SrcOk` as a check along the script -/
def srcOkB (src : Nat → UInt8) : Disk → List DOp → Bool
  | _, [] => true
  | s, op :: rest => chunkOkB src s op && srcOkB src (s.step op).1 rest

/-- the one-call check is sound for C08's `ChunkOk` -/
theorem chunkOk_of_check (src : Nat → UInt8) (s : Disk) (op : DOp) (hb : chunkOkB src s op = true) :
    ChunkOk src s op := by
  cases op with
  | aofAppend chunk =>
    intro i b hi
    simp only [chunkOkB, beq_iff_eq] at hb
    have hlt : i < chunk.length := (List.getElem?_eq_some_iff.mp hi).1
    rw [hb] at hi
    simp only [List.getElem?_map] at hi
    rw [List.getElem?_range hlt] at hi
    simpa using hi.symm
  | _ => trivial

/-- the check is sound: a script that passes it satisfies C08's `SrcOk` -/
theorem srcOk_of_check (src : Nat → UInt8) :
    ∀ (ops : List DOp) (s : Disk), srcOkB src s ops = true → SrcOk src s ops
  | [], _, _ => trivial
  | op :: rest, s, hb => by
    simp only [srcOkB, Bool.and_eq_true] at hb
    exact ⟨chunkOk_of_check src s op hb.1, srcOk_of_check src rest _ hb.2⟩

end GunYu.StoreFs
