/-
  C04 ↔ C03 — the decision of the buffer-following LZF walk (Model/RdbLzf.lean,
  the code after D33) is the decision of the content-producing decoder of
  Model/Rdb/Str.lean (C03's `lzfDecompress`, which models the output as a buffer
  of exactly `outlen` bytes): the growth policy of the buffer changes what is
  allocated, never which inputs are accepted.
-/
import GunYu.Proofs.RdbLzf
import GunYu.Model.Rdb.Str

namespace GunYu.RdbLzf
open GunYu

/-- C03's back-reference copy: it succeeds iff the reference does not reach before the start of the output and the
    run fits the room that is left -/
theorem lzfCopy_spec : ∀ (n dist : Nat) (acc : Bytes) (room : Nat), 0 < dist →
    (match Rdb.lzfCopy n dist acc room with
     | some (acc', room') => (n = 0 ∨ (dist ≤ acc.length ∧ n ≤ room)) ∧ acc'.length = acc.length + n ∧ room' = room - n
     | none => ¬ (n = 0 ∨ (dist ≤ acc.length ∧ n ≤ room)))
  | 0, dist, acc, room, _ => by simp [Rdb.lzfCopy]
  | n+1, dist, acc, room, hd => by
    unfold Rdb.lzfCopy
    by_cases hr : room = 0
    · simp only [hr, if_true]; omega
    · simp only [hr, if_false]
      cases hg : acc[dist - 1]? with
      | none =>
        have : acc.length ≤ dist - 1 := by
          rcases Nat.lt_or_ge (dist - 1) acc.length with h | h
          · rw [List.getElem?_eq_getElem h] at hg; cases hg
          · exact h
        simp only; omega
      | some b =>
        have hlt : dist - 1 < acc.length := by
          rcases Nat.lt_or_ge (dist - 1) acc.length with h | h
          · exact h
          · rw [List.getElem?_eq_none h] at hg; cases hg
        simp only
        have ih := lzfCopy_spec n dist (b :: acc) (room - 1) hd
        cases hc : Rdb.lzfCopy n dist (b :: acc) (room - 1) with
        | none =>
          rw [hc] at ih; simp only at ih ⊢
          simp only [List.length_cons] at ih
          omega
        | some p =>
          obtain ⟨acc', room'⟩ := p
          rw [hc] at ih; simp only at ih ⊢
          simp only [List.length_cons] at ih
          omega

/-- step by step: same decision, given the invariant of the buffer and `room = outlen − o` -/
theorem walk_agrees (step outlen : Nat) : ∀ (fuel : Nat) (inp : Bytes) (o blen : Nat) (tr : List (Nat × Nat)) (acc : Bytes),
    WInv step outlen o blen tr → acc.length = o →
      (walk step outlen fuel inp o blen tr).ok = (Rdb.lzfLoop fuel inp acc (outlen - o)).isSome
  | 0, inp, o, blen, tr, acc, inv, ha => by
    have : o ≤ outlen := Nat.le_trans inv.ob inv.bo
    simp only [walk, Rdb.lzfLoop]
    by_cases h1 : inp.isEmpty = true
    · by_cases h2 : o = outlen
      · simp [h1, h2]
      · have : outlen - o ≠ 0 := by omega
        simp [h1, h2, this]
    · simp [h1]
  | fuel+1, [], o, blen, tr, acc, inv, ha => by
    have : o ≤ outlen := Nat.le_trans inv.ob inv.bo
    simp only [walk, Rdb.lzfLoop]
    by_cases h2 : o = outlen
    · simp [h2]
    · have : outlen - o ≠ 0 := by omega
      simp [h2, this]
  | fuel+1, ctrl :: r, o, blen, tr, acc, inv, ha => by
    have hoo : o ≤ outlen := Nat.le_trans inv.ob inv.bo
    have hc : ctrl.toNat < 256 := ctrl.toNat_lt
    unfold walk Rdb.lzfLoop
    simp only
    by_cases hlit : ctrl.toNat < 32
    · simp only [hlit, if_true]
      have hfit : (o + ctrl.toNat + 1 ≤ room step blen (o + ctrl.toNat + 1) outlen) ↔ ctrl.toNat + 1 ≤ outlen - o := by
        constructor
        · intro h; have := room_le_outlen step blen (o + ctrl.toNat + 1) outlen inv.bo; omega
        · intro h; exact room_fits step blen _ outlen (by omega)
      by_cases hok : hasLen r (ctrl.toNat + 1) = true ∧ o + ctrl.toNat + 1 ≤ room step blen (o + ctrl.toNat + 1) outlen
      · have h2 : ctrl.toNat + 1 ≤ r.length ∧ ctrl.toNat + 1 ≤ outlen - o := ⟨(hasLen_iff _ _).mp hok.1, hfit.mp hok.2⟩
        rw [if_pos hok, if_pos h2]
        have hnext := inv.next (ctrl.toNat + 1) (by omega) (by have := hok.2; omega)
        have hadd : o + (ctrl.toNat + 1) = o + ctrl.toNat + 1 := by omega
        rw [hadd] at hnext
        have hroom : outlen - o - (ctrl.toNat + 1) = outlen - (o + ctrl.toNat + 1) := by omega
        rw [hroom]
        apply walk_agrees step outlen fuel _ _ _ _ _ hnext
        rw [List.length_append, List.length_reverse, List.length_take, ha]
        have := h2.1; omega
      · have h2 : ¬ (ctrl.toNat + 1 ≤ r.length ∧ ctrl.toNat + 1 ≤ outlen - o) := by
          intro h; exact hok ⟨(hasLen_iff _ _).mpr h.1, hfit.mpr h.2⟩
        rw [if_neg hok, if_neg h2]; rfl
    · simp only [hlit, if_false]
      cases hlen : (if ctrl.toNat / 32 = 7 then
          (match r with | [] => none | x :: r1 => some (ctrl.toNat / 32 + x.toNat, r1))
          else some (ctrl.toNat / 32, r)) with
      | none => rfl
      | some p =>
        obtain ⟨len, r1⟩ := p
        simp only
        have hlen264 : len + 2 ≤ 264 := by
          split at hlen
          · cases r with
            | nil => cases hlen
            | cons x r' =>
              simp only [Option.some.injEq, Prod.mk.injEq] at hlen
              obtain ⟨rfl, _⟩ := hlen
              have := x.toNat_lt
              omega
          · simp only [Option.some.injEq, Prod.mk.injEq] at hlen
            obtain ⟨rfl, _⟩ := hlen
            omega
        cases r1 with
        | nil => rfl
        | cons lo r2 =>
          simp only
          have hspec := lzfCopy_spec (len + 2) (ctrl.toNat % 32 * 256 + lo.toNat + 1) acc (outlen - o) (by omega)
          have hfit : (o + len + 2 ≤ room step blen (o + len + 2) outlen) ↔ len + 2 ≤ outlen - o := by
            constructor
            · intro h; have := room_le_outlen step blen (o + len + 2) outlen inv.bo; omega
            · intro h; exact room_fits step blen _ outlen (by omega)
          by_cases hok : ctrl.toNat % 32 * 256 + lo.toNat + 1 ≤ o ∧ o + len + 2 ≤ room step blen (o + len + 2) outlen
          · rw [if_pos hok]
            cases hcp : Rdb.lzfCopy (len + 2) (ctrl.toNat % 32 * 256 + lo.toNat + 1) acc (outlen - o) with
            | none =>
              rw [hcp] at hspec; simp only at hspec
              exfalso; apply hspec; right
              exact ⟨by rw [ha]; exact hok.1, hfit.mp hok.2⟩
            | some q =>
              obtain ⟨acc', room'⟩ := q
              rw [hcp] at hspec; simp only at hspec ⊢
              obtain ⟨_, hal, hrm⟩ := hspec
              have hnext := inv.next (len + 2) hlen264 (by have := hok.2; omega)
              have hadd : o + (len + 2) = o + len + 2 := by omega
              rw [hadd] at hnext
              have : room' = outlen - (o + len + 2) := by omega
              rw [this]
              exact walk_agrees step outlen fuel r2 _ _ _ acc' hnext (by rw [hal, ha]; omega)
          · rw [if_neg hok]
            cases hcp : Rdb.lzfCopy (len + 2) (ctrl.toNat % 32 * 256 + lo.toNat + 1) acc (outlen - o) with
            | none => rfl
            | some q =>
              obtain ⟨acc', room'⟩ := q
              rw [hcp] at hspec; simp only at hspec
              exfalso; apply hok
              rcases hspec.1 with h | ⟨h1, h2⟩
              · omega
              · exact ⟨by rw [← ha]; exact h1, hfit.mpr h2⟩

/-- **the buffer policy does not change the decision**: `lzfDecompress` after D33 accepts exactly what the
    decoder with a full-size buffer accepts (C03's model), plus the guard on the declared length — which every
    accepted input passes anyway (`run_ok`) -/
theorem run_agrees (step : Nat) (inp : Bytes) (outlen : Nat) :
    (run step inp outlen).ok = (decide (outlen ≤ inp.length * 264) && (Rdb.lzfDecompress inp outlen).isSome) := by
  unfold run Rdb.lzfDecompress
  by_cases hg : outlen > inp.length * 264
  · have : ¬ outlen ≤ inp.length * 264 := by omega
    simp [hg, this]
  · have h2 : outlen ≤ inp.length * 264 := by omega
    rw [if_neg hg]
    have := walk_agrees step outlen inp.length inp 0 (min outlen step) [] [] (init_inv step outlen) rfl
    simp only [Nat.sub_zero] at this
    rw [this]; simp [h2]

end GunYu.RdbLzf
