/-
  C02 core: the wire is ORDERED. Give every forwarded data command the key
  2·(its stream offset) and every checkpoint write `<rid>_offset o` the key
  2·o+1. Then for every schedule the key sequence on the wire is non-decreasing:
    * a command sent AFTER a checkpoint write has a strictly larger offset
      (the stored position never covers a write not yet sent: nothing skipped)
    * a command sent BEFORE a checkpoint write has an offset ≤ it
      (a resume from the stored position never re-sends it: nothing repeated
       once the write and its commands are atomic)
-/
import GunYu.Proofs.SenderRun

namespace GunYu.Sender

def keyOfReq : Req → Option Int
  | .cmd n _ off => if n = bPing then none else some (2 * off)
  | .cpOffset o => some (2 * o + 1)
  | _ => none

def keysB (b : Batch) : List Int := b.filterMap keyOfReq
def keys (out : List Batch) : List Int := out.flatMap keysB

@[simp] theorem keys_nil : keys [] = [] := rfl
@[simp] theorem keys_append (a b : List Batch) : keys (a ++ b) = keys a ++ keys b := by simp [keys]
@[simp] theorem keys_none : keys (optToList none) = [] := rfl
@[simp] theorem keys_some (b : Batch) : keys (optToList (some b)) = keysB b := by simp [keys, optToList]
theorem keysB_append (a b : Batch) : keysB (a ++ b) = keysB a ++ keysB b := by simp [keysB]

/-- keys of the queued items (pings carry none) -/
def qkeys (q : List Item) : List Int :=
  q.filterMap (fun i => if i.cmd = bPing then none else some (2 * i.offset))

theorem keysB_cmds (q : List Item) :
    keysB (q.map (fun i => Req.cmd i.cmd i.args i.offset)) = qkeys q := by
  induction q with
  | nil => rfl
  | cons i q ih =>
    simp only [List.map_cons, keysB, List.filterMap_cons, keyOfReq, qkeys] at ih ⊢
    split <;> simp_all

theorem keysB_cpPart (c : SCfg) (s : SState) (u : Bool) (off : Int) :
    keysB (cpPart c s u off) = if u && c.resume then [2 * off + 1] else [] := by
  unfold cpPart
  by_cases h : (u && c.resume) = true
  · simp only [h, ↓reduceIte]
    by_cases hm : s.cpInDbs.contains (dbAfter s.connDb s.queue) = true <;>
      simp [keysB, keyOfReq]
  · simp [h, keysB]

theorem keysB_sendReqs (c : SCfg) (s : SState) (tb u : Bool) (off : Int) :
    keysB (sendReqs c s tb u off) = qkeys s.queue ++ (if u && c.resume then [2 * off + 1] else []) := by
  unfold sendReqs
  rw [keysB_append, keysB_append, keysB_append, keysB_cmds, keysB_cpPart]
  cases tb <;> simp [keysB, keyOfReq, List.filterMap]

/-- keys one flush puts on the wire: the whole queue, then (maybe) the offset -/
theorem sendOnce_keys (c : SCfg) (s : SState) (tb up : Bool) (off : Int) :
    ∃ tl, keys (optToList (sendOnce c s tb up off).2) ++ qkeys (sendOnce c s tb up off).1.queue
            = qkeys s.queue ++ tl ∧
      (tl = [] ∨ (tl = [2 * off + 1] ∧ (sendOnce c s tb up off).1.queue = [])) := by
  unfold sendOnce
  simp only
  split
  · exact ⟨[], by simp, Or.inl rfl⟩
  · split
    · exact ⟨[], by simp, Or.inl rfl⟩
    · simp only [keys_some, keysB_sendReqs]
      by_cases h : (up && decide (0 ≤ off) && c.resume) = true
      · exact ⟨[2 * off + 1], by simp [h, qkeys], Or.inr (by simp)⟩
      · exact ⟨[], by simp [h, qkeys], Or.inl rfl⟩

end GunYu.Sender

namespace GunYu.Sender

/-- the queue holds no keep-alive, strictly increasing offsets, all ≤ `hi` -/
def QOk (q : List Item) (hi : Int) : Prop :=
  (q.map (·.offset)).Pairwise (· < ·) ∧ (∀ i ∈ q, i.offset ≤ hi) ∧ (∀ i ∈ q, i.cmd ≠ bPing)

/-- smallest key anything still to be sent can have -/
def lowkey (q : List Item) (last : Int) : Int :=
  match q with
  | [] => 2 * last + 1
  | i :: _ => 2 * i.offset

/-- `l` is sorted and lies within `[lo, hi]` -/
def Within (lo hi : Int) (l : List Int) : Prop :=
  l.Pairwise (· ≤ ·) ∧ ∀ k ∈ l, lo ≤ k ∧ k ≤ hi

theorem within_nil (lo hi : Int) : Within lo hi [] := ⟨List.Pairwise.nil, by intro k hk; cases hk⟩

theorem within_append {lo mid hi : Int} {a b : List Int}
    (ha : Within lo mid a) (hb : Within mid hi b) (hlm : lo ≤ mid) (hmh : mid ≤ hi) :
    Within lo hi (a ++ b) := by
  refine ⟨?_, ?_⟩
  · rw [List.pairwise_append]
    refine ⟨ha.1, hb.1, ?_⟩
    intro x hx y hy
    have := (ha.2 x hx).2; have := (hb.2 y hy).1; omega
  · intro k hk
    rcases List.mem_append.mp hk with h | h
    · have := ha.2 k h; omega
    · have := hb.2 k h; omega

theorem within_mono {lo lo' hi hi' : Int} {l : List Int} (h : Within lo hi l)
    (h1 : lo' ≤ lo) (h2 : hi ≤ hi') : Within lo' hi' l :=
  ⟨h.1, fun k hk => by have := h.2 k hk; omega⟩

theorem qkeys_eq (q : List Item) (hp : ∀ i ∈ q, i.cmd ≠ bPing) :
    qkeys q = q.map (fun i => 2 * i.offset) := by
  induction q with
  | nil => rfl
  | cons i q ih =>
    have h1 : i.cmd ≠ bPing := hp i (List.mem_cons_self ..)
    have := ih (fun j hj => hp j (List.mem_cons_of_mem _ hj))
    simp only [qkeys, List.filterMap_cons, h1, ↓reduceIte, List.map_cons] at this ⊢
    rw [this]

/-- keys of a well-ordered queue: sorted, from `lowkey` up to `2·hi` -/
theorem qkeys_within (q : List Item) (hi : Int) (h : QOk q hi) (hne : q ≠ []) :
    Within (lowkey q hi) (2 * hi) (qkeys q) := by
  obtain ⟨hs, hle, hp⟩ := h
  rw [qkeys_eq q hp]
  cases q with
  | nil => exact absurd rfl hne
  | cons i q =>
    simp only [lowkey]
    refine ⟨?_, ?_⟩
    · have : ((i :: q).map (fun j => 2 * j.offset)) = ((i :: q).map (·.offset)).map (fun x => 2 * x) := by
        simp [List.map_map]
      rw [this]
      exact (List.Pairwise.map _ (fun a b (hab : a < b) => by omega) hs)
    · intro k hk
      obtain ⟨j, hj, rfl⟩ := List.mem_map.mp hk
      have h2 := hle j hj
      rcases List.mem_cons.mp hj with rfl | hjq
      · omega
      · have : i.offset < j.offset := by
          simp only [List.map_cons, List.pairwise_cons] at hs
          exact hs.1 _ (List.mem_map.mpr ⟨j, hjq, rfl⟩)
        omega

/-- one flush at `off` of a well-ordered queue bounded by `off` -/
theorem sendOnce_within (c : SCfg) (s : SState) (tb up : Bool) (off : Int) (h : QOk s.queue off) :
    Within (lowkey s.queue off) (2 * off + 1) (keys (optToList (sendOnce c s tb up off).2)) := by
  obtain ⟨tl, hk, htl⟩ := sendOnce_keys c s tb up off
  rw [sendOnce_queue_nil] at hk
  simp only [qkeys, List.filterMap_nil, List.append_nil] at hk
  rw [hk]
  have htlw : Within (2 * off + 1) (2 * off + 1) tl := by
    rcases htl with rfl | ⟨rfl, _⟩
    · exact within_nil _ _
    · exact ⟨by simp, by intro k hk; simp at hk; omega⟩
  by_cases hne : s.queue = []
  · rw [hne]; simp only [List.filterMap_nil, List.nil_append, lowkey]
    exact htlw
  · have hq := qkeys_within s.queue off h hne
    have hlo : lowkey s.queue off ≤ 2 * off := by
      cases hqq : s.queue with
      | nil => exact absurd hqq hne
      | cons i q =>
        simp only [lowkey]
        have := h.2.1 i (by rw [hqq]; exact List.mem_cons_self ..)
        omega
    exact within_append (within_mono hq (Int.le_refl _) (Int.le_refl _))
      (within_mono htlw (by omega) (Int.le_refl _)) hlo (by omega)

end GunYu.Sender

namespace GunYu.Sender

/-- result of (part of) an iteration: the new keys `K` lie between what the old
    situation `(q, last)` could still send and what the new one `(q', last')` can -/
def StepOK (q : List Item) (last : Int) (q' : List Item) (last' : Int) (K : List Int) : Prop :=
  QOk q' last' ∧ Within (lowkey q last) (lowkey q' last') K ∧ lowkey q last ≤ lowkey q' last'

theorem stepOK_trans {q0 q1 q2 : List Item} {l0 l1 l2 : Int} {K1 K2 : List Int}
    (h1 : StepOK q0 l0 q1 l1 K1) (h2 : StepOK q1 l1 q2 l2 K2) : StepOK q0 l0 q2 l2 (K1 ++ K2) :=
  ⟨h2.1, within_append h1.2.1 h2.2.1 h1.2.2 h2.2.2, Int.le_trans h1.2.2 h2.2.2⟩

theorem qok_nil (hi : Int) : QOk [] hi := by simp [QOk]

theorem lowkey_le_top (q : List Item) (last : Int) (h : QOk q last) : lowkey q last ≤ 2 * last + 1 := by
  cases q with
  | nil => simp [lowkey]
  | cons i q => simp only [lowkey]; have := h.2.1 i (List.mem_cons_self ..); omega

/-- a flush at `off` of a queue bounded by `off`, seen from `(q, last)` with `last ≤ off` -/
theorem flush_stepOK (c : SCfg) (s : SState) (tb up : Bool) (off last : Int)
    (h : QOk s.queue off) (hl : last ≤ off) :
    StepOK s.queue last [] off (keys (optToList (sendOnce c s tb up off).2)) := by
  have hw := sendOnce_within c s tb up off h
  have hlow : lowkey s.queue last ≤ lowkey s.queue off := by
    cases s.queue with
    | nil => simp only [lowkey]; omega
    | cons i q => exact Int.le_refl _
  refine ⟨qok_nil _, ?_, ?_⟩
  · simpa [lowkey] using within_mono hw hlow (Int.le_refl _)
  · have h1 := lowkey_le_top s.queue off h
    have h2 : lowkey ([] : List Item) off = 2 * off + 1 := rfl
    omega

theorem tail_stepOK (c : SCfg) (s : SState) (tb up : Bool) (h : QOk s.queue s.lastOffset) :
    StepOK s.queue s.lastOffset (tail c s tb up []).1.queue s.lastOffset (keys (tail c s tb up []).2) ∧
    (tail c s tb up []).1.lastOffset = s.lastOffset := by
  refine ⟨?_, (tail_cp c s tb up []).1⟩
  unfold tail
  simp only
  split
  · rw [if_pos rfl]
    have := flush_stepOK c { s with needFlush := true } tb up s.lastOffset s.lastOffset h (Int.le_refl _)
    simpa [sendOnce_queue_nil] using this
  · split
    · have := flush_stepOK c s tb up s.lastOffset s.lastOffset h (Int.le_refl _)
      simpa [sendOnce_queue_nil] using this
    · exact ⟨h, within_nil _ _, Int.le_refl _⟩

theorem qok_weaken {q : List Item} {a b : Int} (h : QOk q a) (hab : a ≤ b) : QOk q b :=
  ⟨h.1, fun i hi => by have := h.2.1 i hi; omega, h.2.2⟩

theorem lowkey_mono_last (q : List Item) {a b : Int} (hab : a ≤ b) : lowkey q a ≤ lowkey q b := by
  cases q with
  | nil => simp only [lowkey]; omega
  | cons i q => exact Int.le_refl _

theorem stepOK_relabel (q : List Item) {a b : Int} (h : QOk q a) (hab : a ≤ b) : StepOK q a q b [] :=
  ⟨qok_weaken h hab, within_nil _ _, lowkey_mono_last q hab⟩

theorem qok_snoc {q : List Item} {prev : Int} (h : QOk q prev) (it : Item)
    (hlt : prev < it.offset) (hp : it.cmd ≠ bPing) : QOk (q ++ [it]) it.offset := by
  obtain ⟨hs, hle, hpp⟩ := h
  refine ⟨?_, ?_, ?_⟩
  · rw [List.map_append, List.pairwise_append]
    refine ⟨hs, by simp, ?_⟩
    intro a ha b hb
    obtain ⟨i, hi, rfl⟩ := List.mem_map.mp ha
    simp at hb; subst hb
    have := hle i hi; omega
  · intro i hi
    rcases List.mem_append.mp hi with h | h
    · have := hle i h; omega
    · simp at h; subst h; exact Int.le_refl _
  · intro i hi
    rcases List.mem_append.mp hi with h | h
    · exact hpp i h
    · simp at h; subst h; exact hp

theorem enqueue_stepOK {q : List Item} {prev : Int} (h : QOk q prev) (it : Item)
    (hlt : prev < it.offset) (hp : it.cmd ≠ bPing) : StepOK q prev (q ++ [it]) it.offset [] := by
  refine ⟨qok_snoc h it hlt hp, within_nil _ _, ?_⟩
  cases q with
  | nil => simp only [lowkey, List.nil_append]; omega
  | cons i q => exact Int.le_refl _

/-- phase 1 of a transactional item: the forced flush of what was queued before -/
theorem preFlush_stepOK (c : SCfg) (s : SState) (t : Txn) (nf : Bool) (prev : Int)
    (hq : QOk s.queue prev) (hlt : prev ≤ s.lastOffset) :
    (preFlush c s t nf prev).1.lastOffset = s.lastOffset ∧
    ((StepOK s.queue prev (preFlush c s t nf prev).1.queue prev (keys (preFlush c s t nf prev).2)) ∨
     (t = .commit ∧ (preFlush c s t nf prev).1.queue = [] ∧
      StepOK s.queue prev [] s.lastOffset (keys (preFlush c s t nf prev).2))) := by
  refine ⟨(preFlush_cp c s t nf prev).1, ?_⟩
  unfold preFlush
  split
  · simp only
    by_cases ht : t = Txn.commit
    · right
      simp only [ht, ↓reduceIte, true_and]
      exact ⟨sendOnce_queue_nil _ _ _ _ _,
        flush_stepOK c s _ _ s.lastOffset prev (qok_weaken hq (by omega)) (by omega)⟩
    · left
      simp only [ht, ↓reduceIte]
      have := flush_stepOK c s c.txnMode (c.resume && c.txnMode) prev prev hq (Int.le_refl _)
      simpa [sendOnce_queue_nil] using this
  · left
    exact ⟨hq, within_nil _ _, Int.le_refl _⟩

theorem tail_out (c : SCfg) (s : SState) (tb up : Bool) (out : List Batch) :
    tail c s tb up out = ((tail c s tb up []).1, out ++ (tail c s tb up []).2) := by
  unfold tail
  simp only
  split
  · simp
  · split <;> simp

theorem stepItemTxn_ok (c : SCfg) (s : SState) (t : Txn) (nf : Bool) (it : Item) (prev : Int)
    (hq : QOk s.queue prev) (hle : prev ≤ s.lastOffset)
    (hlt : forwards t = true → prev < s.lastOffset) (hit : it.offset = s.lastOffset)
    (hp : it.cmd ≠ bPing) :
    StepOK s.queue prev (stepItemTxn c s t nf it prev).1.queue s.lastOffset
      (keys (stepItemTxn c s t nf it prev).2) ∧
    (stepItemTxn c s t nf it prev).1.lastOffset = s.lastOffset := by
  unfold stepItemTxn
  simp only
  obtain ⟨hl1, hph1⟩ := preFlush_stepOK c s t nf prev hq hle
  generalize hpf : preFlush c s t nf prev = pf at hl1 hph1
  -- phase 2: absorb
  have hph2 : ∃ K, K = keys pf.2 ∧ StepOK s.queue prev (absorb pf.1 t it).queue s.lastOffset K ∧
      (absorb pf.1 t it).lastOffset = s.lastOffset := by
    refine ⟨_, rfl, ?_, by rw [absorb_last, hl1]⟩
    rcases hph1 with h1 | ⟨htc, hqn, h1⟩
    · have hq1 : QOk pf.1.queue prev := h1.1
      unfold absorb
      split
      · -- enqueue
        rename_i hten
        have hlt' := hlt (by simp [forwards, hten.1, hten.2])
        have := stepOK_trans h1 (enqueue_stepOK hq1 it (by omega) hp)
        simpa [enqueue, hit] using this
      · split
        · have := stepOK_trans h1 (stepOK_relabel pf.1.queue hq1 hle)
          simpa using this
        · have := stepOK_trans h1 (stepOK_relabel pf.1.queue hq1 hle)
          simpa using this
    · subst htc
      have : absorb pf.1 Txn.commit it = pf.1 := by simp [absorb]
      rw [this, hqn]
      exact h1
  obtain ⟨K, hK, h2, hl2⟩ := hph2
  -- phase 3: the tail
  obtain ⟨h3, hl3⟩ := tail_stepOK c (absorb pf.1 t it) c.txnMode (c.resume && c.txnMode)
    (by rw [hl2]; exact h2.1)
  rw [tail_out]
  simp only [keys_append]
  rw [hl2] at h3 hl3
  rw [← hK]
  exact ⟨stepOK_trans h2 h3, hl3⟩

theorem stepItemPlain_ok (c : SCfg) (s : SState) (t : Txn) (it : Item) (prev : Int)
    (hq : QOk s.queue prev) (hle : prev ≤ s.lastOffset)
    (hlt : forwards t = true → prev < s.lastOffset) (hit : it.offset = s.lastOffset)
    (hp : it.cmd ≠ bPing) :
    StepOK s.queue prev (stepItemPlain c s t it).1.queue s.lastOffset
      (keys (stepItemPlain c s t it).2) ∧
    (stepItemPlain c s t it).1.lastOffset = s.lastOffset := by
  unfold stepItemPlain
  split
  · exact ⟨stepOK_relabel s.queue hq hle, rfl⟩
  · split
    · obtain ⟨h3, hl3⟩ := tail_stepOK c { s with needFlush := true } c.txnMode (c.resume && c.txnMode)
        (qok_weaken hq hle)
      have := stepOK_trans (stepOK_relabel s.queue hq hle) h3
      exact ⟨by simpa using this, hl3⟩
    · rename_i htb htc
      have hlt' := hlt (by simp [forwards, htb, htc])
      have he := enqueue_stepOK hq it (by omega) hp
      rw [hit] at he
      obtain ⟨h3, hl3⟩ := tail_stepOK c (enqueue s it) c.txnMode (c.resume && c.txnMode)
        (by simpa [enqueue] using he.1)
      have h3' : StepOK (s.queue ++ [it]) s.lastOffset
          (tail c (enqueue s it) c.txnMode (c.resume && c.txnMode) []).1.queue s.lastOffset
          (keys (tail c (enqueue s it) c.txnMode (c.resume && c.txnMode) []).2) := h3
      have := stepOK_trans he h3'
      exact ⟨by simpa using this, hl3⟩

theorem keepalive_ping_ok (c : SCfg) (s : SState) (up : Bool) (hq : s.queue = []) :
    StepOK [] s.lastOffset
      (tail c { s with queue := [pingItem s.lastOffset], needFlush := true } false up []).1.queue
      s.lastOffset
      (keys (tail c { s with queue := [pingItem s.lastOffset], needFlush := true } false up []).2) ∧
    (tail c { s with queue := [pingItem s.lastOffset], needFlush := true } false up []).1.lastOffset
      = s.lastOffset := by
  refine ⟨?_, (tail_cp _ _ _ _ _).1⟩
  unfold tail
  simp only [Bool.not_true, Bool.false_and, Bool.false_eq_true, ↓reduceIte, List.nil_append]
  generalize hs0 : ({ s with queue := [pingItem s.lastOffset], needFlush := true } : SState) = s0
  have hq0 : s0.queue = [pingItem s.lastOffset] := by rw [← hs0]
  obtain ⟨tl, hk, htl⟩ := sendOnce_keys c s0 false up s.lastOffset
  rw [sendOnce_queue_nil, hq0] at hk
  have hk' : keys (optToList (sendOnce c s0 false up s.lastOffset).2) = tl := by
    simpa [qkeys, pingItem] using hk
  have hl0 : s0.lastOffset = s.lastOffset := by rw [← hs0]
  simp only [hl0, sendOnce_queue_nil]
  rw [hk']
  refine ⟨qok_nil _, ?_, Int.le_refl _⟩
  rcases htl with rfl | ⟨rfl, _⟩
  · exact within_nil _ _
  · exact ⟨by simp, by intro k hk; simp at hk; simp [lowkey]; omega⟩

/-- an `EXEC` always yields the commit status -/
theorem txnStatus_exec (p : Txn) : (txnStatus bExec p).1 = .commit := by
  cases p <;> decide

/-- **One iteration keeps the wire ordered.** Item offsets never decrease; only an
    item that is not queued (a transaction bracket) may repeat the previous
    item's offset. -/
theorem step_ok (c : SCfg) (s : SState) (ev : Ev) (hq : QOk s.queue s.lastOffset)
    (hlt : ∀ it, ev = .item it → s.lastOffset ≤ it.offset ∧
      (it.cmd ≠ bPing → forwards (txnStatus it.cmd s.txn).1 = true → s.lastOffset < it.offset)) :
    StepOK s.queue s.lastOffset (step c s ev).1.queue (step c s ev).1.lastOffset
      (keys (step c s ev).2) := by
  have plain : ∀ (s0 : SState) tb up, s0.queue = s.queue → s0.lastOffset = s.lastOffset →
      StepOK s.queue s.lastOffset (tail c s0 tb up []).1.queue (tail c s0 tb up []).1.lastOffset
        (keys (tail c s0 tb up []).2) := by
    intro s0 tb up h1 h2
    obtain ⟨h3, hl3⟩ := tail_stepOK c s0 tb up (by rw [h1, h2]; exact hq)
    rw [hl3, h2]; rw [h1, h2] at h3; exact h3
  cases ev with
  | item it =>
    obtain ⟨hn, hne⟩ := hlt it rfl
    simp only [step]
    split
    · exact stepOK_relabel s.queue hq hn
    · rename_i hp
      have hcm : forwards (txnStatus it.cmd s.txn).1 = true → s.lastOffset < it.offset := hne hp
      unfold stepItem
      simp only
      split
      · obtain ⟨h, hl⟩ := stepItemTxn_ok c
          { s with lastOffset := it.offset, txn := (txnStatus it.cmd s.txn).1,
                   needFlush := (txnStatus it.cmd s.txn).2 }
          (txnStatus it.cmd s.txn).1 (txnStatus it.cmd s.txn).2 it s.lastOffset hq hn hcm rfl hp
        rw [hl]; exact h
      · obtain ⟨h, hl⟩ := stepItemPlain_ok c
          { s with lastOffset := it.offset, txn := (txnStatus it.cmd s.txn).1,
                   needFlush := (txnStatus it.cmd s.txn).2 }
          (txnStatus it.cmd s.txn).1 it s.lastOffset hq hn hcm rfl hp
        rw [hl]; exact h
  | batchTick =>
    simp only [step]
    split
    · exact plain _ _ _ rfl rfl
    · exact plain _ _ _ rfl rfl
  | keepaliveTick =>
    simp only [step]
    split
    · split
      · rename_i he
        have hqe : s.queue = [] := by simpa using he
        obtain ⟨h, hl⟩ := keepalive_ping_ok c s (c.resume && c.txnMode) hqe
        rw [hl, hqe]; exact h
      · exact plain _ _ _ rfl rfl
    · exact plain _ _ _ rfl rfl
  | cpTick =>
    simp only [step]
    split
    · exact plain _ _ _ rfl rfl
    · exact plain _ _ _ rfl rfl
  | done =>
    simp only [step]
    split
    · exact plain _ _ _ rfl rfl
    · exact plain _ _ _ rfl rfl

end GunYu.Sender
