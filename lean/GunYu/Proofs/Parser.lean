/-
  Parser-side lemmas for C01/C02: `parseStep` / `parseAll`.
-/
import GunYu.Model.Sender
import GunYu.Proofs.Decimal
import GunYu.Proofs.TargetSeq
import GunYu.Proofs.SenderData

namespace GunYu.Sender
open GunYu GunYu.Decimal GunYu.Target

theorem natToDec_head_digit (n : Nat) : ∃ b rest, natToDec n = b :: rest ∧ isDigit b = true := by
  have hne := natToDec_ne_nil n
  cases h : natToDec n with
  | nil => exact absurd h hne
  | cons b rest =>
    refine ⟨b, rest, rfl, ?_⟩
    apply natToDec_all_digit n
    rw [h]; exact List.mem_cons_self ..

/-- `strconv.Atoi` reads back what `strconv.Itoa` printed -/
theorem atoi?_intToDec (k : Int) : atoi? (intToDec k) = some k := by
  unfold intToDec
  by_cases hk : k < 0
  · simp only [hk, ↓reduceIte, atoi?, decToNat?_natToDec, Option.map_some]
    congr 1
    show -(k.natAbs : Int) = k
    omega
  · simp only [hk, ↓reduceIte]
    obtain ⟨b, rest, hb, hd⟩ := natToDec_head_digit k.toNat
    have h45 : b ≠ 45 := by
      intro h; subst h; simp [isDigit] at hd
    have h43 : b ≠ 43 := by
      intro h; subst h; simp [isDigit] at hd
    have : atoi? (natToDec k.toNat) = (decToNat? (natToDec k.toNat)).map Int.ofNat := by
      rw [hb]
      unfold atoi?
      split
      · rename_i heq; simp at heq; exact absurd heq.1 h45
      · rename_i heq; simp at heq; exact absurd heq.1 h43
      · rfl
    rw [this, decToNat?_natToDec]
    simp only [Option.map_some]
    congr 1
    have := Int.toNat_of_nonneg (a := k) (by omega)
    simp only [Int.ofNat_eq_natCast]
    omega

theorem selArg_selectItem (cur db : Int) (off : Int) :
    selArg cur (selectItem db off).args = db := by
  simp [selectItem, selArg, atoi?_intToDec]

/-! ### what one parser step can do -/

/-- A source `SELECT n` (n ≥ 0) to a database that is not filtered and whose
    command passes the key filter leaves the parser in the mapped database, and
    forwards `select <mapped>` exactly when that differs from the database the
    target connection is already in. -/
theorem parseStep_select (c : PCfg) (s : PState) (a : Bytes) (n : Int) (off : Int)
    (ha : atoi? a = some n) (hn : 0 ≤ n) (hdb : c.filterDb n = false)
    (hk : (c.filterCmdKey bSelect [a]).isSome) :
    (parseStep c s { cmd := bSelect, args := [a], off := off }).1.currentDB = mapDb c n ∧
    (parseStep c s { cmd := bSelect, args := [a], off := off }).1.bypass = false ∧
    (parseStep c s { cmd := bSelect, args := [a], off := off }).2 =
        (if mapDb c n ≠ s.currentDB then POut.emit (selectItem (mapDb c n) off) else POut.skip) := by
  have hne : bSelect ≠ bPing := by decide
  obtain ⟨x, hx⟩ := Option.isSome_iff_exists.mp hk
  have hn1 : n ≠ -1 := by omega
  unfold parseStep
  simp only [hne, ↓reduceIte, ha, hdb, hx, hn, selectDB, hn1, Bool.false_eq_true]
  by_cases hch : mapDb c n = s.currentDB
  · simp [hch]
  · simp [hch]

/-- A `SELECT` to a filtered database forwards nothing and puts the parser in
    bypass: every following command is withheld until the next SELECT. -/
theorem parseStep_select_filtered (c : PCfg) (s : PState) (a : Bytes) (n : Int) (off : Int)
    (ha : atoi? a = some n) (hdb : c.filterDb n = true) :
    parseStep c s { cmd := bSelect, args := [a], off := off } =
      ({ s with bypass := true }, POut.skip) := by
  have hne : bSelect ≠ bPing := by decide
  unfold parseStep
  simp [hne, ha, hdb]

/-- An ordinary command (not PING / SELECT) is forwarded iff the parser is not
    in bypass, the command is not blacklisted, it is not the sentinel hello and
    its keys pass the filter; what is forwarded is the command with exactly the
    filtered argument list, its END offset and the parser's current database. -/
theorem parseStep_data (c : PCfg) (s : PState) (r : Raw) (hp : r.cmd ≠ bPing) (hs : r.cmd ≠ bSelect) :
    parseStep c s r =
      if c.filterCmd r.cmd then (s, POut.skip)
      else if r.cmd = bPublish ∧ (r.args.head?.map lower) = some bSentinelHello then (s, POut.skip)
      else if s.bypass ∧ passBracket s r.cmd = false then (s, POut.skip)
      else match c.filterCmdKey r.cmd r.args with
        | none => (s, POut.skip)
        | some a =>
          (sent s r.cmd (if passBracket s r.cmd then s.lastSent else r.off),
           POut.emit { cmd := r.cmd, args := a,
                       offset := (if passBracket s r.cmd then s.lastSent else r.off), db := s.currentDB }) := by
  unfold parseStep
  simp only [hp, hs, ↓reduceIte]
  rfl

/-- offsets of what the parser emits are offsets of source commands, in order:
    nothing is reordered, duplicated or invented by the parser -/
theorem parseStep_emit_off (c : PCfg) (s : PState) (r : Raw) (i : Item)
    (h : (parseStep c s r).2 = POut.emit i) :
    (i.offset = r.off ∨ (i.offset = s.lastSent ∧
        ((i.cmd = bMulti ∧ s.txnOpen = false) ∨ (i.cmd = bExec ∧ s.txnOpen = true)))) ∧
    (parseStep c s r).1.lastSent = i.offset ∧
    (parseStep c s r).1.txnOpen =
      (if i.cmd = bMulti then true else if i.cmd = bExec then false else s.txnOpen) := by
  have hpm : bPing ≠ bMulti := by decide
  have hpe : bPing ≠ bExec := by decide
  have hsm : bSelect ≠ bMulti := by decide
  have hse : bSelect ≠ bExec := by decide
  by_cases hp : r.cmd = bPing
  · unfold parseStep at h ⊢
    simp only [hp, ↓reduceIte] at h ⊢
    cases hf : c.filterCmdKey bPing r.args with
    | none => simp [hf] at h
    | some a =>
      simp only [hf] at h ⊢
      cases hb : s.bypass <;> simp [hb] at h ⊢
      subst h; exact ⟨Or.inl rfl, by simp [sent], by simp [sent, hpm, hpe]⟩
  · by_cases hs : r.cmd = bSelect
    · have hne : bSelect ≠ bPing := by decide
      unfold parseStep at h ⊢
      simp only [hs, hne, ↓reduceIte] at h ⊢
      cases ha : r.args with
      | nil => simp [ha] at h
      | cons a rest =>
        cases rest with
        | cons _ _ => simp [ha] at h
        | nil =>
          simp only [ha] at h ⊢
          cases hn : atoi? a with
          | none => simp [hn] at h
          | some n =>
            simp only [hn] at h ⊢
            cases hdb : c.filterDb n
            · simp only [hdb, Bool.false_eq_true, ↓reduceIte] at h ⊢
              cases hf : c.filterCmdKey bSelect [a] with
              | none => simp [hf] at h
              | some x =>
                simp only [hf] at h ⊢
                by_cases h0 : 0 ≤ n
                · simp only [h0, ↓reduceIte] at h ⊢
                  by_cases hch : (selectDB c s.currentDB n).2 = true
                  · simp only [hch, ↓reduceIte] at h ⊢
                    injection h with h; subst h; exact ⟨Or.inl rfl, rfl, by simp [selectItem, hsm, hse]⟩
                  · simp [hch] at h
                · simp only [h0, ↓reduceIte] at h ⊢
                  injection h with h; subst h; exact ⟨Or.inl rfl, by simp [sent], by simp [sent, hsm, hse]⟩
            · simp [hdb] at h
    · rw [parseStep_data c s r hp hs] at h ⊢
      by_cases h1 : c.filterCmd r.cmd = true
      · simp [h1] at h
      · by_cases h2 : r.cmd = bPublish ∧ (r.args.head?.map lower) = some bSentinelHello
        · simp [h1, h2] at h
        · by_cases h3 : s.bypass = true ∧ passBracket s r.cmd = false
          · simp [h1, h2, h3] at h
          · simp only [h1, h2, h3, Bool.false_eq_true, ↓reduceIte] at h ⊢
            cases hf : c.filterCmdKey r.cmd r.args with
            | none => rw [hf] at h; simp at h
            | some a =>
              rw [hf] at h
              simp only at h ⊢
              injection h with h; subst h
              refine ⟨?_, by simp [sent], by simp [sent]⟩
              by_cases hc : passBracket s r.cmd = true
              · right
                refine ⟨by simp [hc], ?_⟩
                simp only [passBracket, Bool.and_eq_true, Bool.or_eq_true, decide_eq_true_eq,
                  Bool.not_eq_true'] at hc
                exact hc.2
              · left; simp [hc]

theorem parseStep_skip_lastSent (c : PCfg) (s : PState) (r : Raw) (s' : PState)
    (h : parseStep c s r = (s', POut.skip)) : s'.lastSent = s.lastSent := by
  by_cases hp : r.cmd = bPing
  · unfold parseStep at h
    simp only [hp, ↓reduceIte] at h
    cases hf : c.filterCmdKey bPing r.args with
    | none => simp [hf] at h; rw [← h]
    | some a =>
      simp only [hf] at h
      cases hb : s.bypass <;> simp [hb] at h
      rw [← h]
  · by_cases hs : r.cmd = bSelect
    · have hne : bSelect ≠ bPing := by decide
      unfold parseStep at h
      simp only [hs, hne, ↓reduceIte] at h
      cases ha : r.args with
      | nil => simp [ha] at h
      | cons a rest =>
        cases rest with
        | cons _ _ => simp [ha] at h
        | nil =>
          simp only [ha] at h
          cases hn : atoi? a with
          | none => simp [hn] at h
          | some n =>
            simp only [hn] at h
            cases hdb : c.filterDb n
            · simp only [hdb, Bool.false_eq_true, ↓reduceIte] at h
              cases hf : c.filterCmdKey bSelect [a] with
              | none => simp [hf] at h; rw [← h]
              | some x =>
                simp only [hf] at h
                by_cases h0 : 0 ≤ n
                · simp only [h0, ↓reduceIte] at h
                  by_cases hch : (selectDB c s.currentDB n).2 = true
                  · simp [hch] at h
                  · simp [hch] at h; rw [← h]
                · simp [h0] at h
            · simp [hdb] at h; rw [← h]
    · rw [parseStep_data c s r hp hs] at h
      by_cases h1 : c.filterCmd r.cmd = true
      · simp [h1] at h; rw [← h]
      · by_cases h2 : r.cmd = bPublish ∧ (r.args.head?.map lower) = some bSentinelHello
        · simp [h1, h2] at h; rw [← h]
        · by_cases h3 : s.bypass = true ∧ passBracket s r.cmd = false
          · simp [h1, h2, h3] at h; rw [← h]
          · simp only [h1, h2, h3, Bool.false_eq_true, ↓reduceIte] at h
            cases hf : c.filterCmdKey r.cmd r.args with
            | none => rw [hf] at h; simp at h; rw [← h]
            | some a => rw [hf] at h; simp at h

theorem parseStep_skip_txnOpen (c : PCfg) (s : PState) (r : Raw) (s' : PState)
    (h : parseStep c s r = (s', POut.skip)) : s'.txnOpen = s.txnOpen := by
  by_cases hp : r.cmd = bPing
  · unfold parseStep at h
    simp only [hp, ↓reduceIte] at h
    cases hf : c.filterCmdKey bPing r.args with
    | none => simp [hf] at h; rw [← h]
    | some a =>
      simp only [hf] at h
      cases hb : s.bypass <;> simp [hb] at h
      rw [← h]
  · by_cases hs : r.cmd = bSelect
    · have hne : bSelect ≠ bPing := by decide
      unfold parseStep at h
      simp only [hs, hne, ↓reduceIte] at h
      cases ha : r.args with
      | nil => simp [ha] at h
      | cons a rest =>
        cases rest with
        | cons _ _ => simp [ha] at h
        | nil =>
          simp only [ha] at h
          cases hn : atoi? a with
          | none => simp [hn] at h
          | some n =>
            simp only [hn] at h
            cases hdb : c.filterDb n
            · simp only [hdb, Bool.false_eq_true, ↓reduceIte] at h
              cases hf : c.filterCmdKey bSelect [a] with
              | none => simp [hf] at h; rw [← h]
              | some x =>
                simp only [hf] at h
                by_cases h0 : 0 ≤ n
                · simp only [h0, ↓reduceIte] at h
                  by_cases hch : (selectDB c s.currentDB n).2 = true
                  · simp [hch] at h
                  · simp [hch] at h; rw [← h]
                · simp [h0] at h
            · simp [hdb] at h; rw [← h]
    · rw [parseStep_data c s r hp hs] at h
      by_cases h1 : c.filterCmd r.cmd = true
      · simp [h1] at h; rw [← h]
      · by_cases h2 : r.cmd = bPublish ∧ (r.args.head?.map lower) = some bSentinelHello
        · simp [h1, h2] at h; rw [← h]
        · by_cases h3 : s.bypass = true ∧ passBracket s r.cmd = false
          · simp [h1, h2, h3] at h; rw [← h]
          · simp only [h1, h2, h3, Bool.false_eq_true, ↓reduceIte] at h
            cases hf : c.filterCmdKey r.cmd r.args with
            | none => rw [hf] at h; simp at h; rw [← h]
            | some a => rw [hf] at h; simp at h

/-- the parser never reorders or invents positions: with source offsets increasing
    from at least `lastSent`, the offsets it hands to the sender never decrease -/
theorem parseAll_offsets_mono (c : PCfg) (raws : List Raw) (s : PState)
    (hraw : (raws.map (·.off)).Pairwise (· < ·)) (hlo : ∀ r ∈ raws, s.lastSent ≤ r.off) :
    ((parseAll c s raws).map (·.offset)).Pairwise (· ≤ ·) ∧
    ∀ i ∈ parseAll c s raws, s.lastSent ≤ i.offset := by
  induction raws generalizing s with
  | nil => simp [parseAll]
  | cons r rest ih =>
    have hr : s.lastSent ≤ r.off := hlo r (List.mem_cons_self ..)
    simp only [List.map_cons, List.pairwise_cons] at hraw
    have hrest_lo : ∀ r' ∈ rest, r.off ≤ r'.off := by
      intro r' hr'
      have := hraw.1 r'.off (List.mem_map.mpr ⟨r', hr', rfl⟩); omega
    simp only [parseAll]
    cases hps : parseStep c s r with
    | mk s' o =>
      cases o with
      | fail => simp
      | skip =>
        simp only
        -- a skipped command does not move lastSent (select/bypass steps keep it)
        have hl : s'.lastSent = s.lastSent := by
          have := parseStep_skip_lastSent c s r s' (by rw [hps])
          exact this
        have := ih s' hraw.2 (fun r' hr' => by rw [hl]; have := hrest_lo r' hr'; omega)
        exact ⟨this.1, fun i hi => by have := this.2 i hi; rw [hl] at this; exact this⟩
      | emit i =>
        simp only
        obtain ⟨hoff, hls, _⟩ := parseStep_emit_off c s r i (by rw [hps])
        rw [hps] at hls
        simp only at hls
        have hile : i.offset ≤ r.off := by rcases hoff with h | ⟨h, _⟩ <;> omega
        have hige : s.lastSent ≤ i.offset := by rcases hoff with h | ⟨h, _⟩ <;> omega
        have := ih s' hraw.2 (fun r' hr' => by rw [hls]; have := hrest_lo r' hr'; omega)
        refine ⟨?_, ?_⟩
        · simp only [List.map_cons, List.pairwise_cons]
          refine ⟨?_, this.1⟩
          intro x hx
          obtain ⟨j, hj, rfl⟩ := List.mem_map.mp hx
          have := this.2 j hj; rw [hls] at this; exact this
        · intro j hj
          rcases List.mem_cons.mp hj with rfl | hj'
          · exact hige
          · have := this.2 j hj'; rw [hls] at this; omega

/-- the sender's status after an item (`fwd1`) -/
def txnAfter (t : Txn) (it : Item) : Txn :=
  if it.cmd = bPing then t else (txnStatus it.cmd t).1

/-- what the sender's wire-order proof needs of its input: offsets never
    decrease, and only an item the sender does not queue (a transaction bracket)
    may repeat the offset before it. `t` = the sender's transaction status. -/
def ItemsMono : Txn → Int → List Item → Prop
  | _, _, [] => True
  | t, last, it :: rest =>
    last ≤ it.offset ∧
    (it.cmd ≠ bPing → forwards (txnStatus it.cmd t).1 = true → last < it.offset) ∧
    ItemsMono (txnAfter t it) it.offset rest

theorem inT_txnStatus (cmd : Bytes) (t : Txn) :
    inT (txnStatus cmd t).1 = (if cmd = bMulti then true else if cmd = bExec then false else inT t) := by
  have hsm : bSelect ≠ bMulti := by decide
  have hse : bSelect ≠ bExec := by decide
  have hme : bMulti ≠ bExec := by decide
  by_cases hm : cmd = bMulti
  · subst hm; cases t <;> simp [txnStatus, cmdClass, inT, hsm.symm, hme]
  · by_cases he : cmd = bExec
    · subst he; cases t <;> simp [txnStatus, cmdClass, inT, hse.symm, hme.symm]
    · by_cases hs : cmd = bSelect
      · subst hs; cases t <;> simp [txnStatus, cmdClass, inT, hsm, hse]
      · cases t <;> simp [txnStatus, cmdClass, inT, hm, he, hs]

/-- the items of a schedule, in order -/
def itemsOf : List Ev → List Item
  | [] => []
  | .item it :: rest => it :: itemsOf rest
  | _ :: rest => itemsOf rest

/-- **The parser's output is what the sender assumes** (`Props.C02.SMono`): for
    a source stream whose command END offsets increase strictly from above the
    start offset, every item offset is above the previous one, except that a
    transaction bracket handed over inside a filtered database repeats it -- and
    the sender never queues that bracket (the parser's `txnOpen` is the sender's
    "inside a transaction"). -/
theorem parseAll_itemsMono (c : PCfg) (raws : List Raw) (s : PState) (t : Txn)
    (ht : s.txnOpen = inT t)
    (hraw : (raws.map (·.off)).Pairwise (· < ·)) (hlo : ∀ r ∈ raws, s.lastSent < r.off) :
    ItemsMono t s.lastSent (parseAll c s raws) := by
  induction raws generalizing s t with
  | nil => simp [parseAll, ItemsMono]
  | cons r rest ih =>
    have hr : s.lastSent < r.off := hlo r (List.mem_cons_self ..)
    simp only [List.map_cons, List.pairwise_cons] at hraw
    have hrest_lo : ∀ r' ∈ rest, r.off < r'.off := by
      intro r' hr'
      exact hraw.1 r'.off (List.mem_map.mpr ⟨r', hr', rfl⟩)
    simp only [parseAll]
    cases hps : parseStep c s r with
    | mk s' o =>
      cases o with
      | fail => simp [ItemsMono]
      | skip =>
        simp only
        have hl : s'.lastSent = s.lastSent := parseStep_skip_lastSent c s r s' (by rw [hps])
        have hto : s'.txnOpen = s.txnOpen := parseStep_skip_txnOpen c s r s' (by rw [hps])
        have := ih s' t (by rw [hto]; exact ht) hraw.2
          (fun r' hr' => by rw [hl]; have := hrest_lo r' hr'; omega)
        rw [hl] at this; exact this
      | emit i =>
        simp only
        obtain ⟨hoff, hls, hto⟩ := parseStep_emit_off c s r i (by rw [hps])
        rw [hps] at hls hto
        simp only at hls hto
        have hile : i.offset ≤ r.off := by rcases hoff with h | ⟨h, _⟩ <;> omega
        have ht' : s'.txnOpen = inT (txnAfter t i) := by
          unfold txnAfter
          by_cases hp : i.cmd = bPing
          · have hpm : bPing ≠ bMulti := by decide
            have hpe : bPing ≠ bExec := by decide
            rw [hto]; simp [hp, hpm, hpe, ht]
          · rw [hto, if_neg hp, inT_txnStatus, ht]
        have := ih s' (txnAfter t i) ht' hraw.2
          (fun r' hr' => by rw [hls]; have := hrest_lo r' hr'; omega)
        rw [hls] at this
        refine ⟨?_, ?_, this⟩
        · rcases hoff with h | ⟨h, _⟩ <;> omega
        · intro _ hfw
          rcases hoff with h | ⟨_, ⟨hm, hop⟩ | ⟨he, _⟩⟩
          · omega
          · -- a MULTI outside a transaction is absorbed, not queued
            exfalso
            have hnt : inT t = false := by rw [← ht]; exact hop
            rw [hm] at hfw
            cases t <;> simp [inT] at hnt <;> simp [txnStatus, cmdClass, forwards] at hfw <;>
              exact absurd hfw (by decide)
          · exfalso
            rw [he] at hfw
            cases t <;> simp [txnStatus, cmdClass, forwards] at hfw <;> exact absurd hfw (by decide)

end GunYu.Sender
