/-
  Parser-side lemmas for C01/C02: `parseStep` / `parseAll`.
-/
import GunYu.Model.Sender
import GunYu.Proofs.Decimal
import GunYu.Proofs.TargetSeq

namespace GunYu.Sender
open GunYu GunYu.Decimal GunYu.Target

theorem natToDec_head_digit (n : Nat) : ∃ b rest, natToDec n = b :: rest ∧ isDigit b = true := by
  have hne := natToDec_ne_nil n
  cases h : natToDec n with
  | nil => exact absurd h hne
  | cons b rest =>
    refine ⟨b, rest, rfl, ?_⟩
    apply natToDec_all_digit n
    rw [h]; exact List.mem_cons_self ..

/-- `strconv.Atoi` reads back what `strconv.Itoa` printed -/
theorem atoi?_intToDec (k : Int) : atoi? (intToDec k) = some k := by
  unfold intToDec
  by_cases hk : k < 0
  · simp only [hk, ↓reduceIte, atoi?, decToNat?_natToDec, Option.map_some]
    congr 1
    show -(k.natAbs : Int) = k
    omega
  · simp only [hk, ↓reduceIte]
    obtain ⟨b, rest, hb, hd⟩ := natToDec_head_digit k.toNat
    have h45 : b ≠ 45 := by
      intro h; subst h; simp [isDigit] at hd
    have h43 : b ≠ 43 := by
      intro h; subst h; simp [isDigit] at hd
    have : atoi? (natToDec k.toNat) = (decToNat? (natToDec k.toNat)).map Int.ofNat := by
      rw [hb]
      unfold atoi?
      split
      · rename_i heq; simp at heq; exact absurd heq.1 h45
      · rename_i heq; simp at heq; exact absurd heq.1 h43
      · rfl
    rw [this, decToNat?_natToDec]
    simp only [Option.map_some]
    congr 1
    have := Int.toNat_of_nonneg (a := k) (by omega)
    simp only [Int.ofNat_eq_natCast]
    omega

theorem selArg_selectItem (cur db : Int) (off : Int) :
    selArg cur (selectItem db off).args = db := by
  simp [selectItem, selArg, atoi?_intToDec]

/-! ### what one parser step can do -/

/-- A source `SELECT n` (n ≥ 0) to a database that is not filtered and whose
    command passes the key filter leaves the parser in the mapped database, and
    forwards `select <mapped>` exactly when that differs from the database the
    target connection is already in. -/
theorem parseStep_select (c : PCfg) (s : PState) (a : Bytes) (n : Int) (off : Int)
    (ha : atoi? a = some n) (hn : 0 ≤ n) (hdb : c.filterDb n = false)
    (hk : (c.filterCmdKey bSelect [a]).isSome) :
    (parseStep c s { cmd := bSelect, args := [a], off := off }).1.currentDB = mapDb c n ∧
    (parseStep c s { cmd := bSelect, args := [a], off := off }).1.bypass = false ∧
    (parseStep c s { cmd := bSelect, args := [a], off := off }).2 =
        (if mapDb c n ≠ s.currentDB then POut.emit (selectItem (mapDb c n) off) else POut.skip) := by
  have hne : bSelect ≠ bPing := by decide
  obtain ⟨x, hx⟩ := Option.isSome_iff_exists.mp hk
  have hn1 : n ≠ -1 := by omega
  unfold parseStep
  simp only [hne, ↓reduceIte, ha, hdb, hx, hn, selectDB, hn1, Bool.false_eq_true]
  by_cases hch : mapDb c n = s.currentDB
  · simp [hch]
  · simp [hch]

/-- A `SELECT` to a filtered database forwards nothing and puts the parser in
    bypass: every following command is withheld until the next SELECT. -/
theorem parseStep_select_filtered (c : PCfg) (s : PState) (a : Bytes) (n : Int) (off : Int)
    (ha : atoi? a = some n) (hdb : c.filterDb n = true) :
    parseStep c s { cmd := bSelect, args := [a], off := off } =
      ({ s with bypass := true }, POut.skip) := by
  have hne : bSelect ≠ bPing := by decide
  unfold parseStep
  simp [hne, ha, hdb]

/-- An ordinary command (not PING / SELECT) is forwarded iff the parser is not
    in bypass, the command is not blacklisted, it is not the sentinel hello and
    its keys pass the filter; what is forwarded is the command with exactly the
    filtered argument list, its END offset and the parser's current database. -/
theorem parseStep_data (c : PCfg) (s : PState) (r : Raw) (hp : r.cmd ≠ bPing) (hs : r.cmd ≠ bSelect) :
    parseStep c s r =
      if c.filterCmd r.cmd then (s, POut.skip)
      else if r.cmd = bPublish ∧ (r.args.head?.map lower) = some bSentinelHello then (s, POut.skip)
      else if s.bypass ∧ closesTxn s r.cmd = false then (s, POut.skip)
      else match c.filterCmdKey r.cmd r.args with
        | none => (s, POut.skip)
        | some a =>
          (sent s r.cmd (if closesTxn s r.cmd then s.lastSent else r.off),
           POut.emit { cmd := r.cmd, args := a,
                       offset := (if closesTxn s r.cmd then s.lastSent else r.off), db := s.currentDB }) := by
  unfold parseStep
  simp only [hp, hs, ↓reduceIte]
  rfl

/-- offsets of what the parser emits are offsets of source commands, in order:
    nothing is reordered, duplicated or invented by the parser -/
theorem parseStep_emit_off (c : PCfg) (s : PState) (r : Raw) (i : Item)
    (h : (parseStep c s r).2 = POut.emit i) :
    (i.offset = r.off ∨ (i.offset = s.lastSent ∧ i.cmd = bExec)) ∧
    (parseStep c s r).1.lastSent = i.offset := by
  by_cases hp : r.cmd = bPing
  · unfold parseStep at h ⊢
    simp only [hp, ↓reduceIte] at h ⊢
    cases hf : c.filterCmdKey bPing r.args with
    | none => simp [hf] at h
    | some a =>
      simp only [hf] at h ⊢
      cases hb : s.bypass <;> simp [hb] at h ⊢
      subst h; exact ⟨Or.inl rfl, by simp [sent]⟩
  · by_cases hs : r.cmd = bSelect
    · have hne : bSelect ≠ bPing := by decide
      unfold parseStep at h ⊢
      simp only [hs, hne, ↓reduceIte] at h ⊢
      cases ha : r.args with
      | nil => simp [ha] at h
      | cons a rest =>
        cases rest with
        | cons _ _ => simp [ha] at h
        | nil =>
          simp only [ha] at h ⊢
          cases hn : atoi? a with
          | none => simp [hn] at h
          | some n =>
            simp only [hn] at h ⊢
            cases hdb : c.filterDb n
            · simp only [hdb, Bool.false_eq_true, ↓reduceIte] at h ⊢
              cases hf : c.filterCmdKey bSelect [a] with
              | none => simp [hf] at h
              | some x =>
                simp only [hf] at h ⊢
                by_cases h0 : 0 ≤ n
                · simp only [h0, ↓reduceIte] at h ⊢
                  by_cases hch : (selectDB c s.currentDB n).2 = true
                  · simp only [hch, ↓reduceIte] at h ⊢
                    injection h with h; subst h; exact ⟨Or.inl rfl, rfl⟩
                  · simp [hch] at h
                · simp only [h0, ↓reduceIte] at h ⊢
                  injection h with h; subst h; exact ⟨Or.inl rfl, by simp [sent]⟩
            · simp [hdb] at h
    · rw [parseStep_data c s r hp hs] at h ⊢
      by_cases h1 : c.filterCmd r.cmd = true
      · simp [h1] at h
      · by_cases h2 : r.cmd = bPublish ∧ (r.args.head?.map lower) = some bSentinelHello
        · simp [h1, h2] at h
        · by_cases h3 : s.bypass = true ∧ closesTxn s r.cmd = false
          · simp [h1, h2, h3] at h
          · simp only [h1, h2, h3, Bool.false_eq_true, ↓reduceIte] at h ⊢
            cases hf : c.filterCmdKey r.cmd r.args with
            | none => rw [hf] at h; simp at h
            | some a =>
              rw [hf] at h
              simp only at h ⊢
              injection h with h; subst h
              refine ⟨?_, by simp [sent]⟩
              by_cases hc : closesTxn s r.cmd = true
              · right
                have he : r.cmd = bExec := by
                  simp only [closesTxn, Bool.and_eq_true, decide_eq_true_eq] at hc; exact hc.1.2
                exact ⟨by simp [hc], he⟩
              · left; simp [hc]

theorem parseStep_skip_lastSent (c : PCfg) (s : PState) (r : Raw) (s' : PState)
    (h : parseStep c s r = (s', POut.skip)) : s'.lastSent = s.lastSent := by
  by_cases hp : r.cmd = bPing
  · unfold parseStep at h
    simp only [hp, ↓reduceIte] at h
    cases hf : c.filterCmdKey bPing r.args with
    | none => simp [hf] at h; rw [← h]
    | some a =>
      simp only [hf] at h
      cases hb : s.bypass <;> simp [hb] at h
      rw [← h]
  · by_cases hs : r.cmd = bSelect
    · have hne : bSelect ≠ bPing := by decide
      unfold parseStep at h
      simp only [hs, hne, ↓reduceIte] at h
      cases ha : r.args with
      | nil => simp [ha] at h
      | cons a rest =>
        cases rest with
        | cons _ _ => simp [ha] at h
        | nil =>
          simp only [ha] at h
          cases hn : atoi? a with
          | none => simp [hn] at h
          | some n =>
            simp only [hn] at h
            cases hdb : c.filterDb n
            · simp only [hdb, Bool.false_eq_true, ↓reduceIte] at h
              cases hf : c.filterCmdKey bSelect [a] with
              | none => simp [hf] at h; rw [← h]
              | some x =>
                simp only [hf] at h
                by_cases h0 : 0 ≤ n
                · simp only [h0, ↓reduceIte] at h
                  by_cases hch : (selectDB c s.currentDB n).2 = true
                  · simp [hch] at h
                  · simp [hch] at h; rw [← h]
                · simp [h0] at h
            · simp [hdb] at h; rw [← h]
    · rw [parseStep_data c s r hp hs] at h
      by_cases h1 : c.filterCmd r.cmd = true
      · simp [h1] at h; rw [← h]
      · by_cases h2 : r.cmd = bPublish ∧ (r.args.head?.map lower) = some bSentinelHello
        · simp [h1, h2] at h; rw [← h]
        · by_cases h3 : s.bypass = true ∧ closesTxn s r.cmd = false
          · simp [h1, h2, h3] at h; rw [← h]
          · simp only [h1, h2, h3, Bool.false_eq_true, ↓reduceIte] at h
            cases hf : c.filterCmdKey r.cmd r.args with
            | none => rw [hf] at h; simp at h; rw [← h]
            | some a => rw [hf] at h; simp at h

/-- the parser never reorders or invents positions: with source offsets increasing
    from at least `lastSent`, the offsets it hands to the sender never decrease -/
theorem parseAll_offsets_mono (c : PCfg) (raws : List Raw) (s : PState)
    (hraw : (raws.map (·.off)).Pairwise (· < ·)) (hlo : ∀ r ∈ raws, s.lastSent ≤ r.off) :
    ((parseAll c s raws).map (·.offset)).Pairwise (· ≤ ·) ∧
    ∀ i ∈ parseAll c s raws, s.lastSent ≤ i.offset := by
  induction raws generalizing s with
  | nil => simp [parseAll]
  | cons r rest ih =>
    have hr : s.lastSent ≤ r.off := hlo r (List.mem_cons_self ..)
    simp only [List.map_cons, List.pairwise_cons] at hraw
    have hrest_lo : ∀ r' ∈ rest, r.off ≤ r'.off := by
      intro r' hr'
      have := hraw.1 r'.off (List.mem_map.mpr ⟨r', hr', rfl⟩); omega
    simp only [parseAll]
    cases hps : parseStep c s r with
    | mk s' o =>
      cases o with
      | fail => simp
      | skip =>
        simp only
        -- a skipped command does not move lastSent (select/bypass steps keep it)
        have hl : s'.lastSent = s.lastSent := by
          have := parseStep_skip_lastSent c s r s' (by rw [hps])
          exact this
        have := ih s' hraw.2 (fun r' hr' => by rw [hl]; have := hrest_lo r' hr'; omega)
        exact ⟨this.1, fun i hi => by have := this.2 i hi; rw [hl] at this; exact this⟩
      | emit i =>
        simp only
        obtain ⟨hoff, hls⟩ := parseStep_emit_off c s r i (by rw [hps])
        rw [hps] at hls
        simp only at hls
        have hile : i.offset ≤ r.off := by rcases hoff with h | ⟨h, _⟩ <;> omega
        have hige : s.lastSent ≤ i.offset := by rcases hoff with h | ⟨h, _⟩ <;> omega
        have := ih s' hraw.2 (fun r' hr' => by rw [hls]; have := hrest_lo r' hr'; omega)
        refine ⟨?_, ?_⟩
        · simp only [List.map_cons, List.pairwise_cons]
          refine ⟨?_, this.1⟩
          intro x hx
          obtain ⟨j, hj, rfl⟩ := List.mem_map.mp hx
          have := this.2 j hj; rw [hls] at this; exact this
        · intro j hj
          rcases List.mem_cons.mp hj with rfl | hj'
          · exact hige
          · have := this.2 j hj'; rw [hls] at this; omega

/-- what the sender's wire-order proof needs of its input: offsets never decrease,
    and only an `EXEC` may repeat the offset before it -/
def ItemsMono : Int → List Item → Prop
  | _, [] => True
  | last, it :: rest => last ≤ it.offset ∧ (it.cmd ≠ bExec → last < it.offset) ∧ ItemsMono it.offset rest

/-- the items of a schedule, in order -/
def itemsOf : List Ev → List Item
  | [] => []
  | .item it :: rest => it :: itemsOf rest
  | _ :: rest => itemsOf rest

/-- **The parser's output is what the sender assumes** (`Props.C02.SMono`): for
    a source stream whose command END offsets increase strictly from above the
    start offset, every item offset is above the previous one, except that the
    `EXEC` closing a transaction inside a filtered database repeats it. -/
theorem parseAll_itemsMono (c : PCfg) (raws : List Raw) (s : PState)
    (hraw : (raws.map (·.off)).Pairwise (· < ·)) (hlo : ∀ r ∈ raws, s.lastSent < r.off) :
    ItemsMono s.lastSent (parseAll c s raws) := by
  induction raws generalizing s with
  | nil => simp [parseAll, ItemsMono]
  | cons r rest ih =>
    have hr : s.lastSent < r.off := hlo r (List.mem_cons_self ..)
    simp only [List.map_cons, List.pairwise_cons] at hraw
    have hrest_lo : ∀ r' ∈ rest, r.off < r'.off := by
      intro r' hr'
      exact hraw.1 r'.off (List.mem_map.mpr ⟨r', hr', rfl⟩)
    simp only [parseAll]
    cases hps : parseStep c s r with
    | mk s' o =>
      cases o with
      | fail => simp [ItemsMono]
      | skip =>
        simp only
        have hl : s'.lastSent = s.lastSent := parseStep_skip_lastSent c s r s' (by rw [hps])
        have := ih s' hraw.2 (fun r' hr' => by rw [hl]; have := hrest_lo r' hr'; omega)
        rw [hl] at this; exact this
      | emit i =>
        simp only
        obtain ⟨hoff, hls⟩ := parseStep_emit_off c s r i (by rw [hps])
        rw [hps] at hls
        simp only at hls
        have hile : i.offset ≤ r.off := by rcases hoff with h | ⟨h, _⟩ <;> omega
        have := ih s' hraw.2 (fun r' hr' => by rw [hls]; have := hrest_lo r' hr'; omega)
        rw [hls] at this
        refine ⟨?_, ?_, this⟩
        · rcases hoff with h | ⟨h, _⟩ <;> omega
        · intro hne
          rcases hoff with h | ⟨_, h⟩
          · omega
          · exact absurd h hne

end GunYu.Sender
