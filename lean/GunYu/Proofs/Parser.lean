/-
  Parser-side lemmas for C01/C02: `parseStep` / `parseAll`.
-/
import GunYu.Model.Sender
import GunYu.Proofs.Decimal
import GunYu.Proofs.TargetSeq

namespace GunYu.Sender
open GunYu GunYu.Decimal GunYu.Target

theorem natToDec_head_digit (n : Nat) : ∃ b rest, natToDec n = b :: rest ∧ isDigit b = true := by
  have hne := natToDec_ne_nil n
  cases h : natToDec n with
  | nil => exact absurd h hne
  | cons b rest =>
    refine ⟨b, rest, rfl, ?_⟩
    apply natToDec_all_digit n
    rw [h]; exact List.mem_cons_self ..

/-- `strconv.Atoi` reads back what `strconv.Itoa` printed -/
theorem atoi?_intToDec (k : Int) : atoi? (intToDec k) = some k := by
  unfold intToDec
  by_cases hk : k < 0
  · simp only [hk, ↓reduceIte, atoi?, decToNat?_natToDec, Option.map_some]
    congr 1
    show -(k.natAbs : Int) = k
    omega
  · simp only [hk, ↓reduceIte]
    obtain ⟨b, rest, hb, hd⟩ := natToDec_head_digit k.toNat
    have h45 : b ≠ 45 := by
      intro h; subst h; simp [isDigit] at hd
    have h43 : b ≠ 43 := by
      intro h; subst h; simp [isDigit] at hd
    have : atoi? (natToDec k.toNat) = (decToNat? (natToDec k.toNat)).map Int.ofNat := by
      rw [hb]
      unfold atoi?
      split
      · rename_i heq; simp at heq; exact absurd heq.1 h45
      · rename_i heq; simp at heq; exact absurd heq.1 h43
      · rfl
    rw [this, decToNat?_natToDec]
    simp only [Option.map_some]
    congr 1
    have := Int.toNat_of_nonneg (a := k) (by omega)
    simp only [Int.ofNat_eq_natCast]
    omega

theorem selArg_selectItem (cur db : Int) (off : Int) :
    selArg cur (selectItem db off).args = db := by
  simp [selectItem, selArg, atoi?_intToDec]

/-! ### what one parser step can do -/

/-- A source `SELECT n` (n ≥ 0) to a database that is not filtered and whose
    command passes the key filter leaves the parser in the mapped database, and
    forwards `select <mapped>` exactly when that differs from the database the
    target connection is already in. -/
theorem parseStep_select (c : PCfg) (s : PState) (a : Bytes) (n : Int) (off : Int)
    (ha : atoi? a = some n) (hn : 0 ≤ n) (hdb : c.filterDb n = false)
    (hk : (c.filterCmdKey bSelect [a]).isSome) :
    (parseStep c s { cmd := bSelect, args := [a], off := off }).1 =
        { currentDB := mapDb c n, bypass := false } ∧
    (parseStep c s { cmd := bSelect, args := [a], off := off }).2 =
        (if mapDb c n ≠ s.currentDB then POut.emit (selectItem (mapDb c n) off) else POut.skip) := by
  have hne : bSelect ≠ bPing := by decide
  obtain ⟨x, hx⟩ := Option.isSome_iff_exists.mp hk
  have hn1 : n ≠ -1 := by omega
  unfold parseStep
  simp only [hne, ↓reduceIte, ha, hdb, hx, hn, selectDB, hn1, Bool.false_eq_true]
  by_cases hch : mapDb c n = s.currentDB
  · simp [hch]
  · simp [hch]

/-- A `SELECT` to a filtered database forwards nothing and puts the parser in
    bypass: every following command is withheld until the next SELECT. -/
theorem parseStep_select_filtered (c : PCfg) (s : PState) (a : Bytes) (n : Int) (off : Int)
    (ha : atoi? a = some n) (hdb : c.filterDb n = true) :
    parseStep c s { cmd := bSelect, args := [a], off := off } =
      ({ s with bypass := true }, POut.skip) := by
  have hne : bSelect ≠ bPing := by decide
  unfold parseStep
  simp [hne, ha, hdb]

/-- An ordinary command (not PING / SELECT) is forwarded iff the parser is not
    in bypass, the command is not blacklisted, it is not the sentinel hello and
    its keys pass the filter; what is forwarded is the command with exactly the
    filtered argument list, its END offset and the parser's current database. -/
theorem parseStep_data (c : PCfg) (s : PState) (r : Raw) (hp : r.cmd ≠ bPing) (hs : r.cmd ≠ bSelect) :
    parseStep c s r =
      (s, if c.filterCmd r.cmd then POut.skip
          else if r.cmd = bPublish ∧ (r.args.head?.map lower) = some bSentinelHello then POut.skip
          else if s.bypass ∧ r.cmd ≠ bMulti ∧ r.cmd ≠ bExec then POut.skip
          else match c.filterCmdKey r.cmd r.args with
            | none => POut.skip
            | some a => POut.emit { cmd := r.cmd, args := a, offset := r.off, db := s.currentDB }) := by
  unfold parseStep
  simp only [hp, hs, ↓reduceIte]
  split
  · rfl
  · split
    · rfl
    · split
      · rfl
      · rename_i h1 h2 h3
        cases hf : c.filterCmdKey r.cmd r.args <;> simp

/-- offsets of what the parser emits are offsets of source commands, in order:
    nothing is reordered, duplicated or invented by the parser -/
theorem parseStep_emit_off (c : PCfg) (s : PState) (r : Raw) (i : Item)
    (h : (parseStep c s r).2 = POut.emit i) : i.offset = r.off := by
  by_cases hp : r.cmd = bPing
  · unfold parseStep at h
    simp only [hp, ↓reduceIte] at h
    cases hf : c.filterCmdKey bPing r.args with
    | none => simp [hf] at h
    | some a =>
      simp only [hf] at h
      cases hb : s.bypass <;> simp [hb] at h
      subst h; rfl
  · by_cases hs : r.cmd = bSelect
    · have hne : bSelect ≠ bPing := by decide
      unfold parseStep at h
      simp only [hs, hne, ↓reduceIte] at h
      cases ha : r.args with
      | nil => simp [ha] at h
      | cons a rest =>
        cases rest with
        | cons _ _ => simp [ha] at h
        | nil =>
          simp only [ha] at h
          cases hn : atoi? a with
          | none => simp [hn] at h
          | some n =>
            simp only [hn] at h
            cases hdb : c.filterDb n
            · simp only [hdb, Bool.false_eq_true, ↓reduceIte] at h
              cases hf : c.filterCmdKey bSelect [a] with
              | none => simp [hf] at h
              | some x =>
                simp only [hf] at h
                by_cases h0 : 0 ≤ n
                · simp only [h0, ↓reduceIte] at h
                  by_cases hch : (selectDB c s.currentDB n).2 = true
                  · simp only [hch, ↓reduceIte] at h
                    injection h with h; subst h; rfl
                  · simp [hch] at h
                · simp only [h0, ↓reduceIte] at h
                  injection h with h; subst h; rfl
            · simp [hdb] at h
    · rw [parseStep_data c s r hp hs] at h
      simp only at h
      split at h
      · cases h
      · split at h
        · cases h
        · split at h
          · cases h
          · split at h
            · cases h
            · injection h with h; subst h; rfl

theorem parseAll_offsets_sublist (c : PCfg) (s : PState) (raws : List Raw) :
    List.Sublist ((parseAll c s raws).map (·.offset)) (raws.map (·.off)) := by
  induction raws generalizing s with
  | nil => simp [parseAll]
  | cons r rest ih =>
    simp only [parseAll]
    split
    · exact List.Sublist.cons _ (ih _)
    · rename_i s' i heq
      have : i.offset = r.off := parseStep_emit_off c s r i (by rw [heq])
      simp only [List.map_cons, this]
      exact List.Sublist.cons_cons _ (ih _)
    · simp

end GunYu.Sender
