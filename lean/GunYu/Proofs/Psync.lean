/-
  Helper lemmas for C06 (Props/C06.lean): the cache query API under `CacheWF`,
  the start point, the admission rule, and the shape of `syncMeta`'s result.
-/
import GunYu.Model.Psync

namespace GunYu.Psync

/-! ### cache queries under well-formedness (both backends agree) -/

def rdbCovers (c : Cache) (off : Int) : Prop :=
  match c.rdb with | some (left, _) => off ≤ left | none => False
def aofCovers (c : Cache) (off : Int) : Prop :=
  match c.aof with | some (l, r) => l ≤ off ∧ off ≤ r | none => False

theorem inRange_iff {c : Cache} (h : CacheWF c) (off : Int) :
    c.inRange off = true ↔ rdbCovers c off ∨ aofCovers c off := by
  obtain ⟨be, rid, rdb, aof⟩ := c
  obtain ⟨ha, hr, hc⟩ := h
  cases be <;> cases rdb <;> cases aof <;>
    simp only [Cache.inRange, Cache.range, maxInt64, rdbCovers, aofCovers] <;>
    (try rename_i x; obtain ⟨a, b⟩ := x) <;> (try rename_i y; obtain ⟨a', b'⟩ := y) <;>
    simp
  all_goals (simp only [maxInt64] at ha hr hc; omega)

end GunYu.Psync
